import CCVerif.Lemmas.Thesaurus
/-!
Text layer of C07, second part: renaming WITH substitution and the `Translate*` family
(`SetAliasFor(…, substitute)`, `SubstitueAliases`, `Translate`, `TranslateTerm`, `TranslateDef`,
`TranslateAll` of `Thesaurus.cpp`) preserve the invariant `WF` of `Lemmas/Thesaurus.lean`.

* §1 `GOK`: what the loop of `TranslateAll` preserves (distinct uids, each graph broken or current, no
  fault) — `UpdateState` turns such a state into a well-formed one (`WF.of_updateState`)
* §2 one round of the loop (`trStep`): `graphCur_setDef` for both graphs, then the fold
* §3 the single-entity forms: `TranslateDef` (as `SetDefinitionFor`), `TranslateTerm` / `Translate`
  (an edit of the term AND the definition text of the target, then `OnTermChange`)
* §4 histories: `Admissible2`, `WF.run2`

None of this needs a law about `L.translate`: the statement compares the incremental state with a rebuild
of the SAME (translated) content. What renaming means for the resolved texts is §5 (`TrLawful`).
-/
set_option linter.unusedSectionVars false
namespace CCVerif.Thesaurus
open CCVerif CCVerif.Graph
open CCVerif.Schema (sortDedup lookup mem_sortDedup)
open CCVerif.SchemaGen (GraphCur buildStep Cst Analysis)

variable {T F : Type} [DecidableEq T] [DecidableEq F] {L : Lang T F}

/-! ## §1 the loop invariant of `TranslateAll` -/

structure GOK (L : Lang T F) (st : St T F) : Prop where
  nodup : (uids st.store).Nodup
  tg : TGraphOK L st
  dg : DGraphOK L st
  ok : st.stuck = false

theorem WF.gok {st : St T F} (h : WF L st) : GOK L st := ⟨h.nodup, h.tg, h.dg, h.ok⟩

theorem GOK.updateState (hL : Lawful L) {st : St T F} (h : GOK L st) : WF L (st.updateState L) :=
  (WF.of_updateState hL h.nodup h.tg h.dg h.ok).1

/-- `tGraph_edit` from the weaker hypotheses -/
theorem tGraph_edit' {so : St T F} (hn0 : (uids so.store).Nodup) (htg : TGraphOK L so) {c : TCst T F}
    (hc : c ∈ so.store) (f : TCst T F → TCst T F) (t : T)
    (hf : ∀ x, (f x).uid = x.uid ∧ (f x).alias = x.alias ∧ (f x).termRaw = t)
    {st : St T F} (hs : st.store = modifyAt so.store c.uid f) (hg : st.tGraph = so.tGraph)
    (hi : st.tInvalid = so.tInvalid) :
    TGraphOK L (st.tUpdateFor L c.uid) ∧ (st.tUpdateFor L c.uid).store = st.store ∧
    (st.tUpdateFor L c.uid).tCache = st.tCache ∧ (st.tUpdateFor L c.uid).dCache = st.dCache ∧
    (st.tUpdateFor L c.uid).dGraph = st.dGraph ∧ (st.tUpdateFor L c.uid).dInvalid = st.dInvalid ∧
    (st.tUpdateFor L c.uid).stuck = st.stuck := by
  have hn : (uids st.store).Nodup := by rw [hs, uids_modifyAt _ _ _ (fun x => (hf x).1)]; exact hn0
  rcases htg with h | ⟨h, hgc⟩
  · rw [tUpdateFor_invalid (by rw [hi]; exact h)]
    exact ⟨Or.inl (by rw [hi]; exact h), rfl, rfl, rfl, rfl, rfl, rfl⟩
  · have hfc : f c ∈ st.store := by rw [hs]; exact mem_modifyAt_self hc
    have hfu : (f c).uid = c.uid := (hf c).1
    have := tUpdateFor_of_mem (L := L) hn (by rw [hi]; exact h) hfc
    rw [hfu] at this
    rw [this]
    refine ⟨Or.inr ⟨by rw [← h, ← hi], ?_⟩, rfl, rfl, rfl, rfl, rfl, rfl⟩
    show GraphCur (gA L) (tView st.store) (buildStep (gA L) (tView st.store) st.tGraph (tv (f c)))
    rw [hs, hg, tView_modifyAt _ _ _ t hf]
    have hc' : tv c ∈ tView so.store := List.mem_map.2 ⟨c, hc, rfl⟩
    have := SchemaGen.graphCur_setDef (A := gA L) (by rw [uids_tView]; exact hn0) hgc hc' t
    have e : tv (f c) = ({ tv c with defn := t } : Cst T) := by
      obtain ⟨h1, h2, h3⟩ := hf c
      simp only [tv, h1, h2, h3]
    rw [e]
    exact this

theorem dGraph_edit' {so : St T F} (hn0 : (uids so.store).Nodup) (hdg : DGraphOK L so) {c : TCst T F}
    (hc : c ∈ so.store) (f : TCst T F → TCst T F) (t : T)
    (hf : ∀ x, (f x).uid = x.uid ∧ (f x).alias = x.alias ∧ (f x).defRaw = t)
    {st : St T F} (hs : st.store = modifyAt so.store c.uid f) (hg : st.dGraph = so.dGraph)
    (hi : st.dInvalid = so.dInvalid) :
    DGraphOK L (st.dUpdateFor L c.uid) ∧ (st.dUpdateFor L c.uid).store = st.store ∧
    (st.dUpdateFor L c.uid).tCache = st.tCache ∧ (st.dUpdateFor L c.uid).dCache = st.dCache ∧
    (st.dUpdateFor L c.uid).tGraph = st.tGraph ∧ (st.dUpdateFor L c.uid).tInvalid = st.tInvalid ∧
    (st.dUpdateFor L c.uid).stuck = st.stuck := by
  have hn : (uids st.store).Nodup := by rw [hs, uids_modifyAt _ _ _ (fun x => (hf x).1)]; exact hn0
  rcases hdg with h | ⟨h, hgc⟩
  · rw [dUpdateFor_invalid (by rw [hi]; exact h)]
    exact ⟨Or.inl (by rw [hi]; exact h), rfl, rfl, rfl, rfl, rfl, rfl⟩
  · have hfc : f c ∈ st.store := by rw [hs]; exact mem_modifyAt_self hc
    have hfu : (f c).uid = c.uid := (hf c).1
    have := dUpdateFor_of_mem (L := L) hn (by rw [hi]; exact h) hfc
    rw [hfu] at this
    rw [this]
    refine ⟨Or.inr ⟨by rw [← h, ← hi], ?_⟩, rfl, rfl, rfl, rfl, rfl, rfl⟩
    show GraphCur (gA L) (dView st.store) (buildStep (gA L) (dView st.store) st.dGraph (dv (f c)))
    rw [hs, hg, dView_modifyAt _ _ _ t hf]
    have hc' : dv c ∈ dView so.store := List.mem_map.2 ⟨c, hc, rfl⟩
    have := SchemaGen.graphCur_setDef (A := gA L) (by rw [uids_dView]; exact hn0) hgc hc' t
    have e : dv (f c) = ({ dv c with defn := t } : Cst T) := by
      obtain ⟨h1, h2, h3⟩ := hf c
      simp only [dv, h1, h2, h3]
    rw [e]
    exact this

/-! ## §2 one round of `TranslateAll` -/

/-- `modifyAt` with a function of the record = `modifyAt` with its value at THE record of that uid -/
theorem modifyAt_const {s : List (TCst T F)} (hn : (uids s).Nodup) {c : TCst T F} (hc : c ∈ s)
    (f g : TCst T F → TCst T F) (h : f c = g c) : modifyAt s c.uid f = modifyAt s c.uid g :=
  modifyAt_congr (fun x hx hu => by rw [eq_of_uid_eq hn hx hc hu]; exact h)

/-- `term.TranslateRefs` of the entity `c` -/
theorem trTerm_spec {st : St T F} (hn : (uids st.store).Nodup) {c : TCst T F} (hc : c ∈ st.store)
    (f : String → Option String) :
    (st.trTerm L f c.uid).store = modifyAt st.store c.uid (fun x => { x with termRaw := L.translate f c.termRaw }) ∧
    (st.trTerm L f c.uid).tCache = setCache st.tCache c.uid (L.resolve (L.translate f c.termRaw)
      (ctxOfL L (modifyAt st.store c.uid (fun x => { x with termRaw := L.translate f c.termRaw })) st.tCache)) ∧
    (st.trTerm L f c.uid).dCache = st.dCache ∧ (st.trTerm L f c.uid).tGraph = st.tGraph ∧
    (st.trTerm L f c.uid).tInvalid = st.tInvalid ∧ (st.trTerm L f c.uid).dGraph = st.dGraph ∧
    (st.trTerm L f c.uid).dInvalid = st.dInvalid ∧ (st.trTerm L f c.uid).stuck = st.stuck := by
  have e := modifyAt_const hn hc (fun x => { x with termRaw := L.translate f x.termRaw })
    (fun x => { x with termRaw := L.translate f c.termRaw }) rfl
  unfold St.trTerm
  rw [at_of_mem hn hc]
  simp only [St.ctx]
  rw [e]
  simp

/-- `definition.TranslateRefs` of the entity `c` -/
theorem trDef_spec {st : St T F} (hn : (uids st.store).Nodup) {c : TCst T F} (hc : c ∈ st.store)
    (f : String → Option String) :
    (st.trDef L f c.uid).store = modifyAt st.store c.uid (fun x => { x with defRaw := L.translate f c.defRaw }) ∧
    (st.trDef L f c.uid).dCache = setCache st.dCache c.uid (L.resolve (L.translate f c.defRaw)
      (ctxOfL L (modifyAt st.store c.uid (fun x => { x with defRaw := L.translate f c.defRaw })) st.tCache)) ∧
    (st.trDef L f c.uid).tCache = st.tCache ∧ (st.trDef L f c.uid).tGraph = st.tGraph ∧
    (st.trDef L f c.uid).tInvalid = st.tInvalid ∧ (st.trDef L f c.uid).dGraph = st.dGraph ∧
    (st.trDef L f c.uid).dInvalid = st.dInvalid ∧ (st.trDef L f c.uid).stuck = st.stuck := by
  have e := modifyAt_const hn hc (fun x => { x with defRaw := L.translate f x.defRaw })
    (fun x => { x with defRaw := L.translate f c.defRaw }) rfl
  unfold St.trDef
  rw [at_of_mem hn hc]
  simp only [St.ctx]
  rw [e]
  simp

/-- one round of the loop of `TranslateAll` for the entity `c`: the content of `c` is translated, both graphs
stay acceptable, the caches of every other entity are untouched -/
theorem trStep_spec {st : St T F} (h : GOK L st) {c : TCst T F} (hc : c ∈ st.store) (f : String → Option String) :
    GOK L (st.trStep L f c.uid) ∧
    (st.trStep L f c.uid).store = modifyAt st.store c.uid
      (fun x => { x with termRaw := L.translate f c.termRaw, defRaw := L.translate f c.defRaw }) ∧
    (∀ v, v ≠ c.uid → (st.trStep L f c.uid).tCache v = st.tCache v) ∧
    (∀ v, v ≠ c.uid → (st.trStep L f c.uid).dCache v = st.dCache v) := by
  obtain ⟨a1, a2, a3, a4, a5, a6, a7, a8⟩ := trTerm_spec (L := L) h.nodup hc f
  have hc1 : ({ c with termRaw := L.translate f c.termRaw } : TCst T F) ∈ (st.trTerm L f c.uid).store := by
    rw [a1]; exact mem_modifyAt_self (f := fun x => { x with termRaw := L.translate f c.termRaw }) hc
  have hn1 : (uids (st.trTerm L f c.uid).store).Nodup := by
    rw [a1, uids_modifyAt _ _ (fun x => { x with termRaw := L.translate f c.termRaw }) (fun _ => rfl)]; exact h.nodup
  obtain ⟨b1, b2, b3, b4, b5, b6, b7, b8⟩ := trDef_spec (L := L) hn1 hc1 f
  let fc : TCst T F → TCst T F :=
    fun x => { x with termRaw := L.translate f c.termRaw, defRaw := L.translate f c.defRaw }
  have hs : ((st.trTerm L f c.uid).trDef L f c.uid).store = modifyAt st.store c.uid fc := by
    rw [b1, a1]
    exact modifyAt_modifyAt st.store c.uid _ _ (fun _ => rfl)
  obtain ⟨g1, g2, g3, g4, g5, g6, g7⟩ := dGraph_edit' (L := L) h.nodup h.dg hc fc (L.translate f c.defRaw)
    (fun _ => ⟨rfl, rfl, rfl⟩) (st := (st.trTerm L f c.uid).trDef L f c.uid) hs (b6.trans a6) (b7.trans a7)
  obtain ⟨k1, k2, k3, k4, k5, k6, k7⟩ := tGraph_edit' (L := L) h.nodup h.tg hc fc (L.translate f c.termRaw)
    (fun _ => ⟨rfl, rfl, rfl⟩) (st := ((st.trTerm L f c.uid).trDef L f c.uid).dUpdateFor L c.uid)
    (g2.trans hs) (g5.trans (b4.trans a4)) (g6.trans (b5.trans a5))
  show GOK L ((((st.trTerm L f c.uid).trDef L f c.uid).dUpdateFor L c.uid).tUpdateFor L c.uid) ∧
    ((((st.trTerm L f c.uid).trDef L f c.uid).dUpdateFor L c.uid).tUpdateFor L c.uid).store = modifyAt st.store c.uid fc ∧
    (∀ v, v ≠ c.uid → ((((st.trTerm L f c.uid).trDef L f c.uid).dUpdateFor L c.uid).tUpdateFor L c.uid).tCache v = st.tCache v) ∧
    (∀ v, v ≠ c.uid → ((((st.trTerm L f c.uid).trDef L f c.uid).dUpdateFor L c.uid).tUpdateFor L c.uid).dCache v = st.dCache v)
  refine ⟨⟨?_, k1, ?_, ?_⟩, k2.trans (g2.trans hs), ?_, ?_⟩
  · rw [k2, g2, hs, uids_modifyAt _ _ fc (fun _ => rfl)]; exact h.nodup
  · unfold DGraphOK
    rw [k6, k5, k2]
    exact g1
  · rw [k7, g7, b8, a8]; exact h.ok
  · intro v hv
    rw [k3, g3, b3, a2]
    simp [setCache, hv]
  · intro v hv
    rw [k4, g4, b2, a3]
    simp [setCache, hv]

/-- the loop of `TranslateAll` over any list of present uids -/
theorem trFold_spec (f : String → Option String) (l : List Nat) : ∀ st : St T F, GOK L st →
    (∀ u ∈ l, u ∈ uids st.store) →
    GOK L (l.foldl (fun s u => s.trStep L f u) st) ∧
    uids (l.foldl (fun s u => s.trStep L f u) st).store = uids st.store := by
  induction l with
  | nil => intro st h _; exact ⟨h, rfl⟩
  | cons u l ih =>
    intro st h hl
    obtain ⟨c, hc, rfl⟩ := mem_uids.1 (hl u (by simp))
    obtain ⟨s1, s2, _, _⟩ := trStep_spec h hc f
    have hu : uids (st.trStep L f c.uid).store = uids st.store := by
      rw [s2]
      exact uids_modifyAt _ _ (fun x => { x with termRaw := L.translate f c.termRaw, defRaw := L.translate f c.defRaw })
        (fun _ => rfl)
    rw [List.foldl_cons]
    obtain ⟨i1, i2⟩ := ih (st.trStep L f c.uid) s1
      (fun v hv => by rw [hu]; exact hl v (List.mem_cons_of_mem _ hv))
    exact ⟨i1, i2.trans hu⟩

/-- `Thesaurus::TranslateAll` makes any acceptable state well-formed, with the same uids -/
theorem GOK.translateAll (hL : Lawful L) {st : St T F} (h : GOK L st) (f : String → Option String) :
    WF L (st.translateAll L f) := by
  unfold St.translateAll
  exact (trFold_spec f (uids st.store) st h (fun u hu => hu)).1.updateState hL

/-! ## §3 the operations -/

theorem WF.translateAll (hL : Lawful L) {st : St T F} (h : WF L st) (m : List (String × String)) :
    WF L (Thesaurus.step L st (.translateAll m)) := GOK.translateAll hL h.gok _

/-- `SetAliasFor(target, newName, substitute)`, with or without substitution of the mentions -/
theorem WF.setAlias (hL : Lawful L) {st : St T F} (h : WF L st) (u : Nat) (a : String) (sb : Bool) :
    WF L (Thesaurus.step L st (.setAlias u a sb)) := by
  cases sb with
  | false => exact h.setAlias_plain hL u a
  | true =>
    simp only [Thesaurus.step]
    split
    · exact h
    · split
      · exact h
      · simp only [if_true]
        apply GOK.translateAll hL
        refine ⟨?_, Or.inl rfl, Or.inl rfl, h.ok⟩
        show (uids (modifyAt st.store u (fun x => { x with alias := a }))).Nodup
        rw [uids_modifyAt _ _ (fun x => { x with alias := a }) (fun _ => rfl)]; exact h.nodup

/-- `SubstitueAliases(map)` -/
theorem WF.substitute (hL : Lawful L) {st : St T F} (h : WF L st) (m : List (String × String)) :
    WF L (Thesaurus.step L st (.substitute m)) := by
  simp only [Thesaurus.step]
  apply GOK.translateAll hL
  refine ⟨?_, Or.inl rfl, Or.inl rfl, h.ok⟩
  show (uids (st.store.map (fun x => { x with alias := (lookup m x.alias).getD x.alias }))).Nodup
  have e : uids (st.store.map (fun x => { x with alias := (lookup m x.alias).getD x.alias })) = uids st.store := by
    unfold uids
    rw [List.map_map]
    rfl
  rw [e]; exact h.nodup

/-- `edit_sync` for an edit of the term side AND the definition text of `target` -/
theorem edit_sync' (hL : Lawful L) {so st : St T F} {target : Nat} (hso : WF L so)
    (f : TCst T F → TCst T F) (hf : ∀ x, (f x).uid = x.uid ∧ (f x).alias = x.alias)
    (hs : st.store = modifyAt so.store target f)
    (hc1 : ∀ u, u ≠ target → st.tCache u = so.tCache u)
    (hc2 : ∀ u, u ≠ target → st.dCache u = so.dCache u) :
    ∀ g, GraphCur (gA L) (tView st.store) g →
      TOk L st (fun u => ¬ Reach (Graph.edges g) target u) ∧ DOk L st (DefFar L st.store g target) := by
  intro g hg
  have hn : (uids st.store).Nodup := by rw [hs, uids_modifyAt _ _ _ (fun x => (hf x).1)]; exact hso.nodup
  have hfa : ∀ m, findAliasL st.store m = findAliasL so.store m := by
    intro m; rw [hs]; exact findAliasL_modifyAt _ _ _ hf m
  have htr : ∀ u w, ¬ Reach (Graph.edges g) target u → TVal L st.store u w → TVal L so.store u w := by
    intro u w hq hv
    refine TVal.transfer hL (fun x => ¬ Reach (Graph.edges g) target x) ?_ ?_ ?_ ?_ hv hq
    · intro c hc hqc m hm a ha hr
      exact hqc (hr.tail ((tEdge_iff hg hn a c.uid).2 ⟨c, hc, rfl, m, hm, ha⟩))
    · intro c hc hqc
      have hne : c.uid ≠ target := fun e => hqc (by rw [e]; exact Reach.refl _)
      rw [hs] at hc
      exact ⟨c, mem_modifyAt_ne (fun x => (hf x).1) hc hne, rfl, rfl⟩
    · intro c hc hqc m hm jf
      rw [hs]
      refine (ctxOfL_modifyAt_far _ _ _ hf jf m ?_).symm
      intro a ha e
      rw [← hfa] at ha
      apply hqc
      rw [← e]
      exact Reach.single ((tEdge_iff hg hn a c.uid).2 ⟨c, hc, rfl, m, hm, ha⟩)
    · intro c hc hqc m hm
      exact (hfa m).symm
  refine ⟨?_, ?_⟩
  · intro u w hq hv
    have hne : u ≠ target := fun e => hq (by rw [e]; exact Reach.refl _)
    rw [hc1 u hne]
    exact hso.tsync u w trivial (htr u w hq hv)
  · intro c hc hfar jf hd
    obtain ⟨hq, hdeps⟩ := hfar
    have hne : c.uid ≠ target := fun e => hq (by rw [e]; exact Reach.refl _)
    have hco : c ∈ so.store := by rw [hs] at hc; exact mem_modifyAt_ne (fun x => (hf x).1) hc hne
    rw [hc2 c.uid hne]
    have := hso.dsync c hco trivial jf (by
      intro m hm a ha
      rw [← hfa] at ha
      exact htr a (jf a) (hdeps c hc rfl m hm a ha) (hd m hm a ha))
    rw [this]
    apply hL.frame
    intro m hm
    rw [hs]
    refine (ctxOfL_modifyAt_far _ _ _ hf jf m ?_).symm
    intro a ha e
    rw [← hfa] at ha
    exact hdeps c hc rfl m hm a ha (by rw [e]; exact Reach.refl _)

/-- after any edit of the content of ONE present entity (aliases and uids untouched, the caches of the
other entities untouched, graphs acceptable), `OnTermChange(entity)` re-establishes the invariant -/
theorem WF.afterEdit (hL : Lawful L) {so st : St T F} {c : TCst T F} (hso : WF L so) (hc : c ∈ so.store)
    (f : TCst T F → TCst T F) (hf : ∀ x, (f x).uid = x.uid ∧ (f x).alias = x.alias)
    (hs : st.store = modifyAt so.store c.uid f)
    (hc1 : ∀ u, u ≠ c.uid → st.tCache u = so.tCache u)
    (hc2 : ∀ u, u ≠ c.uid → st.dCache u = so.dCache u)
    (htg : TGraphOK L st) (hdg : DGraphOK L st) (hok : st.stuck = false) :
    WF L (st.onTermChange L c.uid) := by
  have hu : uids st.store = uids so.store := by rw [hs, uids_modifyAt _ _ f (fun x => (hf x).1)]
  have hsync := edit_sync' hL hso f hf hs hc1 hc2
  exact (onTermChange_spec hL (by rw [hu]; exact hso.nodup) htg hdg hok
    (by rw [hu]; exact mem_uids.2 ⟨c, hc, rfl⟩)
    (fun g hg => (hsync g hg).1) (fun g hg => (hsync g hg).2)).1

/-- `Translate(target, map)` of a present entity -/
theorem WF.translate (hL : Lawful L) {st : St T F} (h : WF L st) {u : Nat} (hu : u ∈ uids st.store)
    (m : List (String × String)) : WF L (Thesaurus.step L st (.translate u m)) := by
  obtain ⟨c, hc, rfl⟩ := mem_uids.1 hu
  obtain ⟨s1, s2, s3, s4⟩ := trStep_spec h.gok hc (lookup m)
  exact WF.afterEdit hL h hc
    (fun x => { x with termRaw := L.translate (lookup m) c.termRaw, defRaw := L.translate (lookup m) c.defRaw })
    (fun _ => ⟨rfl, rfl⟩) s2 s3 s4 s1.tg s1.dg s1.ok

/-- `TranslateTerm(target, map)` of a present entity -/
theorem WF.translateTerm (hL : Lawful L) {st : St T F} (h : WF L st) {u : Nat} (hu : u ∈ uids st.store)
    (m : List (String × String)) : WF L (Thesaurus.step L st (.translateTerm u m)) := by
  obtain ⟨c, hc, rfl⟩ := mem_uids.1 hu
  obtain ⟨a1, a2, a3, a4, a5, a6, a7, a8⟩ := trTerm_spec (L := L) h.nodup hc (lookup m)
  let ft : TCst T F → TCst T F := fun x => { x with termRaw := L.translate (lookup m) c.termRaw }
  obtain ⟨k1, k2, k3, k4, k5, k6, k7⟩ := tGraph_edit' (L := L) h.nodup h.tg hc ft (L.translate (lookup m) c.termRaw)
    (fun _ => ⟨rfl, rfl, rfl⟩) (st := st.trTerm L (lookup m) c.uid) a1 a4 a5
  show WF L (((st.trTerm L (lookup m) c.uid).tUpdateFor L c.uid).onTermChange L c.uid)
  refine WF.afterEdit hL h hc ft (fun _ => ⟨rfl, rfl⟩) (k2.trans a1) ?_ ?_ k1 ?_ (by rw [k7, a8]; exact h.ok)
  · intro v hv
    rw [k3, a2]
    simp [setCache, hv]
  · intro v _
    rw [k4, a3]
  · unfold DGraphOK
    rw [k6, k5, k2, a7, a6, a1, dView_modifyAt_same _ _ ft (fun _ => ⟨rfl, rfl, rfl⟩)]
    exact h.dg

/-- an edit of the definition text of one present entity: the text is resolved in the context as it is, the
definition graph is updated (`SetDefinitionFor` past its early exit, `TranslateDef`) -/
theorem WF.editDef (hL : Lawful L) {st : St T F} (h : WF L st) {c : TCst T F} (hc : c ∈ st.store) (t : T)
    {st2 : St T F} (hs : st2.store = modifyAt st.store c.uid (fun x => { x with defRaw := t }))
    (hd : st2.dCache = setCache st.dCache c.uid
      (L.resolve t (ctxOfL L (modifyAt st.store c.uid (fun x => { x with defRaw := t })) st.tCache)))
    (ht : st2.tCache = st.tCache) (h4 : st2.tGraph = st.tGraph) (h5 : st2.tInvalid = st.tInvalid)
    (h6 : st2.dGraph = st.dGraph) (h7 : st2.dInvalid = st.dInvalid) (h8 : st2.stuck = st.stuck) :
    WF L (st2.dUpdateFor L c.uid) := by
  let f : TCst T F → TCst T F := fun x => { x with defRaw := t }
  obtain ⟨g1, g2, g3, g4, g5, g6, g7⟩ := dGraph_edit (L := L) h hc f t (fun _ => ⟨rfl, rfl, rfl⟩)
    (st := st2) hs h6 h7
  have hf4 : ∀ x, (f x).uid = x.uid ∧ (f x).alias = x.alias ∧ (f x).termRaw = x.termRaw ∧ (f x).manual = x.manual :=
    fun _ => ⟨rfl, rfl, rfl, rfl⟩
  have hfa : ∀ m, findAliasL (modifyAt st.store c.uid f) m = findAliasL st.store m :=
    fun m => findAliasL_modifyAt _ _ f (fun _ => ⟨rfl, rfl⟩) m
  have hn : (uids (modifyAt st.store c.uid f)).Nodup := by
    rw [uids_modifyAt _ _ f (fun _ => rfl)]; exact h.nodup
  have htr : ∀ v w, TVal L (modifyAt st.store c.uid f) v w → TVal L st.store v w := by
    intro v w hv
    refine TVal.transfer hL (fun _ => True) (fun _ _ _ _ _ _ _ => trivial) ?_ ?_ ?_ hv trivial
    · intro x hx _
      rcases mem_modifyAt_cases hx with ⟨y, hy, _, rfl⟩ | ⟨hx', _⟩
      · exact ⟨y, hy, rfl, rfl⟩
      · exact ⟨x, hx', rfl, rfl⟩
    · intro x _ _ m _ jf
      exact (ctxOfL_modifyAt_def _ _ f hf4 jf m).symm
    · intro x _ _ m _
      exact (hfa m).symm
  have hT : TOk L (St.dUpdateFor L st2 c.uid) (fun _ => True) := by
    intro v w _ hv
    rw [g2, hs] at hv
    rw [g3, ht]
    exact h.tsync v w trivial (htr v w hv)
  refine ⟨by rw [g2, hs]; exact hn, ?_, g1, hT, ?_, by rw [g7, h8]; exact h.ok⟩
  · unfold TGraphOK
    rw [g6, g5, g2, h5, h4, hs, tView_modifyAt_same _ _ f (fun _ => ⟨rfl, rfl, rfl⟩)]
    exact h.tg
  · intro x hx _ jf hd'
    rw [g2, hs] at hx hd'
    rw [g2, hs, g4, hd]
    rcases mem_modifyAt_cases hx with ⟨y, hy, hyu, rfl⟩ | ⟨hx', hne⟩
    · simp only [setCache]
      rw [if_pos hyu]
      show L.resolve t _ = L.resolve t _
      apply hL.frame
      intro m hm
      have hT1 : TOk L ({ st with store := modifyAt st.store c.uid f } : St T F) (fun _ => True) :=
        fun v w _ hv => h.tsync v w trivial (htr v w hv)
      exact ctx_agree hT1 (fun v hv' => ⟨trivial, hd' m hm v hv'⟩)
    · simp only [setCache, if_neg hne]
      rw [h.dsync x hx' trivial jf (fun m hm a ha => htr a (jf a) (hd' m hm a (by rw [hfa]; exact ha)))]
      apply hL.frame
      intro m _
      exact (ctxOfL_modifyAt_def _ _ f hf4 jf m).symm

/-- `TranslateDef(target, map)` of a present entity -/
theorem WF.translateDef (hL : Lawful L) {st : St T F} (h : WF L st) {u : Nat} (hu : u ∈ uids st.store)
    (m : List (String × String)) : WF L (Thesaurus.step L st (.translateDef u m)) := by
  obtain ⟨c, hc, rfl⟩ := mem_uids.1 hu
  obtain ⟨b1, b2, b3, b4, b5, b6, b7, b8⟩ := trDef_spec (L := L) h.nodup hc (lookup m)
  exact WF.editDef hL h hc (L.translate (lookup m) c.defRaw) (st2 := st.trDef L (lookup m) c.uid) b1 b2 b3 b4 b5 b6 b7 b8

/-! ## §4 histories -/

/-- admissible operation in a state, second version: EVERY operation of the text layer, with two side
conditions — the alias of an erased entity is not shared with another entity (`RSCore`'s identity manager
issues unique aliases), and the single-entity `Translate` / `TranslateTerm` / `TranslateDef` address a present
entity (their `storage.at(target)` is unchecked: `std::out_of_range` otherwise). Renaming with or without
substitution, `SubstitueAliases` and `TranslateAll` are unrestricted. -/
def Admissible2 (st : St T F) : Op T F → Prop
  | .erase u => EraseOk st.store u
  | .translate u _ => u ∈ uids st.store
  | .translateTerm u _ => u ∈ uids st.store
  | .translateDef u _ => u ∈ uids st.store
  | _ => True

def AdmissibleFrom2 (L : Lang T F) : St T F → List (Op T F) → Prop
  | _, [] => True
  | st, op :: ops => Admissible2 st op ∧ AdmissibleFrom2 L (step L st op) ops

theorem WF.step2 (hL : Lawful L) {st : St T F} (h : WF L st) {op : Op T F} (ha : Admissible2 st op) :
    WF L (Thesaurus.step L st op) := by
  cases op with
  | insert c => exact h.insert hL c
  | erase u => exact h.erase hL u ha
  | setAlias u a sb => exact h.setAlias hL u a sb
  | setTerm u t => exact h.setTerm hL u t
  | setTermForm u t f => exact h.setTermForm hL u t f
  | setDef u t => exact h.setDef hL u t
  | substitute m => exact h.substitute hL m
  | translate u m => exact h.translate hL ha m
  | translateTerm u m => exact h.translateTerm hL ha m
  | translateDef u m => exact h.translateDef hL ha m
  | translateAll m => exact h.translateAll hL m
  | updateState => exact h.updateState hL

theorem WF.foldl2 (hL : Lawful L) (ops : List (Op T F)) : ∀ st : St T F, WF L st → AdmissibleFrom2 L st ops →
    WF L (ops.foldl (Thesaurus.step L) st) := by
  induction ops with
  | nil => intro st h _; exact h
  | cons op ops ih => intro st h ha; exact ih _ (h.step2 hL ha.1) ha.2

theorem WF.run2 (hL : Lawful L) {ops : List (Op T F)} (ha : AdmissibleFrom2 L (St.init L) ops) : WF L (Thesaurus.run L ops) :=
  WF.foldl2 hL ops _ WF_init ha

/-- the first notion of admissibility is a special case -/
theorem Admissible.to2 {st : St T F} {op : Op T F} (h : Admissible st op) : Admissible2 st op := by
  cases op <;> first | exact h | trivial | exact (h : False).elim

theorem AdmissibleFrom.to2 : ∀ (ops : List (Op T F)) (st : St T F), AdmissibleFrom L st ops → AdmissibleFrom2 L st ops
  | [], _, _ => trivial
  | _ :: ops, _, h => ⟨h.1.to2, AdmissibleFrom.to2 ops _ h.2⟩

end CCVerif.Thesaurus
