import CCVerif.Model.Convert
import CCVerif.Lemmas.Strings
import CCVerif.Lemmas.PrintLex3Print
/-!
Helper lemmas for the conversion model (`Model/Convert.lean`, C05):

* the bridge between units and bytes: `decode (encode u) = some u` for Unicode scalar values, `encode u = u` for bytes < 128;
* what a text that lexes WITHOUT an `INTERRUPT` token consists of (`lex_units_ok`): every unit is a unit of a literal of the
  rule table, alphanumeric, white space or a comma — from the regenerated rule tables; consequences: the ASCII lexer
  rejects every unit ≥ 128, a text the MATH parser accepts consists of scalar values;
* the printer does not see whether local names have been transliterated already (`print_translit`);
* the print → parse round trip of the fragment `E3` in the form "the parsed tree is the tree up to positions".
-/
namespace CCVerif.ConvertL
open CCVerif.Syntax CCVerif.Generated CCVerif.Lexer CCVerif.Parser CCVerif.Printer CCVerif.Convert
open CCVerif.Strings (encode encodeCp encode_cons encode_append)

/-! ## units and bytes -/

/-- Unicode scalar value -/
def isScalar (c : Nat) : Prop := c < 0xD800 ∨ (0xE000 ≤ c ∧ c < 0x110000)

instance (c : Nat) : Decidable (isScalar c) := by unfold isScalar; infer_instance

theorem decode_nil : decode [] = some [] := by rw [decode]

theorem decode_cons (b : Nat) (rest : List Nat) : decode (b :: rest) =
    if b < 0x80 then (decode rest).map (b :: ·)
    else if 0xC2 ≤ b ∧ b < 0xE0 then
      match rest with
      | c1 :: r => if 0x80 ≤ c1 ∧ c1 < 0xC0 then (decode r).map (((b - 0xC0) * 64 + (c1 - 0x80)) :: ·) else none
      | _ => none
    else if 0xE0 ≤ b ∧ b < 0xF0 then
      match rest with
      | c1 :: c2 :: r =>
        if 0x80 ≤ c1 ∧ c1 < 0xC0 ∧ 0x80 ≤ c2 ∧ c2 < 0xC0 then
          let cp := (b - 0xE0) * 4096 + (c1 - 0x80) * 64 + (c2 - 0x80)
          if cp < 0x800 ∨ (0xD800 ≤ cp ∧ cp < 0xE000) then none else (decode r).map (cp :: ·)
        else none
      | _ => none
    else if 0xF0 ≤ b ∧ b < 0xF5 then
      match rest with
      | c1 :: c2 :: c3 :: r =>
        if 0x80 ≤ c1 ∧ c1 < 0xC0 ∧ 0x80 ≤ c2 ∧ c2 < 0xC0 ∧ 0x80 ≤ c3 ∧ c3 < 0xC0 then
          let cp := (b - 0xF0) * 262144 + (c1 - 0x80) * 4096 + (c2 - 0x80) * 64 + (c3 - 0x80)
          if cp < 0x10000 ∨ cp ≥ 0x110000 then none else (decode r).map (cp :: ·)
        else none
      | _ => none
    else none := by
  conv => lhs; rw [decode.eq_def]
  rfl

theorem decode_encodeCp_append (c : Nat) (hc : isScalar c) (rest : List Nat) :
    decode (encodeCp c ++ rest) = (decode rest).map (c :: ·) := by
  unfold isScalar at hc
  unfold encodeCp
  by_cases h1 : c < 0x80
  · rw [if_pos h1]; show decode (c :: rest) = _
    rw [decode_cons, if_pos h1]
  · rw [if_neg h1]
    by_cases h2 : c < 0x800
    · rw [if_pos h2]; show decode ((192 + c / 64) :: (128 + c % 64) :: rest) = _
      rw [decode_cons, if_neg (by omega), if_pos (by omega)]
      simp only
      rw [if_pos (by omega)]
      have : (192 + c / 64 - 192) * 64 + (128 + c % 64 - 128) = c := by omega
      rw [this]
    · rw [if_neg h2]
      by_cases h3 : c < 0x10000
      · rw [if_pos h3]; show decode ((224 + c / 4096) :: (128 + c / 64 % 64) :: (128 + c % 64) :: rest) = _
        rw [decode_cons, if_neg (by omega), if_neg (by omega), if_pos (by omega)]
        simp only
        rw [if_pos (by omega)]
        have : (224 + c / 4096 - 224) * 4096 + (128 + c / 64 % 64 - 128) * 64 + (128 + c % 64 - 128) = c := by omega
        rw [this, if_neg (by omega)]
      · rw [if_neg h3]
        show decode ((240 + c / 262144) :: (128 + c / 4096 % 64) :: (128 + c / 64 % 64) :: (128 + c % 64) :: rest) = _
        rw [decode_cons, if_neg (by omega), if_neg (by omega), if_neg (by omega), if_pos (by omega)]
        simp only
        rw [if_pos (by omega)]
        have : (240 + c / 262144 - 240) * 262144 + (128 + c / 4096 % 64 - 128) * 4096 + (128 + c / 64 % 64 - 128) * 64 +
            (128 + c % 64 - 128) = c := by omega
        rw [this, if_neg (by omega)]

/-- **the bridge**: decoding the UTF-8 encoding of scalar values gives them back -/
theorem decode_encode : ∀ u : List Nat, (∀ c ∈ u, isScalar c) → decode (encode u) = some u
  | [], _ => decode_nil
  | c :: u, h => by
    rw [encode_cons, decode_encodeCp_append c (h c (by simp)), decode_encode u (fun x hx => h x (by simp [hx]))]
    rfl

/-- ASCII units are their own encoding -/
theorem encode_ascii : ∀ u : List Nat, (∀ c ∈ u, c < 128) → encode u = u
  | [], _ => rfl
  | c :: u, h => by
    rw [encode_cons, encode_ascii u (fun x hx => h x (by simp [hx]))]
    have : c < 128 := h c (by simp)
    simp [encodeCp, this]

/-! ## what a text that lexes without INTERRUPT consists of -/

/-- the fixed units of a pattern -/
def patUnits : LexPat → List Nat
  | .lit l => l
  | .withIndex pre => pre
  | .withNumber pre => pre
  | _ => []

/-- all fixed units of a rule table -/
def tableUnits (rules : List LexRule) : List Nat := rules.flatMap fun r => patUnits r.pat

/-- a unit that a rule other than the catch-all `.` can consume: a unit of a literal, alphanumeric, comma, white space -/
def okUnit (syn : Syn) (rules : List LexRule) (c : Nat) : Bool :=
  (tableUnits rules).contains c || isAlnum syn c || c == 44 || c == 32 || c == 9 || c == 13 || c == 10

theorem spanLen_take (p : Nat → Bool) : ∀ s : List Nat, ∀ x ∈ s.take (spanLen p s), p x = true
  | [], x, hx => by simp [spanLen] at hx
  | c :: r, x, hx => by
    unfold spanLen at hx
    by_cases hc : p c = true
    · rw [if_pos hc, List.take_succ_cons] at hx
      rcases List.mem_cons.mp hx with rfl | h
      · exact hc
      · exact spanLen_take p r x h
    · rw [if_neg hc] at hx; simp at hx

theorem mem_take_add {α : Type} (a b : Nat) (s : List α) (x : α) (h : x ∈ s.take (a + b)) :
    x ∈ s.take a ∨ x ∈ (s.drop a).take b := by
  rw [List.take_add] at h
  exact List.mem_append.mp h

theorem indexTail_take : ∀ (f : Nat) (s : List Nat), ∀ x ∈ s.take (indexTail f s), isDigit x = true ∨ x = 44
  | 0, s, x, hx => by simp [indexTail] at hx
  | f+1, [], x, hx => by simp at hx
  | f+1, c :: r, x, hx => by
    by_cases hc : c = 44
    · subst hc
      rw [LexP.indexTail_comma] at hx
      by_cases hk : (spanLen isDigit r == 0) = true
      · rw [if_pos hk] at hx; simp at hx
      · rw [if_neg hk, Nat.add_assoc, Nat.add_comm 1, List.take_succ_cons] at hx
        rcases List.mem_cons.mp hx with rfl | h
        · exact Or.inr rfl
        · rcases mem_take_add _ _ _ _ h with h1 | h2
          · exact Or.inl (spanLen_take isDigit r x h1)
          · exact indexTail_take f _ x h2
    · rw [LexP.indexTail_other (f + 1) c r hc] at hx; simp at hx

theorem indexLen_take (s : List Nat) : ∀ x ∈ s.take (indexLen s), isDigit x = true ∨ x = 44 := by
  intro x hx
  unfold indexLen at hx
  simp only at hx
  split at hx
  · simp at hx
  · rcases mem_take_add _ _ _ _ hx with h1 | h2
    · exact Or.inl (spanLen_take isDigit s x h1)
    · exact indexTail_take _ _ x h2

theorem isPrefix_take {l s : List Nat} (h : isPrefix l s = true) : s.take l.length = l := by
  have := LexP.isPrefix_eq h
  conv => lhs; rw [this]
  simp

theorem isDigit_alnum' {syn : Syn} {c : Nat} (h : isDigit c = true) : isAlnum syn c = true := by
  simp [isAlnum, h]

/-- every unit matched by a rule other than `.` is an `okUnit` -/
theorem matchPat_take (syn : Syn) (rules : List LexRule) (r : LexRule) (hr : r ∈ rules) (s : List Nat) (n : Nat)
    (hm : matchPat syn s r.pat = some n) (hany : r.pat ≠ .any) : ∀ x ∈ s.take n, okUnit syn rules x = true := by
  have htab : ∀ x ∈ patUnits r.pat, okUnit syn rules x = true := by
    intro x hx
    have : x ∈ tableUnits rules := List.mem_flatMap.mpr ⟨r, hr, hx⟩
    simp [okUnit, this]
  have hdig : ∀ x, isDigit x = true → okUnit syn rules x = true := by
    intro x hx; simp [okUnit, isDigit_alnum' (syn := syn) hx]
  have haln : ∀ x, isAlnum syn x = true → okUnit syn rules x = true := by
    intro x hx; simp [okUnit, hx]
  intro x hx
  cases hp : r.pat with
  | lit l =>
    rw [hp] at hm htab
    simp only [matchPat] at hm
    split at hm
    · rename_i h
      simp only [Bool.and_eq_true] at h
      cases hm
      rw [isPrefix_take h.2] at hx
      exact htab x hx
    · cases hm
  | withIndex pre =>
    rw [hp] at hm htab
    simp only [matchPat] at hm
    split at hm
    · rename_i h
      split at hm
      · cases hm
      · cases hm
        rcases mem_take_add _ _ _ _ hx with h1 | h2
        · rw [isPrefix_take h] at h1; exact htab x h1
        · rcases indexLen_take _ x h2 with h3 | h3
          · exact hdig x h3
          · subst h3; simp [okUnit]
    · cases hm
  | withNumber pre =>
    rw [hp] at hm htab
    simp only [matchPat] at hm
    split at hm
    · rename_i h
      split at hm
      · cases hm
      · cases hm
        rcases mem_take_add _ _ _ _ hx with h1 | h2
        · rw [isPrefix_take h] at h1; exact htab x h1
        · exact hdig x (spanLen_take _ _ x h2)
    · cases hm
  | number =>
    rw [hp] at hm
    simp only [matchPat] at hm
    split at hm
    · cases hm
    · cases hm; exact hdig x (spanLen_take _ _ x hx)
  | globalId =>
    rw [hp] at hm
    cases s with
    | nil => simp [matchPat] at hm
    | cons c rest =>
      simp only [matchPat] at hm
      split at hm
      · rename_i h
        cases hm
        rw [Nat.add_comm, List.take_succ_cons] at hx
        rcases List.mem_cons.mp hx with rfl | h2
        · exact haln _ (LexP.isGlobalStart_alnum h)
        · exact haln x (spanLen_take _ _ x h2)
      · cases hm
  | localId =>
    rw [hp] at hm
    cases s with
    | nil => simp [matchPat] at hm
    | cons c rest =>
      simp only [matchPat] at hm
      split at hm
      · rename_i h
        cases hm
        rw [Nat.add_comm, List.take_succ_cons] at hx
        rcases List.mem_cons.mp hx with rfl | h2
        · exact haln _ (LexP.isLocalStart_alnum h)
        · exact haln x (spanLen_take _ _ x h2)
      · cases hm
  | newline =>
    rw [hp] at hm
    cases s with
    | nil => simp [matchPat] at hm
    | cons c rest =>
      by_cases hc : c = 10
      · subst hc
        simp only [matchPat] at hm
        cases hm
        simp at hx; subst hx; simp [okUnit]
      · simp only [matchPat] at hm
        split at hm
        · rename_i heq; cases heq; exact absurd rfl hc
        · cases hm
  | blanks =>
    rw [hp] at hm
    simp only [matchPat] at hm
    split at hm
    · cases hm
    · cases hm
      have := spanLen_take _ _ x hx
      simp only [Bool.or_eq_true, beq_iff_eq] at this
      rcases this with h | h <;> subst h <;> simp [okUnit]
  | ws =>
    rw [hp] at hm
    simp only [matchPat] at hm
    split at hm
    · cases hm
    · cases hm
      have := spanLen_take _ _ x hx
      simp only [Bool.or_eq_true, beq_iff_eq] at this
      rcases this with ((h | h) | h) | h <;> subst h <;> simp [okUnit]
  | any => exact absurd hp hany
  | eof => rw [hp] at hm; simp [matchPat] at hm

/-- the winner of `bestRule` is the initial candidate or comes from a rule of the table -/
theorem bestRule_mem (syn : Syn) (s : List Nat) : ∀ (rules : List LexRule) (best : Option (Nat × LexAct)) (n : Nat) (a : LexAct),
    bestRule syn s rules best = some (n, a) →
    best = some (n, a) ∨ ∃ r ∈ rules, matchPat syn s r.pat = some n ∧ r.act = a
  | [], best, n, a, h => Or.inl h
  | r :: rs, best, n, a, h => by
    unfold bestRule at h
    split at h
    · rename_i k hk
      rcases bestRule_mem syn s rs _ n a h with h1 | ⟨r', hr', h2⟩
      · cases h1; exact Or.inr ⟨r, by simp, hk, rfl⟩
      · exact Or.inr ⟨r', by simp [hr'], h2⟩
    · rename_i k m a0 hk
      split at h
      · rcases bestRule_mem syn s rs _ n a h with h1 | ⟨r', hr', h2⟩
        · cases h1; exact Or.inr ⟨r, by simp, hk, rfl⟩
        · exact Or.inr ⟨r', by simp [hr'], h2⟩
      · rcases bestRule_mem syn s rs _ n a h with h1 | ⟨r', hr', h2⟩
        · exact Or.inl h1
        · exact Or.inr ⟨r', by simp [hr'], h2⟩
    · rcases bestRule_mem syn s rs _ n a h with h1 | ⟨r', hr', h2⟩
      · exact Or.inl h1
      · exact Or.inr ⟨r', by simp [hr'], h2⟩

/-- the catch-all rule `.` produces INTERRUPT (shape of both rule tables) -/
def anyInterrupt (rules : List LexRule) : Bool :=
  rules.all fun r => !(r.pat == .any) || r.act == .tok .INTERRUPT

theorem anyInterrupt_rules : ∀ syn, anyInterrupt (rulesOf syn) = true := by
  intro syn; cases syn <;> decide +kernel

theorem mem_of_mem_take_or_drop {α : Type} (n : Nat) (s : List α) (x : α) (h : x ∈ s) : x ∈ s.take n ∨ x ∈ s.drop n := by
  rw [← List.take_append_drop n s] at h
  exact List.mem_append.mp h

/-- **the scanning loop**: when no token of the result is INTERRUPT, every unit of the text is an `okUnit` -/
theorem lexGo_units (syn : Syn) (rules : List LexRule) (hany : anyInterrupt rules = true) :
    ∀ (fuel : Nat) (s : List Nat) (lb col : Nat) (ts : List RawTok), lexGo syn rules fuel s lb col = some ts →
      (∀ t ∈ ts, t.id ≠ .INTERRUPT) → ∀ x ∈ s, okUnit syn rules x = true
  | 0, s, lb, col, ts, h, _ => by simp [lexGo] at h
  | fuel+1, [], lb, col, ts, h, _ => by intro x hx; simp at hx
  | fuel+1, c :: r, lb, col, ts, h, hno => by
    unfold lexGo at h
    simp only at h
    split at h
    · cases h
    · cases h
    · rename_i n act hn0 hb
      rcases bestRule_mem syn (c :: r) rules none n act hb with h0 | ⟨rl, hrl, hm, hact⟩
      · cases h0
      -- the units of the rest
      have hrest : ∀ ts', lexGo syn rules fuel ((c :: r).drop n) lb (col + n) = some ts' ∨
          lexGo syn rules fuel ((c :: r).drop n) (lb + (col + 1)) 0 = some ts' → (∀ t ∈ ts', t.id ≠ .INTERRUPT) →
          ∀ x ∈ (c :: r).drop n, okUnit syn rules x = true := by
        intro ts' h' hno'
        rcases h' with h' | h'
        · exact lexGo_units syn rules hany fuel _ _ _ ts' h' hno'
        · exact lexGo_units syn rules hany fuel _ _ _ ts' h' hno'
      -- the matched units
      have hhead : act ≠ .tok .INTERRUPT → ∀ x ∈ (c :: r).take n, okUnit syn rules x = true := by
        intro hne
        refine matchPat_take syn rules rl hrl (c :: r) n hm ?_
        intro hp
        have := List.all_eq_true.mp hany rl hrl
        simp only [hp, beq_self_eq_true, Bool.not_true, Bool.false_or, beq_iff_eq] at this
        exact hne (hact ▸ this)
      intro x hx
      cases act with
      | tok t =>
        simp only at h
        split at h
        · rename_i rest hrestEq
          cases h
          have ht : t ≠ .INTERRUPT := fun e => hno _ (List.mem_cons_self ..) e
          rcases mem_of_mem_take_or_drop n _ x hx with h1 | h2
          · exact hhead (by intro e; cases e; exact ht rfl) x h1
          · exact hrest rest (Or.inl hrestEq) (fun t' ht' => hno t' (List.mem_cons_of_mem _ ht')) x h2
        · cases h
      | skip =>
        simp only at h
        rcases mem_of_mem_take_or_drop n _ x hx with h1 | h2
        · exact hhead (by intro e; cases e) x h1
        · exact hrest ts (Or.inl h) hno x h2
      | newline =>
        simp only at h
        rcases mem_of_mem_take_or_drop n _ x hx with h1 | h2
        · exact hhead (by intro e; cases e) x h1
        · exact hrest ts (Or.inr h) hno x h2

/-- **a text the parser accepts consists of `okUnit`s** (the parser refuses every stream with an INTERRUPT token) -/
theorem parse_units (syn : Syn) (text : List Nat) (t : Ast) (h : parse syn text = some t) :
    ∀ x ∈ text, okUnit syn (rulesOf syn) x = true := by
  unfold parse at h
  cases hl : lex syn text with
  | none => rw [hl] at h; cases h
  | some ts =>
    rw [hl] at h
    simp only at h
    unfold lex at hl
    cases hr : lexRaw syn text with
    | none => rw [hr] at hl; cases hl
    | some raw =>
      rw [hr] at hl
      simp only [Option.map_some, Option.some.injEq] at hl
      subst hl
      have hno : ∀ t ∈ raw, t.id ≠ .INTERRUPT := by
        intro t ht e
        unfold parseToks at h
        simp only at h
        have : (raw.map RawTok.toTok).any (fun t => t.id == .INTERRUPT) = true := by
          rw [List.any_eq_true]
          exact ⟨t.toTok, List.mem_map_of_mem ht, by simp only [RawTok.toTok, e]; rfl⟩
        rw [if_pos this] at h
        cases h
      exact lexGo_units syn (rulesOf syn) (anyInterrupt_rules syn) _ _ _ _ raw hr hno

/-- the units the tables allow: ASCII -/
theorem tableUnits_ascii : ∀ x ∈ tableUnits (rulesOf .ascii), x < 128 := by decide +kernel

/-- the units the tables allow: MATH (all in the Basic Multilingual Plane below the surrogates) -/
theorem tableUnits_math : ∀ x ∈ tableUnits (rulesOf .math), x < 0xD800 := by decide +kernel

theorem okUnit_ascii {c : Nat} (h : okUnit .ascii (rulesOf .ascii) c = true) : c < 128 := by
  simp only [okUnit, Bool.or_eq_true, List.contains_iff_mem, beq_iff_eq] at h
  rcases h with (((((h | h) | h) | h) | h) | h) | h
  · exact tableUnits_ascii c h
  · simp [isAlnum, isAlpha, isUpper, isLower, isDigit] at h; omega
  all_goals omega

theorem okUnit_math {c : Nat} (h : okUnit .math (rulesOf .math) c = true) : isScalar c := by
  simp only [okUnit, Bool.or_eq_true, List.contains_iff_mem, beq_iff_eq] at h
  unfold isScalar
  rcases h with (((((h | h) | h) | h) | h) | h) | h
  · exact Or.inl (tableUnits_math c h)
  · simp [isAlnum, isAlpha, isUpper, isLower, isDigit] at h; omega
  all_goals omega

/-! ## the printer does not see whether local names are transliterated already -/

theorem convertConsts_lt : (∀ x ∈ convertSubst, x < 128) ∧ convertOtherOpen < 128 ∧ (∀ x ∈ convertOtherPerByte, x < 128) ∧
    convertOtherClose < 128 := by decide +kernel

/-- `ConvertID` produces ASCII only (generated constants) -/
theorem convertCp_lt (c : Nat) : ∀ x ∈ convertCp c, x < 128 := by
  obtain ⟨h1, h2, h3, h4⟩ := convertConsts_lt
  have hother : ∀ k, ∀ x ∈ convertOtherOpen :: ((List.replicate k convertOtherPerByte).flatten ++ [convertOtherClose]), x < 128 := by
    intro k x hx
    simp only [List.mem_cons, List.mem_append, List.mem_flatten, List.mem_replicate, List.not_mem_nil, or_false] at hx
    rcases hx with rfl | ⟨l, ⟨_, rfl⟩, hx⟩ | rfl
    · exact h2
    · exact h3 x hx
    · exact h4
  have hsub : ∀ (i : Nat) (x : Nat), convertSubst[i]? = some x → x < 128 := by
    intro i x hx
    exact h1 x (List.mem_of_getElem? hx)
  intro x hx
  unfold convertCp at hx
  split at hx
  · simp at hx; omega
  · simp only at hx
    split at hx
    · split at hx
      · split at hx
        · rename_i y hy; simp at hx; subst hx; exact hsub _ _ hy
        · exact hother _ x hx
      · split at hx
        · split at hx
          · rename_i y hy; simp at hx; subst hx; exact hsub _ _ hy
          · exact hother _ x hx
        · exact hother _ x hx
    · exact hother _ x hx

theorem convertID_lt (w : List Nat) : ∀ x ∈ convertID .ascii w, x < 128 := by
  intro x hx
  simp only [convertID, List.mem_flatMap] at hx
  obtain ⟨c, _, hc⟩ := hx
  exact convertCp_lt c x hc

theorem convertID_of_lt : ∀ w : List Nat, (∀ x ∈ w, x < 128) → convertID .ascii w = w
  | [], _ => rfl
  | c :: w, h => by
    have hc : c < 128 := h c (by simp)
    have := convertID_of_lt w (fun x hx => h x (by simp [hx]))
    simp only [convertID] at this ⊢
    rw [List.flatMap_cons, this]
    simp [convertCp, hc]

/-- transliterating twice is transliterating once -/
theorem convertID_idem (w : List Nat) : convertID .ascii (convertID .ascii w) = convertID .ascii w :=
  convertID_of_lt _ (convertID_lt w)

theorem stringUnits_ofList : ∀ w : List Nat, (∀ x ∈ w, x < 128) → stringUnits (String.ofList (w.map Char.ofNat)) = w := by
  intro w h
  unfold stringUnits
  rw [String.toList_ofList, List.map_map]
  conv => rhs; rw [← List.map_id w]
  apply List.map_congr_left
  intro x hx
  have : x < 128 := h x hx
  simp only [Function.comp, id]
  have hv : x.isValidChar := Or.inl (by omega)
  simp [Char.ofNat, hv, Char.ofNatAux, Char.toNat]

theorem tdata_text_other (syn : Syn) (id : Tok) (s : String) (h : id ≠ .ID_LOCAL) : PP.tdata syn id (.text s) = .text s := by
  cases id <;> first | rfl | exact absurd rfl h

open CCVerif.PP in
theorem tokToString_tdata (id : Tok) (d : TokData) : tokToString .ascii id (tdata .ascii id d) = tokToString .ascii id d := by
  cases d with
  | none => rw [PP3.tdata_none]
  | int n => rw [PP3.tdata_int]
  | tuple idx => rw [PP3.tdata_tuple]
  | text s =>
    by_cases hid : id = .ID_LOCAL
    · subst hid
      show some (convertID .ascii (stringUnits (String.ofList ((convertID .ascii (stringUnits s)).map Char.ofNat)))) =
        some (convertID .ascii (stringUnits s))
      rw [stringUnits_ofList _ (convertID_lt _), convertID_idem]
    · rw [tdata_text_other _ id s hid]

open CCVerif.PP in
theorem assemble_tdata (id : Tok) (d : TokData) (ids : List Tok) (ps : List (Option (List Nat))) :
    assemble .ascii id (tdata .ascii id d) ids ps = assemble .ascii id d ids ps := by
  cases d with
  | none => rw [PP3.tdata_none]
  | int n => rw [PP3.tdata_int]
  | tuple idx => rw [PP3.tdata_tuple]
  | text s =>
    by_cases hid : id = .ID_LOCAL
    · subst hid
      show (if ids.length == 0 then tokToString .ascii .ID_LOCAL (tdata .ascii .ID_LOCAL (.text s)) else none) =
        (if ids.length == 0 then tokToString .ascii .ID_LOCAL (.text s) else none)
      rw [tokToString_tdata]
    · rw [tdata_text_other _ id s hid]

theorem translit_id (syn : Syn) (t : Ast) : (translit syn t).id = t.id := by
  cases t; rw [PP3.translit_node]; rfl

theorem kidIds_translitKids (syn : Syn) : ∀ ks : List Ast, kidIds (translitKids syn ks) = kidIds ks
  | [] => by rw [PP3.tk_nil]
  | k :: ks => by rw [PP3.tk_cons, PP.kidIds_cons, PP.kidIds_cons, translit_id, kidIds_translitKids syn ks]

mutual
/-- **the ASCII print of a tree and of its transliteration coincide** (all trees) -/
theorem print_translit : ∀ t : Ast, print .ascii (translit .ascii t) = print .ascii t
  | .node id d lo hi ks => by
    rw [PP3.translit_node, print, print, kidIds_translitKids, printKids_translitKids ks, assemble_tdata]
theorem printKids_translitKids : ∀ ks : List Ast, printKids .ascii (translitKids .ascii ks) = printKids .ascii ks
  | [] => by rw [PP3.tk_nil]
  | k :: ks => by rw [PP3.tk_cons, PP.printKids_cons, PP.printKids_cons, print_translit k, printKids_translitKids ks]
end

/-- the MATH transliteration is the identity -/
theorem tdata_math (id : Tok) (d : TokData) : PP.tdata .math id d = d := by
  cases d with
  | none => rw [PP3.tdata_none]
  | int n => rw [PP3.tdata_int]
  | tuple idx => rw [PP3.tdata_tuple]
  | text s =>
    by_cases hid : id = .ID_LOCAL
    · subst hid
      show TokData.text (String.ofList ((stringUnits s).map Char.ofNat)) = _
      exact congrArg TokData.text (LexN.unitsToString_stringUnits s)
    · exact tdata_text_other _ id s hid

mutual
theorem translit_math : ∀ t : Ast, translit .math t = t
  | .node id d lo hi ks => by rw [PP3.translit_node, tdata_math, translitKids_math ks]
theorem translitKids_math : ∀ ks : List Ast, translitKids .math ks = ks
  | [] => by rw [PP3.tk_nil]
  | k :: ks => by rw [PP3.tk_cons, translit_math k, translitKids_math ks]
end

/-! ## the round trip of the fragment `E3`, with the parsed tree named up to positions -/

open CCVerif.PP3 (E3) in
/-- `PP3.text_roundtrip2_any` with the conclusion "the parsed tree is `t` up to positions" (the transliteration does not
occur: it is the identity on a tree with lexer-conformant leaves) -/
theorem roundtrip_erA (syn : Syn) (t : Ast) (e : E3) (ht : PE.erA t = e.ast) (hw : e.wf = true)
    (hSL : e.isS = true ∨ e.isL = true) (hl : e.lexOK syn = true) :
    ∃ text t', print syn t = some text ∧ parse syn text = some t' ∧ PE.erA t' = PE.erA t := by
  obtain ⟨hp, hlex⟩ := PP3.lex_print2 syn e hw hSL hl
  refine ⟨LexP.render (e.items syn), ?_⟩
  have hpt : print syn t = some (LexP.render (e.items syn)) := by rw [← PP3.print_erA, ht]; exact hp
  have hee : PE.erA e.ast = e.ast := by rw [← ht, PE.erA_erA]
  cases hts : lex syn (LexP.render (e.items syn)) with
  | none => rw [hts] at hlex; cases hlex
  | some ts =>
    rw [hts] at hlex
    simp only [Option.map_some, Option.some.injEq] at hlex
    have hmap : ts.map PE.er = (e.toks ++ [PP.tk .END]).map PE.er := by
      have h1 : ∀ us : Toks, us.map PE.er = (us.map PP.kd2).map (fun p => (⟨p.1, p.2, 0, 0⟩ : LTok)) := by
        intro us; rw [List.map_map]; rfl
      rw [h1 ts, h1 (e.toks ++ [PP.tk .END]), hlex]
    have hparse := PP3.parseToks_toks_wf2 e hw hSL
    have h2 := PE.parseToks_erase (e.toks ++ [PP.tk .END])
    rw [hparse, ← hmap, PE.parseToks_erase ts] at h2
    cases hpt' : parseToks ts with
    | none => rw [hpt'] at h2; cases h2
    | some t' =>
      rw [hpt'] at h2
      simp only [Option.map_some, Option.some.injEq] at h2
      refine ⟨t', hpt, ?_, ?_⟩
      · unfold parse; rw [hts]; exact hpt'
      · rw [h2, hee, ht]

/-- the printer does not read positions: trees equal up to positions print alike -/
theorem print_of_erA_eq (syn : Syn) {a b : Ast} (h : PE.erA a = PE.erA b) : print syn a = print syn b := by
  rw [← PP3.print_erA syn a, h, PP3.print_erA]

/-! ## bytes of a text the parser accepts -/

theorem other_other (s : Syn) : other (other s) = s := by cases s <;> rfl

/-- **a text (of units) that the parser of `s` accepts is recovered from its bytes**: MATH — its units are scalar values,
so `decode ∘ encode` is the identity; ASCII — its units are bytes < 128 and are their own encoding -/
theorem unitsOf_bytesOf (s : Syn) (text : List Nat) (t : Ast) (h : parse s text = some t) :
    unitsOf s (bytesOf text) = some text := by
  have hu := parse_units s text t h
  cases s with
  | math => exact decode_encode text (fun c hc => okUnit_math (hu c hc))
  | ascii =>
    show some (encode text) = some text
    rw [encode_ascii text (fun c hc => okUnit_ascii (hu c hc))]

theorem parseBytes_bytesOf (s : Syn) (text : List Nat) (t : Ast) (h : parse s text = some t) :
    parseBytes (some s) (bytesOf text) = some (some t) := by
  simp only [parseBytes, chooseSyntax, unitsOf_bytesOf s text t h, Option.map_some, h]

/-- one conversion step on a text that parses: the result is the print of the parsed tree -/
theorem convertTo_of_parse (s : Syn) (text : List Nat) (t : Ast) (h : parse s text = some t) (out : List Nat)
    (hp : print (other s) t = some out) : convertTo (other s) (bytesOf text) = .text (bytesOf out) := by
  simp only [convertTo, other_other, parseBytes_bytesOf s text t h, hp]

/-! ## the transliteration as a renaming of local names -/

/-- payload of a node after renaming local names by `f` -/
def renData (f : String → String) (id : Tok) (d : TokData) : TokData :=
  match id, d with
  | .ID_LOCAL, .text s => .text (f s)
  | _, d => d

/-- the local name a node carries -/
def nameOf (id : Tok) (d : TokData) : List String :=
  match id, d with
  | .ID_LOCAL, .text s => [s]
  | _, _ => []

mutual
/-- the local names occurring in a tree (payloads of its `ID_LOCAL` nodes) -/
def localNames : Ast → List String
  | .node id d _ _ ks => nameOf id d ++ localNamesL ks
def localNamesL : List Ast → List String
  | [] => []
  | k :: ks => localNames k ++ localNamesL ks
end

mutual
/-- the tree with every local name `s` replaced by `f s` -/
def renameLocals (f : String → String) : Ast → Ast
  | .node id d lo hi ks => .node id (renData f id d) lo hi (renameLocalsL f ks)
def renameLocalsL (f : String → String) : List Ast → List Ast
  | [] => []
  | k :: ks => renameLocals f k :: renameLocalsL f ks
end

/-- `ConvertID(name, ASCII)` on a name -/
def translitName (s : String) : String := String.ofList ((convertID .ascii (stringUnits s)).map Char.ofNat)

theorem tdata_eq_renData (id : Tok) (d : TokData) : PP.tdata .ascii id d = renData translitName id d := by
  cases d with
  | none => rw [PP3.tdata_none]; cases id <;> rfl
  | int n => rw [PP3.tdata_int]; cases id <;> rfl
  | tuple idx => rw [PP3.tdata_tuple]; cases id <;> rfl
  | text s =>
    by_cases hid : id = .ID_LOCAL
    · subst hid; rfl
    · rw [tdata_text_other _ id s hid]; cases id <;> first | rfl | exact absurd rfl hid

mutual
/-- the transliteration of a tree IS the renaming of its local names by `ConvertID` -/
theorem translit_eq_rename : ∀ t : Ast, translit .ascii t = renameLocals translitName t
  | .node id d lo hi ks => by rw [PP3.translit_node, renameLocals, tdata_eq_renData, translitKids_eq_rename ks]
theorem translitKids_eq_rename : ∀ ks : List Ast, translitKids .ascii ks = renameLocalsL translitName ks
  | [] => by rw [PP3.tk_nil, renameLocalsL]
  | k :: ks => by rw [PP3.tk_cons, renameLocalsL, translit_eq_rename k, translitKids_eq_rename ks]
end

theorem renData_inv (f g : String → String) (id : Tok) (d : TokData) (h : ∀ a ∈ nameOf id d, g (f a) = a) :
    renData g id (renData f id d) = d := by
  cases d with
  | none => cases id <;> rfl
  | int n => cases id <;> rfl
  | tuple idx => cases id <;> rfl
  | text s =>
    by_cases hid : id = .ID_LOCAL
    · subst hid
      show TokData.text (g (f s)) = .text s
      rw [h s (by simp [nameOf])]
    · have h1 : ∀ (k : String → String) (s : String), renData k id (.text s) = .text s := by
        intro k s; cases id <;> first | rfl | exact absurd rfl hid
      rw [h1, h1]

mutual
theorem rename_inv (f g : String → String) : ∀ t : Ast, (∀ a ∈ localNames t, g (f a) = a) →
    renameLocals g (renameLocals f t) = t
  | .node id d lo hi ks, h => by
    rw [localNames] at h
    rw [renameLocals, renameLocals, renData_inv f g id d (fun a ha => h a (List.mem_append_left _ ha)),
      renameL_inv f g ks (fun a ha => h a (List.mem_append_right _ ha))]
theorem renameL_inv (f g : String → String) : ∀ ks : List Ast, (∀ a ∈ localNamesL ks, g (f a) = a) →
    renameLocalsL g (renameLocalsL f ks) = ks
  | [], _ => by rw [renameLocalsL, renameLocalsL]
  | k :: ks, h => by
    rw [localNamesL] at h
    rw [renameLocalsL, renameLocalsL, rename_inv f g k (fun a ha => h a (List.mem_append_left _ ha)),
      renameL_inv f g ks (fun a ha => h a (List.mem_append_right _ ha))]
end

/-- a left inverse of `f` on a list of names on which `f` is injective -/
def invOn (f : String → String) (names : List String) (s : String) : String :=
  match names.find? (fun a => f a == s) with
  | some a => a
  | none => s

theorem invOn_spec (f : String → String) (names : List String)
    (hinj : ∀ a ∈ names, ∀ b ∈ names, f a = f b → a = b) : ∀ a ∈ names, invOn f names (f a) = a := by
  intro a ha
  unfold invOn
  cases hf : names.find? (fun b => f b == f a) with
  | none =>
    have := List.find?_eq_none.mp hf a ha
    simp at this
  | some b =>
    have hb := List.find?_some hf
    have hmem := List.mem_of_find?_eq_some hf
    simp only [beq_iff_eq] at hb
    exact hinj b hmem a ha hb

/-! ## a token of a kind that only non-ASCII literals produce forces a non-ASCII unit into the text -/

theorem matchPat_patUnits (syn : Syn) (s : List Nat) (p : LexPat) (n : Nat) (h : matchPat syn s p = some n) :
    ∀ x ∈ patUnits p, x ∈ s := by
  cases p with
  | lit l =>
    simp only [matchPat] at h
    split at h
    · rename_i hh; simp only [Bool.and_eq_true] at hh; exact LexP.isPrefix_mem hh.2
    · cases h
  | withIndex pre =>
    simp only [matchPat] at h
    split at h
    · rename_i hh; exact LexP.isPrefix_mem hh
    · cases h
  | withNumber pre =>
    simp only [matchPat] at h
    split at h
    · rename_i hh; exact LexP.isPrefix_mem hh
    · cases h
  | _ => intro x hx; simp [patUnits] at hx

/-- every token of the scan is END or comes from a rule whose fixed units occur in the text -/
theorem lexGo_source (syn : Syn) (rules : List LexRule) :
    ∀ (fuel : Nat) (s : List Nat) (lb col : Nat) (ts : List RawTok), lexGo syn rules fuel s lb col = some ts →
      ∀ t ∈ ts, eofTok rules = some t.id ∨ ∃ r ∈ rules, r.act = .tok t.id ∧ ∀ x ∈ patUnits r.pat, x ∈ s
  | 0, s, lb, col, ts, h => by simp [lexGo] at h
  | fuel+1, [], lb, col, ts, h => by
    unfold lexGo at h
    simp only at h
    split at h
    · rename_i t0 ht0
      cases h
      intro t ht
      simp only [List.mem_singleton] at ht
      subst ht
      exact Or.inl ht0
    · cases h
  | fuel+1, c :: r, lb, col, ts, h => by
    unfold lexGo at h
    simp only at h
    split at h
    · cases h
    · cases h
    · rename_i n act hn0 hb
      rcases bestRule_mem syn (c :: r) rules none n act hb with h0 | ⟨rl, hrl, hm, hact⟩
      · cases h0
      have hrest : ∀ ts' lb' col', lexGo syn rules fuel ((c :: r).drop n) lb' col' = some ts' →
          ∀ t ∈ ts', eofTok rules = some t.id ∨ ∃ r' ∈ rules, r'.act = .tok t.id ∧ ∀ x ∈ patUnits r'.pat, x ∈ c :: r := by
        intro ts' lb' col' h' t ht
        rcases lexGo_source syn rules fuel _ lb' col' ts' h' t ht with h1 | ⟨r', hr', ha', hx'⟩
        · exact Or.inl h1
        · exact Or.inr ⟨r', hr', ha', fun x hx => List.mem_of_mem_drop (hx' x hx)⟩
      cases act with
      | tok t0 =>
        simp only at h
        split at h
        · rename_i rest hrestEq
          cases h
          intro t ht
          rcases List.mem_cons.mp ht with rfl | ht'
          · exact Or.inr ⟨rl, hrl, hact, matchPat_patUnits syn _ _ n hm⟩
          · exact hrest rest _ _ hrestEq t ht'
        · cases h
      | skip => simp only at h; exact hrest ts _ _ h
      | newline => simp only at h; exact hrest ts _ _ h

/-- token kinds that the MATH lexer produces only from a literal containing a non-ASCII unit (`∈ ∪ × ∀ ≠ ∅ ℬ` …) -/
def nonAsciiKind (k : Tok) : Bool :=
  mathRules.all fun r => !(r.act == .tok k) || (patUnits r.pat).any (fun u => decide (128 ≤ u))

theorem nonAsciiKind_END : nonAsciiKind .END = false := by decide +kernel

/-- **a MATH text whose token stream contains such a kind contains a non-ASCII unit** -/
theorem non_ascii_of_kind (text : List Nat) (ts : List LTok) (h : lex .math text = some ts) (k : Tok)
    (hk : nonAsciiKind k = true) (hmem : k ∈ ts.map (·.id)) : ∃ u ∈ text, 128 ≤ u := by
  unfold lex at h
  cases hr : lexRaw .math text with
  | none => rw [hr] at h; cases h
  | some raw =>
    rw [hr] at h
    simp only [Option.map_some, Option.some.injEq] at h
    subst h
    simp only [List.map_map, List.mem_map, Function.comp] at hmem
    obtain ⟨t, ht, htk⟩ := hmem
    have htk' : t.id = k := htk
    rcases lexGo_source .math (rulesOf .math) _ _ _ _ raw hr t ht with h1 | ⟨r, hr', hact, hx⟩
    · rw [LexP.eofTok_rules, htk'] at h1
      cases h1
      rw [nonAsciiKind_END] at hk; cases hk
    · have := List.all_eq_true.mp hk r hr'
      rw [hact, htk'] at this
      simp only [beq_self_eq_true, Bool.not_true, Bool.false_or, List.any_eq_true, decide_eq_true_eq] at this
      obtain ⟨u, hu, h128⟩ := this
      exact ⟨u, hx u hu, h128⟩

end CCVerif.ConvertL
