import CCVerif.Model.JsonDoc
import CCVerif.Lemmas.Core
import CCVerif.Properties.C16
/-!
Definitions and helper lemmas for the document level of C10 (`Model/JsonDoc.lean`):
well-formedness of the abstract content (`Schema.WF`, `Model.WF`, `EntryWF`), the hypothesis
"the content is in updated state" (`Updated`, `ModelUpdated`), the loader on written documents
(`schema_fromJson_toJson`, `model_roundtrip_core`), the invariant the loader establishes on ANY
document (`schema_load_wf_of_normIdem`; `NormIdem` itself is proved in `Lemmas/JsonDocTags.lean`).
-/
set_option linter.unusedSimpArgs false
namespace CCVerif.JsonDoc
open CCVerif.Json CCVerif.Core CCVerif.SDC

theorem mapM_map_mem {α β γ : Type} (f : α → β) (g : β → Option γ) (h : α → γ) :
    ∀ xs : List α, (∀ a ∈ xs, g (f a) = some (h a)) → (xs.map f).mapM g = some (xs.map h) := by
  intro xs
  induction xs with
  | nil => intro _; simp
  | cons x xs ih =>
    intro H
    simp [List.mapM_cons, H x (by simp), ih (fun a ha => H a (by simp [ha]))]

def FormsWF (fs : List Form) : Prop :=
  (∀ f ∈ fs, normTags f.tags = f.tags) ∧ fs.Pairwise (fun a b => a.tags < b.tags)

theorem setForm_last (acc : List Form) (f : Form) (h : ∀ g ∈ acc, g.tags < f.tags) :
    setForm acc f.tags f.text = acc ++ [f] := by
  induction acc with
  | nil => simp [setForm]
  | cons a acc ih =>
    have ha : a.tags < f.tags := h a (by simp)
    have h1 : ¬ f.tags < a.tags := String.lt_asymm ha
    have h2 : ¬ f.tags = a.tags := fun e => String.lt_irrefl _ (e ▸ ha)
    simp [setForm, h1, h2, ih (fun g hg => h g (by simp [hg]))]

theorem foldl_setForm (fs acc : List Form) (h : (acc ++ fs).Pairwise (fun a b => a.tags < b.tags)) :
    fs.foldl (fun acc f => setForm acc f.tags f.text) acc = acc ++ fs := by
  induction fs generalizing acc with
  | nil => simp
  | cons f fs ih =>
    rw [List.foldl_cons, setForm_last acc f]
    · rw [ih]
      · simp
      · simpa using h
    · intro g hg
      rw [List.pairwise_append] at h
      exact h.2.2 g hg f (by simp)

theorem forms_roundtrip (fs : List Form) (h : FormsWF fs) :
    formsFromJson (.arr (fs.map Form.toJson)) = some fs := by
  unfold formsFromJson
  have hm : (fs.map Form.toJson).mapM formFromJson = some (fs.map id) := by
    apply mapM_map_mem
    intro f hf
    simp [formFromJson, Form.toJson, reqStr, Json.get, Json.asStr, h.1 f hf]
  have := foldl_setForm fs [] (by simpa using h.2)
  simp only [Json.asArr, Option.bind_eq_bind, Option.bind_some, hm, List.map_id, this, List.nil_append, Option.pure_def]

theorem mtext_roundtrip (t : MText) : MText.fromJson t.toJson = some t := by
  simp [MText.fromJson, MText.toJson, optStr, reqStr, Json.get, Json.asStr]

theorem record_decode (r : Record) (h : FormsWF r.forms) :
    recordFromJson r.toJson = some r.preUpdate := by
  have hf := forms_roundtrip r.forms h
  simp [recordFromJson, Record.toJson, termToJson, termFromJson, definitionFromJson, MText.fromJson, MText.toJson,
    optStr, reqStr, Json.get, Json.asStr, asNat, hf, Record.preUpdate]
  cases r.type <;> rfl

/-! loader on well-formed items -/

theorem lastIdx_all {α : Type} (p : α → Bool) (l : List α) (hne : l ≠ []) (h : ∀ x ∈ l, p x = true) :
    lastIdx p l = some (l.length - 1) := by
  induction l with
  | nil => exact absurd rfl hne
  | cons x xs ih =>
    cases xs with
    | nil => simp [lastIdx, h x (by simp)]
    | cons y ys =>
      have := ih (by simp) (fun z hz => h z (by simp [hz]))
      rw [lastIdx, this]
      simp

theorem insertPos_end (ks : List CstType) (t : CstType)
    (h : ∀ k ∈ ks, t.isBasic = true → k.code ≤ t.code) : insertPos ks t = ks.length := by
  unfold insertPos
  split
  · next hb =>
    cases ks with
    | nil => simp [lastIdx]
    | cons k ks =>
      rw [lastIdx_all _ (k :: ks) (by simp) (fun x hx => by simpa using h x hx hb)]
      simp
  · rfl

theorem insertAt_end {α : Type} (l : List α) (x : α) : insertAt l l.length x = l ++ [x] := by
  simp [insertAt]

/-- what `RSCore::Load` relies on to keep a record as it is -/
structure LoadOK (rs : List Record) : Prop where
  uids : (rs.map (·.uid)).Nodup
  aliases : (rs.map (·.alias)).Nodup
  names : ∀ r ∈ rs, typeForName r.alias = some r.type
  order : (rs.map (·.type)).Pairwise (fun a b => b.isBasic = true → a.code ≤ b.code)

theorem loadRecord_ok (env : Env) (done : List Record) (r : Record)
    (hu : r.uid ∉ done.map (·.uid)) (ha : r.alias ∉ done.map (·.alias))
    (hn : typeForName r.alias = some r.type)
    (ho : ∀ k ∈ done.map (·.type), r.type.isBasic = true → k.code ≤ r.type.code) :
    loadRecord env ⟨(done.map (·.uid)).reverse, (done.map (·.alias)).reverse, done⟩ r =
      some ⟨((done ++ [r]).map (·.uid)).reverse, ((done ++ [r]).map (·.alias)).reverse, done ++ [r]⟩ := by
  have h1 : ((done.map (·.uid)).reverse).contains r.uid = false := by
    simpa using hu
  have h2 : ((done.map (·.alias)).reverse).contains r.alias = false := by
    simpa using ha
  have h3 : needNameChange ((done.map (·.alias)).reverse) r.alias r.type = false := by
    unfold needNameChange
    rw [h2, hn]; simp
  simp only [loadRecord, registerID, h1, h3, insertPos_end _ _ ho]
  simp [insertAt_end]

theorem loadAll_ok (env : Env) (rest done : List Record) (h : LoadOK (done ++ rest)) :
    loadAll env ⟨(done.map (·.uid)).reverse, (done.map (·.alias)).reverse, done⟩ rest =
      some ⟨((done ++ rest).map (·.uid)).reverse, ((done ++ rest).map (·.alias)).reverse, done ++ rest⟩ := by
  induction rest generalizing done with
  | nil => simp [loadAll]
  | cons r rest ih =>
    have hu := h.uids; have ha := h.aliases; have ho := h.order
    simp only [List.map_append, List.map_cons, List.nodup_append, List.nodup_cons, List.pairwise_append,
      List.pairwise_cons] at hu ha ho
    rw [loadAll, loadRecord_ok env done r]
    · have := ih (done ++ [r]) (by simpa using h)
      simpa using this
    · intro hm; exact hu.2.2 _ hm _ (by simp) rfl
    · intro hm; exact ha.2.2 _ hm _ (by simp) rfl
    · exact h.names r (by simp)
    · intro k hk; exact ho.2.2 k hk r.type (by simp)

/-! tracking -/

def withTrack (r : Record) (t : Option TrackingFlags) : Record := { r with track := t }
@[simp] theorem withTrack_uid (r : Record) (t) : (withTrack r t).uid = r.uid := rfl
@[simp] theorem withTrack_track (r : Record) (t) : (withTrack r t).track = t := rfl
theorem withTrack_self (r : Record) (t) (h : r.track = t) : withTrack r t = r := by
  cases r; simp_all [withTrack]

def trackEntries (items : List Record) : List (Nat × TrackingFlags) :=
  items.filterMap fun r => r.track.map (r.uid, ·)

theorem setTrack_eq (l : List Record) (e : Nat × TrackingFlags) :
    setTrack l e = l.map (fun r => if r.uid = e.1 then withTrack r (some e.2) else r) := rfl

theorem setTrack_noop (l : List Record) (e : Nat × TrackingFlags) (h : ∀ x ∈ l, x.uid ≠ e.1) :
    setTrack l e = l := by
  rw [setTrack_eq]
  conv => rhs; rw [← List.map_id l]
  apply List.map_congr_left
  intro x hx
  simp [h x hx]

theorem setTrack_append (a b : List Record) (e : Nat × TrackingFlags) :
    setTrack (a ++ b) e = setTrack a e ++ setTrack b e := by
  simp [setTrack]

theorem setTrack_cons_hit (r : Record) (l : List Record) (e : Nat × TrackingFlags) (h : r.uid = e.1) :
    setTrack (r :: l) e = withTrack r (some e.2) :: setTrack l e := by
  simp [setTrack_eq, h]

theorem foldl_setTrack (g : Record → Record) (hg1 : ∀ r, (g r).uid = r.uid) (hg2 : ∀ r, (g r).track = none) :
    ∀ (post pre : List Record), (∀ x ∈ pre, ∀ y ∈ post, x.uid ≠ y.uid) → (post.map (·.uid)).Nodup →
      (trackEntries post).foldl setTrack (pre ++ post.map g) =
        pre ++ post.map (fun r => withTrack (g r) r.track) := by
  intro post
  induction post with
  | nil => intro pre _ _; simp [trackEntries]
  | cons r post ih =>
    intro pre hd hn
    simp only [List.map_cons, List.nodup_cons] at hn
    have hpost : ∀ y ∈ post, y.uid ≠ r.uid := by
      intro y hy e; exact hn.1 (e ▸ List.mem_map.2 ⟨y, hy, rfl⟩)
    cases ht : r.track with
    | none =>
      have he : trackEntries (r :: post) = trackEntries post := by simp [trackEntries, ht]
      rw [he, List.map_cons, List.map_cons, ht, withTrack_self (g r) none (hg2 r)]
      have := ih (pre ++ [g r]) (by
        intro x hx y hy
        rcases List.mem_append.1 hx with hx | hx
        · exact hd x hx y (by simp [hy])
        · simp only [List.mem_singleton] at hx; subst hx; rw [hg1]; exact (hpost y hy).symm) hn.2
      simpa using this
    | some f =>
      have he : trackEntries (r :: post) = (r.uid, f) :: trackEntries post := by simp [trackEntries, ht]
      rw [he, List.foldl_cons, List.map_cons, setTrack_append, setTrack_noop pre _ (fun x hx => hd x hx r (by simp)),
        setTrack_cons_hit _ _ _ (hg1 r),
        setTrack_noop (post.map g) (r.uid, f) (by
          intro x hx; obtain ⟨y, hy, rfl⟩ := List.mem_map.1 hx; rw [hg1]; exact hpost y hy),
        List.map_cons, ht]
      have := ih (pre ++ [withTrack (g r) (some f)]) (by
        intro x hx y hy
        rcases List.mem_append.1 hx with hx | hx
        · exact hd x hx y (by simp [hy])
        · simp only [List.mem_singleton] at hx; subst hx; simp only [withTrack_uid, hg1]; exact (hpost y hy).symm) hn.2
      simpa using this

theorem track_entries_decode (items : List Record) :
    ((items.filterMap fun r => r.track.map (trackEntryToJson r.uid)).mapM trackEntryFromJson) =
      some (trackEntries items) := by
  have : (items.filterMap fun r => r.track.map (trackEntryToJson r.uid)) =
      (trackEntries items).map (fun e => trackEntryToJson e.1 e.2) := by
    unfold trackEntries
    rw [List.map_filterMap]
    congr 1; funext r; cases r.track <;> simp
  rw [this]
  have := mapM_map_mem (fun e : Nat × TrackingFlags => trackEntryToJson e.1 e.2) trackEntryFromJson id
    (trackEntries items) (by
      intro e _
      have hf : TrackingFlags.fromJson e.2.toJson = some e.2 := by
        cases e.2; simp [TrackingFlags.fromJson, TrackingFlags.toJson, Json.get, Json.asBool]
      simp [trackEntryFromJson, trackEntryToJson, Json.get, asNat, hf])
  simpa using this

/-! schema documents -/

/-- well-formedness the writer / loader pair relies on -/
structure ItemsWF (items : List Record) : Prop where
  forms : ∀ r ∈ items, FormsWF r.forms
  load : LoadOK items

def Schema.WF (c : Schema) : Prop := ItemsWF c.items

/-- the derived fields of every record are what `UpdateState` computes on the reloaded records -/
def Updated (env : Env) (items : List Record) : Prop :=
  ∀ r ∈ items, env.analyse (items.map Record.preUpdate) r.uid = r.derived

def setDerived (d : Derived) (r : Record) : Record :=
  { r with term := { r.term with resolved := d.termResolved },
           definition := { r.definition with resolved := d.defResolved },
           parse := d.parse }

theorem applyDerived_eq (an : Nat → Derived) (items : List Record) :
    applyDerived an items = items.map (fun r => setDerived (an r.uid) r) := rfl

theorem loadOK_preUpdate (items : List Record) (h : LoadOK items) : LoadOK (items.map Record.preUpdate) := by
  refine ⟨?_, ?_, ?_, ?_⟩
  · simpa [List.map_map, Function.comp_def, Record.preUpdate] using h.uids
  · simpa [List.map_map, Function.comp_def, Record.preUpdate] using h.aliases
  · intro r hr
    obtain ⟨x, hx, rfl⟩ := List.mem_map.1 hr
    exact h.names x hx
  · simpa [List.map_map, Function.comp_def, Record.preUpdate] using h.order

theorem loadItems_wf (env : Env) (items : List Record) (h : ItemsWF items) :
    loadItems env (itemsToJson items) =
      some (items.map Record.preUpdate,
            applyDerived (env.analyse (items.map Record.preUpdate)) (items.map Record.preUpdate)) := by
  have hm : (items.map Record.toJson).mapM recordFromJson = some (items.map Record.preUpdate) :=
    mapM_map_mem _ _ _ items (fun r hr => record_decode r (h.forms r hr))
  have hl := loadAll_ok env (items.map Record.preUpdate) [] (by simpa using loadOK_preUpdate items h.load)
  simp only [List.map_nil, List.reverse_nil, List.nil_append] at hl
  simp only [loadItems, itemsToJson, Json.asArr, Option.bind_eq_bind, Option.bind_some, hm]
  have he : ({} : LoadSt) = ⟨[], [], []⟩ := rfl
  rw [he, hl]
  rfl

/-- the reloaded records, for any analysis -/
def reloaded (env : Env) (items : List Record) : List Record :=
  items.map fun r => withTrack (setDerived (env.analyse (items.map Record.preUpdate) r.uid) r.preUpdate) r.track

theorem schema_get (c : Schema) :
    c.toJson.get "title" = some (.str c.title) ∧ c.toJson.get "alias" = some (.str c.alias) ∧
    c.toJson.get "comment" = some (.str c.comment) ∧ c.toJson.get "items" = some (itemsToJson c.items) ∧
    c.toJson.get "tracking" = some (trackingToJson c.items) := by
  simp [Schema.toJson, Json.get]

theorem schema_fromJson_toJson (env : Env) (c : Schema) (h : c.WF) :
    Schema.fromJson env c.toJson = some { c with items := reloaded env c.items } := by
  have hl := loadItems_wf env c.items h
  have ht := track_entries_decode c.items
  have hf := foldl_setTrack (fun r => setDerived (env.analyse (c.items.map Record.preUpdate) r.uid) r.preUpdate)
    (fun _ => rfl) (fun _ => rfl) c.items [] (by simp) h.load.uids
  simp only [List.nil_append] at hf
  obtain ⟨g1, g2, g3, g4, g5⟩ := schema_get c
  simp only [Schema.fromJson, optStr, g1, g2, g3, g4, g5, Json.asStr, Option.bind_eq_bind, Option.bind_some,
    Option.pure_def, trackingToJson, Json.asArr, hl, ht, applyDerived_eq, List.map_map, Function.comp_def]
  unfold reloaded
  rw [← hf]
  rfl

theorem reloaded_obs (env : Env) (items : List Record) :
    (reloaded env items).map Record.obs = items.map Record.obs := by
  unfold reloaded
  rw [List.map_map]
  apply List.map_congr_left
  intro r _
  cases r
  simp [Record.obs, withTrack, setDerived, Record.preUpdate]

theorem reloaded_updated (env : Env) (items : List Record) (h : Updated env items) :
    reloaded env items = items := by
  unfold reloaded
  conv => rhs; rw [← List.map_id items]
  apply List.map_congr_left
  intro r hr
  have := h r hr
  rw [this]
  cases r with
  | mk uid type alias convention term forms formal definition parse track =>
    cases term; cases definition
    simp [withTrack, setDerived, Record.preUpdate, Record.derived]

/-! model documents -/

def ValOK (τ : Ty) (v : Val) : Prop := τ.wf = true ∧ compat v τ = true ∧ noMarker v = true

theorem row_roundtrip (r : Row) : rowFromJson (.arr (r.map Json.num)) = some r := by
  have := mapM_map_mem Json.num Json.asInt id r (fun _ _ => rfl)
  simp only [rowFromJson, Json.asArr, Option.bind_eq_bind, Option.bind_some, this, List.map_id]

theorem table_roundtrip (t : Table) : tableFromJson (tableToJson t) = some t := by
  have := mapM_map_mem (fun row : Row => Json.arr (row.map Json.num)) rowFromJson id t (fun r _ => row_roundtrip r)
  simp only [tableFromJson, tableToJson, Json.asArr, Option.bind_eq_bind, Option.bind_some, this, List.map_id]

/-- what `LoadData` reads back from the element written for `e` -/
def updOf (k : CstType) (e : DataEntry) : Upd :=
  if isRSObject k then
    { uid := e.uid, wasCalc := e.wasCalc,
      sdata := (match e.typif, e.sdata with | some _, some v => some v | _, _ => none),
      texts := (match e.texts with | some t => if t.length > 0 then some t else none | none => none) }
  else if !isCallable k then { uid := e.uid, wasCalc := e.wasCalc, stmt := e.stmt }
  else { uid := e.uid, wasCalc := e.wasCalc }

/-- the leaf codec of text interpretations round-trips contiguous keys (`text_roundtrip_partial` of
Properties/C10, passed as a hypothesis to keep this file below the property file) -/
def TextRT : Prop := ∀ t : TextInterp, Contiguous t → TextInterp.fromJson t.toJson = some t

theorem entry_roundtrip_rs (hrtx : TextRT) (items : List Record) (ty : Nat → Option Ty) (k : CstType) (e : DataEntry)
    (hk : kindOf items e.uid = some k) (hty : ty e.uid = e.typif) (hrs : isRSObject k = true)
    (hv : ∀ τ v, e.typif = some τ → e.sdata = some v → ValOK τ v)
    (ht : ∀ t, e.texts = some t → isBaseSet k = true ∧ Contiguous t) :
    ∃ j, e.toJson k = some j ∧ decodeEntry items ty j = some (some (updOf k e)) := by
  rcases hty' : e.typif with _ | τ
  · -- no typification: no value
    rcases htx : e.texts with _ | t
    · refine ⟨_, by simp [DataEntry.toJson, hrs, hty', htx]; rfl, ?_⟩
      simp [decodeEntry, Json.get, asNat, Json.asBool, hk, hrs, updOf, hty', htx]
    · obtain ⟨hb, hc⟩ := ht t htx
      have hrt := hrtx t hc
      cases t with
      | nil =>
        refine ⟨_, by simp [DataEntry.toJson, hrs, hty', htx]; rfl, ?_⟩
        simp [decodeEntry, Json.get, asNat, Json.asBool, hk, hrs, updOf, hty', htx]
      | cons p t =>
        refine ⟨_, by simp [DataEntry.toJson, hrs, hty', htx]; rfl, ?_⟩
        simp [decodeEntry, Json.get, asNat, Json.asBool, hk, hrs, updOf, hty', htx, hb, hrt]
  · rcases hsd : e.sdata with _ | v
    · rcases htx : e.texts with _ | t
      · refine ⟨_, by simp [DataEntry.toJson, hrs, hty', htx, hsd]; rfl, ?_⟩
        simp [decodeEntry, Json.get, asNat, Json.asBool, hk, hrs, updOf, hty', htx, hsd]
      · obtain ⟨hb, hc⟩ := ht t htx
        have hrt := hrtx t hc
        cases t with
        | nil =>
          refine ⟨_, by simp [DataEntry.toJson, hrs, hty', htx, hsd]; rfl, ?_⟩
          simp [decodeEntry, Json.get, asNat, Json.asBool, hk, hrs, updOf, hty', htx, hsd]
        | cons p t =>
          refine ⟨_, by simp [DataEntry.toJson, hrs, hty', htx, hsd]; rfl, ?_⟩
          simp [decodeEntry, Json.get, asNat, Json.asBool, hk, hrs, updOf, hty', htx, hb, hrt, hsd]
    · obtain ⟨hw, hc, hm⟩ := hv τ v hty' hsd
      obtain ⟨tbl, hp, hu⟩ := unpack_pack_partial v τ hw hc hm
      have htb := table_roundtrip tbl
      rcases htx : e.texts with _ | t
      · refine ⟨_, by simp [DataEntry.toJson, hrs, hty', htx, hsd, hp]; rfl, ?_⟩
        simp [decodeEntry, Json.get, asNat, Json.asBool, hk, hrs, updOf, hty', htx, hsd, hty, htb, hu]
      · obtain ⟨hb, hc⟩ := ht t htx
        have hrt := hrtx t hc
        cases t with
        | nil =>
          refine ⟨_, by simp [DataEntry.toJson, hrs, hty', htx, hsd, hp]; rfl, ?_⟩
          simp [decodeEntry, Json.get, asNat, Json.asBool, hk, hrs, updOf, hty', htx, hsd, hty, htb, hu]
        | cons p t =>
          refine ⟨_, by simp [DataEntry.toJson, hrs, hty', htx, hsd, hp]; rfl, ?_⟩
          simp [decodeEntry, Json.get, asNat, Json.asBool, hk, hrs, updOf, hty', htx, hb, hrt, hsd, hty, htb, hu]

theorem entry_roundtrip_other (items : List Record) (ty : Nat → Option Ty) (k : CstType) (e : DataEntry)
    (hk : kindOf items e.uid = some k) (hrs : isRSObject k = false) :
    ∃ j, e.toJson k = some j ∧ decodeEntry items ty j = some (some (updOf k e)) := by
  cases hc : isCallable k
  · rcases hs : e.stmt with _ | b
    · refine ⟨_, by simp [DataEntry.toJson, hrs, hc, hs]; rfl, ?_⟩
      simp [decodeEntry, Json.get, asNat, Json.asBool, hk, hrs, hc, updOf, hs]
    · refine ⟨_, by simp [DataEntry.toJson, hrs, hc, hs]; rfl, ?_⟩
      simp [decodeEntry, Json.get, asNat, Json.asBool, hk, hrs, hc, updOf, hs]
  · refine ⟨_, by simp [DataEntry.toJson, hrs, hc]; rfl, ?_⟩
    simp [decodeEntry, Json.get, asNat, Json.asBool, hk, hrs, hc, updOf]

/-- what a data entry of a reachable model satisfies, by the kind of its constituent `r`;
`K` = the condition on the keys of a text interpretation -/
def EntryWFk (K : TextInterp → Prop) (r : Record) (e : DataEntry) : Prop :=
  if isBaseSet r.type = true then
    -- base sets: texts present (keys satisfying `K`), data = set of the keys
    e.stmt = none ∧ ∃ t, e.texts = some t ∧ K t ∧ e.sdata = some (keysSet t) ∧
      ∀ τ, e.typif = some τ → ValOK τ (keysSet t)
  else if isRSObject r.type = true then
    -- structures and terms: a value only with a typification it is compatible with; a verified
    -- structure of set type always has a value (`ResetFor` gives it the empty set)
    e.stmt = none ∧ e.texts = none ∧ (∀ v, e.sdata = some v → ∃ τ, e.typif = some τ ∧ ValOK τ v) ∧
      (e.sdata = none → ¬ (r.type = .structured ∧ r.parse.status = .verified ∧ isColl e.typif = true))
  else if isCallable r.type = true then e.stmt = none ∧ e.texts = none ∧ e.sdata = none
  else e.texts = none ∧ e.sdata = none

/-- … with keys exactly `1..n` (recorded finding C10-text-keys) -/
abbrev EntryWF := EntryWFk Contiguous

theorem entry_roundtrip (hrtx : TextRT) (items : List Record) (ty : Nat → Option Ty) (r : Record) (e : DataEntry)
    (hk : kindOf items e.uid = some r.type) (hty : ty e.uid = e.typif) (hw : EntryWF r e) :
    ∃ j, e.toJson r.type = some j ∧ decodeEntry items ty j = some (some (updOf r.type e)) := by
  cases hrs : isRSObject r.type
  · exact entry_roundtrip_other items ty r.type e hk hrs
  · apply entry_roundtrip_rs hrtx items ty r.type e hk hty hrs
    · intro τ v h1 h2
      unfold EntryWF EntryWFk at hw
      split at hw
      · obtain ⟨_, t, _, _, hd, hτ⟩ := hw
        rw [h2] at hd; cases hd
        exact hτ τ h1
      · obtain ⟨τ', h3, h4⟩ := hw.2.2.1 v h2
        rw [h1] at h3; cases h3; exact h4
    · intro t h1
      unfold EntryWF EntryWFk at hw
      split at hw
      · next hb =>
        obtain ⟨_, t', h2, hc, _⟩ := hw
        rw [h1] at h2; cases h2
        exact ⟨hb, hc⟩
      · rw [hw.2.1] at h1; cases h1

theorem entry_restore (K : TextInterp → Prop) (r : Record) (e : DataEntry) (hu : r.uid = e.uid)
    (hw : EntryWFk K r e) :
    applyOne (resetEntry r e.typif) (updOf r.type e) = e := by
  obtain ⟨uid, wc, typif, sdata, texts, stmt⟩ := e
  simp only at hu
  subst hu
  unfold EntryWFk at hw
  cases hk : r.type <;> simp only [hk, isBaseSet, isRSObject, isCallable] at hw <;> simp at hw
  case base | constant =>
    obtain ⟨rfl, t, rfl, _, rfl, _⟩ := hw
    cases typif <;> cases t <;>
      simp [applyOne, resetEntry, updOf, hk, isBaseSet, isRSObject, isCallable, keysSet]
  case structured =>
    obtain ⟨rfl, rfl, h3, h4⟩ := hw
    cases sdata with
    | none =>
      have h5 := h4 rfl
      by_cases hs : r.parse.status = PStatus.verified
      · simp [applyOne, resetEntry, updOf, hk, isBaseSet, isRSObject, isCallable, h5 hs]
      · simp [applyOne, resetEntry, updOf, hk, isBaseSet, isRSObject, isCallable, hs]
    | some v =>
      obtain ⟨τ, rfl, _⟩ := h3 v rfl
      by_cases hs : r.parse.status = PStatus.verified ∧ isColl (some τ) = true
      · simp [applyOne, resetEntry, updOf, hk, isBaseSet, isRSObject, isCallable, hs]
      · simp [applyOne, resetEntry, updOf, hk, isBaseSet, isRSObject, isCallable, hs]
  case term =>
    obtain ⟨rfl, rfl, h3⟩ := hw
    cases sdata with
    | none => simp [applyOne, resetEntry, updOf, hk, isBaseSet, isRSObject, isCallable]
    | some v =>
      obtain ⟨τ, rfl, _⟩ := h3 v rfl
      simp [applyOne, resetEntry, updOf, hk, isBaseSet, isRSObject, isCallable]
  case ax | thm =>
    obtain ⟨rfl, rfl⟩ := hw
    cases stmt <;> simp [applyOne, resetEntry, updOf, hk, isBaseSet, isRSObject, isCallable]
  case function | predicate =>
    obtain ⟨rfl, rfl, rfl⟩ := hw
    simp [applyOne, resetEntry, updOf, hk, isBaseSet, isRSObject, isCallable]

theorem insertUid_perm (u : Nat) (l : List Nat) : (insertUid u l).Perm (u :: l) := by
  induction l with
  | nil => simp [insertUid]
  | cons x xs ih =>
    unfold insertUid
    split
    · exact List.Perm.refl _
    · exact (List.Perm.cons x ih).trans (List.Perm.swap u x xs)

theorem sortUids_perm (l : List Nat) : (sortUids l).Perm l := by
  induction l with
  | nil => simp [sortUids]
  | cons u us ih => exact (insertUid_perm u _).trans (List.Perm.cons u ih)

theorem find_of_nodup (items : List Record) (h : (items.map (·.uid)).Nodup) (r : Record) (hr : r ∈ items) :
    items.find? (·.uid == r.uid) = some r := by
  induction items with
  | nil => cases hr
  | cons x xs ih =>
    simp only [List.map_cons, List.nodup_cons] at h
    rcases List.mem_cons.1 hr with rfl | hr
    · simp
    · have hne : x.uid ≠ r.uid := fun e => h.1 (e ▸ List.mem_map.2 ⟨r, hr, rfl⟩)
      simp [List.find?_cons, hne, ih h.2 hr]

theorem mapM_roundtrip {α β γ : Type} (f : α → Option β) (g : β → Option γ) (h : α → γ) :
    ∀ xs : List α, (∀ a ∈ xs, ∃ b, f a = some b ∧ g b = some (h a)) →
      ∃ bs, xs.mapM f = some bs ∧ bs.mapM g = some (xs.map h) := by
  intro xs
  induction xs with
  | nil => intro _; exact ⟨[], by simp, by simp⟩
  | cons x xs ih =>
    intro H
    obtain ⟨b, hb1, hb2⟩ := H x (by simp)
    obtain ⟨bs, hbs1, hbs2⟩ := ih (fun a ha => H a (by simp [ha]))
    exact ⟨b :: bs, by simp [List.mapM_cons, hb1, hbs1], by simp [List.mapM_cons, hb2, hbs2]⟩

theorem applyUpd_noop (l : List DataEntry) (u : Upd) (h : ∀ x ∈ l, x.uid ≠ u.uid) : applyUpd l u = l := by
  unfold applyUpd
  conv => rhs; rw [← List.map_id l]
  apply List.map_congr_left
  intro x hx
  simp [h x hx]

theorem applyOne_uid (e : DataEntry) (u : Upd) : (applyOne e u).uid = e.uid := by
  unfold applyOne
  cases u.sdata <;> cases u.texts <;> cases u.stmt <;> simp <;> split <;> rfl

/-- one update per stored entry, same order, distinct uids: the fold is pointwise -/
theorem foldl_applyUpd {α : Type} (key : α → Nat) (s : α → DataEntry) (u : α → Upd)
    (hu : ∀ x, (u x).uid = key x) :
    ∀ (post : List α) (pre : List DataEntry), (∀ x ∈ post, (s x).uid = key x) →
      (∀ x ∈ pre, ∀ y ∈ post, x.uid ≠ key y) → (post.map key).Nodup →
      (post.map u).foldl applyUpd (pre ++ post.map s) = pre ++ post.map (fun x => applyOne (s x) (u x)) := by
  intro post
  induction post with
  | nil => intro pre _ _ _; simp
  | cons a post ih =>
    intro pre hs' hd hn
    have hs : ∀ x ∈ post, (s x).uid = key x := fun x hx => hs' x (by simp [hx])
    have hsa : (s a).uid = key a := hs' a (by simp)
    simp only [List.map_cons, List.nodup_cons] at hn
    have hpost : ∀ y ∈ post, key y ≠ key a := by
      intro y hy e; exact hn.1 (e ▸ List.mem_map.2 ⟨y, hy, rfl⟩)
    have h1 : applyUpd (pre ++ s a :: post.map s) (u a) = pre ++ applyOne (s a) (u a) :: post.map s := by
      have hp := applyUpd_noop pre (u a) (fun x hx => by rw [hu]; exact hd x hx a (by simp))
      have hq := applyUpd_noop (post.map s) (u a) (by
        intro x hx; obtain ⟨y, hy, rfl⟩ := List.mem_map.1 hx; rw [hs y hy, hu]; exact hpost y hy)
      unfold applyUpd at hp hq ⊢
      rw [List.map_append, List.map_cons, hp, hq]
      simp [hsa, hu]
    rw [List.map_cons, List.map_cons, List.foldl_cons, h1, List.map_cons]
    have := ih (pre ++ [applyOne (s a) (u a)]) hs (by
      intro x hx y hy
      rcases List.mem_append.1 hx with hx | hx
      · exact hd x hx y (by simp [hy])
      · simp only [List.mem_singleton] at hx; subst hx; rw [applyOne_uid, hsa]; exact (hpost y hy).symm) hn.2
    simpa using this

/-- well-formedness of a model document's content (`K`: condition on text-interpretation keys) -/
structure Model.WFk (K : TextInterp → Prop) (c : Model) : Prop where
  items : ItemsWF c.items
  /-- an `RSModel` has no tracking facet -/
  noTrack : ∀ r ∈ c.items, r.track = none
  /-- one data entry per constituent, in `std::map` order of the uids -/
  uids : c.data.map (·.uid) = sortUids (c.items.map (·.uid))
  entries : ∀ e ∈ c.data, ∃ r ∈ c.items, r.uid = e.uid ∧ EntryWFk K r e

abbrev Model.WF (c : Model) : Prop := Model.WFk Contiguous c

/-- the derived fields (incl. the typifications the data part is packed against) are what
`UpdateState` computes on the reloaded records -/
def ModelUpdated (env : Env) (c : Model) : Prop :=
  Updated env c.items ∧ ∀ e ∈ c.data, env.typif (c.items.map Record.preUpdate) e.uid = e.typif

theorem applyDerived_updated (env : Env) (items : List Record) (h : Updated env items)
    (hn : ∀ r ∈ items, r.track = none) :
    applyDerived (env.analyse (items.map Record.preUpdate)) (items.map Record.preUpdate) = items := by
  rw [applyDerived_eq, List.map_map]
  conv => rhs; rw [← List.map_id items]
  apply List.map_congr_left
  intro r hr
  have h1 : env.analyse (items.map Record.preUpdate) r.uid = r.derived := h r hr
  have h2 := hn r hr
  simp only [Function.comp_def]
  have : (Record.preUpdate r).uid = r.uid := rfl
  rw [this, h1]
  cases r with
  | mk uid type alias convention term forms formal definition parse track =>
    cases term; cases definition
    simp_all [setDerived, Record.preUpdate, Record.derived]

theorem model_get (c : Model) (ds : List Json) :
    let j := Json.obj [("type", .str "rsmodel"), ("title", .str c.title), ("alias", .str c.alias),
      ("comment", .str c.comment), ("items", itemsToJson c.items), ("data", .arr ds)]
    j.get "title" = some (.str c.title) ∧ j.get "alias" = some (.str c.alias) ∧
    j.get "comment" = some (.str c.comment) ∧ j.get "items" = some (itemsToJson c.items) ∧
    j.get "data" = some (.arr ds) := by
  simp [Json.get]

theorem model_roundtrip_core (hrtx : TextRT) (env : Env) (c : Model) (h : c.WF) (hu : ModelUpdated env c) :
    ∃ j, c.toJson = some j ∧ Model.fromJson env j = some c := by
  have hnd : (c.items.map (·.uid)).Nodup := h.items.load.uids
  have hdn : (c.data.map (·.uid)).Nodup := by
    rw [h.uids]; exact (sortUids_perm _).nodup_iff.2 hnd
  let ty := env.typif (c.items.map Record.preUpdate)
  let recOf : DataEntry → Record := fun e => (c.items.find? (·.uid == e.uid)).getD default
  have hrec : ∀ e ∈ c.data, c.items.find? (·.uid == e.uid) = some (recOf e) ∧ (recOf e).uid = e.uid ∧ EntryWF (recOf e) e := by
    intro e he
    obtain ⟨r, hr, hre, hw⟩ := h.entries e he
    have hf := find_of_nodup c.items hnd r hr
    rw [hre] at hf
    have : recOf e = r := by simp [recOf, hf]
    rw [this]; exact ⟨hf, hre, hw⟩
  -- the data array
  obtain ⟨ds, hds1, hds2⟩ := mapM_roundtrip (fun e : DataEntry => (kindOf c.items e.uid) >>= (e.toJson ·))
    (decodeEntry c.items ty) (fun e => some (updOf (recOf e).type e)) c.data (by
      intro e he
      obtain ⟨hf, hre, hw⟩ := hrec e he
      have hk : kindOf c.items e.uid = some (recOf e).type := by simp [kindOf, hf]
      obtain ⟨j, hj1, hj2⟩ := entry_roundtrip hrtx c.items ty (recOf e) e hk (hu.2 e he) hw
      exact ⟨j, by simp [hk, hj1], hj2⟩)
  refine ⟨_, by simp only [Model.toJson, dataToJson, hds1, Option.map_some]; rfl, ?_⟩
  obtain ⟨g1, g2, g3, g4, g5⟩ := model_get c ds
  have hl := loadItems_wf env c.items h.items
  rw [applyDerived_updated env c.items hu.1 h.noTrack] at hl
  -- the store after `FinalizeLoadingCore`
  have hstore : (sortUids (c.items.map (·.uid))).mapM (resetFor c.items ty) =
      some (c.data.map fun e => resetEntry (recOf e) e.typif) := by
    rw [← h.uids]
    apply mapM_map_mem
    intro e he
    obtain ⟨hf, _, _⟩ := hrec e he
    simp [resetFor, hf, ty, hu.2 e he]
  have hfold := foldl_applyUpd (fun e : DataEntry => e.uid) (fun e => resetEntry (recOf e) e.typif)
    (fun e => updOf (recOf e).type e) (by
      intro e; unfold updOf; split
      · rfl
      · split <;> rfl) c.data [] (by
      intro e he
      have := (hrec e he).2.1
      unfold resetEntry; split
      · exact this
      · split <;> exact this) (by simp) hdn
  have hrestore : (c.data.map fun e => applyOne (resetEntry (recOf e) e.typif) (updOf (recOf e).type e)) = c.data := by
    conv => rhs; rw [← List.map_id c.data]
    apply List.map_congr_left
    intro e he
    obtain ⟨_, hre, hw⟩ := hrec e he
    exact entry_restore _ (recOf e) e hre hw
  simp only [List.nil_append] at hfold
  rw [hrestore] at hfold
  simp only [ty] at hstore hds2
  have hfm : (c.data.map fun e => some (updOf (recOf e).type e)).filterMap id =
      c.data.map fun e => updOf (recOf e).type e := by
    rw [List.filterMap_map]
    induction c.data with
    | nil => rfl
    | cons x xs ih => simp [List.filterMap_cons, ih]
  simp only [Model.fromJson, optStr, g1, g2, g3, g4, g5, Json.asStr, Option.bind_eq_bind, Option.bind_some,
    Option.pure_def, hl, loadData, hstore, Json.asArr, hds2, hfm, hfold]

/-! ### data elements the loader ignores (after the /repo repair of `LoadData`) -/

theorem kindOf_none (items : List Record) (u : Nat) (hn : ∀ r ∈ items, r.uid ≠ u) : kindOf items u = none := by
  unfold kindOf
  have : items.find? (·.uid == u) = none := by
    rw [List.find?_eq_none]; intro r hr; simpa using hn r hr
  rw [this]; rfl

/-- an element whose uid is not a uid of the items is skipped, whatever else it contains -/
theorem decodeEntry_unknown (items : List Record) (ty : Nat → Option Ty) (j : Json) (u : Nat)
    (hu : (j.get "entityUID") >>= asNat = some u) (hn : ∀ r ∈ items, r.uid ≠ u) :
    decodeEntry items ty j = some none := by
  unfold decodeEntry
  rw [hu]
  simp [kindOf_none items u hn]

theorem mapM_insert {α β : Type} (f : α → Option β) (pre post : List α) (x : α) :
    (pre ++ x :: post).mapM f =
      (pre.mapM f).bind fun a => (f x).bind fun b => (post.mapM f).bind fun c => some (a ++ b :: c) := by
  rw [List.mapM_append, List.mapM_cons]
  cases pre.mapM f <;> cases f x <;> cases post.mapM f <;> simp

theorem mapM_append' {α β : Type} (f : α → Option β) (pre post : List α) :
    (pre ++ post).mapM f = (pre.mapM f).bind fun a => (post.mapM f).bind fun c => some (a ++ c) := by
  rw [List.mapM_append]
  cases pre.mapM f <;> cases post.mapM f <;> simp

theorem loadData_unknown_ignored' (items : List Record) (ty : Nat → Option Ty) (pre post : List Json) (j : Json)
    (u : Nat) (hu : (j.get "entityUID") >>= asNat = some u) (hn : ∀ r ∈ items, r.uid ≠ u) :
    loadData items ty (.arr (pre ++ j :: post)) = loadData items ty (.arr (pre ++ post)) := by
  unfold loadData
  simp only [Json.asArr, Option.bind_eq_bind, Option.bind_some]
  rw [mapM_insert, mapM_append', decodeEntry_unknown items ty j u hu hn]
  cases (sortUids (items.map (·.uid))).mapM (resetFor items ty) <;>
    cases pre.mapM (decodeEntry items ty) <;> cases post.mapM (decodeEntry items ty) <;> simp

/-- the document element without the key `k` -/
def dropKey (k : String) : Json → Json
  | .obj kvs => .obj (kvs.filter (fun kv => kv.1 != k))
  | j => j

theorem get_dropKey_ne (k k' : String) (h : k' ≠ k) (j : Json) : (dropKey k j).get k' = j.get k' := by
  cases j with
  | obj kvs =>
    simp only [dropKey, Json.get]
    congr 1
    induction kvs with
    | nil => rfl
    | cons kv kvs ih =>
      obtain ⟨a, v⟩ := kv
      by_cases hk : a = k
      · subst hk
        have hne : (a == k') = false := by
          simp only [beq_eq_false_iff_ne, ne_eq]; exact fun e => h e.symm
        simp only [List.filter_cons, bne_self_eq_false, Bool.false_eq_true, if_false, List.find?_cons, hne]
        exact ih
      · have hk2 : (a != k) = true := by simpa using hk
        simp only [List.filter_cons, hk2, if_true, List.find?_cons]
        cases (a == k')
        · exact ih
        · rfl
  | _ => rfl

theorem get_dropKey_self (k : String) (j : Json) : (dropKey k j).get k = none := by
  cases j with
  | obj kvs =>
    simp only [dropKey, Json.get]
    have : (kvs.filter (fun kv => kv.1 != k)).find? (fun kv => kv.1 == k) = none := by
      rw [List.find?_eq_none]; intro x hx; simp at hx; simpa using hx.2
    rw [this]; rfl
  | _ => rfl

/-- the `texts` of an element for a constituent that is not a base set are not looked at -/
theorem decodeEntry_texts_nonbase (items : List Record) (ty : Nat → Option Ty) (j : Json) (u : Nat) (kind : CstType)
    (hu : (j.get "entityUID") >>= asNat = some u) (hk : kindOf items u = some kind) (hb : isBaseSet kind = false) :
    decodeEntry items ty j = decodeEntry items ty (dropKey "texts" j) := by
  unfold decodeEntry
  rw [get_dropKey_ne "texts" "entityUID" (by decide), get_dropKey_ne "texts" "wasCalculated" (by decide),
    get_dropKey_ne "texts" "value" (by decide), get_dropKey_self, hu]
  simp only [Option.bind_eq_bind, Option.bind_some, hk, hb]
  cases j.get "texts" <;> rfl

theorem mapM_congr_at {α β : Type} (f : α → Option β) (pre post : List α) (x y : α) (h : f x = f y) :
    (pre ++ x :: post).mapM f = (pre ++ y :: post).mapM f := by
  rw [mapM_insert, mapM_insert, h]

theorem loadData_texts_nonbase_ignored' (items : List Record) (ty : Nat → Option Ty) (pre post : List Json) (j : Json)
    (u : Nat) (kind : CstType) (hu : (j.get "entityUID") >>= asNat = some u) (hk : kindOf items u = some kind)
    (hb : isBaseSet kind = false) :
    loadData items ty (.arr (pre ++ j :: post)) = loadData items ty (.arr (pre ++ dropKey "texts" j :: post)) := by
  unfold loadData
  simp only [Json.asArr, Option.bind_eq_bind, Option.bind_some]
  rw [mapM_congr_at _ pre post j (dropKey "texts" j) (decodeEntry_texts_nonbase items ty j u kind hu hk hb)]

/-- loader inputs answering with the derived fields of a given content (satisfiability of
`Updated` / `ModelUpdated`) -/
def envOf (items : List Record) (data : List DataEntry) : Env :=
  { fresh := fun _ => 0
    rename := fun _ _ r => r
    analyse := fun _ u => ((items.find? (·.uid == u)).map Record.derived).getD {}
    typif := fun _ u => (data.find? (·.uid == u)).bind (·.typif) }

theorem updated_envOf (items : List Record) (data : List DataEntry) (h : (items.map (·.uid)).Nodup) :
    Updated (envOf items data) items := by
  intro r hr
  simp [envOf, find_of_nodup items h r hr]

theorem find_entry_of_nodup (data : List DataEntry) (h : (data.map (·.uid)).Nodup) (e : DataEntry) (he : e ∈ data) :
    data.find? (·.uid == e.uid) = some e := by
  induction data with
  | nil => cases he
  | cons x xs ih =>
    simp only [List.map_cons, List.nodup_cons] at h
    rcases List.mem_cons.1 he with rfl | he
    · simp
    · have hne : x.uid ≠ e.uid := fun e' => h.1 (e' ▸ List.mem_map.2 ⟨e, he, rfl⟩)
      simp [List.find?_cons, hne, ih h.2 he]

theorem modelUpdated_envOf (c : Model) (h : c.WF) : ModelUpdated (envOf c.items c.data) c := by
  refine ⟨updated_envOf _ _ h.items.load.uids, ?_⟩
  intro e he
  have hdn : (c.data.map (·.uid)).Nodup := by
    rw [h.uids]; exact (sortUids_perm _).nodup_iff.2 h.items.load.uids
  simp [envOf, find_entry_of_nodup c.data hdn e he]

/-! ## the loader establishes well-formedness -/

def KindOrder (ks : List CstType) : Prop := ks.Pairwise (fun a b => b.isBasic = true → a.code ≤ b.code)

theorem lastIdx_none {α : Type} (p : α → Bool) (l : List α) (h : lastIdx p l = none) : ∀ x ∈ l, p x = false := by
  induction l with
  | nil => intro x hx; cases hx
  | cons a l ih =>
    unfold lastIdx at h
    split at h
    · cases h
    · next hl =>
      split at h
      · cases h
      · next hp =>
        intro x hx
        rcases List.mem_cons.1 hx with rfl | hx
        · simpa using hp
        · exact ih hl x hx

theorem lastIdx_some {α : Type} (p : α → Bool) (l : List α) (i : Nat) (h : lastIdx p l = some i) :
    ∃ pre x post, l = pre ++ x :: post ∧ pre.length = i ∧ p x = true ∧ ∀ y ∈ post, p y = false := by
  induction l generalizing i with
  | nil => simp [lastIdx] at h
  | cons a l ih =>
    unfold lastIdx at h
    split at h
    · next j hj =>
      cases h
      obtain ⟨pre, x, post, rfl, hlen, hp, hpost⟩ := ih j hj
      exact ⟨a :: pre, x, post, rfl, by simp [hlen], hp, hpost⟩
    · next hl =>
      split at h
      · next hp =>
        cases h
        exact ⟨[], a, l, rfl, rfl, hp, lastIdx_none p l hl⟩
      · cases h

theorem code_basic (k t : CstType) (h : k.code ≤ t.code) (ht : t.isBasic = true) : k.isBasic = true := by
  cases k <;> cases t <;> simp_all [CstType.code, CstType.isBasic]

theorem kindOrder_insert (ks : List CstType) (t : CstType) (h : KindOrder ks) :
    KindOrder (insertAt ks (insertPos ks t) t) := by
  unfold insertPos
  split
  · next hb =>
    split
    · next i hi =>
      obtain ⟨pre, x, post, rfl, hlen, hp, hpost⟩ := lastIdx_some _ _ _ hi
      have hx : x.code ≤ t.code := by simpa using hp
      have hins : insertAt (pre ++ x :: post) (i + 1) t = pre ++ x :: t :: post := by
        subst hlen
        have e1 : List.take (pre.length + 1) (pre ++ x :: post) = pre ++ [x] := by
          rw [List.take_append]; simp [List.take_of_length_le]
        have e2 : List.drop (pre.length + 1) (pre ++ x :: post) = post := by
          rw [List.drop_append]; simp [List.drop_of_length_le]
        simp [insertAt, e1, e2]
      rw [hins]
      unfold KindOrder at h ⊢
      simp only [List.pairwise_append, List.pairwise_cons, List.mem_cons] at h ⊢
      obtain ⟨h1, ⟨h2, h3⟩, h4⟩ := h
      refine ⟨h1, ⟨?_, ?_, h3⟩, ?_⟩
      · intro b hb'
        rcases hb' with rfl | hb'
        · intro _; exact hx
        · exact h2 b hb'
      · intro b hb' _
        have := hpost b hb'
        simp at this
        omega
      · intro a ha b hb'
        rcases hb' with rfl | rfl | hb'
        · exact h4 a ha b (by simp)
        · intro _
          have := h4 a ha x (by simp) (code_basic x b hx hb)
          omega
        · exact h4 a ha b (by simp [hb'])
    · next hn =>
      have hall := lastIdx_none _ _ hn
      cases ks with
      | nil => simp [insertAt, KindOrder]
      | cons first rest =>
        have hf := hall first (by simp)
        simp only [decide_eq_false_iff_not, Nat.not_le] at hf
        simp only [hf, if_true]
        simp only [insertAt, List.take_zero, List.drop_zero, List.nil_append]
        unfold KindOrder at h ⊢
        rw [List.pairwise_cons]
        refine ⟨?_, h⟩
        intro b hb' _
        have := hall b hb'
        simp at this
        omega
  · rw [insertAt_end]
    unfold KindOrder at h ⊢
    rw [List.pairwise_append]
    refine ⟨h, by simp, ?_⟩
    intro a _ b hb hbb
    simp only [List.mem_singleton] at hb; subst hb
    rename_i hnb
    exact absurd hbb hnb

/-- the translator applied for a replaced alias (`RSConcept::Translate`, `TextConcept::TranslateRaw`)
rewrites the formal definition and the raw texts only -/
def RenameOK (env : Env) : Prop :=
  ∀ o n r, (env.rename o n r).uid = r.uid ∧ (env.rename o n r).alias = r.alias ∧
    (env.rename o n r).type = r.type ∧ (env.rename o n r).forms = r.forms

theorem mem_insertAt {α : Type} (l : List α) (i : Nat) (a x : α) : x ∈ insertAt l i a ↔ x = a ∨ x ∈ l := by
  unfold insertAt
  constructor
  · intro h
    rcases List.mem_append.1 h with h | h
    · exact Or.inr (List.mem_of_mem_take h)
    · rcases List.mem_cons.1 h with h | h
      · exact Or.inl h
      · exact Or.inr (List.mem_of_mem_drop h)
  · intro h
    rcases h with rfl | h
    · simp
    · rw [← List.take_append_drop i l] at h
      rcases List.mem_append.1 h with h | h
      · exact List.mem_append.2 (Or.inl h)
      · exact List.mem_append.2 (Or.inr (List.mem_cons_of_mem _ h))

theorem insertAt_perm {α : Type} (l : List α) (i : Nat) (a : α) : (insertAt l i a).Perm (a :: l) := by
  unfold insertAt
  have := List.take_append_drop i l
  conv => rhs; rw [← this]
  exact List.perm_middle

theorem map_insertAt {α β : Type} (f : α → β) (l : List α) (i : Nat) (a : α) :
    (insertAt l i a).map f = insertAt (l.map f) i (f a) := by
  simp [insertAt, List.map_take, List.map_drop]

/-- invariant of `RSCore` while loading -/
structure LoadInv (st : LoadSt) : Prop where
  ids : ∀ r ∈ st.items, r.uid ∈ st.ids
  names : ∀ r ∈ st.items, r.alias ∈ st.names
  ok : LoadOK st.items

theorem loadRecord_inv (env : Env) (hren : RenameOK env) (st st' : LoadSt) (r : Record)
    (h : loadRecord env st r = some st') (hi : LoadInv st) :
    LoadInv st' ∧ ∃ r2, st'.items = insertAt st.items (insertPos (st.items.map (·.type)) r.type) r2 ∧
      r2.type = r.type ∧ r2.forms = r.forms := by
  unfold loadRecord at h
  split at h
  · cases h
  · next ids names u a hreg =>
    obtain ⟨hids, hnames, hu, ha, hty⟩ := registerID_spec hreg
    -- the record that is stored
    have key : ∀ r2 : Record, r2.uid = u → r2.alias = a → r2.type = r.type →
        LoadInv ⟨ids, names, insertAt st.items (insertPos (st.items.map (·.type)) r.type) r2⟩ := by
      intro r2 h1 h2 h3
      refine ⟨?_, ?_, ⟨?_, ?_, ?_, ?_⟩⟩
      · intro x hx
        rcases (mem_insertAt _ _ _ _).1 hx with rfl | hx
        · rw [h1, hids]; simp
        · rw [hids]; exact List.mem_cons_of_mem _ (hi.ids x hx)
      · intro x hx
        rcases (mem_insertAt _ _ _ _).1 hx with rfl | hx
        · rw [h2, hnames]; simp
        · rw [hnames]; exact List.mem_cons_of_mem _ (hi.names x hx)
      · rw [map_insertAt, (insertAt_perm _ _ _).nodup_iff, List.nodup_cons, h1]
        refine ⟨?_, hi.ok.uids⟩
        intro hm
        obtain ⟨y, hy, rfl⟩ := List.mem_map.1 hm
        exact hu (hi.ids y hy)
      · rw [map_insertAt, (insertAt_perm _ _ _).nodup_iff, List.nodup_cons, h2]
        refine ⟨?_, hi.ok.aliases⟩
        intro hm
        obtain ⟨y, hy, rfl⟩ := List.mem_map.1 hm
        exact ha (hi.names y hy)
      · intro x hx
        rcases (mem_insertAt _ _ _ _).1 hx with rfl | hx
        · rw [h2, h3]; exact hty
        · exact hi.ok.names x hx
      · rw [map_insertAt, h3]
        exact kindOrder_insert _ _ hi.ok.order
    simp only [Option.some.injEq] at h
    subst h
    by_cases hne : r.alias ≠ a
    · rw [if_pos hne]
      obtain ⟨q1, q2, q3, q4⟩ := hren r.alias a { r with uid := u, alias := a }
      exact ⟨key _ q1 q2 q3, _, rfl, q3, q4⟩
    · rw [if_neg hne]
      exact ⟨key _ rfl rfl rfl, _, rfl, rfl, rfl⟩

theorem loadAll_inv (env : Env) (hren : RenameOK env) (rs : List Record) (st st' : LoadSt)
    (h : loadAll env st rs = some st') (hi : LoadInv st)
    (hf : ∀ r ∈ st.items, FormsWF r.forms) (hfr : ∀ r ∈ rs, FormsWF r.forms) :
    LoadInv st' ∧ ∀ r ∈ st'.items, FormsWF r.forms := by
  induction rs generalizing st with
  | nil => simp only [loadAll, Option.some.injEq] at h; subst h; exact ⟨hi, hf⟩
  | cons r rs ih =>
    unfold loadAll at h
    split at h
    · next st1 h1 =>
      obtain ⟨hi1, r2, hitems, _, hforms⟩ := loadRecord_inv env hren st st1 r h1 hi
      apply ih st1 h hi1
      · intro x hx
        rw [hitems] at hx
        rcases (mem_insertAt _ _ _ _).1 hx with rfl | hx
        · rw [hforms]; exact hfr r (by simp)
        · exact hf x hx
      · intro x hx; exact hfr x (by simp [hx])
    · cases h

/-! forms read from any document -/

theorem setForm_mem (fs : List Form) (tags text : String) (g : Form) (h : g ∈ setForm fs tags text) :
    g.tags = tags ∨ g ∈ fs := by
  induction fs with
  | nil => simp [setForm] at h; left; rw [h]
  | cons f rest ih =>
    unfold setForm at h
    split at h
    · rcases List.mem_cons.1 h with rfl | h
      · left; rfl
      · right; exact h
    · split at h
      · rcases List.mem_cons.1 h with rfl | h
        · left; rfl
        · right; exact List.mem_cons_of_mem _ h
      · rcases List.mem_cons.1 h with rfl | h
        · right; simp
        · rcases ih h with h | h
          · left; exact h
          · right; exact List.mem_cons_of_mem _ h

theorem setForm_sorted (fs : List Form) (tags text : String) (h : fs.Pairwise (fun a b => a.tags < b.tags)) :
    (setForm fs tags text).Pairwise (fun a b => a.tags < b.tags) := by
  induction fs with
  | nil => simp [setForm]
  | cons f rest ih =>
    rw [List.pairwise_cons] at h
    unfold setForm
    split
    · next hlt =>
      rw [List.pairwise_cons]
      refine ⟨?_, List.pairwise_cons.2 h⟩
      intro b hb
      rcases List.mem_cons.1 hb with rfl | hb
      · exact hlt
      · exact String.lt_trans hlt (h.1 b hb)
    · next hnlt =>
      split
      · next heq =>
        rw [List.pairwise_cons]
        refine ⟨?_, h.2⟩
        intro b hb
        show tags < b.tags
        rw [heq]; exact h.1 b hb
      · next hne =>
        have hgt : f.tags < tags := Std.lt_of_le_of_ne hnlt (Ne.symm hne)
        rw [List.pairwise_cons]
        refine ⟨?_, ih h.2⟩
        intro b hb
        rcases setForm_mem rest tags text b hb with hb | hb
        · rw [hb]; exact hgt
        · exact h.1 b hb

/-- `Morphology(Morphology(s).ToString()) == Morphology(s)` on the level of tag strings -/
def NormIdem : Prop := ∀ s, normTags (normTags s) = normTags s

theorem foldl_setForm_wf (hn : NormIdem) (fs acc : List Form) (hacc : FormsWF acc)
    (hfs : ∀ f ∈ fs, ∃ s, f.tags = normTags s) :
    FormsWF (fs.foldl (fun acc f => setForm acc f.tags f.text) acc) := by
  induction fs generalizing acc with
  | nil => exact hacc
  | cons f fs ih =>
    rw [List.foldl_cons]
    apply ih
    · refine ⟨?_, setForm_sorted _ _ _ hacc.2⟩
      intro g hg
      rcases setForm_mem _ _ _ g hg with hg | hg
      · obtain ⟨s, hs⟩ := hfs f (by simp)
        rw [hg, hs]; exact hn s
      · exact hacc.1 g hg
    · intro g hg; exact hfs g (by simp [hg])

theorem mapM_some_mem {α β : Type} (f : α → Option β) : ∀ (xs : List α) (ys : List β), xs.mapM f = some ys →
    ∀ y ∈ ys, ∃ x ∈ xs, f x = some y := by
  intro xs
  induction xs with
  | nil => intro ys h y hy; simp at h; subst h; cases hy
  | cons x xs ih =>
    intro ys h y hy
    rw [List.mapM_cons] at h
    cases hfx : f x with
    | none => simp [hfx] at h
    | some b =>
      cases hxs : xs.mapM f with
      | none => simp [hfx, hxs] at h
      | some bs =>
        simp [hfx, hxs] at h
        subst h
        rcases List.mem_cons.1 hy with rfl | hy
        · exact ⟨x, by simp, hfx⟩
        · obtain ⟨x', hx', hfx'⟩ := ih bs hxs y hy
          exact ⟨x', by simp [hx'], hfx'⟩

theorem formsFromJson_wf (hn : NormIdem) (j : Json) (fs : List Form) (h : formsFromJson j = some fs) : FormsWF fs := by
  unfold formsFromJson at h
  cases hx : j.asArr with
  | none => simp [hx] at h
  | some xs =>
    cases hm : xs.mapM formFromJson with
    | none => simp [hx, hm] at h
    | some ys =>
      simp [hx, hm] at h
      subst h
      apply foldl_setForm_wf hn ys [] ⟨by simp, by simp⟩
      intro f hf
      obtain ⟨x, _, hfx⟩ := mapM_some_mem formFromJson xs ys hm f hf
      unfold formFromJson at hfx
      cases h1 : reqStr x "tags" with
      | none => simp [h1] at hfx
      | some tags =>
        cases h2 : reqStr x "text" with
        | none => simp [h1, h2] at hfx
        | some text =>
          simp [h1, h2] at hfx
          exact ⟨tags, by rw [← hfx]⟩

theorem termFromJson_wf (hn : NormIdem) (t : Json) (tf : MText × List Form) (h : termFromJson t = some tf) :
    FormsWF tf.2 := by
  simp only [termFromJson, Option.bind_eq_bind, Option.bind_eq_some_iff, Option.pure_def] at h
  obtain ⟨m, _, h⟩ := h
  split at h
  · simp only [Option.bind_some, Option.some.injEq] at h; subst h; exact ⟨by simp, by simp⟩
  · simp only [Option.bind_eq_some_iff, Option.some.injEq] at h
    obtain ⟨fs, hfs, rfl⟩ := h
    exact formsFromJson_wf hn _ _ hfs

theorem recordFromJson_wf (hn : NormIdem) (j : Json) (r : Record) (h : recordFromJson j = some r) : FormsWF r.forms := by
  simp only [recordFromJson, Option.bind_eq_bind, Option.bind_eq_some_iff, Option.pure_def] at h
  obtain ⟨uid, _, ty, _, alias, _, conv, _, h⟩ := h
  have hnil : FormsWF ([] : List Form) := ⟨by simp, by simp⟩
  split at h
  · simp only [Option.bind_some] at h
    split at h
    · simp only [Option.bind_some, Option.some.injEq] at h; subst h; exact hnil
    · simp only [Option.bind_eq_some_iff, Option.some.injEq] at h
      obtain ⟨fd, _, rfl⟩ := h; exact hnil
  · next t _ =>
    simp only [Option.bind_eq_some_iff] at h
    obtain ⟨tf, htf, h⟩ := h
    have := termFromJson_wf hn t tf htf
    split at h
    · simp only [Option.bind_some, Option.some.injEq] at h; subst h; exact this
    · simp only [Option.bind_eq_some_iff, Option.some.injEq] at h
      obtain ⟨fd, _, rfl⟩ := h; exact this

theorem itemsWF_map (f : Record → Record)
    (hf : ∀ r, (f r).uid = r.uid ∧ (f r).alias = r.alias ∧ (f r).type = r.type ∧ (f r).forms = r.forms)
    (items : List Record) (h : ItemsWF items) : ItemsWF (items.map f) := by
  have e1 : (items.map f).map (·.uid) = items.map (·.uid) := by
    rw [List.map_map]; apply List.map_congr_left; intro r _; exact (hf r).1
  have e2 : (items.map f).map (·.alias) = items.map (·.alias) := by
    rw [List.map_map]; apply List.map_congr_left; intro r _; exact (hf r).2.1
  have e3 : (items.map f).map (·.type) = items.map (·.type) := by
    rw [List.map_map]; apply List.map_congr_left; intro r _; exact (hf r).2.2.1
  refine ⟨?_, ⟨by rw [e1]; exact h.load.uids, by rw [e2]; exact h.load.aliases, ?_, by rw [e3]; exact h.load.order⟩⟩
  · intro r hr
    obtain ⟨x, hx, rfl⟩ := List.mem_map.1 hr
    rw [(hf x).2.2.2]; exact h.forms x hx
  · intro r hr
    obtain ⟨x, hx, rfl⟩ := List.mem_map.1 hr
    rw [(hf x).2.1, (hf x).2.2.1]; exact h.load.names x hx

theorem itemsWF_foldl_setTrack (es : List (Nat × TrackingFlags)) (items : List Record) (h : ItemsWF items) :
    ItemsWF (es.foldl setTrack items) := by
  induction es generalizing items with
  | nil => exact h
  | cons e es ih =>
    rw [List.foldl_cons]
    apply ih
    rw [setTrack_eq]
    apply itemsWF_map _ _ _ h
    intro r
    split <;> exact ⟨rfl, rfl, rfl, rfl⟩

theorem loadItems_any_wf (env : Env) (hren : RenameOK env) (hn : NormIdem) (j : Json) (res : List Record × List Record)
    (h : loadItems env j = some res) : ItemsWF res.2 := by
  simp only [loadItems, Option.bind_eq_bind, Option.bind_eq_some_iff, Option.pure_def, Option.some.injEq] at h
  obtain ⟨xs, _, rs, hrs, st, hst, rfl⟩ := h
  have hfr : ∀ r ∈ rs, FormsWF r.forms := by
    intro r hr
    obtain ⟨x, _, hx⟩ := mapM_some_mem recordFromJson xs rs hrs r hr
    exact recordFromJson_wf hn x r hx
  have hnil : ∀ (P : Record → Prop), ∀ r ∈ ({} : LoadSt).items, P r := fun P r hr => nomatch hr
  obtain ⟨hinv, hforms⟩ := loadAll_inv env hren rs {} st hst
    ⟨hnil _, hnil _, ⟨List.nodup_nil, List.nodup_nil, hnil _, List.Pairwise.nil⟩⟩ (hnil _) hfr
  show ItemsWF (applyDerived _ st.items)
  rw [applyDerived_eq]
  exact itemsWF_map (fun r => setDerived (env.analyse st.items r.uid) r) (fun r => ⟨rfl, rfl, rfl, rfl⟩) _ ⟨hforms, hinv.ok⟩

theorem schema_load_wf_of_normIdem (env : Env) (hren : RenameOK env) (hn : NormIdem) (d : Json) (c : Schema)
    (h : Schema.fromJson env d = some c) : c.WF := by
  simp only [Schema.fromJson, Option.bind_eq_bind, Option.bind_eq_some_iff, Option.pure_def] at h
  obtain ⟨title, _, alias, _, comment, _, loaded, hl, h⟩ := h
  obtain ⟨ij, _, hl⟩ := hl
  have hw := loadItems_any_wf env hren hn ij loaded hl
  split at h
  · simp only [Option.bind_some, Option.some.injEq] at h; subst h; exact hw
  · simp only [Option.bind_eq_some_iff, Option.some.injEq] at h
    obtain ⟨xs, _, es, _, a, rfl, rfl⟩ := h
    exact itemsWF_foldl_setTrack es _ hw



end CCVerif.JsonDoc
