import CCVerif.Model.Checker
import CCVerif.Lemmas.CheckerErr
/-!
Frame property of the type checker (`Model/Checker.lean`): the result of `check Γ e` depends on
the context only through `lookup Γ.types n` / `lookup Γ.funcs n` at the global names `n`
occurring in the tree (`globalsOf e`), `Γ.traits` and `Γ.isTypification`.

* `globalsOf` — texts of all ID_GLOBAL / ID_FUNCTION / ID_PREDICATE nodes plus the text of child 0
  of every NT_FUNC_CALL node (all occurrences, visited or not);
* `visit_frame`, `checkWithFuel_frame`, `check_frame` — two contexts that agree there give the
  same run (same outcome, same log, same declared arguments, same ghost flag);
* `Ctx.restrict`, `check_restrict` — the context cut down to the globals of the tree;
* `check_strict_counterexample` / `check_strict_statement_false` — the over-approximating
  `globalsOf` is not a lower bound of what a successful run resolves: `ViGlobalDeclaration` reads
  the declared name (child 0 of `X1:==…`) and never looks it up (TypeAuditor.cpp:347);
* `visitedIdx`, `Used`, `usedGlobals` — the global names at the positions a successful run visits;
  `post_dispatch` (a successful rule has successfully visited all children at `visitedIdx`),
  `visit_ok_used`, `check_strict_used`, `check_strict` — STRICTNESS: an accepted expression has
  every name of `usedGlobals e` typed by the context; `usedGlobals_subset` (⊆ `globalsOf`);
* `vVisit_frame`, `vcheck_frame` — the frame property of the value auditor (which additionally
  walks the bodies stored in `Γ.asts`: `vcheck_frame_needs_bodies_counterexample`).
-/
namespace CCVerif.Checker
open CCVerif.Syntax CCVerif.Types

/-! ## the global names of a tree -/

/-- the token kinds dispatched to `viGlobal` -/
def IsGlobalId (t : Tok) : Prop := t = .ID_GLOBAL ∨ t = .ID_FUNCTION ∨ t = .ID_PREDICATE

instance (t : Tok) : Decidable (IsGlobalId t) := by unfold IsGlobalId; exact inferInstance

/-- the string `textOf` reads from a node's payload (`[]` where `textOf` is stuck) -/
def dataText : TokData → List String
  | .text s => [s]
  | _ => []

/-- text of child 0 -/
def headText : List Ast → List String
  | k :: _ => dataText k.data
  | [] => []

mutual
/-- texts of all nodes with id ID_GLOBAL / ID_FUNCTION / ID_PREDICATE anywhere in the tree, plus
the text of child 0 of every NT_FUNC_CALL node -/
def globalsOf : Ast → List String
  | .node id d _ _ ks =>
    (if IsGlobalId id then dataText d else []) ++
    (if id = .NT_FUNC_CALL then headText ks else []) ++ globalsOfList ks
def globalsOfList : List Ast → List String
  | [] => []
  | k :: ks => globalsOf k ++ globalsOfList ks
end

theorem globalsOfList_mem {n : String} : ∀ {ks : List Ast} {k : Ast},
    k ∈ ks → n ∈ globalsOf k → n ∈ globalsOfList ks
  | [], _, hk, _ => by cases hk
  | k' :: ks, k, hk, hn => by
    simp only [globalsOfList, List.mem_append]
    rcases List.mem_cons.1 hk with rfl | hk
    · exact Or.inl hn
    · exact Or.inr (globalsOfList_mem hk hn)

theorem globalsOf_kid {a k : Ast} {n : String} (hk : k ∈ a.kids) (hn : n ∈ globalsOf k) :
    n ∈ globalsOf a := by
  cases a with
  | node id d lo hi ks =>
    simp only [globalsOf, List.mem_append]
    exact Or.inr (globalsOfList_mem hk hn)

theorem globalsOf_self {a : Ast} {s : String} (hg : IsGlobalId a.id) (hd : a.data = .text s) :
    s ∈ globalsOf a := by
  cases a with
  | node id d lo hi ks =>
    simp only [Ast.id, Ast.data] at hg hd
    subst hd
    simp [globalsOf, hg, dataText]

theorem globalsOf_call {a k0 : Ast} {s : String} (hc : a.id = .NT_FUNC_CALL)
    (hk : a.kid 0 = some k0) (hd : k0.data = .text s) : s ∈ globalsOf a := by
  cases a with
  | node id d lo hi ks =>
    simp only [Ast.id] at hc
    subst hc
    cases ks with
    | nil => simp [Ast.kid, Ast.kids] at hk
    | cons k ks =>
      simp [Ast.kid, Ast.kids] at hk
      subst hk
      simp [globalsOf, headText, hd, dataText]

/-! ## monad laws used below -/

theorem bind_pure_left {α β} (x : α) (f : α → M β) : M.bind (M.pure x) f = f x := rfl
theorem bind_stuck_left {α β} (x : String) (f : α → M β) : M.bind (stuckM x) f = stuckM x := rfl

/-! ## congruence of the combinators in the recursive visitor -/

/-- the two visitors agree on the children of `a` -/
def Agree (v v' : Visitor) (a : Ast) : Prop := ∀ k ∈ a.kids, ∀ p s, v p k s = v' p k s

section congr
variable {Γ Γ' : Ctx} {v v' : Visitor} {a : Ast}

theorem Agree.fn (h : Agree v v' a) {k : Ast} (hk : k ∈ a.kids) (p : Option Tok) : v p k = v' p k :=
  funext fun s => h k hk p s

theorem visitChild_congr (h : Agree v v' a) (i : Nat) : visitChild v a i = visitChild v' a i := by
  unfold visitChild kidM
  cases hk : a.kid i with
  | none => rfl
  | some k => simp only [bind_pure_left]; exact h.fn (kid_mem hk) _

theorem visitAll_congr (p : Tok) : ∀ ks : List Ast, (∀ k ∈ ks, ∀ q, v q k = v' q k) →
    visitAll v p ks = visitAll v' p ks
  | [], _ => rfl
  | k :: ks, h => by
    simp only [visitAll]
    rw [h k (List.mem_cons_self ..) (some p),
      visitAll_congr p ks (fun k' hk' => h k' (List.mem_cons_of_mem _ hk'))]

theorem visitAll_kids_congr (h : Agree v v' a) : visitAll v a.id a.kids = visitAll v' a.id a.kids :=
  visitAll_congr _ _ (fun _ hk q => h.fn hk q)

theorem visitFrom_congr (h : Agree v v' a) (n : Nat) :
    visitFrom v a.id (a.kids.drop n) = visitFrom v' a.id (a.kids.drop n) :=
  visitAll_congr _ _ (fun _ hk q => h.fn (List.mem_of_mem_drop hk) q)

theorem childType_congr (h : Agree v v' a) (i : Nat) : childType v a i = childType v' a i := by
  unfold childType kidM
  cases hk : a.kid i with
  | none => rfl
  | some k => simp only [bind_pure_left, h.fn (kid_mem hk)]

theorem childTypeDebool_congr (h : Agree v v' a) (i eid : Nat) (b : Bool) :
    childTypeDebool v a i eid b = childTypeDebool v' a i eid b := by
  unfold childTypeDebool; rw [childType_congr h]

theorem visitChildDecl_congr (h : Agree v v' a) (i : Nat) (d : Ty) :
    visitChildDecl v a i d = visitChildDecl v' a i d := by
  unfold visitChildDecl; rw [visitChild_congr h]

theorem tupleDeclGo_congr (p : Tok) : ∀ (ks : List Ast) (cs : List Ty),
    (∀ k ∈ ks, ∀ q, v q k = v' q k) → tupleDeclGo v p ks cs = tupleDeclGo v' p ks cs
  | [], _, _ => rfl
  | _ :: _, [], _ => rfl
  | k :: ks, c :: cs, h => by
    simp only [tupleDeclGo]
    rw [h k (List.mem_cons_self ..) (some p)]
    simp only [tupleDeclGo_congr p ks _ (fun k' hk' => h k' (List.mem_cons_of_mem _ hk'))]

theorem checkArgsGo_congr (h : Agree v v' a) (htr : Γ.traits = Γ'.traits) (fn : String) :
    ∀ (n : Nat) (decl : List (String × Ty)) (child : Nat) (subs : Subst),
      checkArgsGo Γ v a fn n decl child subs = checkArgsGo Γ' v' a fn n decl child subs
  | 0, _, _, _ => rfl
  | n+1, decl, child, subs => by
    simp only [checkArgsGo, childType_congr h, htr, checkArgsGo_congr h htr fn n]

theorem checkFuncArguments_congr (h : Agree v v' a) (htr : Γ.traits = Γ'.traits) {fn : String}
    (hf : lookup Γ.funcs fn = lookup Γ'.funcs fn) :
    checkFuncArguments Γ v a fn = checkFuncArguments Γ' v' a fn := by
  unfold checkFuncArguments
  simp only [hf, checkArgsGo_congr h htr]

theorem recursionRounds_congr (te : TraitEnv) (h : Agree v v' a) (idx : Nat) : ∀ (n : Nat) (it : Ty),
    recursionRounds te v a idx n it = recursionRounds te v' a idx n it
  | 0, _ => rfl
  | n+1, it => by
    simp only [recursionRounds, visitChildDecl_congr h, childType_congr h,
      recursionRounds_congr te h idx n]

theorem deboolAll_congr (h : Agree v v' a) (eid : Nat) : ∀ (n i : Nat),
    deboolAll v a eid n i = deboolAll v' a eid n i
  | 0, _ => rfl
  | n+1, i => by
    simp only [deboolAll, childTypeDebool_congr h, deboolAll_congr h eid n]

theorem typesAll_congr (h : Agree v v' a) (site : String) : ∀ (n i : Nat),
    typesAll v a site n i = typesAll v' a site n i
  | 0, _ => rfl
  | n+1, i => by
    simp only [typesAll, childType_congr h, typesAll_congr h site n]

theorem enumGo_congr (h : Agree v v' a) (htr : Γ.traits = Γ'.traits) : ∀ (n child : Nat) (t : Ty),
    enumGo Γ v a n child t = enumGo Γ' v' a n child t
  | 0, _, _ => rfl
  | n+1, child, t => by
    simp only [enumGo, childType_congr h, htr, enumGo_congr h htr n]

theorem filterParamsGo_congr (h : Agree v v' a) (htr : Γ.traits = Γ'.traits) :
    ∀ (n child : Nat) (bases : List Ty),
      filterParamsGo Γ v a n child bases = filterParamsGo Γ' v' a n child bases
  | 0, _, _ => rfl
  | n+1, child, bases => by
    simp only [filterParamsGo, childType_congr h, htr, filterParamsGo_congr h htr n]

theorem visitParamsGo_congr (h : Agree v v' a) : ∀ (n child : Nat),
    visitParamsGo v a n child = visitParamsGo v' a n child
  | 0, _ => rfl
  | n+1, child => by
    simp only [visitParamsGo, childType_congr h, visitParamsGo_congr h n]

/-! ## congruence of the `Vi*` rules -/

theorem viGlobalDeclaration_congr (h : Agree v v' a) :
    viGlobalDeclaration v a = viGlobalDeclaration v' a := by
  unfold viGlobalDeclaration; simp only [childType_congr h]

theorem viFunctionDefinition_congr (h : Agree v v' a) :
    viFunctionDefinition v a = viFunctionDefinition v' a := by
  unfold viFunctionDefinition; simp only [childType_congr h, visitChild_congr h]

theorem viFunctionCall_congr (h : Agree v v' a) (htr : Γ.traits = Γ'.traits)
    (hc : ∀ k0 s, a.kid 0 = some k0 → k0.data = .text s →
      lookup Γ.types s = lookup Γ'.types s ∧ lookup Γ.funcs s = lookup Γ'.funcs s) :
    viFunctionCall Γ v a = viFunctionCall Γ' v' a := by
  unfold viFunctionCall kidM
  cases hk : a.kid 0 with
  | none => rfl
  | some k0 =>
    simp only [bind_pure_left]
    unfold textOf
    cases hd : k0.data with
    | text s =>
      simp only [bind_pure_left]
      obtain ⟨h1, h2⟩ := hc k0 s hk hd
      rw [h1, checkFuncArguments_congr h htr h2]
    | none => rfl
    | int _ => rfl
    | tuple _ => rfl

theorem viGlobal_congr (parent : Option Tok)
    (hc : ∀ s, a.data = .text s →
      lookup Γ.types s = lookup Γ'.types s ∧ lookup Γ.funcs s = lookup Γ'.funcs s) :
    viGlobal Γ parent a = viGlobal Γ' parent a := by
  unfold viGlobal textOf
  cases hd : a.data with
  | text s =>
    simp only [bind_pure_left]
    obtain ⟨h1, h2⟩ := hc s hd
    rw [h1, h2]
  | none => rfl
  | int _ => rfl
  | tuple _ => rfl

theorem viRadical_congr (hty : Γ.isTypification = Γ'.isTypification) :
    viRadical Γ a = viRadical Γ' a := by
  unfold viRadical; simp only [hty]

theorem viTupleDeclaration_congr (h : Agree v v' a) :
    viTupleDeclaration v a = viTupleDeclaration v' a := by
  unfold viTupleDeclaration
  simp only [tupleDeclGo_congr a.id a.kids _ (fun _ hk q => h.fn hk q)]

theorem viAllLogic_congr (h : Agree v v' a) : viAllLogic v a = viAllLogic v' a := by
  unfold viAllLogic; rw [visitAll_kids_congr h]

theorem viArgument_congr (h : Agree v v' a) : viArgument v a = viArgument v' a := by
  unfold viArgument; simp only [childTypeDebool_congr h, visitChild_congr h]

theorem viCard_congr (h : Agree v v' a) : viCard v a = viCard v' a := by
  unfold viCard; simp only [childTypeDebool_congr h]

theorem viArithmetic_congr (h : Agree v v' a) (htr : Γ.traits = Γ'.traits) :
    viArithmetic Γ v a = viArithmetic Γ' v' a := by
  unfold viArithmetic; simp only [childType_congr h, htr]

theorem viIntegerPredicate_congr (h : Agree v v' a) (htr : Γ.traits = Γ'.traits) :
    viIntegerPredicate Γ v a = viIntegerPredicate Γ' v' a := by
  unfold viIntegerPredicate; simp only [childType_congr h, htr]

theorem viQuantifier_congr (h : Agree v v' a) : viQuantifier v a = viQuantifier v' a := by
  unfold viQuantifier
  simp only [childTypeDebool_congr h, visitChildDecl_congr h, visitChild_congr h]

theorem viEquals_congr (h : Agree v v' a) (htr : Γ.traits = Γ'.traits) :
    viEquals Γ v a = viEquals Γ' v' a := by
  unfold viEquals; simp only [childType_congr h, htr]

theorem viSetexprPredicate_congr (h : Agree v v' a) (htr : Γ.traits = Γ'.traits) :
    viSetexprPredicate Γ v a = viSetexprPredicate Γ' v' a := by
  unfold viSetexprPredicate; simp only [childTypeDebool_congr h, childType_congr h, htr]

theorem viDeclarative_congr (h : Agree v v' a) : viDeclarative v a = viDeclarative v' a := by
  unfold viDeclarative
  simp only [childTypeDebool_congr h, visitChildDecl_congr h, visitChild_congr h]

theorem viImperative_congr (h : Agree v v' a) : viImperative v a = viImperative v' a := by
  unfold viImperative; simp only [visitFrom_congr h, childType_congr h]

theorem viIterate_congr (h : Agree v v' a) : viIterate v a = viIterate v' a := by
  unfold viIterate; simp only [childTypeDebool_congr h, visitChildDecl_congr h]

theorem viAssign_congr (h : Agree v v' a) : viAssign v a = viAssign v' a := by
  unfold viAssign; simp only [childType_congr h, visitChildDecl_congr h]

theorem viRecursion_congr (h : Agree v v' a) (htr : Γ.traits = Γ'.traits) :
    viRecursion Γ v a = viRecursion Γ' v' a := by
  unfold viRecursion
  simp only [childType_congr h, visitChildDecl_congr h, visitChild_congr h,
    recursionRounds_congr _ h, htr]

theorem viDecart_congr (h : Agree v v' a) : viDecart v a = viDecart v' a := by
  unfold viDecart; simp only [deboolAll_congr h]

theorem viBoolean_congr (h : Agree v v' a) : viBoolean v a = viBoolean v' a := by
  unfold viBoolean; simp only [childTypeDebool_congr h]

theorem viTuple_congr (h : Agree v v' a) : viTuple v a = viTuple v' a := by
  unfold viTuple; simp only [typesAll_congr h]

theorem viEnumeration_congr (h : Agree v v' a) (htr : Γ.traits = Γ'.traits) :
    viEnumeration Γ v a = viEnumeration Γ' v' a := by
  unfold viEnumeration; simp only [childType_congr h, enumGo_congr h htr]

theorem viDebool_congr (h : Agree v v' a) : viDebool v a = viDebool v' a := by
  unfold viDebool; simp only [childTypeDebool_congr h]

theorem viSetexprBinary_congr (h : Agree v v' a) (htr : Γ.traits = Γ'.traits) :
    viSetexprBinary Γ v a = viSetexprBinary Γ' v' a := by
  unfold viSetexprBinary; simp only [childTypeDebool_congr h, htr]

theorem viProjectSet_congr (h : Agree v v' a) : viProjectSet v a = viProjectSet v' a := by
  unfold viProjectSet; simp only [childTypeDebool_congr h]

theorem viProjectTuple_congr (h : Agree v v' a) : viProjectTuple v a = viProjectTuple v' a := by
  unfold viProjectTuple; simp only [childType_congr h]

theorem viFilter_congr (h : Agree v v' a) (htr : Γ.traits = Γ'.traits) :
    viFilter Γ v a = viFilter Γ' v' a := by
  unfold viFilter
  simp only [childType_congr h, visitParamsGo_congr h, filterParamsGo_congr h htr, htr]

theorem viReduce_congr (h : Agree v v' a) : viReduce v a = viReduce v' a := by
  unfold viReduce; simp only [childType_congr h]

/-- `DispatchVisit` depends on the context only at the globals of the node -/
theorem dispatch_congr (h : Agree v v' a) (htr : Γ.traits = Γ'.traits)
    (hty : Γ.isTypification = Γ'.isTypification)
    (hg : IsGlobalId a.id → ∀ s, a.data = .text s →
      lookup Γ.types s = lookup Γ'.types s ∧ lookup Γ.funcs s = lookup Γ'.funcs s)
    (hc : a.id = .NT_FUNC_CALL → ∀ k0 s, a.kid 0 = some k0 → k0.data = .text s →
      lookup Γ.types s = lookup Γ'.types s ∧ lookup Γ.funcs s = lookup Γ'.funcs s)
    (parent : Option Tok) :
    dispatch Γ v parent a = dispatch Γ' v' parent a := by
  unfold dispatch
  split
  all_goals first
    | exact viGlobal_congr parent (hg (by simp [IsGlobalId, *]))
    | exact viFunctionCall_congr h htr (hc (by assumption))
    | rfl
    | exact viRadical_congr hty
    | exact viFunctionDefinition_congr h
    | exact viTupleDeclaration_congr h
    | exact viAllLogic_congr h | exact viArgument_congr h | exact viArithmetic_congr h htr
    | exact viCard_congr h | exact viQuantifier_congr h | exact viEquals_congr h htr
    | exact viIntegerPredicate_congr h htr | exact viSetexprPredicate_congr h htr
    | exact viIterate_congr h | exact viAssign_congr h | exact viDeclarative_congr h
    | exact viImperative_congr h | exact viDecart_congr h | exact viBoolean_congr h
    | exact viRecursion_congr h htr | exact viTuple_congr h | exact viEnumeration_congr h htr
    | exact viDebool_congr h | exact viSetexprBinary_congr h htr | exact viProjectSet_congr h
    | exact viProjectTuple_congr h | exact viFilter_congr h htr | exact viReduce_congr h
    | exact viGlobalDeclaration_congr h

end congr

/-! ## the frame theorem -/

/-- the two contexts answer the same at the global names of the tree -/
structure AgreeOn (Γ Γ' : Ctx) (a : Ast) : Prop where
  types : ∀ n ∈ globalsOf a, lookup Γ.types n = lookup Γ'.types n
  funcs : ∀ n ∈ globalsOf a, lookup Γ.funcs n = lookup Γ'.funcs n

theorem AgreeOn.kid {Γ Γ' : Ctx} {a k : Ast} (h : AgreeOn Γ Γ' a) (hk : k ∈ a.kids) : AgreeOn Γ Γ' k :=
  ⟨fun n hn => h.types n (globalsOf_kid hk hn), fun n hn => h.funcs n (globalsOf_kid hk hn)⟩

/-- frame property of the visitor, for every fuel, parent token and start state -/
theorem visit_frame {Γ Γ' : Ctx} (htr : Γ.traits = Γ'.traits)
    (hty : Γ.isTypification = Γ'.isTypification) :
    ∀ (fuel : Nat) (parent : Option Tok) (a : Ast) (s : St),
      (∀ n ∈ globalsOf a, lookup Γ.types n = lookup Γ'.types n) →
      (∀ n ∈ globalsOf a, lookup Γ.funcs n = lookup Γ'.funcs n) →
      visit Γ fuel parent a s = visit Γ' fuel parent a s
  | 0, _, _, _, _, _ => rfl
  | fuel+1, parent, a, s, ht, hf => by
    have hA : AgreeOn Γ Γ' a := ⟨ht, hf⟩
    have hv : Agree (visit Γ fuel) (visit Γ' fuel) a := fun k hk p s' =>
      visit_frame htr hty fuel p k s' (hA.kid hk).types (hA.kid hk).funcs
    show dispatch Γ (visit Γ fuel) parent a s = dispatch Γ' (visit Γ' fuel) parent a s
    rw [dispatch_congr hv htr hty
      (fun hg s hd => ⟨ht s (globalsOf_self hg hd), hf s (globalsOf_self hg hd)⟩)
      (fun hc k0 s hk hd => ⟨ht s (globalsOf_call hc hk hd), hf s (globalsOf_call hc hk hd)⟩)]

theorem checkWithFuel_frame {Γ Γ' : Ctx} {e : Ast} (fuel : Nat)
    (ht : ∀ n ∈ globalsOf e, lookup Γ.types n = lookup Γ'.types n)
    (hf : ∀ n ∈ globalsOf e, lookup Γ.funcs n = lookup Γ'.funcs n)
    (htr : Γ.traits = Γ'.traits) (hty : Γ.isTypification = Γ'.isTypification) :
    checkWithFuel Γ fuel e = checkWithFuel Γ' fuel e := by
  unfold checkWithFuel
  rw [visit_frame htr hty fuel none e {} ht hf]

/-- FRAME: `check` reads the context only at the globals of the tree, the traits and the
typification flag -/
theorem check_frame {Γ Γ' : Ctx} {e : Ast}
    (ht : ∀ n ∈ globalsOf e, lookup Γ.types n = lookup Γ'.types n)
    (hf : ∀ n ∈ globalsOf e, lookup Γ.funcs n = lookup Γ'.funcs n)
    (htr : Γ.traits = Γ'.traits) (hty : Γ.isTypification = Γ'.isTypification) :
    check Γ e = check Γ' e :=
  checkWithFuel_frame _ ht hf htr hty

/-- the hypotheses of `check_frame` are satisfiable by two different contexts: `X1\X1` read in a
context that also declares `X2`, `S1` and the function `F1` -/
example :
    let e : Ast := .node .SET_MINUS .none 0 5
      [.node .ID_GLOBAL (.text "X1") 0 2 [], .node .ID_GLOBAL (.text "X1") 3 5 []]
    let Γ : Ctx := { types := [("X1", .ty (.coll (.base "X1")))] }
    let Γ' : Ctx := { types := [("X2", .ty (.coll (.base "X2"))), ("X1", .ty (.coll (.base "X1"))),
                               ("S1", .logic), ("F1", .ty Ty.Z)],
                      funcs := [("F1", [("a", Ty.Z)])],
                      vclass := [("X2", .value)] }
    Γ.types ≠ Γ'.types ∧ Γ.funcs ≠ Γ'.funcs ∧
    (∀ n ∈ globalsOf e, lookup Γ.types n = lookup Γ'.types n) ∧
    (∀ n ∈ globalsOf e, lookup Γ.funcs n = lookup Γ'.funcs n) ∧
    Γ.traits = Γ'.traits ∧ Γ.isTypification = Γ'.isTypification ∧
    (check Γ e).out = .ok (.ty (.coll (.base "X1"))) := by
  decide +kernel

/-! ## restriction of the context to the globals of the tree -/

theorem lookup_filter {α : Type} (names : List String) {n : String} (hn : n ∈ names) :
    ∀ l : List (String × α), lookup (l.filter (fun p => names.contains p.1)) n = lookup l n
  | [] => rfl
  | (k, x) :: rest => by
    simp only [List.filter]
    by_cases hk : names.contains k = true
    · simp only [hk, lookup, lookup_filter names hn rest]
    · have hkn : (k == n) = false := by
        cases hb : (k == n) with
        | false => rfl
        | true =>
          have : k = n := by simpa using hb
          subst this
          exact absurd (List.contains_iff_mem.2 hn) hk
      simp only [hk, lookup, hkn, lookup_filter names hn rest]
      simp

/-- the context cut down to the declarations of the listed names -/
def _root_.CCVerif.Types.Ctx.restrict (Γ : Ctx) (names : List String) : Ctx :=
  { Γ with types := Γ.types.filter (fun p => names.contains p.1),
           funcs := Γ.funcs.filter (fun p => names.contains p.1) }

theorem checkWithFuel_restrict (Γ : Ctx) (e : Ast) (fuel : Nat) :
    checkWithFuel (Γ.restrict (globalsOf e)) fuel e = checkWithFuel Γ fuel e :=
  checkWithFuel_frame fuel (fun _ hn => lookup_filter _ hn _) (fun _ hn => lookup_filter _ hn _) rfl rfl

/-- RESTRICTION: the declarations of names that do not occur in the tree can be dropped -/
theorem check_restrict (Γ : Ctx) (e : Ast) : check (Γ.restrict (globalsOf e)) e = check Γ e :=
  checkWithFuel_restrict Γ e _

/-- any list of names that covers the globals of the tree will do -/
theorem check_restrict_of_subset (Γ : Ctx) (e : Ast) {names : List String}
    (h : ∀ n ∈ globalsOf e, n ∈ names) : check (Γ.restrict names) e = check Γ e :=
  check_frame (fun n hn => lookup_filter _ (h n hn) _) (fun n hn => lookup_filter _ (h n hn) _) rfl rfl

example :
    let Γ : Ctx := { types := [("X2", .ty (.coll (.base "X2"))), ("X1", .ty (.coll (.base "X1")))] }
    let e : Ast := .node .ID_GLOBAL (.text "X1") 0 2 []
    (Γ.restrict (globalsOf e)).types = [("X1", .ty (.coll (.base "X1")))] := by
  decide +kernel

/-! ## strictness -/

/-- a successful visit of a global node has resolved its name to a type and to no function -/
theorem viGlobal_ok_resolves {Γ : Ctx} {parent : Option Tok} {a : Ast} {s s' : St}
    (h : viGlobal Γ parent a s = (.ok (), s')) :
    ∃ n t, a.data = .text n ∧ lookup Γ.types n = some t ∧ lookup Γ.funcs n = none ∧ s'.cur = t := by
  unfold viGlobal textOf at h
  cases hd : a.data with
  | text n =>
    simp only [hd, bind_pure_left] at h
    cases hf : lookup Γ.funcs n with
    | some d => simp [hf, errFail] at h
    | none =>
      cases ht : lookup Γ.types n with
      | none => simp [hf, ht, errFail] at h
      | some t =>
        refine ⟨n, t, rfl, ht, hf, ?_⟩
        simp only [hf, ht, Option.isSome_none, Bool.false_eq_true, if_false] at h
        split at h
        · simp [errFail] at h
        · simp only [setCur, Prod.mk.injEq] at h
          rw [← h.2]
  | none => simp [hd, stuckM, M.bind] at h
  | int _ => simp [hd, stuckM, M.bind] at h
  | tuple _ => simp [hd, stuckM, M.bind] at h

/-- strictness over ALL global occurrences of the tree: FALSE, see `check_strict_counterexample` -/
def check_strict_statement : Prop :=
  ∀ (Γ : Ctx) (e : Ast) (t : ExprTy), (check Γ e).out = .ok t →
    ∀ n ∈ globalsOf e, (lookup Γ.types n).isSome

/-- the declaration of a base set `X1:==` in the empty context is accepted with the type ℬ(X1):
`ViGlobalDeclaration` reads the text of child 0 and never visits it (the same holds for child 0 of
every other declaration `D1:==…` / `S1::=…`, where only child 1 is visited) -/
theorem check_strict_counterexample :
    let e : Ast := .node .PUNC_DEFINE .none 0 5 [.node .ID_GLOBAL (.text "X1") 0 2 []]
    (check {} e).out = .ok (.ty (.coll (.base "X1"))) ∧ "X1" ∈ globalsOf e ∧
      (lookup ({} : Ctx).types "X1").isSome = false := by
  decide +kernel

theorem check_strict_statement_false : ¬ check_strict_statement := fun h => by
  have h1 := check_strict_counterexample
  have := h {} _ _ h1.1 "X1" h1.2.1
  simp [lookup] at this

/-! ## the value auditor

`vVisit` reads `Γ.vclass` (through `vclassOf`) at the globals of the tree and `Γ.asts` at the names of
the called functions — and then audits the BODY stored in `Γ.asts` with a fresh auditor, so the
globals of the stored trees are read as well (`vcheck_frame_needs_bodies_counterexample`). -/

theorem vbind_pure_left {α β} (x : α) (f : α → VM β) : VM.bind (VM.pure x) f = f x := rfl

/-- the two visitors agree on the children of `a` -/
def VAgree (v v' : VVisitor) (a : Ast) : Prop := ∀ k ∈ a.kids, v k = v' k

section vcongr
variable {Γ Γ' : Ctx} {v v' : VVisitor} {a : Ast}

theorem vVisitChild_congr (h : VAgree v v' a) (i : Nat) : vVisitChild v a i = vVisitChild v' a i := by
  unfold vVisitChild vKid
  cases hk : a.kid i with
  | none => rfl
  | some k => simp only [vbind_pure_left]; exact h k (kid_mem hk)

theorem vVisitAll_congr : ∀ ks : List Ast, (∀ k ∈ ks, v k = v' k) → vVisitAll v ks = vVisitAll v' ks
  | [], _ => rfl
  | k :: ks, h => by
    simp only [vVisitAll]
    rw [h k (List.mem_cons_self ..), vVisitAll_congr ks (fun k' hk' => h k' (List.mem_cons_of_mem _ hk'))]

theorem vVisitAll_kids_congr (h : VAgree v v' a) : vVisitAll v a.kids = vVisitAll v' a.kids :=
  vVisitAll_congr _ h

theorem vVisitAll_drop_congr (h : VAgree v v' a) (n : Nat) :
    vVisitAll v (a.kids.drop n) = vVisitAll v' (a.kids.drop n) :=
  vVisitAll_congr _ (fun k hk => h k (List.mem_of_mem_drop hk))

theorem vAssertValue_congr (h : VAgree v v' a) (report : Bool) (i : Nat) :
    vAssertValue report v a i = vAssertValue report v' a i := by
  unfold vAssertValue vKid
  cases hk : a.kid i with
  | none => rfl
  | some k => simp only [vbind_pure_left, h k (kid_mem hk)]

theorem vAssertAll_congr (h : VAgree v v' a) (report : Bool) : ∀ n i : Nat,
    vAssertAll report v a n i = vAssertAll report v' a n i
  | 0, _ => rfl
  | n+1, i => by simp only [vAssertAll, vAssertValue_congr h, vAssertAll_congr h report n]

theorem vAllSet_congr (h : VAgree v v' a) (c : VClass) : vAllSet v a c = vAllSet v' a c := by
  unfold vAllSet; rw [vVisitAll_kids_congr h]

theorem vArgs_congr : ∀ ks : List Ast, (∀ k ∈ ks, v k = v' k) → vArgs v ks = vArgs v' ks
  | [], _ => rfl
  | k :: ks, h => by
    simp only [vArgs]
    rw [h k (List.mem_cons_self ..), vArgs_congr ks (fun k' hk' => h k' (List.mem_cons_of_mem _ hk'))]

theorem vDecartGo_congr : ∀ (ks : List Ast) (t : VClass), (∀ k ∈ ks, v k = v' k) →
    vDecartGo v ks t = vDecartGo v' ks t
  | [], _, _ => rfl
  | k :: ks, t, h => by
    simp only [vDecartGo]
    rw [h k (List.mem_cons_self ..)]
    simp only [vDecartGo_congr ks _ (fun k' hk' => h k' (List.mem_cons_of_mem _ hk'))]

/-- the function-call arm of `vDispatch` -/
theorem vDispatch_call_congr {report : Bool} {sub sub' : List String → Ast → Res VClass}
    (h : VAgree v v' a)
    (hc : ∀ k0 s, a.kid 0 = some k0 → k0.data = .text s →
      vclassOf Γ s = vclassOf Γ' s ∧ lookup Γ.asts s = lookup Γ'.asts s ∧
      ∀ tree fd body ps, lookup Γ.asts s = some tree → tree.kid 1 = some fd → fd.kid 1 = some body →
        sub ps body = sub' ps body) :
    (VM.bind (vKid a 0) fun k0 => VM.bind (vText k0) fun alias =>
      let ft := vclassOf Γ alias
      if ft == .invalid then VM.bind (vErr report EID.globalNoValue a.lo) fun _ => vFail
      else
        VM.bind (vArgs v (a.kids.drop 1)) fun cs =>
        if cs.all (· == .value) then vSet ft
        else match lookup Γ.asts alias with
          | none => VM.bind (vErr report EID.globalMissingAST a.lo) fun _ => vFail
          | some tree =>
            match tree.kid 1 with
            | none => vStuck "Root.Child(1)"
            | some fd =>
              match fd.kid 0, fd.kid 1 with
              | some decl, some body =>
                if decl.kids.length != cs.length then vStuck "assert:args" else
                match propsOf decl.kids cs with
                | none => vStuck "args.Child"
                | some ps =>
                  match sub ps body with
                  | .fail => VM.bind (vErr report EID.globalFuncNoInterpretation a.lo) fun _ => vFail
                  | .stuck x => vStuck x
                  | .ok c => vSet c
              | _, _ => vStuck "Child(1).Child") =
    (VM.bind (vKid a 0) fun k0 => VM.bind (vText k0) fun alias =>
      let ft := vclassOf Γ' alias
      if ft == .invalid then VM.bind (vErr report EID.globalNoValue a.lo) fun _ => vFail
      else
        VM.bind (vArgs v' (a.kids.drop 1)) fun cs =>
        if cs.all (· == .value) then vSet ft
        else match lookup Γ'.asts alias with
          | none => VM.bind (vErr report EID.globalMissingAST a.lo) fun _ => vFail
          | some tree =>
            match tree.kid 1 with
            | none => vStuck "Root.Child(1)"
            | some fd =>
              match fd.kid 0, fd.kid 1 with
              | some decl, some body =>
                if decl.kids.length != cs.length then vStuck "assert:args" else
                match propsOf decl.kids cs with
                | none => vStuck "args.Child"
                | some ps =>
                  match sub' ps body with
                  | .fail => VM.bind (vErr report EID.globalFuncNoInterpretation a.lo) fun _ => vFail
                  | .stuck x => vStuck x
                  | .ok c => vSet c
              | _, _ => vStuck "Child(1).Child") := by
  unfold vKid
  cases hk : a.kid 0 with
  | none => rfl
  | some k0 =>
    simp only [vbind_pure_left]
    unfold vText
    cases hd : k0.data with
    | text s =>
      simp only [vbind_pure_left]
      obtain ⟨h1, h2, h3⟩ := hc k0 s hk hd
      rw [← h1, ← h2, vArgs_congr (a.kids.drop 1) (fun k hk' => h k (List.mem_of_mem_drop hk'))]
      cases hl : lookup Γ.asts s with
      | none => rfl
      | some tree =>
        dsimp only
        cases h1k : tree.kid 1 with
        | none => rfl
        | some fd =>
          dsimp only
          cases h0 : fd.kid 0 with
          | none => rfl
          | some decl =>
            cases hb : fd.kid 1 with
            | none => rfl
            | some body => simp only [h3 tree fd body _ hl h1k hb]
    | none => rfl
    | int _ => rfl
    | tuple _ => rfl

theorem vDispatch_congr {report : Bool} {props : List String}
    {sub sub' : List String → Ast → Res VClass} (h : VAgree v v' a)
    (hg : IsGlobalId a.id → ∀ s, a.data = .text s → vclassOf Γ s = vclassOf Γ' s)
    (hc : a.id = .NT_FUNC_CALL → ∀ k0 s, a.kid 0 = some k0 → k0.data = .text s →
      vclassOf Γ s = vclassOf Γ' s ∧ lookup Γ.asts s = lookup Γ'.asts s ∧
      ∀ tree fd body ps, lookup Γ.asts s = some tree → tree.kid 1 = some fd → fd.kid 1 = some body →
        sub ps body = sub' ps body) :
    vDispatch Γ report props sub v a = vDispatch Γ' report props sub' v' a := by
  unfold vDispatch
  split
  all_goals first
    | rfl
    | exact vDispatch_call_congr h (hc (by assumption))
    | (unfold vText
       cases hd : a.data with
       | text s => simp only [vbind_pure_left, hg (by simp [IsGlobalId, *]) s hd]
       | none => rfl
       | int _ => rfl
       | tuple _ => rfl)
    | simp only [vVisitChild_congr h, vVisitAll_kids_congr h, vVisitAll_drop_congr h,
        vAssertValue_congr h, vAssertAll_congr h, vAllSet_congr h,
        vDecartGo_congr a.kids _ h]

end vcongr

/-- frame property of the value auditor: the contexts agree on the value classes and stored trees
at the globals of the tree, and (`hB`) at the globals of every stored tree -/
theorem vVisit_frame {Γ Γ' : Ctx}
    (hB : ∀ name tree, lookup Γ.asts name = some tree → ∀ n ∈ globalsOf tree,
      vclassOf Γ n = vclassOf Γ' n ∧ lookup Γ.asts n = lookup Γ'.asts n) :
    ∀ (fuel : Nat) (report : Bool) (props : List String) (a : Ast),
      (∀ n ∈ globalsOf a, vclassOf Γ n = vclassOf Γ' n ∧ lookup Γ.asts n = lookup Γ'.asts n) →
      vVisit Γ fuel report props a = vVisit Γ' fuel report props a
  | 0, _, _, _, _ => rfl
  | fuel+1, report, props, a, h => by
    unfold vVisit
    refine vDispatch_congr
      (fun k hk => vVisit_frame hB fuel report props k (fun n hn => h n (globalsOf_kid hk hn)))
      (fun hg s hd => (h s (globalsOf_self hg hd)).1)
      (fun hc k0 s hk hd => ⟨(h s (globalsOf_call hc hk hd)).1, (h s (globalsOf_call hc hk hd)).2,
        fun tree fd body ps hl h1 h2 => ?_⟩)
    rw [vVisit_frame hB fuel false ps body (fun n hn =>
      hB s tree hl n (globalsOf_kid (kid_mem h1) (globalsOf_kid (kid_mem h2) hn)))]

theorem vcheck_frame {Γ Γ' : Ctx} {e : Ast} (fuel : Nat)
    (hv : ∀ n ∈ globalsOf e, vclassOf Γ n = vclassOf Γ' n)
    (ha : ∀ n ∈ globalsOf e, lookup Γ.asts n = lookup Γ'.asts n)
    (hB : ∀ name tree, lookup Γ.asts name = some tree → ∀ n ∈ globalsOf tree,
      vclassOf Γ n = vclassOf Γ' n ∧ lookup Γ.asts n = lookup Γ'.asts n) :
    vcheck Γ fuel e = vcheck Γ' fuel e := by
  unfold vcheck
  rw [vVisit_frame hB fuel true [] e (fun n hn => ⟨hv n hn, ha n hn⟩)]

/-- without the hypothesis on the stored bodies the frame fails: `F1[X1]` with `X1` a property-class
argument audits the body `S5` of `F1` stored in `Γ.asts`; the contexts agree on `F1`, `X1` and differ
on `S5` -/
theorem vcheck_frame_needs_bodies_counterexample :
    let e : Ast := .node .NT_FUNC_CALL .none 0 6
      [.node .ID_FUNCTION (.text "F1") 0 2 [], .node .ID_GLOBAL (.text "X1") 3 5 []]
    let tree : Ast := .node .PUNC_DEFINE .none 0 12 [.node .ID_FUNCTION (.text "F1") 0 2 [],
      .node .NT_FUNC_DEFINITION .none 5 12 [
        .node .NT_ARGUMENTS .none 6 9 [.node .NT_ARG_DECL .none 6 9
          [.node .ID_LOCAL (.text "a") 6 7 [], .node .ID_GLOBAL (.text "X1") 8 10 []]],
        .node .ID_GLOBAL (.text "S5") 10 12 []]]
    let Γ : Ctx := { vclass := [("F1", .value), ("X1", .props), ("S5", .value)], asts := [("F1", tree)] }
    let Γ' : Ctx := { vclass := [("F1", .value), ("X1", .props)], asts := [("F1", tree)] }
    (∀ n ∈ globalsOf e, vclassOf Γ n = vclassOf Γ' n) ∧
    (∀ n ∈ globalsOf e, lookup Γ.asts n = lookup Γ'.asts n) ∧
    (vcheck Γ 5 e).out = some .value ∧ (vcheck Γ' 5 e).out = none := by
  intro e tree Γ Γ'
  exact ⟨by decide +kernel, fun _ _ => rfl, by decide +kernel, by decide +kernel⟩

/-! ## strictness at the visited positions

`Post m Q`: whenever `m` returns `ok`, `Q` holds. For every rule the children at the indices
`visitedIdx` have been visited successfully when the rule succeeds. -/

/-- some successful visit of `k` by `v` took place -/
def VisitedOk (v : Visitor) (k : Ast) : Prop := ∃ p s1 s2, v p k s1 = (Res.ok (), s2)

def Post {α : Type} (m : M α) (Q : Prop) : Prop := ∀ s r s', m s = (Res.ok r, s') → Q

/-- child `i`, if present, has been visited successfully -/
def Vis (v : Visitor) (a : Ast) (i : Nat) : Prop := ∀ k, a.kid i = some k → VisitedOk v k

theorem Vis.of_ge {v : Visitor} {a : Ast} {i : Nat} (h : a.kids.length ≤ i) : Vis v a i := by
  intro k hk
  unfold Ast.kid at hk
  rw [List.getElem?_eq_none h] at hk
  cases hk

section post
variable {α β : Type} {Q Q' : Prop}

theorem Post.bind_left {m : M α} {f : α → M β} (h : Post m Q) : Post (M.bind m f) Q := by
  intro s r s' hs
  unfold M.bind at hs
  cases hm : m s with
  | mk r1 s1 =>
    cases r1 with
    | ok x => exact h s x s1 hm
    | fail => simp [hm] at hs
    | stuck x => simp [hm] at hs

theorem Post.bind_right {m : M α} {f : α → M β} (h : ∀ x, Post (f x) Q) : Post (M.bind m f) Q := by
  intro s r s' hs
  unfold M.bind at hs
  cases hm : m s with
  | mk r1 s1 =>
    cases r1 with
    | ok x => simp only [hm] at hs; exact h x s1 r s' hs
    | fail => simp [hm] at hs
    | stuck x => simp [hm] at hs

theorem Post.mono {m : M α} (h : Post m Q) (hq : Q → Q') : Post m Q' :=
  fun s r s' hs => hq (h s r s' hs)
theorem Post.of_true {m : M α} (hq : Q) : Post m Q := fun _ _ _ _ => hq
theorem Post.forall {ι : Sort _} {P : ι → Prop} {m : M α} (h : ∀ j, Post m (P j)) : Post m (∀ j, P j) :=
  fun s r s' hs j => h j s r s' hs
theorem Post.intro {P : Prop} {m : M α} (h : P → Post m Q) : Post m (P → Q) :=
  fun s r s' hs hp => h hp s r s' hs

theorem Post.errFail (eid : Nat) (pos : Int) : Post (errFail eid pos : M α) Q := by
  intro s r s' hs; simp [Checker.errFail] at hs
theorem Post.stuck (x : String) : Post (stuckM x : M α) Q := by
  intro s r s' hs; simp [stuckM] at hs
theorem Post.failSilent : Post (failSilent : M α) Q := by
  intro s r s' hs; simp [Checker.failSilent] at hs
theorem Post.errFailTok (a : Ast) (eid : Nat) (pos : Int) : Post (errFailTok a eid pos : M α) Q := by
  unfold Checker.errFailTok
  split
  · exact Post.stuck _
  · exact Post.errFail _ _

end post

section postv
variable {Γ : Ctx} {v : Visitor} {a : Ast}

theorem post_visitChild (v : Visitor) (a : Ast) (i : Nat) : Post (visitChild v a i) (Vis v a i) := by
  intro s r s' hs k hk
  unfold visitChild kidM at hs
  rw [hk] at hs
  exact ⟨some a.id, s, s', hs⟩

theorem post_childType (v : Visitor) (a : Ast) (i : Nat) : Post (childType v a i) (Vis v a i) := by
  intro s r s' hs k hk
  unfold childType kidM at hs
  rw [hk] at hs
  simp only [bind_pure_left] at hs
  cases hv : v (some a.id) k s with
  | mk r1 s1 =>
    cases r1 with
    | ok u => exact ⟨some a.id, s, s1, hv⟩
    | fail => simp [hv] at hs
    | stuck x => simp [hv] at hs

theorem post_childTypeDebool (v : Visitor) (a : Ast) (i eid : Nat) (b : Bool) :
    Post (childTypeDebool v a i eid b) (Vis v a i) := by
  unfold childTypeDebool; exact Post.bind_left (post_childType v a i)

theorem post_visitChildDecl (v : Visitor) (a : Ast) (i : Nat) (d : Ty) :
    Post (visitChildDecl v a i d) (Vis v a i) := by
  unfold visitChildDecl
  exact Post.bind_right fun _ => Post.bind_right fun _ => Post.bind_left (post_visitChild v a i)

/-- walk through a rule to the visit of the child in the goal -/
macro "post_auto" : tactic => `(tactic| repeat (first
  | exact post_childType _ _ _
  | exact post_visitChild _ _ _
  | exact post_childTypeDebool _ _ _ _ _
  | exact post_visitChildDecl _ _ _ _
  | exact Post.errFail _ _ | exact Post.stuck _ | exact Post.failSilent | exact Post.errFailTok _ _ _
  | exact Post.bind_left (post_childType _ _ _)
  | exact Post.bind_left (post_visitChild _ _ _)
  | exact Post.bind_left (post_childTypeDebool _ _ _ _ _)
  | exact Post.bind_left (post_visitChildDecl _ _ _ _)
  | (refine Post.bind_right fun _ => ?_)
  | split
  | (dsimp only; split)))

theorem post_visitAll (p : Tok) : ∀ ks : List Ast, Post (visitAll v p ks) (∀ k ∈ ks, VisitedOk v k)
  | [] => Post.of_true (fun _ hk => by cases hk)
  | k :: ks => by
    unfold visitAll
    refine Post.forall fun k' => Post.intro fun hk' => ?_
    rcases List.mem_cons.1 hk' with rfl | hk'
    · refine Post.bind_left ?_
      intro s r s' hs
      exact ⟨some p, s, s', hs⟩
    · exact Post.bind_right fun _ => (post_visitAll p ks).mono fun h => h k' hk'

theorem Vis.of_all (h : ∀ k ∈ a.kids, VisitedOk v k) (i : Nat) : Vis v a i :=
  fun k hk => h k (kid_mem hk)

theorem post_tupleDeclGo (p : Tok) : ∀ (ks : List Ast) (cs : List Ty),
    Post (tupleDeclGo v p ks cs) (∀ k ∈ ks, VisitedOk v k)
  | [], _ => Post.of_true (fun _ hk => by cases hk)
  | _ :: _, [] => Post.stuck _
  | k :: ks, c :: cs => by
    unfold tupleDeclGo
    refine Post.forall fun k' => Post.intro fun hk' => ?_
    rcases List.mem_cons.1 hk' with rfl | hk'
    · refine Post.bind_right fun _ => Post.bind_left ?_
      intro s r s' hs
      exact ⟨some p, s, s', hs⟩
    · exact Post.bind_right fun _ => Post.bind_right fun _ =>
        (post_tupleDeclGo p ks cs).mono fun h => h k' hk'

/-- the range of child indices `[i0, i0 + n)` -/
def VisRange (v : Visitor) (a : Ast) (i0 n : Nat) : Prop := ∀ j, i0 ≤ j → j < i0 + n → Vis v a j

theorem VisRange.zero (i0 : Nat) : VisRange v a i0 0 := fun j h1 h2 => by omega

theorem VisRange.next {i0 n : Nat} (h : VisRange v a (i0 + 1) n) {j : Nat} (h1 : i0 < j)
    (h2 : j < i0 + (n + 1)) : Vis v a j := h j (by omega) (by omega)

theorem post_checkArgsGo (fn : String) : ∀ (n : Nat) (decl : List (String × Ty)) (child : Nat) (subs : Subst),
    Post (checkArgsGo Γ v a fn n decl child subs) (VisRange v a child n)
  | 0, _, _, _ => Post.of_true (VisRange.zero _)
  | n+1, decl, child, subs => by
    refine Post.forall fun j => Post.intro fun h1 => Post.intro fun h2 => ?_
    unfold checkArgsGo
    by_cases hj : j = child
    · subst hj; exact Post.bind_left (post_childType _ _ _)
    · refine Post.bind_right fun _ => ?_
      split
      · exact Post.failSilent
      · split
        · exact Post.stuck _
        · dsimp only
          split
          · post_auto
          · exact (post_checkArgsGo fn n _ _ _).mono fun h => h.next (by omega) h2

theorem post_deboolAll (eid : Nat) : ∀ (n i0 : Nat), Post (deboolAll v a eid n i0) (VisRange v a i0 n)
  | 0, _ => Post.of_true (VisRange.zero _)
  | n+1, i0 => by
    refine Post.forall fun j => Post.intro fun h1 => Post.intro fun h2 => ?_
    unfold deboolAll
    by_cases hj : j = i0
    · subst hj; exact Post.bind_left (post_childTypeDebool _ _ _ _ _)
    · exact Post.bind_right fun _ => Post.bind_left
        ((post_deboolAll eid n (i0 + 1)).mono fun h => h.next (by omega) h2)

theorem post_typesAll (site : String) : ∀ (n i0 : Nat), Post (typesAll v a site n i0) (VisRange v a i0 n)
  | 0, _ => Post.of_true (VisRange.zero _)
  | n+1, i0 => by
    refine Post.forall fun j => Post.intro fun h1 => Post.intro fun h2 => ?_
    unfold typesAll
    by_cases hj : j = i0
    · subst hj; exact Post.bind_left (post_childType _ _ _)
    · exact Post.bind_right fun _ => Post.bind_right fun _ => Post.bind_left
        ((post_typesAll site n (i0 + 1)).mono fun h => h.next (by omega) h2)

theorem post_enumGo : ∀ (n i0 : Nat) (t : Ty), Post (enumGo Γ v a n i0 t) (VisRange v a i0 n)
  | 0, _, _ => Post.of_true (VisRange.zero _)
  | n+1, i0, t => by
    refine Post.forall fun j => Post.intro fun h1 => Post.intro fun h2 => ?_
    unfold enumGo
    by_cases hj : j = i0
    · subst hj; exact Post.bind_left (post_childType _ _ _)
    · refine Post.bind_right fun _ => Post.bind_right fun _ => ?_
      split
      · post_auto
      · exact (post_enumGo n (i0 + 1) _).mono fun h => h.next (by omega) h2

theorem post_filterParamsGo : ∀ (n i0 : Nat) (bases : List Ty),
    Post (filterParamsGo Γ v a n i0 bases) (VisRange v a i0 n)
  | 0, _, _ => Post.of_true (VisRange.zero _)
  | n+1, i0, bases => by
    refine Post.forall fun j => Post.intro fun h1 => Post.intro fun h2 => ?_
    unfold filterParamsGo
    by_cases hj : j = i0
    · subst hj; exact Post.bind_left (post_childType _ _ _)
    · refine Post.bind_right fun _ => Post.bind_right fun _ => ?_
      split
      · exact Post.stuck _
      · split
        · split
          · exact (post_filterParamsGo n (i0 + 1) _).mono fun h => h.next (by omega) h2
          · post_auto
        · post_auto

theorem post_visitParamsGo : ∀ (n i0 : Nat), Post (visitParamsGo v a n i0) (VisRange v a i0 n)
  | 0, _ => Post.of_true (VisRange.zero _)
  | n+1, i0 => by
    refine Post.forall fun j => Post.intro fun h1 => Post.intro fun h2 => ?_
    unfold visitParamsGo
    by_cases hj : j = i0
    · subst hj; exact Post.bind_left (post_childType _ _ _)
    · exact Post.bind_right fun _ =>
        (post_visitParamsGo n (i0 + 1)).mono fun h => h.next (by omega) h2

end postv

theorem kid_mem_drop {a k : Ast} {i n : Nat} (hk : a.kid i = some k) (hn : n ≤ i) : k ∈ a.kids.drop n := by
  unfold Ast.kid at hk
  have : (a.kids.drop n)[i - n]? = some k := by
    rw [List.getElem?_drop]
    have : n + (i - n) = i := by omega
    rw [this]; exact hk
  exact List.mem_of_getElem? this

section postvi
variable {Γ : Ctx} {v : Visitor} {a : Ast} {i : Nat}

theorem VisRange.all (h : VisRange v a 0 a.kids.length) (i : Nat) : Vis v a i := by
  by_cases hi : i < a.kids.length
  · exact h i (by omega) (by omega)
  · exact Vis.of_ge (by omega)

theorem VisRange.from_one (h : VisRange v a 1 (a.kids.length - 1)) (hi : 1 ≤ i) : Vis v a i := by
  by_cases hl : i < a.kids.length
  · exact h i hi (by omega)
  · exact Vis.of_ge (by omega)

theorem post_viGlobalDeclaration (hd : (a.id == .PUNC_STRUCT || a.kids.length != 1) = true) :
    Post (viGlobalDeclaration v a) (Vis v a 1) := by
  unfold viGlobalDeclaration
  split
  · post_auto
  · rename_i h1
    split
    · rename_i h2
      exfalso
      have h3 : a.kids.length = 1 := by simpa using h2
      simp [h1, h3] at hd
    · post_auto

theorem post_viFunctionDefinition (hi : i < 2) : Post (viFunctionDefinition v a) (Vis v a i) := by
  unfold viFunctionDefinition
  have : i = 0 ∨ i = 1 := by omega
  rcases this with rfl | rfl <;> post_auto

theorem post_checkFuncArguments (fn : String) (hi : 1 ≤ i) :
    Post (checkFuncArguments Γ v a fn) (Vis v a i) := by
  unfold checkFuncArguments
  split
  · post_auto
  · dsimp only
    split
    · post_auto
    · exact (post_checkArgsGo fn _ _ _ _).mono fun h => h.from_one hi

theorem post_viFunctionCall (hi : 1 ≤ i) : Post (viFunctionCall Γ v a) (Vis v a i) := by
  unfold viFunctionCall
  refine Post.bind_right fun _ => Post.bind_right fun _ => ?_
  split
  · exact Post.errFail _ _
  · exact Post.bind_left (post_checkFuncArguments _ hi)

theorem post_viTupleDeclaration : Post (viTupleDeclaration v a) (Vis v a i) := by
  unfold viTupleDeclaration
  refine Post.bind_right fun _ => Post.bind_right fun _ => ?_
  split
  · split
    · post_auto
    · exact Post.bind_left ((post_tupleDeclGo _ _ _).mono fun h => Vis.of_all h i)
  · post_auto

theorem post_viAllLogic : Post (viAllLogic v a) (Vis v a i) := by
  unfold viAllLogic
  exact Post.bind_left ((post_visitAll _ _).mono fun h => Vis.of_all h i)

theorem post_viArgument (hi : i < 2) : Post (viArgument v a) (Vis v a i) := by
  unfold viArgument
  have : i = 0 ∨ i = 1 := by omega
  rcases this with rfl | rfl <;> post_auto

theorem post_viCard (hi : i < 1) : Post (viCard v a) (Vis v a i) := by
  unfold viCard
  have : i = 0 := by omega
  subst this; post_auto

theorem post_viArithmetic (hi : i < 2) : Post (viArithmetic Γ v a) (Vis v a i) := by
  unfold viArithmetic
  have : i = 0 ∨ i = 1 := by omega
  rcases this with rfl | rfl <;> post_auto

theorem post_viIntegerPredicate (hi : i < 2) : Post (viIntegerPredicate Γ v a) (Vis v a i) := by
  unfold viIntegerPredicate
  have : i = 0 ∨ i = 1 := by omega
  rcases this with rfl | rfl <;> post_auto

theorem post_viQuantifier (hi : i < 3) : Post (viQuantifier v a) (Vis v a i) := by
  unfold viQuantifier
  have : i = 0 ∨ i = 1 ∨ i = 2 := by omega
  rcases this with rfl | rfl | rfl <;> post_auto

theorem post_viEquals (hi : i < 2) : Post (viEquals Γ v a) (Vis v a i) := by
  unfold viEquals
  have : i = 0 ∨ i = 1 := by omega
  rcases this with rfl | rfl <;> post_auto

theorem post_viSetexprPredicate (hi : i < 2) : Post (viSetexprPredicate Γ v a) (Vis v a i) := by
  unfold viSetexprPredicate
  have : i = 0 ∨ i = 1 := by omega
  rcases this with rfl | rfl <;> post_auto

theorem post_viDeclarative (hi : i < 3) : Post (viDeclarative v a) (Vis v a i) := by
  unfold viDeclarative
  have : i = 0 ∨ i = 1 ∨ i = 2 := by omega
  rcases this with rfl | rfl | rfl <;> post_auto

theorem post_viImperative : Post (viImperative v a) (Vis v a i) := by
  unfold viImperative
  by_cases hi : i = 0
  · subst hi; post_auto
  · refine Post.bind_right fun _ => Post.bind_left ?_
    exact (post_visitAll _ _).mono fun h k hk => h k (kid_mem_drop hk (by omega))

theorem post_viIterate (hi : i < 2) : Post (viIterate v a) (Vis v a i) := by
  unfold viIterate
  have : i = 0 ∨ i = 1 := by omega
  rcases this with rfl | rfl <;> post_auto

theorem post_viAssign (hi : i < 2) : Post (viAssign v a) (Vis v a i) := by
  unfold viAssign
  have : i = 0 ∨ i = 1 := by omega
  rcases this with rfl | rfl <;> post_auto

theorem post_viRecursion_short (hid : (a.id == .NT_RECURSIVE_FULL) = false) (hi : i < 3) :
    Post (viRecursion Γ v a) (Vis v a i) := by
  unfold viRecursion
  simp only [hid, Bool.false_eq_true, if_false]
  have : i = 0 ∨ i = 1 ∨ i = 2 := by omega
  rcases this with rfl | rfl | rfl <;> post_auto

theorem post_viRecursion_full (hid : (a.id == .NT_RECURSIVE_FULL) = true) (hi : i < 4) :
    Post (viRecursion Γ v a) (Vis v a i) := by
  unfold viRecursion
  simp only [hid, if_true]
  have : i = 0 ∨ i = 1 ∨ i = 2 ∨ i = 3 := by omega
  rcases this with rfl | rfl | rfl | rfl <;> post_auto

theorem post_viDecart : Post (viDecart v a) (Vis v a i) := by
  unfold viDecart
  exact Post.bind_left ((post_deboolAll _ _ _).mono fun h => h.all i)

theorem post_viBoolean (hi : i < 1) : Post (viBoolean v a) (Vis v a i) := by
  unfold viBoolean
  have : i = 0 := by omega
  subst this; post_auto

theorem post_viTuple : Post (viTuple v a) (Vis v a i) := by
  unfold viTuple
  exact Post.bind_left ((post_typesAll _ _ _).mono fun h => h.all i)

theorem post_viEnumeration : Post (viEnumeration Γ v a) (Vis v a i) := by
  unfold viEnumeration
  by_cases hi : i = 0
  · subst hi; post_auto
  · exact Post.bind_right fun _ => Post.bind_right fun _ => Post.bind_left
      ((post_enumGo _ _ _).mono fun h => h.from_one (by omega))

theorem post_viDebool (hi : i < 1) : Post (viDebool v a) (Vis v a i) := by
  unfold viDebool
  have : i = 0 := by omega
  subst this; post_auto

theorem post_viSetexprBinary (hi : i < 2) : Post (viSetexprBinary Γ v a) (Vis v a i) := by
  unfold viSetexprBinary
  have : i = 0 ∨ i = 1 := by omega
  rcases this with rfl | rfl <;> post_auto

theorem post_viProjectSet (hi : i < 1) : Post (viProjectSet v a) (Vis v a i) := by
  unfold viProjectSet
  have : i = 0 := by omega
  subst this; post_auto

theorem post_viProjectTuple (hi : i < 1) : Post (viProjectTuple v a) (Vis v a i) := by
  unfold viProjectTuple
  have : i = 0 := by omega
  subst this; post_auto

theorem post_viReduce (hi : i < 1) : Post (viReduce v a) (Vis v a i) := by
  unfold viReduce
  have : i = 0 := by omega
  subst this; post_auto

end postvi

theorem post_viFilter {Γ : Ctx} {v : Visitor} {a : Ast} {i : Nat} : Post (viFilter Γ v a) (Vis v a i) := by
  by_cases hlen : a.kids.length ≤ i
  · exact Post.of_true (Vis.of_ge hlen)
  unfold viFilter
  refine Post.bind_right fun idx => ?_
  dsimp only
  split
  · exact Post.errFail _ _
  rename_i har
  by_cases hlast : i = a.kids.length - 1
  · subst hlast; exact Post.bind_left (post_childType _ _ _)
  refine Post.bind_right fun _ => Post.bind_right fun _ => ?_
  split
  · exact Post.bind_left ((post_visitParamsGo _ _).mono fun h => h i (by omega) (by omega))
  · split
    · split
      · post_auto
      · split
        · exact Post.bind_left ((post_filterParamsGo _ _ _).mono fun h => h i (by omega) (by omega))
        · rename_i htp
          have : i = 0 := by simp at har htp; omega
          subst this; post_auto
    · post_auto

/-- the child visited by `ViGlobalDeclaration` when it succeeds: child 1 of `S1::=…` and of
`D1:==…`; nothing for the declaration of a base set `X1:==` -/
def declVisited (a : Ast) (i : Nat) : Bool := i == 1 && (a.id == .PUNC_STRUCT || a.kids.length != 1)

/-- the child indices a SUCCESSFUL run of the rule of the node has visited -/
def visitedIdx (a : Ast) (i : Nat) : Bool :=
  match a.id with
  | .ID_GLOBAL | .ID_FUNCTION | .ID_PREDICATE | .ID_LOCAL | .ID_RADICAL
  | .LIT_INTSET | .LIT_INTEGER | .LIT_EMPTYSET => false
  | .NT_FUNC_CALL => decide (1 ≤ i)
  | .NT_TUPLE_DECL | .NT_ENUM_DECL | .NT_ARGUMENTS | .NOT | .AND | .OR | .IMPLICATION | .EQUIVALENT
  | .NT_IMPERATIVE_EXPR | .DECART | .NT_TUPLE | .NT_ENUMERATION | .BOOL | .FILTER => true
  | .CARD | .BOOLEAN | .DEBOOL | .BIGPR | .SMALLPR | .REDUCE => decide (i < 1)
  | .NT_FUNC_DEFINITION | .NT_ARG_DECL | .PLUS | .MINUS | .MULTIPLY | .EQUAL | .NOTEQUAL
  | .GREATER | .LESSER | .GREATER_OR_EQ | .LESSER_OR_EQ
  | .IN | .NOTIN | .SUBSET | .SUBSET_OR_EQ | .NOTSUBSET | .ITERATE | .ASSIGN
  | .UNION | .INTERSECTION | .SET_MINUS | .SYMMINUS => decide (i < 2)
  | .FORALL | .EXISTS | .NT_DECLARATIVE_EXPR | .NT_RECURSIVE_SHORT => decide (i < 3)
  | .NT_RECURSIVE_FULL => decide (i < 4)
  | _ => declVisited a i

section
attribute [local irreducible] viGlobal viLocal viRadical viFunctionDefinition viFunctionCall viEmptySet
  viTupleDeclaration viAllLogic viArgument viArithmetic viCard viQuantifier viEquals
  viIntegerPredicate viSetexprPredicate viIterate viAssign viDeclarative viImperative viDecart
  viBoolean viRecursion viTuple viEnumeration viDebool viSetexprBinary viProjectSet viProjectTuple
  viFilter viReduce viGlobalDeclaration

theorem post_dispatch {Γ : Ctx} {v : Visitor} {a : Ast} (parent : Option Tok) :
    Post (dispatch Γ v parent a) (∀ i, visitedIdx a i = true → Vis v a i) := by
  refine Post.forall fun i => Post.intro ?_
  unfold dispatch visitedIdx
  generalize hid : a.id = t
  cases t
  all_goals (dsimp only; intro hi; first
    | exact Bool.noConfusion hi
    | exact post_viFunctionCall (of_decide_eq_true hi)
    | exact post_viTupleDeclaration | exact post_viAllLogic | exact post_viImperative
    | exact post_viDecart | exact post_viTuple | exact post_viEnumeration | exact post_viFilter
    | exact post_viCard (of_decide_eq_true hi) | exact post_viBoolean (of_decide_eq_true hi)
    | exact post_viDebool (of_decide_eq_true hi) | exact post_viProjectSet (of_decide_eq_true hi)
    | exact post_viProjectTuple (of_decide_eq_true hi) | exact post_viReduce (of_decide_eq_true hi)
    | exact post_viFunctionDefinition (of_decide_eq_true hi) | exact post_viArgument (of_decide_eq_true hi)
    | exact post_viArithmetic (of_decide_eq_true hi) | exact post_viEquals (of_decide_eq_true hi)
    | exact post_viIntegerPredicate (of_decide_eq_true hi)
    | exact post_viSetexprPredicate (of_decide_eq_true hi)
    | exact post_viIterate (of_decide_eq_true hi) | exact post_viAssign (of_decide_eq_true hi)
    | exact post_viSetexprBinary (of_decide_eq_true hi)
    | exact post_viQuantifier (of_decide_eq_true hi) | exact post_viDeclarative (of_decide_eq_true hi)
    | exact post_viRecursion_short (by rw [hid]; rfl) (of_decide_eq_true hi)
    | exact post_viRecursion_full (by rw [hid]; rfl) (of_decide_eq_true hi)
    | (unfold declVisited at hi
       simp only [Bool.and_eq_true, beq_iff_eq] at hi
       obtain ⟨rfl, hd⟩ := hi
       exact post_viGlobalDeclaration hd))

end

/-! ### the globals at the visited positions -/

/-- `Used n a`: the global name `n` occurs in `a` at a position that a successful run has visited
(a global node, the name of a called function, or inside a visited child) -/
inductive Used (n : String) : Ast → Prop where
  | self {a : Ast} : IsGlobalId a.id → a.data = .text n → Used n a
  | call {a k0 : Ast} : a.id = .NT_FUNC_CALL → a.kid 0 = some k0 → k0.data = .text n → Used n a
  | kid {a k : Ast} {i : Nat} : a.kid i = some k → visitedIdx a i = true → Used n k → Used n a

theorem Used.mem_globalsOf {n : String} {a : Ast} (h : Used n a) : n ∈ globalsOf a := by
  induction h with
  | self hg hd => exact globalsOf_self hg hd
  | call hc hk hd => exact globalsOf_call hc hk hd
  | kid hk _ _ ih => exact globalsOf_kid (kid_mem hk) ih

theorem dispatch_global {Γ : Ctx} {v : Visitor} {parent : Option Tok} {a : Ast} (hg : IsGlobalId a.id) :
    dispatch Γ v parent a = viGlobal Γ parent a := by
  unfold dispatch
  rcases hg with h | h | h <;> rw [h]

theorem dispatch_call {Γ : Ctx} {v : Visitor} {parent : Option Tok} {a : Ast} (hc : a.id = .NT_FUNC_CALL) :
    dispatch Γ v parent a = viFunctionCall Γ v a := by
  unfold dispatch; rw [hc]

theorem post_viFunctionCall_resolves {Γ : Ctx} {v : Visitor} {a k0 : Ast} {n : String}
    (hk : a.kid 0 = some k0) (hd : k0.data = .text n) :
    Post (viFunctionCall Γ v a) ((lookup Γ.types n).isSome = true ∧ (lookup Γ.funcs n).isSome = true) := by
  unfold viFunctionCall kidM textOf
  rw [hk]
  simp only [bind_pure_left, hd]
  cases ht : lookup Γ.types n with
  | none => exact Post.errFail _ _
  | some t =>
    refine Post.bind_left ?_
    unfold checkFuncArguments
    cases hf : lookup Γ.funcs n with
    | none => exact Post.bind_right fun _ => Post.errFail _ _
    | some d => exact Post.of_true ⟨rfl, rfl⟩

/-- STRICTNESS of the visitor: a successful visit has resolved (to a type) every global name at a
visited position; the name of a called function also to a declaration of its arguments -/
theorem visit_ok_used {Γ : Ctx} {n : String} {a : Ast} (hu : Used n a) :
    ∀ (fuel : Nat) (parent : Option Tok) (s s' : St),
      visit Γ fuel parent a s = (.ok (), s') → (lookup Γ.types n).isSome = true := by
  induction hu with
  | @self a hg hd =>
    intro fuel parent s s' h
    cases fuel with
    | zero => simp [visit, stuckM] at h
    | succ fuel =>
      have h' : viGlobal Γ parent a s = (.ok (), s') := by rw [← dispatch_global hg]; exact h
      obtain ⟨m, t, hm, ht, _, _⟩ := viGlobal_ok_resolves h'
      rw [hd] at hm
      cases hm
      simp [ht]
  | @call a k0 hc hk hd =>
    intro fuel parent s s' h
    cases fuel with
    | zero => simp [visit, stuckM] at h
    | succ fuel =>
      have h' : viFunctionCall Γ (visit Γ fuel) a s = (.ok (), s') := by rw [← dispatch_call hc]; exact h
      exact (post_viFunctionCall_resolves hk hd s () s' h').1
  | @kid a k i hk hv _ ih =>
    intro fuel parent s s' h
    cases fuel with
    | zero => simp [visit, stuckM] at h
    | succ fuel =>
      obtain ⟨p, s1, s2, hk'⟩ := post_dispatch parent s () s' h i hv k hk
      exact ih fuel p s1 s2 hk'

theorem checkWithFuel_ok_used {Γ : Ctx} {e : Ast} {fuel : Nat} {t : ExprTy} {n : String}
    (h : (checkWithFuel Γ fuel e).out = .ok t) (hu : Used n e) : (lookup Γ.types n).isSome = true := by
  unfold checkWithFuel at h
  cases hv : visit Γ fuel none e {} with
  | mk r s' =>
    cases r with
    | ok u => exact visit_ok_used hu fuel none {} s' hv
    | fail => simp [hv] at h
    | stuck x => simp [hv] at h

/-- STRICTNESS: an accepted expression has every global name at a visited position typed by the
context (the positions that are never visited are the declared name — child 0 of a declaration —
and children beyond the arity of the rule, which no parser-built tree has) -/
theorem check_strict_used {Γ : Ctx} {e : Ast} {t : ExprTy} {n : String}
    (h : (check Γ e).out = .ok t) (hu : Used n e) : (lookup Γ.types n).isSome = true :=
  checkWithFuel_ok_used h hu

/-- `Used` is inhabited non-trivially: both globals of `X1\(F1[X1])`-like trees are used; here the
operands of `X1∪X2` -/
example : Used "X2" (.node .UNION .none 0 5
    [.node .ID_GLOBAL (.text "X1") 0 2 [], .node .ID_GLOBAL (.text "X2") 3 5 []]) :=
  .kid (i := 1) rfl rfl (.self (Or.inl rfl) rfl)

/-! ### the computable form of `Used` -/

mutual
/-- the global names at the positions a successful run visits: like `globalsOf`, restricted to the
children at the indices `visitedIdx` -/
def usedGlobals : Ast → List String
  | .node id d lo hi ks =>
    (if IsGlobalId id then dataText d else []) ++
    (if id = .NT_FUNC_CALL then headText ks else []) ++ usedGlobalsList (.node id d lo hi ks) 0 ks
def usedGlobalsList (a : Ast) (i : Nat) : List Ast → List String
  | [] => []
  | k :: ks => (if visitedIdx a i then usedGlobals k else []) ++ usedGlobalsList a (i + 1) ks
end

mutual
theorem used_of_mem {n : String} : ∀ (a : Ast), n ∈ usedGlobals a → Used n a
  | .node id d lo hi ks, h => by
    simp only [usedGlobals, List.mem_append] at h
    rcases h with (h | h) | h
    · split at h
      · rename_i hg
        cases d with
        | text s =>
          simp only [dataText, List.mem_singleton] at h
          subst h
          exact .self hg rfl
        | none => cases h
        | int _ => cases h
        | tuple _ => cases h
      · cases h
    · split at h
      · rename_i hc
        cases ks with
        | nil => cases h
        | cons k0 ks =>
          simp only [headText] at h
          cases hd : k0.data with
          | text s =>
            simp only [hd, dataText, List.mem_singleton] at h
            subst h
            exact .call hc rfl hd
          | none => simp [hd, dataText] at h
          | int _ => simp [hd, dataText] at h
          | tuple _ => simp [hd, dataText] at h
      · cases h
    · obtain ⟨j, k, hk, hv, hu⟩ := used_of_memList (.node id d lo hi ks) 0 ks h
      rw [Nat.zero_add] at hv
      exact .kid (i := j) hk hv hu
theorem used_of_memList {n : String} (a : Ast) : ∀ (i : Nat) (ks : List Ast),
    n ∈ usedGlobalsList a i ks → ∃ j k, ks[j]? = some k ∧ visitedIdx a (i + j) = true ∧ Used n k
  | _, [], h => by cases h
  | i, k :: ks, h => by
    simp only [usedGlobalsList, List.mem_append] at h
    rcases h with h | h
    · split at h
      · rename_i hv
        exact ⟨0, k, rfl, hv, used_of_mem k h⟩
      · cases h
    · obtain ⟨j, k', hk, hv, hu⟩ := used_of_memList a (i + 1) ks h
      refine ⟨j + 1, k', hk, ?_, hu⟩
      rw [← hv]; congr 1; omega
end

theorem usedGlobals_subset {n : String} {a : Ast} (h : n ∈ usedGlobals a) : n ∈ globalsOf a :=
  (used_of_mem a h).mem_globalsOf

/-- STRICTNESS, list form: every global name of an accepted expression that stands at a visited
position is typed by the context -/
theorem check_strict {Γ : Ctx} {e : Ast} {t : ExprTy} (h : (check Γ e).out = .ok t) :
    ∀ n ∈ usedGlobals e, (lookup Γ.types n).isSome = true :=
  fun _ hn => check_strict_used h (used_of_mem e hn)

theorem checkWithFuel_strict {Γ : Ctx} {e : Ast} {fuel : Nat} {t : ExprTy}
    (h : (checkWithFuel Γ fuel e).out = .ok t) :
    ∀ n ∈ usedGlobals e, (lookup Γ.types n).isSome = true :=
  fun _ hn => checkWithFuel_ok_used h (used_of_mem e hn)

/-- on `D1:==X1\X2` the declared name is not used, the operands are; the hypothesis of
`check_strict` holds in a context that types `X1`, `X2` and not `D1` -/
example :
    let e : Ast := .node .PUNC_DEFINE .none 0 12 [.node .ID_GLOBAL (.text "D1") 0 2 [],
      .node .SET_MINUS .none 5 10
        [.node .ID_GLOBAL (.text "X1") 5 7 [], .node .ID_GLOBAL (.text "X2") 8 10 []]]
    let Γ : Ctx := { types := [("X1", .ty (.coll (.base "X1"))), ("X2", .ty (.coll (.base "X1")))] }
    usedGlobals e = ["X1", "X2"] ∧ globalsOf e = ["D1", "X1", "X2"] ∧
      (check Γ e).out = .ok (.ty (.coll (.base "X1"))) := by
  decide +kernel

end CCVerif.Checker
