import CCVerif.Lemmas.CheckerComplete2
import CCVerif.Lemmas.CheckerCompleteArgs
/-!
Completeness of the checker model (C03 `check_complete_partial1`), part 3: the fragment `CFrag`,
the induction over the tree, whole inputs.
-/
namespace CCVerif.Checker
open CCVerif.Syntax CCVerif.Types CCVerif.Spec

mutual
/-- the fragment of the completeness theorem: the grammar's shape (as `Core1` / `Wf`) without the
recursive terms R{} (the checker bounds the type deduction by `typeDeductionDepth` rounds, the rules do
not), without filters and without calls. Everything else: globals, bound variables, radicals, literals
(including `∅`), arithmetic, card, comparisons, =/≠, ∈/∉, ⊂/⊆/⊄, connectives, quantifiers with a
variable / tuple pattern / enumerated declaration, D{}, I{}, ℬ, ×, tuples, enumerations, bool, debool,
red, pr, Pr, ∪ ∩ \ ∆. -/
inductive CFrag (Γ : Ctx) : Cat → Ast → Prop where
  | sGlobal {tok : Tok} {x : String} {lo hi : Int} {ks : List Ast} :
      tok = .ID_GLOBAL ∨ tok = .ID_FUNCTION ∨ tok = .ID_PREDICATE → CFrag Γ .S (.node tok (.text x) lo hi ks)
  | sLocal {x : String} {lo hi : Int} {ks : List Ast} : CFrag Γ .S (.node .ID_LOCAL (.text x) lo hi ks)
  | sRadical {x : String} {lo hi : Int} {ks : List Ast} :
      (CtxOk Γ → CleanId Γ x) → CFrag Γ .S (.node .ID_RADICAL (.text x) lo hi ks)
  | sInt {d : TokData} {lo hi : Int} {ks : List Ast} : CFrag Γ .S (.node .LIT_INTEGER d lo hi ks)
  | sIntset {d : TokData} {lo hi : Int} {ks : List Ast} : CFrag Γ .S (.node .LIT_INTSET d lo hi ks)
  | sEmpty {d : TokData} {lo hi : Int} {ks : List Ast} : CFrag Γ .S (.node .LIT_EMPTYSET d lo hi ks)
  | sArith {tok : Tok} {d : TokData} {lo hi : Int} {a b : Ast} :
      tok = .PLUS ∨ tok = .MINUS ∨ tok = .MULTIPLY → CFrag Γ .S a → CFrag Γ .S b → CFrag Γ .S (.node tok d lo hi [a, b])
  | sUnary {tok : Tok} {d : TokData} {lo hi : Int} {a : Ast} :
      tok = .CARD ∨ tok = .BOOLEAN ∨ tok = .DEBOOL ∨ tok = .REDUCE ∨ tok = .BOOL →
      CFrag Γ .S a → CFrag Γ .S (.node tok d lo hi [a])
  | sSetbin {tok : Tok} {d : TokData} {lo hi : Int} {a b : Ast} :
      tok = .UNION ∨ tok = .INTERSECTION ∨ tok = .SET_MINUS ∨ tok = .SYMMINUS →
      CFrag Γ .S a → CFrag Γ .S b → CFrag Γ .S (.node tok d lo hi [a, b])
  | sEnum {d : TokData} {lo hi : Int} {a : Ast} {ks : List Ast} :
      (∀ k, k ∈ a :: ks → CFrag Γ .S k) → CFrag Γ .S (.node .NT_ENUMERATION d lo hi (a :: ks))
  | sMany {tok : Tok} {d : TokData} {lo hi : Int} {a b : Ast} {ks : List Ast} :
      tok = .DECART ∨ tok = .NT_TUPLE →
      (∀ k, k ∈ a :: b :: ks → CFrag Γ .S k) → CFrag Γ .S (.node tok d lo hi (a :: b :: ks))
  | sProj {tok : Tok} {idx : List Int} {lo hi : Int} {a : Ast} :
      tok = .BIGPR ∨ tok = .SMALLPR → CFrag Γ .S a → CFrag Γ .S (.node tok (.tuple idx) lo hi [a])
  | sDeclarative {d : TokData} {lo hi : Int} {p dom body : Ast} :
      CFrag Γ .D p → CFrag Γ .S dom → CFrag Γ .L body → CFrag Γ .S (.node .NT_DECLARATIVE_EXPR d lo hi [p, dom, body])
  | lNot {d : TokData} {lo hi : Int} {a : Ast} : CFrag Γ .L a → CFrag Γ .L (.node .NOT d lo hi [a])
  | lBin {tok : Tok} {d : TokData} {lo hi : Int} {a b : Ast} :
      tok = .AND ∨ tok = .OR ∨ tok = .IMPLICATION ∨ tok = .EQUIVALENT →
      CFrag Γ .L a → CFrag Γ .L b → CFrag Γ .L (.node tok d lo hi [a, b])
  | lOrder {tok : Tok} {d : TokData} {lo hi : Int} {a b : Ast} :
      tok = .GREATER ∨ tok = .LESSER ∨ tok = .GREATER_OR_EQ ∨ tok = .LESSER_OR_EQ →
      CFrag Γ .S a → CFrag Γ .S b → CFrag Γ .L (.node tok d lo hi [a, b])
  | lEqual {tok : Tok} {d : TokData} {lo hi : Int} {a b : Ast} :
      tok = .EQUAL ∨ tok = .NOTEQUAL → CFrag Γ .S a → CFrag Γ .S b → CFrag Γ .L (.node tok d lo hi [a, b])
  | lElem {tok : Tok} {d : TokData} {lo hi : Int} {a b : Ast} :
      tok = .IN ∨ tok = .NOTIN → CFrag Γ .S a → CFrag Γ .S b → CFrag Γ .L (.node tok d lo hi [a, b])
  | lSubset {tok : Tok} {d : TokData} {lo hi : Int} {a b : Ast} :
      tok = .SUBSET ∨ tok = .SUBSET_OR_EQ ∨ tok = .NOTSUBSET →
      CFrag Γ .S a → CFrag Γ .S b → CFrag Γ .L (.node tok d lo hi [a, b])
  | lQuant {tok : Tok} {d : TokData} {lo hi : Int} {p dom body : Ast} :
      tok = .FORALL ∨ tok = .EXISTS → CFrag Γ .DE p → CFrag Γ .S dom → CFrag Γ .L body →
      CFrag Γ .L (.node tok d lo hi [p, dom, body])
  | dLocal {x : String} {lo hi : Int} {ks : List Ast} : CFrag Γ .D (.node .ID_LOCAL (.text x) lo hi ks)
  | dTuple {d : TokData} {lo hi : Int} {ks : List Ast} :
      (∀ k, k ∈ ks → CFrag Γ .D k) → CFrag Γ .D (.node .NT_TUPLE_DECL d lo hi ks)
  | deOfD {k : Ast} : CFrag Γ .D k → CFrag Γ .DE k
  | deEnum {d : TokData} {lo hi : Int} {ks : List Ast} :
      (∀ k, k ∈ ks → CFrag Γ .D k) → CFrag Γ .DE (.node .NT_ENUM_DECL d lo hi ks)
  | sImperative {d : TokData} {lo hi : Int} {value : Ast} {blocks : List Ast} :
      CFrag Γ .S value → (∀ b, b ∈ blocks → CFragB Γ b) →
      CFrag Γ .S (.node .NT_IMPERATIVE_EXPR d lo hi (value :: blocks))
/-- blocks of an imperative term -/
inductive CFragB (Γ : Ctx) : Ast → Prop where
  | iterate {d : TokData} {lo hi : Int} {p dom : Ast} :
      CFrag Γ .D p → CFrag Γ .S dom → CFragB Γ (.node .ITERATE d lo hi [p, dom])
  | assign {d : TokData} {lo hi : Int} {p ex : Ast} :
      CFrag Γ .D p → CFrag Γ .S ex → CFragB Γ (.node .ASSIGN d lo hi [p, ex])
  | cond {b : Ast} : CFrag Γ .L b → CFragB Γ b
end

theorem dk {t : Tok} {d : TokData} {lo hi : Int} {ks : List Ast} {k : Ast} {n : Nat}
    (hd : Ast.depth (.node t d lo hi ks) ≤ n + 1) (hm : k ∈ ks) : Ast.depth k ≤ n := by
  have := depth_kid (a := .node t d lo hi ks) (k := k) hm
  omega

/-! ## the fragment is inside the fragment of the soundness theorem -/

theorem cfrag_core1_n (Γ : Ctx) : ∀ n : Nat,
    (∀ c e, Ast.depth e ≤ n → CFrag Γ c e → Core1 Γ c e) ∧ (∀ b, Ast.depth b ≤ n → CFragB Γ b → Core1B Γ b)
  | 0 => ⟨fun _ e h _ => absurd (depth_pos e) (by omega), fun b h _ => absurd (depth_pos b) (by omega)⟩
  | n+1 => by
    obtain ⟨ih, ihB⟩ := cfrag_core1_n Γ n
    have main : ∀ c e, Ast.depth e ≤ n + 1 → CFrag Γ c e → Core1 Γ c e := by
      intro c e hd hc
      cases hc with
      | sGlobal h => exact .sGlobal h
      | sLocal => exact .sLocal
      | sRadical h => exact .sRadical h
      | sInt => exact .sInt
      | sIntset => exact .sIntset
      | sEmpty => exact .sEmpty
      | sArith h ca cb => exact .sArith h (ih _ _ (dk hd (by simp)) ca) (ih _ _ (dk hd (by simp)) cb)
      | sUnary h ca => exact .sUnary h (ih _ _ (dk hd (by simp)) ca)
      | sSetbin h ca cb => exact .sSetbin h (ih _ _ (dk hd (by simp)) ca) (ih _ _ (dk hd (by simp)) cb)
      | sEnum hk => exact .sEnum (fun k hm => ih _ _ (dk hd hm) (hk k hm))
      | sMany h hk => exact .sMany h (fun k hm => ih _ _ (dk hd hm) (hk k hm))
      | sProj h ca => exact .sProj h (ih _ _ (dk hd (by simp)) ca)
      | sDeclarative cp cd cb =>
        exact .sDeclarative (ih _ _ (dk hd (by simp)) cp) (ih _ _ (dk hd (by simp)) cd) (ih _ _ (dk hd (by simp)) cb)
      | lNot ca => exact .lNot (ih _ _ (dk hd (by simp)) ca)
      | lBin h ca cb => exact .lBin h (ih _ _ (dk hd (by simp)) ca) (ih _ _ (dk hd (by simp)) cb)
      | lOrder h ca cb => exact .lOrder h (ih _ _ (dk hd (by simp)) ca) (ih _ _ (dk hd (by simp)) cb)
      | lEqual h ca cb => exact .lEqual h (ih _ _ (dk hd (by simp)) ca) (ih _ _ (dk hd (by simp)) cb)
      | lElem h ca cb => exact .lElem h (ih _ _ (dk hd (by simp)) ca) (ih _ _ (dk hd (by simp)) cb)
      | lSubset h ca cb => exact .lSubset h (ih _ _ (dk hd (by simp)) ca) (ih _ _ (dk hd (by simp)) cb)
      | lQuant h cp cd cb =>
        exact .lQuant h (ih _ _ (dk hd (by simp)) cp) (ih _ _ (dk hd (by simp)) cd) (ih _ _ (dk hd (by simp)) cb)
      | dLocal => exact .dLocal
      | dTuple hk => exact .dTuple (fun k hm => ih _ _ (dk hd hm) (hk k hm))
      | deOfD h =>
        cases h with
        | dLocal => exact .deOfD .dLocal
        | dTuple hk => exact .deOfD (.dTuple (fun k hm => ih _ _ (dk hd hm) (hk k hm)))
      | deEnum hk => exact .deEnum (fun k hm => ih _ _ (dk hd hm) (hk k hm))
      | sImperative cv cb =>
        exact .sImperative (ih _ _ (dk hd (by simp)) cv) (fun b hm => ihB _ (dk hd (by simp [hm])) (cb b hm))
    refine ⟨main, ?_⟩
    intro b hd hc
    cases hc with
    | iterate cp cd => exact .iterate (ih _ _ (dk hd (by simp)) cp) (ih _ _ (dk hd (by simp)) cd)
    | assign cp cd => exact .assign (ih _ _ (dk hd (by simp)) cp) (ih _ _ (dk hd (by simp)) cd)
    | cond cl => exact .cond (main _ _ hd cl)

theorem cfrag_core1 {Γ : Ctx} {c : Cat} {e : Ast} (h : CFrag Γ c e) : Core1 Γ c e :=
  (cfrag_core1_n Γ (Ast.depth e)).1 c e (Nat.le_refl _) h

theorem cfragB_core1 {Γ : Ctx} {b : Ast} (h : CFragB Γ b) : Core1B Γ b :=
  (cfrag_core1_n Γ (Ast.depth b)).2 b (Nat.le_refl _) h

/-! ## the induction -/

theorem cfrag_decl (Γ : Ctx) : ∀ (n : Nat) (e : Ast), Ast.depth e ≤ n → CFrag Γ .D e → CD Γ n .D e
  | 0, e, h, _ => absurd (depth_pos e) (by omega)
  | n+1, e, hd, hc => by
    cases hc with
    | dLocal => exact dlocal_c
    | dTuple hk => exact dtuple_c (fun k hm => cfrag_decl Γ n k (dk hd hm) (hk k hm))

theorem cfrag_declE (Γ : Ctx) : ∀ (n : Nat) (e : Ast), Ast.depth e ≤ n → CFrag Γ .DE e → CD Γ n .DE e
  | 0, e, h, _ => absurd (depth_pos e) (by omega)
  | n+1, e, hd, hc => by
    cases hc with
    | deOfD h => exact (cfrag_decl Γ (n+1) e hd h).toDE
    | deEnum hk => exact deenum_c (fun k hm => cfrag_decl Γ n k (dk hd hm) (hk k hm))

theorem CFrag.logic_id {Γ : Ctx} {e : Ast} (hc : CFrag Γ .L e) : e.id ≠ .ITERATE ∧ e.id ≠ .ASSIGN :=
  Core1.logic_id (cfrag_core1 hc)

theorem cfrag_complete (Γ : Ctx) : ∀ (n : Nat),
    (∀ e, Ast.depth e ≤ n → CFrag Γ .S e → CV Γ n .S e) ∧ (∀ e, Ast.depth e ≤ n → CFrag Γ .L e → CV Γ n .L e) ∧
    (∀ b, Ast.depth b ≤ n → CFragB Γ b → CB Γ n b)
  | 0 => ⟨fun e h _ => absurd (depth_pos e) (by omega), fun e h _ => absurd (depth_pos e) (by omega),
          fun e h _ => absurd (depth_pos e) (by omega)⟩
  | n+1 => by
    obtain ⟨ihS, ihL, ihB⟩ := cfrag_complete Γ n
    have sS : ∀ {e}, CFrag Γ .S e → VOk Γ n .S e := fun h => (core1_sound Γ n).1 _ (cfrag_core1 h)
    have sD : ∀ {e}, CFrag Γ .D e → DEOk Γ n e := fun h => (core1_decl Γ n _ (cfrag_core1 h)).toDE
    have sDE : ∀ {e}, CFrag Γ .DE e → DEOk Γ n e := fun h => core1_declE Γ n _ (cfrag_core1 h)
    have hL : ∀ e, Ast.depth e ≤ n + 1 → CFrag Γ .L e → CV Γ (n+1) .L e := by
      intro e hd hc
      refine CV.of0 ?_ ((core1_sound Γ (n+1)).2.1 e (cfrag_core1 hc))
      cases hc with
      | lNot ca => exact not_c (ihL _ (dk hd (by simp)) ca)
      | lBin htok ca cb => exact logbin_c htok (ihL _ (dk hd (by simp)) ca) (ihL _ (dk hd (by simp)) cb)
      | lOrder htok ca cb => exact order_c htok (ihS _ (dk hd (by simp)) ca) (ihS _ (dk hd (by simp)) cb)
      | lEqual htok ca cb => exact equal_c htok (ihS _ (dk hd (by simp)) ca) (ihS _ (dk hd (by simp)) cb)
      | lElem htok ca cb => exact elem_c htok (ihS _ (dk hd (by simp)) ca) (ihS _ (dk hd (by simp)) cb)
      | lSubset htok ca cb => exact subset_c htok (ihS _ (dk hd (by simp)) ca) (ihS _ (dk hd (by simp)) cb)
      | lQuant htok cp cd cb =>
        exact quant_c htok (cfrag_declE Γ n _ (dk hd (by simp)) cp) (sDE cp) (ihS _ (dk hd (by simp)) cd) (sS cd)
          (ihL _ (dk hd (by simp)) cb)
    refine ⟨?_, hL, ?_⟩
    · intro e hd hc
      refine CV.of0 ?_ ((core1_sound Γ (n+1)).1 e (cfrag_core1 hc))
      cases hc with
      | sGlobal htok => exact global_c htok
      | sLocal => exact local_c
      | sRadical hx => exact radical_c
      | sInt => exact int_c
      | sIntset => exact intset_c
      | sEmpty => exact emptyset_c
      | sArith htok ca cb => exact arith_c htok (ihS _ (dk hd (by simp)) ca) (ihS _ (dk hd (by simp)) cb)
      | sUnary htok ca =>
        have ia := ihS _ (dk hd (by simp)) ca
        rcases htok with rfl | rfl | rfl | rfl | rfl
        · exact card_c ia
        · exact boolean_c ia
        · exact debool_c ia
        · exact reduce_c ia
        · exact enumeration_c (Or.inr rfl) (fun k hm => by simp at hm; subst hm; exact ia)
      | sSetbin htok ca cb => exact setbin_c htok (ihS _ (dk hd (by simp)) ca) (ihS _ (dk hd (by simp)) cb)
      | sEnum hk => exact enumeration_c (Or.inl rfl) (fun k hm => ihS _ (dk hd hm) (hk k hm))
      | sMany htok hk =>
        rcases htok with rfl | rfl
        · exact decart_c (fun k hm => ihS _ (dk hd hm) (hk k hm))
        · exact tuple_c (fun k hm => ihS _ (dk hd hm) (hk k hm))
      | sProj htok ca =>
        rcases htok with rfl | rfl
        · exact bigpr_c (ihS _ (dk hd (by simp)) ca)
        · exact smallpr_c (ihS _ (dk hd (by simp)) ca)
      | sDeclarative cp cd cb =>
        exact declarative_c (cfrag_decl Γ n _ (dk hd (by simp)) cp) (sD cp) (ihS _ (dk hd (by simp)) cd) (sS cd)
          (ihL _ (dk hd (by simp)) cb)
      | sImperative cv cb =>
        exact imperative_c (ihS _ (dk hd (by simp)) cv) (fun b hm => ihB _ (dk hd (by simp [hm])) (cb b hm))
    · intro b hd hc
      cases hc with
      | iterate cp cd =>
        exact iterate_c (cfrag_decl Γ n _ (dk hd (by simp)) cp) (sD cp) (ihS _ (dk hd (by simp)) cd) (sS cd)
      | assign cp cd =>
        exact assign_c (cfrag_decl Γ n _ (dk hd (by simp)) cp) (sD cp) (ihS _ (dk hd (by simp)) cd) (sS cd)
      | cond cl => exact cond_c (hL _ hd cl) (CFrag.logic_id cl).1 (CFrag.logic_id cl).2

/-! ## whole inputs -/

theorem relC_init {Γ : Ctx} : RelC Γ ({} : St) ({} : Env) := ⟨rel_init, fun h => by cases h⟩

/-- an expression or a function definition; the index is the list of declared argument names -/
inductive CFragArgs (Γ : Ctx) : List String → List Ast → Prop where
  | nil : CFragArgs Γ [] []
  | cons {x : String} {xs : List String} {d : TokData} {lo hi ll hl : Int} {kl : List Ast} {dom : Ast} {ds : List Ast} :
      CFrag Γ .S dom → CFragArgs Γ xs ds →
      CFragArgs Γ (x :: xs) (.node .NT_ARG_DECL d lo hi [.node .ID_LOCAL (.text x) ll hl kl, dom] :: ds)

inductive CFragDef (Γ : Ctx) : List String → Ast → Prop where
  | expr {e : Ast} : CFrag Γ .S e ∨ CFrag Γ .L e → CFragDef Γ [] e
  | funcdef {xs : List String} {d da : TokData} {lo hi la ha : Int} {decls : List Ast} {body : Ast} :
      decls ≠ [] → CFragArgs Γ xs decls → (CFrag Γ .S body ∨ CFrag Γ .L body) →
      CFragDef Γ xs (.node .NT_FUNC_DEFINITION d lo hi [.node .NT_ARGUMENTS da la ha decls, body])

theorem CFragArgs.core1 {Γ : Ctx} {xs : List String} {ds : List Ast} (h : CFragArgs Γ xs ds) :
    ∀ k, k ∈ ds → Core1Arg Γ k := by
  induction h with
  | nil => intro k hk; cases hk
  | cons hd _ ih =>
    intro k hk
    rcases List.mem_cons.mp hk with rfl | hk
    · exact .mk (cfrag_core1 hd)
    · exact ih k hk

theorem CFragArgs.argsC {Γ : Ctx} {m : Nat} {xs : List String} {ds : List Ast} (h : CFragArgs Γ xs ds)
    (hcv : ∀ e, Ast.depth e ≤ m + 1 → CFrag Γ .S e → CV Γ (m+1) .S e) :
    (∀ k, k ∈ ds → Ast.depth k ≤ m + 2) → ArgsC Γ m xs ds := by
  induction h with
  | nil => intro _; exact .nil
  | cons hd _ ih =>
    intro hdep
    have h0 := hdep _ (List.mem_cons_self)
    refine .cons ⟨⟨_, _, _, _, _, _, _, rfl, hcv _ (dk h0 (by simp)) hd,
      (core1_sound Γ (m+1)).1 _ (cfrag_core1 hd)⟩⟩ (ih (fun k hk => hdep k (by simp [hk])))

/-- a whole input: definition, `X1:==`, `D1:==def`, `S1::=dom` -/
inductive CFragTop (Γ : Ctx) : List String → Ast → Prop where
  | ofDef {xs : List String} {e : Ast} : CFragDef Γ xs e → CFragTop Γ xs e
  | define1 {d : TokData} {lo hi ln hn : Int} {tn : Tok} {x : String} {kn : List Ast} :
      CFragTop Γ [] (.node .PUNC_DEFINE d lo hi [.node tn (.text x) ln hn kn])
  | define2 {xs : List String} {d : TokData} {lo hi : Int} {nm ex : Ast} :
      CFragDef Γ xs ex → CFragTop Γ xs (.node .PUNC_DEFINE d lo hi [nm, ex])
  | struct {d : TokData} {lo hi : Int} {nm ex : Ast} :
      CFrag Γ .S ex → CFragTop Γ [] (.node .PUNC_STRUCT d lo hi [nm, ex])

theorem CFragDef.core1 {Γ : Ctx} {xs : List String} {e : Ast} (h : CFragDef Γ xs e) : Core1Def Γ e := by
  cases h with
  | expr h => exact .expr (h.imp cfrag_core1 cfrag_core1)
  | funcdef _ ha hb => exact .funcdef ha.core1 (hb.imp cfrag_core1 cfrag_core1)

theorem CFragTop.core1 {Γ : Ctx} {xs : List String} {e : Ast} (h : CFragTop Γ xs e) : Core1Top Γ e := by
  cases h with
  | ofDef h => exact .ofDef h.core1
  | define1 => exact .define1
  | define2 h => exact .define2 h.core1
  | struct h => exact .struct (cfrag_core1 h)

/-- a whole input visited from the initial state, at the root or directly under `:==` -/
def CT (Γ : Ctx) (n : Nat) (xs : List String) (e : Ast) : Prop :=
  ∀ (p : Option Tok) (τ : ExprTy) (args : List (String × Ty)), HasTopType Γ e τ args → args.map Prod.fst = xs →
    (p = none ∨ p = some .PUNC_DEFINE) →
    ∃ s', visit Γ n p e {} = (.ok (), s') ∧ s'.cur = τ ∧ s'.args = args

theorem cfrag_expr_top (Γ : Ctx) {e : Ast} (hc : CFrag Γ .S e ∨ CFrag Γ .L e) (n : Nat) (hd : Ast.depth e ≤ n) :
    CT Γ n [] e := by
  intro p τ args htop _ hp
  have hid : e.id ≠ .NT_FUNC_DEFINITION ∧ e.id ≠ .PUNC_DEFINE ∧ e.id ≠ .PUNC_STRUCT := by
    rcases hc with hc | hc
    · exact core1_id (cfrag_core1 hc) (Or.inl rfl)
    · exact core1_id (cfrag_core1 hc) (Or.inr rfl)
  have hop : isOperandPos p = false := by rcases hp with rfl | rfl <;> rfl
  have hmis : emptySetMisused p = false := by rcases hp with rfl | rfl <;> decide
  cases htop with
  | expr _ _ _ ht =>
    rcases hc with hc | hc
    · obtain ⟨s', r, hcur, m⟩ := (cfrag_complete Γ n).1 e hd hc p {} {} τ ht goodSt_init relC_init
        (fun _ h => by rw [hop] at h; cases h) (fun h => by rw [hmis] at h; cases h)
      exact ⟨s', r, hcur, m.2.args⟩
    · obtain ⟨s', r, hcur, m⟩ := (cfrag_complete Γ n).2.1 e hd hc p {} {} τ ht goodSt_init relC_init
        (fun h => by cases h) (fun h => by rw [hmis] at h; cases h)
      exact ⟨s', r, hcur, m.2.args⟩
  | funcdef _ _ => exact absurd rfl hid.1
  | defineEmpty => exact absurd rfl hid.2.1
  | define _ _ _ => exact absurd rfl hid.2.1
  | struct _ _ => exact absurd rfl hid.2.2

theorem cfrag_def_top (Γ : Ctx) {xs : List String} {e : Ast} (hc : CFragDef Γ xs e) (n : Nat) (hd : Ast.depth e ≤ n) :
    CT Γ n xs e := by
  cases hc with
  | expr h => exact cfrag_expr_top Γ h n hd
  | funcdef hne ha hb =>
    rename_i d da lo hi la ha' decls body
    intro p τ args htop hxs _
    have h4 : 4 ≤ n := by
      cases ha with
      | nil => exact absurd rfl hne
      | cons hdom _ =>
        have := depth_pos ‹Ast›
        simp only [Ast.depth, Ast.depth.depthList] at hd
        omega
    obtain ⟨m, rfl⟩ : ∃ m, n = m + 4 := ⟨n - 4, by omega⟩
    have hA : Ast.depth (.node .NT_ARGUMENTS da la ha' decls) ≤ m + 3 := dk hd (by simp)
    have hB : Ast.depth body ≤ m + 3 := dk hd (by simp)
    have hargs := ha.argsC (m := m) (cfrag_complete Γ (m+1)).1 (fun k hk => dk hA hk)
    rcases hb with hb | hb
    · exact funcdef_c hargs ((cfrag_complete Γ (m+3)).1 body hB hb) htop hxs
    · exact funcdef_c hargs ((cfrag_complete Γ (m+3)).2.1 body hB hb) htop hxs

theorem cfrag_top (Γ : Ctx) {xs : List String} {e : Ast} (hc : CFragTop Γ xs e) (n : Nat) (hd : Ast.depth e ≤ n) :
    ∀ (τ : ExprTy) (args : List (String × Ty)), HasTopType Γ e τ args → args.map Prod.fst = xs →
    ∃ s', visit Γ n none e {} = (.ok (), s') ∧ s'.cur = τ ∧ s'.args = args := by
  intro τ args htop hxs
  cases n with
  | zero => exact absurd (depth_pos e) (by omega)
  | succ n =>
  cases hc with
  | ofDef h => exact cfrag_def_top Γ h (n+1) hd none τ args htop hxs (Or.inl rfl)
  | define1 =>
    rename_i d lo hi ln hn tn x kn
    cases htop with
    | defineEmpty => exact ⟨_, rfl, rfl, rfl⟩
    | expr _ h2 _ _ => exact absurd rfl h2
  | define2 h =>
    rename_i d lo hi nm ex
    have hdid := core1_def_id h.core1
    cases htop with
    | define _ _ h' =>
      obtain ⟨s1, r1, hcur, hargs⟩ := cfrag_def_top Γ h n (dk hd (by simp)) (some .PUNC_DEFINE) τ args h' hxs (Or.inr rfl)
      change ∃ s', viGlobalDeclaration (visit Γ n) (.node .PUNC_DEFINE d lo hi [nm, ex]) {} = _ ∧ _
      show ∃ s', (M.bind (childType (visit Γ n) (.node .PUNC_DEFINE d lo hi [nm, ex]) 1) fun t => setCur t) {} = _ ∧ _
      refine bind_ex (childType_fwd kid1 r1) ⟨_, rfl, hcur, hargs⟩
    | expr _ h2 _ _ => exact absurd rfl h2
  | struct h =>
    rename_i d lo hi nm ex
    cases htop with
    | struct hshape ht =>
      rename_i t
      change ∃ s', viGlobalDeclaration (visit Γ n) (.node .PUNC_STRUCT d lo hi [nm, ex]) {} = _ ∧ _
      unfold viGlobalDeclaration
      have hid : ((Ast.node Tok.PUNC_STRUCT d lo hi [nm, ex]).id == Tok.PUNC_STRUCT) = true := rfl
      have hso : structOk (.node .PUNC_STRUCT d lo hi [nm, ex]) = true := by
        have : isStructureDomain (Ast.depth ex + 1) ex = true := by
          rw [isStructureDomain_eq, depth_eq_spec]; exact hshape
        simpa [structOk, Ast.kids, Ast.kid] using this
      simp only [hid, if_true, hso, Bool.not_true, Bool.false_eq_true, if_false]
      obtain ⟨s1, r1, m1⟩ := childType_cv kid1 ((cfrag_complete Γ n).1 ex (dk hd (by simp)) h) ht goodSt_init relC_init
        (fun _ _ => ⟨_, rfl⟩) (nomis (t := .PUNC_STRUCT) (by decide))
      refine bind_ex r1 (bind_ex (expectTy_fwd _ _ _) ⟨_, rfl, rfl, ?_⟩)
      exact m1.2.args
    | expr _ _ h3 _ => exact absurd rfl h3

/-- completeness on the fragment: a typable whole input is accepted with exactly that type and the
declared arguments of the derivation (whose names are the ones written in the input) -/
theorem cfrag_check_complete (Γ : Ctx) {xs : List String} {e : Ast} (hc : CFragTop Γ xs e)
    (τ : ExprTy) (args : List (String × Ty)) (htop : HasTopType Γ e τ args) (hxs : args.map Prod.fst = xs) :
    (check Γ e).out = .ok τ ∧ (check Γ e).args = args := by
  obtain ⟨s', r, hcur, hargs⟩ := cfrag_top Γ hc (Ast.depth e + 1) (by omega) τ args htop hxs
  unfold check checkWithFuel
  rw [r]
  dsimp only
  exact ⟨by rw [hcur], hargs⟩

end CCVerif.Checker
