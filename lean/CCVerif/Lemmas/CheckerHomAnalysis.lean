import CCVerif.Lemmas.CheckerHom
import CCVerif.Lemmas.CheckerWfCarrier
import CCVerif.Lemmas.CheckerHomGen
import CCVerif.Lemmas.CheckerHomCompose
import CCVerif.Lemmas.SynthCorrectChecker
/-!
C12, the semantic clause for the REAL checker model: the type-checker analysis of the generic machine
(`checkerR`, constant `TraitsFor`) is `HomomorphicOn` (Lemmas/CheckerHomGen.lean) — stable under an
IDENTIFICATION `φ` of names (not injective), for

* `AdmC traits φ` — admissible identifications: `Z`, `R0` are fixed and nothing else is mapped to them;
  radicals are fixed and nothing else becomes a radical; identified names have the same traits
  (like with like: a constant set is identified with a constant set of the same traits only);
* `GoodDC d` — the carrier: grammar-shaped definitions (`defShaped`) WITHOUT templated function calls
  (`noCall`: no NT_FUNC_CALL node).

`checkerHomOn traits : HomomorphicOn (checkerR fun _ => traits)`; `homDC φ` renames the global tokens of
the body, `homIC φ` the base names of the typification and of the declared arguments' types.
-/
namespace CCVerif.Checker
open CCVerif CCVerif.Syntax CCVerif.Types CCVerif.Blocks

/-! ## trees without function calls -/
mutual
def noCall : Ast → Bool
  | .node id _ _ _ ks => !decide (id = .NT_FUNC_CALL) && noCallL ks
def noCallL : List Ast → Bool
  | [] => true
  | k :: ks => noCall k && noCallL ks
end

mutual
theorem usedGlobals_hom (g : String → String) : ∀ a : Ast, noCall a = true →
    usedGlobals (renAst g a) = (usedGlobals a).map g
  | .node id d lo hi ks, hnc => by
    simp only [noCall, Bool.and_eq_true, Bool.not_eq_true', decide_eq_false_iff_not] at hnc
    have e0 : renAst g (.node id d lo hi ks) = .node id (renData g id d) lo hi (renAstL g ks) := by
      simp only [renAst]
    rw [e0]
    simp only [usedGlobals, List.map_append]
    have h1 : (if IsGlobalId id then dataText (renData g id d) else []) =
        (if IsGlobalId id then dataText d else []).map g := by
      by_cases hg : IsGlobalId id
      · rw [if_pos hg, if_pos hg, dataText_renData_glob _ ((isGlob_iff id).2 hg)]
      · rw [if_neg hg, if_neg hg]; rfl
    have h3 : usedGlobalsList (.node id (renData g id d) lo hi (renAstL g ks)) 0 (renAstL g ks) =
        (usedGlobalsList (.node id d lo hi ks) 0 ks).map g := by
      rw [usedGlobalsList_parent (a := .node id d lo hi ks) (fun i => by rw [← e0]; exact visitedIdx_ren _ _ i)]
      exact usedGlobalsList_hom g (.node id d lo hi ks) 0 ks hnc.2
    rw [h1, h3, if_neg hnc.1, if_neg hnc.1]
    rfl
theorem usedGlobalsList_hom (g : String → String) (a : Ast) : ∀ (i : Nat) (ks : List Ast), noCallL ks = true →
    usedGlobalsList a i (renAstL g ks) = (usedGlobalsList a i ks).map g
  | _, [], _ => rfl
  | i, k :: ks, hnc => by
    simp only [noCallL, Bool.and_eq_true] at hnc
    simp only [renAstL, usedGlobalsList, List.map_append]
    rw [usedGlobals_hom g k hnc.1, usedGlobalsList_hom g a (i + 1) ks hnc.2]
    split <;> rfl
end

/-! ## the identification of the instance: one map for tokens and base names -/

/-- admissible identifications (relative to the constant traits) -/
structure AdmC (traits : TraitEnv) (φ : String → String) : Prop where
  fZ : ∀ x, (φ x == Ty.intName) = (x == Ty.intName)
  fR0 : ∀ x, (φ x == Ty.anyName) = (x == Ty.anyName)
  frad : ∀ x, isRadical (φ x) = isRadical x
  fixRad : ∀ x, isRadical x = true → φ x = x
  traits : ∀ id, lookup traits (φ id) = lookup traits id

/-- `y` is an ordinary name: not `Z`, not `R0`, no radical -/
def niceName (y : String) : Bool := y != Ty.intName && y != Ty.anyName && !isRadical y

/-- an identification that moves finitely many ordinary names to ordinary names of the same traits is
admissible -/
theorem admC_of_finite (traits : TraitEnv) (φ : String → String) (K : List String)
    (hoff : ∀ x, x ∉ K → φ x = x)
    (hK : ∀ x ∈ K, niceName x = true ∧ niceName (φ x) = true ∧ lookup traits (φ x) = lookup traits x) :
    AdmC traits φ := by
  have nice : ∀ y, niceName y = true → (y == Ty.intName) = false ∧ (y == Ty.anyName) = false ∧ isRadical y = false := by
    intro y hy
    simp only [niceName, Bool.and_eq_true, bne_iff_ne, ne_eq, Bool.not_eq_true'] at hy
    exact ⟨by simpa using hy.1.1, by simpa using hy.1.2, hy.2⟩
  refine ⟨fun x => ?_, fun x => ?_, fun x => ?_, fun x hx => ?_, fun x => ?_⟩
  · by_cases hx : x ∈ K
    · obtain ⟨h1, h2, _⟩ := hK x hx
      rw [(nice _ h1).1, (nice _ h2).1]
    · rw [hoff x hx]
  · by_cases hx : x ∈ K
    · obtain ⟨h1, h2, _⟩ := hK x hx
      rw [(nice _ h1).2.1, (nice _ h2).2.1]
    · rw [hoff x hx]
  · by_cases hx : x ∈ K
    · obtain ⟨h1, h2, _⟩ := hK x hx
      rw [(nice _ h1).2.2, (nice _ h2).2.2]
    · rw [hoff x hx]
  · by_cases hxK : x ∈ K
    · obtain ⟨h1, _, _⟩ := hK x hxK
      rw [(nice _ h1).2.2] at hx; cases hx
    · exact hoff x hxK
  · by_cases hx : x ∈ K
    · exact (hK x hx).2.2
    · rw [hoff x hx]

def CHom.ofMap {traits : TraitEnv} (φ : String → String) (hφ : AdmC traits φ) : CHom :=
  ⟨φ, ⟨φ, hφ.fZ, hφ.fR0, hφ.frad⟩⟩

/-- the side conditions of `check_hom` hold on a shaped tree without calls whose global names have
corresponding entries in the two contexts -/
theorem nodeH_of {traits : TraitEnv} {φ : String → String} (hφ : AdmC traits φ) {Γ Γ' : Ctx} {a : Ast}
    (hs : nodeShape a = true) (hnc : a.id ≠ .NT_FUNC_CALL)
    (hl : isGlob a.id = true → ∀ s, a.data = .text s →
      lookup Γ'.types (φ s) = (lookup Γ.types s).map (renE φ) ∧
      lookup Γ'.funcs (φ s) = (lookup Γ.funcs s).map (hDecl (CHom.ofMap φ hφ))) :
    NodeH (CHom.ofMap φ hφ) Γ Γ' a := by
  unfold nodeShape at hs
  simp only [Bool.and_eq_true] at hs
  obtain ⟨⟨⟨h1, _⟩, h3⟩, h4⟩ := hs
  refine ⟨hl, ?_, hnc, ?_, ?_⟩
  · intro hid s hd
    have : (textIs a.data fun s => isBlock s.toList && isRadical s) = true := by
      simpa [hid] using h1
    unfold textIs at this
    rw [hd] at this
    simp only [Bool.and_eq_true] at this
    exact hφ.fixRad s this.2
  · intro hdt hlen k0 hk0 n hn
    have : (kid0Ok a fun k0 => textIs k0.data fun n => isBlock n.toList && isGlob k0.id) = true := by
      have hlen' : (a.kids.length == 1) = true := by rw [hlen]; rfl
      simpa [hdt, hlen'] using h3
    simp only [kid0Ok, hk0, textIs, hn, Bool.and_eq_true] at this
    show φ n = if isGlob k0.id = true then φ n else n
    rw [if_pos this.2]
  · intro hid k0 hk0 n hn hg
    have : (kid0Ok a fun k0 => !isGlob k0.id) = true := by
      simpa [hid] using h4
    simp only [kid0Ok, hk0, hg] at this
    cases this

theorem mem_globalsOf_self {id : Tok} {d : TokData} {lo hi : Int} {ks : List Ast} {s : String}
    (hg : isGlob id = true) (hd : d = .text s) : s ∈ globalsOf (.node id d lo hi ks) := by
  simp only [globalsOf, List.mem_append]
  left; left
  rw [if_pos ((isGlob_iff id).1 hg), hd]
  simp [dataText]

mutual
theorem treeH_of {traits : TraitEnv} {φ : String → String} (hφ : AdmC traits φ) {Γ Γ' : Ctx} :
    ∀ a : Ast, shapeOK a = true → noCall a = true →
    (∀ s ∈ globalsOf a, lookup Γ'.types (φ s) = (lookup Γ.types s).map (renE φ) ∧
      lookup Γ'.funcs (φ s) = (lookup Γ.funcs s).map (hDecl (CHom.ofMap φ hφ))) →
    TreeH (CHom.ofMap φ hφ) Γ Γ' a
  | .node id d lo hi ks, hs, hnc, hl => by
    simp only [shapeOK, Bool.and_eq_true] at hs
    simp only [noCall, Bool.and_eq_true, Bool.not_eq_true', decide_eq_false_iff_not] at hnc
    refine TreeH.mk (nodeH_of hφ hs.1 hnc.1 (fun hg s hd => hl s (mem_globalsOf_self hg hd))) ?_
    exact treeHL_of hφ ks hs.2 hnc.2 (fun s hm => hl s (by
      simp only [globalsOf, List.mem_append]; right; exact hm))
theorem treeHL_of {traits : TraitEnv} {φ : String → String} (hφ : AdmC traits φ) {Γ Γ' : Ctx} :
    ∀ ks : List Ast, shapeOKL ks = true → noCallL ks = true →
    (∀ s ∈ globalsOfList ks, lookup Γ'.types (φ s) = (lookup Γ.types s).map (renE φ) ∧
      lookup Γ'.funcs (φ s) = (lookup Γ.funcs s).map (hDecl (CHom.ofMap φ hφ))) →
    ∀ k ∈ ks, TreeH (CHom.ofMap φ hφ) Γ Γ' k
  | [], _, _, _ => fun k hk => by cases hk
  | k0 :: ks, hs, hnc, hl => by
    simp only [shapeOKL, Bool.and_eq_true] at hs
    simp only [noCallL, Bool.and_eq_true] at hnc
    exact List.forall_mem_cons.2 ⟨treeH_of hφ k0 hs.1 hnc.1 (fun s hm => hl s (by
        simp only [globalsOfList, List.mem_append]; left; exact hm)),
      treeHL_of hφ ks hs.2 hnc.2 (fun s hm => hl s (by
        simp only [globalsOfList, List.mem_append]; right; exact hm))⟩
end

end CCVerif.Checker

namespace CCVerif.SchemaGen
open CCVerif CCVerif.Syntax CCVerif.Types CCVerif.Checker CCVerif.Blocks
open CCVerif.Schema (Kind Status)

/-- the definition with the global names identified -/
def homDC (φ : String → String) : CDef → CDef := Option.map (renAst φ)

/-- the entry with the base names of its typifications identified -/
def homIC (φ : String → String) (i : CInfo) : CInfo :=
  { status := i.status, ty := i.ty.map (renE φ), args := i.args.map fun p => (p.1, renTy φ p.2) }

/-- the carrier: grammar-shaped, no templated calls -/
def GoodDC (d : CDef) : Prop :=
  defShaped d = true ∧ ∀ body, d = some body → noCall body = true

theorem tyOfC_hom (φ : String → String) (o : Option CInfo) : tyOfC (o.map (homIC φ)) = (tyOfC o).map (renE φ) := by
  cases o with
  | none => rfl
  | some i => rfl

theorem argsOfC_hom (φ : String → String) (o : Option CInfo) :
    argsOfC (o.map (homIC φ)) = (argsOfC o).map (fun d => d.map fun p => (p.1, renTy φ p.2)) := by
  cases o with
  | none => rfl
  | some i =>
    show (if ((i.ty.map (renE φ)).isSome && !(i.args.map fun p => (p.1, renTy φ p.2)).isEmpty) = true
        then some (i.args.map fun p => (p.1, renTy φ p.2)) else none) =
      Option.map _ (if (i.ty.isSome && !i.args.isEmpty) = true then some i.args else none)
    have h1 : (i.ty.map (renE φ)).isSome = i.ty.isSome := by cases i.ty <;> rfl
    have h2 : (i.args.map fun p => (p.1, renTy φ p.2)).isEmpty = i.args.isEmpty := by cases i.args <;> rfl
    rw [h1, h2]
    split <;> rfl

theorem check_baseTree (Γ : Ctx) (alias : String) :
    check Γ (baseTree alias) = ⟨.ok (.ty (.coll (.base alias))), [], [], false⟩ := rfl

/-- **the checker analysis is stable under identification** (`analyse_hom` of `HomomorphicOn`) -/
theorem analyseC_hom (traits : TraitEnv) (φ : String → String) (hφ : AdmC traits φ)
    (ctx ctx' : String → Option CInfo) (c : Cst CDef) (hgood : GoodDC c.defn)
    (hok : (analyseC traits ctx c).ty.isSome = true)
    (hctx : ∀ m ∈ mentionsOf c.defn, ctx' (φ m) = (ctx m).map (homIC φ)) :
    analyseC traits ctx' { c with alias := φ c.alias, defn := homDC φ c.defn } = homIC φ (analyseC traits ctx c) := by
  obtain ⟨u, alias, kind, defn⟩ := c
  cases kind with
  | base =>
    cases defn with
    | none =>
      show resultOf (check _ (baseTree (φ alias))) = homIC φ (resultOf (check _ (baseTree alias)))
      rw [check_baseTree, check_baseTree]
      rfl
    | some body => cases hok
  | term =>
    cases defn with
    | none => cases hok
    | some body =>
      obtain ⟨hsh, hnc⟩ := hgood
      have hncb := hnc body rfl
      have hsh' := hsh
      simp only [defShaped, Bool.and_eq_true] at hsh'
      show resultOf (check (ctxToΓ traits ctx' (usedGlobals (defTree (φ alias) (renAst φ body))))
          (defTree (φ alias) (renAst φ body))) =
        homIC φ (resultOf (check (ctxToΓ traits ctx (usedGlobals (defTree alias body))) (defTree alias body)))
      have hok' : (resultOf (check (ctxToΓ traits ctx (usedGlobals (defTree alias body)))
          (defTree alias body))).ty.isSome = true := hok
      obtain ⟨t, ht⟩ := resultOf_ok hok'
      rw [usedGlobals_defTree, usedGlobals_defTree, usedGlobals_hom φ body hncb] at *
      let h := CHom.ofMap φ hφ
      have hΓ : CtxHom h (ctxToΓ traits ctx (usedGlobals body)) (ctxToΓ traits ctx' ((usedGlobals body).map φ)) :=
        ⟨hφ.traits, rfl⟩
      have hT : TreeH h (ctxToΓ traits ctx (usedGlobals body)) (ctxToΓ traits ctx' ((usedGlobals body).map φ)) body := by
        refine treeH_of hφ body hsh'.2 hncb (fun s hs => ?_)
        have hu : s ∈ usedGlobals body := (mentions_shaped hsh s).2 hs
        have hu' : φ s ∈ (usedGlobals body).map φ := List.mem_map.2 ⟨s, hu, rfl⟩
        rw [lookup_ctxToΓ_types, lookup_ctxToΓ_types, lookup_ctxToΓ_funcs, lookup_ctxToΓ_funcs]
        simp only [if_pos hu, if_pos hu', hctx s hu, tyOfC_hom, argsOfC_hom]
        first | exact ⟨rfl, rfl⟩ | exact ⟨trivial, rfl⟩ | trivial
      have := check_hom_top (h := h) hΓ (a := defTree alias body) rfl rfl
        (fun k hk => by
          have : k = body := by
            have e : (defTree alias body).kid 1 = some body := rfl
            rw [e] at hk; exact (Option.some.inj hk).symm
          subst this; exact hT) ht
      have e : renAst h.g (defTree alias body) = defTree (φ alias) (renAst φ body) := rfl
      rw [e] at this
      rw [this]
      unfold resultOf
      simp only [ht]
      rfl

/-- **the checker analysis (constant traits) is `HomomorphicOn`**: stable under every admissible
identification of names, on grammar-shaped definitions without templated calls -/
def checkerHomOn (traits : TraitEnv) : HomomorphicOn (checkerR fun _ => traits) where
  Adm := AdmC traits
  GoodD := GoodDC
  homD := homDC
  homI := homIC
  mentions_hom := by
    intro φ d _ hg
    cases d with
    | none => rfl
    | some body => exact usedGlobals_hom φ body (hg.2 body rfl)
  ok_hom := by
    intro φ i hi
    show (i.ty.map (renE φ)).isSome = true
    have : i.ty.isSome = true := hi
    cases hty : i.ty with
    | none => rw [hty] at this; cases this
    | some t => rfl
  missing := by
    intro sk ctx c m hm hc
    show (analyseC traits ctx c).ty.isSome = false
    unfold analyseC
    cases htr : cstTree c with
    | none => rfl
    | some tr =>
      have hmm : m ∈ usedGlobals tr := by rw [usedGlobals_cstTree htr]; exact hm
      simp only
      cases hr : (resultOf (check (ctxToΓ traits ctx (usedGlobals tr)) tr)).ty.isSome with
      | false => rfl
      | true =>
        exfalso
        obtain ⟨t, ht⟩ := resultOf_ok hr
        have := check_strict ht m hmm
        rw [lookup_ctxToΓ_types, if_pos hmm, hc] at this
        cases this
  analyse_hom := fun φ _ _ ctx ctx' c hadm hgood hok hctx => analyseC_hom traits φ hadm ctx ctx' c hgood hok hctx

end CCVerif.SchemaGen

/-! ## a view of token sequences as checker definitions (for the non-vacuity examples) -/
namespace CCVerif.SynthCorrect
open CCVerif CCVerif.Syntax CCVerif.Types CCVerif.Checker CCVerif.Dedup
open CCVerif.SchemaGen (CDef checkerR checkerEquivariance checkerHomOn homDC glob)

/-- `a ∪ b` -/
def unionT (a b : Ast) : Ast := .node .UNION .none 0 0 [a, b]

/-- a small reader: `N1 ∪ N2` is parsed, the empty sequence is the empty definition, nothing else is read -/
def readC (d : List Dedup.Tok) : CDef :=
  match d with
  | [t1, t2, t3] =>
    (match t1, t2, t3 with
     | .mention a, .sym s, .mention b => if s = "∪" then some (unionT (glob a) (glob b)) else none
     | _, _, _ => none)
  | _ => none

def checkerView : View CDef where
  kindOf := fun k => if k == 1 then .base else .term
  read := readC

theorem readC_map (f : String → String) : ∀ d : List Dedup.Tok,
    readC (d.map (renTok f)) = (readC d).map (renAst f)
  | [] => rfl
  | [t1] => by cases t1 <;> rfl
  | [t1, t2] => by cases t1 <;> cases t2 <;> rfl
  | [t1, t2, t3] => by
    cases t1 <;> cases t2 <;> cases t3 <;> try rfl
    rename_i a s b
    show (if s = "∪" then some (unionT (glob (f a)) (glob (f b))) else none) =
      Option.map (renAst f) (if s = "∪" then some (unionT (glob a) (glob b)) else none)
    split <;> rfl
  | _ :: _ :: _ :: _ :: _ => rfl

theorem mentions_unionT (a b : String) : SchemaGen.mentionsOf (some (unionT (glob a) (glob b))) = [a, b] := rfl

theorem readC_mentions (d : List Dedup.Tok) : ∀ n ∈ SchemaGen.mentionsOf (readC d), n ∈ mentionNames d := by
  match d with
  | [] => intro n hn; cases hn
  | [t1] => intro n hn; cases hn
  | [t1, t2] => intro n hn; cases hn
  | _ :: _ :: _ :: _ :: _ => intro n hn; cases hn
  | [t1, t2, t3] =>
    intro n hn
    cases t1 <;> cases t2 <;> cases t3 <;> try (cases hn; done)
    rename_i a s b
    have e : readC [.mention a, .sym s, .mention b] =
        if s = "∪" then some (unionT (glob a) (glob b)) else none := rfl
    rw [e] at hn
    split at hn
    · rw [mentions_unionT] at hn
      simp only [mentionNames, List.filterMap_cons, List.filterMap_nil]
      exact hn
    · cases hn

theorem globals_unionT (a b : String) : globalsOf (unionT (glob a) (glob b)) = [a, b] := rfl

theorem readC_globals (d : List Dedup.Tok) {body : Ast} (hd : readC d = some body) :
    ∀ n ∈ globalsOf body, n ∈ mentionNames d := by
  match d, hd with
  | [], hd => cases hd
  | [t1], hd => cases hd
  | [t1, t2], hd => cases hd
  | _ :: _ :: _ :: _ :: _, hd => cases hd
  | [t1, t2, t3], hd =>
    cases t1 <;> cases t2 <;> cases t3 <;> try (cases hd; done)
    rename_i a s b
    have e : readC [.mention a, .sym s, .mention b] =
        if s = "∪" then some (unionT (glob a) (glob b)) else none := rfl
    rw [e] at hd
    split at hd
    · cases hd
      intro n hn
      rw [globals_unionT] at hn
      simp only [mentionNames, List.filterMap_cons, List.filterMap_nil]
      exact hn
    · cases hd

theorem checkerView_compatible (traits : TraitEnv) :
    checkerView.Compatible (checkerR fun _ => traits) (checkerEquivariance fun _ => traits) where
  read_ren := by
    intro r f d hf
    show readC (d.map (renTok f)) = (readC d).map (renAst r.r.ρ.f)
    rw [readC_map]
    cases hd : readC d with
    | none => rfl
    | some body =>
      simp only [Option.map_some]
      congr 1
      apply renAst_congr
      intro n hn
      exact hf n (readC_globals d hd n hn)
  mentions_sub := fun d n hn => readC_mentions d n hn

theorem checkerView_compatibleHomOn (traits : TraitEnv) :
    checkerView.CompatibleHomOn (checkerHomOn traits) :=
  fun φ d _ _ => readC_map φ d

end CCVerif.SynthCorrect
