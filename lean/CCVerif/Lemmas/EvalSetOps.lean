import CCVerif.Lemmas.EvalVal
import CCVerif.Spec.Denote
/-! Membership specifications of the evaluator's set operations on canonical lists and their
agreement with the reference operations of `Spec/Denote.lean` (the statements are the public
theorems of `Properties/C01.lean`; the proofs live here so that the simulation lemmas can use them). -/
namespace CCVerif.Eval.SetOps
open CCVerif.Spec CCVerif.Eval
open Val

theorem pcSub {l1 l2 : List Val} (h : PairComparable l2) (hs : ∀ x ∈ l1, x ∈ l2) : PairComparable l1 :=
  fun a ha b hb => h a (hs a ha) b (hs b hb)

theorem all_congr' {f g : Val → Bool} : ∀ {l : List Val}, (∀ x ∈ l, f x = g x) → l.all f = l.all g
  | [], _ => rfl
  | x :: l, h => by
    simp only [List.all_cons]
    rw [h x (by simp), all_congr' (fun y hy => h y (List.mem_cons_of_mem _ hy))]

/-- `std::set::insert` keeps the list strictly increasing -/
theorem insert_canonical (x : Val) (l : List Val) (h : sortedStrict l = true) : sortedStrict (insert x l) = true :=
  insert_sorted h

/-- … and adds exactly the new element (which must be comparable with the old ones) -/
theorem mem_insert (x y : Val) (l : List Val) (hc : ∀ z ∈ l, Comparable x z) :
    y ∈ insert x l ↔ y = x ∨ y ∈ l := mem_insert_iff hc

/-- `Factory::Set`: canonical, with exactly the listed members -/
theorem mkSet_canonical (xs : List Val) : sortedStrict (mkSetList xs) = true := mkSetList_sorted xs
theorem mem_mkSet (xs : List Val) (y : Val) (hc : PairComparable xs) : y ∈ mkSetList xs ↔ y ∈ xs :=
  mem_mkSetList_iff hc

/-- `std::set::contains` (ordered search) is membership -/
theorem contains_iff_mem (l : List Val) (x : Val) (hs : sortedStrict l = true) (hc : ∀ y ∈ l, Comparable x y) :
    mem x l = true ↔ x ∈ l := mem_iff hs hc

/-- extensionality of canonical sets -/
theorem canonical_ext (l1 l2 : List Val) (h1 : sortedStrict l1 = true) (h2 : sortedStrict l2 = true)
    (h : ∀ x, x ∈ l1 ↔ x ∈ l2) : l1 = l2 := sorted_ext h1 h2 h

theorem union_canonical (xs ys : List Val) : sortedStrict (union xs ys) = true :=
  insertAll_sorted ys (insertAll_sorted xs (by simp [sortedStrict]))

theorem mem_union (xs ys : List Val) (z : Val) (hc : PairComparable (xs ++ ys)) :
    z ∈ union xs ys ↔ z ∈ xs ∨ z ∈ ys := by
  have hx : PairComparable xs := pcSub hc (fun x hx => by simp [hx])
  have h1 : ∀ w, w ∈ insertAll [] xs ↔ w ∈ xs := fun w => by
    have := mem_insertAll_iff xs (acc := []) (y := w) (by simpa using hx)
    simpa using this
  have hc2 : PairComparable (insertAll [] xs ++ ys) := pcSub hc (fun w hw => by
    rcases List.mem_append.mp hw with m | m
    · simp [(h1 w).mp m]
    · simp [m])
  unfold union
  rw [mem_insertAll_iff ys hc2, h1]

theorem inter_canonical (xs ys : List Val) : sortedStrict (inter xs ys) = true :=
  insertAll_sorted _ (by simp [sortedStrict])

theorem mem_inter (xs ys : List Val) (z : Val) (hs : sortedStrict xs = true) (hc : PairComparable (xs ++ ys)) :
    z ∈ inter xs ys ↔ z ∈ xs ∧ z ∈ ys := by
  have hf : PairComparable (ys.filter (fun y => mem y xs)) :=
    pcSub hc (fun w hw => by simp [(List.mem_filter.mp hw).1])
  unfold inter
  have := mem_mkSetList_iff (y := z) hf
  unfold mkSetList at this
  rw [this, List.mem_filter]
  constructor
  · rintro ⟨hy, hm⟩
    exact ⟨(mem_iff hs (fun y hy' => hc z (by simp [hy]) y (by simp [hy']))).mp hm, hy⟩
  · rintro ⟨hx, hy⟩
    exact ⟨hy, (mem_iff hs (fun y hy' => hc z (by simp [hy]) y (by simp [hy']))).mpr hx⟩

theorem diff_canonical (xs ys : List Val) : sortedStrict (diff xs ys) = true :=
  insertAll_sorted _ (by simp [sortedStrict])

theorem mem_diff (xs ys : List Val) (z : Val) (hs : sortedStrict ys = true) (hc : PairComparable (xs ++ ys)) :
    z ∈ diff xs ys ↔ z ∈ xs ∧ z ∉ ys := by
  have hf : PairComparable (xs.filter (fun x => !mem x ys)) :=
    pcSub hc (fun w hw => by simp [(List.mem_filter.mp hw).1])
  unfold diff
  have := mem_mkSetList_iff (y := z) hf
  unfold mkSetList at this
  rw [this, List.mem_filter]
  constructor
  · rintro ⟨hx, hm⟩
    refine ⟨hx, fun hy => ?_⟩
    have := (mem_iff hs (fun y hy' => hc z (by simp [hx]) y (by simp [hy']))).mpr hy
    simp [this] at hm
  · rintro ⟨hx, hy⟩
    refine ⟨hx, ?_⟩
    have : mem z ys ≠ true := fun hm => hy ((mem_iff hs (fun y hy' => hc z (by simp [hx]) y (by simp [hy']))).mp hm)
    simpa using this

theorem symDiff_canonical (xs ys : List Val) : sortedStrict (symDiff xs ys) = true :=
  insertAll_sorted _ (insertAll_sorted _ (by simp [sortedStrict]))

theorem mem_symDiff (xs ys : List Val) (z : Val) (hsx : sortedStrict xs = true) (hsy : sortedStrict ys = true)
    (hc : PairComparable (xs ++ ys)) :
    z ∈ symDiff xs ys ↔ (z ∈ xs ∧ z ∉ ys) ∨ (z ∈ ys ∧ z ∉ xs) := by
  have hc' : PairComparable (ys ++ xs) := pcSub hc (fun w hw => by
    rcases List.mem_append.mp hw with m | m <;> simp [m])
  have e : symDiff xs ys = insertAll (diff xs ys) (ys.filter (fun y => !mem y xs)) := rfl
  have hd := mem_diff xs ys
  have hcc : PairComparable (diff xs ys ++ ys.filter (fun y => !mem y xs)) := pcSub hc (fun w hw => by
    rcases List.mem_append.mp hw with m | m
    · simp [((hd w hsy hc).mp m).1]
    · simp [(List.mem_filter.mp m).1])
  rw [e, mem_insertAll_iff _ hcc, hd z hsy hc, List.mem_filter]
  constructor
  · rintro (h | ⟨hy, hm⟩)
    · exact Or.inl h
    · refine Or.inr ⟨hy, fun hx => ?_⟩
      have := (mem_iff hsx (fun y hy' => hc' z (by simp [hy]) y (by simp [hy']))).mpr hx
      simp [this] at hm
  · rintro (h | ⟨hy, hx⟩)
    · exact Or.inl h
    · refine Or.inr ⟨hy, ?_⟩
      have : mem z xs ≠ true := fun hm => hx ((mem_iff hsx (fun y hy' => hc' z (by simp [hy]) y (by simp [hy']))).mp hm)
      simpa using this

/-! ## the evaluator's set operations are the reference operations -/

theorem isMember_iff (x : Val) (l : List Val) : isMember x l = true ↔ x ∈ l := by
  simp [isMember]

/-- `SDSet::Union` = the set with the members of both (no hypothesis: same fold) -/
theorem union_agrees (xs ys : List Val) : Val.s (union xs ys) = setOf (xs ++ ys) := by
  simp [union, setOf, mkSet, mkSetList, insertAll, List.foldl_append]

theorem inter_agrees (xs ys : List Val) (hs : sortedStrict xs = true) (hc : PairComparable (xs ++ ys)) :
    Val.s (inter xs ys) = setOf (xs.filter (isMember · ys)) := by
  simp only [setOf, mkSet]
  congr 1
  apply sorted_ext (inter_canonical xs ys) (mkSetList_sorted _)
  intro z
  have hf : PairComparable (xs.filter (isMember · ys)) := pcSub hc (fun w hw => by simp [(List.mem_filter.mp hw).1])
  rw [mem_inter xs ys z hs hc, mem_mkSetList_iff hf, List.mem_filter, isMember_iff]

theorem diff_agrees (xs ys : List Val) (hs : sortedStrict ys = true) (hc : PairComparable (xs ++ ys)) :
    Val.s (diff xs ys) = setOf (xs.filter (!isMember · ys)) := by
  simp only [setOf, mkSet]
  congr 1
  apply sorted_ext (diff_canonical xs ys) (mkSetList_sorted _)
  intro z
  have hf : PairComparable (xs.filter (!isMember · ys)) := pcSub hc (fun w hw => by simp [(List.mem_filter.mp hw).1])
  rw [mem_diff xs ys z hs hc, mem_mkSetList_iff hf, List.mem_filter]
  simp [isMember]

theorem symDiff_agrees (xs ys : List Val) (hsx : sortedStrict xs = true) (hsy : sortedStrict ys = true)
    (hc : PairComparable (xs ++ ys)) :
    Val.s (symDiff xs ys) = setOf (xs.filter (!isMember · ys) ++ ys.filter (!isMember · xs)) := by
  simp only [setOf, mkSet]
  congr 1
  apply sorted_ext (symDiff_canonical xs ys) (mkSetList_sorted _)
  intro z
  have hf : PairComparable (xs.filter (!isMember · ys) ++ ys.filter (!isMember · xs)) := pcSub hc (fun w hw => by
    rcases List.mem_append.mp hw with m | m <;> simp [(List.mem_filter.mp m).1])
  rw [mem_symDiff xs ys z hsx hsy hc, mem_mkSetList_iff hf, List.mem_append, List.mem_filter, List.mem_filter]
  simp [isMember]

/-- `Contains` / `IsSubsetOrEq` of the evaluator = membership / inclusion of the reference -/
theorem mem_agrees (x : Val) (ys : List Val) (hs : sortedStrict ys = true) (hc : ∀ y ∈ ys, Comparable x y) :
    mem x ys = isMember x ys := by
  have h1 := mem_iff hs hc
  have h2 := isMember_iff x ys
  cases hm : mem x ys <;> cases hi : isMember x ys <;> simp_all

theorem subsetEq_agrees (xs ys : List Val) (hs : sortedStrict ys = true) (hc : PairComparable (xs ++ ys)) :
    subsetEq xs ys = isSubset xs ys := by
  unfold subsetEq isSubset
  apply all_congr'
  intro x hx
  exact mem_agrees x ys hs (fun y hy => hc x (by simp [hx]) y (by simp [hy]))


end CCVerif.Eval.SetOps
