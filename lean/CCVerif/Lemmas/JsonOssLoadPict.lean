import CCVerif.Lemmas.JsonOssRowsReach
/-!
The `LoadPict` half of the projection between the OSS document loader (C10, `Model/JsonOss.lean`) and the C19
machine (`Model/Oss.lean`): the key tables of the content loaded from a document with distinct identifiers and
cells (`toStruct`) ARE the structural state `Op.reload` computes — `Struct.loadPict` per item in document order,
then `LoadParent` per connection (`reload_toStruct`).
-/
namespace CCVerif.JsonOss
open CCVerif.Json
open CCVerif.Oss (Pid Pos Graph Struct St Op Variant Oracle StructInv run step DocItem Grid)

/-- the key tables after the pictograms `l` were loaded in this order (no connection yet) -/
def keyStruct (l : List Pict) : Struct := toStruct { items := l, rows := [] }

theorem keyStruct_nil : keyStruct [] = {} := rfl

theorem loadPict_keyStruct (loaded : List Pict) (p : Pict) (hs : ∀ q ∈ loaded ++ [p], q.src.isSome = true)
    (hu : ((loaded ++ [p]).map (·.uid)).Nodup) (hc : ((loaded ++ [p]).map (·.pos)).Nodup) :
    (keyStruct loaded).loadPict p.uid p.pos p.op.isSome p.uid = some (keyStruct (loaded ++ [p]), p.uid) := by
  have hun : p.uid ∉ loaded.map (·.uid) := by
    rw [List.map_append, List.nodup_append] at hu
    exact fun hm => hu.2.2 _ hm _ (by simp) rfl
  have hpn : p.pos ∉ loaded.map (·.pos) := by
    rw [List.map_append, List.nodup_append] at hc
    exact fun hm => hc.2.2 _ hm _ (by simp) rfl
  have hsl : loaded.filter (·.src.isSome) = loaded :=
    List.filter_eq_self.2 (fun q hq => hs q (List.mem_append_left _ hq))
  have hsp : p.src.isSome = true := hs p (by simp)
  have hg1 : (gridOf loaded).reverse.map (·.1) = (loaded.map (·.pos)).reverse := by
    simp [gridOf, Function.comp_def]
  have hg2 : (gridOf loaded).reverse.map (·.2) = (loaded.map (·.uid)).reverse := by
    simp [gridOf, Function.comp_def]
  have hcell : ((keyStruct loaded).grid.cell p.pos).isSome = false := by
    rw [Bool.eq_false_iff]
    intro hh
    have : p.pos ∈ (gridOf loaded).reverse.map (·.1) := CCVerif.Oss.Grid.cell_isSome_iff.1 hh
    rw [hg1] at this
    exact hpn (by simpa using this)
  have hids : (keyStruct loaded).ids.contains p.uid = false := by
    show ((loaded.map (·.uid)).reverse).contains p.uid = false
    simpa using hun
  have hset : CCVerif.Oss.Grid.setPosFor (gridOf loaded).reverse p.uid p.pos = (p.pos, p.uid) :: (gridOf loaded).reverse :=
    CCVerif.Oss.Grid.setPosFor_fresh (by rw [hg2]; simpa using hun) (by rw [hg1]; simpa using hpn)
  have hopn : p.uid ∉ ((loaded.filter (·.op.isSome)).map (·.uid)).reverse := by
    intro hm
    rw [List.mem_reverse] at hm
    obtain ⟨q, hq, he⟩ := List.mem_map.1 hm
    exact hun (List.mem_map.2 ⟨q, (List.mem_filter.1 hq).1, he⟩)
  have hfo : ((loaded.filter (·.op.isSome)).map (·.uid)).reverse.filter (· != p.uid) =
      ((loaded.filter (·.op.isSome)).map (·.uid)).reverse := by
    rw [List.filter_eq_self]; intro a ha
    simp only [bne_iff_ne, ne_eq]; rintro rfl; exact hopn ha
  unfold Struct.loadPict
  simp only [hcell, hids, Bool.false_eq_true, if_false]
  congr 1
  congr 1
  have hun' : ∀ x ∈ loaded, ¬ x.uid = p.uid := fun x hx e => hun (List.mem_map.2 ⟨x, hx, e⟩)
  have hga : gridOf (loaded ++ [p]) = gridOf loaded ++ [(p.pos, p.uid)] := by simp [gridOf]
  cases hop : p.op.isSome <;>
    simp [Struct.insertInternal, keyStruct, toStruct, hset, hfo, hsl, hsp, hop, List.filter_append, hga, toGraph] <;>
    exact hun'

/-- a document item of the C19 machine that carries the same identifier, cell and "is an operation" as the
decoded pictogram -/
def Matches (it : DocItem) (p : Pict) : Prop := it.uid = p.uid ∧ it.pos = p.pos ∧ it.op.isSome = p.op.isSome

/-- `LoadPicts` of the C19 machine on the items of a document with distinct identifiers and cells -/
theorem loadPicts_keyStruct (f : Pict → DocItem) : ∀ (ps loaded : List Pict), (∀ p ∈ ps, Matches (f p) p) →
    (∀ q ∈ loaded ++ ps, q.src.isSome = true) →
    ((loaded ++ ps).map (·.uid)).Nodup → ((loaded ++ ps).map (·.pos)).Nodup →
    CCVerif.Oss.loadPicts (ps.map f) (keyStruct loaded) = some (keyStruct (loaded ++ ps))
  | [], loaded, _, _, _, _ => by simp [CCVerif.Oss.loadPicts]
  | p :: ps, loaded, hm, hs, hu, hc => by
    obtain ⟨e1, e2, e3⟩ := hm p (by simp)
    have happ : loaded ++ p :: ps = (loaded ++ [p]) ++ ps := by simp
    have hu1 : ((loaded ++ [p]).map (·.uid)).Nodup := by
      rw [happ, List.map_append] at hu; exact (List.nodup_append.1 hu).1
    have hc1 : ((loaded ++ [p]).map (·.pos)).Nodup := by
      rw [happ, List.map_append] at hc; exact (List.nodup_append.1 hc).1
    have hs1 : ∀ q ∈ loaded ++ [p], q.src.isSome = true := fun q hq => hs q (by rw [happ]; exact List.mem_append_left _ hq)
    simp only [List.map_cons, CCVerif.Oss.loadPicts]
    rw [e1, e2, e3, loadPict_keyStruct loaded p hs1 hu1 hc1]
    simp only [Option.bind_some]
    rw [happ]
    exact loadPicts_keyStruct f ps (loaded ++ [p]) (fun q hq => hm q (by simp [hq])) (by rw [← happ]; exact hs)
      (by rw [← happ]; exact hu) (by rw [← happ]; exact hc)

theorem foldl_loadParent_eq (edges : List (Pid × Pid)) : ∀ (s : Struct),
    edges.foldl (fun s e => (s.loadParent e.1 e.2).1) s = { s with graph := s.graph.loadParents edges } := by
  induction edges with
  | nil => intro s; rfl
  | cons e edges ih =>
    intro s
    simp only [List.foldl_cons]
    rw [ih]
    rfl

/-- the item of the saved document as the C19 machine reads it (`St.docItem`) for a pictogram the writer reads -/
def docItemOf (st : St) (p : Pict) : DocItem :=
  let hh := st.d.handle p.uid
  ⟨p.uid, p.pos, { hh with src := none }, if st.s.isOperable p.uid then some (st.d.op p.uid) else none⟩

theorem docItems_match (st : St) : ∀ (items : List Pict), (∀ p ∈ items, st.s.grid.posOf p.uid = some p.pos) →
    (items.map (·.uid)).filterMap st.docItem = items.map (docItemOf st)
  | [], _ => rfl
  | p :: items, h1 => by
    have hp := h1 p (by simp)
    have hd : st.docItem p.uid = some (docItemOf st p) := by
      unfold St.docItem; rw [hp]; rfl
    simp only [List.map_cons, List.filterMap_cons, hd]
    rw [docItems_match st items (fun q hq => h1 q (by simp [hq]))]

theorem docItemOf_matches (st : St) (p : Pict) (ho : p.op.isSome = st.s.isOperable p.uid) : Matches (docItemOf st p) p := by
  refine ⟨rfl, rfl, ?_⟩
  rw [ho]
  show (if st.s.isOperable p.uid = true then some (st.d.op p.uid) else none).isSome = _
  cases st.s.isOperable p.uid <;> rfl

/-- **the document loader IS `Op.reload`** on the key tables: for a schema `st` satisfying `StructInv`, the
content `c` the writer reads from it, ANY order `items'` of the pictograms and ANY connection list `es` the step
accepts: the key tables of the loaded content are the structural state after `Op.reload (items'.map uid) es`. -/
theorem reload_toStruct {v : Variant} {o : Oracle} {st st' : St} {b : Bool} {c : Oss} (h : StructInv st.s)
    (r : Represents st.s c) (hop : ∀ p ∈ c.items, ∀ x, p.op = some x → OpWf x)
    (env : Env) (items' : List Pict) (hperm : items'.Perm c.items) (layout : Json) (es : List (Pid × Pid))
    (hs : step v o st (.reload (items'.map (·.uid)) es) = some (st', b)) :
    ∃ c', ossFromJson env (ossDoc c.title c.comment c.domain items' layout es) = .ok c' ∧ c'.items = items' ∧
      c'.rows = loadEdges [] es ∧ toStruct c' = st'.s := by
  obtain ⟨hu0, hc0, hp0⟩ := represents_codec h r hop
  have hu : (items'.map (·.uid)).Nodup := (hperm.map _).nodup_iff.2 hu0
  have hc : (items'.map (·.pos)).Nodup := (hperm.map _).nodup_iff.2 hc0
  have hp : ∀ p ∈ items', PictWf p := fun p hp => hp0 p (hperm.mem_iff.1 hp)
  refine ⟨_, ossFromJson_doc env c.title c.comment c.domain items' layout es hu hc hp, rfl, rfl, ?_⟩
  simp only [step] at hs
  split at hs
  · cases hs
  · split at hs
    · cases hs
    · simp only [Option.map_eq_some_iff] at hs
      obtain ⟨st2, hl, he⟩ := hs
      injection he with he; subst he
      simp only [CCVerif.Oss.loadDoc, Option.map_eq_some_iff] at hl
      obtain ⟨sA, hA, he⟩ := hl
      subst he
      rw [docItems_match { s := st.s, d := List.foldl (fun d p => CCVerif.Oss.updateSync st.s o (CCVerif.Oss.fuelOf d) d p) st.d st.s.storage }
        items' (fun p hp => r.cell p (hperm.mem_iff.1 hp))] at hA
      have hk := loadPicts_keyStruct
        (docItemOf { s := st.s, d := List.foldl (fun d p => CCVerif.Oss.updateSync st.s o (CCVerif.Oss.fuelOf d) d p) st.d st.s.storage })
        items' [] (fun p hp => docItemOf_matches _ p (r.op p (hperm.mem_iff.1 hp)))
        (by simpa using fun q hq => (hp q hq).1) (by simpa using hu) (by simpa using hc)
      rw [keyStruct_nil] at hk
      rw [hk] at hA
      injection hA with hA
      subst hA
      show toStruct _ = es.foldl (fun s e => (s.loadParent e.1 e.2).1) (keyStruct ([] ++ items'))
      rw [foldl_loadParent_eq, List.nil_append]
      obtain ⟨hproj, _⟩ := toGraph_loadEdges_nil es
      show _ = ({ keyStruct items' with graph := ({} : Graph).loadParents es } : Struct)
      rw [← hproj]
      rfl

end CCVerif.JsonOss
