import CCVerif.Lemmas.EvalCallsPat
import CCVerif.Lemmas.EvalBlocksPatExamples
/-! Non-vacuity witness of stage 12 (calls under a binder with a tuple pattern), shared by `Properties/C01.lean` and
`Properties/C02.lean`.  Over `X1 = {1,2}`, `F1 :== [s∈ℬ(X1)] D{y∈X1 | y∈s}` (`Lemmas/EvalExamples7.lean`):

* `c12  = ∀(a,b)∈X1×X1 F1[{a}]={a}`                                   - a call in the scope of a pattern;
* `c12b = ∀(a,b)∈X1×X1 D{__var1∈X1 | __var1∈{a}}={a}`                 - the β-reduct (`Beta2`, offset 2);
* `c12n = ∀@ab∈X1×X1 D{__var1∈X1 | __var1∈{pr1(@ab)}}={pr1(@ab)}`     - patterns eliminated (`PE2`); the normal form. -/
namespace CCVerif.Eval
open CCVerif.Syntax CCVerif.Spec CCVerif.Norm
open Ty

namespace Examples12
open Examples Examples7 Examples10

def enumA : Ast := nd .NT_ENUMERATION [loc "a"]
def enumPA : Ast := nd .NT_ENUMERATION [pr1 1 w]
def c12 : Ast := nd .FORALL [patAB, sq, nd .EQUAL [nd .NT_FUNC_CALL [fnode "F1", enumA], enumA]]
def c12b : Ast :=
  nd .FORALL [patAB, sq, nd .EQUAL [nd .NT_DECLARATIVE_EXPR [loc "__var1", glob "X1", nd .IN [loc "__var1", enumA]], enumA]]
def c12n : Ast :=
  nd .FORALL [w, sq, nd .EQUAL [nd .NT_DECLARATIVE_EXPR [loc "__var1", glob "X1", nd .IN [loc "__var1", enumPA]], enumPA]]

theorem c12_normalizes : normalizeTree env7.funcs 10 c12 = some c12n := by rfl

/-! ### the form over plain variables lies in the typed fragment -/

theorem enumPA_frag (Γ : TCtx) (h : lookup "@ab" Γ = some XX) : Frag env7 G7 6 Γ enumPA (.ty (.coll X)) :=
  Frag.enum _ _ _ _ (by simp) (by
    intro k hk
    simp only [List.mem_cons, List.not_mem_nil, or_false] at hk
    subst hk; exact prw_frag _ X 1 h (Or.inl rfl))

theorem c12n_frag : Frag env7 G7 6 [] c12n .logic := by
  refine .quant (τ := XX) _ _ _ "@ab" 0 0 (by decide) (Or.inl rfl) rfl rfl (by simp) (sq_frag _) ?_
  refine .eq (τ := .coll X) _ _ _ (Or.inl rfl) ?_ (enumPA_frag _ rfl)
  refine .decl (τ := X) _ _ _ "__var1" 0 0 (by decide) rfl rfl (by simp) (x1_frag7 _) ?_
  exact Frag.mem (τ := X) _ _ _ (Or.inl rfl) (by decide) (.loc _ "__var1" 0 0 (by decide) rfl rfl) (enumPA_frag _ rfl)

/-! ### the β-reduction through the pattern -/

def Δb : BCtx := [("b", .ren "b"), ("a", .ren "a")]

theorem patAB_ren : PRen [] patAB patAB Δb :=
  .tup .none .none 0 0 0 0 (.var "a" "a" 0 0 0 0 [] [] (by decide) (.var "b" "b" 0 0 0 0 [] [] (by decide) .nil)) .nil

theorem enumA_beta2 (Δ : BCtx) (h : lookup "a" Δ = some (.ren "a")) : Beta2 env7.funcs 0 Δ enumA enumA :=
  .nary _ _ _ _ _ [loc "a"] [loc "a"] (Or.inl rfl) rfl (by
    intro q hq
    simp only [List.zip_cons_cons, List.zip_nil_right, List.mem_cons, List.not_mem_nil, or_false] at hq
    subst hq; exact .loc "a" "a" 0 0 0 0 h)

theorem sq_beta2 (Δ : BCtx) : Beta2 env7.funcs 0 Δ sq sq := by
  refine .nary _ 0 0 0 0 _ _ (Or.inr (Or.inr rfl)) rfl ?_
  intro q hq
  simp only [List.zip_cons_cons, List.zip_nil_right, List.mem_cons, List.not_mem_nil, or_false] at hq
  rcases hq with rfl | rfl <;> exact .glob "X1" 0 0 0 0

/-- the body of `F1` in the scope of its parameter `s ↦ {a}` -/
theorem body12_beta :
    Beta2 env7.funcs 1 [("s", .par enumA ["b", "a"] 0)] (nd .NT_DECLARATIVE_EXPR [loc "y", glob "X1", nd .IN [loc "y", loc "s"]])
      (nd .NT_DECLARATIVE_EXPR [loc "__var1", glob "X1", nd .IN [loc "__var1", enumA]]) := by
  refine .declP (Δ' := [("y", .ren "__var1"), ("s", .par enumA ["b", "a"] 0)]) _ 0 0 0 0
    (.var "y" "__var1" 0 0 0 0 [] [] (by decide) .nil) (.mono (by decide) (.glob "X1" 0 0 0 0)) ?_
  refine .mem _ 0 0 0 0 (Or.inl rfl) (by decide) (by decide) (.mono (by decide) (.loc "y" "__var1" 0 0 0 0 rfl)) ?_
  exact .par "s" enumA ["b", "a"] 0 0 0 rfl

theorem c12_beta : Beta2 env7.funcs 2 [] c12 c12b := by
  refine .quantP (Δ' := Δb) _ 0 0 0 0 (Or.inl rfl) patAB_ren (.mono (by decide) (sq_beta2 _)) ?_
  refine .bin _ 0 0 0 0 (Or.inr (Or.inr (Or.inl (Or.inl rfl)))) ?_ (.mono (by decide) (enumA_beta2 _ rfl))
  refine .call (Ka := 0) (Kb := 1) _ 0 0 .ID_FUNCTION "F1" 0 0 [] .PUNC_DEFINE .none 0 0 .none 0 0 .NT_ARGUMENTS .none 0 0
    [nd .NT_ARG_DECL [loc "s", nd .BOOLEAN [glob "X1"]]] [enumA] [enumA] rfl rfl rfl ?_ body12_beta
  intro q hq
  simp only [List.zip_cons_cons, List.zip_nil_right, List.mem_cons, List.not_mem_nil, or_false] at hq
  subst hq; exact enumA_beta2 _ rfl

/-! ### the pattern elimination of the β-reduct -/

theorem enumA_pe (Γ : TCtx) (Δ : NCtx) (h : lookup "a" Δ = some ("@ab", [1])) : PE2 S7 Γ Δ enumA enumPA :=
  .nary _ 0 0 0 0 [loc "a"] [pr1 1 w] (Or.inl rfl) rfl (by
    intro q hq
    simp only [List.zip_cons_cons, List.zip_nil_right, List.mem_cons, List.not_mem_nil, or_false] at hq
    subst hq; exact PE2.loc "a" "@ab" [1] 0 0 0 0 h)

theorem c12_pe : PE2 S7 [] [] c12b c12n := by
  refine PE2.quantD (S := S7) (Γ := []) (Δ := []) (t := .FORALL) (τ := XX) .none 0 0 0 0 ("@ab", 0, 0) (Or.inl rfl)
    (declOK10 XX (by decide)) (sq_dt _).domTy (sq_pe _ _).toPE2 ?_
  simp only [delta10]
  refine .bin _ 0 0 0 0 (Or.inr (Or.inr (Or.inl (Or.inl rfl)))) ?_ (enumA_pe _ _ rfl)
  refine PE2.declD (τ := X) .none 0 0 0 0 ("__var1", 0, 0) ⟨by decide, by decide, ?_⟩ (Examples9.x1_dt _).domTy (.glob "X1" 0 0 0 0) ?_
  · intro x r hl _
    by_cases e1 : x = "a"
    · subst e1; simp [Δ10, lookup] at hl; subst hl; decide
    · by_cases e2 : x = "b"
      · subst e2; simp [Δ10, lookup] at hl; subst hl; decide
      · simp [Δ10, lookup, e1, e2] at hl
  · exact .mem _ 0 0 0 0 (Or.inl rfl) (by decide) (by decide) (PE2.loc "__var1" "__var1" [] 0 0 0 0 rfl) (enumA_pe _ _ rfl)

theorem c12_value : (evaluate 20 env7 c12).1 = .okBool true ∧ denote (senvOf env7) 22 .nil c12 = some (.bool true) := by
  decide

end Examples12

end CCVerif.Eval
