import CCVerif.Model.Core
import Std.Data.String.ToNat
/-!
Helper lemmas for C09 (identity / ordering bookkeeping): generic list facts, the name generator,
`insertPosition` / `insertAt`, `canMoveBefore` / `splice`, `resetAliasesGo`.
-/
namespace CCVerif.Core

/-! ## generic list facts -/

theorem nodup_map_of_injOn {α β} {f : α → β} {l : List α} (hl : l.Nodup)
    (hf : ∀ x ∈ l, ∀ y ∈ l, f x = f y → x = y) : (l.map f).Nodup := by
  rw [List.Nodup, List.pairwise_map]
  exact List.Pairwise.imp_of_mem (fun ha hb hne h => hne (hf _ ha _ hb h)) hl

theorem injOn_of_nodup_map {α β} {f : α → β} {l : List α} (h : (l.map f).Nodup) :
    ∀ x ∈ l, ∀ y ∈ l, f x = f y → x = y := by
  induction l with
  | nil => intro x hx; cases hx
  | cons a l ih =>
    rw [List.map_cons, List.nodup_cons] at h
    intro x hx y hy hxy
    rw [List.mem_cons] at hx hy
    rcases hx with rfl | hx <;> rcases hy with rfl | hy
    · rfl
    · exact absurd (hxy ▸ List.mem_map_of_mem hy) h.1
    · exact absurd (hxy ▸ List.mem_map_of_mem hx) h.1
    · exact ih h.2 x hx y hy hxy

theorem nodup_of_nodup_map {α β} {f : α → β} {l : List α} (h : (l.map f).Nodup) : l.Nodup := by
  induction l with
  | nil => exact List.nodup_nil
  | cons a l ih =>
    rw [List.map_cons, List.nodup_cons] at h
    rw [List.nodup_cons]
    exact ⟨fun ha => h.1 (List.mem_map_of_mem ha), ih h.2⟩

/-- the last element of the increasing list `(range n).filter q` is the largest index satisfying `q` -/
theorem getLast_filter_range_some {q : Nat → Bool} {n i : Nat}
    (h : ((List.range n).filter q).getLast? = some i) :
    i < n ∧ q i = true ∧ ∀ j, j < n → q j = true → j ≤ i := by
  have hmem := List.mem_of_getLast? h
  rw [List.mem_filter, List.mem_range] at hmem
  refine ⟨hmem.1, hmem.2, ?_⟩
  intro j hj hq
  rw [List.getLast?_eq_some_iff] at h
  obtain ⟨ys, hys⟩ := h
  have hpw : ((List.range n).filter q).Pairwise (· < ·) :=
    List.Pairwise.sublist List.filter_sublist List.pairwise_lt_range
  have hjm : j ∈ (List.range n).filter q := by
    rw [List.mem_filter, List.mem_range]; exact ⟨hj, hq⟩
  rw [hys] at hpw hjm
  rw [List.pairwise_append] at hpw
  rw [List.mem_append] at hjm
  rcases hjm with hjm | hjm
  · exact Nat.le_of_lt (hpw.2.2 j hjm i (List.mem_singleton_self i))
  · rw [List.mem_singleton] at hjm; omega

theorem getLast_filter_range_none {q : Nat → Bool} {n : Nat}
    (h : ((List.range n).filter q).getLast? = none) : ∀ j, j < n → q j = false := by
  rw [List.getLast?_eq_none_iff, List.filter_eq_nil_iff] at h
  intro j hj
  have := h j (List.mem_range.2 hj)
  simpa using this

/-! ## the name generator -/

theorem nameFrom_toList (t : CstType) (i : Nat) :
    (nameFrom t i).toList = t.letter :: Nat.toDigits 10 i := by
  show (String.singleton t.letter ++ Nat.repr i).toList = _
  simp [String.toList_append, Nat.toList_repr]

theorem nameFrom_front (t : CstType) (i : Nat) : (nameFrom t i).front = t.letter := by
  rw [String.front_eq, String.front?_eq, nameFrom_toList]; rfl

theorem find_letter (t : CstType) : CstType.all.find? (·.letter == t.letter) = some t := by
  cases t <;> rfl

theorem any_letter (t : CstType) : CstType.all.any (·.letter == t.letter) = true := by
  cases t <;> rfl

theorem isNameCorrect_nameFrom (t : CstType) (i : Nat) : isNameCorrect (nameFrom t i) = true := by
  unfold isNameCorrect
  rw [nameFrom_toList]
  cases h : Nat.toDigits 10 i with
  | nil => exact absurd h Nat.toDigits_ne_nil
  | cons d rest =>
    simp only [any_letter, Bool.true_and, List.all_eq_true]
    intro c hc
    rw [← h] at hc
    exact Nat.isDigit_of_mem_toDigits (by omega) (by omega) hc

theorem typeForName_nameFrom (t : CstType) (i : Nat) : typeForName (nameFrom t i) = some t := by
  unfold typeForName
  rw [isNameCorrect_nameFrom, nameFrom_front]
  exact find_letter t

theorem nameFrom_inj (t : CstType) {i j : Nat} (h : nameFrom t i = nameFrom t j) : i = j := by
  have h1 : (nameFrom t i).toList = (nameFrom t j).toList := by rw [h]
  rw [nameFrom_toList, nameFrom_toList] at h1
  have h2 : Nat.toDigits 10 i = Nat.toDigits 10 j := by simpa using h1
  apply Nat.repr_injective
  apply String.toList_injective
  rw [Nat.toList_repr, Nat.toList_repr, h2]

theorem newNameGo_spec (names : List String) (t : CstType) (fuel i : Nat) :
    ∃ j, newNameGo names t fuel i = nameFrom t j ∧
      (nameFrom t j ∉ names ∨ ∀ k, i ≤ k → k < i + fuel → nameFrom t k ∈ names) := by
  induction fuel generalizing i with
  | zero => exact ⟨i, rfl, Or.inr (fun k h1 h2 => by omega)⟩
  | succ fuel ih =>
    unfold newNameGo
    split
    · rename_i hc
      obtain ⟨j, hj, hj'⟩ := ih (i + 1)
      refine ⟨j, hj, ?_⟩
      rcases hj' with hj' | hj'
      · exact Or.inl hj'
      · refine Or.inr (fun k h1 h2 => ?_)
        by_cases hk : k = i
        · subst hk; simpa using hc
        · exact hj' k (by omega) (by omega)
    · rename_i hc
      exact ⟨i, rfl, Or.inl (by simpa using hc)⟩

theorem newNameFor_spec (names : List String) (t : CstType) :
    newNameFor names t ∉ names ∧ typeForName (newNameFor names t) = some t := by
  obtain ⟨j, hj, hj'⟩ := newNameGo_spec names t (names.length + 1) 1
  unfold newNameFor
  rw [hj]
  refine ⟨?_, typeForName_nameFrom t j⟩
  rcases hj' with hj' | hj'
  · exact hj'
  · exfalso
    -- pigeonhole: |names| + 1 pairwise distinct names inside `names`
    let l := (List.range (names.length + 1)).map (fun k => nameFrom t (k + 1))
    have hnd : l.Nodup :=
      nodup_map_of_injOn List.nodup_range (fun x _ y _ h => by have := nameFrom_inj t h; omega)
    have hsub : l ⊆ names := by
      intro a ha
      obtain ⟨k, hk, rfl⟩ := List.mem_map.1 ha
      rw [List.mem_range] at hk
      exact hj' (k + 1) (by omega) (by omega)
    have := hnd.length_le_of_subset hsub
    simp [l] at this
    omega

theorem needNameChange_false {names : List String} {name : String} {t : CstType}
    (h : needNameChange names name t = false) : name ∉ names ∧ typeForName name = some t := by
  unfold needNameChange at h
  rw [Bool.or_eq_false_iff] at h
  refine ⟨by simpa using h.1, ?_⟩
  have h2 := h.2
  split at h2
  · cases h2
  · rename_i nt hnt
    rw [hnt]; simpa using h2

/-- `registerID`: the uid handed out is new, the alias is new and has the requested kind -/
theorem registerID_spec {ids : List Nat} {names : List String} {uid : Nat} {name : String}
    {t : CstType} {fresh : Nat} {ids' names' u a}
    (h : registerID ids names uid name t fresh = some (ids', names', u, a)) :
    ids' = u :: ids ∧ names' = a :: names ∧ u ∉ ids ∧ a ∉ names ∧ typeForName a = some t := by
  have ha : ∀ alias, alias = (if needNameChange names name t then newNameFor names t else name) →
      alias ∉ names ∧ typeForName alias = some t := by
    intro alias hal
    by_cases hn : needNameChange names name t = true
    · rw [if_pos hn] at hal; subst hal; exact newNameFor_spec names t
    · rw [if_neg hn] at hal; subst hal; exact needNameChange_false (by simpa using hn)
  unfold registerID at h
  simp only [] at h
  split at h
  · split at h
    · cases h
    · rename_i h1 h2
      simp only [Option.some.injEq, Prod.mk.injEq] at h
      obtain ⟨rfl, rfl, rfl, rfl⟩ := h
      exact ⟨rfl, rfl, by simpa using h2, ha _ rfl⟩
  · rename_i h1
    simp only [Option.some.injEq, Prod.mk.injEq] at h
    obtain ⟨rfl, rfl, rfl, rfl⟩ := h
    exact ⟨rfl, rfl, by simpa using h1, ha _ rfl⟩

/-! ## kind-sorted lists, `insertAt`, `insertPosition` -/

/-- `l` is ordered by non-increasing `p` -/
def Sorted (p : Nat → Nat) (l : List Nat) : Prop := (l.map p).Pairwise (· ≥ ·)

theorem Sorted.congr {p q : Nat → Nat} {l : List Nat} (h : ∀ u ∈ l, p u = q u) (hs : Sorted p l) :
    Sorted q l := by
  unfold Sorted at *; rwa [← List.map_congr_left h]

theorem Sorted.sublist {p : Nat → Nat} {l l' : List Nat} (h : l'.Sublist l) (hs : Sorted p l) :
    Sorted p l' :=
  List.Pairwise.sublist (h.map p) hs

theorem sorted_iff_getElem {p : Nat → Nat} {l : List Nat} : Sorted p l ↔
    ∀ (i j : Nat) (hi : i < l.length) (hj : j < l.length), i < j → p l[i] ≥ p l[j] := by
  unfold Sorted
  rw [List.pairwise_map, List.pairwise_iff_getElem]

theorem getD_eq_getElem' {α} (l : List α) (d : α) {i : Nat} (h : i < l.length) : l.getD i d = l[i] :=
  (List.getElem_eq_getD d).symm

theorem sorted_take_ge {p : Nat → Nat} {l : List Nat} (hs : Sorted p l) {k m : Nat} (hm : m < l.length)
    (hk : k ≤ m + 1) {a : Nat} (ha : a ∈ l.take k) : p a ≥ p (l.getD m 0) := by
  rw [List.mem_take_iff_getElem] at ha
  obtain ⟨j, hj, rfl⟩ := ha
  rw [getD_eq_getElem' _ _ hm]
  by_cases hjm : j = m
  · subst hjm; exact Nat.le_refl _
  · exact sorted_iff_getElem.1 hs j m (by omega) hm (by omega)

theorem sorted_drop_le {p : Nat → Nat} {l : List Nat} (hs : Sorted p l) {k m : Nat} (hm : m < l.length)
    (hk : m ≤ k) {b : Nat} (hb : b ∈ l.drop k) : p (l.getD m 0) ≥ p b := by
  rw [List.mem_drop_iff_getElem] at hb
  obtain ⟨j, hj, rfl⟩ := hb
  rw [getD_eq_getElem' _ _ hm]
  by_cases hjm : k + j = m
  · simp only [hjm]; exact Nat.le_refl _
  · exact sorted_iff_getElem.1 hs m (k + j) hm (by omega) (by omega)

theorem insertAt_perm (l : List Nat) (k x : Nat) : (insertAt l k x).Perm (x :: l) := by
  unfold insertAt
  have := @List.perm_middle _ x (l.take k) (l.drop k)
  rwa [List.take_append_drop] at this

theorem mem_insertAt {l : List Nat} {k x a : Nat} : a ∈ insertAt l k x ↔ a = x ∨ a ∈ l := by
  rw [(insertAt_perm l k x).mem_iff, List.mem_cons]

theorem nodup_insertAt {l : List Nat} {k x : Nat} (hx : x ∉ l) (hl : l.Nodup) :
    (insertAt l k x).Nodup := by
  rw [(insertAt_perm l k x).nodup_iff, List.nodup_cons]; exact ⟨hx, hl⟩

theorem sorted_insertAt {p : Nat → Nat} {l : List Nat} {k x : Nat} (hs : Sorted p l)
    (h1 : ∀ a ∈ l.take k, p a ≥ p x) (h2 : ∀ b ∈ l.drop k, p x ≥ p b) :
    Sorted p (insertAt l k x) := by
  unfold Sorted insertAt at *
  rw [List.pairwise_map] at *
  rw [List.pairwise_append]
  refine ⟨?_, ?_, ?_⟩
  · exact hs.sublist (List.take_sublist _ _)
  · rw [List.pairwise_cons]; exact ⟨h2, hs.sublist (List.drop_sublist _ _)⟩
  · intro a ha b hb
    rw [List.mem_cons] at hb
    rcases hb with rfl | hb
    · exact h1 a ha
    · have := hs
      rw [← List.take_append_drop k l, List.pairwise_append] at this
      exact this.2.2 a ha b hb

/-- the kind of `u` according to a store -/
def typeIn (store : List Cst) (u : Nat) : CstType := ((store.find? (·.uid == u)).map (·.type)).getD .base
def prioIn (store : List Cst) (u : Nat) : Nat := (typeIn store u).priority

theorem typeOf_eq (st : St) (u : Nat) : st.typeOf u = typeIn st.store u := rfl


theorem code_le_iff {s t : CstType} (ht : t.isBasic = true) : s.code ≤ t.code ↔ s.priority ≥ t.priority := by
  cases t <;> simp [CstType.isBasic] at ht <;> cases s <;> simp [CstType.code, CstType.priority]

theorem priority_nonbasic {t : CstType} (ht : ¬ t.isBasic = true) : t.priority = 1 := by
  cases t <;> simp [CstType.isBasic] at ht <;> rfl

theorem priority_pos (t : CstType) : t.priority ≥ 1 := by cases t <;> simp [CstType.priority]

theorem insertPosition_spec (st : St) (order : List Nat) (t : CstType)
    (hs : Sorted (prioIn st.store) order) :
    (∀ a ∈ order.take (insertPosition st order t), prioIn st.store a ≥ t.priority) ∧
    (∀ b ∈ order.drop (insertPosition st order t), t.priority ≥ prioIn st.store b) := by
  unfold insertPosition
  split
  · rename_i ht
    have hq : ∀ j, j < order.length →
        (decide ((st.typeOf (order.getD j 0)).code ≤ t.code) = true ↔ prioIn st.store (order.getD j 0) ≥ t.priority) := by
      intro j hj
      rw [decide_eq_true_iff, code_le_iff ht]; rfl
    simp only []
    split
    · rename_i i hi
      obtain ⟨hin, hqi, hmax⟩ := getLast_filter_range_some hi
      rw [hq i hin] at hqi
      constructor
      · intro a ha
        exact Nat.le_trans hqi (sorted_take_ge hs hin (Nat.le_refl _) ha)
      · intro b hb
        rw [List.mem_drop_iff_getElem] at hb
        obtain ⟨j, hj, rfl⟩ := hb
        have hlt : i + 1 + j < order.length := by omega
        have := hmax (i + 1 + j) hlt
        rw [hq _ hlt, getD_eq_getElem' _ _ hlt] at this
        apply Nat.le_of_lt
        apply Nat.lt_of_not_le
        intro hge
        have := this hge
        omega
    · rename_i hnone
      have hall := getLast_filter_range_none hnone
      have hall' : ∀ b ∈ order, t.priority ≥ prioIn st.store b := by
        intro b hb
        obtain ⟨j, hj, rfl⟩ := List.mem_iff_getElem.1 hb
        have h1 := hall j hj
        have h2 := hq j hj
        rw [h1, getD_eq_getElem' _ _ hj] at h2
        apply Nat.le_of_lt
        apply Nat.lt_of_not_le
        intro hge
        exact absurd (h2.2 hge) (by simp)
      split
      · rename_i first rest
        split
        · simp only [List.take_zero, List.drop_zero]
          exact ⟨fun a ha => (by cases ha), hall'⟩
        · rename_i hgt
          exfalso
          have h1 := hall 0 (by simp)
          simp at h1
          exact hgt h1
      · simp
  · rename_i ht
    rw [List.take_length, List.drop_length]
    refine ⟨fun a _ => ?_, fun b hb => by cases hb⟩
    rw [priority_nonbasic ht]
    exact priority_pos _

/-! ## `splice` and `canMoveBefore` -/

theorem mem_take_eraseIdx_le {a : Nat} : ∀ (l : List Nat) (i k : Nat), i ≤ k →
    a ∈ (l.eraseIdx i).take k → a ∈ l.take (k + 1)
  | [], _, _, _, h => by simp at h
  | x :: l, 0, k, _, h => by
    simp only [List.eraseIdx_cons_zero] at h
    simp only [List.take_succ_cons, List.mem_cons]; exact Or.inr h
  | x :: l, i + 1, 0, hik, _ => by omega
  | x :: l, i + 1, k + 1, hik, h => by
    simp only [List.eraseIdx_cons_succ, List.take_succ_cons, List.mem_cons] at h ⊢
    rcases h with h | h
    · exact Or.inl h
    · exact Or.inr (mem_take_eraseIdx_le l i k (by omega) h)

theorem mem_drop_eraseIdx_le {a : Nat} : ∀ (l : List Nat) (i k : Nat), i ≤ k →
    a ∈ (l.eraseIdx i).drop k → a ∈ l.drop (k + 1)
  | [], _, _, _, h => by simp at h
  | x :: l, 0, k, _, h => by
    simpa using h
  | x :: l, i + 1, 0, hik, _ => by omega
  | x :: l, i + 1, k + 1, hik, h => by
    simp only [List.eraseIdx_cons_succ, List.drop_succ_cons] at h ⊢
    exact mem_drop_eraseIdx_le l i k (by omega) h

theorem mem_take_eraseIdx_ge {a : Nat} : ∀ (l : List Nat) (i k : Nat), k ≤ i →
    a ∈ (l.eraseIdx i).take k → a ∈ l.take k
  | [], _, _, _, h => by simp at h
  | x :: l, _, 0, _, h => by simp at h
  | x :: l, 0, k + 1, hik, _ => by omega
  | x :: l, i + 1, k + 1, hik, h => by
    simp only [List.eraseIdx_cons_succ, List.take_succ_cons, List.mem_cons] at h ⊢
    rcases h with h | h
    · exact Or.inl h
    · exact Or.inr (mem_take_eraseIdx_ge l i k (by omega) h)

theorem mem_drop_eraseIdx_ge {a : Nat} : ∀ (l : List Nat) (i k : Nat), k ≤ i →
    a ∈ (l.eraseIdx i).drop k → a ∈ l.drop k
  | [], _, _, _, h => by simp at h
  | x :: l, i, 0, _, h => by
    simp only [List.drop_zero] at h ⊢
    exact (List.eraseIdx_sublist _ _).subset h
  | x :: l, 0, k + 1, hik, _ => by omega
  | x :: l, i + 1, k + 1, hik, h => by
    simp only [List.eraseIdx_cons_succ, List.drop_succ_cons] at h ⊢
    exact mem_drop_eraseIdx_ge l i k (by omega) h

theorem eraseIdx_perm (l : List Nat) {i : Nat} (h : i < l.length) :
    (l.getD i 0 :: l.eraseIdx i).Perm l := by
  rw [getD_eq_getElem' _ _ h, List.eraseIdx_eq_take_drop_succ]
  have h1 := @List.perm_middle _ l[i] (l.take i) (l.drop (i + 1))
  rw [← List.drop_eq_getElem_cons h, List.take_append_drop] at h1
  exact h1.symm

theorem splice_perm (l : List Nat) {what : Nat} (wh : Nat) (h : what < l.length) :
    (splice l what wh).Perm l := by
  unfold splice
  exact (insertAt_perm _ _ _).trans (eraseIdx_perm l h)

theorem sorted_splice {p : Nat → Nat} {l : List Nat} {what wh : Nat} (hs : Sorted p l)
    (hw : what < l.length) (hwh : wh ≤ l.length)
    (h1 : what < wh → p (l.getD (wh - 1) 0) ≥ p (l.getD what 0))
    (h2 : wh < what → p (l.getD what 0) ≥ p (l.getD wh 0)) :
    Sorted p (splice l what wh) := by
  unfold splice
  simp only []
  apply sorted_insertAt (hs.sublist (List.eraseIdx_sublist _ _))
  · intro a ha
    split at ha
    · rename_i hlt
      have ha' := mem_take_eraseIdx_le l what (wh - 1) (by omega) ha
      exact Nat.le_trans (h1 hlt) (sorted_take_ge hs (by omega) (Nat.le_refl _) ha')
    · rename_i hge
      have ha' := mem_take_eraseIdx_ge l what wh (by omega) ha
      exact sorted_take_ge hs hw (by omega) ha'
  · intro b hb
    split at hb
    · rename_i hlt
      have hb' := mem_drop_eraseIdx_le l what (wh - 1) (by omega) hb
      exact sorted_drop_le hs hw (by omega) hb'
    · rename_i hge
      have hb' := mem_drop_eraseIdx_ge l what wh (by omega) hb
      by_cases heq : wh = what
      · subst heq; exact sorted_drop_le hs hw (Nat.le_refl _) hb'
      · exact Nat.le_trans (sorted_drop_le hs (by omega) (Nat.le_refl _) hb') (h2 (by omega))

theorem hasPriorityOver_false {a b : CstType} (h : (!hasPriorityOver a b) = true) :
    b.priority ≥ a.priority := by
  unfold hasPriorityOver at h
  simp at h; exact h

theorem canMoveBefore_spec {st : St} {l : List Nat} {what wh : Nat}
    (h : canMoveBefore st l 3 what wh = true) (hw : what < l.length) :
    (what < wh → prioIn st.store (l.getD (wh - 1) 0) ≥ prioIn st.store (l.getD what 0)) ∧
    (wh < what → prioIn st.store (l.getD what 0) ≥ prioIn st.store (l.getD wh 0)) := by
  unfold canMoveBefore at h
  simp only [] at h
  split at h
  · omega
  · split at h
    · rename_i hne heq
      subst heq
      refine ⟨fun _ => ?_, fun _ => by omega⟩
      unfold canMoveBefore at h
      simp only [] at h
      split at h
      · rename_i h'; rw [h']; exact Nat.le_refl _
      · split at h
        · exact hasPriorityOver_false h
        · rw [Bool.and_eq_true] at h
          exact hasPriorityOver_false h.1
    · split at h
      · rename_i hz; subst hz
        exact ⟨fun _ => by omega, fun _ => hasPriorityOver_false h⟩
      · rw [Bool.and_eq_true] at h
        exact ⟨fun _ => hasPriorityOver_false h.2, fun _ => hasPriorityOver_false h.1⟩

/-! ## the store: lookup and kinds -/

theorem find_eq_some {st : St} {u : Nat} {c : Cst} (h : st.find u = some c) :
    c ∈ st.store ∧ c.uid = u := by
  unfold St.find at h
  exact ⟨List.mem_of_find?_eq_some h, by simpa using List.find?_some h⟩

theorem find?_uid_of_mem {store : List Cst} (hnd : (store.map (·.uid)).Nodup) {c : Cst}
    (hc : c ∈ store) : store.find? (·.uid == c.uid) = some c := by
  cases h : store.find? (·.uid == c.uid) with
  | none =>
    rw [List.find?_eq_none] at h
    exact absurd (h c hc) (by simp)
  | some d =>
    have hd := List.mem_of_find?_eq_some h
    have hu : d.uid = c.uid := by simpa using List.find?_some h
    rw [injOn_of_nodup_map hnd d hd c hc hu]

theorem find?_uid_isSome {store : List Cst} {u : Nat} :
    (store.find? (·.uid == u)).isSome = true ↔ u ∈ store.map (·.uid) := by
  rw [List.find?_isSome, List.mem_map]
  constructor
  · rintro ⟨c, hc, h⟩; exact ⟨c, hc, by simpa using h⟩
  · rintro ⟨c, hc, h⟩; exact ⟨c, hc, by simpa using h⟩

theorem contains_iff {st : St} {u : Nat} : st.contains u = true ↔ u ∈ st.store.map (·.uid) :=
  find?_uid_isSome

theorem typeIn_of_mem {store : List Cst} (hnd : (store.map (·.uid)).Nodup) {c : Cst}
    (hc : c ∈ store) : typeIn store c.uid = c.type := by
  unfold typeIn; rw [find?_uid_of_mem hnd hc]; rfl

theorem typeIn_cons_self (c : Cst) (s : List Cst) : typeIn (c :: s) c.uid = c.type := by
  simp [typeIn]

theorem typeIn_cons_ne {c : Cst} {s : List Cst} {u : Nat} (h : u ≠ c.uid) :
    typeIn (c :: s) u = typeIn s u := by
  unfold typeIn
  rw [List.find?_cons_of_neg]
  simpa using fun h' => h h'.symm

theorem find?_congr' {α} {p q : α → Bool} : ∀ {l : List α}, (∀ x ∈ l, p x = q x) → l.find? p = l.find? q
  | [], _ => rfl
  | x :: l, h => by
    have hx := h x (List.mem_cons_self ..)
    have ih := find?_congr' (l := l) (fun y hy => h y (List.mem_cons_of_mem _ hy))
    simp only [List.find?_cons, hx, ih]

theorem typeIn_filter_ne {s : List Cst} {u v : Nat} (h : u ≠ v) :
    typeIn (s.filter (·.uid != v)) u = typeIn s u := by
  unfold typeIn
  rw [List.find?_filter]
  congr 2
  apply find?_congr'
  intro x _
  by_cases hx : x.uid = u
  · simp [hx, h]
  · simp [hx]

theorem typeIn_map_congr {g : Cst → Cst} {s : List Cst} (u : Nat)
    (h : ∀ x ∈ s, (g x).uid = x.uid ∧ (g x).type = x.type) :
    typeIn (s.map g) u = typeIn s u := by
  unfold typeIn
  induction s with
  | nil => rfl
  | cons x s ih =>
    have hx := h x (List.mem_cons_self ..)
    have ih' := ih (fun y hy => h y (List.mem_cons_of_mem _ hy))
    rw [List.map_cons]
    by_cases hxu : x.uid = u
    · rw [List.find?_cons_of_pos (by simp [hx.1, hxu]), List.find?_cons_of_pos (by simp [hxu])]
      simp [hx.2]
    · rw [List.find?_cons_of_neg (by simp [hx.1, hxu]), List.find?_cons_of_neg (by simp [hxu])]
      exact ih'

/-! ## `resetAliasesGo` -/

theorem resetAliasesGo_spec (st : St) : ∀ (rest : List Nat) (names : List String) (acc : List Cst),
    ∃ new : List Cst,
      (resetAliasesGo st rest names acc).2 = acc.reverse ++ new ∧
      new.map (·.uid) = rest ∧
      (∀ c ∈ new, c.type = st.typeOf c.uid ∧ typeForName c.alias = some c.type ∧ c.alias ∉ names) ∧
      (new.map (·.alias)).Nodup ∧
      (∀ a, a ∈ (resetAliasesGo st rest names acc).1 ↔ a ∈ names ∨ a ∈ new.map (·.alias))
  | [], names, acc => ⟨[], by simp [resetAliasesGo]⟩
  | u :: rest, names, acc => by
    obtain ⟨new, h1, h2, h3, h4, h5⟩ := resetAliasesGo_spec st rest
      (newNameFor names (st.typeOf u) :: names)
      ({ uid := u, alias := newNameFor names (st.typeOf u), type := st.typeOf u } :: acc)
    have hn := newNameFor_spec names (st.typeOf u)
    refine ⟨{ uid := u, alias := newNameFor names (st.typeOf u), type := st.typeOf u } :: new,
      ?_, ?_, ?_, ?_, ?_⟩
    · unfold resetAliasesGo; simp only []; rw [h1]; simp
    · simp [h2]
    · intro c hc
      rw [List.mem_cons] at hc
      rcases hc with rfl | hc
      · exact ⟨rfl, hn.2, hn.1⟩
      · obtain ⟨a, b, c'⟩ := h3 c hc
        exact ⟨a, b, fun hm => c' (List.mem_cons_of_mem _ hm)⟩
    · rw [List.map_cons, List.nodup_cons]
      refine ⟨?_, h4⟩
      intro hm
      obtain ⟨c, hc, hca⟩ := List.mem_map.1 hm
      exact (h3 c hc).2.2 (by rw [hca]; exact List.mem_cons_self ..)
    · intro a
      unfold resetAliasesGo; simp only []
      rw [h5 a]
      simp only [List.mem_cons, List.map_cons]
      constructor
      · rintro ((h | h) | h)
        · exact Or.inr (Or.inl h)
        · exact Or.inl h
        · exact Or.inr (Or.inr h)
      · rintro (h | h | h)
        · exact Or.inl (Or.inr h)
        · exact Or.inl (Or.inl h)
        · exact Or.inr h

end CCVerif.Core
