import CCVerif.Lemmas.EvalFuelCollect
import CCVerif.Lemmas.EvalFuelNoOOF
import CCVerif.Lemmas.EvalCallsTop
/-!
Fuel of the evaluator model, part 4: `Interpreter::Evaluate` (`evaluate` = normalise, collect names, evaluate).

`fuelBound f0 n = max f0 (evDepth n)`: `f0` = a fuel at which the normaliser answers (`normalizeTree fs f0 e = some n`,
a closed computation for a concrete expression; the normaliser is monotone in its fuel, `normalize_le`), `evDepth n` =
depth of the normalised tree, which covers the name collector and the interpreter.
-/
namespace CCVerif.Eval
open CCVerif.Syntax CCVerif.Norm

def fuelBound (f0 : Nat) (n : Ast) : Nat := max f0 (evDepth n)

theorem normalizeTree_le {fs : Funcs} {f0 f : Nat} {e n : Ast} (h : normalizeTree fs f0 e = some n) (hf : f0 ≤ f) :
    normalizeTree fs f e = some n := by
  unfold normalizeTree at h ⊢
  cases h0 : normalize fs f0 e { userLocals := collectLocals e } with
  | none => rw [h0] at h; cases h
  | some x => rw [h0] at h; rw [normalize_le fs hf _ _ _ h0]; exact h

/-- the two passes after the normaliser: from the depth of the tree on, the fuel does not matter -/
theorem evalNorm_fuel_stable (env : Env) (nt : Ast) (f f' : Nat) (h : evDepth nt ≤ f) (h' : evDepth nt ≤ f') :
    evalNorm f env nt = evalNorm f' env nt := by
  unfold evalNorm
  rw [collect_fuel_stable env f f' nt {} h h']
  cases collect env f' nt {} with
  | fail fl => cases fl <;> rfl
  | ok vs al nc => dsimp only; rw [ev_fuel_stable _ f f' nt none _ h h']

/-- **evaluate_fuel_stable**: once the normaliser has answered (`f0`), the outcome of `Interpreter::Evaluate` (value and
iteration count) is the same for every fuel from `fuelBound f0 n` on - every expression, every environment -/
theorem evaluate_fuel_stable' {env : Env} {e n : Ast} {f0 : Nat} (hn : normalizeTree env.funcs f0 e = some n)
    (f f' : Nat) (hf : fuelBound f0 n ≤ f) (hf' : fuelBound f0 n ≤ f') : evaluate f env e = evaluate f' env e := by
  unfold fuelBound at hf hf'
  unfold evaluate
  rw [normalizeTree_le hn (by omega), normalizeTree_le hn (by omega)]
  exact evalNorm_fuel_stable env n f f' (by omega) (by omega)

/-- **evaluate_fuel_sufficient**: if moreover the normalised tree has no eager `ℬ`, no `×`, no `R{}` / `I{}`, no filter,
the outcome is not `outOfFuel` -/
theorem evaluate_fuel_sufficient' {env : Env} {e n : Ast} {f0 : Nat} (hn : normalizeTree env.funcs f0 e = some n)
    (he : eagerFree n = true) (f : Nat) (hf : fuelBound f0 n ≤ f) : (evaluate f env e).1 ≠ .outOfFuel := by
  unfold fuelBound at hf
  unfold evaluate
  rw [normalizeTree_le hn (by omega)]
  dsimp only
  unfold evalNorm
  have hc := collect_fuel_sufficient env f n {} (by omega)
  cases hcr : collect env f n {} with
  | fail fl =>
    rw [hcr] at hc
    cases fl with
    | outOfFuel => exact absurd rfl hc
    | err e p => intro h; cases h
    | quiet => intro h; cases h
    | stuck s => intro h; cases h
  | ok vs al nc =>
    dsimp only
    have hev := ev_fuel_sufficient { ids := nc.ids } f n none { data := nc.data, iters := 0 } he (by omega)
    cases hr : ev { ids := nc.ids } f n none { data := nc.data, iters := 0 } with
    | ok v st => cases v <;> (intro h; cases h)
    | fail fl k =>
      rw [hr] at hev
      cases fl with
      | outOfFuel => exact absurd rfl (hev k)
      | err e p => intro h; cases h
      | quiet => intro h; cases h
      | stuck s => intro h; cases h

end CCVerif.Eval
