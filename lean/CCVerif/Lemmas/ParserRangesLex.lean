import CCVerif.Lemmas.ParserRangesTop
import CCVerif.Lemmas.Analysis
import CCVerif.Lemmas.CheckerErr
import CCVerif.Lemmas.TokBEq
set_option linter.unusedVariables false
/-!
Helper lemmas of C06, part 3 — what the lexers give the parser, and what `Nest` gives the readers.

* every token of a lexed text other than END and INTERRUPT has a non-empty range (`lo < hi`): its first
  unit is counted by `columns()` — in MATH the only uncounted unit is `\r`, and no rule of
  `MathLexerImpl.l` other than the catch-all matches a text that starts with `\r` (table fact, re-proved
  by `decide` against the regenerated rule table);
* hence the tokens the parser sees are `Sorted 1 0`, and every parsed tree is `Nest 1`;
* `Nest δ t` (δ ≥ 0) implies `AstQuery.rangesNested t`, `Nest δ t` (δ ≥ 1) implies `Checker.WfRange t`.
-/
namespace CCVerif.ParserRanges
open CCVerif.Syntax CCVerif.Generated CCVerif.Lexer CCVerif.Parser CCVerif.Scan CCVerif.Analysis

/-! ## token ranges are not empty -/

/-- a pattern that cannot match a text starting with `\r` (code 13), read off its shape -/
def noCR : LexPat → Bool
  | .lit l => l.head? != some 13
  | .withIndex pre => pre.head? != some 13
  | .withNumber pre => pre.head? != some 13
  | .ws => false
  | .any => false
  | _ => true

theorem math_rules_noCR : ∀ r ∈ properRules .math, noCR r.pat = true := by decide +kernel

theorem matchPat_CR (s : List Nat) (p : LexPat) (h : noCR p = true) : matchPat .math (13 :: s) p = none := by
  cases p with
  | lit l =>
    cases l with
    | nil => simp [matchPat]
    | cons a l =>
      have ha : a ≠ 13 := by simpa [noCR] using h
      simp [matchPat, isPrefix, ha]
  | withIndex pre =>
    cases pre with
    | nil => simp [matchPat, isPrefix, indexLen, spanLen, isDigit]
    | cons a l =>
      have ha : a ≠ 13 := by simpa [noCR] using h
      simp [matchPat, isPrefix, ha]
  | withNumber pre =>
    cases pre with
    | nil => simp [matchPat, isPrefix, spanLen, isDigit]
    | cons a l =>
      have ha : a ≠ 13 := by simpa [noCR] using h
      simp [matchPat, isPrefix, ha]
  | number => simp [matchPat, spanLen, isDigit]
  | globalId => simp [matchPat, isGlobalStart, isUpper]
  | localId => simp [matchPat, isLocalStart, isLower]
  | newline => simp [matchPat]
  | blanks => simp [matchPat, spanLen]
  | ws => simp [noCR] at h
  | any => simp [noCR] at h
  | eof => simp [matchPat]

/-- a matched text whose first unit is counted has a positive width -/
theorem width_pos (syn : Syn) (c : Nat) (m : List Nat) (h : syn = .math → c ≠ 13) : 1 ≤ width syn (c :: m) := by
  cases syn with
  | math =>
    have hc := h rfl
    simp only [width, List.filter_cons]
    have : (c != 13) = true := by simpa using hc
    simp [this]
  | ascii => simp [width]

/-- **every token of a tiling other than END and INTERRUPT has a non-empty range** -/
theorem tiled_strict {syn : Syn} {off : Nat} {s : List Nat} {ts : List RawTok} (h : Tiled syn off s ts) :
    ∀ t ∈ ts, t.id ≠ .END → t.id ≠ .INTERRUPT → t.lo + 1 ≤ t.hi := by
  induction h with
  | eof off => intro t ht hne; simp at ht; subst ht; simp at hne
  | skip off c s ts _ _ ih => exact ih
  | tok off id m s ts hm hid hiff hone hrest ih =>
    intro t ht hne hni
    rcases List.mem_cons.1 ht with rfl | ht
    · cases m with
      | nil => exact absurd rfl hm
      | cons c m =>
        have hw : 1 ≤ width syn (c :: m) := by
          apply width_pos
          rintro rfl rfl
          apply hni
          apply hiff.2
          intro r hr
          exact matchPat_CR _ _ (math_rules_noCR r hr)
        show off + 1 ≤ off + width syn (c :: m)
        omega
    · exact ih t ht hne hni

/-! ## from the lexer's token list to `Sorted` -/

theorem sorted_of_pairwise {δ : Int} : ∀ (ts : Toks) (p : Int), (∀ t ∈ ts, p ≤ t.lo ∧ t.lo + δ ≤ t.hi) →
    ts.Pairwise (fun a b => a.hi ≤ b.lo) → Sorted δ p ts
  | [], _, _, _ => trivial
  | t :: ts, p, h1, h2 => by
    rw [List.pairwise_cons] at h2
    rw [sorted_cons]
    refine ⟨(h1 t (by simp)).1, (h1 t (by simp)).2, sorted_of_pairwise ts t.hi ?_ h2.2⟩
    intro u hu
    exact ⟨h2.1 u hu, (h1 u (by simp [hu])).2⟩

theorem mem_takeWhile_pred {α : Type} (p : α → Bool) : ∀ (l : List α) (x : α), x ∈ l.takeWhile p → p x = true
  | [], x, h => by simp at h
  | a :: l, x, h => by
    simp only [List.takeWhile_cons] at h
    split at h
    · rename_i hp
      rcases List.mem_cons.1 h with rfl | h
      · exact hp
      · exact mem_takeWhile_pred p l x h
    · simp at h

/-- the tokens the parser sees (before END / the first INTERRUPT) are laid out left to right from 0,
every one with a non-empty range -/
theorem lex_body_sorted (syn : Syn) (text : List Nat) (ts : List LTok) (h : lex syn text = some ts) :
    Sorted 1 0 (ts.takeWhile (fun t => t.id != .END && t.id != .INTERRUPT)) := by
  unfold lex at h
  cases hr : lexRaw syn text with
  | none => rw [hr] at h; cases h
  | some rs =>
    rw [hr] at h; simp at h; subst h
    obtain ⟨ts', h', htl⟩ : ∃ ts, lexRaw syn text = some ts ∧ Tiled syn 0 text ts := by
      simpa [lexRaw] using lexGo_tiled syn (text.length + 1) text 0 0 (Nat.lt_succ_self _)
    rw [hr] at h'; cases h'
    apply sorted_of_pairwise
    · intro t ht
      have hp := mem_takeWhile_pred _ _ _ ht
      have hm := (List.takeWhile_prefix _).subset ht
      obtain ⟨r, hrm, rfl⟩ := List.mem_map.1 hm
      have hne : r.id ≠ .END := by
        intro he; simp [RawTok.toTok, he] at hp; exact absurd hp.1 (by decide)
      have hni : r.id ≠ .INTERRUPT := by
        intro he; simp [RawTok.toTok, he] at hp; exact absurd hp.2 (by decide)
      have := tiled_strict htl r hrm hne hni
      simp only [RawTok.toTok]
      omega
    · have hord := tiled_ordered htl
      have hall : (rs.map RawTok.toTok).Pairwise (fun a b => a.hi ≤ b.lo) := by
        rw [List.pairwise_map]
        exact hord.imp (fun {a b} hab => by simp only [RawTok.toTok]; omega)
      exact hall.sublist (List.takeWhile_prefix _).sublist

/-- **every tree returned by `parse` is `Nest 1`** (`lo < hi` at every node, children inside the parent,
siblings in order, an earlier one ending at or before the start of a later one), and starts at or after 0 -/
theorem parse_nest (syn : Syn) (text : List Nat) (t : Ast) (h : parse syn text = some t) : Nest 1 t ∧ 0 ≤ t.lo := by
  unfold parse at h
  cases hl : lex syn text with
  | none => rw [hl] at h; cases h
  | some ts =>
    rw [hl] at h
    exact nest_parseToks_body (by decide) ts t 0 (lex_body_sorted syn text ts hl) h

/-! ## what `Nest` gives -/

theorem nest_delta_mono {δ δ' : Int} (hd : δ' ≤ δ) : ∀ (a : Ast), Nest δ a → Nest δ' a
  | .node id d lo hi kids, h => by
    rw [nest_node_iff] at h ⊢
    exact ⟨by omega, sibs_delta_mono hd kids lo hi h.2⟩
where
  sibs_delta_mono {δ δ' : Int} (hd : δ' ≤ δ) : ∀ (l : List Ast) (p q : Int), Sibs δ p l q → Sibs δ' p l q
  | [], p, q, h => by rw [sibs_nil] at h ⊢; exact h
  | a :: l, p, q, h => by
    rw [sibs_cons] at h ⊢
    exact ⟨h.1, nest_delta_mono hd a h.2.1, sibs_delta_mono hd l _ _ h.2.2⟩

open CCVerif.AstQuery in
theorem sibs_ranges {δ : Int} (hδ : 0 ≤ δ) : ∀ (l : List Ast) (p q : Int), Sibs δ p l q →
    (∀ k ∈ l, rangesNested k = true) → kidsWithin p q l = true ∧ siblingsOrdered l = true ∧ rangesNestedKids l = true
  | [], _, _, _, _ => ⟨rfl, rfl, rfl⟩
  | [a], p, q, h, hk => by
    have hw := sibs_within hδ h a (by simp)
    simp only [kidsWithin, siblingsOrdered, rangesNestedKids, hk a (by simp), Bool.and_true, Bool.and_eq_true, decide_eq_true_eq]
    exact ⟨hw, trivial, trivial⟩
  | a :: b :: l, p, q, h, hk => by
    have hw := sibs_within hδ h a (by simp)
    rw [sibs_cons] at h
    have ih := sibs_ranges hδ (b :: l) a.hi q h.2.2 (fun k hk' => hk k (List.mem_cons_of_mem _ hk'))
    have hb := h.2.2
    rw [sibs_cons] at hb
    have hle := h.2.1.le
    have hkw : kidsWithin p q (b :: l) = true := by
      have : ∀ (l : List Ast), kidsWithin a.hi q l = true → kidsWithin p q l = true := by
        intro l
        induction l with
        | nil => intro _; rfl
        | cons x xs ihx =>
          intro hx
          simp only [kidsWithin, Bool.and_eq_true, decide_eq_true_eq] at hx ⊢
          exact ⟨⟨by omega, hx.1.2⟩, ihx hx.2⟩
      exact this _ ih.1
    refine ⟨?_, ?_, ?_⟩
    · rw [kidsWithin]
      simp only [Bool.and_eq_true, decide_eq_true_eq]
      exact ⟨hw, hkw⟩
    · rw [siblingsOrdered]
      simp only [Bool.and_eq_true, decide_eq_true_eq]
      exact ⟨hb.1, ih.2.1⟩
    · rw [rangesNestedKids]
      simp only [Bool.and_eq_true]
      exact ⟨hk a (by simp), ih.2.2⟩

open CCVerif.AstQuery in
/-- `Nest` (any `δ ≥ 0`) is what `AstQuery.rangesNested` checks -/
theorem nest_rangesNested {δ : Int} (hδ : 0 ≤ δ) : ∀ (a : Ast), Nest δ a → rangesNested a = true
  | .node id d lo hi kids, h => by
    rw [nest_node_iff] at h
    have hk : ∀ k ∈ kids, rangesNested k = true := fun k hk =>
      nest_rangesNested hδ k (sibs_mem h.2 k hk)
    obtain ⟨h1, h2, h3⟩ := sibs_ranges hδ kids lo hi h.2 hk
    simp only [rangesNested, h1, h2, h3, Bool.and_true, decide_eq_true_eq]
    omega
decreasing_by
  all_goals simp_wf
  have := List.sizeOf_lt_of_mem hk
  omega

open CCVerif.Checker in
/-- `Nest` with `δ ≥ 1` is (more than) the `WfRange` of the checker theorems -/
theorem nest_wfRange {δ : Int} (hδ : 1 ≤ δ) : ∀ (a : Ast), Nest δ a → WfRange a
  | .node id d lo hi kids, h => by
    rw [nest_node_iff] at h
    refine .node (by omega) (fun k hk => nest_wfRange hδ k (sibs_mem h.2 k hk)) (fun k hk => sibs_within (by omega) h.2 k hk)
decreasing_by
  all_goals simp_wf
  have := List.sizeOf_lt_of_mem hk
  omega

/-! ## `sameAst` decides equality (used by closed examples: `Ast` has no `DecidableEq`) -/

open CCVerif.AstQuery in
mutual
theorem sameAst_eq : ∀ (a b : Ast), sameAst a b = true → a = b
  | .node t1 d1 l1 h1 k1, .node t2 d2 l2 h2 k2, h => by
    simp only [sameAst, Bool.and_eq_true, decide_eq_true_eq] at h
    obtain ⟨⟨⟨⟨e1, e2⟩, e3⟩, e4⟩, e5⟩ := h
    rw [tok_beq_eq _ _ e1, tokData_beq_eq _ _ e2, e3, e4, sameAstList_eq k1 k2 e5]
theorem sameAstList_eq : ∀ (l m : List Ast), sameAstList l m = true → l = m
  | [], [], _ => rfl
  | a :: as, b :: bs, h => by
    simp only [sameAstList, Bool.and_eq_true] at h
    rw [sameAst_eq a b h.1, sameAstList_eq as bs h.2]
  | [], _ :: _, h => by simp [sameAstList] at h
  | _ :: _, [], h => by simp [sameAstList] at h
end

open CCVerif.AstQuery in
/-- a closed parse: when the parse of `text` compares equal to `t` -/
theorem parse_eq_of_same (syn : Syn) (text : List Nat) (t : Ast)
    (h : (parse syn text).map (fun t' => sameAst t' t) = some true) : parse syn text = some t := by
  cases hp : parse syn text with
  | none => rw [hp] at h; cases h
  | some t' =>
    rw [hp] at h
    simp only [Option.map_some, Option.some.injEq] at h
    rw [sameAst_eq t' t h]

end CCVerif.ParserRanges
