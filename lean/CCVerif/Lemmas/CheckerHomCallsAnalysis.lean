import CCVerif.Lemmas.CheckerHomCalls
import CCVerif.Lemmas.CheckerHomAnalysis
/-!
C12, the semantic clause for the REAL checker model, definitions WITH function / predicate calls: the
type-checker analysis of the generic machine (`checkerR`, constant `TraitsFor`) is `HomomorphicOn` for

* `AdmC2 traits Fs φ` — `AdmC traits φ` (Lemmas/CheckerHomAnalysis.lean: `Z`, `R0`, radicals — the mangled
  radicals `R1F1` included — fixed and reflected, equal traits) and `φ` FIXES the names `Fs` (the called
  functions: with `τ = φ` on base names the mangled radical `R1F1` of a call of `F1` is fixed, so it follows
  the function name exactly when `φ F1 = F1`);
* `GoodDC2 Fs d` — grammar-shaped definitions (`defShaped`), calls ALLOWED, every called name in `Fs`.

So terms, base sets, constants, arguments of calls … are identified freely (non-injectively, like with
like); the functions and predicates that are CALLED somewhere are not renamed by the identification.
`checkerHomOn2 traits Fs : HomomorphicOn (checkerR fun _ => traits)`.
-/
namespace CCVerif.Checker
open CCVerif CCVerif.Syntax CCVerif.Types CCVerif.Blocks

/-! ## names of the called functions -/
mutual
/-- the texts of child 0 of every NT_FUNC_CALL node -/
def calledOf : Ast → List String
  | .node id _ _ _ ks => (if id = .NT_FUNC_CALL then headText ks else []) ++ calledOfL ks
def calledOfL : List Ast → List String
  | [] => []
  | k :: ks => calledOf k ++ calledOfL ks
end

theorem calledOf_call {a k0 : Ast} {s : String} (hc : a.id = .NT_FUNC_CALL)
    (hk : a.kid 0 = some k0) (hd : k0.data = .text s) : s ∈ calledOf a := by
  cases a with
  | node id d lo hi ks =>
    simp only [Ast.id] at hc
    subst hc
    cases ks with
    | nil => simp [Ast.kid, Ast.kids] at hk
    | cons k ks =>
      simp [Ast.kid, Ast.kids] at hk
      subst hk
      simp [calledOf, headText, hd, dataText]

/-! ## the used globals of a shaped tree with calls -/

theorem headText_renShaped (g : String → String) {id : Tok} {d : TokData} {lo hi : Int} {ks : List Ast}
    (hs : nodeShape (.node id d lo hi ks) = true) (hc : id = .NT_FUNC_CALL) :
    headText (renAstL g ks) = (headText ks).map g := by
  cases ks with
  | nil => rfl
  | cons k0 ks =>
    unfold nodeShape at hs
    simp only [Bool.and_eq_true] at hs
    have h2 := hs.1.1.2
    have : (kid0Ok (.node id d lo hi (k0 :: ks)) fun k0 => textIs k0.data fun fn => isName fn && isGlob k0.id) = true := by
      subst hc
      simpa [Ast.id] using h2
    have hk : (Ast.node id d lo hi (k0 :: ks)).kid 0 = some k0 := by simp [Ast.kid, Ast.kids]
    simp only [kid0Ok, hk] at this
    simp only [renAstL, headText]
    rw [renAst_data]
    cases hd : k0.data with
    | text s =>
      rw [hd] at this
      simp only [textIs, Bool.and_eq_true] at this
      rw [← hd]
      exact dataText_renData_glob g this.2 k0.data
    | none => rw [renData_not_text _ _ (by intro s h; cases h)]; rfl
    | int _ => rw [renData_not_text _ _ (by intro s h; cases h)]; rfl
    | tuple _ => rw [renData_not_text _ _ (by intro s h; cases h)]; rfl

mutual
theorem usedGlobals_hom2 (g : String → String) : ∀ a : Ast, shapeOK a = true →
    usedGlobals (renAst g a) = (usedGlobals a).map g
  | .node id d lo hi ks, hs => by
    simp only [shapeOK, Bool.and_eq_true] at hs
    have e0 : renAst g (.node id d lo hi ks) = .node id (renData g id d) lo hi (renAstL g ks) := by
      simp only [renAst]
    rw [e0]
    simp only [usedGlobals, List.map_append]
    have h1 : (if IsGlobalId id then dataText (renData g id d) else []) =
        (if IsGlobalId id then dataText d else []).map g := by
      by_cases hg : IsGlobalId id
      · rw [if_pos hg, if_pos hg, dataText_renData_glob _ ((isGlob_iff id).2 hg)]
      · rw [if_neg hg, if_neg hg]; rfl
    have h2 : (if id = .NT_FUNC_CALL then headText (renAstL g ks) else []) =
        (if id = .NT_FUNC_CALL then headText ks else []).map g := by
      by_cases hc : id = .NT_FUNC_CALL
      · rw [if_pos hc, if_pos hc, headText_renShaped g hs.1 hc]
      · rw [if_neg hc, if_neg hc]; rfl
    have h3 : usedGlobalsList (.node id (renData g id d) lo hi (renAstL g ks)) 0 (renAstL g ks) =
        (usedGlobalsList (.node id d lo hi ks) 0 ks).map g := by
      rw [usedGlobalsList_parent (a := .node id d lo hi ks) (fun i => by rw [← e0]; exact visitedIdx_ren _ _ i)]
      exact usedGlobalsList_hom2 g (.node id d lo hi ks) 0 ks hs.2
    rw [h1, h2, h3]
theorem usedGlobalsList_hom2 (g : String → String) (a : Ast) : ∀ (i : Nat) (ks : List Ast), shapeOKL ks = true →
    usedGlobalsList a i (renAstL g ks) = (usedGlobalsList a i ks).map g
  | _, [], _ => rfl
  | i, k :: ks, hs => by
    simp only [shapeOKL, Bool.and_eq_true] at hs
    simp only [renAstL, usedGlobalsList, List.map_append]
    rw [usedGlobals_hom2 g k hs.1, usedGlobalsList_hom2 g a (i + 1) ks hs.2]
    split <;> rfl
end

/-! ## the identification of the instance -/

/-- admissible identifications: `AdmC`, and the names `Fs` (the called functions) are fixed -/
structure AdmC2 (traits : TraitEnv) (Fs : List String) (φ : String → String) : Prop where
  adm : AdmC traits φ
  fixF : ∀ f ∈ Fs, φ f = f

/-- an `AdmC` identification is injective on radicals -/
theorem radInj_ofMap {traits : TraitEnv} {φ : String → String} (hφ : AdmC traits φ) :
    RadInj (CHom.ofMap φ hφ).τ := by
  intro x y hx hxy
  have e1 : φ x = x := hφ.fixRad x hx
  have hy : isRadical y = true := by
    rw [← hφ.frad y, ← show φ x = φ y from hxy, e1]; exact hx
  have e2 : φ y = y := hφ.fixRad y hy
  have : φ x = φ y := hxy
  rw [e1, e2] at this
  exact this

/-- with radicals fixed, the mangled radicals follow the name of a function that is fixed -/
theorem mangleOK_ofMap {traits : TraitEnv} {φ : String → String} (hφ : AdmC traits φ) {fn : String}
    (hfn : φ fn = fn) (t : Ty) : MangleOK (CHom.ofMap φ hφ) fn (φ fn) t := by
  refine mangleOK_of_follow (fun id hid => ?_) t
  show φ (id ++ fn) = φ id ++ φ fn
  rw [hφ.fixRad _ (isRadical_append hid fn), hφ.fixRad id hid, hfn]

/-- the side conditions of `check_hom2` at a node of a shaped tree -/
theorem nodeH2_of {traits : TraitEnv} {φ : String → String} (hφ : AdmC traits φ) {Γ Γ' : Ctx} {a : Ast}
    (hs : nodeShape a = true)
    (hfix : a.id = .NT_FUNC_CALL → ∀ k0 fn, a.kid 0 = some k0 → k0.data = .text fn → φ fn = fn)
    (hl : ∀ s ∈ globalsOf a,
      lookup Γ'.types (φ s) = (lookup Γ.types s).map (renE φ) ∧
      lookup Γ'.funcs (φ s) = (lookup Γ.funcs s).map (hDecl (CHom.ofMap φ hφ))) :
    NodeH2 (CHom.ofMap φ hφ) Γ Γ' a := by
  have hs' := hs
  unfold nodeShape at hs
  simp only [Bool.and_eq_true] at hs
  obtain ⟨⟨⟨h1, h2⟩, h3⟩, h4⟩ := hs
  refine ⟨fun hg s hd => hl s ?_, ?_, ?_, ?_, ?_⟩
  · cases a with
    | node id d lo hi ks => exact mem_globalsOf_self hg hd
  · intro hid s hd
    have : (textIs a.data fun s => isBlock s.toList && isRadical s) = true := by
      simpa [hid] using h1
    unfold textIs at this
    rw [hd] at this
    simp only [Bool.and_eq_true] at this
    exact hφ.fixRad s this.2
  · intro hid
    refine ⟨radInj_ofMap hφ, fun k0 fn hk0 hfn => ?_⟩
    have : (kid0Ok a fun k0 => textIs k0.data fun fn => isName fn && isGlob k0.id) = true := by
      simpa [hid] using h2
    simp only [kid0Ok, hk0, textIs, hfn, Bool.and_eq_true] at this
    show CallH _ Γ Γ' fn (if isGlob k0.id = true then φ fn else fn)
    rw [if_pos this.2]
    have hmem : fn ∈ globalsOf a := globalsOf_call hid hk0 hfn
    have hf := hfix hid k0 fn hk0 hfn
    exact ⟨(hl fn hmem).1, (hl fn hmem).2, fun t _ => mangleOK_ofMap hφ hf t,
      fun d _ p _ => mangleOK_ofMap hφ hf p.2⟩
  · intro hdt hlen k0 hk0 n hn
    have : (kid0Ok a fun k0 => textIs k0.data fun n => isBlock n.toList && isGlob k0.id) = true := by
      have hlen' : (a.kids.length == 1) = true := by rw [hlen]; rfl
      simpa [hdt, hlen'] using h3
    simp only [kid0Ok, hk0, textIs, hn, Bool.and_eq_true] at this
    show φ n = if isGlob k0.id = true then φ n else n
    rw [if_pos this.2]
  · intro hid k0 hk0 n hn hg
    have : (kid0Ok a fun k0 => !isGlob k0.id) = true := by
      simpa [hid] using h4
    simp only [kid0Ok, hk0, hg] at this
    cases this

mutual
theorem treeH2_of {traits : TraitEnv} {φ : String → String} (hφ : AdmC traits φ) {Γ Γ' : Ctx} :
    ∀ a : Ast, shapeOK a = true → (∀ f ∈ calledOf a, φ f = f) →
    (∀ s ∈ globalsOf a, lookup Γ'.types (φ s) = (lookup Γ.types s).map (renE φ) ∧
      lookup Γ'.funcs (φ s) = (lookup Γ.funcs s).map (hDecl (CHom.ofMap φ hφ))) →
    TreeH2 (CHom.ofMap φ hφ) Γ Γ' a
  | .node id d lo hi ks, hs, hf, hl => by
    simp only [shapeOK, Bool.and_eq_true] at hs
    refine TreeH2.mk (nodeH2_of hφ hs.1 (fun hid k0 fn hk0 hfn => hf fn (calledOf_call hid hk0 hfn)) hl) ?_
    exact treeH2L_of hφ ks hs.2 (fun f hm => hf f (by
        simp only [calledOf, List.mem_append]; right; exact hm))
      (fun s hm => hl s (by simp only [globalsOf, List.mem_append]; right; exact hm))
theorem treeH2L_of {traits : TraitEnv} {φ : String → String} (hφ : AdmC traits φ) {Γ Γ' : Ctx} :
    ∀ ks : List Ast, shapeOKL ks = true → (∀ f ∈ calledOfL ks, φ f = f) →
    (∀ s ∈ globalsOfList ks, lookup Γ'.types (φ s) = (lookup Γ.types s).map (renE φ) ∧
      lookup Γ'.funcs (φ s) = (lookup Γ.funcs s).map (hDecl (CHom.ofMap φ hφ))) →
    ∀ k ∈ ks, TreeH2 (CHom.ofMap φ hφ) Γ Γ' k
  | [], _, _, _ => fun k hk => by cases hk
  | k0 :: ks, hs, hf, hl => by
    simp only [shapeOKL, Bool.and_eq_true] at hs
    exact List.forall_mem_cons.2 ⟨treeH2_of hφ k0 hs.1
        (fun f hm => hf f (by simp only [calledOfL, List.mem_append]; left; exact hm))
        (fun s hm => hl s (by simp only [globalsOfList, List.mem_append]; left; exact hm)),
      treeH2L_of hφ ks hs.2
        (fun f hm => hf f (by simp only [calledOfL, List.mem_append]; right; exact hm))
        (fun s hm => hl s (by simp only [globalsOfList, List.mem_append]; right; exact hm))⟩
end

end CCVerif.Checker

namespace CCVerif.SchemaGen
open CCVerif CCVerif.Syntax CCVerif.Types CCVerif.Checker CCVerif.Blocks
open CCVerif.Schema (Kind Status)

/-- the carrier WITH calls: grammar-shaped, every called function / predicate name in `Fs` -/
def GoodDC2 (Fs : List String) (d : CDef) : Prop :=
  defShaped d = true ∧ ∀ body, d = some body → ∀ f ∈ calledOf body, f ∈ Fs

/-- a definition without calls is good for every `Fs` -/
theorem GoodDC.to2 {d : CDef} (Fs : List String) (hd : GoodDC d)
    (hnc : ∀ body, d = some body → calledOf body = []) : GoodDC2 Fs d :=
  ⟨hd.1, fun body hb f hf => by rw [hnc body hb] at hf; cases hf⟩

/-- **the checker analysis is stable under identification, calls included** -/
theorem analyseC_hom2 (traits : TraitEnv) (Fs : List String) (φ : String → String) (hφ2 : AdmC2 traits Fs φ)
    (ctx ctx' : String → Option CInfo) (c : Cst CDef) (hgood : GoodDC2 Fs c.defn)
    (hok : (analyseC traits ctx c).ty.isSome = true)
    (hctx : ∀ m ∈ mentionsOf c.defn, ctx' (φ m) = (ctx m).map (homIC φ)) :
    analyseC traits ctx' { c with alias := φ c.alias, defn := homDC φ c.defn } = homIC φ (analyseC traits ctx c) := by
  have hφ := hφ2.adm
  obtain ⟨u, alias, kind, defn⟩ := c
  cases kind with
  | base =>
    cases defn with
    | none =>
      show resultOf (check _ (baseTree (φ alias))) = homIC φ (resultOf (check _ (baseTree alias)))
      rw [check_baseTree, check_baseTree]
      rfl
    | some body => cases hok
  | term =>
    cases defn with
    | none => cases hok
    | some body =>
      obtain ⟨hsh, hcalled⟩ := hgood
      have hcb := hcalled body rfl
      have hsh' := hsh
      simp only [defShaped, Bool.and_eq_true] at hsh'
      show resultOf (check (ctxToΓ traits ctx' (usedGlobals (defTree (φ alias) (renAst φ body))))
          (defTree (φ alias) (renAst φ body))) =
        homIC φ (resultOf (check (ctxToΓ traits ctx (usedGlobals (defTree alias body))) (defTree alias body)))
      have hok' : (resultOf (check (ctxToΓ traits ctx (usedGlobals (defTree alias body)))
          (defTree alias body))).ty.isSome = true := hok
      obtain ⟨t, ht⟩ := resultOf_ok hok'
      rw [usedGlobals_defTree, usedGlobals_defTree, usedGlobals_hom2 φ body hsh'.2] at *
      let h := CHom.ofMap φ hφ
      have hΓ : CtxHom h (ctxToΓ traits ctx (usedGlobals body)) (ctxToΓ traits ctx' ((usedGlobals body).map φ)) :=
        ⟨hφ.traits, rfl⟩
      have hT : TreeH2 h (ctxToΓ traits ctx (usedGlobals body)) (ctxToΓ traits ctx' ((usedGlobals body).map φ)) body := by
        refine treeH2_of hφ body hsh'.2 (fun f hf => hφ2.fixF f (hcb f hf)) (fun s hs => ?_)
        have hu : s ∈ usedGlobals body := (mentions_shaped hsh s).2 hs
        have hu' : φ s ∈ (usedGlobals body).map φ := List.mem_map.2 ⟨s, hu, rfl⟩
        rw [lookup_ctxToΓ_types, lookup_ctxToΓ_types, lookup_ctxToΓ_funcs, lookup_ctxToΓ_funcs]
        simp only [if_pos hu, if_pos hu', hctx s hu, tyOfC_hom, argsOfC_hom]
        first | exact ⟨rfl, rfl⟩ | exact ⟨trivial, rfl⟩ | trivial
      have := check_hom_top2 (h := h) hΓ (a := defTree alias body) rfl rfl
        (fun k hk => by
          have : k = body := by
            have e : (defTree alias body).kid 1 = some body := rfl
            rw [e] at hk; exact (Option.some.inj hk).symm
          subst this; exact hT) ht
      have e : renAst h.g (defTree alias body) = defTree (φ alias) (renAst φ body) := rfl
      rw [e] at this
      rw [this]
      unfold resultOf
      simp only [ht]
      rfl

/-- **the checker analysis (constant traits) is `HomomorphicOn`, definitions WITH calls**: stable under
every admissible identification of names that fixes the called functions `Fs` -/
def checkerHomOn2 (traits : TraitEnv) (Fs : List String) : HomomorphicOn (checkerR fun _ => traits) where
  Adm := AdmC2 traits Fs
  GoodD := GoodDC2 Fs
  homD := homDC
  homI := homIC
  mentions_hom := by
    intro φ d _ hg
    cases d with
    | none => rfl
    | some body =>
      have hsh := hg.1
      simp only [defShaped, Bool.and_eq_true] at hsh
      exact usedGlobals_hom2 φ body hsh.2
  ok_hom := (checkerHomOn traits).ok_hom
  missing := (checkerHomOn traits).missing
  analyse_hom := fun φ _ _ ctx ctx' c hadm hgood hok hctx => analyseC_hom2 traits Fs φ hadm ctx ctx' c hgood hok hctx

end CCVerif.SchemaGen

/-! ## non-vacuity, and the necessity of `RadInj` -/
namespace CCVerif.Checker
open CCVerif CCVerif.Syntax CCVerif.Types

namespace CallsExample

def bset (s : String) : ExprTy := .ty (.coll (.base s))
def glob (id : Tok) (s : String) : Ast := .node id (.text s) 0 0 []
/-- `fn[a, b]` -/
def call2 (fn a b : String) : Ast :=
  .node .NT_FUNC_CALL .none 0 0 [glob .ID_FUNCTION fn, glob .ID_GLOBAL a, glob .ID_GLOBAL b]

/-- `X2 ↦ X1` on tokens and base names (`THom.example`) -/
def hX : CHom := ⟨THom.example.b, THom.example⟩

/-- a template function `F1 : [α∈ℬ(R1), β∈ℬ(R1)] ↦ ℬ(R1)` and the base sets `X1`, `X2` -/
def ΓX : Ctx :=
  { types := [("F1", bset "R1"), ("X1", bset "X1"), ("X2", bset "X2")],
    funcs := [("F1", [("a", .coll (.base "R1")), ("b", .coll (.base "R1"))])] }
/-- the context after `X2 ↦ X1` -/
def ΓX' : Ctx :=
  { types := [("F1", bset "R1"), ("X1", bset "X1")],
    funcs := [("F1", [("a", .coll (.base "R1")), ("b", .coll (.base "R1"))])] }

theorem hX_follow (fn : String) (hfn : fn = "F1") :
    ∀ id, isRadical id = true → hX.τ.b (id ++ fn) = hX.τ.b id ++ hX.g fn := by
  intro id hid
  subst hfn
  have e1 : id ≠ "X2" := fun e => by rw [e] at hid; exact absurd hid (by decide)
  have e2 : id ++ "F1" ≠ "X2" := fun e => by
    have h1 := isRadical_append hid "F1"
    rw [e] at h1; exact absurd h1 (by decide)
  show (if id ++ "F1" = "X2" then "X1" else id ++ "F1") = (if id = "X2" then "X1" else id) ++ "F1"
  rw [if_neg e1, if_neg e2]

/-- non-vacuity of `check_hom2` on a TEMPLATE call: `F1[X1, X2]` is ill-typed before the identification
(`R1` bound to `X1` and to `X2`) — so take `F1[X2, X2] : ℬ(X2)`; after `X2 ↦ X1` it is `F1[X1, X1] : ℬ(X1)` -/
example : (check ΓX (call2 "F1" "X2" "X2")).out = .ok (bset "X2") ∧
    check ΓX' (renAst hX.g (call2 "F1" "X2" "X2")) =
      ⟨.ok (hRE hX.τ (bset "X2")), (check ΓX (call2 "F1" "X2" "X2")).errs,
        hDecl hX (check ΓX (call2 "F1" "X2" "X2")).args, (check ΓX (call2 "F1" "X2" "X2")).silent⟩ := by
  have hok : (check ΓX (call2 "F1" "X2" "X2")).out = .ok (bset "X2") := by decide +kernel
  refine ⟨hok, check_hom2 (h := hX) (Γ := ΓX) (Γ' := ΓX') ⟨fun _ => rfl, rfl⟩ ?_ hok⟩
  have leaf : ∀ s, s = "X2" → TreeH2 hX ΓX ΓX' (glob .ID_GLOBAL s) := by
    intro s hs
    subst hs
    refine .mk ⟨fun _ s hd => ?_, (fun hid => by cases hid), (fun hid => by cases hid),
      (fun hd => absurd hd (by decide)), (fun hid => by cases hid)⟩ (fun k hk => by cases hk)
    cases hd
    exact ⟨by decide, by decide⟩
  have leafF : TreeH2 hX ΓX ΓX' (glob .ID_FUNCTION "F1") := by
    refine .mk ⟨fun _ s hd => ?_, (fun hid => by cases hid), (fun hid => by cases hid),
      (fun hd => absurd hd (by decide)), (fun hid => by cases hid)⟩ (fun k hk => by cases hk)
    cases hd
    exact ⟨by decide, by decide⟩
  refine .mk ⟨(fun hg => absurd hg (by decide)), (fun hid => by cases hid), (fun _ => ⟨THom.example_inj, ?_⟩),
    (fun hd => absurd hd (by decide)), (fun hid => by cases hid)⟩ ?_
  · intro k0 fn hk0 hfn
    have : k0 = glob .ID_FUNCTION "F1" := (Option.some.inj hk0).symm
    subst this
    cases hfn
    exact ⟨by decide, by decide, fun t _ => mangleOK_of_follow (hX_follow "F1" rfl) t,
      fun d _ p _ => mangleOK_of_follow (hX_follow "F1" rfl) p.2⟩
  · intro k hk
    simp only [call2, Ast.kids, List.mem_cons, List.mem_nil_iff, or_false] at hk
    rcases hk with rfl | rfl | rfl
    · exact leafF
    · exact leaf _ rfl
    · exact leaf _ rfl

/-! ### `RadInj` is necessary (over arbitrary contexts) -/

/-- `F1 ↦ F2` on tokens, and blockwise on the mangled radical: `R1F1 ↦ R1F2` -/
def hF : CHom where
  g := fun x => if x = "F1" then "F2" else x
  τ :=
    { b := fun x => if x = "R1F1" then "R1F2" else x
      bZ := fun x => by
        by_cases hx : x = "R1F1"
        · subst hx; decide
        · simp only [if_neg hx]
      bR0 := fun x => by
        by_cases hx : x = "R1F1"
        · subst hx; decide
        · simp only [if_neg hx]
      brad := fun x => by
        by_cases hx : x = "R1F1"
        · subst hx; decide
        · simp only [if_neg hx] }

/-- two template functions of ONE signature; a term typed by the mangled name `R1F2`, a term of the
any-type -/
def ΓF : Ctx :=
  { types := [("F1", bset "R1"), ("F2", bset "R1"), ("D5", bset "R1F2"), ("D6", bset "R0")],
    funcs := [("F1", [("a", .coll (.base "R1")), ("b", .coll (.base "R1"))]),
              ("F2", [("a", .coll (.base "R1")), ("b", .coll (.base "R1"))])] }

/-- **`RadInj` cannot be dropped from `check_hom2`**: `hF` identifies the template functions `F1`, `F2` of
equal signature (like with like; the context is its own image; the mangled radical follows the function
name on the whole signature: `MangleOK`), but `R1F1`, `R1F2 ↦ R1F2` is not injective on radicals, and in a
context that types `D5` by the mangled name `R1F2` the call `F1[D5, D6]` has the type `ℬ(R1F2)` whereas its
image `renAst g … = F2[D5, D6]` has the type `ℬ(R0)`, which is not the image of `ℬ(R1F2)`. (Such a context does not
arise from the checker itself: a function body cannot mention radicals, so every radical of a result is
bound by the arguments — that invariant is what a proof for non-injective identifications of template
functions would have to carry.) -/
theorem call_hom_radInj_needed_counterexample :
    CtxHom hF ΓF ΓF ∧
    (∀ s ∈ ["F1", "D5", "D6"], lookup ΓF.types (hF.g s) = (lookup ΓF.types s).map (hRE hF.τ) ∧
      lookup ΓF.funcs (hF.g s) = (lookup ΓF.funcs s).map (hDecl hF)) ∧
    MangleOK hF "F1" "F2" (.coll (.base "R1")) ∧
    ¬ RadInj hF.τ ∧
    (check ΓF (call2 "F1" "D5" "D6")).out = .ok (bset "R1F2") ∧
    (check ΓF (renAst hF.g (call2 "F1" "D5" "D6"))).out = .ok (bset "R0") ∧
    hRE hF.τ (bset "R1F2") ≠ bset "R0" := by
  refine ⟨⟨fun _ => rfl, rfl⟩, by decide, by unfold MangleOK; decide, ?_, by decide +kernel, by decide +kernel, by decide⟩
  intro hinj
  exact absurd (hinj "R1F1" "R1F2" (by decide) (by decide)) (by decide)

end CallsExample

end CCVerif.Checker
