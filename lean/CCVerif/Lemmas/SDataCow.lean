import CCVerif.Lemmas.SData
/-! Helper lemmas for C15: the copy-on-write store refines plain value semantics. -/
set_option linter.unusedSimpArgs false
set_option linter.unusedVariables false
namespace CCVerif.SData

/-- plain value semantics of a history: every handle is an independent value. -/
def pureStep (vs : List Val) : Op → Option (List Val)
  | .new v => some (vs ++ [v])
  | .newShared v => some (vs ++ [v])
  | .copy j => vs[j]?.map fun v => vs ++ [v]
  | .assign k j =>
    match vs[k]?, vs[j]? with
    | some _, some v => some (vs.set k v)
    | _, _ => none
  | .add k x =>
    match vs[k]? with
    | some (.s xs) => some (vs.set k (.s (insert x xs)))
    | _ => none
  | .addh k j =>
    match vs[k]?, vs[j]? with
    | some (.s xs), some v => some (vs.set k (.s (insert v xs)))
    | _, _ => none

def pureRun (vs : List Val) : List Op → Option (List Val)
  | [] => some vs
  | op :: ops => (pureStep vs op).bind fun vs' => pureRun vs' ops

def valAt (cells : List Cell) (r : Nat) : Option Val := cells[r]?.map (·.val)

/-- the `shared_ptr` invariant: handles point into the heap, and a cell's use count is at least the
number of handles that point to it (owners inside containers only add to it). -/
structure Inv (st : Store) : Prop where
  valid : ∀ r ∈ st.hs, r < st.cells.length
  counted : ∀ r c, st.cells[r]? = some c → st.hs.count r ≤ c.rc

/-- the store denotes the list of plain values `vs`. -/
structure Abs (st : Store) (vs : List Val) : Prop where
  len : st.hs.length = vs.length
  den : ∀ k, st.denote k = vs[k]?

theorem denote_eq (st : Store) (k : Nat) : st.denote k = (st.hs[k]?).bind (valAt st.cells) := by
  unfold Store.denote valAt
  cases st.hs[k]? <;> rfl

theorem bumpRc_getElem? (cells : List Cell) (r : Nat) (f : Nat → Nat) (r' : Nat) :
    (bumpRc cells r f)[r']? =
      if r' = r then cells[r]?.map (fun c => { c with rc := f c.rc }) else cells[r']? := by
  unfold bumpRc
  cases h : cells[r]? with
  | none =>
    by_cases e : r' = r
    · subst e; simp [h]
    · simp [e]
  | some c =>
    have hl : r < cells.length := by
      rcases List.getElem?_eq_some_iff.mp h with ⟨hl, _⟩; exact hl
    simp only [List.getElem?_set]
    by_cases e : r' = r
    · subst e; simp [hl]
    · have : ¬ r = r' := fun h => e h.symm
      simp [e, this]

theorem bumpRc_length (cells : List Cell) (r : Nat) (f : Nat → Nat) :
    (bumpRc cells r f).length = cells.length := by
  unfold bumpRc; cases cells[r]? <;> simp

theorem bumpRc_valAt (cells : List Cell) (r : Nat) (f : Nat → Nat) (r' : Nat) :
    valAt (bumpRc cells r f) r' = valAt cells r' := by
  unfold valAt
  rw [bumpRc_getElem?]
  by_cases e : r' = r
  · subst e; cases cells[r']? <;> simp
  · simp [e]

theorem valAt_append_left (cells ext : List Cell) (r : Nat) (h : r < cells.length) :
    valAt (cells ++ ext) r = valAt cells r := by
  unfold valAt; rw [List.getElem?_append_left h]

theorem count_not_mem {hs : List Nat} {n : Nat} (h : ∀ r ∈ hs, r < n) : hs.count n = 0 := by
  rw [List.count_eq_zero]; intro hm; exact Nat.lt_irrefl _ (h n hm)

theorem Abs.lookup {st : Store} {vs : List Val} (ha : Abs st vs) {k : Nat} {v : Val}
    (h : vs[k]? = some v) : ∃ r, st.hs[k]? = some r ∧ valAt st.cells r = some v := by
  have := ha.den k
  rw [denote_eq, h] at this
  cases hr : st.hs[k]? with
  | none => simp [hr] at this
  | some r => exact ⟨r, rfl, by simpa [hr] using this⟩

/-- pushing one more handle that points to `r0`. -/
theorem push_handle {st : Store} {vs : List Val} (hi : Inv st) (ha : Abs st vs)
    (cells' : List Cell) (r0 : Nat) (v0 : Val)
    (hframe : ∀ r, r < st.cells.length → valAt cells' r = valAt st.cells r)
    (hlen : st.cells.length ≤ cells'.length) (hr0 : r0 < cells'.length)
    (hcount : ∀ r c', cells'[r]? = some c' → (st.hs ++ [r0]).count r ≤ c'.rc)
    (hv0 : valAt cells' r0 = some v0) :
    Inv ⟨cells', st.hs ++ [r0]⟩ ∧ Abs ⟨cells', st.hs ++ [r0]⟩ (vs ++ [v0]) := by
  refine ⟨⟨?_, hcount⟩, ⟨by simp [ha.len], ?_⟩⟩
  · intro r hr
    rcases List.mem_append.mp hr with h | h
    · exact Nat.lt_of_lt_of_le (hi.valid r h) hlen
    · simp at h; subst h; exact hr0
  · intro k
    rw [denote_eq]
    simp only [List.getElem?_append]
    by_cases hk : k < st.hs.length
    · have hk' : k < vs.length := ha.len ▸ hk
      simp only [hk, hk', if_true]
      have := ha.den k
      rw [denote_eq] at this
      rw [← this]
      cases hr : st.hs[k]? with
      | none => rfl
      | some r =>
        simp only [Option.bind_some]
        exact hframe r (hi.valid r (List.mem_of_getElem? hr))
    · have hk' : ¬ k < vs.length := ha.len ▸ hk
      simp only [hk, hk', if_false, ha.len]
      by_cases h0 : k - vs.length = 0
      · simp [h0, hv0]
      · have : ∃ m, k - vs.length = m + 1 := ⟨k - vs.length - 1, by omega⟩
        obtain ⟨m, hm⟩ := this
        simp [hm]

theorem valAt_some {cells : List Cell} {r : Nat} {v : Val} (h : valAt cells r = some v) :
    ∃ c, cells[r]? = some c ∧ c.val = v := by
  unfold valAt at h
  cases hc : cells[r]? with
  | none => simp [hc] at h
  | some c => exact ⟨c, rfl, by simpa [hc] using h⟩

theorem push_fresh {st : Store} {vs : List Val} (hi : Inv st) (ha : Abs st vs) (c0 : Cell) (h1 : 1 ≤ c0.rc) :
    Inv ⟨st.cells ++ [c0], st.hs ++ [st.cells.length]⟩ ∧
      Abs ⟨st.cells ++ [c0], st.hs ++ [st.cells.length]⟩ (vs ++ [c0.val]) := by
  apply push_handle hi ha
  · intro r hr; exact valAt_append_left _ _ _ hr
  · simp
  · simp
  · intro r c' hc
    rw [List.count_append, List.count_singleton]
    by_cases hr : r < st.cells.length
    · rw [List.getElem?_append_left hr] at hc
      have := hi.counted r c' hc
      have hne : ¬ st.cells.length = r := by omega
      simp [hne]; exact this
    · by_cases he : r = st.cells.length
      · subst he
        simp at hc; subst hc
        rw [count_not_mem hi.valid]; simp; exact h1
      · rw [List.getElem?_append_right (by omega)] at hc
        have : ∃ m, r - st.cells.length = m + 1 := ⟨r - st.cells.length - 1, by omega⟩
        obtain ⟨m, hm⟩ := this
        simp [hm] at hc
  · simp [valAt]

theorem copy_case {st : Store} {vs : List Val} (hi : Inv st) (ha : Abs st vs) {j : Nat} {v : Val}
    (hj : vs[j]? = some v) :
    ∃ st', st.copy j = some st' ∧ Inv st' ∧ Abs st' (vs ++ [v]) := by
  obtain ⟨r, hr, hv⟩ := ha.lookup hj
  refine ⟨⟨bumpRc st.cells r (· + 1), st.hs ++ [r]⟩, by simp [Store.copy, hr], ?_⟩
  have hrl : r < st.cells.length := hi.valid r (List.mem_of_getElem? hr)
  apply push_handle hi ha
  · intro r' _; exact bumpRc_valAt _ _ _ _
  · rw [bumpRc_length]; exact Nat.le_refl _
  · rw [bumpRc_length]; exact hrl
  · intro r' c' hc
    rw [bumpRc_getElem?] at hc
    rw [List.count_append, List.count_singleton]
    by_cases e : r' = r
    · subst e
      simp only [if_true, Option.map_eq_some_iff] at hc
      obtain ⟨c, hc1, hc2⟩ := hc
      subst hc2
      have := hi.counted r' c hc1
      simp; omega
    · simp only [e, if_false] at hc
      have := hi.counted r' c' hc
      have hne : ¬ r = r' := fun h => e h.symm
      simp [hne]; exact this
  · rw [bumpRc_valAt]; exact hv

/-- redirecting the handle `k` to the cell `r0`. -/
theorem set_handle {st : Store} {vs : List Val} (hi : Inv st) (ha : Abs st vs)
    (cells' : List Cell) (k r0 : Nat) (v0 : Val) (hk : k < st.hs.length)
    (hframe : ∀ r, r < st.cells.length → valAt cells' r = valAt st.cells r)
    (hlen : st.cells.length ≤ cells'.length) (hr0 : r0 < cells'.length)
    (hcount : ∀ r c', cells'[r]? = some c' → (st.hs.set k r0).count r ≤ c'.rc)
    (hv0 : valAt cells' r0 = some v0) :
    Inv ⟨cells', st.hs.set k r0⟩ ∧ Abs ⟨cells', st.hs.set k r0⟩ (vs.set k v0) := by
  refine ⟨⟨?_, hcount⟩, ⟨by simp [ha.len], ?_⟩⟩
  · intro r hr
    rcases List.mem_or_eq_of_mem_set hr with h | h
    · exact Nat.lt_of_lt_of_le (hi.valid r h) hlen
    · subst h; exact hr0
  · intro k'
    rw [denote_eq]
    simp only [List.getElem?_set]
    by_cases e : k = k'
    · subst e
      have hk' : k < vs.length := ha.len ▸ hk
      simp [hk, hk', hv0]
    · simp only [e, if_false]
      have := ha.den k'
      rw [denote_eq] at this
      rw [← this]
      cases hr : st.hs[k']? with
      | none => rfl
      | some r =>
        simp only [Option.bind_some]
        exact hframe r (hi.valid r (List.mem_of_getElem? hr))

theorem count_two : ∀ (hs : List Nat) (k k' r : Nat), hs[k]? = some r → hs[k']? = some r → k ≠ k' →
    2 ≤ hs.count r
  | [], _, _, _ => by simp
  | a :: t, 0, 0, _ => by simp
  | a :: t, 0, k' + 1, r => by
    simp only [List.getElem?_cons_zero, Option.some.injEq, List.getElem?_cons_succ]
    intro e h _
    subst e
    have : 1 ≤ t.count a := List.one_le_count_iff.mpr (List.mem_of_getElem? h)
    rw [List.count_cons]; simp only [beq_self_eq_true, if_true]; omega
  | a :: t, k + 1, 0, r => by
    simp only [List.getElem?_cons_zero, Option.some.injEq, List.getElem?_cons_succ]
    intro h e _
    subst e
    have : 1 ≤ t.count a := List.one_le_count_iff.mpr (List.mem_of_getElem? h)
    rw [List.count_cons]; simp only [beq_self_eq_true, if_true]; omega
  | a :: t, k + 1, k' + 1, r => by
    simp only [List.getElem?_cons_succ]
    intro h1 h2 hne
    have := count_two t k k' r h1 h2 (by omega)
    rw [List.count_cons]; omega

theorem getElem_of_getElem? {hs : List Nat} {k r : Nat} (h : hs[k]? = some r) :
    ∃ hk : k < hs.length, hs[k] = r := List.getElem?_eq_some_iff.mp h

theorem add_case {st : Store} {vs : List Val} (hi : Inv st) (ha : Abs st vs) {k : Nat} {xs : List Val}
    (x : Val) (hk : vs[k]? = some (.s xs)) :
    ∃ st' b, st.addElement k x = some (st', b) ∧ Inv st' ∧ Abs st' (vs.set k (.s (insert x xs))) := by
  obtain ⟨r, hr, hv⟩ := ha.lookup hk
  obtain ⟨c, hc, hcv⟩ := valAt_some hv
  obtain ⟨cv, crc⟩ := c
  simp only at hcv; subst hcv
  obtain ⟨hkl, hkr⟩ := getElem_of_getElem? hr
  have hrl : r < st.cells.length := hi.valid r (List.mem_of_getElem? hr)
  by_cases hrc : crc > 1
  · -- clone
    let cells1 := bumpRc st.cells r (· - 1)
    have hl1 : cells1.length = st.cells.length := bumpRc_length _ _ _
    refine ⟨⟨cells1 ++ [⟨.s (insert x xs), 1⟩], st.hs.set k st.cells.length⟩, insertNew x xs, ?_, ?_⟩
    · have hget : (cells1 ++ [(⟨.s xs, 1⟩ : Cell)])[st.cells.length]? = some ⟨.s xs, 1⟩ := by
        rw [List.getElem?_append_right (by omega)]; simp [hl1]
      have hset : (cells1 ++ [(⟨.s xs, 1⟩ : Cell)]).set st.cells.length ⟨.s (insert x xs), 1⟩ =
          cells1 ++ [⟨.s (insert x xs), 1⟩] := by
        rw [List.set_append]; simp [hl1]
      simp only [Store.addElement, Store.uniqueData, hr, hc, hrc, if_true]
      simp only [cells1] at hget hset
      simp [hget, hset, cells1]
    · apply set_handle hi ha _ k st.cells.length _ hkl
      · intro r' hr'
        rw [valAt_append_left _ _ _ (by omega)]; exact bumpRc_valAt _ _ _ _
      · simp [hl1]
      · simp [hl1]
      · intro r' c' hc'
        rw [List.count_set hkl, hkr]
        by_cases hr' : r' < st.cells.length
        · rw [List.getElem?_append_left (by omega), bumpRc_getElem?] at hc'
          have hne : ¬ st.cells.length = r' := by omega
          by_cases e : r' = r
          · subst e
            simp only [if_true, Option.map_eq_some_iff] at hc'
            obtain ⟨c1, hc1, hc2⟩ := hc'
            subst hc2
            have := hi.counted r' c1 hc1
            simp [hne]; omega
          · simp only [e, if_false] at hc'
            have := hi.counted r' c' hc'
            have hne2 : ¬ r = r' := fun h => e h.symm
            simp [hne, hne2]; exact this
        · by_cases he : r' = st.cells.length
          · subst he
            rw [List.getElem?_append_right (by omega)] at hc'
            simp [hl1] at hc'; subst hc'
            rw [count_not_mem hi.valid]; simp
          · rw [List.getElem?_append_right (by omega)] at hc'
            have : ∃ m, r' - cells1.length = m + 1 := ⟨r' - cells1.length - 1, by omega⟩
            obtain ⟨m, hm⟩ := this
            simp [hm] at hc'
      · unfold valAt
        rw [List.getElem?_append_right (by omega)]; simp [hl1]
  · -- in place: this handle is the only owner
    refine ⟨⟨st.cells.set r ⟨.s (insert x xs), crc⟩, st.hs⟩, insertNew x xs, ?_, ?_, ?_⟩
    · simp only [Store.addElement, Store.uniqueData, hr, hc, hrc, if_false]
    · refine ⟨fun r' h => by simpa using hi.valid r' h, ?_⟩
      intro r' c' hc'
      simp only [List.getElem?_set] at hc'
      by_cases e : r = r'
      · subst e
        simp [hrl] at hc'; subst hc'
        exact hi.counted r ⟨.s xs, crc⟩ hc
      · simp only [e, if_false] at hc'
        exact hi.counted r' c' hc'
    · refine ⟨by simp [ha.len], ?_⟩
      intro k'
      rw [denote_eq]
      simp only [List.getElem?_set]
      have hkv : k < vs.length := ha.len ▸ hkl
      by_cases ek : k = k'
      · subst ek
        simp [hr, valAt, hrl, hkv]
      · simp only [ek, if_false]
        have := ha.den k'
        rw [denote_eq] at this
        rw [← this]
        cases hr' : st.hs[k']? with
        | none => rfl
        | some r' =>
          simp only [Option.bind_some]
          have hne : r ≠ r' := by
            intro e; subst e
            have h2 := count_two st.hs k k' r hr hr' ek
            have h3 : st.hs.count r ≤ crc := hi.counted r ⟨.s xs, crc⟩ hc
            omega
          unfold valAt
          simp [List.getElem?_set, hne]

theorem bump_inc_preserves {st : Store} {vs : List Val} (hi : Inv st) (ha : Abs st vs) (r : Nat) :
    Inv { st with cells := bumpRc st.cells r (· + 1) } ∧ Abs { st with cells := bumpRc st.cells r (· + 1) } vs := by
  refine ⟨⟨fun r' h => by rw [bumpRc_length]; exact hi.valid r' h, ?_⟩, ⟨ha.len, ?_⟩⟩
  · intro r' c' hc'
    simp only [bumpRc_getElem?] at hc'
    by_cases e : r' = r
    · subst e
      simp only [if_true, Option.map_eq_some_iff] at hc'
      obtain ⟨c1, hc1, hc2⟩ := hc'
      subst hc2
      have := hi.counted r' c1 hc1
      simp; omega
    · simp only [e, if_false] at hc'
      exact hi.counted r' c' hc'
  · intro k
    have := ha.den k
    rw [denote_eq] at this ⊢
    rw [← this]
    cases st.hs[k]? with
    | none => rfl
    | some r' => simp only [Option.bind_some]; exact bumpRc_valAt _ _ _ _

theorem set_self_of_getElem? {vs : List Val} {k : Nat} {v : Val} (h : vs[k]? = some v) : vs.set k v = vs := by
  apply List.ext_getElem?
  intro i
  rw [List.getElem?_set]
  by_cases e : k = i
  · subst e
    obtain ⟨hk, hv⟩ := List.getElem?_eq_some_iff.mp h
    simp [hk, hv]
  · simp [e]

theorem assign_case {st : Store} {vs : List Val} (hi : Inv st) (ha : Abs st vs) {k j : Nat} {vk v : Val}
    (hk : vs[k]? = some vk) (hj : vs[j]? = some v) :
    ∃ st', st.assign k j = some st' ∧ Inv st' ∧ Abs st' (vs.set k v) := by
  obtain ⟨rk, hrk, hvk⟩ := ha.lookup hk
  obtain ⟨rj, hrj, hvj⟩ := ha.lookup hj
  obtain ⟨hkl, hkr⟩ := getElem_of_getElem? hrk
  by_cases e : rk = rj
  · subst e
    refine ⟨st, by simp [Store.assign, hrk, hrj], hi, ?_⟩
    have : vk = v := by rw [hvk] at hvj; exact Option.some.inj hvj
    subst this
    rw [set_self_of_getElem? hk]; exact ha
  · refine ⟨⟨bumpRc (bumpRc st.cells rj (· + 1)) rk (· - 1), st.hs.set k rj⟩,
      by simp [Store.assign, hrk, hrj, e], ?_⟩
    have hrjl : rj < st.cells.length := hi.valid rj (List.mem_of_getElem? hrj)
    apply set_handle hi ha _ k rj v hkl
    · intro r _; rw [bumpRc_valAt, bumpRc_valAt]
    · rw [bumpRc_length, bumpRc_length]; exact Nat.le_refl _
    · rw [bumpRc_length, bumpRc_length]; exact hrjl
    · intro r c' hc'
      rw [List.count_set hkl, hkr]
      simp only [bumpRc_getElem?] at hc'
      by_cases e1 : r = rk
      · subst e1
        have hne : ¬ rj = r := fun h => e h.symm
        simp only [if_true, e, if_false, Option.map_eq_some_iff] at hc'
        obtain ⟨c1, hc1, hc2⟩ := hc'
        subst hc2
        have := hi.counted r c1 hc1
        simp only [beq_self_eq_true, if_true, beq_iff_eq, hne, if_false]; omega
      · simp only [e1, if_false] at hc'
        have hne1 : ¬ rk = r := fun h => e1 h.symm
        by_cases e2 : r = rj
        · subst e2
          simp only [eq_self_iff_true, if_true, Option.map_eq_some_iff] at hc'
          obtain ⟨c1, hc1, hc2⟩ := hc'
          subst hc2
          have := hi.counted r c1 hc1
          simp only [beq_self_eq_true, if_true, beq_iff_eq, hne1, if_false]; omega
        · simp only [e2, if_false] at hc'
          have hne2 : ¬ rj = r := fun h => e2 h.symm
          have := hi.counted r c' hc'
          simp [hne1, hne2]; exact this
    · rw [bumpRc_valAt, bumpRc_valAt]; exact hvj

/-- one step: whenever plain value semantics can take the step, the copy-on-write store takes it
too, keeps its invariant and denotes the new plain values. -/
theorem cow_step {st : Store} {vs vs' : List Val} (hi : Inv st) (ha : Abs st vs) (op : Op)
    (hp : pureStep vs op = some vs') : ∃ st', st.step op = some st' ∧ Inv st' ∧ Abs st' vs' := by
  cases op with
  | new v =>
    simp only [pureStep, Option.some.injEq] at hp; subst hp
    exact ⟨st.new v, rfl, push_fresh hi ha ⟨v, 1⟩ (Nat.le_refl _)⟩
  | newShared v =>
    simp only [pureStep, Option.some.injEq] at hp; subst hp
    exact ⟨st.newShared v, rfl, push_fresh hi ha ⟨v, 2⟩ (by show 1 ≤ 2; omega)⟩
  | copy j =>
    simp only [pureStep, Option.map_eq_some_iff] at hp
    obtain ⟨v, hj, e⟩ := hp; subst e
    obtain ⟨st', h1, h2⟩ := copy_case hi ha hj
    exact ⟨st', by simpa [Store.step] using h1, h2⟩
  | assign k j =>
    simp only [pureStep] at hp
    cases hk : vs[k]? with
    | none => simp [hk] at hp
    | some vk =>
      cases hj : vs[j]? with
      | none => simp [hk, hj] at hp
      | some v =>
        simp only [hk, hj, Option.some.injEq] at hp; subst hp
        obtain ⟨st', h1, h2⟩ := assign_case hi ha hk hj
        exact ⟨st', by simpa [Store.step] using h1, h2⟩
  | add k x =>
    simp only [pureStep] at hp
    cases hk : vs[k]? with
    | none => simp [hk] at hp
    | some vk =>
      cases vk with
      | e n => simp [hk] at hp
      | t cs => simp [hk] at hp
      | s xs =>
        simp only [hk, Option.some.injEq] at hp; subst hp
        obtain ⟨st', b, h1, h2⟩ := add_case hi ha x hk
        exact ⟨st', by simp [Store.step, h1], h2⟩
  | addh k j =>
    simp only [pureStep] at hp
    cases hk : vs[k]? with
    | none => simp [hk] at hp
    | some vk =>
      cases hj : vs[j]? with
      | none => cases vk <;> simp [hk, hj] at hp
      | some v =>
        cases vk with
        | e n => simp [hk, hj] at hp
        | t cs => simp [hk, hj] at hp
        | s xs =>
          simp only [hk, hj, Option.some.injEq] at hp; subst hp
          obtain ⟨rj, hrj, hvj⟩ := ha.lookup hj
          have hdj : st.denote j = some v := by rw [ha.den j, hj]
          obtain ⟨st', b, h1, h2, h3⟩ := add_case hi ha v hk
          cases b with
          | false => exact ⟨st', by simp [Store.step, Store.addHandle, hdj, hrj, h1], h2, h3⟩
          | true =>
            have := bump_inc_preserves h2 h3 rj
            exact ⟨_, by simp [Store.step, Store.addHandle, hdj, hrj, h1], this⟩

theorem cow_run : ∀ (ops : List Op) {st : Store} {vs vs' : List Val}, Inv st → Abs st vs →
    pureRun vs ops = some vs' → ∃ st', st.run ops = some st' ∧ Inv st' ∧ Abs st' vs'
  | [], st, vs, vs', hi, ha, hp => by
    simp only [pureRun, Option.some.injEq] at hp; subst hp
    exact ⟨st, rfl, hi, ha⟩
  | op :: ops, st, vs, vs', hi, ha, hp => by
    simp only [pureRun, Option.bind_eq_some_iff] at hp
    obtain ⟨vs1, h1, h2⟩ := hp
    obtain ⟨st1, hs1, hi1, ha1⟩ := cow_step hi ha op h1
    obtain ⟨st', hs', hi', ha'⟩ := cow_run ops hi1 ha1 h2
    exact ⟨st', by simp [Store.run, hs1, hs'], hi', ha'⟩

theorem inv_empty : Inv {} := ⟨by simp, by simp⟩
theorem abs_empty : Abs {} [] := ⟨rfl, by simp [Store.denote]⟩
