import CCVerif.Lemmas.LexPieces
import CCVerif.Lemmas.ParseShaped
import CCVerif.Lemmas.ParserWfLex
set_option linter.unusedVariables false
/-!
`identsRelex_all` (prover-C06g): the hypothesis `ParserWf.IdentsRelex` of `parse_gives_Wf_partial` holds for EVERY text
of both syntaxes — the text of an identifier token, lexed alone with the MATH lexer, is one token of the same kind.

* `matchPat_take` — truncation: a pattern whose longest match on `s` has at most `n` units matches `s.take n` exactly
  as it matches `s` (one lemma per pattern shape of `LexPat`; none of them looks beyond its match).
* `bestRule_take` — the winner on `s` (length `n`) is the winner on `s.take n`: every rule matches at most `n` units
  (`LexP.bestRule_first_aux`), so all rules match the slice as they match `s`.
* ASCII → MATH: the slice of an ASCII identifier token is made of ASCII letters, digits and `_` and does not start
  with `B`; on such a text only the rules whose pattern starts with such a unit can match, and these sub-tables of
  `mathRules` and `asciiRules` are THE SAME LIST (`idRules_same`, `decide`): the keywords `pr… Pr… Fi… card bool red
  debool D R I Z`, `{number}`, `F/P/R{number}`, the two identifier rules and `.` in the same order. So no identifier
  token of the ASCII lexer is a keyword of the MATH lexer.
-/
namespace CCVerif.IdentsRelex
open CCVerif CCVerif.Syntax CCVerif.Generated CCVerif.Lexer CCVerif.Parser CCVerif.Wf

/-! ## truncation of spans, prefixes, index sequences -/

theorem spanLen_take (p : Nat → Bool) : ∀ (s : List Nat) (n : Nat), spanLen p s ≤ n → spanLen p (s.take n) = spanLen p s
  | [], n, _ => by simp [spanLen]
  | c :: r, 0, h => by
    simp only [List.take_zero, spanLen]
    unfold spanLen at h
    split at h
    · omega
    · simp [*]
  | c :: r, n + 1, h => by
    simp only [List.take_succ_cons]
    unfold spanLen
    unfold spanLen at h
    split
    · rename_i hc
      simp only [hc, if_true] at h
      rw [spanLen_take p r n (by omega)]
    · rfl

theorem isPrefix_take : ∀ (l s : List Nat) (n : Nat), isPrefix l (s.take n) = (isPrefix l s && decide (l.length ≤ n))
  | [], s, n => by simp [isPrefix]
  | a :: l, [], n => by simp [isPrefix]
  | a :: l, b :: s, 0 => by simp [isPrefix]
  | a :: l, b :: s, n + 1 => by
    simp only [List.take_succ_cons, isPrefix, isPrefix_take l s n, List.length_cons, Nat.add_le_add_iff_right,
      Bool.and_assoc]

theorem indexTail_take : ∀ (f : Nat) (v : List Nat) (i : Nat), indexTail f v ≤ i →
    indexTail f (v.take i) = indexTail f v
  | 0, v, i, _ => rfl
  | f + 1, [], i, _ => by simp [indexTail]
  | f + 1, c :: r, 0, h => by
    simp only [List.take_zero]
    rw [LexP.indexTail_nil]
    omega
  | f + 1, c :: r, i + 1, h => by
    simp only [List.take_succ_cons]
    by_cases hc : c = 44
    · subst hc
      rw [LexP.indexTail_comma] at h
      rw [LexP.indexTail_comma f (r.take i), LexP.indexTail_comma f r]
      by_cases hk : spanLen isDigit r = 0
      · have hk' : spanLen isDigit (r.take i) = 0 := by rw [spanLen_take _ _ _ (by omega)]; exact hk
        simp [hk, hk']
      · have hk0 : (spanLen isDigit r == 0) = false := by simpa using hk
        rw [hk0] at h
        simp only [Bool.false_eq_true, if_false] at h
        have hk' : spanLen isDigit (r.take i) = spanLen isDigit r := spanLen_take _ _ _ (by omega)
        rw [hk', hk0]
        simp only [Bool.false_eq_true, if_false]
        rw [List.drop_take, indexTail_take f (r.drop (spanLen isDigit r)) (i - spanLen isDigit r) (by omega)]
    · rw [LexP.indexTail_other _ _ _ hc, LexP.indexTail_other _ _ _ hc]

theorem indexLen_take (u : List Nat) (j : Nat) (h : indexLen u ≤ j) : indexLen (u.take j) = indexLen u := by
  unfold indexLen at h ⊢
  simp only [] at h ⊢
  by_cases hk : spanLen isDigit u = 0
  · have hk' : spanLen isDigit (u.take j) = 0 := by rw [spanLen_take _ _ _ (by omega)]; exact hk
    simp [hk, hk']
  · have hk0 : (spanLen isDigit u == 0) = false := by simpa using hk
    rw [hk0] at h
    simp only [Bool.false_eq_true, if_false] at h
    have hk' : spanLen isDigit (u.take j) = spanLen isDigit u := spanLen_take _ _ _ (by omega)
    rw [hk', hk0]
    simp only [Bool.false_eq_true, if_false]
    rw [List.drop_take]
    have hl : (List.take (j - spanLen isDigit u) (List.drop (spanLen isDigit u) u)).length ≤ u.length := by
      simp only [List.length_take, List.length_drop]; omega
    rw [LexP.indexTail_fuel (u.take j).length u.length _ (by simp only [List.length_take, List.length_drop]; omega) hl,
      indexTail_take _ _ _ (by omega)]

/-! ## truncation of one pattern, of the winner -/

/-- **truncation**: a pattern whose longest match on `s` has at most `n` units (or that does not match) matches
`s.take n` exactly as it matches `s` -/
theorem matchPat_take (syn : Syn) (s : List Nat) (n : Nat) (p : LexPat)
    (h : ∀ m, matchPat syn s p = some m → m ≤ n) : matchPat syn (s.take n) p = matchPat syn s p := by
  cases p with
  | lit l =>
    simp only [matchPat] at h ⊢
    rw [isPrefix_take]
    by_cases hp : (!l.isEmpty && isPrefix l s) = true
    · have := h _ (by rw [if_pos hp])
      simp only [Bool.and_eq_true] at hp
      simp [hp.1, hp.2, this]
    · have hp' : (!l.isEmpty && isPrefix l s) = false := by simpa using hp
      rw [← Bool.and_assoc, hp']
      simp
  | withIndex pre =>
    simp only [matchPat] at h ⊢
    rw [isPrefix_take]
    by_cases hp : isPrefix pre s = true
    · simp only [hp, if_true, Bool.true_and] at h ⊢
      by_cases hk : indexLen (s.drop pre.length) = 0
      · simp only [hk, beq_self_eq_true, if_true]
        split
        · rw [List.drop_take, indexLen_take _ _ (by omega), hk]; rfl
        · rfl
      · have hk0 : (indexLen (s.drop pre.length) == 0) = false := by simpa using hk
        have := h _ (by rw [hk0]; rfl)
        have hle : pre.length ≤ n := by omega
        simp only [hle, decide_true, if_true]
        rw [List.drop_take, indexLen_take _ _ (by omega)]
    · simp [hp]
  | withNumber pre =>
    simp only [matchPat] at h ⊢
    rw [isPrefix_take]
    by_cases hp : isPrefix pre s = true
    · simp only [hp, if_true, Bool.true_and] at h ⊢
      by_cases hk : spanLen isDigit (s.drop pre.length) = 0
      · simp only [hk, beq_self_eq_true, if_true]
        split
        · rw [List.drop_take, spanLen_take _ _ _ (by omega), hk]; rfl
        · rfl
      · have hk0 : (spanLen isDigit (s.drop pre.length) == 0) = false := by simpa using hk
        have := h _ (by rw [hk0]; rfl)
        have hle : pre.length ≤ n := by omega
        simp only [hle, decide_true, if_true]
        rw [List.drop_take, spanLen_take _ _ _ (by omega)]
    · simp [hp]
  | number =>
    simp only [matchPat] at h ⊢
    by_cases hk : spanLen isDigit s = 0
    · rw [spanLen_take _ _ _ (by omega)]
    · have hk0 : (spanLen isDigit s == 0) = false := by simpa using hk
      have := h _ (by rw [hk0]; rfl)
      rw [spanLen_take _ _ _ this]
  | globalId =>
    cases s with
    | nil => simp [matchPat]
    | cons c r =>
      simp only [matchPat] at h ⊢
      by_cases hc : isGlobalStart c = true
      · simp only [hc, if_true] at h ⊢
        have := h _ rfl
        obtain ⟨n', rfl⟩ : ∃ n', n = n' + 1 := ⟨n - 1, by omega⟩
        simp only [List.take_succ_cons, hc, if_true]
        rw [spanLen_take _ _ _ (by omega)]
      · cases n with
        | zero => simp [hc]
        | succ n' => simp [hc]
  | localId =>
    cases s with
    | nil => simp [matchPat]
    | cons c r =>
      simp only [matchPat] at h ⊢
      by_cases hc : isLocalStart syn c = true
      · simp only [hc, if_true] at h ⊢
        have := h _ rfl
        obtain ⟨n', rfl⟩ : ∃ n', n = n' + 1 := ⟨n - 1, by omega⟩
        simp only [List.take_succ_cons, hc, if_true]
        rw [spanLen_take _ _ _ (by omega)]
      · cases n with
        | zero => simp [hc]
        | succ n' => simp [hc]
  | newline =>
    cases s with
    | nil => simp [matchPat]
    | cons c r =>
      by_cases hc : c = 10
      · subst hc
        have := h 1 (by simp [matchPat])
        obtain ⟨n', rfl⟩ : ∃ n', n = n' + 1 := ⟨n - 1, by omega⟩
        simp [matchPat]
      · cases n with
        | zero => simp [matchPat, hc]
        | succ n' =>
          simp only [List.take_succ_cons, matchPat]
          split
          · rename_i heq; simp at heq; exact absurd heq.1 hc
          · split
            · rename_i heq; simp at heq; exact absurd heq.1 hc
            · rfl
  | blanks =>
    simp only [matchPat] at h ⊢
    by_cases hk : spanLen (fun c => c == 32 || c == 9) s = 0
    · rw [spanLen_take _ _ _ (by omega)]
    · have hk0 : (spanLen (fun c => c == 32 || c == 9) s == 0) = false := by simpa using hk
      have := h _ (by rw [hk0]; rfl)
      rw [spanLen_take _ _ _ this]
  | ws =>
    simp only [matchPat] at h ⊢
    by_cases hk : spanLen (fun c => c == 32 || c == 9 || c == 13 || c == 10) s = 0
    · rw [spanLen_take _ _ _ (by omega)]
    · have hk0 : (spanLen (fun c => c == 32 || c == 9 || c == 13 || c == 10) s == 0) = false := by simpa using hk
      have := h _ (by rw [hk0]; rfl)
      rw [spanLen_take _ _ _ this]
  | any =>
    cases s with
    | nil => simp [matchPat]
    | cons c r =>
      simp only [matchPat] at h ⊢
      by_cases hc : (c == 10) = true
      · cases n with
        | zero => simp [hc]
        | succ n' => simp [hc]
      · simp only [hc, Bool.false_eq_true, if_false] at h ⊢
        have := h 1 rfl
        obtain ⟨n', rfl⟩ : ∃ n', n = n' + 1 := ⟨n - 1, by omega⟩
        simp [hc]
  | eof => rfl

/-- the winner on `s` is the winner on the slice it matched -/
theorem bestRule_take (syn : Syn) (s : List Nat) (rules : List LexRule) (n : Nat) (a : LexAct)
    (h : bestRule syn s rules none = some (n, a)) : bestRule syn (s.take n) rules none = some (n, a) := by
  rw [← h]
  exact LexP.bestRule_congr syn _ _ rules none fun r hr =>
    matchPat_take syn s n r.pat ((LexP.bestRule_first_aux syn s rules none n a h).2 r hr)

/-! ## ASCII → MATH on identifier spellings -/

theorem alnum_ascii_range {c : Nat} (h : isAlnum .ascii c = true) : 48 ≤ c ∧ c ≤ 122 := by
  simp only [isAlnum, isDigit, isAlpha, isUpper, isLower, Bool.or_eq_true, Bool.and_eq_true, beq_iff_eq,
    decide_eq_true_eq] at h
  have : ¬ (Syn.ascii = Syn.math) := by decide
  simp only [this, false_and, or_false] at h
  omega

theorem alnum_ascii_math {c : Nat} (h : isAlnum .ascii c = true) : isAlnum .math c = true := by
  simp only [isAlnum, isDigit, isAlpha, isUpper, isLower, Bool.or_eq_true, Bool.and_eq_true, beq_iff_eq,
    decide_eq_true_eq] at h ⊢
  have : ¬ (Syn.ascii = Syn.math) := by decide
  simp only [this, false_and, or_false] at h
  omega

theorem localStart_ascii_math {c : Nat} (h : c ≤ 122) : isLocalStart .math c = isLocalStart .ascii c := by
  have e : (decide (945 ≤ c)) = false := by simp; omega
  simp [isLocalStart, isLower, e]

/-- could the pattern match a text whose first unit is `_`, a digit or an ASCII letter other than `B`? -/
def idHead : LexPat → Bool
  | .lit (d :: _) => isAlnum .ascii d && d != 66
  | .lit [] => false
  | .withIndex (d :: _) => isAlnum .ascii d && d != 66
  | .withNumber (d :: _) => isAlnum .ascii d && d != 66
  | .withIndex [] | .withNumber [] => true
  | .number | .globalId | .localId | .any => true
  | .newline | .blanks | .ws | .eof => false

/-- **the two tables agree on identifier-like texts**: the rules that can match a text starting with `_`, a digit or
an ASCII letter other than `B` are the same list in `mathRules` and in `asciiRules` (same order): `pr… Pr… Fi… card
bool red debool D R I Z {number} F… P… R… {global_id} {local_id} .` -/
theorem idRules_same : mathRules.filter (fun r => idHead r.pat) = asciiRules.filter (fun r => idHead r.pat) := by
  decide +kernel

theorem head_ne {c d : Nat} (hc : isAlnum .ascii c = true) (hb : c ≠ 66) (hd : (isAlnum .ascii d && d != 66) = false) :
    (d == c) = false := by
  rw [beq_eq_false_iff_ne]
  rintro rfl
  simp [hc, hb] at hd

theorem idHead_none (syn : Syn) (c : Nat) (r : List Nat) (hc : isAlnum .ascii c = true) (hb : c ≠ 66) (p : LexPat)
    (hp : idHead p = false) : matchPat syn (c :: r) p = none := by
  have hr := alnum_ascii_range hc
  cases p with
  | lit l =>
    cases l with
    | nil => simp [matchPat]
    | cons d l => simp [matchPat, isPrefix, head_ne hc hb hp]
  | withIndex l =>
    cases l with
    | nil => cases hp
    | cons d l => simp [matchPat, isPrefix, head_ne hc hb hp]
  | withNumber l =>
    cases l with
    | nil => cases hp
    | cons d l => simp [matchPat, isPrefix, head_ne hc hb hp]
  | number => cases hp
  | globalId => cases hp
  | localId => cases hp
  | any => cases hp
  | newline =>
    simp only [matchPat]
    split
    · rename_i heq; simp at heq; omega
    · rfl
  | blanks =>
    have : (c == 32 || c == 9) = false := by simp; omega
    simp [matchPat, spanLen, this]
  | ws =>
    have : (c == 32 || c == 9 || c == 13 || c == 10) = false := by simp; omega
    simp [matchPat, spanLen, this]
  | eof => rfl

theorem bestRule_cons_none (syn : Syn) (s : List Nat) (r : LexRule) (rs : List LexRule) (best : Option (Nat × LexAct))
    (h : matchPat syn s r.pat = none) : bestRule syn s (r :: rs) best = bestRule syn s rs best := by
  rw [bestRule]
  simp only [h]

theorem bestRule_filter (syn : Syn) (s : List Nat) (q : LexRule → Bool) : ∀ (rules : List LexRule)
    (best : Option (Nat × LexAct)), (∀ r ∈ rules, q r = false → matchPat syn s r.pat = none) →
    bestRule syn s (rules.filter q) best = bestRule syn s rules best
  | [], best, _ => rfl
  | r :: rs, best, h => by
    have hrs : ∀ r ∈ rs, q r = false → matchPat syn s r.pat = none := fun r hr => h r (List.mem_cons_of_mem _ hr)
    by_cases hq : q r = true
    · rw [List.filter_cons_of_pos hq]
      unfold bestRule
      split
      · exact bestRule_filter syn s q rs _ hrs
      · split <;> exact bestRule_filter syn s q rs _ hrs
      · exact bestRule_filter syn s q rs _ hrs
    · have hq' : q r = false := by simpa using hq
      rw [List.filter_cons_of_neg hq, bestRule_cons_none _ _ _ _ _ (h r (List.mem_cons_self ..) hq')]
      exact bestRule_filter syn s q rs _ hrs

/-- the winner only depends on the match lengths of the rules (two syntaxes, two lists of rules with the same
matches) -/
theorem bestRule_congr2 (syn syn' : Syn) (s : List Nat) (rules : List LexRule) (best : Option (Nat × LexAct))
    (h : ∀ r ∈ rules, matchPat syn s r.pat = matchPat syn' s r.pat) :
    bestRule syn s rules best = bestRule syn' s rules best := by
  induction rules generalizing best with
  | nil => rfl
  | cons r rs ih =>
    have hr := h r (List.mem_cons_self ..)
    have hrs : ∀ r ∈ rs, matchPat syn s r.pat = matchPat syn' s r.pat := fun r hr => h r (List.mem_cons_of_mem _ hr)
    unfold bestRule
    rw [hr]
    split
    · exact ih _ hrs
    · split <;> exact ih _ hrs
    · exact ih _ hrs

/-- on a text of ASCII letters, digits and `_` every pattern matches the same in both syntaxes -/
theorem matchPat_syn (w : List Nat) (hw : w.all (isAlnum .ascii) = true) (p : LexPat) :
    matchPat .math w p = matchPat .ascii w p := by
  cases p with
  | globalId =>
    cases w with
    | nil => rfl
    | cons c r =>
      simp only [List.all_cons, Bool.and_eq_true] at hw
      have hm : r.all (isAlnum .math) = true := by
        rw [List.all_eq_true] at hw ⊢
        exact fun x hx => alnum_ascii_math (hw.2 x hx)
      simp only [matchPat, LexP.spanLen_all _ _ hw.2, LexP.spanLen_all _ _ hm]
  | localId =>
    cases w with
    | nil => rfl
    | cons c r =>
      simp only [List.all_cons, Bool.and_eq_true] at hw
      have hm : r.all (isAlnum .math) = true := by
        rw [List.all_eq_true] at hw ⊢
        exact fun x hx => alnum_ascii_math (hw.2 x hx)
      simp only [matchPat, LexP.spanLen_all _ _ hw.2, LexP.spanLen_all _ _ hm,
        localStart_ascii_math (alnum_ascii_range hw.1).2]
  | _ => rfl

/-- **the MATH lexer picks the rule the ASCII lexer picks** on a text of ASCII letters, digits and `_` that does not
start with `B` -/
theorem bestRule_ascii_math (c : Nat) (r : List Nat) (hc : isAlnum .ascii c = true) (hb : c ≠ 66)
    (hr : r.all (isAlnum .ascii) = true) :
    bestRule .math (c :: r) mathRules none = bestRule .ascii (c :: r) asciiRules none := by
  rw [← bestRule_filter .math (c :: r) (fun r => idHead r.pat) mathRules none
      (fun x _ hx => idHead_none .math c r hc hb x.pat hx),
    ← bestRule_filter .ascii (c :: r) (fun r => idHead r.pat) asciiRules none
      (fun x _ hx => idHead_none .ascii c r hc hb x.pat hx), idRules_same]
  exact bestRule_congr2 _ _ _ _ _ fun x _ => matchPat_syn (c :: r) (by simp [hc, hr]) x.pat

/-! ## one identifier token alone -/

/-- the five identifier kinds -/
def isIdTok : Tok → Bool
  | .ID_LOCAL | .ID_GLOBAL | .ID_FUNCTION | .ID_PREDICATE | .ID_RADICAL => true
  | _ => false

/-- a spelling of an identifier kind is made of identifier units and does not start with `B` -/
theorem spelled_alnum (syn : Syn) (t : Tok) (c : Nat) (w : List Nat) (hid : isIdTok t = true)
    (h : ParseShaped.spelledAs syn t (c :: w) = true) :
    isAlnum syn c = true ∧ c ≠ 66 ∧ w.all (isAlnum syn) = true := by
  have hdig : ∀ ds : List Nat, ds.all isDigit = true → ds.all (isAlnum syn) = true := by
    intro ds hds
    rw [List.all_eq_true] at hds ⊢
    exact fun x hx => LexP.isDigit_alnum (hds x hx)
  have hup : ∀ x : Nat, x = 70 ∨ x = 80 ∨ x = 82 → isAlnum syn x = true ∧ x ≠ 66 := by
    intro x hx
    rcases hx with rfl | rfl | rfl <;> exact ⟨by cases syn <;> rfl, by decide⟩
  cases t <;> try (exact absurd hid (by decide))
  case ID_FUNCTION =>
    simp only [ParseShaped.spelledAs] at h
    split at h
    · rename_i ds heq
      simp only [List.cons.injEq] at heq
      obtain ⟨rfl, rfl⟩ := heq
      simp only [Bool.and_eq_true] at h
      exact ⟨(hup _ (Or.inl rfl)).1, (hup _ (Or.inl rfl)).2, hdig _ h.2⟩
    · cases h
  case ID_PREDICATE =>
    simp only [ParseShaped.spelledAs] at h
    split at h
    · rename_i ds heq
      simp only [List.cons.injEq] at heq
      obtain ⟨rfl, rfl⟩ := heq
      simp only [Bool.and_eq_true] at h
      exact ⟨(hup _ (Or.inr (Or.inl rfl))).1, (hup _ (Or.inr (Or.inl rfl))).2, hdig _ h.2⟩
    · cases h
  case ID_RADICAL =>
    simp only [ParseShaped.spelledAs] at h
    split at h
    · rename_i ds heq
      simp only [List.cons.injEq] at heq
      obtain ⟨rfl, rfl⟩ := heq
      simp only [Bool.and_eq_true] at h
      exact ⟨(hup _ (Or.inr (Or.inr rfl))).1, (hup _ (Or.inr (Or.inr rfl))).2, hdig _ h.2⟩
    · cases h
  case ID_GLOBAL =>
    simp only [ParseShaped.spelledAs, Bool.and_eq_true] at h
    refine ⟨LexP.isGlobalStart_alnum h.1, ?_, h.2⟩
    have := h.1
    simp only [isGlobalStart, Bool.and_eq_true, bne_iff_ne] at this
    exact this.2
  case ID_LOCAL =>
    simp only [ParseShaped.spelledAs, Bool.and_eq_true] at h
    refine ⟨LexP.isLocalStart_alnum h.1, ?_, h.2⟩
    rintro rfl
    cases syn <;> simp [isLocalStart, isLower] at h

/-- a text that the MATH table matches as a whole with a token rule lexes as that one token -/
theorem lexKinds_single (c : Nat) (w : List Nat) (n : Nat) (t : Tok) (ht : t ≠ .END) (hn : w.length ≤ n)
    (hb : bestRule .math (c :: w) (rulesOf .math) none = some (n + 1, .tok t)) :
    lexKinds .math (c :: w) = some [t] := by
  have hd : List.drop (n + 1) (c :: w) = [] := by
    apply List.drop_eq_nil_of_le
    simp only [List.length_cons]; omega
  unfold lexKinds lexRaw
  simp only [List.length_cons, lexGo, hb, hd, LexP.eofTok_rules, Option.map_some, List.map_cons, List.map_nil,
    Option.some.injEq]
  have e1 : (t != .END) = true := by cases t <;> first | rfl | exact absurd rfl ht
  have e2 : (Tok.END != Tok.END) = false := rfl
  simp only [List.filter, e1, e2]

theorem stringUnits_unitsToString (w : List Nat) (h : ∀ x ∈ w, isAlnum .math x = true) :
    stringUnits (unitsToString w) = w := by
  unfold stringUnits unitsToString
  rw [String.toList_ofList, List.map_map]
  conv => rhs; rw [← List.map_id w]
  apply List.map_congr_left
  intro x hx
  have hx' := h x hx
  have : x < 1000 := by
    simp only [isAlnum, isDigit, isAlpha, isUpper, isLower, Bool.or_eq_true, Bool.and_eq_true, beq_iff_eq,
      decide_eq_true_eq] at hx'
    omega
  simp only [Function.comp, id]
  have hv : x.isValidChar := Or.inl (by omega)
  simp [Char.ofNat, hv, Char.ofNatAux, Char.toNat]

/-- **the slice of an identifier token, lexed alone (MATH), is one token of the same kind** — both syntaxes, at every
position of every text -/
theorem best_relex (syn : Syn) (c : Nat) (r : List Nat) (n : Nat) (t : Tok) (hid : isIdTok t = true)
    (hb : bestRule syn (c :: r) (rulesOf syn) none = some (n + 1, .tok t)) :
    lexesAs t (unitsToString ((c :: r).take (n + 1))) = true := by
  have hw := bestRule_take syn (c :: r) (rulesOf syn) (n + 1) _ hb
  have hsp := ParseShaped.best_spelled syn (c :: r) (n + 1) t hb
  rw [List.take_succ_cons] at hw hsp ⊢
  obtain ⟨h1, h2, h3⟩ := spelled_alnum syn t c _ hid hsp
  have hlen : (r.take n).length ≤ n := by simp only [List.length_take]; omega
  have ht : t ≠ .END := by rintro rfl; cases hid
  have hm : bestRule .math (c :: r.take n) (rulesOf .math) none = some (n + 1, .tok t) ∧
      ∀ x ∈ c :: r.take n, isAlnum .math x = true := by
    cases syn with
    | math =>
      refine ⟨hw, ?_⟩
      rw [List.all_eq_true] at h3
      intro x hx
      rcases List.mem_cons.1 hx with rfl | hx
      · exact h1
      · exact h3 x hx
    | ascii =>
      refine ⟨?_, ?_⟩
      · show bestRule .math (c :: r.take n) mathRules none = _
        rw [bestRule_ascii_math c _ h1 h2 h3]
        exact hw
      · rw [List.all_eq_true] at h3
        intro x hx
        rcases List.mem_cons.1 hx with rfl | hx
        · exact alnum_ascii_math h1
        · exact alnum_ascii_math (h3 x hx)
  unfold lexesAs
  rw [stringUnits_unitsToString _ hm.2, lexKinds_single c _ n t ht hlen hm.1]
  cases t <;> first | rfl | cases hid

/-! ## along the scanning loop -/

theorem lexGo_tokens (syn : Syn) (P : Tok → List Nat → Prop) (hend : P .END [])
    (hstep : ∀ c r n t, bestRule syn (c :: r) (rulesOf syn) none = some (n + 1, .tok t) → P t ((c :: r).take (n + 1))) :
    ∀ (fuel : Nat) (s : List Nat) (lb col : Nat) (ts : List RawTok),
    lexGo syn (rulesOf syn) fuel s lb col = some ts → ∀ tok ∈ ts, P tok.id tok.text := by
  intro fuel
  induction fuel with
  | zero => intro s lb col ts h; simp [lexGo] at h
  | succ fuel ih =>
    intro s lb col ts h tok htok
    cases s with
    | nil =>
      simp only [lexGo, LexP.eofTok_rules, Option.some.injEq] at h
      subst h
      rw [List.mem_singleton.1 htok]
      exact hend
    | cons c r =>
      simp only [lexGo] at h
      cases hb : bestRule syn (c :: r) (rulesOf syn) none with
      | none => rw [hb] at h; cases h
      | some na =>
        obtain ⟨n, act⟩ := na
        rw [hb] at h
        cases n with
        | zero => simp at h
        | succ n =>
          simp only at h
          cases act with
          | tok t =>
            simp only at h
            split at h
            · rename_i rest hrest
              cases h
              rcases List.mem_cons.1 htok with e | hin
              · rw [e]; exact hstep c r n t hb
              · exact ih _ _ _ _ hrest tok hin
            · cases h
          | skip => exact ih _ _ _ _ h tok htok
          | newline => exact ih _ _ _ _ h tok htok

/-- **identsRelex_all**: for both syntaxes and EVERY text, the text of every identifier token of the lexer's stream,
lexed alone with the MATH lexer, is one token of the same kind -/
theorem identsRelex_all (syn : Syn) (text : List Nat) (ts : List LTok) (h : lex syn text = some ts) :
    ParserWf.IdentsRelex ts := by
  unfold lex at h
  cases hl : lexRaw syn text with
  | none => rw [hl] at h; cases h
  | some rs =>
    rw [hl] at h
    simp only [Option.map_some, Option.some.injEq] at h
    subst h
    have key := lexGo_tokens syn (fun t w => isIdTok t = true → lexesAs t (unitsToString w) = true)
      (fun hid => by cases hid) (fun c r n t hb hid => best_relex syn c r n t hid hb) _ _ _ _ rs hl
    intro t ht s hs
    obtain ⟨r, hrm, rfl⟩ := List.mem_map.1 ht
    obtain ⟨id, lo, hi, w⟩ := r
    have k := key _ hrm
    simp only [RawTok.toTok] at hs k ⊢
    cases id <;> simp only [parseData, TokData.text.injEq, reduceCtorEq] at hs <;> subst hs <;> exact k rfl

end CCVerif.IdentsRelex
