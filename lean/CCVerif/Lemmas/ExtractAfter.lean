import CCVerif.Lemmas.ConceptSpec
/-!
C08: the names a text mentions AFTER a translation are the names it mentioned before, with the map applied — the
text-level counterpart of the law `mentions_ren` of `Lemmas/RenameGen.lean`. From `relex_lexMath` (the token stream
of the translated text is the old one with the replaced tokens re-spelled) and `globals_eq_tokens`.
Hypothesis: every new name that replaces a global word of the text is itself a global identifier spelling.
-/
namespace CCVerif.Translate
open CCVerif.Syntax CCVerif.Generated CCVerif.Lexer CCVerif.Strings CCVerif.Translate.Spec

/-- every name that replaces a global word `b` of the list lexes, on its own, as one global-name token -/
def GlobalSpellings (tr : Translator) (names : List Bytes) : Prop :=
  ∀ b ∈ names, ∀ n, tr b = some n → n ≠ b → ∃ k, idClass n = some k ∧ filterGlobals k = true

theorem isChanged_globals {tr : Translator} {t : RawTok} (h : isChanged filterGlobals tr t = true) :
    filterGlobals t.id = true ∧ ∃ n, tr (encode t.text) = some n ∧ n ≠ encode t.text := by
  unfold isChanged at h
  simp only [Bool.and_eq_true] at h
  refine ⟨h.1, ?_⟩
  cases ht : tr (encode t.text) with
  | none => rw [ht] at h; exact absurd h.2 (by simp)
  | some n =>
    rw [ht] at h
    exact ⟨n, rfl, by simpa using h.2⟩

theorem not_changed_getD {tr : Translator} {t : RawTok} (hf : filterGlobals t.id = true)
    (h : isChanged filterGlobals tr t = false) : (tr (encode t.text)).getD (encode t.text) = encode t.text := by
  unfold isChanged at h
  rw [hf, Bool.true_and] at h
  cases ht : tr (encode t.text) with
  | none => rfl
  | some n =>
    rw [ht] at h
    simp only [Option.getD_some]
    simpa using h

/-- the expected token list of the re-lexed text, restricted to the global names, is the old extraction mapped -/
theorem relexExpected_globals (tr : Translator) : ∀ (toks : List RawTok) (exp : List (Tok × Bytes)),
    relexExpected filterGlobals tr toks = some exp → GlobalSpellings tr (globToks toks) →
    (exp.filter fun p => filterGlobals p.1).map (·.2) = (globToks toks).map fun b => (tr b).getD b := by
  intro toks
  induction toks with
  | nil => intro exp h _; simp [relexExpected, mapM?] at h; subst h; rfl
  | cons t ts ih =>
    intro exp h hg
    unfold relexExpected at h
    simp only [mapM?] at h
    split at h
    · next b bs hb hbs =>
      cases h
      have hg' : GlobalSpellings tr (globToks ts) := by
        intro x hx
        apply hg x
        rw [globToks_cons]
        split
        · exact List.mem_cons_of_mem _ hx
        · exact hx
      have ih' := ih bs hbs hg'
      rw [globToks_cons]
      cases hc : isChanged filterGlobals tr t with
      | true =>
        obtain ⟨hf, n, hn, hne⟩ := isChanged_globals hc
        have hnt : newText filterGlobals tr t = n := by simp [newText, hf, hn]
        rw [hc] at hb
        simp only [if_true, hnt] at hb
        obtain ⟨k, hk, hkg⟩ := hg (encode t.text) (by rw [globToks_cons, hf]; exact List.mem_cons_self ..) n hn hne
        rw [hk] at hb
        cases hb
        rw [List.filter_cons, if_pos hkg, hf]
        simp only [if_true, List.map_cons, hn, Option.getD_some]
        rw [ih']
      | false =>
        rw [hc] at hb
        simp only [Bool.false_eq_true, if_false] at hb
        cases hb
        rw [List.filter_cons]
        cases hf : filterGlobals t.id with
        | true =>
          simp only [if_true, List.map_cons]
          rw [not_changed_getD hf hc, ih']
        | false =>
          simp only [Bool.false_eq_true, if_false]
          exact ih'
    · cases h

/-- `relexExpected` exists when the new names are global identifier spellings -/
theorem relexExpected_isSome (tr : Translator) (toks : List RawTok) (hg : GlobalSpellings tr (globToks toks)) :
    ∃ exp, relexExpected filterGlobals tr toks = some exp := by
  unfold relexExpected
  have hmem : ∀ t ∈ toks, filterGlobals t.id = true → encode t.text ∈ globToks toks := by
    intro t ht hf
    unfold globToks
    exact List.mem_map.2 ⟨t, List.mem_filter.2 ⟨ht, hf⟩, rfl⟩
  obtain ⟨exp, he, _⟩ := mapM?_forall₂ (fun t =>
      if isChanged filterGlobals tr t then (idClass (newText filterGlobals tr t)).map (fun k => (k, newText filterGlobals tr t))
      else some (t.id, encode t.text)) (fun _ _ => True) toks (by
    intro t ht
    cases hc : isChanged filterGlobals tr t with
    | false => exact ⟨(t.id, encode t.text), by simp, trivial⟩
    | true =>
      obtain ⟨hf, n, hn, hne⟩ := isChanged_globals hc
      obtain ⟨k, hk, _⟩ := hg _ (hmem t ht hf) n hn hne
      have hnt : newText filterGlobals tr t = n := by simp [newText, hf, hn]
      exact ⟨(k, n), by simp [hnt, hk], trivial⟩)
  exact ⟨exp, he⟩

theorem globToks_pairs (ts : List RawTok) :
    globToks ts = ((ts.map fun t => (t.id, encode t.text)).filter fun p => filterGlobals p.1).map (·.2) := by
  induction ts with
  | nil => rfl
  | cons t ts ih =>
    rw [globToks_cons, List.map_cons, List.filter_cons]
    split
    · rw [List.map_cons, ih]
    · exact ih

/-- **the mentions of the translated text are the translated mentions** -/
theorem globals_after_translate (tr : Translator) (cps : List Nat) (hv : ∀ c ∈ cps, scalar c)
    (hg : GlobalSpellings tr (globalsOf cps)) :
    ∃ cps', decode (translateWords false tr cps).1 = some cps' ∧
      globalsOf cps' = (globalsOf cps).map fun b => (tr b).getD b := by
  obtain ⟨toks, hl⟩ := lexMath_total cps
  have hgt : globalsOf cps = globToks toks := globals_eq_tokens cps toks hl
  rw [hgt] at hg ⊢
  obtain ⟨exp, he⟩ := relexExpected_isSome tr toks hg
  have hf : ∀ k, filterGlobals k = true → filterIdentifiers k = true := fun k h => filterOf_id false k h
  obtain ⟨h1, h2⟩ := relex_lexMath filterGlobals hf tr cps hv toks hl exp he
  rw [words_eq_tokens false tr cps toks hl]
  refine ⟨_, h1, ?_⟩
  cases hl' : lexMath (weaveC filterGlobals tr cps 0 toks) with
  | none => rw [hl'] at h2; cases h2
  | some toks' =>
    rw [hl'] at h2
    simp only [Option.map_some, Option.some.injEq] at h2
    rw [globals_eq_tokens _ toks' hl']
    show globToks toks' = _
    rw [globToks_pairs, h2]
    exact relexExpected_globals tr toks exp he hg

end CCVerif.Translate
