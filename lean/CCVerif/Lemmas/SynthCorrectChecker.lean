import CCVerif.Lemmas.CheckerRename
import CCVerif.Lemmas.SynthCorrect
/-!
C12, the SEMANTIC clause: the type-checker analysis of the generic machine (`checkerA` / `checkerR`,
C07 / C08) with a CONSTANT `TraitsFor` is content-only (`ContentOnly`, Lemmas/SynthCorrect.lean): it
reads the constituent's alias, kind and definition tree and the context, not its uid; the skeleton is
read through `traitsOf` only. Hence `SchemaGen.merge_entries` / `rename_entries` apply to it (with
`checkerR_lawful`, `checkerEquivariance`). Not imported by Properties/C12.lean (the theorems there are
generic); stated here so that the instance is on record. Only the shape of `analyseC` is used, nothing
of the checker's rules.
-/
namespace CCVerif.SchemaGen
open CCVerif CCVerif.Types

theorem checkerA_contentOnly (traits : TraitEnv) : ContentOnly (checkerA (fun _ => traits)) :=
  ⟨fun _ _ _ _ _ => rfl⟩

theorem checkerR_contentOnly (traits : TraitEnv) : ContentOnly (checkerR (fun _ => traits)) :=
  ⟨fun _ _ _ _ _ => rfl⟩

end CCVerif.SchemaGen
