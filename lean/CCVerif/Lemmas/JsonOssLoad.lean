import CCVerif.Lemmas.JsonOss
import CCVerif.Lemmas.Oss
/-! `LoadPict` on ANY list of decoded items: one entry and one grid cell per loaded pictogram (C10, OSS document). -/
namespace CCVerif.JsonOss
open CCVerif.Json
open CCVerif.Oss (Pid Pos)

theorem loadPict_keys (env : Env) (loaded l : List Pict) (p : Pict)
    (hu : (loaded.map (·.uid)).Nodup) (hc : (loaded.map (·.pos)).Nodup) (h : loadPict env loaded p = .ok l) :
    (l.map (·.uid)).Nodup ∧ (l.map (·.pos)).Nodup ∧ ∃ q, l = loaded ++ [q] ∧ q.src = p.src ∧ q.op = p.op := by
  have hfree : ∀ pos, (gridOf loaded).contains pos = false → pos ∉ loaded.map (·.pos) := by
    intro pos hn hm
    have : (gridOf loaded).contains pos = true := by
      rw [CCVerif.Oss.Grid.contains_iff]
      obtain ⟨q, hq, rfl⟩ := List.mem_map.1 hm
      exact List.mem_map.2 ⟨(q.pos, q.uid), List.mem_map.2 ⟨q, hq, rfl⟩, rfl⟩
    rw [this] at hn; cases hn
  have key : ∀ (uid : Nat) (pos : Pos), uid ∉ loaded.map (·.uid) → pos ∉ loaded.map (·.pos) →
      l = loaded ++ [{ p with uid := uid, pos := pos }] →
      (l.map (·.uid)).Nodup ∧ (l.map (·.pos)).Nodup ∧ ∃ q, l = loaded ++ [q] ∧ q.src = p.src ∧ q.op = p.op := by
    intro uid pos h1 h2 hl
    subst hl
    refine ⟨?_, ?_, _, rfl, rfl, rfl⟩
    · simp only [List.map_append, List.map_cons, List.map_nil]
      rw [List.nodup_append]
      exact ⟨hu, by simp, fun x hx y hy => by simp at hy; subst hy; rintro rfl; exact h1 hx⟩
    · simp only [List.map_append, List.map_cons, List.map_nil]
      rw [List.nodup_append]
      exact ⟨hc, by simp, fun x hx y hy => by simp at hy; subst hy; rintro rfl; exact h2 hx⟩
  have hposOK : ∀ pos, (if ((gridOf loaded).cell p.pos).isSome = true then (gridOf loaded).closestFreePos p.pos else some p.pos) = some pos →
      pos ∉ loaded.map (·.pos) := by
    intro pos hp
    split at hp
    · exact hfree _ (by rw [Bool.eq_false_iff]; intro hcon; exact CCVerif.Oss.Grid.closestFreePos_free hp (CCVerif.Oss.Grid.contains_iff.1 hcon))
    · rename_i hcell
      injection hp with hp; subst hp
      apply hfree
      rw [Bool.eq_false_iff]; intro hcon
      exact hcell (CCVerif.Oss.Grid.cell_isSome_iff.2 (CCVerif.Oss.Grid.contains_iff.1 hcon))
  unfold loadPict at h
  by_cases hcell : ((gridOf loaded).cell p.pos).isSome = true
  · cases hq : (gridOf loaded).closestFreePos p.pos with
    | none => simp only [hcell, hq, bind, Except.bind, if_true] at h; cases h
    | some pos =>
      have hp := hposOK pos (by rw [if_pos hcell, hq])
      by_cases hid : (loaded.map (·.uid)).contains p.uid = true
      · by_cases hf : (loaded.map (·.uid)).contains (env.fresh (loaded.map (·.uid))) = true
        · simp only [hcell, hq, hid, hf, bind, Except.bind, pure, Except.pure, if_true] at h; cases h
        · simp only [hcell, hq, hid, hf, bind, Except.bind, pure, Except.pure, if_true, if_false] at h
          injection h with h
          exact key _ pos (by simpa using hf) hp h.symm
      · simp only [hcell, hq, hid, bind, Except.bind, pure, Except.pure, if_true, if_false] at h
        injection h with h
        exact key _ pos (by simpa using hid) hp h.symm
  · have hp := hposOK p.pos (by rw [if_neg hcell])
    by_cases hid : (loaded.map (·.uid)).contains p.uid = true
    · by_cases hf : (loaded.map (·.uid)).contains (env.fresh (loaded.map (·.uid))) = true
      · simp only [hcell, hid, hf, bind, Except.bind, pure, Except.pure, if_true, if_false] at h; cases h
      · simp only [hcell, hid, hf, bind, Except.bind, pure, Except.pure, if_true, if_false] at h
        injection h with h
        exact key _ p.pos (by simpa using hf) hp h.symm
    · simp only [hcell, hid, bind, Except.bind, pure, Except.pure, if_true, if_false] at h
      injection h with h
      exact key _ p.pos (by simpa using hid) hp h.symm

theorem loadPicts_keys (env : Env) : ∀ (ps loaded l : List Pict),
    (loaded.map (·.uid)).Nodup → (loaded.map (·.pos)).Nodup → (∀ p ∈ loaded ++ ps, p.src.isSome = true) →
    loadPicts env loaded ps = .ok l →
    (l.map (·.uid)).Nodup ∧ (l.map (·.pos)).Nodup ∧ (∀ p ∈ l, p.src.isSome = true) ∧ l.length = loaded.length + ps.length
  | [], loaded, l, hu, hc, hs, h => by
    simp only [loadPicts, pure, Except.pure] at h
    injection h with h; subst h
    exact ⟨hu, hc, by simpa using hs, by simp⟩
  | p :: ps, loaded, l, hu, hc, hs, h => by
    unfold loadPicts at h
    simp only [bind, Except.bind] at h
    split at h
    · cases h
    · rename_i l1 h1
      obtain ⟨hu1, hc1, q, rfl, hq, _⟩ := loadPict_keys env loaded l1 p hu hc h1
      have := loadPicts_keys env ps (loaded ++ [q]) l hu1 hc1 (by
        intro x hx
        simp only [List.append_assoc, List.cons_append, List.nil_append, List.mem_append, List.mem_cons] at hx
        rcases hx with hx | rfl | hx
        · exact hs x (by simp [hx])
        · rw [hq]; exact hs p (by simp)
        · exact hs x (by simp [hx])) h
      refine ⟨this.1, this.2.1, this.2.2.1, ?_⟩
      rw [this.2.2.2]; simp; omega
end CCVerif.JsonOss
