import CCVerif.Lemmas.CheckerRename
/-!
C08, the checker instance: a CONCRETE admissible renaming — the transposition `old ↔ new` of two
names that are neither `Z`, `R0` nor radicals, applied both to the global identifier tokens and to
the base names of types (`CRen.plain`) — and a decidable sufficient condition (`plainOK`) for the
side conditions `TreeOK`: in the tree, `old` / `new` are not the text of a radical token, not the
name of a called function, not the variable of an argument declaration, and not a non-global
declared name. This covers renaming every constituent that is not a called function (base sets,
constants, structures, terms, statements) without any assumption on how the other names are spelled;
renaming a function that IS called needs a `τ` that also rewrites the mangled radicals `R1F1` (the law
`NodeOK.call`): `Lemmas/CheckerRenameNames.lean`.

* `baseTraits` — `TraitsFor` of a schema whose base sets are nominal; equivariant under `CRen.plain`.
-/
namespace CCVerif.Checker
open CCVerif CCVerif.Syntax CCVerif.Types

/-- the two names can be exchanged in types: neither is `Z`, `R0` or a radical -/
structure PlainNames (old new : String) : Prop where
  oldZ : old ≠ Ty.intName
  newZ : new ≠ Ty.intName
  oldR0 : old ≠ Ty.anyName
  newR0 : new ≠ Ty.anyName
  oldRad : isRadical old = false
  newRad : isRadical new = false

theorem swapName_rad {old new : String} (h : PlainNames old new) (x : String) :
    isRadical (swapName old new x) = isRadical x := by
  unfold swapName
  by_cases h1 : x = old
  · rw [if_pos h1, h1, h.oldRad, h.newRad]
  · rw [if_neg h1]
    by_cases h2 : x = new
    · rw [if_pos h2, h2, h.oldRad, h.newRad]
    · rw [if_neg h2]

/-- the transposition `old ↔ new` on global tokens and on base names -/
def CRen.plain (old new : String) (h : PlainNames old new) : CRen where
  ρ := Bij.swap old new
  τ := { β := Bij.swap old new,
         βZ := swapName_other (Ne.symm h.oldZ) (Ne.symm h.newZ),
         βR0 := swapName_other (Ne.symm h.oldR0) (Ne.symm h.newR0),
         βrad := swapName_rad h }

theorem isRadical_append {id : String} (h : isRadical id = true) (fn : String) : isRadical (id ++ fn) = true := by
  unfold isRadical at h ⊢
  rw [String.toList_append]
  cases hl : id.toList with
  | nil => rw [hl] at h; cases h
  | cons c cs =>
    rw [hl] at h
    cases cs with
    | nil =>
      exfalso
      revert h
      split <;> intro h
      · rename_i heq; cases heq
      · cases h
    | cons c2 cs2 =>
      simp only [List.cons_append]
      revert h
      split
      · rename_i c' rest heq
        intro h
        cases heq
        exact h
      · intro h; cases h

def textNot (old new : String) : TokData → Bool
  | .text s => s != old && s != new
  | _ => true

def kid0Ok (a : Ast) (p : Ast → Bool) : Bool :=
  match a.kid 0 with
  | some k0 => p k0
  | none => true

/-- the decidable side condition at one node -/
def nodePlain (old new : String) (a : Ast) : Bool :=
  (!decide (a.id = .ID_RADICAL) || textNot old new a.data) &&
  (!decide (a.id = .NT_FUNC_CALL) || kid0Ok a fun k0 => textNot old new k0.data) &&
  (!(isDeclTok a.id && a.kids.length == 1) || kid0Ok a fun k0 => isGlob k0.id || textNot old new k0.data) &&
  (!decide (a.id = .NT_ARG_DECL) || kid0Ok a fun k0 => !isGlob k0.id || textNot old new k0.data)

mutual
def plainOK (old new : String) : Ast → Bool
  | .node id d lo hi ks => nodePlain old new (.node id d lo hi ks) && plainOKL old new ks
def plainOKL (old new : String) : List Ast → Bool
  | [] => true
  | k :: ks => plainOK old new k && plainOKL old new ks
end

theorem textNot_swap {old new : String} {d : TokData} (h : textNot old new d = true) {s : String}
    (hd : d = .text s) : swapName old new s = s := by
  subst hd
  simp only [textNot, Bool.and_eq_true, bne_iff_ne, ne_eq] at h
  exact swapName_other h.1 h.2

theorem nodeOK_plain {old new : String} (hp : PlainNames old new) {a : Ast}
    (h : nodePlain old new a = true) : NodeOK (CRen.plain old new hp) a := by
  unfold nodePlain at h
  simp only [Bool.and_eq_true, Bool.or_eq_true, Bool.not_eq_true', decide_eq_false_iff_not] at h
  obtain ⟨⟨⟨h1, h2⟩, h3⟩, h4⟩ := h
  refine ⟨?_, ?_, ?_, ?_⟩
  · intro hid s hs
    rcases h1 with h1 | h1
    · exact absurd hid h1
    · exact textNot_swap h1 hs
  · intro hid k0 hk0 fn hfn
    rcases h2 with h2 | h2
    · exact absurd hid h2
    · unfold kid0Ok at h2
      rw [hk0] at h2
      have hfix : swapName old new fn = fn := textNot_swap h2 hfn
      refine ⟨fun _ => hfix, fun id hid' => ?_⟩
      show swapName old new (id ++ fn) = swapName old new id ++ swapName old new fn
      have e1 : swapName old new id = id := by
        apply swapName_other
        · intro e; rw [e, hp.oldRad] at hid'; cases hid'
        · intro e; rw [e, hp.newRad] at hid'; cases hid'
      have hr := isRadical_append hid' fn
      have e2 : swapName old new (id ++ fn) = id ++ fn := by
        apply swapName_other
        · intro e; rw [e, hp.oldRad] at hr; cases hr
        · intro e; rw [e, hp.newRad] at hr; cases hr
      rw [e1, e2, hfix]
  · intro hid hlen k0 hk0 n hn
    show swapName old new n = if isGlob k0.id then swapName old new n else n
    cases hg : isGlob k0.id with
    | true => rfl
    | false =>
      simp only [Bool.false_eq_true, if_false]
      rcases h3 with h3 | h3
      · rw [hid, hlen] at h3
        simp at h3
      · unfold kid0Ok at h3
        rw [hk0] at h3
        simp only [Bool.or_eq_true] at h3
        rcases h3 with h3 | h3
        · rw [hg] at h3; cases h3
        · exact textNot_swap h3 hn
  · intro hid k0 hk0 n hn hg
    rcases h4 with h4 | h4
    · exact absurd hid h4
    · unfold kid0Ok at h4
      rw [hk0] at h4
      simp only [Bool.or_eq_true, Bool.not_eq_true'] at h4
      rcases h4 with h4 | h4
      · rw [hg] at h4; cases h4
      · exact textNot_swap h4 hn

mutual
theorem treeOK_plain {old new : String} (hp : PlainNames old new) : ∀ a : Ast, plainOK old new a = true →
    TreeOK (CRen.plain old new hp) a
  | .node id d lo hi ks, h => by
    simp only [plainOK, Bool.and_eq_true] at h
    exact TreeOK.mk (nodeOK_plain hp h.1) (treeOK_plainL hp ks h.2)
theorem treeOK_plainL {old new : String} (hp : PlainNames old new) : ∀ ks : List Ast, plainOKL old new ks = true →
    ∀ k ∈ ks, TreeOK (CRen.plain old new hp) k
  | [], _ => fun k hk => by cases hk
  | k :: ks, h => by
    simp only [plainOKL, Bool.and_eq_true] at h
    intro k' hk'
    rcases List.mem_cons.1 hk' with e | hk'
    · rw [e]; exact treeOK_plain hp k h.1
    · exact treeOK_plainL hp ks h.2 k' hk'
end

end CCVerif.Checker

namespace CCVerif.SchemaGen
open CCVerif CCVerif.Syntax CCVerif.Types CCVerif.Checker
open CCVerif.Schema (Kind Status)

/-- `Schema::TraitsFor` of a schema whose base sets are nominal -/
def baseTraits (sk : Skel) : TraitEnv :=
  sk.filterMap fun p => if p.2.2 = .base then some (p.2.1, Traits.nominal) else none

theorem baseTraits_ren (r : CRen) (h : ∀ n, r.τ.β.f n = r.ρ.f n) : ∀ sk : Skel,
    baseTraits (renSk r.ρ.f sk) = renTE r.τ (baseTraits sk)
  | [] => rfl
  | (u, a, k) :: sk => by
    have ih := baseTraits_ren r h sk
    unfold baseTraits renSk renTE at ih ⊢
    rw [List.map_cons, List.filterMap_cons, List.filterMap_cons]
    cases k with
    | base => simp only [if_true, List.map_cons]; rw [ih, h]
    | term => simp only [reduceCtorEq, if_false]; exact ih

/-- the transposition as a renaming for the checker instance over `baseTraits` -/
def plainRen (old new : String) (hp : PlainNames old new) : CRenFor baseTraits where
  r := CRen.plain old new hp
  traits := baseTraits_ren _ (fun _ => rfl)

/-- the decidable form of the side condition `GoodC` for the transposition -/
def goodPlain (old new : String) (c : Cst CDef) : Bool :=
  match c.defn with
  | none => true
  | some body => plainOK old new body && (globalsOf body).all fun n => (usedGlobals body).contains n

theorem goodC_plain {old new : String} (hp : PlainNames old new) {c : Cst CDef}
    (h : goodPlain old new c = true) : GoodC (CRen.plain old new hp) c := by
  unfold goodPlain at h
  refine ⟨rfl, ?_, ?_⟩
  · intro body hb
    rw [hb] at h
    simp only [Bool.and_eq_true] at h
    exact treeOK_plain hp body h.1
  · intro body hb n hn
    rw [hb] at h
    simp only [Bool.and_eq_true, List.all_eq_true] at h
    simpa using h.2 n hn

end CCVerif.SchemaGen
