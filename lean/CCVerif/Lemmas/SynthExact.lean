import CCVerif.Model.Synth
import CCVerif.Lemmas.Synth
/-!
Lemmas for the end-to-end exactness of a synthesis (C12, `synth_exact` in Properties/C12.lean):

* `Renamed f c s`: "`s` carries the content of `c` with every mention renamed once by `f`", and its
  composition;
* `ResetAliases` is an exact renaming with the canonical numbering (`resetAliases_eq`);
* the text effects of `EquateTextsOf` over a whole table, read off the ORIGINAL schema
  (`textsAfter`, `foldl_equateTexts_texts`);
* `TranslateEquations`: which entries are turned round, with their mode and argument
  (`Tracks`, `translateEquations_tracks`).

Core Lean only.
-/
namespace CCVerif.Dedup

/-- `s` has the kind of `c` and carries the definition, convention and texts of `c` with every
mention renamed once by `f` -/
def Renamed (f : String → String) (c s : Cst) : Prop :=
  s.kind = c.kind ∧ s.definition = c.definition.map (renTok f) ∧
    s.rest = c.rest.map (·.map (renTok f))

theorem map_renTok_comp (f g : String → String) (ts : List Tok) :
    (ts.map (renTok g)).map (renTok f) = ts.map (renTok (f ∘ g)) := by
  rw [List.map_map]
  exact List.map_congr_left (fun t _ => renTok_comp f g t)

theorem map_map_renTok_comp (f g : String → String) (tss : List (List Tok)) :
    (tss.map (·.map (renTok g))).map (·.map (renTok f)) = tss.map (·.map (renTok (f ∘ g))) := by
  rw [List.map_map]
  exact List.map_congr_left (fun ts _ => map_renTok_comp f g ts)

theorem map_renTok_congr {f g : String → String} (h : ∀ a, f a = g a) (ts : List Tok) :
    ts.map (renTok f) = ts.map (renTok g) :=
  List.map_congr_left (fun t _ => renTok_congr h t)

theorem map_map_renTok_congr {f g : String → String} (h : ∀ a, f a = g a) (tss : List (List Tok)) :
    tss.map (·.map (renTok f)) = tss.map (·.map (renTok g)) :=
  List.map_congr_left (fun ts _ => map_renTok_congr h ts)

theorem map_renTok_id (ts : List Tok) : ts.map (renTok (fun a => a)) = ts := by
  rw [List.map_congr_left (g := id) (fun t _ => renTok_id t)]; simp

theorem Renamed.refl (c : Cst) : Renamed (fun a => a) c c := by
  refine ⟨rfl, (map_renTok_id _).symm, ?_⟩
  rw [List.map_congr_left (g := id) (fun ts _ => map_renTok_id ts)]; simp

/-- composition of exact renamings is exact -/
theorem Renamed.trans {f g : String → String} {a b c : Cst} (h1 : Renamed g a b) (h2 : Renamed f b c) :
    Renamed (f ∘ g) a c := by
  refine ⟨h2.1.trans h1.1, ?_, ?_⟩
  · rw [h2.2.1, h1.2.1, map_renTok_comp]
  · rw [h2.2.2, h1.2.2, map_map_renTok_comp]

theorem Renamed.congr {f g : String → String} {a b : Cst} (h : ∀ x, f x = g x) (h1 : Renamed f a b) :
    Renamed g a b := by
  refine ⟨h1.1, ?_, ?_⟩
  · rw [h1.2.1, map_renTok_congr h]
  · rw [h1.2.2, map_map_renTok_congr h]

end CCVerif.Dedup

namespace CCVerif.Synth
open CCVerif.Translation CCVerif.Dedup CCVerif.Merge CCVerif.Equate

/-! ### `ResetAliases` is an exact renaming with the canonical numbering -/

/-- the canonical numbering: in list order every constituent gets the name the rule generates for
its kind given the names handed out so far -/
def canonical (g : Names) : List Nat → List String → List String
  | [], _ => []
  | k :: ks, taken => g.newName taken k :: canonical g ks (taken ++ [g.newName taken k])

theorem foldlM_reset_taken {g : Names} :
    ∀ (l : Schema) (st st' : RState), l.foldlM (resetStep g) st = some st' →
      st'.taken = st.taken ++ canonical g (l.map (·.kind)) st.taken := by
  intro l
  induction l with
  | nil => intro st st' h; simp only [List.foldlM_nil] at h; cases h; simp [canonical]
  | cons c rest ih =>
    intro st st' h
    rw [List.foldlM_cons] at h
    cases hs : resetStep g st c with
    | none => rw [hs] at h; cases h
    | some st1 =>
      rw [hs] at h
      have h1 : st1.taken = st.taken ++ [g.newName st.taken c.kind] := by
        unfold resetStep at hs
        simp only at hs
        split at hs
        · cases hs
        · cases hs; rfl
      have := ih st1 st' h
      rw [this, h1]
      simp [canonical]

/-- **ResetAliases, unfolded**: the result is the schema itself, constituent by constituent in the
same order, with the alias and every mention substituted by ONE function `ρ`; `ρ` leaves every
name alone that is no alias of the schema; the new aliases are the canonical numbering. -/
theorem resetAliases_eq {g : Names} {l r : Schema} (hA : (aliases l).Nodup)
    (h : resetAliases g l = some r) :
    ∃ ρ : String → String, r = l.map (substAliases ρ) ∧ (∀ x, x ∉ aliases l → ρ x = x) ∧
      aliases r = canonical g (l.map (·.kind)) [] := by
  unfold resetAliases at h
  split at h
  · cases h
  · rename_i st hst
    cases h
    have h0 : RInv [] ({} : RState) :=
      { nodup := List.nodup_nil, keys := (by intro x hx; cases hx), names := rfl }
    have hi := rinv_fold l [] {} st h0 (by simpa using hA) hst
    refine ⟨ctxFn st.subs, rfl, ?_, ?_⟩
    · intro x hx
      exact ctxFn_not_key _ _ (fun hk => hx (by simpa using hi.keys x hk))
    · have h1 : aliases (l.map (substAliases (ctxFn st.subs))) = st.taken := by
        rw [← hi.names]; simp [aliases, List.map_map, Function.comp_def, substAliases]
      rw [h1, foldlM_reset_taken l {} st hst]
      rfl

theorem substAliases_uid (f : String → String) (c : Cst) : (substAliases f c).uid = c.uid := rfl
theorem substAliases_kind (f : String → String) (c : Cst) : (substAliases f c).kind = c.kind := rfl
theorem substAliases_alias (f : String → String) (c : Cst) : (substAliases f c).alias = f c.alias := rfl
theorem substAliases_renamed (f : String → String) (c : Cst) : Renamed f c (substAliases f c) :=
  ⟨rfl, rfl, rfl⟩

end CCVerif.Synth

namespace CCVerif.Equate
open CCVerif.Translation CCVerif.Dedup CCVerif.Merge

/-! ### the text effects of a whole table, read off the original schema -/

/-- the effect of one equation `e` on the texts `rest` of the constituent `uid` of the schema `l`
(specification of `EquateTextsOf` for a surviving constituent): nothing unless `uid` is the value of
`e`; then keepDel (2) puts the term text and the definition text of the constituent `e.key` OF `l`
in places 1 and 2, createNew (3) puts `e.arg` in place 1, every other mode leaves the texts -/
def textStep (l : Schema) (uid : Nat) (rest : List (List Tok)) (e : Entry) : List (List Tok) :=
  if e.value = uid then
    match findUid l e.key with
    | some d =>
      if e.mode = 2 then (rest.set 1 (d.rest.getD 1 [])).set 2 (d.rest.getD 2 [])
      else if e.mode = 3 then rest.set 1 e.arg
      else rest
    | none => rest
  else rest

/-- the texts of the constituent `c` of `l` after all equations of the table, in table order -/
def textsAfter (l : Schema) (eqs : List Entry) (c : Cst) : List (List Tok) :=
  eqs.foldl (textStep l c.uid) c.rest

theorem findUid_map (f : Cst → Cst) (hf : ∀ c, (f c).uid = c.uid) (l : Schema) (u : Nat) :
    findUid (l.map f) u = (findUid l u).map f := by
  unfold findUid
  rw [List.find?_map]
  have : ((fun x : Cst => x.uid == u) ∘ f) = (fun x => x.uid == u) := by funext c; simp [hf]
  rw [this]

theorem findUid_of_mem {l : Schema} (hU : (uids l).Nodup) {c : Cst} (hc : c ∈ l) :
    findUid l c.uid = some c := by
  have := find?_of_mem_nodup (·.uid) l c hU hc
  exact this

theorem findUid_of_uid {l : Schema} (hU : (uids l).Nodup) {u : Nat} (hu : u ∈ uids l) :
    ∃ c ∈ l, c.uid = u ∧ findUid l u = some c := by
  rcases List.mem_map.1 hu with ⟨c, hc, rfl⟩
  exact ⟨c, hc, rfl, findUid_of_mem hU hc⟩

theorem uids_eq_of_sig {l l' : Schema} (h : l'.map sig = l.map sig) : uids l' = uids l := by
  have h1 : ∀ (m : Schema), uids m = (m.map sig).map (·.1) := by
    intro m; simp [uids, sig, List.map_map, Function.comp_def]
  rw [h1, h1, h]

theorem setTexts_rest (l : Schema) (e : Entry) (d c : Cst) (hd : findUid l e.key = some d) :
    (setTexts e d c).rest = textStep l c.uid c.rest e := by
  unfold setTexts textStep
  rw [hd]
  by_cases h : c.uid = e.value
  · have h' : e.value = c.uid := h.symm
    simp only [h, beq_self_eq_true, if_true]
    by_cases h2 : e.mode = 2
    · simp [h2]
    · by_cases h3 : e.mode = 3
      · simp [h3]
      · simp [h2, h3]
  · have h' : ¬ e.value = c.uid := fun x => h x.symm
    simp [h, h']

theorem translateDel_of_ne (e : Entry) (d h c : Cst) (hne : c.uid ≠ e.key) : translateDel e d h c = c := by
  unfold translateDel
  simp [hne]

theorem setTexts_of_ne (e : Entry) (d c : Cst) (hne : c.uid ≠ e.value) : setTexts e d c = c := by
  unfold setTexts
  simp [hne]

/-- the loop of `ChangeEquatedCsts` over the table: every constituent that is no key keeps uid,
alias, kind and definition, and its texts are `textsAfter` — computed from the texts the deleted
constituents have in the ORIGINAL schema (no key is a value, keys are distinct: a deleted
constituent is read before anything touches it) -/
theorem foldl_equateTexts_texts (l : Schema) (hU : (uids l).Nodup) :
    ∀ (es : List Entry) (l' : Schema), l'.map sig = l.map sig → (tkeys es).Nodup →
      (∀ e ∈ es, e.key ∈ uids l ∧ e.value ∈ uids l ∧ e.value ∉ tkeys es) →
      (∀ e ∈ es, findUid l' e.key = findUid l e.key) →
      ∀ c' ∈ l', c'.uid ∉ tkeys es →
        ∃ c1 ∈ es.foldl equateTexts l', sig c1 = sig c' ∧
          c1.rest = es.foldl (textStep l c'.uid) c'.rest := by
  intro es
  induction es with
  | nil => intro l' _ _ _ _ c' hc' _; exact ⟨c', hc', rfl, rfl⟩
  | cons e rest ih =>
    intro l' hsig hk hpre hfind c' hc' hnk
    have hU' : (uids l').Nodup := by rw [uids_eq_of_sig hsig]; exact hU
    have hke : e.key ∈ uids l' := by rw [uids_eq_of_sig hsig]; exact (hpre e (List.mem_cons_self ..)).1
    have hve : e.value ∈ uids l' := by rw [uids_eq_of_sig hsig]; exact (hpre e (List.mem_cons_self ..)).2.1
    rcases findUid_of_uid hU' hke with ⟨d, hd, hdu, hfd⟩
    rcases findUid_of_uid hU' hve with ⟨h, hh, hhu, hfh⟩
    have hfdl : findUid l e.key = some d := by rw [← hfind e (List.mem_cons_self ..)]; exact hfd
    simp only [tkeys, List.map_cons, List.nodup_cons] at hk
    have heq : equateTexts l' e = l'.map (fun c => translateDel e d h (setTexts e d c)) := by
      unfold equateTexts
      rw [hfd, hfh]
      simp only [List.map_map]
      rfl
    have hsigf : ∀ c, sig (translateDel e d h (setTexts e d c)) = sig c := by
      intro c; rw [translateDel_sig, setTexts_sig]
    have huidf : ∀ c, (translateDel e d h (setTexts e d c)).uid = c.uid := by
      intro c
      have := hsigf c
      simp only [sig, Prod.mk.injEq] at this
      exact this.1
    simp only [List.foldl_cons]
    rw [heq]
    have hc'' : translateDel e d h (setTexts e d c') ∈ l'.map (fun c => translateDel e d h (setTexts e d c)) :=
      List.mem_map.2 ⟨c', hc', rfl⟩
    have hnk1 : c'.uid ≠ e.key := fun x => hnk (by simp [tkeys, x])
    have hnk2 : c'.uid ∉ tkeys rest := fun x => hnk (by simp only [tkeys, List.map_cons]; exact List.mem_cons_of_mem _ x)
    have hs1 : (setTexts e d c').uid = c'.uid := by
      have := setTexts_sig e d c'
      simp only [sig, Prod.mk.injEq] at this
      exact this.1
    have hc''eq : translateDel e d h (setTexts e d c') = setTexts e d c' :=
      translateDel_of_ne e d h _ (by rw [hs1]; exact hnk1)
    have := ih (l'.map (fun c => translateDel e d h (setTexts e d c)))
      (by rw [List.map_map, ← hsig]; exact List.map_congr_left (fun c _ => hsigf c))
      hk.2
      (by
        intro e2 he2
        have := hpre e2 (List.mem_cons_of_mem _ he2)
        refine ⟨this.1, this.2.1, ?_⟩
        intro hm
        exact this.2.2 (by simp only [tkeys, List.map_cons]; exact List.mem_cons_of_mem _ hm))
      (by
        intro e2 he2
        rw [findUid_map _ huidf, hfind e2 (List.mem_cons_of_mem _ he2)]
        cases hf2 : findUid l e2.key with
        | none => rfl
        | some d2 =>
          have hd2 := (findUid_some hf2).2
          have hne1 : d2.uid ≠ e.key := by
            rw [hd2]; intro x; exact hk.1 (List.mem_map.2 ⟨e2, he2, x⟩)
          have hne2 : d2.uid ≠ e.value := by
            rw [hd2]; intro x
            exact (hpre e (List.mem_cons_self ..)).2.2
              (by simp only [tkeys, List.map_cons]; exact List.mem_cons_of_mem _ (List.mem_map.2 ⟨e2, he2, x⟩))
          simp only [Option.map_some]
          rw [setTexts_of_ne e d d2 hne2, translateDel_of_ne e d h d2 hne1])
      _ hc'' (by rw [huidf]; exact hnk2)
    rcases this with ⟨c1, hc1, hs1', hr1⟩
    refine ⟨c1, hc1, hs1'.trans (hsigf c'), ?_⟩
    rw [hr1, huidf, hc''eq, setTexts_rest l e d c' hfdl]

end CCVerif.Equate

namespace CCVerif.Equate
open CCVerif.Translation CCVerif.Dedup CCVerif.Merge

/-! ### the substitution of the table on aliases -/

theorem ctxFn_of_mem_unique {ctx : List (String × String)} {a b : String} (hm : (a, b) ∈ ctx)
    (hu : ∀ p ∈ ctx, p.1 = a → p.2 = b) : ctxFn ctx a = b := by
  unfold ctxFn
  cases hf : ctx.find? (fun q => q.1 == a) with
  | none =>
    have := List.find?_eq_none.1 hf (a, b) hm
    simp at this
  | some p =>
    have hp := List.mem_of_find?_eq_some hf
    have hpa : p.1 = a := by simpa using List.find?_some hf
    simp [hu p hp hpa]

theorem mem_nameSubst {l : Schema} {eqs : List Entry} {p : String × String} (h : p ∈ nameSubst l eqs) :
    ∃ e ∈ eqs, ∃ k v, findUid l e.key = some k ∧ findUid l e.value = some v ∧ p = (k.alias, v.alias) := by
  unfold nameSubst at h
  rcases List.mem_filterMap.1 h with ⟨e, he, hp⟩
  cases hk : findUid l e.key with
  | none => rw [hk] at hp; cases hp
  | some k =>
    cases hv : findUid l e.value with
    | none => rw [hk, hv] at hp; cases hp
    | some v =>
      rw [hk, hv] at hp
      exact ⟨e, he, k, v, hk, hv, (Option.some.inj hp).symm⟩

/-- the alias of a key goes to the alias of its value -/
theorem ctxFn_nameSubst_key {l : Schema} {eqs : List Entry} (hA : (aliases l).Nodup)
    (hk : (tkeys eqs).Nodup) {e : Entry} (he : e ∈ eqs) {k v : Cst}
    (hfk : findUid l e.key = some k) (hfv : findUid l e.value = some v) :
    ctxFn (nameSubst l eqs) k.alias = v.alias := by
  apply ctxFn_of_mem_unique
  · unfold nameSubst
    exact List.mem_filterMap.2 ⟨e, he, by rw [hfk, hfv]⟩
  · intro p hp hpa
    rcases mem_nameSubst hp with ⟨e', he', k', v', hk', hv', rfl⟩
    have hkk : k' = k := eq_of_mem_nodup (·.alias) l k' k hA (findUid_some hk').1 (findUid_some hfk).1 hpa
    subst hkk
    have hee : e' = e := CCVerif.Synth.entry_eq_of_key hk he' he
      ((findUid_some hk').2.symm.trans (findUid_some hfk).2)
    subst hee
    rw [hfv] at hv'
    cases hv'; rfl

/-- a name that is not the alias of a key stays -/
theorem ctxFn_nameSubst_other {l : Schema} {eqs : List Entry} {x : String}
    (h : ∀ k ∈ l, k.uid ∈ tkeys eqs → k.alias ≠ x) : ctxFn (nameSubst l eqs) x = x := by
  apply ctxFn_not_key
  intro hm
  rcases List.mem_map.1 hm with ⟨p, hp, rfl⟩
  rcases mem_nameSubst hp with ⟨e, he, k, v, hk, _, rfl⟩
  have := findUid_some hk
  exact h k this.1 (by rw [this.2]; exact List.mem_map.2 ⟨e, he, rfl⟩) rfl

/-- a constituent that is no key enters the duplicate removal with its uid, alias and kind, its
definition renamed by the substitution of the table, and its texts after the table (`textsAfter`)
renamed by the substitution of the table -/
theorem mem_beforeDedup_of {l : Schema} {eqs : List Entry} (hU : (uids l).Nodup)
    (hpre : precheck l eqs = true) (hk : (tkeys eqs).Nodup) {c : Cst} (hc : c ∈ l)
    (hnk : c.uid ∉ tkeys eqs) :
    ∃ c3 ∈ beforeDedup l eqs, c3.uid = c.uid ∧ c3.alias = c.alias ∧ c3.kind = c.kind ∧
      c3.definition = c.definition.map (renTok (ctxFn (nameSubst l eqs))) ∧
      c3.rest = (textsAfter l eqs c).map (·.map (renTok (ctxFn (nameSubst l eqs)))) := by
  rcases foldl_equateTexts_texts l hU eqs l rfl hk
    (fun e he => by have := precheck_entry hpre he; exact ⟨this.1, this.2.1, this.2.2.2⟩)
    (fun _ _ => rfl) c hc hnk with ⟨c1, hc1, hs1, hr1⟩
  simp only [sig, Prod.mk.injEq] at hs1
  refine ⟨c1.rename (ctxFn (nameSubst l eqs)), ?_, hs1.1, hs1.2.1, hs1.2.2.1, ?_, ?_⟩
  · unfold beforeDedup
    simp only [List.mem_filter, List.mem_map]
    refine ⟨⟨c1, hc1, rfl⟩, ?_⟩
    simp only [Bool.not_eq_true', List.any_eq_false]
    intro e he
    have : e.key ≠ c1.uid := by
      rw [hs1.1]; intro x; exact hnk (List.mem_map.2 ⟨e, he, x⟩)
    simpa using this
  · rw [rename_definition, hs1.2.2.2]
  · rw [rename_rest, hr1]; rfl

/-! ### what one stage (duplicate removal, or equation + duplicate removal) does, as a whole -/

/-- `m` the schema before, `e` after, `trE` the returned translation, `tq` the table (empty for the
duplicate removal alone), `Q` the induced renaming of mentions -/
structure StageExact (m e : Schema) (trE : Tr) (tq : List Entry) (Q : String → String) : Prop where
  nodupU : (uids e).Nodup
  nodupA : (aliases e).Nodup
  /-- the alias of a constituent goes to the alias of its image -/
  aliasOf : ∀ c ∈ m, ∀ s ∈ e, s.uid = image trE c.uid → Q c.alias = s.alias
  /-- every other name stays -/
  off : ∀ x, x ∉ aliases m → Q x = x
  /-- the image of a constituent that is no key has its kind, its definition renamed once by `Q`
  and its texts after the table renamed once by `Q` -/
  content : ∀ c ∈ m, c.uid ∉ tkeys tq → ∃ s ∈ e, s.uid = image trE c.uid ∧ s.kind = c.kind ∧
    s.definition = c.definition.map (renTok Q) ∧
    s.rest = (textsAfter m tq c).map (·.map (renTok Q))
  /-- key and value of an equation have one image -/
  pairs : ∀ q ∈ tq, image trE q.key = image trE q.value
  /-- nothing else: a constituent of the result is a constituent of `m` that is no key and is its own image -/
  kept : ∀ s ∈ e, ∃ c ∈ m, c.uid = s.uid ∧ c.uid ∉ tkeys tq ∧ image trE c.uid = s.uid
  img : ∀ u ∈ uids m, image trE u ∈ uids e

end CCVerif.Equate

namespace CCVerif.Synth
open CCVerif.Translation CCVerif.Dedup CCVerif.Merge CCVerif.Equate

/-! ### `TranslateEquations`: which entries are turned round -/

/-- an equation turned round by `SwapKeyVal`: keepHier ⇄ keepDel, the argument stays -/
def swapped (e : Entry) : Entry := { key := e.value, value := e.key, mode := flipMode e.mode, arg := e.arg }

/-- the table `t` consists of the equations of `eqs1`, each as it is or turned round -/
structure Tracks (eqs1 t : List Entry) : Prop where
  nodup : (tkeys t).Nodup
  origin : ∀ e ∈ t, e ∈ eqs1 ∨ ∃ e0 ∈ eqs1, e = swapped e0
  present : ∀ e0 ∈ eqs1, e0 ∈ t ∨ swapped e0 ∈ t

theorem swapKeyVal_mem_other {t : List Entry} {key : Nat} {e : Entry} (he : e ∈ t) (hne : e.key ≠ key) :
    e ∈ swapKeyVal t key := by
  unfold swapKeyVal
  split
  · exact he
  · split
    · exact he
    · exact List.mem_append_left _ (List.mem_filter.2 ⟨he, by simpa using hne⟩)

theorem foldl_swap_mem_other (ks : List Nat) :
    ∀ (t : List Entry) (e : Entry), e ∈ t → e.key ∉ ks → e ∈ ks.foldl swapKeyVal t := by
  induction ks with
  | nil => intro t e he _; exact he
  | cons k rest ih =>
    intro t e he hk
    simp only [List.foldl_cons]
    exact ih _ e (swapKeyVal_mem_other he (fun x => hk (by simp [x]))) (fun x => hk (List.mem_cons_of_mem _ x))

theorem swapKeyVal_tracks {eqs1 t : List Entry} (hdisj : ∀ e0 ∈ eqs1, e0.value ∉ tkeys eqs1)
    (ht : Tracks eqs1 t) {key : Nat} (hkey : key ∈ tkeys eqs1) : Tracks eqs1 (swapKeyVal t key) := by
  have hnd := (swapKeyVal_keeps (eqs0 := []) ht.nodup (fun _ h => by cases h) key).1
  refine ⟨hnd, ?_, ?_⟩
  · intro e' he'
    unfold swapKeyVal at he'
    cases hf : t.find? (fun x => x.key == key) with
    | none => rw [hf] at he'; exact ht.origin e' he'
    | some e =>
      rw [hf] at he'
      simp only at he'
      have hem := List.mem_of_find?_eq_some hf
      have hek : e.key = key := by simpa using List.find?_some hf
      split at he'
      · exact ht.origin e' he'
      · rcases List.mem_append.1 he' with h1 | h1
        · exact ht.origin e' (List.mem_filter.1 h1).1
        · have : e' = swapped e := by
            have := List.mem_singleton.1 h1
            rw [this]; unfold swapped; rw [hek]
          rcases ht.origin e hem with h2 | ⟨e0, he0, h2⟩
          · exact Or.inr ⟨e, h2, this⟩
          · exfalso
            have : e0.value = key := by rw [← hek, h2]; rfl
            exact hdisj e0 he0 (this ▸ hkey)
  · intro e0 he0
    unfold swapKeyVal
    cases hf : t.find? (fun x => x.key == key) with
    | none => exact ht.present e0 he0
    | some e =>
      simp only
      have hem := List.mem_of_find?_eq_some hf
      have hek : e.key = key := by simpa using List.find?_some hf
      split
      · exact ht.present e0 he0
      · rcases ht.present e0 he0 with h1 | h1
        · by_cases hk0 : e0.key = key
          · have : e0 = e := entry_eq_of_key ht.nodup h1 hem (hk0.trans hek.symm)
            subst this
            refine Or.inr (List.mem_append_right _ (List.mem_singleton.2 ?_))
            unfold swapped; rw [hek]
          · exact Or.inl (List.mem_append_left _ (List.mem_filter.2 ⟨h1, by simpa using hk0⟩))
        · refine Or.inr (List.mem_append_left _ (List.mem_filter.2 ⟨h1, ?_⟩))
          have : e0.value ≠ key := fun x => hdisj e0 he0 (x ▸ hkey)
          simpa [swapped] using this

theorem foldl_swap_tracks {eqs1 : List Entry} (hdisj : ∀ e0 ∈ eqs1, e0.value ∉ tkeys eqs1) (ks : List Nat) :
    ∀ t, Tracks eqs1 t → (∀ k ∈ ks, k ∈ tkeys eqs1) → Tracks eqs1 (ks.foldl swapKeyVal t) := by
  induction ks with
  | nil => intro t ht _; exact ht
  | cons k rest ih =>
    intro t ht hks
    simp only [List.foldl_cons]
    exact ih _ (swapKeyVal_tracks hdisj ht (hks k (List.mem_cons_self ..)))
      (fun k' hk' => hks k' (List.mem_cons_of_mem _ hk'))

/-- the table after `SubstituteValues(translations[1])` -/
def substEqs (trM : Tr) (eqs : List Entry) : List Entry :=
  eqs.map fun e => { e with value := image trM e.value }

theorem tkeys_substEqs (trM : Tr) (eqs : List Entry) : tkeys (substEqs trM eqs) = tkeys eqs := by
  simp [tkeys, substEqs, List.map_map, Function.comp_def]

/-- `TranslateEquations`: the table handed to `Equate` consists of the equations of the synthesis
(values translated into the merged schema), each as it is or turned round; an equation that does
not ask for a swap is there as it is -/
theorem translateEquations_tracks (m : Schema) (trM : Tr) (eqs : List Entry) (hn : (tkeys eqs).Nodup)
    (hdisj : ∀ e0 ∈ substEqs trM eqs, e0.value ∉ tkeys eqs) :
    Tracks (substEqs trM eqs) (translateEquations m trM eqs) ∧
    ∀ e0 ∈ substEqs trM eqs, needsSwap m e0 = false → e0 ∈ translateEquations m trM eqs := by
  have hn1 : (tkeys (substEqs trM eqs)).Nodup := by rw [tkeys_substEqs]; exact hn
  have hdisj1 : ∀ e0 ∈ substEqs trM eqs, e0.value ∉ tkeys (substEqs trM eqs) := by
    rw [tkeys_substEqs]; exact hdisj
  have h0 : Tracks (substEqs trM eqs) (substEqs trM eqs) :=
    ⟨hn1, fun e he => Or.inl he, fun e he => Or.inl he⟩
  have hte : translateEquations m trM eqs =
      (((substEqs trM eqs).filter (needsSwap m)).map (·.key)).foldl swapKeyVal (substEqs trM eqs) := rfl
  rw [hte]
  constructor
  · apply foldl_swap_tracks hdisj1 _ _ h0
    intro k hk
    rcases List.mem_map.1 hk with ⟨e, he, rfl⟩
    exact List.mem_map.2 ⟨e, (List.mem_filter.1 he).1, rfl⟩
  · intro e0 he0 hns
    apply foldl_swap_mem_other _ _ _ he0
    intro hk
    rcases List.mem_map.1 hk with ⟨e, he, hek⟩
    have := List.mem_filter.1 he
    have : e = e0 := entry_eq_of_key hn1 this.1 he0 hek
    subst this
    rw [hns] at this
    exact absurd this.2 (by simp)

/-- an equation the structural check accepts does not ask for a swap -/
theorem precheckFor_not_needsSwap {m : Schema} {e : Entry} (h : precheckFor m e = true) :
    needsSwap m e = false := by
  unfold precheckFor at h
  unfold needsSwap
  cases hk : findUid m e.key with
  | none => rfl
  | some k =>
    cases hv : findUid m e.value with
    | none => rfl
    | some v =>
      rw [hk, hv] at h
      simp only [isRSObject, isBaseSet, isBaseNotion, Bool.and_eq_true, Bool.or_eq_true, beq_iff_eq,
        bne_iff_ne, ne_eq, Bool.not_eq_true', Bool.and_eq_false_iff, Bool.or_eq_false_iff,
        Bool.not_eq_false', beq_eq_false_iff_ne] at h ⊢
      have hb : ((k.kind != v.kind) = false) ↔ k.kind = v.kind := by simp
      rw [hb]
      omega

end CCVerif.Synth

namespace CCVerif.Merge
open CCVerif.Translation CCVerif.Dedup

/-! ### the translation of a merge is injective -/

theorem inserted_fold {g : Names} :
    ∀ (b : Schema) (st st' : MState), st.inserted.Nodup → (∀ u ∈ st.inserted, u ∈ uids st.a) →
      b.foldlM (mergeStep g) st = some st' →
      st'.inserted.Nodup ∧ (∀ u ∈ st'.inserted, u ∈ uids st'.a) := by
  intro b
  induction b with
  | nil => intro st st' h1 h2 h; simp only [List.foldlM_nil] at h; cases h; exact ⟨h1, h2⟩
  | cons c2 rest ih =>
    intro st st' h1 h2 h
    rw [List.foldlM_cons] at h
    cases hs : mergeStep g st c2 with
    | none => rw [hs] at h; cases h
    | some st1 =>
      rw [hs] at h
      rcases mergeStep_some hs with ⟨u, fs, hu, _, rfl⟩
      apply ih _ _ _ _ h
      · show (st.inserted ++ [u]).Nodup
        rw [List.nodup_append]
        refine ⟨h1, by simp, ?_⟩
        intro a ha b hb
        have : b = u := by simpa using hb
        rw [this]; exact fun e => hu (e ▸ h2 a ha)
      · intro u' hu'
        have hu'' : u' ∈ st.inserted ++ [u] := hu'
        show u' ∈ uids (listInsert st.a _)
        rw [(uids_listInsert_perm _ _).mem_iff]
        rcases List.mem_append.1 hu'' with h3 | h3
        · exact List.mem_cons_of_mem _ (h2 u' h3)
        · have : u' = u := by simpa using h3
          rw [this]; exact List.mem_cons_self ..

theorem zip_snd_inj {α β : Type} :
    ∀ (l1 : List α) (l2 : List β), l2.Nodup → ∀ {x y : α} {u : β},
      (x, u) ∈ l1.zip l2 → (y, u) ∈ l1.zip l2 → x = y := by
  intro l1
  induction l1 with
  | nil => intro l2 _ x y u hx; simp at hx
  | cons a as ih =>
    intro l2 hn x y u hx hy
    cases l2 with
    | nil => simp at hx
    | cons b bs =>
      simp only [List.zip_cons_cons, List.mem_cons, Prod.mk.injEq] at hx hy
      rw [List.nodup_cons] at hn
      rcases hx with ⟨rfl, rfl⟩ | hx <;> rcases hy with ⟨rfl, hyu⟩ | hy
      · rfl
      · exact absurd (List.of_mem_zip hy).2 hn.1
      · exact absurd (hyu ▸ (List.of_mem_zip hx).2) hn.1
      · exact ih bs hn.2 hx hy

/-- two operand constituents are never represented by one copy -/
theorem mergeWith_injective {g : Names} {freshs : List Nat} {a b r : Schema} {tr : Tr}
    (haU : (uids a).Nodup) (haA : (aliases a).Nodup) (hbU : (uids b).Nodup) (hbA : (aliases b).Nodup)
    (h : mergeWith g freshs a b = some (r, tr)) {x y u : Nat}
    (hx : lookup tr x = some u) (hy : lookup tr y = some u) : x = y := by
  unfold mergeWith at h
  split at h
  · cases h
  · rename_i st hst
    have hi : MInv a b st := by
      have := minv_fold b [] _ st (minv_init a freshs haU haA) (by simpa using hbU) (by simpa using hbA) hst
      simpa using this
    have hins := (inserted_fold b _ st (by simp) (by intro u hu; cases hu) hst).1
    simp only [Option.some.injEq, Prod.mk.injEq] at h
    have hk : keys ((uids b).zip st.inserted) = uids b := keys_zip _ _ (by simpa [uids] using hi.len)
    have htr : tr = (uids b).zip st.inserted := by
      rw [← h.2, foldl_insert_pairs _ [] (by show (keys [] ++ keys ((uids b).zip st.inserted)).Nodup; rw [hk]; simpa [keys] using hbU)]
      rfl
    subst htr
    exact zip_snd_inj _ _ hins (CCVerif.Equate.mem_of_lookup hx) (CCVerif.Equate.mem_of_lookup hy)

end CCVerif.Merge

namespace CCVerif.Equate
open CCVerif.Translation CCVerif.Dedup CCVerif.Merge

/-! ### the texts of the survivor of an equated pair -/

/-- `own` the survivor's texts, `other` the texts of the deleted side, `mode` as the table handed to
`Equate` has it (2 keepDel: term text and definition text of the deleted side; 3 createNew: the new
term text `arg`; otherwise the survivor's own), places: 0 convention, 1 term text, 2 definition text -/
def pairTexts (own other : List (List Tok)) (mode : Nat) (arg : List Tok) : List (List Tok) :=
  if mode = 2 then (own.set 1 (other.getD 1 [])).set 2 (other.getD 2 [])
  else if mode = 3 then own.set 1 arg
  else own

theorem getD_map_nil (f : String → String) (tss : List (List Tok)) (i : Nat) :
    (tss.map (·.map (renTok f))).getD i [] = (tss.getD i []).map (renTok f) := by
  simp only [List.getD_eq_getElem?_getD, List.getElem?_map]
  cases tss[i]? <;> simp

theorem map_pairTexts (f : String → String) (own other : List (List Tok)) (mode : Nat) (arg : List Tok) :
    (pairTexts own other mode arg).map (·.map (renTok f)) =
      pairTexts (own.map (·.map (renTok f))) (other.map (·.map (renTok f))) mode (arg.map (renTok f)) := by
  unfold pairTexts
  split
  · rw [List.map_set, List.map_set, getD_map_nil, getD_map_nil]
  · split
    · rw [List.map_set]
    · rfl

theorem textStep_eq_pairTexts {l : Schema} {uid : Nat} {rest : List (List Tok)} {e : Entry} {d : Cst}
    (hv : e.value = uid) (hd : findUid l e.key = some d) :
    textStep l uid rest e = pairTexts rest d.rest e.mode e.arg := by
  unfold textStep pairTexts
  rw [hd]
  simp [hv]

theorem textStep_of_ne {l : Schema} {uid : Nat} {rest : List (List Tok)} {e : Entry} (hv : e.value ≠ uid) :
    textStep l uid rest e = rest := by
  unfold textStep
  simp [hv]

/-- no equation has the constituent as its value: its texts stay -/
theorem textsAfter_of_not_value {l : Schema} {eqs : List Entry} {c : Cst} (h : ∀ e ∈ eqs, e.value ≠ c.uid) :
    textsAfter l eqs c = c.rest := by
  unfold textsAfter
  generalize c.rest = rest
  induction eqs generalizing rest with
  | nil => rfl
  | cons e es ih =>
    simp only [List.foldl_cons]
    rw [textStep_of_ne (h e (List.mem_cons_self ..))]
    exact ih (fun e' he' => h e' (List.mem_cons_of_mem _ he')) rest

/-- exactly one equation `e0` has the constituent as its value: its texts are those of the pair -/
theorem textsAfter_unique {l : Schema} {eqs : List Entry} {c d : Cst} {e0 : Entry} (hn : (tkeys eqs).Nodup)
    (he0 : e0 ∈ eqs) (hv : e0.value = c.uid) (hd : findUid l e0.key = some d)
    (hu : ∀ e ∈ eqs, e.value = c.uid → e = e0) :
    textsAfter l eqs c = pairTexts c.rest d.rest e0.mode e0.arg := by
  unfold textsAfter
  generalize c.rest = rest
  induction eqs generalizing rest with
  | nil => cases he0
  | cons e es ih =>
    simp only [List.foldl_cons]
    simp only [tkeys, List.map_cons, List.nodup_cons] at hn
    by_cases hee : e = e0
    · subst hee
      rw [textStep_eq_pairTexts hv hd]
      have hrest : ∀ e' ∈ es, e'.value ≠ c.uid := by
        intro e' he' hv'
        have := hu e' (List.mem_cons_of_mem _ he') hv'
        subst this
        exact hn.1 (List.mem_map.2 ⟨e', he', rfl⟩)
      have := textsAfter_of_not_value (l := l) (c := { c with rest := pairTexts rest d.rest e.mode e.arg }) hrest
      exact this
    · have hne : e.value ≠ c.uid := fun x => hee (hu e (List.mem_cons_self ..) x)
      rw [textStep_of_ne hne]
      rcases List.mem_cons.1 he0 with h1 | h1
      · exact absurd h1.symm hee
      · exact ih hn.2 h1 (fun e' he' => hu e' (List.mem_cons_of_mem _ he')) rest

/-- the equations never touch the convention (place 0) nor anything beyond place 2, and keep the
number of texts -/
theorem textStep_getElem? (l : Schema) (uid : Nat) (rest : List (List Tok)) (e : Entry) (i : Nat)
    (h1 : i ≠ 1) (h2 : i ≠ 2) : (textStep l uid rest e)[i]? = rest[i]? := by
  unfold textStep
  split
  · split
    · split
      · rw [List.getElem?_set_ne (Ne.symm h2), List.getElem?_set_ne (Ne.symm h1)]
      · split
        · rw [List.getElem?_set_ne (Ne.symm h1)]
        · rfl
    · rfl
  · rfl

theorem textsAfter_getElem? (l : Schema) (eqs : List Entry) (c : Cst) (i : Nat) (h1 : i ≠ 1) (h2 : i ≠ 2) :
    (textsAfter l eqs c)[i]? = c.rest[i]? := by
  unfold textsAfter
  generalize c.rest = rest
  induction eqs generalizing rest with
  | nil => rfl
  | cons e es ih =>
    simp only [List.foldl_cons]
    rw [ih, textStep_getElem? l c.uid rest e i h1 h2]

theorem precheck_for {l : Schema} {eqs : List Entry} (h : precheck l eqs = true) {e : Entry} (he : e ∈ eqs) :
    precheckFor l e = true := by
  unfold precheck at h
  simp only [Bool.and_eq_true, List.all_eq_true] at h
  exact (h.2 e he).1

end CCVerif.Equate

namespace CCVerif.Merge
open CCVerif.Translation CCVerif.Dedup

/-! ### nothing else is inserted by a merge -/

theorem exists_zip_of_mem_right {α β : Type} :
    ∀ (l1 : List α) (l2 : List β), l2.length ≤ l1.length → ∀ u ∈ l2, ∃ k, (k, u) ∈ l1.zip l2 := by
  intro l1
  induction l1 with
  | nil => intro l2 hl u hu; cases l2 with
    | nil => cases hu
    | cons b bs => simp at hl
  | cons a as ih =>
    intro l2 hl u hu
    cases l2 with
    | nil => cases hu
    | cons b bs =>
      rcases List.mem_cons.1 hu with rfl | hu
      · exact ⟨a, by simp⟩
      · rcases ih bs (by simpa using hl) u hu with ⟨k, hk⟩
        exact ⟨k, by simp [hk]⟩

theorem pair_eq_of_nodupKeys {t : Tr} (hn : (keys t).Nodup) {k v v' : Nat} (h : (k, v) ∈ t) (h' : (k, v') ∈ t) :
    v = v' := by
  induction t with
  | nil => cases h
  | cons p ps ih =>
    simp only [keys, List.map_cons, List.nodup_cons] at hn
    rcases List.mem_cons.1 h with rfl | h1 <;> rcases List.mem_cons.1 h' with h2 | h2
    · cases h2; rfl
    · exact absurd (List.mem_map.2 ⟨(k, v'), h2, rfl⟩) hn.1
    · subst h2; exact absurd (List.mem_map.2 ⟨(k, v), h1, rfl⟩) hn.1
    · exact ih hn.2 h1 h2

theorem lookup_of_mem_nodupKeys {t : Tr} (hn : (keys t).Nodup) {k v : Nat} (h : (k, v) ∈ t) :
    lookup t k = some v := by
  rcases CCVerif.Equate.lookup_isSome_of_key (t := t) (k := k) (List.mem_map.2 ⟨(k, v), h, rfl⟩) with ⟨v', hv'⟩
  rw [hv', pair_eq_of_nodupKeys hn h (CCVerif.Equate.mem_of_lookup hv')]

/-- every constituent of the merged schema is one of the schema's own or the copy of an operand constituent -/
theorem mergeWith_origin {g : Names} {freshs : List Nat} {a b r : Schema} {tr : Tr}
    (haU : (uids a).Nodup) (haA : (aliases a).Nodup) (hbU : (uids b).Nodup) (hbA : (aliases b).Nodup)
    (h : mergeWith g freshs a b = some (r, tr)) :
    ∀ s ∈ r, s ∈ a ∨ ∃ c2 ∈ b, lookup tr c2.uid = some s.uid := by
  unfold mergeWith at h
  split at h
  · cases h
  · rename_i st hst
    have hi : MInv a b st := by
      have := minv_fold b [] _ st (minv_init a freshs haU haA) (by simpa using hbU) (by simpa using hbA) hst
      simpa using this
    simp only [Option.some.injEq, Prod.mk.injEq] at h
    have hk : keys ((uids b).zip st.inserted) = uids b := keys_zip _ _ (by simpa [uids] using hi.len)
    have htr : tr = (uids b).zip st.inserted := by
      rw [← h.2, foldl_insert_pairs _ [] (by show (keys [] ++ keys ((uids b).zip st.inserted)).Nodup; rw [hk]; simpa [keys] using hbU)]
      rfl
    intro s hs
    have hs0 : ∃ s0 ∈ st.a, s.uid = s0.uid ∧ (s0.uid ∉ st.inserted → s = s0) := by
      rw [← h.1] at hs
      split at hs
      · exact ⟨s, hs, rfl, fun _ => rfl⟩
      · rcases List.mem_map.1 hs with ⟨s0, hs0, rfl⟩
        refine ⟨s0, hs0, ?_, ?_⟩
        · split <;> rfl
        · intro hn; simp [hn]
    rcases hs0 with ⟨s0, hs0, hsu, hsame⟩
    by_cases hin : s0.uid ∈ st.inserted
    · right
      rcases exists_zip_of_mem_right (uids b) st.inserted (by simp [uids, hi.len]) _ hin with ⟨k, hk'⟩
      have hkb : k ∈ uids b := (List.of_mem_zip hk').1
      rcases List.mem_map.1 hkb with ⟨c2, hc2, rfl⟩
      refine ⟨c2, hc2, ?_⟩
      rw [htr, hsu]
      exact lookup_of_mem_nodupKeys (by rw [hk]; exact hbU) hk'
    · left
      rcases hi.origin s0 hs0 with h1 | h1
      · rw [hsame hin]; exact h1
      · exact absurd h1 hin

end CCVerif.Merge
