import CCVerif.Lemmas.EvalCallsTop
import CCVerif.Lemmas.TokBEq
/-!
C04, evaluator error positions, part 1: the normaliser (`ASTNormalizer.cpp`) invents no range.

`RangedL P t`: every node of `t` that is not below an `ID_LOCAL` node has a range `(lo, hi)` satisfying `P`
(`visibleNodes`).  Nothing is demanded below a local: neither the name collector nor the interpreter ever descends into
the children of an `ID_LOCAL`, and `SubstituteArgs` keeps the children of a renamed local of an inlined body as they
are.  Every node the normaliser creates copies the range of a node that was there (`ProcessTupleDeclaration`: the
declaration's; the `pr<i>` chain: the replaced local's; `EnumDeclaration`: the quantifier's), and `SubstituteArgs`
overwrites the ranges of an inlined body with the range of the call.  Hence `RangedL P` is kept for ANY `P`, whatever the
stored function trees look like (`rangedL_normalize`).
-/
namespace CCVerif.EvalPos
open CCVerif.Syntax CCVerif.Norm CCVerif.Eval

inductive RangedL (P : Int → Int → Prop) : Ast → Prop where
  | node {id : Tok} {d : TokData} {lo hi : Int} {kids : List Ast} :
      P lo hi → (id ≠ .ID_LOCAL → ∀ k, k ∈ kids → RangedL P k) → RangedL P (.node id d lo hi kids)

mutual
/-- the nodes a visitor can reach: the node, and the visible nodes of its children unless it is an `ID_LOCAL` -/
def visibleNodes : Ast → List Ast
  | .node t d lo hi ks => .node t d lo hi ks :: (if t = .ID_LOCAL then [] else visibleKids ks)
def visibleKids : List Ast → List Ast
  | [] => []
  | k :: ks => visibleNodes k ++ visibleKids ks
end

variable {P : Int → Int → Prop}

theorem RangedL.p {a : Ast} (h : RangedL P a) : P a.lo a.hi := by cases h; assumption
theorem RangedL.kids {a : Ast} (h : RangedL P a) (hne : a.id ≠ .ID_LOCAL) : ∀ k, k ∈ a.kids → RangedL P k := by
  cases h with | node _ hk => exact hk hne

theorem rangedL_setKids {a : Ast} {ks : List Ast} (h : RangedL P a)
    (hk : a.id ≠ .ID_LOCAL → ∀ k, k ∈ ks → RangedL P k) : RangedL P (setKids a ks) := by
  cases a with | node t d lo hi ks0 => exact .node h.p hk

theorem rangedL_leaf (t : Tok) (d : TokData) (lo hi : Int) (h : P lo hi) : RangedL P (.node t d lo hi []) :=
  .node h (by intro _ k hk; cases hk)

theorem rangedL_local (d : TokData) (lo hi : Int) (ks : List Ast) (h : P lo hi) : RangedL P (.node .ID_LOCAL d lo hi ks) :=
  .node h (fun hne => absurd rfl hne)

theorem RangedL.mono {Q : Int → Int → Prop} (hpq : ∀ lo hi, P lo hi → Q lo hi) : ∀ {a : Ast}, RangedL P a → RangedL Q a := by
  intro a h
  induction h with
  | node hp _ ih => exact .node (hpq _ _ hp) ih

mutual
theorem rangedL_visible : ∀ (a : Ast), RangedL P a → ∀ n, n ∈ visibleNodes a → P n.lo n.hi
  | .node t d lo hi ks, h, n, hn => by
    rw [visibleNodes] at hn
    rcases List.mem_cons.1 hn with rfl | hn
    · exact h.p
    · split at hn
      · cases hn
      · rename_i hne
        exact rangedL_visibleKids ks (h.kids hne) n hn
theorem rangedL_visibleKids : ∀ (ks : List Ast), (∀ k, k ∈ ks → RangedL P k) → ∀ n, n ∈ visibleKids ks → P n.lo n.hi
  | [], _, n, hn => by simp [visibleKids] at hn
  | k :: ks, h, n, hn => by
    rw [visibleKids] at hn
    rcases List.mem_append.1 hn with hn | hn
    · exact rangedL_visible k (h k (List.mem_cons_self ..)) n hn
    · exact rangedL_visibleKids ks (fun k hk => h k (List.mem_cons_of_mem _ hk)) n hn
end

mutual
theorem visible_rangedL : ∀ (a : Ast), (∀ n, n ∈ visibleNodes a → P n.lo n.hi) → RangedL P a
  | .node t d lo hi ks, h => by
    have h0 := h (.node t d lo hi ks) (by rw [visibleNodes]; exact List.mem_cons_self ..)
    refine .node h0 (fun hne => ?_)
    apply visibleKids_rangedL ks
    intro n hn
    apply h
    rw [visibleNodes, if_neg hne]
    exact List.mem_cons_of_mem _ hn
theorem visibleKids_rangedL : ∀ (ks : List Ast), (∀ n, n ∈ visibleKids ks → P n.lo n.hi) → ∀ k, k ∈ ks → RangedL P k
  | [], _, k, hk => by cases hk
  | k0 :: ks, h, k, hk => by
    rcases List.mem_cons.1 hk with hk | hk
    · rw [hk]
      exact visible_rangedL k0 (fun n hn => h n (by rw [visibleKids]; exact List.mem_append_left _ hn))
    · exact visibleKids_rangedL ks (fun n hn => h n (by rw [visibleKids]; exact List.mem_append_right _ hn)) k hk
end

/-! ## tuple patterns -/

theorem rangedL_processTupleDecl (decl : Ast) (st : NState) (h : RangedL P decl) :
    RangedL P (processTupleDecl decl st).2.2.1 := by
  unfold processTupleDecl
  dsimp only
  split <;> exact rangedL_leaf _ _ _ _ h.p

theorem rangedL_wrapPr (path : List Int) (lo hi : Int) (h : P lo hi) : ∀ (inner : Ast), RangedL P inner →
    RangedL P (wrapPr path lo hi inner) := by
  unfold wrapPr
  induction path with
  | nil => intro inner hi'; exact hi'
  | cons i r ih =>
    intro inner hi'
    simp only [List.foldl_cons]
    apply ih
    exact .node h (fun _ k hk => by
      rcases List.mem_singleton.1 hk with rfl
      exact hi')

mutual
theorem rangedL_substTuple (subs : List (String × List Int)) (nn : String) : ∀ (a : Ast), RangedL P a →
    RangedL P (substTuple subs nn a)
  | .node t d lo hi ks, h => by
    rw [substTuple]
    exact .node h.p (fun hne => rangedL_substTupleKids subs nn ks (h.kids hne))
theorem rangedL_substTupleKids (subs : List (String × List Int)) (nn : String) : ∀ (ks : List Ast),
    (∀ k, k ∈ ks → RangedL P k) → ∀ k, k ∈ substTupleKids subs nn ks → RangedL P k
  | [], _ => by simp [substTupleKids]
  | k :: ks, h => by
    rw [substTupleKids]
    intro x hx
    have hk := h k (List.mem_cons_self ..)
    rcases List.mem_cons.1 hx with rfl | hx
    · split
      · split
        · exact rangedL_wrapPr _ _ _ hk.p _ (rangedL_local _ _ _ _ hk.p)
        · exact hk
      · exact rangedL_substTuple subs nn k hk
    · exact rangedL_substTupleKids subs nn ks (fun k hk => h k (List.mem_cons_of_mem _ hk)) x hx
end

theorem all3 {a b c : Ast} (ha : RangedL P a) (hb : RangedL P b) (hc : RangedL P c) :
    ∀ k, k ∈ [a, b, c] → RangedL P k := by
  intro k hk
  simp only [List.mem_cons, List.not_mem_nil, or_false] at hk
  rcases hk with rfl | rfl | rfl <;> assumption

theorem rangedL_quantTuple (q : Ast) (st : NState) (h : RangedL P q) : RangedL P (quantTuple q st).1 := by
  unfold quantTuple
  split
  · rename_i decl dom pred hk
    have hd := rangedL_processTupleDecl (P := P) decl st
    generalize processTupleDecl decl st = r at hd
    obtain ⟨nn, subs, decl', st'⟩ := r
    refine rangedL_setKids h (fun hne => ?_)
    have hks := h.kids hne
    rw [hk] at hks
    exact all3 (hd (hks _ (by simp))) (hks _ (by simp)) (rangedL_substTuple _ _ _ (hks _ (by simp)))
  · exact h

theorem rangedL_quantTupleEnum (q : Ast) (st : NState) (h : RangedL P q) : RangedL P (quantTupleEnum q st).1 := by
  unfold quantTupleEnum
  split
  · rename_i decl dom inner hk
    split
    · rename_i idecl idom pred hik
      have hd := rangedL_processTupleDecl (P := P) decl st
      generalize processTupleDecl decl st = r at hd
      obtain ⟨nn, subs, decl', st'⟩ := r
      refine rangedL_setKids h (fun hne => ?_)
      have hks := h.kids hne
      rw [hk] at hks
      have hin : RangedL P inner := hks _ (by simp)
      refine all3 (hd (hks _ (by simp))) (hks _ (by simp)) (rangedL_setKids hin (fun hne2 => ?_))
      have hiks := hin.kids hne2
      rw [hik] at hiks
      exact all3 (hiks _ (by simp)) (hiks _ (by simp)) (rangedL_substTuple _ _ _ (hiks _ (by simp)))
    · exact rangedL_quantTuple q st h
  · exact h

theorem rangedL_enumDecl (q : Ast) (h : RangedL P q) (hd : ∀ d, q.kids.head? = some d → d.id ≠ .ID_LOCAL) :
    RangedL P (enumDecl q) := by
  unfold enumDecl
  split
  · rename_i t d lo hi decl dom pred
    split
    · rename_i d0 d1 rest hdk
      refine .node h.p (fun hne => ?_)
      have hks := h.kids hne
      have hdecl : RangedL P decl := hks _ (by simp [Ast.kids])
      have hdom : RangedL P dom := hks _ (by simp [Ast.kids])
      have hpred : RangedL P pred := hks _ (by simp [Ast.kids])
      have hdne : decl.id ≠ .ID_LOCAL := hd decl (by simp [Ast.kids])
      have hdks := hdecl.kids hdne
      rw [hdk] at hdks
      refine all3 (hdks _ (by simp)) hdom (.node h.p (fun _ => all3 ?_ hdom hpred))
      split
      · exact hdks _ (by simp)
      · exact rangedL_setKids hdecl (fun _ k hk => hdks k (List.mem_cons_of_mem _ hk))
    · exact h
  · exact h

theorem rangedL_declarative (r : Ast) (st : NState) (h : RangedL P r) : RangedL P (declarative r st).1 := by
  unfold declarative
  split
  · rename_i decl dom pred hk
    split
    · exact h
    · have hd := rangedL_processTupleDecl (P := P) decl st
      generalize processTupleDecl decl st = x at hd
      obtain ⟨nn, subs, decl', st'⟩ := x
      refine rangedL_setKids h (fun hne => ?_)
      have hks := h.kids hne
      rw [hk] at hks
      exact all3 (hd (hks _ (by simp))) (hks _ (by simp)) (rangedL_substTuple _ _ _ (hks _ (by simp)))
  · exact h

theorem rangedL_recursion (r : Ast) (st : NState) (h : RangedL P r) : RangedL P (recursion r st).1 := by
  unfold recursion
  split
  · rename_i decl init body hk
    split
    · exact h
    · have hd := rangedL_processTupleDecl (P := P) decl st
      generalize processTupleDecl decl st = x at hd
      obtain ⟨nn, subs, decl', st'⟩ := x
      refine rangedL_setKids h (fun hne => ?_)
      have hks := h.kids hne
      rw [hk] at hks
      exact all3 (hd (hks _ (by simp))) (hks _ (by simp)) (rangedL_substTuple _ _ _ (hks _ (by simp)))
  · rename_i decl init cond body hk
    split
    · exact h
    · have hd := rangedL_processTupleDecl (P := P) decl st
      generalize processTupleDecl decl st = x at hd
      obtain ⟨nn, subs, decl', st'⟩ := x
      refine rangedL_setKids h (fun hne => ?_)
      have hks := h.kids hne
      rw [hk] at hks
      intro k hk'
      simp only [List.mem_cons, List.not_mem_nil, or_false] at hk'
      rcases hk' with rfl | rfl | rfl | rfl
      · exact hd (hks _ (by simp))
      · exact hks _ (by simp)
      · exact rangedL_substTuple _ _ _ (hks _ (by simp))
      · exact rangedL_substTuple _ _ _ (hks _ (by simp))
  · exact h

theorem mem_mapIdx {α β} (f : Nat → α → β) (l : List α) (y : β) (h : y ∈ mapIdx f l) : ∃ i x, x ∈ l ∧ y = f i x := by
  unfold mapIdx at h
  obtain ⟨p, hp, rfl⟩ := List.mem_map.1 h
  exact ⟨p.2, p.1, (List.mem_zipIdx' hp).2 ▸ List.getElem_mem _, rfl⟩

theorem rangedL_imperativeStep (r : Ast) (child : Nat) (st : NState) (h : RangedL P r) :
    RangedL P (imperativeStep r child st).1 := by
  unfold imperativeStep
  split
  · exact h
  · rename_i blk hb
    split
    · exact h
    · rename_i hid
      split
      · rename_i decl brest hbk
        split
        · exact h
        · have hd := rangedL_processTupleDecl (P := P) decl st
          generalize processTupleDecl decl st = x at hd
          obtain ⟨nn, subs, decl', st'⟩ := x
          refine rangedL_setKids h (fun hne => ?_)
          have hks := h.kids hne
          have hblk : RangedL P blk := hks _ (List.mem_of_getElem? hb)
          have hbne : blk.id ≠ .ID_LOCAL := by
            intro e; rw [e] at hid; exact hid (by decide)
          have hbks := hblk.kids hbne
          rw [hbk] at hbks
          intro y hy
          obtain ⟨i, k, hk, rfl⟩ := mem_mapIdx _ _ _ hy
          have hkr := hks k hk
          have hone : RangedL P (match substTupleKids subs nn [k] with | [k'] => k' | _ => k) := by
            have := rangedL_substTupleKids (P := P) subs nn [k] (fun x hx => by
              rcases List.mem_singleton.1 hx with rfl; exact hkr)
            split
            · rename_i k' he
              exact this k' (by rw [he]; simp)
            · exact hkr
          dsimp only
          split
          · exact rangedL_setKids hblk (fun _ x hx => by
              rcases List.mem_cons.1 hx with rfl | hx
              · exact hd (hbks _ (by simp))
              · exact hbks _ (List.mem_cons_of_mem _ hx))
          · split
            · exact hone
            · exact hkr
      · exact h

theorem rangedL_imperative (r : Ast) (st : NState) (h : RangedL P r) : RangedL P (imperative r st).1 := by
  unfold imperative
  generalize List.range r.kids.length = l
  suffices ∀ (acc : Ast × NState), RangedL P acc.1 →
      RangedL P (l.foldl (fun (acc : Ast × NState) i => if i == 0 then acc else imperativeStep acc.1 i acc.2) acc).1 from
    this (r, st) h
  induction l with
  | nil => intro acc ha; exact ha
  | cons i l ih =>
    intro acc ha
    simp only [List.foldl_cons]
    apply ih
    split
    · exact ha
    · exact rangedL_imperativeStep _ _ _ ha

/-! ## inlining of a call: `SubstituteArgs` overwrites every range with the call's -/

theorem lookup_mem {α} (k : String) : ∀ (l : List (String × α)) (v : α), lookup k l = some v → (k, v) ∈ l
  | [], _, h => by simp [lookup] at h
  | (k', v') :: r, v, h => by
    rw [lookup] at h
    split at h
    · rename_i he
      have : k = k' := by simpa using he
      simp only [Option.some.injEq] at h
      subst h; subst this
      exact List.mem_cons_self ..
    · exact List.mem_cons_of_mem _ (lookup_mem k r v h)

mutual
theorem rangedL_substArgs (nodes : List (String × Ast)) (lo hi : Int) (hp : P lo hi)
    (hn : ∀ x, x ∈ nodes → RangedL P x.2) : ∀ (a : Ast) (st : SubSt), RangedL P (substArgs nodes lo hi a st).1
  | .node t d l0 h0 ks, st => by
    unfold substArgs
    split
    · rename_i hne
      have := rangedL_substArgsKids nodes lo hi hp hn ks st
      generalize substArgsKids nodes lo hi ks st = r at this
      obtain ⟨ks', st'⟩ := r
      exact .node hp (fun _ => this)
    · rename_i hloc
      have ht : t = .ID_LOCAL := by
        cases t <;> first | rfl | exact absurd (by decide) hloc
      subst ht
      dsimp only
      split
      · rename_i arg ha
        exact hn _ (lookup_mem _ _ _ ha)
      · split
        · exact rangedL_local _ _ _ _ hp
        · exact rangedL_local _ _ _ _ hp
theorem rangedL_substArgsKids (nodes : List (String × Ast)) (lo hi : Int) (hp : P lo hi)
    (hn : ∀ x, x ∈ nodes → RangedL P x.2) : ∀ (ks : List Ast) (st : SubSt),
    ∀ k, k ∈ (substArgsKids nodes lo hi ks st).1 → RangedL P k
  | [], st => by simp [substArgsKids]
  | k :: ks, st => by
    rw [substArgsKids]
    have h1 := rangedL_substArgs nodes lo hi hp hn k st
    generalize substArgs nodes lo hi k st = r1 at h1 ⊢
    obtain ⟨k', st1⟩ := r1
    dsimp only at h1 ⊢
    have h2 := rangedL_substArgsKids nodes lo hi hp hn ks st1
    generalize substArgsKids nodes lo hi ks st1 = r2 at h2 ⊢
    obtain ⟨ks', st2⟩ := r2
    dsimp only at h2 ⊢
    intro x hx
    rcases List.mem_cons.1 hx with rfl | hx
    · exact h1
    · exact h2 x hx
end

theorem rangedL_inlineCall (fs : Funcs) (call : Ast) (st : NState) (r : Ast × NState) (h : RangedL P call)
    (hne : call.id ≠ .ID_LOCAL) (hr : inlineCall fs call st = some r) : RangedL P r.1 := by
  unfold inlineCall at hr
  split at hr
  · rename_i fn args hk
    split at hr
    · cases hr
    · rename_i tree _
      split at hr
      · rename_i x fdef _
        split at hr
        · rename_i adecl body _
          dsimp only at hr
          split at hr
          · cases hr
          · have hks := h.kids hne
            rw [hk] at hks
            have hb := rangedL_substArgs (P := P) ((argNames adecl).zip args) call.lo call.hi h.p
              (fun x hx => hks _ (List.mem_cons_of_mem _ (List.of_mem_zip hx).2)) body
              { base := st.base, userLocals := st.userLocals }
            generalize substArgs ((argNames adecl).zip args) call.lo call.hi body
              { base := st.base, userLocals := st.userLocals } = sb at hb hr
            obtain ⟨body', sub⟩ := sb
            simp only [Option.some.injEq] at hr
            subst hr
            exact hb
        · cases hr
      · cases hr
  · cases hr

/-! ## `Normalizer::Normalize` -/

theorem rangedL_normKids {N : Ast → NState → Option (Ast × NState)} :
    ∀ (ks : List Ast) (done : List Ast) (b : NState) (r : List Ast × NState),
    (∀ k, k ∈ ks → ∀ st x, N k st = some x → RangedL P x.1) →
    (∀ k, k ∈ done → RangedL P k) →
    normKids N ks (some (done, b)) = some r → ∀ k, k ∈ r.1 → RangedL P k
  | [], done, b, r, _, hd, hr => by
    simp only [normKids, List.foldl_nil, Option.some.injEq] at hr
    subst hr; exact hd
  | k :: ks, done, b, r, hN, hd, hr => by
    cases hk : N k b with
    | none =>
      have : normKids N (k :: ks) (some (done, b)) = normKids N ks none := by
        simp only [normKids, List.foldl_cons, hk]
      rw [this, normKids_none] at hr; cases hr
    | some y =>
      have e1 : normKids N (k :: ks) (some (done, b)) = normKids N ks (some (done ++ [y.1], y.2)) := by
        simp only [normKids, List.foldl_cons, hk]
      rw [e1] at hr
      refine rangedL_normKids ks _ _ r (fun k' hk' => hN k' (List.mem_cons_of_mem _ hk')) ?_ hr
      intro x hx
      rcases List.mem_append.1 hx with hx | hx
      · exact hd x hx
      · rcases List.mem_singleton.1 hx with rfl
        exact hN k (List.mem_cons_self ..) b y hk

theorem rangedL_normStep (fs : Funcs) {N : Ast → NState → Option (Ast × NState)} (root : Ast) (st : NState)
    (y : Ast × NState) (hN : ∀ k st x, RangedL P k → N k st = some x → RangedL P x.1)
    (h : RangedL P root) (hy : normStep fs N root st = some y) : RangedL P y.1 := by
  unfold normStep at hy
  split at hy
  · -- FORALL
    rename_i hid
    have hquant : ∀ (r1 : Ast), RangedL P r1 → ∀ b : Bool,
        RangedL P (if b then quantTupleEnum r1 st else quantTuple r1 st).1 := by
      intro r1 h1 b
      cases b
      · exact rangedL_quantTuple r1 st h1
      · exact rangedL_quantTupleEnum r1 st h1
    split at hy
    · rename_i decl hdecl
      have h1 : RangedL P (if decl.id == .NT_ENUM_DECL then enumDecl root else root) := by
        split
        · rename_i he
          refine rangedL_enumDecl root h (fun d hd => ?_)
          rw [hdecl] at hd
          simp only [Option.some.injEq] at hd
          subst hd
          rw [tok_beq_eq _ _ he]; decide
        · exact h
      dsimp only at hy
      split at hy
      · split at hy
        · simp only [Option.some.injEq] at hy; subst hy
          split
          · rename_i he; rw [if_pos he] at h1; exact rangedL_quantTupleEnum _ st h1
          · rename_i he; rw [if_neg he] at h1; exact rangedL_quantTuple _ st h1
        · simp only [Option.some.injEq] at hy; subst hy; exact h1
      · simp only [Option.some.injEq] at hy; subst hy; exact h1
    · simp only [Option.some.injEq] at hy; subst hy; exact h
  · -- EXISTS
    split at hy
    · rename_i decl hdecl
      have h1 : RangedL P (if decl.id == .NT_ENUM_DECL then enumDecl root else root) := by
        split
        · rename_i he
          refine rangedL_enumDecl root h (fun d hd => ?_)
          rw [hdecl] at hd
          simp only [Option.some.injEq] at hd
          subst hd
          rw [tok_beq_eq _ _ he]; decide
        · exact h
      dsimp only at hy
      split at hy
      · split at hy
        · simp only [Option.some.injEq] at hy; subst hy
          split
          · rename_i he; rw [if_pos he] at h1; exact rangedL_quantTupleEnum _ st h1
          · rename_i he; rw [if_neg he] at h1; exact rangedL_quantTuple _ st h1
        · simp only [Option.some.injEq] at hy; subst hy; exact h1
      · simp only [Option.some.injEq] at hy; subst hy; exact h1
    · simp only [Option.some.injEq] at hy; subst hy; exact h
  · simp only [Option.some.injEq] at hy; subst hy; exact rangedL_recursion root st h
  · simp only [Option.some.injEq] at hy; subst hy; exact rangedL_recursion root st h
  · simp only [Option.some.injEq] at hy; subst hy; exact rangedL_declarative root st h
  · simp only [Option.some.injEq] at hy; subst hy; exact rangedL_imperative root st h
  · rename_i hid
    split at hy
    · simp only [Option.some.injEq] at hy; subst hy; exact h
    · rename_i body st' hin
      exact hN body st' y (rangedL_inlineCall fs root st (body, st') h (by rw [hid]; decide) hin) hy
  · simp only [Option.some.injEq] at hy; subst hy; exact h

/-- **the normaliser invents no range**: whatever the stored function trees are -/
theorem rangedL_normalize (fs : Funcs) : ∀ (fuel : Nat) (root : Ast) (st : NState) (r : Ast × NState),
    RangedL P root → normalize fs fuel root st = some r → RangedL P r.1
  | 0, _, _, _, _, hr => by simp [normalize] at hr
  | fuel + 1, root, st, r, h, hr => by
    rw [normalize_succ] at hr
    unfold normF at hr
    cases hs : normStep fs (normalize fs fuel) root st with
    | none => rw [hs] at hr; cases hr
    | some y =>
      rw [hs] at hr
      have h1 : RangedL P y.1 :=
        rangedL_normStep fs root st y (fun k st x hk hx => rangedL_normalize fs fuel k st x hk hx) h hs
      dsimp only at hr
      cases hk : normKids (normalize fs fuel) y.1.kids (some (([] : List Ast), y.2)) with
      | none => rw [hk] at hr; cases hr
      | some z =>
        rw [hk] at hr
        simp only [Option.some.injEq] at hr
        subst hr
        refine rangedL_setKids h1 (fun hne => ?_)
        exact rangedL_normKids y.1.kids [] y.2 z
          (fun k hkk st x hx => rangedL_normalize fs fuel k st x (h1.kids hne k hkk) hx)
          (by intro k hk; cases hk) hk

theorem rangedL_normalizeTree (fs : Funcs) (fuel : Nat) (root nt : Ast) (h : RangedL P root)
    (hn : normalizeTree fs fuel root = some nt) : RangedL P nt := by
  unfold normalizeTree at hn
  cases hr : normalize fs fuel root { userLocals := collectLocals root } with
  | none => rw [hr] at hn; cases hn
  | some r =>
    rw [hr] at hn
    simp only [Option.map_some, Option.some.injEq] at hn
    subst hn
    exact rangedL_normalize fs fuel root _ r h hr

end CCVerif.EvalPos
