import CCVerif.Model.Merge
import CCVerif.Lemmas.Dedup
/-!
Lemmas about the model of `rsOperationFacet::MergeWith` (C12): the invariant of the insertion
loop (`MInv`) and its preservation by one `InsertCopy` step. Core Lean only.
-/
namespace CCVerif.Merge
open CCVerif.Translation CCVerif.Dedup

/-! ### list position -/

theorem insertAfterLast_perm (p : Cst → Bool) (c : Cst) :
    ∀ (l r : Schema), insertAfterLast p c l = some r → r.Perm (c :: l) := by
  intro l
  induction l with
  | nil => intro r h; cases h
  | cons x xs ih =>
    intro r h
    unfold insertAfterLast at h
    cases hx : insertAfterLast p c xs with
    | some r' =>
      rw [hx] at h
      cases h
      exact ((ih r' hx).cons x).trans (List.Perm.swap c x xs)
    | none =>
      rw [hx] at h
      simp only at h
      split at h
      · cases h; exact List.Perm.swap c x xs
      · cases h

theorem listInsert_perm (l : Schema) (c : Cst) : (listInsert l c).Perm (c :: l) := by
  unfold listInsert
  split
  · cases h : insertAfterLast (fun x => x.kind ≤ c.kind) c l with
    | some r => exact insertAfterLast_perm _ c l r h
    | none => exact List.Perm.refl _
  · exact List.perm_append_comm

theorem mem_listInsert (l : Schema) (c s : Cst) : s ∈ listInsert l c ↔ s = c ∨ s ∈ l := by
  rw [(listInsert_perm l c).mem_iff, List.mem_cons]

theorem uids_listInsert_perm (l : Schema) (c : Cst) : (uids (listInsert l c)).Perm (c.uid :: uids l) :=
  (listInsert_perm l c).map _

theorem aliases_listInsert_perm (l : Schema) (c : Cst) :
    (aliases (listInsert l c)).Perm (c.alias :: aliases l) :=
  (listInsert_perm l c).map _

/-! ### translation bookkeeping -/

theorem insert_of_not_key (t : Tr) (k v : Nat) (h : k ∉ keys t) : Translation.insert t k v = t ++ [(k, v)] := by
  unfold Translation.insert
  have : containsKey t k = false := by
    cases hc : containsKey t k with
    | false => rfl
    | true => exact absurd ((containsKey_iff_mem_keys t k).1 hc) h
  simp [this]

theorem keys_insert_of_not_key (t : Tr) (k v : Nat) (h : k ∉ keys t) :
    keys (Translation.insert t k v) = keys t ++ [k] := by
  rw [insert_of_not_key t k v h]; simp [keys]

theorem lookup_insert_self (t : Tr) (k v : Nat) (h : k ∉ keys t) :
    lookup (Translation.insert t k v) k = some v := by
  rw [insert_of_not_key t k v h, lookup_append']
  have : containsKey t k = false := by
    cases hc : containsKey t k with
    | false => rfl
    | true => exact absurd ((containsKey_iff_mem_keys t k).1 hc) h
  rw [lookup_eq_none_of_not_key t k this, lookup_single]
  simp

theorem lookup_insert_other (t : Tr) (k v k' : Nat) (h : k' ≠ k) :
    lookup (Translation.insert t k v) k' = lookup t k' := by
  unfold Translation.insert
  split
  · rfl
  · rw [lookup_append', lookup_single]
    have : ¬ k = k' := fun e => h e.symm
    cases lookup t k' <;> simp [this]

theorem ctxFn_append_of_key (ctx : List (String × String)) (x a a' : String) (h : x ∈ ctx.map (·.1)) :
    ctxFn (ctx ++ [(a, a')]) x = ctxFn ctx x := by
  unfold ctxFn
  rw [List.find?_append]
  rcases List.mem_map.1 h with ⟨p, hp, hpx⟩
  have : (ctx.find? (fun q => q.1 == x)).isSome = true := by
    rw [List.find?_isSome]; exact ⟨p, hp, by simpa using hpx⟩
  cases hf : ctx.find? (fun q => q.1 == x) with
  | none => rw [hf] at this; cases this
  | some q => simp

theorem ctxFn_not_key (ctx : List (String × String)) (x : String) (h : x ∉ ctx.map (·.1)) :
    ctxFn ctx x = x := by
  unfold ctxFn
  have : ctx.find? (fun q => q.1 == x) = none := by
    apply List.find?_eq_none.2
    intro q hq hqx
    exact h (List.mem_map.2 ⟨q, hq, by simpa using hqx⟩)
  rw [this]; rfl

theorem ctxFn_append_new (ctx : List (String × String)) (a a' : String) (h : a ∉ ctx.map (·.1)) :
    ctxFn (ctx ++ [(a, a')]) a = a' := by
  unfold ctxFn
  rw [List.find?_append]
  have : ctx.find? (fun q => q.1 == a) = none := by
    apply List.find?_eq_none.2
    intro q hq hqx
    exact h (List.mem_map.2 ⟨q, hq, by simpa using hqx⟩)
  rw [this]; simp

theorem ctxFn_append_ne (ctx : List (String × String)) (x a a' : String) (h : x ≠ a) :
    ctxFn (ctx ++ [(a, a')]) x = ctxFn ctx x := by
  unfold ctxFn
  rw [List.find?_append]
  have : ¬ a = x := fun e => h e.symm
  cases hf : ctx.find? (fun q => q.1 == x) with
  | some q => simp
  | none => simp [this]

theorem ctxFn_nil (x : String) : ctxFn [] x = x := rfl

theorem rename_id_eq (s : Cst) (f : String → String) (hf : ∀ x, f x = x) : s.rename f = s := by
  have h0 : ∀ t : Tok, renTok f t = t := by
    intro t; rw [renTok_congr hf t, renTok_id]
  have h1 : ∀ ts : List Tok, ts.map (renTok f) = ts := by
    intro ts; induction ts with
    | nil => rfl
    | cons t ts ih => simp only [List.map_cons, h0, ih]
  have h2 : ∀ r : List (List Tok), r.map (fun ts => ts.map (renTok f)) = r := by
    intro r; induction r with
    | nil => rfl
    | cons t ts ih => rw [List.map_cons, ih, h1]
  cases s with
  | mk uid alias kind definition rest =>
    show Cst.mk uid alias kind (definition.map (renTok f)) (rest.map (fun ts => ts.map (renTok f))) = _
    rw [h1, h2]

/-! ### the invariant of the insertion loop -/

/-- the translation `MergeWith` returns, as far as the loop has come -/
def trOf (bdone : Schema) (st : MState) : Tr := (uids bdone).zip st.inserted

structure MInv (a0 bdone : Schema) (st : MState) : Prop where
  nodupU : (uids st.a).Nodup
  nodupA : (aliases st.a).Nodup
  frame : ∀ s ∈ a0, s ∈ st.a
  origin : ∀ s ∈ st.a, s ∈ a0 ∨ s.uid ∈ st.inserted
  newU : ∀ u ∈ st.inserted, u ∉ uids a0
  len : st.inserted.length = bdone.length
  keysRepl : ∀ x ∈ st.repl.map (·.1), x ∈ aliases bdone
  repr : ∀ c2 ∈ bdone, ∃ s ∈ st.a, lookup (trOf bdone st) c2.uid = some s.uid ∧ s.uid ∈ st.inserted ∧
    s.kind = c2.kind ∧ ctxFn st.repl c2.alias = s.alias ∧
    s.definition = c2.definition ∧ s.rest = c2.rest

theorem minv_init (a0 : Schema) (freshs : List Nat) (hU : (uids a0).Nodup) (hA : (aliases a0).Nodup) :
    MInv a0 [] { a := a0, freshs := freshs } where
  nodupU := hU
  nodupA := hA
  frame := fun _ h => h
  origin := fun _ h => Or.inl h
  newU := by intro u h; cases h
  len := rfl
  keysRepl := by intro x h; cases h
  repr := by intro c h; cases h

theorem mergeStep_some {g : Names} {st st' : MState} {c2 : Cst} (h : mergeStep g st c2 = some st') :
    ∃ u fs, u ∉ uids st.a ∧ newAlias g st.a c2 ∉ aliases st.a ∧ st' = finish g st c2 u fs := by
  unfold mergeStep at h
  split at h
  · cases h
  · rename_i hal
    have hal' : newAlias g st.a c2 ∉ aliases st.a := by simpa using hal
    split at h
    · split at h
      · cases h
      · rename_i f fs _
        split at h
        · cases h
        · rename_i hf
          cases h
          exact ⟨f, fs, by simpa using hf, hal', rfl⟩
    · rename_i hc
      cases h
      exact ⟨c2.uid, st.freshs, by simpa using hc, hal', rfl⟩

theorem keys_zip (ks vs : List Nat) (h : vs.length = ks.length) : keys (ks.zip vs) = ks := by
  unfold keys
  exact List.map_fst_zip (by omega)

theorem trOf_snoc (bdone : Schema) (c2 : Cst) (st : MState) (u : Nat) (ins : List Nat)
    (hlen : st.inserted.length = bdone.length) (hins : ins = st.inserted ++ [u]) :
    (uids (bdone ++ [c2])).zip ins = trOf bdone st ++ [(c2.uid, u)] := by
  subst hins
  unfold trOf uids
  rw [List.map_append, List.zip_append (by simpa using hlen.symm)]
  rfl

theorem minv_finish {g : Names} {a0 bdone : Schema} {st : MState} {c2 : Cst}
    (hi : MInv a0 bdone st) (hbU : (uids (bdone ++ [c2])).Nodup) (hbA : (aliases (bdone ++ [c2])).Nodup)
    (u : Nat) (fs : List Nat) (hu : u ∉ uids st.a) (hal : newAlias g st.a c2 ∉ aliases st.a) :
    MInv a0 (bdone ++ [c2]) (finish g st c2 u fs) := by
  have hc2U : c2.uid ∉ uids bdone := by
    have := List.nodup_append.1 (by simpa [uids] using hbU : (uids bdone ++ [c2.uid]).Nodup)
    intro hm; exact this.2.2 c2.uid hm c2.uid (by simp) rfl
  have hc2A : c2.alias ∉ aliases bdone := by
    have := List.nodup_append.1 (by simpa [aliases] using hbA : (aliases bdone ++ [c2.alias]).Nodup)
    intro hm; exact this.2.2 c2.alias hm c2.alias (by simp) rfl
  have hkey : c2.uid ∉ keys (trOf bdone st) := by
    unfold trOf; rw [keys_zip _ _ (by simpa [uids] using hi.len)]; exact hc2U
  have hckey : c2.alias ∉ st.repl.map (·.1) := fun hm => hc2A (hi.keysRepl _ hm)
  have htr : trOf (bdone ++ [c2]) (finish g st c2 u fs) = trOf bdone st ++ [(c2.uid, u)] :=
    trOf_snoc bdone c2 st u _ hi.len rfl
  let copy : Cst := { c2 with uid := u, alias := newAlias g st.a c2 }
  have hcopyU : copy.uid = u := rfl
  have hcopyA : copy.alias = newAlias g st.a c2 := rfl
  refine ⟨?_, ?_, ?_, ?_, ?_, ?_, ?_, ?_⟩
  · show (uids (listInsert st.a copy)).Nodup
    rw [(uids_listInsert_perm _ _).nodup_iff, List.nodup_cons]
    exact ⟨hu, hi.nodupU⟩
  · show (aliases (listInsert st.a copy)).Nodup
    rw [(aliases_listInsert_perm _ _).nodup_iff, List.nodup_cons]
    exact ⟨hal, hi.nodupA⟩
  · intro s hs
    exact (mem_listInsert _ _ _).2 (Or.inr (hi.frame s hs))
  · intro s hs
    rcases (mem_listInsert _ _ _).1 hs with rfl | hs
    · exact Or.inr (by simp [finish])
    · rcases hi.origin s hs with h | h
      · exact Or.inl h
      · exact Or.inr (by simp [finish, h])
  · intro u' hu'
    simp only [finish, List.mem_append, List.mem_singleton] at hu'
    rcases hu' with h | rfl
    · exact hi.newU u' h
    · intro hm
      rcases List.mem_map.1 hm with ⟨s, hs, hsu⟩
      exact hu (List.mem_map.2 ⟨s, hi.frame s hs, hsu⟩)
  · simp [finish, hi.len]
  · intro x hx
    have : x ∈ st.repl.map (·.1) ∨ x = c2.alias := by
      simp only [finish] at hx
      split at hx
      · rw [List.map_append, List.mem_append] at hx
        rcases hx with h | h
        · exact Or.inl h
        · exact Or.inr (by simpa using h)
      · exact Or.inl hx
    rcases this with h | rfl
    · simp only [aliases, List.map_append, List.mem_append]; exact Or.inl (hi.keysRepl _ h)
    · simp [aliases]
  · intro c hc
    rw [htr]
    rcases List.mem_append.1 hc with hc | hc
    · rcases hi.repr c hc with ⟨s, hs, hl, hin, hk, hctx, hd, hr⟩
      have hne : c.alias ≠ c2.alias := fun e => hc2A (e ▸ List.mem_map.2 ⟨c, hc, rfl⟩)
      refine ⟨s, (mem_listInsert _ _ _).2 (Or.inr hs), ?_, by simp [finish, hin], hk, ?_, hd, hr⟩
      · rw [lookup_append', hl]
      · show ctxFn (finish g st c2 u fs).repl c.alias = s.alias
        simp only [finish]
        split
        · rw [ctxFn_append_ne _ _ _ _ hne]; exact hctx
        · exact hctx
    · have : c = c2 := by simpa using hc
      subst this
      refine ⟨copy, (mem_listInsert _ _ _).2 (Or.inl rfl), ?_, by simp [finish, hcopyU], rfl, ?_, rfl, rfl⟩
      · rw [lookup_append']
        have : containsKey (trOf bdone st) c.uid = false := by
          cases hck : containsKey (trOf bdone st) c.uid with
          | false => rfl
          | true => exact absurd ((containsKey_iff_mem_keys _ _).1 hck) hkey
        rw [lookup_eq_none_of_not_key _ _ this, lookup_single]
        simp [hcopyU]
      · show ctxFn (finish g st c u fs).repl c.alias = copy.alias
        simp only [finish]
        split
        · rw [ctxFn_append_new _ _ _ hckey]
        · rename_i heq
          have heq' : c.alias = newAlias g st.a c := by simpa using heq
          rw [ctxFn_not_key _ _ hckey, hcopyA]; exact heq'

theorem minv_fold {g : Names} {a0 : Schema} :
    ∀ (b bdone : Schema) (st st' : MState), MInv a0 bdone st →
      (uids (bdone ++ b)).Nodup → (aliases (bdone ++ b)).Nodup →
      b.foldlM (mergeStep g) st = some st' → MInv a0 (bdone ++ b) st' := by
  intro b
  induction b with
  | nil =>
    intro bdone st st' hi _ _ h
    simp only [List.foldlM_nil] at h
    cases h
    simpa using hi
  | cons c2 rest ih =>
    intro bdone st st' hi hU hA h
    rw [List.foldlM_cons] at h
    cases hs : mergeStep g st c2 with
    | none => rw [hs] at h; cases h
    | some st1 =>
      rw [hs] at h
      rcases mergeStep_some hs with ⟨u, fs, hu, hal, rfl⟩
      have e : bdone ++ c2 :: rest = (bdone ++ [c2]) ++ rest := by simp
      rw [e] at hU hA ⊢
      have hU1 : (uids (bdone ++ [c2])).Nodup := by
        have : (uids (bdone ++ [c2]) ++ uids rest).Nodup := by simpa [uids] using hU
        exact (List.nodup_append.1 this).1
      have hA1 : (aliases (bdone ++ [c2])).Nodup := by
        have : (aliases (bdone ++ [c2]) ++ aliases rest).Nodup := by simpa [aliases] using hA
        exact (List.nodup_append.1 this).1
      exact ih _ _ _ (minv_finish hi hU1 hA1 u fs hu hal) hU hA h

/-- building the returned translation entry by entry (`equateParams.Insert`) gives the pairs
themselves when the keys are distinct -/
theorem foldl_insert_pairs (ps : Tr) (acc : Tr) (h : (keys acc ++ keys ps).Nodup) :
    ps.foldl (fun t p => Translation.insert t p.1 p.2) acc = acc ++ ps := by
  induction ps generalizing acc with
  | nil => simp
  | cons p rest ih =>
    simp only [List.foldl_cons]
    have hp : p.1 ∉ keys acc := by
      intro hm
      exact (List.nodup_append.1 h).2.2 p.1 hm p.1 (by simp [keys]) rfl
    rw [insert_of_not_key _ _ _ hp, ih]
    · simp
    · simpa [keys] using h

theorem fold_length {g : Names} :
    ∀ (b : Schema) (st st' : MState), b.foldlM (mergeStep g) st = some st' →
      st'.a.length = st.a.length + b.length := by
  intro b
  induction b with
  | nil => intro st st' h; simp only [List.foldlM_nil] at h; cases h; simp
  | cons c2 rest ih =>
    intro st st' h
    rw [List.foldlM_cons] at h
    cases hs : mergeStep g st c2 with
    | none => rw [hs] at h; cases h
    | some st1 =>
      rw [hs] at h
      rcases mergeStep_some hs with ⟨u, fs, _, _, rfl⟩
      rw [ih _ _ h]
      have : (finish g st c2 u fs).a.length = st.a.length + 1 := by
        show (listInsert st.a _).length = _
        rw [(listInsert_perm _ _).length_eq]; simp
      rw [this]; simp; omega

theorem merge_length {g : Names} {freshs : List Nat} {a b : Schema} {st : MState}
    (h : b.foldlM (mergeStep g) { a := a, freshs := freshs } = some st) :
    st.a.length = a.length + b.length :=
  fold_length b _ st h

end CCVerif.Merge
