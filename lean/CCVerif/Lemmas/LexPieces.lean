import CCVerif.Model.Lexer
/-!
# Generic lexing of a text that is a concatenation of token spellings and blanks

The pretty-printer's output is a sequence of `Item`s (blank runs and token spellings). `lex_items`:
when every token spelling `w` lexes alone as its token with full length and no rule of the table can
match beyond `w` given the unit that follows it (`ext syn w c = false`), the lexer gives back
exactly the tokens of the items followed by END. All facts about the rule tables are `decide`d over
`Generated.mathRules` / `asciiRules` (re-proved on every regeneration).
-/
namespace CCVerif.LexP
open CCVerif.Syntax CCVerif.Generated CCVerif.Lexer

/-! ## `spanLen` -/

theorem spanLen_le (p : Nat → Bool) (s : List Nat) : spanLen p s ≤ s.length := by
  induction s with
  | nil => simp [spanLen]
  | cons c r ih => simp only [spanLen]; split <;> simp <;> omega

theorem spanLen_all (p : Nat → Bool) (s : List Nat) (h : s.all p = true) : spanLen p s = s.length := by
  induction s with
  | nil => simp [spanLen]
  | cons c r ih =>
    simp only [List.all_cons, Bool.and_eq_true] at h
    simp [spanLen, h.1, ih h.2]

/-- the span does not change when the text is continued by `c :: rest`, unless all of `w` and `c` are in the class -/
theorem spanLen_stable (p : Nat → Bool) (w : List Nat) (c : Nat) (rest : List Nat)
    (h : (w.all p && p c) = false) : spanLen p (w ++ c :: rest) = spanLen p w := by
  induction w with
  | nil => simp at h; simp [spanLen, h]
  | cons a w ih =>
    simp only [List.cons_append, spanLen]
    by_cases ha : p a = true
    · simp only [ha, if_true]
      rw [ih]
      simpa [ha] using h
    · simp [ha]

theorem spanLen_pos_of_head (p : Nat → Bool) (c : Nat) (r : List Nat) (h : p c = true) :
    spanLen p (c :: r) = spanLen p r + 1 := by simp [spanLen, h]

theorem spanLen_zero_of_head (p : Nat → Bool) (c : Nat) (r : List Nat) (h : p c = false) :
    spanLen p (c :: r) = 0 := by simp [spanLen, h]

/-- after the span comes the end or a unit outside the class -/
theorem spanLen_drop (p : Nat → Bool) (s : List Nat) : spanLen p (s.drop (spanLen p s)) = 0 := by
  induction s with
  | nil => simp [spanLen]
  | cons c r ih =>
    by_cases hc : p c = true
    · simp [spanLen, hc, ih]
    · simp [spanLen, hc]

/-! ## `isPrefix` -/

theorem isPrefix_nil_right (l : List Nat) : isPrefix l [] = l.isEmpty := by
  cases l <;> rfl

/-- a pattern prefix that does not begin with `w ++ [c]` matches `w ++ c :: rest` iff it matches `w` -/
theorem isPrefix_stable (w : List Nat) (c : Nat) (rest l : List Nat)
    (h : isPrefix (w ++ [c]) l = false) : isPrefix l (w ++ c :: rest) = isPrefix l w := by
  induction w generalizing l with
  | nil =>
    cases l with
    | nil => rfl
    | cons x l =>
      simp only [List.nil_append, isPrefix, Bool.and_true] at h
      have : (x == c) = false := by
        rw [Bool.eq_false_iff] at h ⊢; intro hx; apply h; simp at hx ⊢; exact hx.symm
      simp [isPrefix, this]
  | cons a w ih =>
    cases l with
    | nil => rfl
    | cons x l =>
      simp only [List.cons_append, isPrefix] at h ⊢
      by_cases hx : (x == a) = true
      · have hax : (a == x) = true := by simp at hx ⊢; exact hx.symm
        simp only [hax, Bool.true_and] at h
        simp [hx, ih l h]
      · simp [hx]

theorem isPrefix_length {l s : List Nat} (h : isPrefix l s = true) : l.length ≤ s.length := by
  induction l generalizing s with
  | nil => simp
  | cons a l ih =>
    cases s with
    | nil => simp [isPrefix] at h
    | cons b s =>
      simp only [isPrefix, Bool.and_eq_true] at h
      have := ih h.2
      simp; omega

theorem isPrefix_eq {l s : List Nat} (h : isPrefix l s = true) : s = l ++ s.drop l.length := by
  induction l generalizing s with
  | nil => simp
  | cons a l ih =>
    cases s with
    | nil => simp [isPrefix] at h
    | cons b s =>
      simp only [isPrefix, Bool.and_eq_true, beq_iff_eq] at h
      have := ih h.2
      simp only [List.length_cons, List.drop_succ_cons, List.cons_append]
      rw [← this, h.1]

theorem isPrefix_append_self (l s : List Nat) : isPrefix l (l ++ s) = true := by
  induction l with
  | nil => rfl
  | cons a l ih => simp [isPrefix, ih]

theorem isPrefix_append_right {l w : List Nat} (v : List Nat) (h : isPrefix l w = true) :
    isPrefix l (w ++ v) = true := by
  rw [isPrefix_eq h, List.append_assoc]; exact isPrefix_append_self _ _

theorem drop_append_of_isPrefix {l w : List Nat} (v : List Nat) (h : isPrefix l w = true) :
    (w ++ v).drop l.length = w.drop l.length ++ v := by
  rw [List.drop_append_of_le_length (isPrefix_length h)]

/-- every unit of a prefix occurs in the text -/
theorem isPrefix_mem {l s : List Nat} (h : isPrefix l s = true) : ∀ x ∈ l, x ∈ s := by
  intro x hx; rw [isPrefix_eq h]; exact List.mem_append_left _ hx

theorem isPrefix_head {a b : Nat} {l s : List Nat} (h : isPrefix (a :: l) (b :: s) = true) : a = b := by
  simp only [isPrefix, Bool.and_eq_true, beq_iff_eq] at h; exact h.1


/-! ## `indexTail` / `indexLen`: fuel independence and stability -/

theorem indexTail_nil (f : Nat) : indexTail f [] = 0 := by cases f <;> rfl

theorem indexTail_comma (f : Nat) (r : List Nat) :
    indexTail (f + 1) (44 :: r) =
      if spanLen isDigit r == 0 then 0 else 1 + spanLen isDigit r + indexTail f (r.drop (spanLen isDigit r)) := rfl

theorem indexTail_other (f : Nat) (c : Nat) (r : List Nat) (h : c ≠ 44) : indexTail f (c :: r) = 0 := by
  cases f with
  | zero => rfl
  | succ f =>
    unfold indexTail
    split
    · next heq => simp at heq; exact absurd heq.1 h
    · rfl

theorem indexTail_fuel (f f' : Nat) (s : List Nat) (h : s.length ≤ f) (h' : s.length ≤ f') :
    indexTail f s = indexTail f' s := by
  induction f generalizing f' s with
  | zero =>
    have : s = [] := by cases s with | nil => rfl | cons _ _ => simp at h
    subst this; rw [indexTail_nil, indexTail_nil]
  | succ f ih =>
    cases s with
    | nil => rw [indexTail_nil, indexTail_nil]
    | cons c r =>
      cases f' with
      | zero => simp at h'
      | succ f' =>
        by_cases hc : c = 44
        · subst hc
          rw [indexTail_comma, indexTail_comma]
          have hk := spanLen_le isDigit r
          simp only [List.length_cons] at h h'
          rw [ih f' (r.drop (spanLen isDigit r)) (by simp; omega) (by simp; omega)]
        · rw [indexTail_other _ _ _ hc, indexTail_other _ _ _ hc]

/-- a continuation `c :: rest` after `u` is not consumed by `(,{number})*` when `c` is not a digit and, if it is a
comma, the match on `u` stops before the end of `u` -/
theorem indexTail_stable (f f' : Nat) (u : List Nat) (c : Nat) (rest : List Nat)
    (hf : (u ++ c :: rest).length ≤ f) (hf' : u.length ≤ f') (hd : isDigit c = false)
    (hc : c = 44 → indexTail u.length u ≠ u.length) :
    indexTail f (u ++ c :: rest) = indexTail f' u := by
  induction f generalizing f' u with
  | zero => simp at hf
  | succ f ih =>
    cases u with
    | nil =>
      have h44 : c ≠ 44 := fun h => hc h (by simp [indexTail_nil])
      rw [indexTail_nil, List.nil_append, indexTail_other _ _ _ h44]
    | cons x r =>
      cases f' with
      | zero => simp at hf'
      | succ f' =>
        by_cases hx : x = 44
        · subst hx
          have hsp : spanLen isDigit (r ++ c :: rest) = spanLen isDigit r :=
            spanLen_stable isDigit r c rest (by simp [hd])
          have hk := spanLen_le isDigit r
          rw [List.cons_append, indexTail_comma, indexTail_comma, hsp]
          by_cases hk0 : spanLen isDigit r = 0
          · simp [hk0]
          · have hne : (spanLen isDigit r == 0) = false := by simp [hk0]
            simp only [hne]
            rw [List.drop_append_of_le_length hk]
            simp only [List.length_cons, List.length_append] at hf hf'
            rw [ih f' (r.drop (spanLen isDigit r)) (by simp; omega) (by simp; omega)]
            intro h44 heq
            apply hc h44
            rw [List.length_cons, indexTail_comma]
            simp only [hne]
            rw [indexTail_fuel r.length (r.drop (spanLen isDigit r)).length _ (by simp) (Nat.le_refl _), heq]
            simp; omega
        · rw [List.cons_append, indexTail_other _ _ _ hx, indexTail_other _ _ _ hx]

/-- `{number}(,{number})*` on `u ++ c :: rest` stops where it stops on `u` when `c` is not a digit and, if `c` is a
comma, `u` is not itself a complete index sequence -/
theorem indexLen_stable (u : List Nat) (c : Nat) (rest : List Nat) (hd : isDigit c = false)
    (hc : c = 44 → u = [] ∨ indexLen u ≠ u.length) : indexLen (u ++ c :: rest) = indexLen u := by
  have hsp : spanLen isDigit (u ++ c :: rest) = spanLen isDigit u :=
    spanLen_stable isDigit u c rest (by simp [hd])
  have hk := spanLen_le isDigit u
  unfold indexLen
  simp only [hsp]
  by_cases hk0 : spanLen isDigit u = 0
  · simp [hk0]
  · have hne : (spanLen isDigit u == 0) = false := by simp [hk0]
    simp only [hne]
    rw [List.drop_append_of_le_length hk]
    rw [indexTail_stable _ u.length (u.drop (spanLen isDigit u)) c rest (by simp) (by simp) hd]
    intro h44 heq
    rcases hc h44 with h | h
    · subst h; simp [spanLen] at hk0
    · apply h
      unfold indexLen
      simp only [hne]
      rw [indexTail_fuel u.length (u.drop (spanLen isDigit u)).length _ (by simp) (Nat.le_refl _), heq]
      simp; omega

/-- a non-zero index match starts with a digit -/
theorem indexLen_head {u : List Nat} (h : indexLen u ≠ 0) : ∃ d u', u = d :: u' ∧ isDigit d = true := by
  cases u with
  | nil => simp [indexLen, spanLen] at h
  | cons d u' =>
    refine ⟨d, u', rfl, ?_⟩
    by_cases hd : isDigit d = true
    · exact hd
    · exfalso; apply h; simp [indexLen, spanLen, hd]


/-! ## `bestRule` -/

/-- the winner only depends on the match lengths of the rules -/
theorem bestRule_congr (syn : Syn) (s s' : List Nat) (rules : List LexRule) (best : Option (Nat × LexAct))
    (h : ∀ r ∈ rules, matchPat syn s r.pat = matchPat syn s' r.pat) :
    bestRule syn s rules best = bestRule syn s' rules best := by
  induction rules generalizing best with
  | nil => rfl
  | cons r rs ih =>
    have hr := h r (List.mem_cons_self ..)
    have hrs : ∀ r ∈ rs, matchPat syn s r.pat = matchPat syn s' r.pat := fun r hr => h r (List.mem_cons_of_mem _ hr)
    unfold bestRule
    rw [hr]
    split
    · exact ih _ hrs
    · split <;> exact ih _ hrs
    · exact ih _ hrs

/-- the winner is the FIRST rule whose match has the winning length, and no rule matches more -/
theorem bestRule_first_aux (syn : Syn) (s : List Nat) (rules : List LexRule) (best : Option (Nat × LexAct))
    (N : Nat) (a : LexAct) (h : bestRule syn s rules best = some (N, a)) :
    (best = some (N, a) ∨
      ((∀ m a0, best = some (m, a0) → m < N) ∧
        ∃ r, rules.find? (fun r => matchPat syn s r.pat == some N) = some r ∧ r.act = a)) ∧
    (∀ r ∈ rules, ∀ m, matchPat syn s r.pat = some m → m ≤ N) := by
  induction rules generalizing best with
  | nil => simp [bestRule] at h; simp [h]
  | cons r rs ih =>
    unfold bestRule at h
    split at h
    · next n hm =>
      -- some n, none
      have ⟨h1, h2⟩ := ih _ h
      rcases h1 with h1 | ⟨h1, r', hr', ha'⟩
      · simp only [Option.some.injEq, Prod.mk.injEq] at h1
        refine ⟨Or.inr ⟨by simp, r, ?_, h1.2⟩, ?_⟩
        · simp [List.find?, hm, h1.1]
        · intro r0 hr0 m hm0
          rcases List.mem_cons.mp hr0 with rfl | hr0
          · rw [hm] at hm0; simp at hm0; omega
          · exact h2 r0 hr0 m hm0
      · have hn := h1 n r.act rfl
        refine ⟨Or.inr ⟨by simp, r', ?_, ha'⟩, ?_⟩
        · have : (matchPat syn s r.pat == some N) = false := by rw [hm]; simp; omega
          simp [List.find?, this, hr']
        · intro r0 hr0 m hm0
          rcases List.mem_cons.mp hr0 with rfl | hr0
          · rw [hm] at hm0; simp at hm0; omega
          · exact h2 r0 hr0 m hm0
    · next n m0 a0 hm =>
      -- some n, some (m0, a0)
      split at h
      · next hlt =>
        have ⟨h1, h2⟩ := ih _ h
        rcases h1 with h1 | ⟨h1, r', hr', ha'⟩
        · simp only [Option.some.injEq, Prod.mk.injEq] at h1
          refine ⟨Or.inr ⟨?_, r, ?_, h1.2⟩, ?_⟩
          · intro m a1 hb; simp at hb; omega
          · simp [List.find?, hm, h1.1]
          · intro r0 hr0 m hm0
            rcases List.mem_cons.mp hr0 with rfl | hr0
            · rw [hm] at hm0; simp at hm0; omega
            · exact h2 r0 hr0 m hm0
        · have hn := h1 n r.act rfl
          refine ⟨Or.inr ⟨?_, r', ?_, ha'⟩, ?_⟩
          · intro m a1 hb; simp at hb; omega
          · have : (matchPat syn s r.pat == some N) = false := by rw [hm]; simp; omega
            simp [List.find?, this, hr']
          · intro r0 hr0 m hm0
            rcases List.mem_cons.mp hr0 with rfl | hr0
            · rw [hm] at hm0; simp at hm0; omega
            · exact h2 r0 hr0 m hm0
      · next hge =>
        have ⟨h1, h2⟩ := ih _ h
        rcases h1 with h1 | ⟨h1, r', hr', ha'⟩
        · simp only [Option.some.injEq, Prod.mk.injEq] at h1
          refine ⟨Or.inl (by simp [h1]), ?_⟩
          intro r0 hr0 m hm0
          rcases List.mem_cons.mp hr0 with rfl | hr0
          · rw [hm] at hm0; simp at hm0; omega
          · exact h2 r0 hr0 m hm0
        · have hn := h1 m0 a0 rfl
          refine ⟨Or.inr ⟨?_, r', ?_, ha'⟩, ?_⟩
          · intro m a1 hb; simp at hb; omega
          · have : (matchPat syn s r.pat == some N) = false := by rw [hm]; simp; omega
            simp [List.find?, this, hr']
          · intro r0 hr0 m hm0
            rcases List.mem_cons.mp hr0 with rfl | hr0
            · rw [hm] at hm0; simp at hm0; omega
            · exact h2 r0 hr0 m hm0
    · next hm =>
      -- none
      have ⟨h1, h2⟩ := ih _ h
      refine ⟨?_, ?_⟩
      · rcases h1 with h1 | ⟨h1, r', hr', ha'⟩
        · exact Or.inl h1
        · refine Or.inr ⟨h1, r', ?_, ha'⟩
          have : (matchPat syn s r.pat == some N) = false := by rw [hm]; simp
          simp [List.find?, this, hr']
      · intro r0 hr0 m hm0
        rcases List.mem_cons.mp hr0 with rfl | hr0
        · rw [hm] at hm0; simp at hm0
        · exact h2 r0 hr0 m hm0

theorem bestRule_first (syn : Syn) (s : List Nat) (rules : List LexRule) (N : Nat) (a : LexAct)
    (h : bestRule syn s rules none = some (N, a)) :
    ∃ r, rules.find? (fun r => matchPat syn s r.pat == some N) = some r ∧ r.act = a := by
  rcases (bestRule_first_aux syn s rules none N a h).1 with h1 | ⟨_, h2⟩
  · simp at h1
  · exact h2


/-! ## extension test -/

/-- can `{number}(,{number})*`, which has read `u`, read more when `c` follows? (conservative for a digit `c`:
a digit extends every word anyway) -/
def idxExt (u : List Nat) (c : Nat) : Bool :=
  isDigit c || (c == 44 && !u.isEmpty && indexLen u == u.length)

/-- could the pattern match differently on `w ++ c :: rest` than on `w` (`w` non-empty)? -/
def extPat (syn : Syn) (w : List Nat) (c : Nat) : LexPat → Bool
  | .lit l => isPrefix (w ++ [c]) l
  | .withIndex pre => isPrefix (w ++ [c]) pre || (isPrefix pre w && idxExt (w.drop pre.length) c)
  | .withNumber pre => isPrefix (w ++ [c]) pre || (isPrefix pre w && ((w.drop pre.length).all isDigit && isDigit c))
  | .number => w.all isDigit && isDigit c
  | .globalId => match w with | [] => true | a :: w' => isGlobalStart a && (w'.all (isAlnum syn) && isAlnum syn c)
  | .localId => match w with | [] => true | a :: w' => isLocalStart syn a && (w'.all (isAlnum syn) && isAlnum syn c)
  | .newline => false
  | .blanks => w.all (fun c => c == 32 || c == 9) && (c == 32 || c == 9)
  | .ws => w.all (fun c => c == 32 || c == 9 || c == 13 || c == 10) && (c == 32 || c == 9 || c == 13 || c == 10)
  | .any => false
  | .eof => false

/-- could some rule match MORE than `w.length` units (or differently at all) on an input that starts with
`w ++ [c]`? Conservative: `false` guarantees that every rule matches `w ++ c :: rest` exactly as it matches `w`. -/
def ext (syn : Syn) (w : List Nat) (c : Nat) : Bool :=
  w.isEmpty || (rulesOf syn).any fun r => extPat syn w c r.pat

theorem extPat_sound (syn : Syn) (w : List Nat) (c : Nat) (rest : List Nat) (p : LexPat) (hw : w ≠ [])
    (h : extPat syn w c p = false) : matchPat syn (w ++ c :: rest) p = matchPat syn w p := by
  cases p with
  | lit l =>
    simp only [extPat] at h
    simp only [matchPat, isPrefix_stable w c rest l h]
  | withIndex pre =>
    simp only [extPat, Bool.or_eq_false_iff] at h
    simp only [matchPat, isPrefix_stable w c rest pre h.1]
    by_cases hp : isPrefix pre w = true
    · have h2 := h.2
      simp only [hp, Bool.true_and, idxExt, Bool.or_eq_false_iff] at h2
      simp only [hp, if_true, drop_append_of_isPrefix _ hp]
      rw [indexLen_stable _ c rest h2.1]
      intro h44
      have := h2.2
      simp only [h44, beq_self_eq_true, Bool.true_and, Bool.and_eq_false_iff, Bool.not_eq_false',
        List.isEmpty_iff, beq_eq_false_iff_ne] at this
      exact this
    · simp [hp]
  | withNumber pre =>
    simp only [extPat, Bool.or_eq_false_iff] at h
    simp only [matchPat, isPrefix_stable w c rest pre h.1]
    by_cases hp : isPrefix pre w = true
    · have h2 := h.2
      simp only [hp, Bool.true_and] at h2
      simp only [hp, if_true, drop_append_of_isPrefix _ hp]
      rw [spanLen_stable _ _ c rest h2]
    · simp [hp]
  | number =>
    simp only [extPat] at h
    simp only [matchPat, spanLen_stable _ _ c rest h]
  | globalId =>
    cases w with
    | nil => exact absurd rfl hw
    | cons a w' =>
      simp only [extPat] at h
      simp only [matchPat, List.cons_append]
      by_cases ha : isGlobalStart a = true
      · simp only [ha, Bool.true_and] at h
        simp only [ha, if_true, spanLen_stable _ _ c rest h]
      · simp [ha]
  | localId =>
    cases w with
    | nil => exact absurd rfl hw
    | cons a w' =>
      simp only [extPat] at h
      simp only [matchPat, List.cons_append]
      by_cases ha : isLocalStart syn a = true
      · simp only [ha, Bool.true_and] at h
        simp only [ha, if_true, spanLen_stable _ _ c rest h]
      · simp [ha]
  | newline =>
    cases w with
    | nil => exact absurd rfl hw
    | cons a w' =>
      simp only [matchPat, List.cons_append]
      split <;> simp_all
  | blanks =>
    simp only [extPat] at h
    simp only [matchPat, spanLen_stable _ _ c rest h]
  | ws =>
    simp only [extPat] at h
    simp only [matchPat, spanLen_stable _ _ c rest h]
  | any =>
    cases w with
    | nil => exact absurd rfl hw
    | cons a w' => simp only [matchPat, List.cons_append]
  | eof => rfl

theorem ext_ne_nil {syn : Syn} {w : List Nat} {c : Nat} (h : ext syn w c = false) : w ≠ [] := by
  intro hw; subst hw; simp [ext] at h

/-- **no extension**: when `ext syn w c = false`, every rule of the table matches `w ++ c :: rest` as it matches `w` -/
theorem ext_sound (syn : Syn) (w : List Nat) (c : Nat) (rest : List Nat) (h : ext syn w c = false) :
    ∀ r ∈ rulesOf syn, matchPat syn (w ++ c :: rest) r.pat = matchPat syn w r.pat := by
  intro r hr
  have hw := ext_ne_nil h
  simp only [ext, Bool.or_eq_false_iff, List.any_eq_false] at h
  apply extPat_sound syn w c rest r.pat hw
  have := h.2 r hr
  simpa using this

theorem bestRule_ext (syn : Syn) (w : List Nat) (c : Nat) (rest : List Nat) (h : ext syn w c = false) :
    bestRule syn (w ++ c :: rest) (rulesOf syn) none = bestRule syn w (rulesOf syn) none :=
  bestRule_congr syn _ _ _ _ (ext_sound syn w c rest h)


/-! ## blank runs -/

/-- the class of the skip rule: `[ \t]` (MATH), `[ \t\r\n]` (ASCII) -/
def bl : Syn → Nat → Bool
  | .math => fun c => c == 32 || c == 9
  | .ascii => fun c => c == 32 || c == 9 || c == 13 || c == 10

/-- the skip rule of the syntax -/
def blankPat : Syn → LexPat
  | .math => .blanks
  | .ascii => .ws

/-- the pattern cannot match a text that starts with a blank of the syntax (by its shape alone) -/
def noBlankStart (syn : Syn) : LexPat → Bool
  | .lit l => match l with | [] => true | a :: _ => !bl syn a
  | .withIndex pre => match pre with | [] => false | a :: _ => !bl syn a
  | .withNumber pre => match pre with | [] => false | a :: _ => !bl syn a
  | .number => true
  | .globalId => true
  | .localId => true
  | .newline => !bl syn 10
  | .blanks => false
  | .ws => false
  | .any => false
  | .eof => true

theorem bl_cases {syn : Syn} {c : Nat} (h : bl syn c = true) : c = 32 ∨ c = 9 ∨ c = 13 ∨ c = 10 := by
  cases syn <;> simp [bl] at h <;> omega

theorem bl_not_alnum {syn : Syn} {c : Nat} (h : bl syn c = true) : isAlnum syn c = false := by
  rcases bl_cases h with rfl | rfl | rfl | rfl <;> cases syn <;> decide

theorem bl_32 (syn : Syn) : bl syn 32 = true := by cases syn <;> rfl

theorem isDigit_alnum {syn : Syn} {c : Nat} (h : isDigit c = true) : isAlnum syn c = true := by
  simp [isAlnum, h]

theorem isGlobalStart_alnum {syn : Syn} {c : Nat} (h : isGlobalStart c = true) : isAlnum syn c = true := by
  simp only [isGlobalStart, Bool.and_eq_true] at h
  simp [isAlnum, isAlpha, h.1]

theorem isLocalStart_alnum {syn : Syn} {c : Nat} (h : isLocalStart syn c = true) : isAlnum syn c = true := by
  simp only [isLocalStart, Bool.or_eq_true] at h
  rcases h with h | h
  · simp [isAlnum, h]
  · simp [isAlnum, isAlpha, h]

theorem noBlankStart_none (syn : Syn) (c : Nat) (s : List Nat) (p : LexPat) (hp : noBlankStart syn p = true)
    (hc : bl syn c = true) : matchPat syn (c :: s) p = none := by
  have hal := bl_not_alnum hc
  have hdig : isDigit c = false := by
    cases hd : isDigit c with
    | false => rfl
    | true => rw [isDigit_alnum hd] at hal; exact absurd hal (by simp)
  cases p with
  | lit l =>
    cases l with
    | nil => simp [matchPat]
    | cons a l =>
      simp only [noBlankStart, Bool.not_eq_true'] at hp
      have : (a == c) = false := by
        rw [beq_eq_false_iff_ne]; intro h; subst h; rw [hc] at hp; exact absurd hp (by simp)
      simp [matchPat, isPrefix, this]
  | withIndex pre =>
    cases pre with
    | nil => simp [noBlankStart] at hp
    | cons a l =>
      simp only [noBlankStart, Bool.not_eq_true'] at hp
      have : (a == c) = false := by
        rw [beq_eq_false_iff_ne]; intro h; subst h; rw [hc] at hp; exact absurd hp (by simp)
      simp [matchPat, isPrefix, this]
  | withNumber pre =>
    cases pre with
    | nil => simp [noBlankStart] at hp
    | cons a l =>
      simp only [noBlankStart, Bool.not_eq_true'] at hp
      have : (a == c) = false := by
        rw [beq_eq_false_iff_ne]; intro h; subst h; rw [hc] at hp; exact absurd hp (by simp)
      simp [matchPat, isPrefix, this]
  | number => simp [matchPat, spanLen, hdig]
  | globalId =>
    have : isGlobalStart c = false := by
      cases hg : isGlobalStart c with
      | false => rfl
      | true => rw [isGlobalStart_alnum hg] at hal; exact absurd hal (by simp)
    simp [matchPat, this]
  | localId =>
    have : isLocalStart syn c = false := by
      cases hg : isLocalStart syn c with
      | false => rfl
      | true => rw [isLocalStart_alnum hg] at hal; exact absurd hal (by simp)
    simp [matchPat, this]
  | newline =>
    simp only [noBlankStart, Bool.not_eq_true'] at hp
    have : c ≠ 10 := by intro h; subst h; rw [hc] at hp; exact absurd hp (by simp)
    simp only [matchPat]
    split
    · next heq => simp at heq; exact absurd heq.1 this
    · rfl
  | blanks => simp [noBlankStart] at hp
  | ws => simp [noBlankStart] at hp
  | any => simp [noBlankStart] at hp
  | eof => rfl

/-- shape of a rule table with respect to blanks: the first rule that can match a blank at all is the skip rule of the
syntax, and after it only `.` can -/
def blankShape (syn : Syn) : List LexRule → Bool
  | [] => false
  | r :: rs =>
    if noBlankStart syn r.pat then blankShape syn rs
    else r.pat == blankPat syn && r.act == .skip && rs.all fun r' => noBlankStart syn r'.pat || r'.pat == .any

/-- table fact -/
theorem blankShape_rules : ∀ syn, blankShape syn (rulesOf syn) = true := by
  intro syn; cases syn <;> decide

theorem matchPat_blankPat (syn : Syn) (c : Nat) (s : List Nat) (hc : bl syn c = true) :
    matchPat syn (c :: s) (blankPat syn) = some (spanLen (bl syn) (c :: s)) := by
  have h1 : spanLen (bl syn) (c :: s) = spanLen (bl syn) s + 1 := spanLen_pos_of_head _ _ _ hc
  cases syn
  · show (let k := spanLen (bl .math) (c :: s); if k == 0 then none else some k) = _
    simp [h1]
  · show (let k := spanLen (bl .ascii) (c :: s); if k == 0 then none else some k) = _
    simp [h1]

theorem bestRule_blank_tail (syn : Syn) (c : Nat) (s : List Nat) (rs : List LexRule) (k : Nat) (a : LexAct)
    (hc : bl syn c = true) (hk : 1 ≤ k)
    (hrs : rs.all (fun r' => noBlankStart syn r'.pat || r'.pat == .any) = true) :
    bestRule syn (c :: s) rs (some (k, a)) = some (k, a) := by
  induction rs with
  | nil => rfl
  | cons r rs ih =>
    simp only [List.all_cons, Bool.and_eq_true, Bool.or_eq_true] at hrs
    have ih' := ih (by simpa using hrs.2)
    unfold bestRule
    rcases hrs.1 with h | h
    · rw [noBlankStart_none syn c s r.pat h hc]; exact ih'
    · have : r.pat = .any := by simpa using h
      rw [this]
      by_cases h10 : c = 10
      · subst h10; simp only [matchPat]; exact ih'
      · have : matchPat syn (c :: s) .any = some 1 := by simp [matchPat, h10]
        rw [this]
        have : ¬ k < 1 := by omega
        simp only [this, if_false]; exact ih'

theorem bestRule_blank_aux (syn : Syn) (c : Nat) (s : List Nat) (rules : List LexRule)
    (hs : blankShape syn rules = true) (hc : bl syn c = true) :
    bestRule syn (c :: s) rules none = some (spanLen (bl syn) (c :: s), .skip) := by
  induction rules with
  | nil => simp [blankShape] at hs
  | cons r rs ih =>
    unfold blankShape at hs
    unfold bestRule
    by_cases hn : noBlankStart syn r.pat = true
    · simp only [hn, if_true] at hs
      rw [noBlankStart_none syn c s r.pat hn hc]; exact ih hs
    · have hn' : noBlankStart syn r.pat = false := by simpa using hn
      simp only [hn', Bool.false_eq_true, if_false, Bool.and_eq_true] at hs
      have hp : r.pat = blankPat syn := by simpa using hs.1.1
      have ha : r.act = .skip := by simpa using hs.1.2
      rw [hp, matchPat_blankPat syn c s hc, ha]
      apply bestRule_blank_tail syn c s rs _ _ hc _ hs.2
      rw [spanLen_pos_of_head _ _ _ hc]; omega

/-- on a text that starts with a blank of the syntax the skip rule wins, with the whole run -/
theorem bestRule_blank (syn : Syn) (c : Nat) (s : List Nat) (hc : bl syn c = true) :
    bestRule syn (c :: s) (rulesOf syn) none = some (spanLen (bl syn) (c :: s), .skip) :=
  bestRule_blank_aux syn c s _ (blankShape_rules syn) hc


/-! ## the scanning loop as a relation -/

/-- one constructor per step of `lexGo` (positions and fuel dropped): `Lx syn s ts` = scanning `s` yields the
(kind, payload) list `ts`, END included -/
inductive Lx (syn : Syn) : List Nat → List (Tok × TokData) → Prop
  | eof : Lx syn [] [(.END, .none)]
  | tok {s : List Nat} {n : Nat} {t : Tok} {r : List (Tok × TokData)} :
      s ≠ [] → bestRule syn s (rulesOf syn) none = some (n, .tok t) → n ≠ 0 → Lx syn (s.drop n) r →
      Lx syn s ((t, parseData t (s.take n)) :: r)
  | skip {s : List Nat} {n : Nat} {r : List (Tok × TokData)} :
      s ≠ [] → bestRule syn s (rulesOf syn) none = some (n, .skip) → n ≠ 0 → Lx syn (s.drop n) r → Lx syn s r
  | newline {s : List Nat} {n : Nat} {r : List (Tok × TokData)} :
      s ≠ [] → bestRule syn s (rulesOf syn) none = some (n, .newline) → n ≠ 0 → Lx syn (s.drop n) r → Lx syn s r

/-- table fact: the `<<EOF>>` rule returns END -/
theorem eofTok_rules : ∀ syn, eofTok (rulesOf syn) = some .END := by
  intro syn; cases syn <;> decide

/-- kind and payload of a raw token -/
def kd (r : RawTok) : Tok × TokData := (r.id, parseData r.id r.text)

/-- soundness of `Lx` into `lexGo`: any fuel above the length, any position state -/
theorem Lx_lexGo (syn : Syn) {s : List Nat} {ts : List (Tok × TokData)} (h : Lx syn s ts) :
    ∀ fuel lineBase col, s.length + 1 ≤ fuel →
      (lexGo syn (rulesOf syn) fuel s lineBase col).map (·.map kd) = some ts := by
  induction h with
  | eof =>
    intro fuel lb col hf
    cases fuel with
    | zero => omega
    | succ f => simp [lexGo, eofTok_rules, kd, parseData]
  | @tok s n t r hs hb hn _ ih =>
    intro fuel lb col hf
    cases fuel with
    | zero => omega
    | succ f =>
      cases s with
      | nil => exact absurd rfl hs
      | cons c s' =>
        cases n with
        | zero => exact absurd rfl hn
        | succ n' =>
          have hlen : ((c :: s').drop (n' + 1)).length + 1 ≤ f := by
            simp only [List.length_drop, List.length_cons] at hf ⊢; omega
          have := ih f lb (col + (n' + 1)) hlen
          unfold lexGo
          simp only [hb]
          cases hg : lexGo syn (rulesOf syn) f ((c :: s').drop (n' + 1)) lb (col + (n' + 1)) with
          | none => rw [hg] at this; simp at this
          | some rest =>
            rw [hg] at this
            simp only [Option.map_some, Option.some.injEq] at this
            simp [kd, this]
  | @skip s n r hs hb hn _ ih =>
    intro fuel lb col hf
    cases fuel with
    | zero => omega
    | succ f =>
      cases s with
      | nil => exact absurd rfl hs
      | cons c s' =>
        cases n with
        | zero => exact absurd rfl hn
        | succ n' =>
          have hlen : ((c :: s').drop (n' + 1)).length + 1 ≤ f := by
            simp only [List.length_drop, List.length_cons] at hf ⊢; omega
          have := ih f lb (col + (n' + 1)) hlen
          unfold lexGo
          simp only [hb]
          exact this
  | @newline s n r hs hb hn _ ih =>
    intro fuel lb col hf
    cases fuel with
    | zero => omega
    | succ f =>
      cases s with
      | nil => exact absurd rfl hs
      | cons c s' =>
        cases n with
        | zero => exact absurd rfl hn
        | succ n' =>
          have hlen : ((c :: s').drop (n' + 1)).length + 1 ≤ f := by
            simp only [List.length_drop, List.length_cons] at hf ⊢; omega
          have := ih f (lb + (col + 1)) 0 hlen
          unfold lexGo
          simp only [hb]
          exact this

/-- soundness of `Lx` into `lex` -/
theorem Lx_lex (syn : Syn) {s : List Nat} {ts : List (Tok × TokData)} (h : Lx syn s ts) :
    (lex syn s).map (·.map fun t => (t.id, t.data)) = some ts := by
  have := Lx_lexGo syn h (s.length + 1) 0 0 (Nat.le_refl _)
  simp only [lex, lexRaw, Option.map_map]
  rw [← this]
  congr 1
  funext ts
  simp only [Function.comp, List.map_map]
  rfl

/-- leading blanks of the syntax are skipped as one run -/
theorem Lx_dropBlanks (syn : Syn) {s : List Nat} {ts : List (Tok × TokData)} (h : Lx syn s ts) :
    Lx syn (s.drop (spanLen (bl syn) s)) ts := by
  cases s with
  | nil => simpa [spanLen] using h
  | cons c s' =>
    by_cases hc : bl syn c = true
    · have hb := bestRule_blank syn c s' hc
      cases h with
      | tok _ hb' _ _ => rw [hb] at hb'; simp at hb'
      | skip _ hb' _ hr =>
        rw [hb] at hb'
        simp only [Option.some.injEq, Prod.mk.injEq, and_true] at hb'
        rw [hb']; exact hr
      | newline _ hb' _ _ => rw [hb] at hb'; simp at hb'
    · have : bl syn c = false := by simpa using hc
      rw [spanLen_zero_of_head _ _ _ this]; exact h

/-- one more blank in front changes nothing -/
theorem Lx_blank (syn : Syn) {s : List Nat} {ts : List (Tok × TokData)} (h : Lx syn s ts) :
    Lx syn (32 :: s) ts := by
  have hb := bestRule_blank syn 32 s (bl_32 syn)
  rw [spanLen_pos_of_head _ _ _ (bl_32 syn)] at hb
  refine Lx.skip (by simp) hb (by omega) ?_
  simpa using Lx_dropBlanks syn h

theorem Lx_blanks (syn : Syn) (n : Nat) {s : List Nat} {ts : List (Tok × TokData)} (h : Lx syn s ts) :
    Lx syn (List.replicate n 32 ++ s) ts := by
  induction n with
  | zero => simpa using h
  | succ n ih => rw [List.replicate_succ, List.cons_append]; exact Lx_blank syn ih


/-! ## items -/

/-- a piece of printed text -/
inductive Item where
  /-- `n` spaces (code 32); `n` may be 0 -/
  | blank (n : Nat)
  /-- a token spelled `w` (no surrounding blanks), expected to lex as kind `id` with payload `data` -/
  | tok (w : List Nat) (id : Tok) (data : TokData)

def Item.text : Item → List Nat
  | .blank n => List.replicate n 32
  | .tok w _ _ => w

/-- the text of a list of items -/
def render (is : List Item) : List Nat := is.flatMap Item.text

/-- the (kind, payload) of the `tok` items, in order -/
def kds : List Item → List (Tok × TokData)
  | [] => []
  | .blank _ :: r => kds r
  | .tok _ id d :: r => (id, d) :: kds r

/-- first unit of the text of `is`, or `nx` when that text is empty -/
def firstU (is : List Item) (nx : Option Nat) : Option Nat :=
  match render is with
  | c :: _ => some c
  | [] => nx

/-- the token `w` is lexed as `id` with payload `data` when followed by `next` (`none` = end of text) -/
def tokOK (syn : Syn) (w : List Nat) (id : Tok) (data : TokData) (next : Option Nat) : Prop :=
  w ≠ [] ∧ bestRule syn w (rulesOf syn) none = some (w.length, .tok id) ∧ id ≠ .END ∧ parseData id w = data ∧
  ∀ c, next = some c → ext syn w c = false

/-- every `tok` item is `tokOK` with respect to the unit that follows it in the rendered text (`nx` after the last) -/
def ChainN (syn : Syn) : List Item → Option Nat → Prop
  | [], _ => True
  | .blank _ :: r, nx => ChainN syn r nx
  | .tok w id d :: r, nx => tokOK syn w id d (firstU r nx) ∧ ChainN syn r nx

theorem render_nil : render [] = [] := rfl
theorem render_cons (i : Item) (is : List Item) : render (i :: is) = i.text ++ render is := by
  simp [render]
theorem render_append (a b : List Item) : render (a ++ b) = render a ++ render b := by
  simp [render]
theorem kds_append (a b : List Item) : kds (a ++ b) = kds a ++ kds b := by
  induction a with
  | nil => rfl
  | cons i a ih => cases i <;> simp [kds, ih]

theorem firstU_nil (nx : Option Nat) : firstU [] nx = nx := rfl

theorem firstU_append (a b : List Item) (nx : Option Nat) : firstU (a ++ b) nx = firstU a (firstU b nx) := by
  unfold firstU
  rw [render_append]
  cases render a with
  | nil => rfl
  | cons c r => rfl

theorem firstU_tok (w : List Nat) (id : Tok) (d : TokData) (r : List Item) (nx : Option Nat) (hw : w ≠ []) :
    firstU (.tok w id d :: r) nx = w.head? := by
  unfold firstU
  rw [render_cons]
  cases w with
  | nil => exact absurd rfl hw
  | cons c w => rfl

theorem firstU_blank_succ (n : Nat) (r : List Item) (nx : Option Nat) : firstU (.blank (n + 1) :: r) nx = some 32 := by
  unfold firstU; rw [render_cons]; rfl

theorem firstU_blank_zero (r : List Item) (nx : Option Nat) : firstU (.blank 0 :: r) nx = firstU r nx := by
  unfold firstU; rw [render_cons]; rfl

theorem chainN_append (syn : Syn) (a b : List Item) (nx : Option Nat) :
    ChainN syn (a ++ b) nx ↔ ChainN syn a (firstU b nx) ∧ ChainN syn b nx := by
  induction a with
  | nil => simp [ChainN]
  | cons i a ih =>
    cases i with
    | blank n => simpa [ChainN] using ih
    | tok w id d =>
      simp only [List.cons_append, ChainN, firstU_append, ih, and_assoc]

/-- the spelling of an accepted token starts with no blank of the syntax (in particular not 32, 9; for ASCII not
13, 10) -/
theorem tokOK_head {syn : Syn} {w : List Nat} {id : Tok} {d : TokData} {nx : Option Nat} (h : tokOK syn w id d nx) :
    ∃ a w', w = a :: w' ∧ bl syn a = false := by
  obtain ⟨hw, hb, _⟩ := h
  cases w with
  | nil => exact absurd rfl hw
  | cons a w' =>
    refine ⟨a, w', rfl, ?_⟩
    cases ha : bl syn a with
    | false => rfl
    | true => rw [bestRule_blank syn a w' ha] at hb; simp at hb

/-- the scanning relation on the text of a chain of items -/
theorem Lx_items (syn : Syn) (is : List Item) (h : ChainN syn is none) :
    Lx syn (render is) (kds is ++ [(Tok.END, TokData.none)]) := by
  induction is with
  | nil => exact Lx.eof
  | cons i r ih =>
    cases i with
    | blank n =>
      rw [render_cons]
      exact Lx_blanks syn n (ih h)
    | tok w id d =>
      obtain ⟨⟨hw, hb, _, hd, hext⟩, hr⟩ := h
      have ih' := ih hr
      have hn : w.length ≠ 0 := by cases w with | nil => exact absurd rfl hw | cons _ _ => simp
      rw [render_cons]
      show Lx syn (w ++ render r) ((id, d) :: (kds r ++ [(Tok.END, TokData.none)]))
      have hbest : bestRule syn (w ++ render r) (rulesOf syn) none = some (w.length, .tok id) := by
        cases hrr : render r with
        | nil => simpa using hb
        | cons c rest =>
          have : firstU r none = some c := by unfold firstU; rw [hrr]
          rw [bestRule_ext syn w c rest (hext c this)]; exact hb
      have := Lx.tok (syn := syn) (s := w ++ render r) (n := w.length) (t := id) (by simp [hw]) hbest hn
        (by simpa using ih')
      simpa [hd] using this

/-- **MAIN**: the lexer gives exactly the `tok` items (kinds and payloads; positions dropped) followed by END -/
theorem lex_items (syn : Syn) (is : List Item) (h : ChainN syn is none) :
    (lex syn (render is)).map (·.map fun t => (t.id, t.data)) = some (kds is ++ [(Tok.END, TokData.none)]) :=
  Lx_lex syn (Lx_items syn is h)


/-! ## class lemmas for `ext … = false` -/

/-- shape of the literal and prefixed rules: no literal contains a digit; a literal is all-alphanumeric or starts with a
non-alphanumeric unit; the prefixes of `pr{index}` / `F{number}` rules are non-empty, alphanumeric, digit-free -/
def litOK (syn : Syn) (r : LexRule) : Bool :=
  match r.pat with
  | .lit l => l.all (fun x => !isDigit x) &&
      (l.all (isAlnum syn) || match l with | a :: _ => !isAlnum syn a | [] => true)
  | .withIndex pre => !pre.isEmpty && pre.all (fun x => isAlnum syn x && !isDigit x)
  | .withNumber pre => !pre.isEmpty && pre.all (fun x => isAlnum syn x && !isDigit x)
  | _ => true

/-- table fact -/
theorem litOK_rules : ∀ syn, (rulesOf syn).all (litOK syn) = true := by
  intro syn; cases syn <;> decide

theorem ext_false_of (syn : Syn) (w : List Nat) (c : Nat) (hw : w ≠ [])
    (h : ∀ r ∈ rulesOf syn, extPat syn w c r.pat = false) : ext syn w c = false := by
  simp only [ext, Bool.or_eq_false_iff, List.any_eq_false]
  refine ⟨by cases w with | nil => exact absurd rfl hw | cons _ _ => rfl, ?_⟩
  intro r hr; simp [h r hr]

theorem not_digit_of_not_alnum {syn : Syn} {c : Nat} (h : isAlnum syn c = false) : isDigit c = false := by
  cases hd : isDigit c with
  | false => rfl
  | true => rw [isDigit_alnum hd] at h; exact absurd h (by simp)

theorem alnum_not_ws {syn : Syn} {a : Nat} (h : isAlnum syn a = true) :
    (a == 32 || a == 9 || a == 13 || a == 10) = false := by
  cases hb : (a == 32 || a == 9 || a == 13 || a == 10) with
  | false => rfl
  | true =>
    have : bl .ascii a = true := hb
    rcases bl_cases this with rfl | rfl | rfl | rfl <;> revert h <;> cases syn <;> decide

theorem alnum_not_blank {syn : Syn} {a : Nat} (h : isAlnum syn a = true) : (a == 32 || a == 9) = false := by
  have := alnum_not_ws h
  simp only [Bool.or_eq_false_iff] at this ⊢
  exact ⟨this.1.1.1, this.1.1.2⟩

theorem mem_snoc_self (w : List Nat) (c : Nat) : c ∈ w ++ [c] := by simp

/-- shared part of `ext_word` and `ext_word_comma`: an alphanumeric word followed by a non-alphanumeric unit can only
be extended by the index part of a `pr{index}` rule -/
theorem ext_word_gen (syn : Syn) (w : List Nat) (c : Nat) (hw : w ≠ []) (ha : w.all (isAlnum syn) = true)
    (hc : isAlnum syn c = false)
    (hidx : ∀ pre act, (⟨.withIndex pre, act⟩ : LexRule) ∈ rulesOf syn → isPrefix pre w = true →
      idxExt (w.drop pre.length) c = false) : ext syn w c = false := by
  apply ext_false_of syn w c hw
  have hdc := not_digit_of_not_alnum hc
  intro r hr
  have hok := List.all_eq_true.mp (litOK_rules syn) r hr
  cases w with
  | nil => exact absurd rfl hw
  | cons a w' =>
  simp only [List.all_cons, Bool.and_eq_true] at ha
  rcases r with ⟨pat, act⟩
  cases pat with
  | lit l =>
    simp only [extPat]
    cases hp : isPrefix (a :: w' ++ [c]) l with
    | false => rfl
    | true =>
      exfalso
      simp only [litOK, Bool.and_eq_true, Bool.or_eq_true] at hok
      have hcl : c ∈ l := isPrefix_mem hp c (mem_snoc_self _ c)
      cases l with
      | nil => simp [isPrefix] at hp
      | cons x l' =>
        have hax : a = x := isPrefix_head hp
        rcases hok.2 with h | h
        · have := List.all_eq_true.mp h c hcl
          rw [hc] at this; exact absurd this (by simp)
        · simp only [← hax, ha.1] at h; exact absurd h (by simp)
  | withIndex pre =>
    simp only [litOK, Bool.and_eq_true] at hok
    simp only [extPat, Bool.or_eq_false_iff]
    constructor
    · cases hp : isPrefix (a :: w' ++ [c]) pre with
      | false => rfl
      | true =>
        exfalso
        have hcl : c ∈ pre := isPrefix_mem hp c (mem_snoc_self _ c)
        have := List.all_eq_true.mp hok.2 c hcl
        simp only [Bool.and_eq_true] at this
        rw [hc] at this; exact absurd this.1 (by simp)
    · cases hp : isPrefix pre (a :: w') with
      | false => rfl
      | true => simp only [Bool.true_and]; exact hidx pre act hr hp
  | withNumber pre =>
    simp only [litOK, Bool.and_eq_true] at hok
    simp only [extPat, Bool.or_eq_false_iff]
    constructor
    · cases hp : isPrefix (a :: w' ++ [c]) pre with
      | false => rfl
      | true =>
        exfalso
        have hcl : c ∈ pre := isPrefix_mem hp c (mem_snoc_self _ c)
        have := List.all_eq_true.mp hok.2 c hcl
        simp only [Bool.and_eq_true] at this
        rw [hc] at this; exact absurd this.1 (by simp)
    · simp [hdc]
  | number => simp [extPat, hdc]
  | globalId => simp [extPat, hc]
  | localId => simp [extPat, hc]
  | newline => rfl
  | blanks => simp only [extPat, List.all_cons, alnum_not_blank ha.1, Bool.false_and]
  | ws => simp only [extPat, List.all_cons, alnum_not_ws ha.1, Bool.false_and]
  | any => rfl
  | eof => rfl

/-- a word (identifier, number, keyword, `Z`, `Pr1`): nothing extends it across a unit that is neither alphanumeric
nor a comma -/
theorem ext_word (syn : Syn) (w : List Nat) (c : Nat) (hw : w ≠ []) (ha : w.all (isAlnum syn) = true)
    (hc : isAlnum syn c = false) (h44 : c ≠ 44) : ext syn w c = false := by
  apply ext_word_gen syn w c hw ha hc
  intro pre act _ _
  simp [idxExt, not_digit_of_not_alnum hc, h44]

/-! ### a word before a comma -/

def isIdx : LexPat → Bool
  | .withIndex _ => true
  | _ => false

/-- rules that may precede (or be) a `pr{index}` rule: digit-free literals and `pr{index}` rules whose token is one of
SMALLPR, BIGPR, FILTER -/
def okEarly (r : LexRule) : Bool :=
  match r.pat with
  | .lit l => l.all (fun x => !isDigit x)
  | .withIndex _ => r.act == .tok .SMALLPR || r.act == .tok .BIGPR || r.act == .tok .FILTER
  | _ => false

/-- every rule up to the last `pr{index}` rule is `okEarly` -/
def idxGuard : List LexRule → Bool
  | [] => true
  | r :: rs => (okEarly r || (r :: rs).all (fun r' => !isIdx r'.pat)) && idxGuard rs

/-- table fact -/
theorem idxGuard_rules : ∀ syn, idxGuard (rulesOf syn) = true := by
  intro syn; cases syn <;> decide

theorem idxGuard_find (rules : List LexRule) (p : LexRule → Bool) (r r0 : LexRule) (hg : idxGuard rules = true)
    (hf : rules.find? p = some r) (h0 : r0 ∈ rules) (hi : isIdx r0.pat = true) (hp0 : p r0 = true) :
    okEarly r = true := by
  induction rules with
  | nil => simp at hf
  | cons r1 rs ih =>
    simp only [idxGuard, Bool.and_eq_true, Bool.or_eq_true] at hg
    have hok1 : okEarly r1 = true := by
      rcases hg.1 with h | h
      · exact h
      · have := List.all_eq_true.mp h r0 h0
        rw [hi] at this; exact absurd this (by simp)
    by_cases hp1 : p r1 = true
    · simp only [List.find?, hp1, Option.some.injEq] at hf
      rw [← hf]; exact hok1
    · have hp1' : p r1 = false := by simpa using hp1
      simp only [List.find?, hp1'] at hf
      rcases List.mem_cons.mp h0 with h | h
      · subst h; rw [hp0] at hp1'; exact absurd hp1' (by simp)
      · exact ih hg.2 hf h

/-- a complete literal match of the whole text is the text -/
theorem lit_full {syn : Syn} {w l : List Nat} (h : matchPat syn w (.lit l) = some w.length) : w = l := by
  simp only [matchPat] at h
  split at h
  · next hc =>
    simp only [Bool.and_eq_true] at hc
    simp only [Option.some.injEq] at h
    have := isPrefix_eq hc.2
    rw [h, List.drop_length, List.append_nil] at this
    exact this
  · simp at h

/-- the same when the next unit IS a comma, for a word whose own token is not an indexed `pr/Pr/Fi` token (e.g. the
identifier `pr` or `x1` in `{x1, y}`) -/
theorem ext_word_comma (syn : Syn) (w : List Nat) (id : Tok) (hw : w ≠ []) (ha : w.all (isAlnum syn) = true)
    (hb : bestRule syn w (rulesOf syn) none = some (w.length, .tok id))
    (hid : id ≠ .SMALLPR ∧ id ≠ .BIGPR ∧ id ≠ .FILTER) : ext syn w 44 = false := by
  apply ext_word_gen syn w 44 hw ha (by cases syn <;> decide)
  intro pre act hmem hp
  cases hx : idxExt (w.drop pre.length) 44 with
  | false => rfl
  | true =>
    exfalso
    have hd44 : isDigit 44 = false := by decide
    simp only [idxExt, hd44, Bool.false_or, beq_self_eq_true, Bool.true_and, Bool.and_eq_true,
      Bool.not_eq_true', beq_iff_eq] at hx
    obtain ⟨hne, hlen⟩ := hx
    have hwu := isPrefix_eq hp
    have hul : (w.drop pre.length).length ≠ 0 := by
      intro h; rw [List.length_eq_zero_iff] at h; rw [h] at hne; simp at hne
    -- the `pr{index}` rule matches all of `w`
    have hm : matchPat syn w (.withIndex pre) = some w.length := by
      have hl : w.length = pre.length + (w.drop pre.length).length := by
        have := congrArg List.length hwu; simpa using this
      have hk : ((w.drop pre.length).length == 0) = false := by simpa using hul
      simp only [matchPat, hp, if_true, hlen, hk, Bool.false_eq_true, if_false]
      rw [← hl]
    obtain ⟨d, u', hu, hd⟩ := indexLen_head (u := w.drop pre.length) (by rw [hlen]; exact hul)
    have hdw : d ∈ w := by rw [hwu, hu]; simp
    -- the winner is the first rule matching all of `w`
    obtain ⟨r, hf, hact⟩ := bestRule_first syn w (rulesOf syn) w.length (.tok id) hb
    have hok := idxGuard_find (rulesOf syn) _ r ⟨.withIndex pre, act⟩ (idxGuard_rules syn) hf hmem rfl
      (by simp [hm])
    have hmr := List.find?_some hf
    simp only [beq_iff_eq] at hmr
    rcases r with ⟨pat, act'⟩
    cases pat with
    | lit l =>
      simp only [okEarly] at hok
      have hwl := lit_full hmr
      have := List.all_eq_true.mp hok d (hwl ▸ hdw)
      rw [hd] at this; exact absurd this (by simp)
    | withIndex pre' =>
      simp only [okEarly, Bool.or_eq_true, beq_iff_eq] at hok
      simp only at hact
      rw [hact] at hok
      simp only [LexAct.tok.injEq] at hok
      rcases hok with (h | h) | h
      · exact hid.1 h
      · exact hid.2.1 h
      · exact hid.2.2 h
    | _ => simp [okEarly] at hok

/-- a spelling that contains a digit (so no literal of the table begins with it), followed by a unit that is neither
alphanumeric nor a comma -/
theorem ext_hasDigit (syn : Syn) (w : List Nat) (c : Nat) (hd : w.any isDigit = true)
    (hc : isAlnum syn c = false) (h44 : c ≠ 44) : ext syn w c = false := by
  obtain ⟨d, hdw, hd⟩ := List.any_eq_true.mp hd
  have hdc := not_digit_of_not_alnum hc
  have hdwc : d ∈ w ++ [c] := List.mem_append_left _ hdw
  have hw : w ≠ [] := by intro h; subst h; simp at hdw
  apply ext_false_of syn _ c hw
  intro r hr
  have hok := List.all_eq_true.mp (litOK_rules syn) r hr
  rcases r with ⟨pat, act'⟩
  cases pat with
  | lit l =>
    simp only [extPat]
    cases hp : isPrefix (w ++ [c]) l with
    | false => rfl
    | true =>
      exfalso
      simp only [litOK, Bool.and_eq_true] at hok
      have := List.all_eq_true.mp hok.1 d (isPrefix_mem hp d hdwc)
      rw [hd] at this; exact absurd this (by simp)
  | withIndex pre2 =>
    simp only [litOK, Bool.and_eq_true] at hok
    simp only [extPat, Bool.or_eq_false_iff]
    constructor
    · cases hp : isPrefix (w ++ [c]) pre2 with
      | false => rfl
      | true =>
        exfalso
        have := List.all_eq_true.mp hok.2 d (isPrefix_mem hp d hdwc)
        simp only [Bool.and_eq_true] at this
        rw [hd] at this; exact absurd this.2 (by simp)
    · simp [idxExt, hdc, h44]
  | withNumber pre2 =>
    simp only [litOK, Bool.and_eq_true] at hok
    simp only [extPat, Bool.or_eq_false_iff]
    constructor
    · cases hp : isPrefix (w ++ [c]) pre2 with
      | false => rfl
      | true =>
        exfalso
        have := List.all_eq_true.mp hok.2 d (isPrefix_mem hp d hdwc)
        simp only [Bool.and_eq_true] at this
        rw [hd] at this; exact absurd this.2 (by simp)
    · simp [hdc]
  | number => simp [extPat, hdc]
  | globalId =>
    cases w with
    | nil => exact absurd rfl hw
    | cons a w' => simp [extPat, hc]
  | localId =>
    cases w with
    | nil => exact absurd rfl hw
    | cons a w' => simp [extPat, hc]
  | newline => rfl
  | blanks =>
    simp only [extPat, Bool.and_eq_false_iff]
    left
    cases hall : (w).all (fun c => c == 32 || c == 9) with
    | false => rfl
    | true =>
      have := List.all_eq_true.mp hall d hdw
      rw [alnum_not_blank (syn := syn) (isDigit_alnum hd)] at this; exact absurd this (by simp)
  | ws =>
    simp only [extPat, Bool.and_eq_false_iff]
    left
    cases hall : (w).all (fun c => c == 32 || c == 9 || c == 13 || c == 10) with
    | false => rfl
    | true =>
      have := List.all_eq_true.mp hall d hdw
      rw [alnum_not_ws (syn := syn) (isDigit_alnum hd)] at this; exact absurd this (by simp)
  | any => rfl
  | eof => rfl

/-- an indexed token `pr1,2` (`pre` = `pr` / `Pr` / `Fi`, `u` = digits(,digits)*; only the leading digit of `u` is
used) followed by a unit that is neither alphanumeric nor a comma -/
theorem ext_index (syn : Syn) (pre u : List Nat) (c : Nat) (hu : ∃ d u', u = d :: u' ∧ isDigit d = true)
    (hc : isAlnum syn c = false) (h44 : c ≠ 44) : ext syn (pre ++ u) c = false := by
  obtain ⟨d, u', rfl, hd⟩ := hu
  exact ext_hasDigit syn _ c (by simp [hd]) hc h44

/-! ### symbols -/

/-- units `k` such that some literal rule has the prefix `w ++ [k]` -/
def extChars (syn : Syn) (w : List Nat) : List Nat :=
  (rulesOf syn).filterMap fun r =>
    match r.pat with
    | .lit l => if isPrefix w l then l[w.length]? else none
    | _ => none

/-- `w` starts with a unit that is neither alphanumeric nor blank / tab / CR / LF -/
def symStart (syn : Syn) (w : List Nat) : Bool :=
  match w with
  | a :: _ => !isAlnum syn a && !(a == 32 || a == 9 || a == 13 || a == 10)
  | [] => false

theorem isPrefix_snoc {w l : List Nat} {c : Nat} (h : isPrefix (w ++ [c]) l = true) :
    isPrefix w l = true ∧ l[w.length]? = some c := by
  induction w generalizing l with
  | nil =>
    cases l with
    | nil => simp [isPrefix] at h
    | cons x l => simp only [List.nil_append, isPrefix, Bool.and_true, beq_iff_eq] at h; simp [isPrefix, h]
  | cons a w ih =>
    cases l with
    | nil => simp [isPrefix] at h
    | cons x l =>
      simp only [List.cons_append, isPrefix, Bool.and_eq_true] at h
      have := ih h.2
      simp [isPrefix, h.1, this.1, this.2]

/-- a symbol (first unit neither alphanumeric nor blank/newline): only longer LITERALS of the table can extend it -/
theorem ext_symbol (syn : Syn) (w : List Nat) (c : Nat) (h0 : symStart syn w = true)
    (hc : c ∉ extChars syn w) : ext syn w c = false := by
  cases w with
  | nil => simp [symStart] at h0
  | cons a w' =>
  simp only [symStart, Bool.and_eq_true, Bool.not_eq_true'] at h0
  obtain ⟨haa, hab⟩ := h0
  have hab2 : (a == 32 || a == 9) = false := by
    simp only [Bool.or_eq_false_iff] at hab ⊢; exact ⟨hab.1.1.1, hab.1.1.2⟩
  apply ext_false_of syn _ c (by simp)
  intro r hr
  have hok := List.all_eq_true.mp (litOK_rules syn) r hr
  rcases r with ⟨pat, act⟩
  -- a prefix that is alphanumeric cannot start like `w`
  have hpre : ∀ pre : List Nat, (!pre.isEmpty) = true → pre.all (fun x => isAlnum syn x && !isDigit x) = true →
      isPrefix (a :: w' ++ [c]) pre = false ∧ isPrefix pre (a :: w') = false := by
    intro pre hne hall
    cases pre with
    | nil => simp at hne
    | cons x pre' =>
      have hx : isAlnum syn x = true := by
        have := List.all_eq_true.mp hall x (by simp)
        simp only [Bool.and_eq_true] at this; exact this.1
      have hne : (a == x) = false := by
        rw [beq_eq_false_iff_ne]; intro h; subst h; rw [hx] at haa; exact absurd haa (by simp)
      have hne' : (x == a) = false := by
        rw [beq_eq_false_iff_ne]; intro h; subst h; rw [hx] at haa; exact absurd haa (by simp)
      simp [isPrefix, hne, hne']
  cases pat with
  | lit l =>
    simp only [extPat]
    cases hp : isPrefix (a :: w' ++ [c]) l with
    | false => rfl
    | true =>
      exfalso
      apply hc
      have := isPrefix_snoc hp
      simp only [extChars, List.mem_filterMap]
      have h2 := this.2
      simp only [List.length_cons] at h2
      exact ⟨⟨.lit l, act⟩, hr, by simp [this.1, h2]⟩
  | withIndex pre =>
    simp only [litOK, Bool.and_eq_true] at hok
    have := hpre pre hok.1 hok.2
    simp only [List.cons_append] at this
    simp [extPat, this.1, this.2]
  | withNumber pre =>
    simp only [litOK, Bool.and_eq_true] at hok
    have := hpre pre hok.1 hok.2
    simp only [List.cons_append] at this
    simp [extPat, this.1, this.2]
  | number =>
    have : isDigit a = false := not_digit_of_not_alnum haa
    simp [extPat, this]
  | globalId =>
    have : isGlobalStart a = false := by
      cases hg : isGlobalStart a with
      | false => rfl
      | true => rw [isGlobalStart_alnum hg] at haa; exact absurd haa (by simp)
    simp [extPat, this]
  | localId =>
    have : isLocalStart syn a = false := by
      cases hg : isLocalStart syn a with
      | false => rfl
      | true => rw [isLocalStart_alnum hg] at haa; exact absurd haa (by simp)
    simp [extPat, this]
  | newline => rfl
  | blanks => simp only [extPat, List.all_cons, hab2, Bool.false_and]
  | ws => simp only [extPat, List.all_cons, hab, Bool.false_and]
  | any => rfl
  | eof => rfl


/-- a symbol that is no proper prefix of a literal is never extended -/
theorem ext_symbol_nil (syn : Syn) (w : List Nat) (c : Nat) (h0 : symStart syn w = true)
    (hx : extChars syn w = []) : ext syn w c = false :=
  ext_symbol syn w c h0 (by rw [hx]; simp)

/-- table fact: no literal contains a space -/
theorem lit_no_space : ∀ syn, (rulesOf syn).all (fun r => match r.pat with | .lit l => !l.contains 32 | _ => true) = true := by
  intro syn; cases syn <;> decide

/-- a symbol followed by a space is never extended -/
theorem ext_symbol_space (syn : Syn) (w : List Nat) (h0 : symStart syn w = true) : ext syn w 32 = false := by
  apply ext_symbol syn w 32 h0
  intro hmem
  simp only [extChars, List.mem_filterMap] at hmem
  obtain ⟨r, hr, hl⟩ := hmem
  have hns := List.all_eq_true.mp (lit_no_space syn) r hr
  rcases r with ⟨pat, act⟩
  cases pat with
  | lit l =>
    simp only at hl hns
    split at hl
    · have : 32 ∈ l := List.mem_of_getElem? hl
      simp [this] at hns
    · simp at hl
  | _ => simp at hl

/-! `ChainN` / `kds` / `render` unfold one item at a time -/

theorem chainN_nil (syn : Syn) (nx : Option Nat) : ChainN syn [] nx ↔ True := Iff.rfl
theorem chainN_blank (syn : Syn) (n : Nat) (r : List Item) (nx : Option Nat) :
    ChainN syn (.blank n :: r) nx ↔ ChainN syn r nx := Iff.rfl
theorem chainN_tok (syn : Syn) (w : List Nat) (id : Tok) (d : TokData) (r : List Item) (nx : Option Nat) :
    ChainN syn (.tok w id d :: r) nx ↔ tokOK syn w id d (firstU r nx) ∧ ChainN syn r nx := Iff.rfl
theorem kds_blank (n : Nat) (r : List Item) : kds (.blank n :: r) = kds r := rfl
theorem kds_tok (w : List Nat) (id : Tok) (d : TokData) (r : List Item) : kds (.tok w id d :: r) = (id, d) :: kds r := rfl

/-! ## decidable forms (for closed instances) -/

/-- `tokOK` as a Boolean test -/
def tokOKb (syn : Syn) (w : List Nat) (id : Tok) (data : TokData) (next : Option Nat) : Bool :=
  !w.isEmpty && decide (bestRule syn w (rulesOf syn) none = some (w.length, .tok id)) && decide (id ≠ .END) &&
  decide (parseData id w = data) && (match next with | some c => !ext syn w c | none => true)

theorem tokOK_of_b {syn : Syn} {w : List Nat} {id : Tok} {data : TokData} {next : Option Nat}
    (h : tokOKb syn w id data next = true) : tokOK syn w id data next := by
  simp only [tokOKb, Bool.and_eq_true, decide_eq_true_eq, Bool.not_eq_true', List.isEmpty_eq_false_iff] at h
  obtain ⟨⟨⟨⟨h1, h2⟩, h3⟩, h4⟩, h5⟩ := h
  refine ⟨h1, h2, h3, h4, ?_⟩
  intro c hc; subst hc; simpa using h5

/-- `ChainN` as a Boolean test -/
def chainNb (syn : Syn) : List Item → Option Nat → Bool
  | [], _ => true
  | .blank _ :: r, nx => chainNb syn r nx
  | .tok w id d :: r, nx => tokOKb syn w id d (firstU r nx) && chainNb syn r nx

theorem chainN_of_b {syn : Syn} {is : List Item} {nx : Option Nat} (h : chainNb syn is nx = true) :
    ChainN syn is nx := by
  induction is with
  | nil => trivial
  | cons i r ih =>
    cases i with
    | blank n => exact ih h
    | tok w id d =>
      simp only [chainNb, Bool.and_eq_true] at h
      exact ⟨tokOK_of_b h.1, ih h.2⟩

/-! ## instances -/

/-- MATH text `X1∪(a, b)` -/
def exMath : List Item :=
  [.tok [88, 49] .ID_GLOBAL (.text "X1"), .tok [8746] .UNION .none, .tok [40] .PUNC_PL .none,
   .tok [97] .ID_LOCAL (.text "a"), .tok [44] .PUNC_COMMA .none, .blank 1, .tok [98] .ID_LOCAL (.text "b"),
   .tok [41] .PUNC_PR .none]

/-- ASCII text `a \in  \neg b \eq pr1,2(c)` (double blank after `\in`, a zero-length blank item) -/
def exAscii : List Item :=
  [.tok [97] .ID_LOCAL (.text "a"), .blank 1, .tok [92, 105, 110] .IN .none, .blank 1, .blank 1,
   .tok [92, 110, 101, 103] .NOT .none, .blank 1, .tok [98] .ID_LOCAL (.text "b"), .blank 1,
   .tok [92, 101, 113] .EQUAL .none, .blank 1, .blank 0, .tok [112, 114, 49, 44, 50] .SMALLPR (.tuple [1, 2]),
   .tok [40] .PUNC_PL .none, .tok [99] .ID_LOCAL (.text "c"), .tok [41] .PUNC_PR .none]

theorem exMath_chain : ChainN .math exMath none := chainN_of_b (by decide +kernel)
theorem exAscii_chain : ChainN .ascii exAscii none := chainN_of_b (by decide +kernel)

example : render exMath = [88, 49, 8746, 40, 97, 44, 32, 98, 41] := by decide

example : (lex .math (render exMath)).map (·.map fun t => (t.id, t.data)) =
    some [(.ID_GLOBAL, .text "X1"), (.UNION, .none), (.PUNC_PL, .none), (.ID_LOCAL, .text "a"), (.PUNC_COMMA, .none),
      (.ID_LOCAL, .text "b"), (.PUNC_PR, .none), (.END, .none)] :=
  lex_items .math exMath exMath_chain

example : (lex .ascii (render exAscii)).map (·.map fun t => (t.id, t.data)) =
    some [(.ID_LOCAL, .text "a"), (.IN, .none), (.NOT, .none), (.ID_LOCAL, .text "b"), (.EQUAL, .none),
      (.SMALLPR, .tuple [1, 2]), (.PUNC_PL, .none), (.ID_LOCAL, .text "c"), (.PUNC_PR, .none), (.END, .none)] :=
  lex_items .ascii exAscii exAscii_chain

/-- `chainN_append` / `firstU_append` on a split of the MATH instance -/
example : ChainN .math (exMath.take 3) (firstU (exMath.drop 3) none) ∧ ChainN .math (exMath.drop 3) none :=
  (chainN_append .math (exMath.take 3) (exMath.drop 3) none).mp exMath_chain

example : firstU (exMath.take 5 ++ exMath.drop 5) none = firstU (exMath.take 5) (some 32) :=
  firstU_append _ _ _

/-! the extension test is precise where it matters -/

/-- `\in` before `t`: `\intersect` -/
example : ext .ascii [92, 105, 110] 116 = true := by decide
/-- `{` before `}`: `{}` -/
example : ext .ascii [123] 125 = true := by decide
/-- `x` before `1`: the identifier goes on -/
example : ext .math [120] 49 = true := by decide
/-- `pr1` before `,`: `pr1,2` -/
example : ext .math [112, 114, 49] 44 = true := by decide
/-- … but not `pr1x` or `pr` before a comma -/
example : ext .math [112, 114, 49, 120] 44 = false ∧ ext .math [112, 114] 44 = false := by decide
example : 116 ∈ extChars .ascii [92, 105, 110] ∧ 8712 ∈ extChars .math [58] ∧ 61 ∈ extChars .math [58, 61] ∧
    extChars .math [40] = [] := by
  decide

/-! the class lemmas on concrete spellings (their hypotheses are satisfiable) -/

/-- `X1` before `∪` -/
example : ext .math [88, 49] 8746 = false :=
  ext_word .math [88, 49] 8746 (by decide) (by decide) (by decide) (by decide)
/-- `x1` before `,` -/
example : ext .math [120, 49] 44 = false :=
  ext_word_comma .math [120, 49] .ID_LOCAL (by decide) (by decide) (by decide +kernel) (by decide)
/-- the identifier `pr` before `,` (ASCII) -/
example : ext .ascii [112, 114] 44 = false :=
  ext_word_comma .ascii [112, 114] .ID_LOCAL (by decide) (by decide) (by decide +kernel) (by decide)
/-- `pr1,2` before `(` -/
example : ext .ascii ([112, 114] ++ [49, 44, 50]) 40 = false :=
  ext_index .ascii [112, 114] [49, 44, 50] 40 ⟨49, [44, 50], rfl, by decide⟩ (by decide) (by decide)
/-- `∪` before `(`, `:=` before `X`, `\in` before a blank -/
example : ext .math [8746] 40 = false ∧ ext .math [58, 61] 88 = false ∧ ext .ascii [92, 105, 110] 32 = false :=
  ⟨ext_symbol .math [8746] 40 (by decide) (by decide), ext_symbol .math [58, 61] 88 (by decide) (by decide),
   ext_symbol .ascii [92, 105, 110] 32 (by decide) (by decide)⟩

example : ext .ascii [40] 97 = false ∧ ext .ascii [92, 101, 113] 32 = false :=
  ⟨ext_symbol_nil .ascii [40] 97 (by decide) (by decide), ext_symbol_space .ascii [92, 101, 113] (by decide)⟩

/-- a `tokOK` assembled from a class lemma: `X1` followed by `∪` -/
example : tokOK .math [88, 49] .ID_GLOBAL (.text "X1") (some 8746) :=
  ⟨by decide, by decide +kernel, by decide, by decide +kernel,
   fun c hc => by
    cases hc
    exact ext_word .math [88, 49] 8746 (by decide) (by decide) (by decide) (by decide)⟩

/-- `tokOK_head`, `bestRule_blank`, `Lx_blanks` on instances -/
example : bestRule .ascii [32, 9, 10, 97] (rulesOf .ascii) none = some (3, .skip) :=
  bestRule_blank .ascii 32 [9, 10, 97] (by decide)
example : bestRule .math [32, 32, 10] (rulesOf .math) none = some (2, .skip) :=
  bestRule_blank .math 32 [32, 10] (by decide)

end CCVerif.LexP
