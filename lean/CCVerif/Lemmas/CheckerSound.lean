import CCVerif.Model.Checker
import CCVerif.Spec.Typing
/-!
Helper lemmas for C03 `check_sound_partial`: inversion of the checker monad on successful
runs, and soundness of the rules of the binder-free core fragment with respect to the
declarative relation `Spec.HasType`.
-/
namespace CCVerif.Checker
open CCVerif.Syntax CCVerif.Types CCVerif.Spec

/-! ## inversion lemmas (successful runs) -/

theorem bind_ok {α β} {m : M α} {f : α → M β} {s s' : St} {b : β}
    (h : M.bind m f s = (.ok b, s')) : ∃ a s1, m s = (.ok a, s1) ∧ f a s1 = (.ok b, s') := by
  unfold M.bind at h
  cases hm : m s with
  | mk r s1 =>
    rw [hm] at h
    cases r with
    | ok a => exact ⟨a, s1, rfl, h⟩
    | fail => simp at h
    | stuck x => simp at h

theorem errFail_ok {α} {eid : Nat} {pos : Int} {s s' : St} {a : α} : ¬ (errFail eid pos : M α) s = (.ok a, s') := by
  simp [errFail]
theorem stuck_ok {α} {x : String} {s s' : St} {a : α} : ¬ (stuckM x : M α) s = (.ok a, s') := by
  simp [stuckM]
theorem failSilent_ok {α} {s s' : St} {a : α} : ¬ (failSilent : M α) s = (.ok a, s') := by
  simp [failSilent]
theorem errFailTok_ok {α} {t : Ast} {eid : Nat} {pos : Int} {s s' : St} {a : α} :
    ¬ (errFailTok t eid pos : M α) s = (.ok a, s') := by
  unfold errFailTok
  cases t.data with
  | tuple l => cases l <;> simp [stuckM, errFail]
  | none => simp [errFail]
  | int n => simp [errFail]
  | text x => simp [errFail]

theorem setCur_ok {t : ExprTy} {s s' : St} (h : setCur t s = (.ok (), s')) : s'.cur = t := by
  simp [setCur] at h; rw [← h]

theorem pure_ok {α} {a b : α} {s s' : St} (h : M.pure a s = (.ok b, s')) : a = b ∧ s = s' := by
  simpa [M.pure] using h

theorem kidM_ok {a k : Ast} {i : Nat} {s s' : St} (h : kidM a i s = (.ok k, s')) : a.kid i = some k ∧ s' = s := by
  unfold kidM at h
  cases hk : a.kid i with
  | none => rw [hk] at h; simp [stuckM] at h
  | some k' => rw [hk] at h; simp [M.pure] at h; exact ⟨by rw [h.1], h.2.symm⟩

theorem expectTy_ok {site : String} {r : ExprTy} {t : Ty} {s s' : St}
    (h : expectTy site r s = (.ok t, s')) : r = .ty t := by
  unfold expectTy at h
  cases r with
  | logic => simp [stuckM] at h
  | ty t' => simp [M.pure] at h; rw [h.1]

theorem childType_ok {v : Visitor} {a : Ast} {i : Nat} {τ : ExprTy} {s s' : St}
    (h : childType v a i s = (.ok τ, s')) :
    ∃ k s1, a.kid i = some k ∧ v (some a.id) k s = (.ok (), s1) ∧ s1.cur = τ := by
  unfold childType at h
  obtain ⟨k, s0, h1, h2⟩ := bind_ok h
  obtain ⟨hk, hs⟩ := kidM_ok h1
  subst hs
  refine ⟨k, ?_⟩
  dsimp only at h2
  cases hv : v (some a.id) k s0 with
  | mk r s1 =>
    rw [hv] at h2
    cases r with
    | ok u => simp at h2; exact ⟨s1, hk, rfl, h2.1⟩
    | fail => simp at h2
    | stuck x => simp at h2

theorem childTypeDebool_ok {v : Visitor} {a : Ast} {i eid : Nat} {tok : Bool} {d : Ty} {s s' : St}
    (h : childTypeDebool v a i eid tok s = (.ok d, s')) :
    ∃ k s1 t, a.kid i = some k ∧ v (some a.id) k s = (.ok (), s1) ∧ s1.cur = .ty t ∧ Debool t d := by
  unfold childTypeDebool at h
  obtain ⟨r, s0, h1, h2⟩ := bind_ok h
  obtain ⟨k, s1, hk, hv, hc⟩ := childType_ok h1
  cases r with
  | logic => exact absurd h2 failSilent_ok
  | ty t =>
    refine ⟨k, s1, t, hk, hv, hc, ?_⟩
    dsimp only at h2
    split at h2
    · rename_i hany
      obtain ⟨e, _⟩ := pure_ok h2; subst e
      cases t with
      | base b => simp [Ty.isAny] at hany; subst hany; exact Debool.any
      | coll b => simp [Ty.isAny] at hany
      | tuple cs => simp [Ty.isAny] at hany
    · split at h2
      · obtain ⟨e, _⟩ := pure_ok h2; subst e; exact Debool.coll _
      · obtain ⟨k', s2, _, h4⟩ := bind_ok h2
        split at h4
        · exact absurd h4 errFailTok_ok
        · exact absurd h4 errFail_ok

/-! ## the core fragment -/

/-- nodes whose checker result is always LOGIC -/
def isLogicTok (t : Tok) : Bool :=
  t == .NOT || t == .AND || t == .OR || t == .IMPLICATION || t == .EQUIVALENT ||
  t == .EQUAL || t == .NOTEQUAL || t == .GREATER || t == .LESSER || t == .GREATER_OR_EQ || t == .LESSER_OR_EQ ||
  t == .IN || t == .NOTIN || t == .SUBSET || t == .SUBSET_OR_EQ || t == .NOTSUBSET

/-- binder-free core of the grammar with the parser's arities: globals, literals, arithmetic,
card, comparisons, (in)equality, membership / inclusion, connectives, ℬ, debool, set
operations, red, pr, Pr. (Not in the fragment: bound variables and every binder, radicals,
function calls and definitions, ×, tuples, enumerations, filters, global declarations.) -/
inductive Core : Ast → Prop where
  | global {tok : Tok} {x : String} {lo hi : Int} {ks : List Ast} :
      tok = .ID_GLOBAL ∨ tok = .ID_FUNCTION ∨ tok = .ID_PREDICATE → Core (.node tok (.text x) lo hi ks)
  | int {d : TokData} {lo hi : Int} {ks : List Ast} : Core (.node .LIT_INTEGER d lo hi ks)
  | intset {d : TokData} {lo hi : Int} {ks : List Ast} : Core (.node .LIT_INTSET d lo hi ks)
  | emptyset {d : TokData} {lo hi : Int} {ks : List Ast} : Core (.node .LIT_EMPTYSET d lo hi ks)
  | arith {tok : Tok} {d : TokData} {lo hi : Int} {a b : Ast} :
      tok = .PLUS ∨ tok = .MINUS ∨ tok = .MULTIPLY → Core a → Core b → Core (.node tok d lo hi [a, b])
  | card {d : TokData} {lo hi : Int} {a : Ast} : Core a → Core (.node .CARD d lo hi [a])
  | order {tok : Tok} {d : TokData} {lo hi : Int} {a b : Ast} :
      tok = .GREATER ∨ tok = .LESSER ∨ tok = .GREATER_OR_EQ ∨ tok = .LESSER_OR_EQ →
      Core a → Core b → Core (.node tok d lo hi [a, b])
  | equal {tok : Tok} {d : TokData} {lo hi : Int} {a b : Ast} :
      tok = .EQUAL ∨ tok = .NOTEQUAL → Core a → Core b → Core (.node tok d lo hi [a, b])
  | elem {tok : Tok} {d : TokData} {lo hi : Int} {a b : Ast} :
      tok = .IN ∨ tok = .NOTIN → Core a → Core b → Core (.node tok d lo hi [a, b])
  | subset {tok : Tok} {d : TokData} {lo hi : Int} {a b : Ast} :
      tok = .SUBSET ∨ tok = .SUBSET_OR_EQ ∨ tok = .NOTSUBSET → Core a → Core b → Core (.node tok d lo hi [a, b])
  | not {d : TokData} {lo hi : Int} {a : Ast} :
      isLogicTok a.id = true → Core a → Core (.node .NOT d lo hi [a])
  | logbin {tok : Tok} {d : TokData} {lo hi : Int} {a b : Ast} :
      tok = .AND ∨ tok = .OR ∨ tok = .IMPLICATION ∨ tok = .EQUIVALENT →
      isLogicTok a.id = true → isLogicTok b.id = true → Core a → Core b → Core (.node tok d lo hi [a, b])
  | boolean {d : TokData} {lo hi : Int} {a : Ast} : Core a → Core (.node .BOOLEAN d lo hi [a])
  | debool {d : TokData} {lo hi : Int} {a : Ast} : Core a → Core (.node .DEBOOL d lo hi [a])
  | setbin {tok : Tok} {d : TokData} {lo hi : Int} {a b : Ast} :
      tok = .UNION ∨ tok = .INTERSECTION ∨ tok = .SET_MINUS ∨ tok = .SYMMINUS →
      Core a → Core b → Core (.node tok d lo hi [a, b])
  | reduce {d : TokData} {lo hi : Int} {a : Ast} : Core a → Core (.node .REDUCE d lo hi [a])
  | bigpr {idx : List Int} {lo hi : Int} {a : Ast} : Core a → Core (.node .BIGPR (.tuple idx) lo hi [a])
  | smallpr {idx : List Int} {lo hi : Int} {a : Ast} : Core a → Core (.node .SMALLPR (.tuple idx) lo hi [a])

/-- a successful visit below a parent of the `invalidParents` table is not the literal `∅` -/
theorem not_empty_of_ok (Γ : Ctx) {n : Nat} {p : Tok} {k : Ast} {s s' : St}
    (hp : emptySetInvalidParents.contains p = true)
    (h : visit Γ n (some p) k s = (.ok (), s')) : notEmptyLit k := by
  intro hid
  cases n with
  | zero => exact absurd h stuck_ok
  | succ n =>
    simp only [visit, dispatch, hid] at h
    unfold viEmptySet at h
    simp only [emptySetMisused, hp, if_true] at h
    exact absurd h errFail_ok


/-! ## soundness of the core rules -/

theorem kid0 {t d lo hi} {a : Ast} {ks : List Ast} : (Ast.node t d lo hi (a :: ks)).kid 0 = some a := rfl
theorem kid1 {t d lo hi} {a b : Ast} {ks : List Ast} : (Ast.node t d lo hi (a :: b :: ks)).kid 1 = some b := rfl

theorem nl {t : Tok} (h : isLogicTok t = false) {d lo hi ks} {c : ExprTy} :
    isLogicTok (Ast.node t d lo hi ks).id = true → c = .logic := by
  intro hl; simp only [Ast.id] at hl; rw [h] at hl; cases hl

/-- a failing branch `kidM a i >>= fun k => errFail …` never returns ok -/
theorem kidErr_ok {α} {a : Ast} {i eid : Nat} {f : Ast → Int} {s s' : St} {x : α} :
    ¬ (M.bind (kidM a i) fun k => (errFail eid (f k) : M α)) s = (.ok x, s') := by
  intro h; obtain ⟨_, _, _, h⟩ := bind_ok h; exact absurd h errFail_ok

theorem anyOrEmptySet_cases {t : Ty} (h : anyOrEmptySet t = true) : t = Ty.R0 ∨ t = Ty.emptySet := by
  cases t with
  | base x => simp [anyOrEmptySet, Ty.isAny] at h; subst h; exact Or.inl rfl
  | tuple cs => simp [anyOrEmptySet, Ty.isAny] at h
  | coll b => cases b with
    | base x => simp [anyOrEmptySet, Ty.isAny] at h; subst h; exact Or.inr rfl
    | tuple cs => simp [anyOrEmptySet, Ty.isAny] at h
    | coll c => simp [anyOrEmptySet, Ty.isAny] at h


theorem pick_of_pickComponents (cs : List Ty) : ∀ (idx : List Int) (comps : List Ty),
    pickComponents cs idx = some comps → pick cs idx = some comps
  | [], comps, h => by simpa [pickComponents, pick] using h
  | i :: is, comps, h => by
    unfold pickComponents at h
    by_cases ht : Ty.testIndex cs i = true
    · simp only [ht, if_true] at h
      have hi : 1 ≤ i ∧ i ≤ cs.length := by
        simp [Ty.testIndex] at ht; omega
      have hc : Ty.component? cs i = cs[(i - 1).toNat]? := by
        unfold Ty.component?; simp [hi.1]
      rw [hc] at h
      unfold pick
      simp only [hi, and_self, if_true]
      generalize cs[(i - 1).toNat]? = oc at h ⊢
      cases oc with
      | none => simp at h
      | some c =>
        cases h2 : pickComponents cs is with
        | none => simp [h2] at h
        | some rest =>
          simp only [h2] at h
          rw [pick_of_pickComponents cs is rest h2]; exact h
    · simp [ht] at h

theorem mkTuple_ok {site : String} {cs : List Ty} {t : Ty} {s s' : St}
    (h : mkTuple site cs s = (.ok t, s')) : cs ≠ [] ∧ t = Ty.tupleOf cs := by
  unfold mkTuple at h
  cases cs with
  | nil => simp [stuckM] at h
  | cons c cs => simp [M.pure] at h; exact ⟨by simp, h.1.symm⟩

theorem kidErrTok_ok {α} {a t : Ast} {i eid : Nat} {f : Ast → Int} {s s' : St} {x : α} :
    ¬ (M.bind (kidM a i) fun k => (errFailTok t eid (f k) : M α)) s = (.ok x, s') := by
  intro h; obtain ⟨_, _, _, h⟩ := bind_ok h; exact absurd h errFailTok_ok

theorem isAny_eq {t : Ty} (h : t.isAny = true) : t = Ty.R0 := by
  cases t with
  | base x => simp [Ty.isAny] at h; subst h; rfl
  | tuple cs => simp [Ty.isAny] at h
  | coll b => simp [Ty.isAny] at h

theorem core_sound (Γ : Ctx) (Δ : Env) : ∀ (n : Nat) (e : Ast), Core e → ∀ (p : Option Tok) (s s' : St),
    visit Γ n p e s = (.ok (), s') →
    HasType Γ Δ e s'.cur ∧ (isLogicTok e.id = true → s'.cur = .logic)
  | 0, _, _, _, _, _, h => absurd h stuck_ok
  | n+1, e, hc, p, s, s', h => by
    have ih := core_sound Γ Δ n
    cases hc with
    | global htok =>
      rename_i tok x lo hi ks
      have hd : dispatch Γ (visit Γ n) p (.node tok (.text x) lo hi ks) = viGlobal Γ p (.node tok (.text x) lo hi ks) := by
        rcases htok with rfl | rfl | rfl <;> rfl
      simp only [visit, hd] at h
      unfold viGlobal at h
      obtain ⟨al, s1, h1, h⟩ := bind_ok h
      simp [textOf, M.pure, Ast.data] at h1
      obtain ⟨rfl, rfl⟩ := h1
      by_cases hf : (lookup Γ.funcs x).isSome = true
      · simp only [hf, if_true] at h; exact absurd h errFail_ok
      · simp only [hf, Bool.false_eq_true, if_false] at h
        cases ht : lookup Γ.types x with
        | none => simp only [ht] at h; exact absurd h errFail_ok
        | some τ =>
          simp only [ht] at h
          by_cases hop : (isLogicTy τ && isOperandPos p) = true
          · simp only [hop, if_true] at h; exact absurd h errFail_ok
          · simp only [hop, Bool.false_eq_true, if_false] at h
            have := setCur_ok h
            refine ⟨?_, ?_⟩
            · rw [this]; exact HasType.global htok (by simpa using hf) ht
            · rcases htok with rfl | rfl | rfl <;> exact nl (by decide)
    | int =>
      simp only [visit, dispatch] at h
      have := setCur_ok h
      exact ⟨this ▸ HasType.int, nl (by decide)⟩
    | intset =>
      simp only [visit, dispatch] at h
      have := setCur_ok h
      exact ⟨this ▸ HasType.intset, nl (by decide)⟩
    | emptyset =>
      simp only [visit, dispatch] at h
      unfold viEmptySet at h
      by_cases hp : emptySetMisused p = true
      · simp only [hp, if_true] at h; exact absurd h errFail_ok
      · simp only [hp, Bool.false_eq_true, if_false] at h
        have := setCur_ok h
        exact ⟨this ▸ HasType.emptyset, nl (by decide)⟩
    | arith htok ca cb =>
      rename_i tok d lo hi a b
      have hd : dispatch Γ (visit Γ n) p (.node tok d lo hi [a, b]) = viArithmetic Γ (visit Γ n) (.node tok d lo hi [a, b]) := by
        rcases htok with rfl | rfl | rfl <;> rfl
      simp only [visit, hd] at h
      unfold viArithmetic at h
      obtain ⟨r1, s1, h1, g1⟩ := bind_ok h
      obtain ⟨k1, s1', hk1, hv1, hc1⟩ := childType_ok h1
      obtain ⟨t1, s2, h2, g2⟩ := bind_ok g1
      have e1 := expectTy_ok h2; subst e1
      by_cases ha1 : (!isArithmetic Γ.traits t1) = true
      · simp only [ha1, if_true] at g2; exact absurd g2 kidErr_ok
      · simp only [ha1, Bool.false_eq_true, if_false] at g2
        obtain ⟨r2, s3, h3, g3⟩ := bind_ok g2
        obtain ⟨k2, s3', hk2, hv2, hc2⟩ := childType_ok h3
        obtain ⟨t2, s4, h4, g4⟩ := bind_ok g3
        have e2 := expectTy_ok h4; subst e2
        by_cases ha2 : (!isArithmetic Γ.traits t2) = true
        · simp only [ha2, if_true] at g4; exact absurd g4 kidErr_ok
        · simp only [ha2, Bool.false_eq_true, if_false] at g4
          cases hm : merge Γ.traits t1 t2 with
          | none => simp only [hm] at g4; exact absurd g4 kidErr_ok
          | some t =>
            simp only [hm] at g4
            have hcur := setCur_ok g4
            rw [kid0] at hk1; rw [kid1] at hk2
            cases hk1; cases hk2
            have i1 := (ih _ ca _ _ _ hv1).1; rw [hc1] at i1
            have i2 := (ih _ cb _ _ _ hv2).1; rw [hc2] at i2
            refine ⟨?_, ?_⟩
            · rw [hcur]; exact HasType.arith htok i1 i2 (by simpa using ha1) (by simpa using ha2) hm
            · rcases htok with rfl | rfl | rfl <;> exact nl (by decide)
    | card ca =>
      rename_i d lo hi a
      simp only [visit, dispatch] at h
      unfold viCard at h
      obtain ⟨dd, s1, h1, g1⟩ := bind_ok h
      obtain ⟨k, s1', t, hk, hv, hc, hdb⟩ := childTypeDebool_ok h1
      have hcur := setCur_ok g1
      rw [kid0] at hk; cases hk
      have i1 := (ih _ ca _ _ _ hv).1; rw [hc] at i1
      have hne := not_empty_of_ok Γ (p := .CARD) (by decide) hv
      exact ⟨hcur ▸ HasType.card hne i1 hdb, nl (by decide)⟩
    | order htok ca cb =>
      rename_i tok d lo hi a b
      have hd : dispatch Γ (visit Γ n) p (.node tok d lo hi [a, b]) = viIntegerPredicate Γ (visit Γ n) (.node tok d lo hi [a, b]) := by
        rcases htok with rfl | rfl | rfl | rfl <;> rfl
      simp only [visit, hd] at h
      unfold viIntegerPredicate at h
      obtain ⟨r1, s1, h1, g1⟩ := bind_ok h
      obtain ⟨k1, s1', hk1, hv1, hc1⟩ := childType_ok h1
      obtain ⟨t1, s2, h2, g2⟩ := bind_ok g1
      have e1 := expectTy_ok h2; subst e1
      by_cases ha1 : (!isOrdered Γ.traits t1) = true
      · simp only [ha1, if_true] at g2; exact absurd g2 kidErr_ok
      · simp only [ha1, Bool.false_eq_true, if_false] at g2
        obtain ⟨r2, s3, h3, g3⟩ := bind_ok g2
        obtain ⟨k2, s3', hk2, hv2, hc2⟩ := childType_ok h3
        obtain ⟨t2, s4, h4, g4⟩ := bind_ok g3
        have e2 := expectTy_ok h4; subst e2
        by_cases ha2 : (!isOrdered Γ.traits t2) = true
        · simp only [ha2, if_true] at g4; exact absurd g4 kidErr_ok
        · simp only [ha2, Bool.false_eq_true, if_false] at g4
          by_cases hcm : (!compat Γ.traits t1 t2) = true
          · simp only [hcm, if_true] at g4; exact absurd g4 kidErr_ok
          · simp only [hcm, Bool.false_eq_true, if_false] at g4
            have hcur := setCur_ok g4
            rw [kid0] at hk1; rw [kid1] at hk2
            cases hk1; cases hk2
            have i1 := (ih _ ca _ _ _ hv1).1; rw [hc1] at i1
            have i2 := (ih _ cb _ _ _ hv2).1; rw [hc2] at i2
            refine ⟨?_, fun _ => hcur⟩
            rw [hcur]; exact HasType.order htok i1 i2 (by simpa using ha1) (by simpa using ha2) (by simpa using hcm)
    | equal htok ca cb =>
      rename_i tok d lo hi a b
      have hd : dispatch Γ (visit Γ n) p (.node tok d lo hi [a, b]) = viEquals Γ (visit Γ n) (.node tok d lo hi [a, b]) := by
        rcases htok with rfl | rfl <;> rfl
      simp only [visit, hd] at h
      unfold viEquals at h
      obtain ⟨r1, s1, h1, g1⟩ := bind_ok h
      obtain ⟨k1, s1', hk1, hv1, hc1⟩ := childType_ok h1
      obtain ⟨t1, s2, h2, g2⟩ := bind_ok g1
      have e1 := expectTy_ok h2; subst e1
      obtain ⟨r2, s3, h3, g3⟩ := bind_ok g2
      obtain ⟨k2, s3', hk2, hv2, hc2⟩ := childType_ok h3
      obtain ⟨t2, s4, h4, g4⟩ := bind_ok g3
      have e2 := expectTy_ok h4; subst e2
      by_cases hcm : (!compat Γ.traits t1 t2) = true
      · simp only [hcm, if_true] at g4; exact absurd g4 kidErr_ok
      · simp only [hcm, Bool.false_eq_true, if_false] at g4
        have hcur := setCur_ok g4
        rw [kid0] at hk1; rw [kid1] at hk2
        cases hk1; cases hk2
        have i1 := (ih _ ca _ _ _ hv1).1; rw [hc1] at i1
        have i2 := (ih _ cb _ _ _ hv2).1; rw [hc2] at i2
        refine ⟨?_, fun _ => hcur⟩
        rw [hcur]; exact HasType.equal htok i1 i2 (by simpa using hcm)
    | elem htok ca cb =>
      rename_i tok d lo hi a b
      have hd : dispatch Γ (visit Γ n) p (.node tok d lo hi [a, b]) = viSetexprPredicate Γ (visit Γ n) (.node tok d lo hi [a, b]) := by
        rcases htok with rfl | rfl <;> rfl
      have hsub : isSubsetTok (Ast.node tok d lo hi [a, b]).id = false := by
        rcases htok with rfl | rfl <;> rfl
      simp only [visit, hd] at h
      unfold viSetexprPredicate at h
      obtain ⟨d2, s1, h1, g1⟩ := bind_ok h
      obtain ⟨k2, s1', t2, hk2, hv2, hc2, hdb⟩ := childTypeDebool_ok h1
      simp only [hsub, Bool.false_eq_true, if_false] at g1
      obtain ⟨r1, s2, h2, g2⟩ := bind_ok g1
      obtain ⟨k1, s2', hk1, hv1, hc1⟩ := childType_ok h2
      rw [kid0] at hk1; rw [kid1] at hk2
      cases hk1; cases hk2
      have i1 := (ih _ ca _ _ _ hv1).1; rw [hc1] at i1
      have i2 := (ih _ cb _ _ _ hv2).1; rw [hc2] at i2
      cases r1 with
      | logic => simp only [compatE] at g2; exact absurd g2 kidErr_ok
      | ty t1 =>
        simp only [compatE] at g2
        cases hcm : compat Γ.traits t1 d2 with
        | false => simp only [hcm] at g2; exact absurd g2 kidErr_ok
        | true =>
          simp only [hcm] at g2
          have hcur := setCur_ok g2
          refine ⟨?_, fun _ => hcur⟩
          rw [hcur]; exact HasType.elem htok i1 i2 hdb hcm
    | subset htok ca cb =>
      rename_i tok d lo hi a b
      have hd : dispatch Γ (visit Γ n) p (.node tok d lo hi [a, b]) = viSetexprPredicate Γ (visit Γ n) (.node tok d lo hi [a, b]) := by
        rcases htok with rfl | rfl | rfl <;> rfl
      have hsub : isSubsetTok (Ast.node tok d lo hi [a, b]).id = true := by
        rcases htok with rfl | rfl | rfl <;> rfl
      simp only [visit, hd] at h
      unfold viSetexprPredicate at h
      obtain ⟨d2, s1, h1, g1⟩ := bind_ok h
      obtain ⟨k2, s1', t2, hk2, hv2, hc2, hdb⟩ := childTypeDebool_ok h1
      simp only [hsub, if_true] at g1
      obtain ⟨r1, s2, h2, g2⟩ := bind_ok g1
      obtain ⟨k1, s2', hk1, hv1, hc1⟩ := childType_ok h2
      rw [kid0] at hk1; rw [kid1] at hk2
      cases hk1; cases hk2
      have i1 := (ih _ ca _ _ _ hv1).1; rw [hc1] at i1
      have i2 := (ih _ cb _ _ _ hv2).1; rw [hc2] at i2
      cases r1 with
      | logic => simp only [compatE] at g2; exact absurd g2 kidErr_ok
      | ty t1 =>
        simp only [compatE] at g2
        cases hcm : compat Γ.traits t1 (.coll d2) with
        | false => simp only [hcm] at g2; exact absurd g2 kidErr_ok
        | true =>
          simp only [hcm] at g2
          have hcur := setCur_ok g2
          refine ⟨?_, fun _ => hcur⟩
          rw [hcur]; exact HasType.subset htok i1 i2 hdb hcm
    | not hl ca =>
      rename_i d lo hi a
      simp only [visit, dispatch] at h
      unfold viAllLogic at h
      obtain ⟨u, s1, h1, g1⟩ := bind_ok h
      have hcur := setCur_ok g1
      simp only [Ast.kids, visitAll] at h1
      obtain ⟨u1, s2, hv, _⟩ := bind_ok h1
      have i1 := ih _ ca _ _ _ hv
      have hlog := i1.2 hl
      refine ⟨?_, fun _ => hcur⟩
      rw [hcur]; exact HasType.not (hlog ▸ i1.1)
    | logbin htok hla hlb ca cb =>
      rename_i tok d lo hi a b
      have hd : dispatch Γ (visit Γ n) p (.node tok d lo hi [a, b]) = viAllLogic (visit Γ n) (.node tok d lo hi [a, b]) := by
        rcases htok with rfl | rfl | rfl | rfl <;> rfl
      simp only [visit, hd] at h
      unfold viAllLogic at h
      obtain ⟨u, s1, h1, g1⟩ := bind_ok h
      have hcur := setCur_ok g1
      simp only [Ast.kids, visitAll] at h1
      obtain ⟨u1, s2, hv1, g2⟩ := bind_ok h1
      obtain ⟨u2, s3, hv2, _⟩ := bind_ok g2
      have i1 := ih _ ca _ _ _ hv1
      have i2 := ih _ cb _ _ _ hv2
      refine ⟨?_, fun _ => hcur⟩
      rw [hcur]; exact HasType.logbin htok (i1.2 hla ▸ i1.1) (i2.2 hlb ▸ i2.1)
    | boolean ca =>
      rename_i d lo hi a
      simp only [visit, dispatch] at h
      unfold viBoolean at h
      obtain ⟨dd, s1, h1, g1⟩ := bind_ok h
      obtain ⟨k, s1', t, hk, hv, hc, hdb⟩ := childTypeDebool_ok h1
      have hcur := setCur_ok g1
      rw [kid0] at hk; cases hk
      have i1 := (ih _ ca _ _ _ hv).1; rw [hc] at i1
      exact ⟨hcur ▸ HasType.boolean i1 hdb, nl (by decide)⟩
    | debool ca =>
      rename_i d lo hi a
      simp only [visit, dispatch] at h
      unfold viDebool at h
      obtain ⟨dd, s1, h1, g1⟩ := bind_ok h
      obtain ⟨k, s1', t, hk, hv, hc, hdb⟩ := childTypeDebool_ok h1
      have hcur := setCur_ok g1
      rw [kid0] at hk; cases hk
      have i1 := (ih _ ca _ _ _ hv).1; rw [hc] at i1
      have hne := not_empty_of_ok Γ (p := .DEBOOL) (by decide) hv
      exact ⟨hcur ▸ HasType.debool hne i1 hdb, nl (by decide)⟩
    | setbin htok ca cb =>
      rename_i tok d lo hi a b
      have hd : dispatch Γ (visit Γ n) p (.node tok d lo hi [a, b]) = viSetexprBinary Γ (visit Γ n) (.node tok d lo hi [a, b]) := by
        rcases htok with rfl | rfl | rfl | rfl <;> rfl
      have hpar : emptySetInvalidParents.contains (Ast.node tok d lo hi [a, b]).id = true := by
        rcases htok with rfl | rfl | rfl | rfl <;> rfl
      simp only [visit, hd] at h
      unfold viSetexprBinary at h
      obtain ⟨d1, s1, h1, g1⟩ := bind_ok h
      obtain ⟨k1, s1', t1, hk1, hv1, hc1, hdb1⟩ := childTypeDebool_ok h1
      obtain ⟨d2, s2, h2, g2⟩ := bind_ok g1
      obtain ⟨k2, s2', t2, hk2, hv2, hc2, hdb2⟩ := childTypeDebool_ok h2
      rw [kid0] at hk1; rw [kid1] at hk2
      cases hk1; cases hk2
      have i1 := (ih _ ca _ _ _ hv1).1; rw [hc1] at i1
      have i2 := (ih _ cb _ _ _ hv2).1; rw [hc2] at i2
      have hne1 := not_empty_of_ok Γ hpar hv1
      have hne2 := not_empty_of_ok Γ hpar hv2
      cases hm : merge Γ.traits d1 d2 with
      | none => simp only [hm] at g2; exact absurd g2 kidErr_ok
      | some m =>
        simp only [hm] at g2
        have hcur := setCur_ok g2
        refine ⟨?_, ?_⟩
        · rw [hcur]; exact HasType.setbin htok hne1 hne2 i1 hdb1 i2 hdb2 hm
        · rcases htok with rfl | rfl | rfl | rfl <;> exact nl (by decide)
    | reduce ca =>
      rename_i d lo hi a
      simp only [visit, dispatch] at h
      unfold viReduce at h
      obtain ⟨r1, s1, h1, g1⟩ := bind_ok h
      obtain ⟨k1, s1', hk1, hv1, hc1⟩ := childType_ok h1
      obtain ⟨t1, s2, h2, g2⟩ := bind_ok g1
      have e1 := expectTy_ok h2; subst e1
      rw [kid0] at hk1; cases hk1
      have i1 := (ih _ ca _ _ _ hv1).1; rw [hc1] at i1
      have hne := not_empty_of_ok Γ (p := .REDUCE) (by decide) hv1
      by_cases hany : anyOrEmptySet t1 = true
      · simp only [hany, if_true] at g2
        have hcur := setCur_ok g2
        refine ⟨?_, nl (by decide)⟩
        rw [hcur]; exact HasType.reduceAny hne i1 (anyOrEmptySet_cases hany)
      · simp only [hany, Bool.false_eq_true, if_false] at g2
        cases t1 with
        | base x => exact absurd g2 kidErr_ok
        | tuple cs => exact absurd g2 kidErr_ok
        | coll b => cases b with
          | base x => exact absurd g2 kidErr_ok
          | tuple cs => exact absurd g2 kidErr_ok
          | coll e =>
            have hcur := setCur_ok g2
            exact ⟨hcur ▸ HasType.reduce hne i1, nl (by decide)⟩
    | bigpr ca =>
      rename_i idx lo hi a
      simp only [visit, dispatch] at h
      unfold viProjectSet at h
      obtain ⟨arg, s1, h1, g1⟩ := bind_ok h
      obtain ⟨k, s1', t, hk, hv, hc, hdb⟩ := childTypeDebool_ok h1
      rw [kid0] at hk; cases hk
      have i1 := (ih _ ca _ _ _ hv).1; rw [hc] at i1
      have hne := not_empty_of_ok Γ (p := .BIGPR) (by decide) hv
      by_cases hany : arg.isAny = true
      · simp only [hany, if_true] at g1
        have hcur := setCur_ok g1
        have := isAny_eq hany; subst this
        exact ⟨hcur ▸ HasType.bigprAny hne i1 hdb, nl (by decide)⟩
      · simp only [hany, Bool.false_eq_true, if_false] at g1
        cases arg with
        | base x => exact absurd g1 kidErrTok_ok
        | coll b => exact absurd g1 kidErrTok_ok
        | tuple cs =>
          simp only [] at g1
          obtain ⟨idx', s2, h2, g2⟩ := bind_ok g1
          simp [tupleOfData, Ast.data, M.pure] at h2
          obtain ⟨rfl, rfl⟩ := h2
          cases hp : pickComponents cs idx with
          | none => simp only [hp] at g2; exact absurd g2 kidErrTok_ok
          | some comps =>
            simp only [hp] at g2
            obtain ⟨tt, s3, h3, g3⟩ := bind_ok g2
            obtain ⟨hne2, rfl⟩ := mkTuple_ok h3
            have hcur := setCur_ok g3
            exact ⟨hcur ▸ HasType.bigpr hne i1 hdb (pick_of_pickComponents cs idx comps hp) hne2, nl (by decide)⟩
    | smallpr ca =>
      rename_i idx lo hi a
      simp only [visit, dispatch] at h
      unfold viProjectTuple at h
      obtain ⟨r1, s1, h1, g1⟩ := bind_ok h
      obtain ⟨k1, s1', hk1, hv1, hc1⟩ := childType_ok h1
      obtain ⟨arg, s2, h2, g2⟩ := bind_ok g1
      have e1 := expectTy_ok h2; subst e1
      rw [kid0] at hk1; cases hk1
      have i1 := (ih _ ca _ _ _ hv1).1; rw [hc1] at i1
      have hne := not_empty_of_ok Γ (p := .SMALLPR) (by decide) hv1
      by_cases hany : arg.isAny = true
      · simp only [hany, if_true] at g2
        have hcur := setCur_ok g2
        have := isAny_eq hany; subst this
        exact ⟨hcur ▸ HasType.smallprAny hne i1, nl (by decide)⟩
      · simp only [hany, Bool.false_eq_true, if_false] at g2
        cases arg with
        | base x => exact absurd g2 kidErrTok_ok
        | coll b => exact absurd g2 kidErrTok_ok
        | tuple cs =>
          simp only [] at g2
          obtain ⟨idx', s3, h3, g3⟩ := bind_ok g2
          simp [tupleOfData, Ast.data, M.pure] at h3
          obtain ⟨rfl, rfl⟩ := h3
          cases hp : pickComponents cs idx with
          | none => simp only [hp] at g3; exact absurd g3 kidErrTok_ok
          | some comps =>
            simp only [hp] at g3
            obtain ⟨tt, s4, h4, g4⟩ := bind_ok g3
            obtain ⟨hne2, rfl⟩ := mkTuple_ok h4
            have hcur := setCur_ok g4
            exact ⟨hcur ▸ HasType.smallpr hne i1 (pick_of_pickComponents cs idx comps hp) hne2, nl (by decide)⟩

end CCVerif.Checker
