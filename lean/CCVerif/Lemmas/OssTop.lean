import CCVerif.Model.Oss
import CCVerif.Lemmas.Oss
import CCVerif.Lemmas.OssRel
import CCVerif.Lemmas.OssInv
/-!
C19, freshness: the invariant between API calls (`DInv`: handle invariant, the schema listens,
`desc = src` for attached handles), the freshness invariant proper (`J7`: an operation that is not
marked outdated and has a recorded execution was built from the core hashes its parents' handles
carry now), and how every piece of the API preserves them (`Good`).
-/
namespace CCVerif.Oss

/-! ## general updates of the handle invariant -/

theorem HInv.setSourceGen {s : Struct} {ex : Option Pid} {d : Dyn} {n : SrcName} {x : Source} (h : HInv s ex d)
    (hx : d.source n = some x) (y : Source) (hn : y.name = x.name)
    (hjd : y.opened = true → y.saved = true → y.announced = y.content)
    (hconn : ∀ q ∈ s.storage, some q ≠ ex → (d.handle q).src = some n →
      y.opened = true ∧ (d.handle q).coreHash = y.announced)
    (hdet : ∀ q ∈ s.storage, some q ≠ ex → (d.handle q).src = none → (d.handle q).desc = some n →
      y.opened = false ∧ (d.handle q).coreHash = y.announced) : HInv s ex (d.setSource y) := by
  have hsrc : ∀ m, (d.setSource y).source m = if m = n then some y else d.source m :=
    fun m => Dyn.source_setSource_of hx hn m
  refine ⟨?_, ?_, ?_, h.uniq, h.namesH, ?_⟩
  · intro m z hz ho hsv
    rw [hsrc] at hz
    split at hz
    · injection hz with hz; subst hz; exact hjd ho hsv
    · exact h.jd m z hz ho hsv
  · intro q hq he m hm
    have hm' : (d.handle q).src = some m := hm
    rw [hsrc]
    split
    · rename_i e; subst e
      obtain ⟨a, b⟩ := hconn q hq he hm'
      exact ⟨y, rfl, a, b⟩
    · exact h.conn q hq he m hm'
  · intro q hq he h1 m h2 z hz
    rw [hsrc] at hz
    split at hz
    · rename_i e; subst e
      injection hz with hz; subst hz
      exact hdet q hq he h1 h2
    · exact h.detached q hq he h1 m h2 z hz
  · intro m z hz
    rw [hsrc] at hz
    split at hz
    · rename_i e; subst e; exact h.namesS m x hx
    · exact h.namesS m z hz

theorem HInv.setHandleGen {s : Struct} {ex ex' : Option Pid} {d : Dyn} {p : Pid} {h' : Handle} (h : HInv s ex d)
    (hex : ∀ q, q ≠ p → some q ≠ ex' → some q ≠ ex)
    (hconn : p ∈ s.storage → some p ≠ ex' → ∀ n, h'.src = some n →
      ∃ x, d.source n = some x ∧ x.opened = true ∧ h'.coreHash = x.announced)
    (hdet : p ∈ s.storage → some p ≠ ex' → h'.src = none → ∀ n, h'.desc = some n →
      ∀ x, d.source n = some x → x.opened = false ∧ h'.coreHash = x.announced)
    (hun : p ∈ s.storage → ∀ n, h'.ed = some n →
      n ≤ d.nextName ∧ ∀ q ∈ s.storage, q ≠ p → (d.handle q).ed ≠ some n) :
    HInv s ex' (d.setHandle p h') := by
  refine ⟨h.jd, ?_, ?_, ?_, ?_, h.namesS⟩
  · intro q hq he n hn
    rw [Dyn.handle_setHandle] at hn ⊢
    split at hn
    · rename_i e; subst e; simp only [if_true]; exact hconn hq he n hn
    · rename_i e; simp only [if_neg e]; exact h.conn q hq (hex q e he) n hn
  · intro q hq he h1 n h2 x hx
    rw [Dyn.handle_setHandle] at h1 h2 ⊢
    split at h1
    · rename_i e; subst e; simp only [if_true] at h2 ⊢; exact hdet hq he h1 n h2 x hx
    · rename_i e; simp only [if_neg e] at h2 ⊢; exact h.detached q hq (hex q e he) h1 n h2 x hx
  · intro q hq q' hq' n e1 e2
    rw [Dyn.handle_setHandle] at e1 e2
    by_cases hqp : q = p
    · by_cases hqp' : q' = p
      · rw [hqp, hqp']
      · subst hqp
        simp only [if_true] at e1
        simp only [if_neg hqp'] at e2
        exact absurd e2 ((hun hq n e1).2 q' hq' hqp')
    · by_cases hqp' : q' = p
      · subst hqp'
        simp only [if_true] at e2
        simp only [if_neg hqp] at e1
        exact absurd e1 ((hun hq' n e2).2 q hq hqp)
      · simp only [if_neg hqp] at e1
        simp only [if_neg hqp'] at e2
        exact h.uniq q hq q' hq' n e1 e2
  · intro q hq n e1
    rw [Dyn.handle_setHandle] at e1
    split at e1
    · rename_i e; subst e; exact (hun hq n e1).1
    · exact h.namesH q hq n e1

/-! ## the invariant between calls -/

structure DInv (s : Struct) (d : Dyn) : Prop where
  dnd : d.dnd = 0
  h : HInv s none d
  c2 : ∀ q ∈ s.storage, ∀ n, (d.handle q).src = some n → (d.handle q).desc = some n

/-- what the proofs need of the graph facet -/
structure GraphOk (s : Struct) : Prop where
  wf : s.graph.Wf
  irrefl : ∀ c, c ∉ s.graph.parentsOf c
  childOp : ChildrenOperable s

theorem GraphOk.child_of_parent {s : Struct} (g : GraphOk s) {c q : Pid} (h : q ∈ s.graph.parentsOf c) :
    c ∈ s.graph.childrenOf q :=
  (Graph.mem_childrenOf g.wf).2 ⟨fun e => g.irrefl c (e ▸ h), h⟩

/-- freshness invariant; `E` = pictograms whose children are exempt (their stored result is being
replaced or was discarded, the children are not yet marked) -/
def J7 (s : Struct) (E : Pid → Prop) (d : Dyn) : Prop :=
  ∀ p ∈ s.opKeys, (d.op p).outdated = false → ∀ b1 b2, (d.op p).built = some (b1, b2) →
    ∀ p1 p2, s.graph.parentsOf p = [p1, p2] →
      (¬ E p1 → b1 = some (d.handle p1).coreHash ∧ (d.handle p1).ed ≠ none) ∧
      (¬ E p2 → b2 = some (d.handle p2).coreHash ∧ (d.handle p2).ed ≠ none)

def noEx : Pid → Prop := fun _ => False
def exOnly (p : Pid) : Pid → Prop := fun q => q = p

theorem J7.mono {s : Struct} {E E' : Pid → Prop} {d : Dyn} (h : J7 s E d) (hE : ∀ q, E q → E' q) : J7 s E' d := by
  intro p hp ho b1 b2 hb p1 p2 hpar
  obtain ⟨a1, a2⟩ := h p hp ho b1 b2 hb p1 p2 hpar
  exact ⟨fun e => a1 (fun e' => e (hE _ e')), fun e => a2 (fun e' => e (hE _ e'))⟩

/-- the exemption of `p` ends when all its children are marked -/
theorem J7.drop {s : Struct} (g : GraphOk s) {E : Pid → Prop} {d : Dyn} {p : Pid} (h : J7 s (fun q => E q ∨ q = p) d)
    (hm : ∀ c ∈ s.graph.childrenOf p, (d.op c).outdated = true) : J7 s E d := by
  intro c hc ho b1 b2 hb p1 p2 hpar
  obtain ⟨a1, a2⟩ := h c hc ho b1 b2 hb p1 p2 hpar
  have key : ∀ q, q ∈ s.graph.parentsOf c → q ≠ p := by
    rintro q hq rfl
    have := hm c (g.child_of_parent hq)
    rw [ho] at this; cases this
  constructor
  · intro e; exact a1 (fun e' => e'.elim e (key p1 (by rw [hpar]; simp)))
  · intro e; exact a2 (fun e' => e'.elim e (key p2 (by rw [hpar]; simp)))

/-- what a piece of the API may do to the operations and handle hashes, outside `X` -/
structure JRel (s : Struct) (X : Pid → Prop) (d d' : Dyn) : Prop where
  outdated : ∀ c, (d.op c).outdated = true → (d'.op c).outdated = true
  built : ∀ c, (d'.op c).built = (d.op c).built
  chg : ∀ q, ¬ X q →
    ((d'.handle q).coreHash = (d.handle q).coreHash ∧ ((d.handle q).ed ≠ none → (d'.handle q).ed ≠ none)) ∨
    (∀ c ∈ s.graph.childrenOf q, (d'.op c).outdated = true)

theorem JRel.refl (s : Struct) (X : Pid → Prop) (d : Dyn) : JRel s X d d :=
  ⟨fun _ h => h, fun _ => rfl, fun _ _ => Or.inl ⟨rfl, id⟩⟩

theorem JRel.trans {s : Struct} {X Y : Pid → Prop} {a b c : Dyn} (h1 : JRel s X a b) (h2 : JRel s Y b c) :
    JRel s (fun q => X q ∨ Y q) a c := by
  refine ⟨fun x h => h2.outdated x (h1.outdated x h), fun x => (h2.built x).trans (h1.built x), ?_⟩
  intro q hq
  have hx : ¬ X q := fun e => hq (Or.inl e)
  have hy : ¬ Y q := fun e => hq (Or.inr e)
  rcases h2.chg q hy with ⟨e2, n2⟩ | e2
  · rcases h1.chg q hx with ⟨e1, n1⟩ | e1
    · exact Or.inl ⟨e2.trans e1, fun h => n2 (n1 h)⟩
    · exact Or.inr (fun x hx => h2.outdated x (e1 x hx))
  · exact Or.inr e2

theorem JRel.mono {s : Struct} {X Y : Pid → Prop} {d d' : Dyn} (h : JRel s X d d') (hXY : ∀ q, X q → Y q) : JRel s Y d d' :=
  ⟨h.outdated, h.built, fun q hq => h.chg q (fun e => hq (hXY q e))⟩

/-- states that agree on operations and handles -/
theorem JRel.of_eq {s : Struct} {X : Pid → Prop} {d d' : Dyn} (ho : ∀ c, d'.op c = d.op c) (hh : ∀ q, d'.handle q = d.handle q) :
    JRel s X d d' :=
  ⟨fun c h => by rw [ho]; exact h, fun c => by rw [ho], fun q _ => Or.inl ⟨by rw [hh], by rw [hh]; exact id⟩⟩

theorem J7.of_jrel {s : Struct} (g : GraphOk s) {E X : Pid → Prop} {d d' : Dyn} (h : J7 s E d) (r : JRel s X d d') :
    J7 s (fun q => E q ∨ X q) d' := by
  intro p hp ho b1 b2 hb p1 p2 hpar
  have ho' : (d.op p).outdated = false := by
    cases hh : (d.op p).outdated with
    | false => rfl
    | true => rw [r.outdated p hh] at ho; cases ho
  rw [r.built] at hb
  obtain ⟨a1, a2⟩ := h p hp ho' b1 b2 hb p1 p2 hpar
  have key : ∀ q b, q ∈ s.graph.parentsOf p → ¬ (E q ∨ X q) → (¬ E q → b = some (d.handle q).coreHash ∧ (d.handle q).ed ≠ none) →
      b = some (d'.handle q).coreHash ∧ (d'.handle q).ed ≠ none := by
    intro q b hq he ha
    obtain ⟨e1, e2⟩ := ha (fun e => he (Or.inl e))
    rcases r.chg q (fun e => he (Or.inr e)) with ⟨c1, c2⟩ | c
    · exact ⟨by rw [c1]; exact e1, c2 e2⟩
    · have := c p (g.child_of_parent hq)
      rw [ho] at this; cases this
  exact ⟨fun e => key p1 b1 (by rw [hpar]; simp) e a1, fun e => key p2 b2 (by rw [hpar]; simp) e a2⟩

/-- a reaction chain started while the schema listens -/
theorem Rel.jrel {s : Struct} {d d' : Dyn} (r : Rel s d d') (hd : d.dnd = 0) (hf : d'.fault = none) : JRel s noEx d d' := by
  refine ⟨r.r0.frame.outdated, fun c => (r.r0.frame.opFix c).2.2.2, ?_⟩
  intro q _
  rcases r.chg hd q with e | e
  · exact Or.inl ⟨e, by rw [r.r0.ed q]; exact id⟩
  · exact Or.inr (e hf)

/-- a piece of the API: a fault is never forgotten; from a state satisfying the invariant, a
fault-free result satisfies it again and the operations changed as `JRel` allows -/
structure Good (s : Struct) (X : Pid → Prop) (d d' : Dyn) : Prop where
  fault : d'.fault = none → d.fault = none
  post : DInv s d → d'.fault = none → DInv s d' ∧ JRel s X d d'

theorem Good.refl (s : Struct) (X : Pid → Prop) (d : Dyn) : Good s X d d := ⟨id, fun h _ => ⟨h, JRel.refl s X d⟩⟩

theorem Good.trans {s : Struct} {X Y : Pid → Prop} {a b c : Dyn} (h1 : Good s X a b) (h2 : Good s Y b c) :
    Good s (fun q => X q ∨ Y q) a c := by
  refine ⟨fun h => h1.fault (h2.fault h), ?_⟩
  intro ha hc
  have hb := h2.fault hc
  obtain ⟨ib, rb⟩ := h1.post ha hb
  obtain ⟨ic, rc⟩ := h2.post ib hc
  exact ⟨ic, rb.trans rc⟩

theorem Good.mono {s : Struct} {X Y : Pid → Prop} {d d' : Dyn} (h : Good s X d d') (hXY : ∀ q, X q → Y q) : Good s Y d d' :=
  ⟨h.fault, fun a b => ⟨(h.post a b).1, (h.post a b).2.mono hXY⟩⟩

theorem Good.trans0 {s : Struct} {X : Pid → Prop} {a b c : Dyn} (h1 : Good s noEx a b) (h2 : Good s X b c) : Good s X a c :=
  (h1.trans h2).mono (by intro q h; rcases h with h | h; exact h.elim; exact h)

theorem Good.trans0' {s : Struct} {X : Pid → Prop} {a b c : Dyn} (h1 : Good s X a b) (h2 : Good s noEx b c) : Good s X a c :=
  (h1.trans h2).mono (by intro q h; rcases h with h | h; exact h; exact h.elim)

theorem Good.foldl {s : Struct} {α} (g : Dyn → α → Dyn) (hg : ∀ d x, Good s noEx d (g d x)) :
    ∀ (l : List α) (d : Dyn), Good s noEx d (l.foldl g d)
  | [], d => Good.refl s noEx d
  | x :: l, d => (hg d x).trans0 (Good.foldl g hg l (g d x))

/-- `C2` after a chain: a touched handle ends with `desc = src` -/
theorem c2_of_synced {s : Struct} {d d' : Dyn}
    (c2 : ∀ q ∈ s.storage, ∀ n, (d.handle q).src = some n → (d.handle q).desc = some n) (hs : SyncedOr d d') :
    ∀ q ∈ s.storage, ∀ n, (d'.handle q).src = some n → (d'.handle q).desc = some n := by
  intro q hq n hn
  rcases hs q with e | ⟨m, e1, e2⟩
  · rw [e] at hn ⊢; exact c2 q hq n hn
  · rw [e1] at hn; injection hn with hn; subst hn; exact e2

/-- the six functions of the chain are good -/
theorem Good.of_rel {s : Struct} {d d' : Dyn} (r : Rel s d d')
    (hi : d.dnd = 0 → HInv s none d → d'.fault = none → HInv s none d') : Good s noEx d d' := by
  refine ⟨r.fault_none, ?_⟩
  intro h hf
  exact ⟨⟨by rw [r.r0.dnd]; exact h.dnd, hi h.dnd h.h hf, c2_of_synced h.c2 r.synced⟩, r.jrel h.dnd hf⟩

theorem announce_good {s : Struct} (g : GraphOk s) (o : Oracle) (f : Nat) (d : Dyn) (n : SrcName) :
    Good s noEx d (announce s o f d n) :=
  Good.of_rel ((reactions_rel s o g.childOp f).1 d n) ((reactions_hinv s o g.childOp f).1 d n)

theorem coreChange_good {s : Struct} (g : GraphOk s) (o : Oracle) (f : Nat) (d : Dyn) (p : Pid) :
    Good s noEx d (coreChange s o f d p) :=
  Good.of_rel ((reactions_rel s o g.childOp f).2.2.1 d p) ((reactions_hinv s o g.childOp f).2.2.1 d p)

theorem updateSync_good {s : Struct} (g : GraphOk s) (o : Oracle) (f : Nat) (d : Dyn) (p : Pid) :
    Good s noEx d (updateSync s o f d p) :=
  Good.of_rel ((reactions_rel s o g.childOp f).2.2.2.1 d p) ((reactions_hinv s o g.childOp f).2.2.2.1 d p)

theorem dataFor_good {s : Struct} (g : GraphOk s) (o : Oracle) (f : Nat) (d : Dyn) (p : Pid) :
    Good s noEx d (dataFor s o f d p).1 :=
  Good.of_rel ((reactions_rel s o g.childOp f).2.2.2.2.1 d p) ((reactions_hinv s o g.childOp f).2.2.2.2.1 d p)

theorem checkOp_good {s : Struct} (g : GraphOk s) (o : Oracle) (f : Nat) (d : Dyn) (p : Pid) :
    Good s noEx d (checkOp s o f d p) :=
  Good.of_rel ((reactions_rel s o g.childOp f).2.2.2.2.2 d p) ((reactions_hinv s o g.childOp f).2.2.2.2.2 d p)

/-! ## the events of the source manager -/

theorem JRel.of_handles {s : Struct} {X : Pid → Prop} {d d' : Dyn} (ho : ∀ c, d'.op c = d.op c)
    (hh : ∀ q, (d'.handle q).coreHash = (d.handle q).coreHash ∧ ((d.handle q).ed ≠ none → (d'.handle q).ed ≠ none)) :
    JRel s X d d' :=
  ⟨fun c h => by rw [ho]; exact h, fun c => by rw [ho], fun q _ => Or.inl (hh q)⟩

def closedSource (x : Source) : Source := { x with opened := false, saved := true }

theorem evClose_eq (s : Struct) (d : Dyn) (n : SrcName) (hd : d.dnd = 0) :
    evClose s d n =
      match d.source n with
      | none => d
      | some x =>
        match src2pid s d n with
        | some p => (d.setHandle p { d.handle p with src := none }).setSource (closedSource x)
        | none => d.setSource (closedSource x) := by
  unfold evClose
  cases d.source n with
  | none => rfl
  | some x =>
    have : ¬ d.dnd > 0 := by omega
    simp only [this, if_false]
    cases src2pid s d n <;> rfl

theorem evClose_good (s : Struct) (d : Dyn) (n : SrcName) : Good s noEx d (evClose s d n) := by
  constructor
  · unfold evClose
    cases d.source n with
    | none => exact id
    | some x =>
      dsimp only
      split
      · exact id
      · split <;> exact id
  · intro h _
    rw [evClose_eq s d n h.dnd]
    cases hx : d.source n with
    | none => exact ⟨h, JRel.refl _ _ _⟩
    | some x =>
      dsimp only
      cases hp : src2pid s d n with
      | none =>
        dsimp only
        refine ⟨⟨h.dnd, ?_, h.c2⟩, JRel.of_eq (fun _ => rfl) (fun _ => rfl)⟩
        apply h.h.setSourceGen hx (closedSource x) rfl
        · intro ho; cases ho
        · intro q hq _ hq2; exact absurd hq2 (src2pid_none hp q hq)
        · intro q hq _ h1 h2
          obtain ⟨a, b⟩ := h.h.detached q hq (by simp) h1 n h2 x hx
          exact ⟨rfl, b⟩
      | some p =>
        dsimp only
        obtain ⟨hps, hpsrc⟩ := src2pid_some hp
        have hpdesc := h.c2 p hps n hpsrc
        obtain ⟨x', hx', hxo, hxh⟩ := h.h.conn p hps (by simp) n hpsrc
        rw [hx] at hx'; injection hx' with hx'; subst hx'
        have hedp : (d.handle p).ed = some n := Handle.ed_of_src hpsrc
        have h1 : HInv s (some p) (d.setHandle p { d.handle p with src := none }) := by
          apply h.h.setHandleGen
          · intro q _ _; simp
          · intro _ he; exact absurd rfl he
          · intro _ he; exact absurd rfl he
          · intro _ m hm
            have : m = n := by
              simp only [Handle.ed, hpdesc] at hm
              injection hm with hm; exact hm.symm
            subst this
            exact ⟨h.h.namesH p hps m hedp, fun q hq hqp e => hqp (h.h.uniq q hq p hps m e hedp)⟩
        have hx1 : (d.setHandle p { d.handle p with src := none }).source n = some x := hx
        have h2 : HInv s (some p) ((d.setHandle p { d.handle p with src := none }).setSource (closedSource x)) := by
          apply h1.setSourceGen hx1 (closedSource x) rfl
          · intro ho; cases ho
          · intro q hq he hq2
            have hqp : q ≠ p := by simpa using he
            rw [Dyn.handle_setHandle, if_neg hqp] at hq2
            exact absurd (h.h.src_unique hq hps hq2 hpsrc) hqp
          · intro q hq he hq1 hq2
            have hqp : q ≠ p := by simpa using he
            rw [Dyn.handle_setHandle, if_neg hqp] at hq1 hq2
            exact absurd (h.h.uniq q hq p hps n (by rw [Handle.ed_of_none hq1]; exact hq2) hedp) hqp
        refine ⟨⟨h.dnd, ?_, ?_⟩, ?_⟩
        · apply h2.unexempt
          · intro _ m hm
            simp at hm
          · intro _ _ m hm y hy
            have hm' : m = n := by
              simp [hpdesc] at hm
              exact hm.symm
            subst hm'
            rw [Dyn.source_setSource_of (y := closedSource x) hx1 rfl] at hy
            simp only [if_true] at hy
            injection hy with hy; subst hy
            exact ⟨rfl, by simpa [closedSource] using hxh⟩
        · intro q hq m hm
          rw [Dyn.handle_setSource, Dyn.handle_setHandle] at hm ⊢
          split at hm
          · cases hm
          · rename_i e; simp only [if_neg e]; exact h.c2 q hq m hm
        · refine JRel.of_handles (d := d) (fun _ => rfl) ?_
          intro q
          rw [Dyn.handle_setSource, Dyn.handle_setHandle]
          split
          · rename_i e; subst e
            refine ⟨rfl, fun _ => ?_⟩
            simp [Handle.ed, hpdesc]
          · exact ⟨rfl, id⟩

theorem evClose_source (s : Struct) (d : Dyn) (n : SrcName) (hd : d.dnd = 0) (m : SrcName) :
    (evClose s d n).source m = if m = n then (d.source n).map closedSource else d.source m := by
  rw [evClose_eq s d n hd]
  cases hx : d.source n with
  | none =>
    dsimp only
    split
    · rename_i e; subst e; simp [hx]
    · rfl
  | some x =>
    dsimp only
    cases src2pid s d n with
    | none =>
      dsimp only
      rw [Dyn.source_setSource_of (y := closedSource x) hx rfl]; simp
    | some p =>
      dsimp only
      have hx1 : (d.setHandle p { d.handle p with src := none }).source n = some x := hx
      rw [Dyn.source_setSource_of (y := closedSource x) hx1 rfl]; simp

theorem evClose_handle_ne (s : Struct) (d : Dyn) (n : SrcName) (hd : d.dnd = 0) (q : Pid)
    (hq : src2pid s d n ≠ some q) : (evClose s d n).handle q = d.handle q := by
  rw [evClose_eq s d n hd]
  cases d.source n with
  | none => rfl
  | some x =>
    dsimp only
    cases hp : src2pid s d n with
    | none => rfl
    | some p =>
      dsimp only
      have : q ≠ p := by rintro rfl; exact hq hp
      simp [this]

/-- closing keeps the effective name of every stored handle -/
theorem evClose_ed {s : Struct} {d : Dyn} (h : DInv s d) (n : SrcName) (q : Pid) :
    ((evClose s d n).handle q).ed = (d.handle q).ed := by
  rw [evClose_eq s d n h.dnd]
  cases d.source n with
  | none => rfl
  | some x =>
    dsimp only
    cases hp : src2pid s d n with
    | none => rfl
    | some p =>
      dsimp only
      obtain ⟨hps, hpsrc⟩ := src2pid_some hp
      rw [Dyn.handle_setSource, Dyn.handle_setHandle]
      split
      · rename_i e; subst e
        simp [Handle.ed, hpsrc, h.c2 q hps n hpsrc]
      · rfl

theorem evEdit_good (s : Struct) (d : Dyn) (n : SrcName) (c : Content) : Good s noEx d (evEdit d n c) := by
  unfold evEdit
  cases hx : d.source n with
  | none => exact Good.refl _ _ _
  | some x =>
    dsimp only
    refine ⟨id, fun h _ => ⟨⟨h.dnd, ?_, h.c2⟩, JRel.of_eq (fun _ => rfl) (fun _ => rfl)⟩⟩
    apply h.h.setSourceGen hx { x with content := c, saved := false } rfl
    · intro _ hs; cases hs
    · intro q hq _ hq2
      obtain ⟨x', hx', a, b⟩ := h.h.conn q hq (by simp) n hq2
      rw [hx] at hx'; injection hx' with hx'; subst hx'
      exact ⟨a, b⟩
    · intro q hq _ h1 h2
      exact h.h.detached q hq (by simp) h1 n h2 x hx

theorem source_append_new (d : Dyn) (y : Source) (k : Nat) (hno : d.source y.name = none) (m : SrcName) :
    ({ d with env := d.env ++ [y], nextName := k } : Dyn).source m = if m = y.name then some y else d.source m := by
  unfold Dyn.source at hno ⊢
  simp only [List.find?_append]
  split
  · rename_i e; subst e
    rw [hno]; simp
  · rename_i e
    have : (y.name == m) = false := by simpa using (Ne.symm e)
    simp [this]

theorem evNewSource_good (s : Struct) (d : Dyn) (n : SrcName) (c : Content) (hn : d.nextName < n) :
    Good s noEx d (evNewSource d n c) := by
  refine ⟨id, fun h _ => ⟨⟨h.dnd, ?_, h.c2⟩, JRel.of_eq (fun _ => rfl) (fun _ => rfl)⟩⟩
  have hno : d.source n = none := by
    cases hx : d.source n with
    | none => rfl
    | some x => exact absurd (h.h.namesS n x hx) (Nat.not_le.2 hn)
  have hsrc : ∀ m, (evNewSource d n c).source m =
      if m = n then some ({ name := n, content := c, announced := c } : Source) else d.source m := by
    intro m
    exact source_append_new d ({ name := n, content := c, announced := c } : Source) _ hno m
  have hn1 : d.nextName ≤ (evNewSource d n c).nextName := Nat.le_max_left _ _
  have hn2 : n ≤ (evNewSource d n c).nextName := Nat.le_max_right _ _
  have hle : ∀ m, m ≤ d.nextName → m ≠ n := by
    intro m hm e; subst e; exact absurd hm (Nat.not_le.2 hn)
  refine ⟨?_, ?_, ?_, h.h.uniq, ?_, ?_⟩
  · intro m y hy ho hs
    rw [hsrc] at hy
    split at hy
    · injection hy with hy; subst hy; rfl
    · exact h.h.jd m y hy ho hs
  · intro q hq he m hm
    have hm' : (d.handle q).src = some m := hm
    rw [hsrc, if_neg (hle m (h.h.namesH q hq m (Handle.ed_of_src hm')))]
    exact h.h.conn q hq he m hm'
  · intro q hq he h1 m h2 y hy
    have h1' : (d.handle q).src = none := h1
    have h2' : (d.handle q).desc = some m := h2
    rw [hsrc, if_neg (hle m (h.h.namesH q hq m (by rw [Handle.ed_of_none h1']; exact h2')))] at hy
    exact h.h.detached q hq he h1' m h2' y hy
  · intro q hq m hm
    exact Nat.le_trans (h.h.namesH q hq m hm) hn1
  · intro m y hy
    rw [hsrc] at hy
    split at hy
    · rename_i e; subst e; exact hn2
    · exact Nat.le_trans (h.h.namesS m y hy) hn1

theorem source_filter_ne (d : Dyn) (n m : SrcName) :
    ({ d with env := d.env.filter (·.name != n) } : Dyn).source m = if m = n then none else d.source m := by
  unfold Dyn.source
  simp only [List.find?_filter]
  split
  · rename_i e; subst e
    rw [List.find?_eq_none]
    intro x _
    by_cases hx : x.name = m <;> simp [hx]
  · rename_i e
    congr 1
    funext x
    by_cases hx : x.name = m
    · simp [hx, e]
    · simp [hx]

theorem evDestroy_good (s : Struct) (d : Dyn) (n : SrcName) : Good s noEx d (evDestroy s d n) := by
  -- first stage: the document is closed (or was closed, or is unknown)
  have key : ∀ d1 : Dyn, Good s noEx d d1 → (DInv s d → ∀ x, d1.source n = some x → x.opened = false) →
      Good s noEx d ({ d1 with env := d1.env.filter (·.name != n) } : Dyn) := by
    intro d1 g1 hcl
    refine ⟨fun hf => g1.fault hf, fun h hf => ?_⟩
    obtain ⟨h1, r1⟩ := g1.post h hf
    have hcl := hcl h
    have hsrc := source_filter_ne d1 n
    refine ⟨⟨h1.dnd, ?_, h1.c2⟩, (r1.trans (JRel.of_eq (X := noEx) (d := d1)
      (d' := ({ d1 with env := d1.env.filter (·.name != n) } : Dyn)) (fun _ => rfl) (fun _ => rfl))).mono
        (by intro q e; rcases e with e | e <;> exact e)⟩
    refine ⟨?_, ?_, ?_, h1.h.uniq, h1.h.namesH, ?_⟩
    · intro m y hy
      rw [hsrc] at hy
      split at hy
      · cases hy
      · exact h1.h.jd m y hy
    · intro q hq he m hm
      have hm' : (d1.handle q).src = some m := hm
      obtain ⟨y, hy, a, b⟩ := h1.h.conn q hq he m hm'
      have : m ≠ n := by
        rintro rfl
        have := hcl y hy
        rw [a] at this; cases this
      rw [hsrc, if_neg this]
      exact ⟨y, hy, a, b⟩
    · intro q hq he h1' m h2 y hy
      rw [hsrc] at hy
      split at hy
      · cases hy
      · exact h1.h.detached q hq he h1' m h2 y hy
    · intro m y hy
      rw [hsrc] at hy
      split at hy
      · cases hy
      · exact h1.h.namesS m y hy
  unfold evDestroy
  cases hx : d.source n with
  | none =>
    dsimp only
    exact key d (Good.refl _ _ _) (fun _ x hx' => by rw [hx] at hx'; cases hx')
  | some x =>
    dsimp only
    split
    · apply key _ (evClose_good s d n)
      intro h y hy
      rw [evClose_source s d n h.dnd, if_pos rfl, hx] at hy
      injection hy with hy; subst hy; rfl
    · rename_i ho
      apply key d (Good.refl _ _ _)
      intro _ y hy
      rw [hx] at hy; injection hy with hy; subst hy
      simpa using ho

theorem mgrClose_good {s : Struct} (g : GraphOk s) (o : Oracle) (d : Dyn) (n : SrcName) : Good s noEx d (mgrClose s o d n) :=
  (announce_good g o _ d n).trans0 (evClose_good s _ n)

/-! ## attaching a document -/

theorem announce_unattached (s : Struct) (o : Oracle) (f : Nat) (d : Dyn) (n : SrcName)
    (hno : ∀ q ∈ s.storage, (d.handle q).src ≠ some n) :
    announce s o (f + 1) d n =
      match d.source n with
      | none => d
      | some x => if x.saved || !x.opened then d else d.setSource (annSource x) := by
  rw [announce_succ]
  cases d.source n with
  | none => rfl
  | some x =>
    dsimp only
    split
    · rfl
    · have : src2pid s d n = none := by
        unfold src2pid
        rw [List.find?_eq_none]
        intro q hq
        simpa using hno q hq
      rw [this]
      split <;> rfl

/-- after `SyncPict(p)` the handle of `p` has `desc = src` -/
theorem syncPict_self (s : Struct) (o : Oracle) (hop : ChildrenOperable s) (f : Nat) (d : Dyn) (p : Pid) (n : SrcName)
    (hsrc : (d.handle p).src = some n) (hf : (syncPict s o f d p).fault = none) :
    ((syncPict s o f d p).handle p).src = some n ∧ ((syncPict s o f d p).handle p).desc = some n := by
  cases f with
  | zero => simp only [syncPict] at hf; exact absurd hf (Dyn.fault_stuck_ne _ _)
  | succ f =>
    rw [syncPict_succ, hsrc]
    dsimp only
    have hsrc1 : ((syncStage1 d p n).handle p).src = some n := by simp [syncStage1, hsrc]
    have hsrc2 : ((syncStage2 s o f d p n).handle p).src = some n := by
      unfold syncStage2
      split
      · exact ((reactions_rel s o hop f).2.2.1 _ p).r0.frame.src p n hsrc1
      · exact hsrc1
    simp [syncStage3, hsrc2]

/-- `ConnectInternal` while the schema listens, for a document nobody else stands for -/
theorem connectInternal_spec' {s : Struct} (g : GraphOk s) (o : Oracle) (d : Dyn) (p : Pid) (n : SrcName) (x : Source)
    (hd : d.dnd = 0) (h : HInv s (some p) d)
    (c2 : ∀ q ∈ s.storage, q ≠ p → ∀ m, (d.handle q).src = some m → (d.handle q).desc = some m)
    (hp : p ∈ s.storage) (hx : d.source n = some x) (hxo : x.opened = true)
    (hfree : ∀ q ∈ s.storage, q ≠ p → (d.handle q).ed ≠ some n) (hpn : (d.handle p).src ≠ some n) :
    ((connectInternal s o d p n).fault = none → d.fault = none) ∧
    ((connectInternal s o d p n).fault = none → DInv s (connectInternal s o d p n) ∧ JRel s noEx d (connectInternal s o d p n)) := by
  unfold connectInternal
  obtain ⟨k, hk⟩ := fuelOf_succ d
  have hno : ∀ q ∈ s.storage, (d.handle q).src ≠ some n := by
    intro q hq e
    by_cases hqp : q = p
    · subst hqp; exact hpn e
    · exact hfree q hq hqp (Handle.ed_of_src e)
  rw [hk, announce_unattached s o k d n hno, hx]
  dsimp only
  -- the state after `SaveState(src)`
  have hstage1 : ∃ d1 x1, d1 = (if (x.saved || !x.opened) = true then d else d.setSource (annSource x)) ∧
      HInv s (some p) d1 ∧ d1.source n = some x1 ∧ x1.opened = true ∧ x1.announced = x1.content ∧
      (∀ q, d1.handle q = d.handle q) ∧ (∀ c, d1.op c = d.op c) ∧ d1.dnd = d.dnd ∧ d1.fault = d.fault ∧
      d1.nextName = d.nextName := by
    by_cases hsv : x.saved = true
    · refine ⟨d, x, by simp [hsv], h, hx, hxo, h.jd n x hx hxo hsv, fun _ => rfl, fun _ => rfl, rfl, rfl, rfl⟩
    · have hsv' : x.saved = false := by simpa using hsv
      refine ⟨d.setSource (annSource x), annSource x, by simp [hsv', hxo], ?_, ?_, hxo, rfl, fun _ => rfl, fun _ => rfl, rfl, rfl, rfl⟩
      · apply h.annStep hx hxo
        intro q hq _ ; exact hno q hq
      · rw [Dyn.source_setSource_of (y := annSource x) hx rfl]; simp
  obtain ⟨d1, x1, hd1, h1, hx1, hx1o, hx1a, hh1, hop1, hdnd1, hf1, hnn1⟩ := hstage1
  rw [← hd1]
  -- the handle points to the document
  have h2 : HInv s (some p) (d1.setHandle p { d1.handle p with src := some n }) := by
    apply h1.setHandleGen
    · intro q _ he; exact he
    · intro _ he; exact absurd rfl he
    · intro _ he; exact absurd rfl he
    · intro _ m hm
      have : m = n := by simp [Handle.ed] at hm; exact hm.symm
      subst this
      refine ⟨by rw [hnn1]; exact h.namesS m x hx, fun q hq hqp => ?_⟩
      rw [hh1]; exact hfree q hq hqp
  have hps2 : PreSync (d1.setHandle p { d1.handle p with src := some n }) p := by
    intro m hm
    have : m = n := by simp at hm; exact hm.symm
    subst this
    exact ⟨x1, hx1, hx1o, hx1a⟩
  generalize hd2 : d1.setHandle p { d1.handle p with src := some n } = d2 at h2 hps2
  have hdnd2 : d2.dnd = 0 := by rw [← hd2]; simp [hdnd1, hd]
  have hsrc2 : (d2.handle p).src = some n := by rw [← hd2]; simp
  have hoth2 : ∀ q, q ≠ p → d2.handle q = d.handle q := by
    intro q hq; rw [← hd2]; simp [hq, hh1]
  have hf2 : d2.fault = d.fault := by rw [← hd2]; exact hf1
  have r3 := (reactions_rel s o g.childOp (fuelOf d2)).2.1 d2 p
  constructor
  · intro hf; rw [← hf2]; exact r3.fault_none hf
  · intro hf
    have h3 := (reactions_hinv s o g.childOp (fuelOf d2)).2.1 d2 p hdnd2 h2 hps2 hf
    obtain ⟨s1, s2⟩ := syncPict_self s o g.childOp (fuelOf d2) d2 p n hsrc2 hf
    refine ⟨⟨by rw [r3.r0.dnd]; exact hdnd2, h3, ?_⟩, ?_⟩
    · intro q hq m hm
      by_cases hqp : q = p
      · subst hqp
        rw [s1] at hm; injection hm with hm; subst hm; exact s2
      · rcases r3.synced q with e | ⟨m', e1, e2⟩
        · rw [e, hoth2 q hqp] at hm ⊢; exact c2 q hq hqp m hm
        · rw [e1] at hm; injection hm with hm; subst hm; exact e2
    · have j12 : JRel s noEx d d2 := by
        apply JRel.of_handles
        · intro c; rw [← hd2]; exact hop1 c
        · intro q
          by_cases hqp : q = p
          · subst hqp
            rw [← hd2]
            simp [hh1, Handle.ed]
          · rw [hoth2 q hqp]; exact ⟨rfl, id⟩
      exact (j12.trans (r3.jrel hdnd2 hf)).mono (by intro q e; rcases e with e | e <;> exact e)

theorem evOpen_eq (s : Struct) (o : Oracle) (d : Dyn) (n : SrcName) :
    evOpen s o d n =
      match d.source n with
      | none => d
      | some x =>
        if d.dnd > 0 then d.setSource (openSource x)
        else match s.storage.find? (fun p => !(d.handle p).empty && (d.handle p).src.isNone && (d.handle p).desc == some n) with
          | none => d.setSource (openSource x)
          | some p => connectInternal s o (d.setSource (openSource x)) p n := by
  unfold evOpen
  cases d.source n <;> rfl

theorem connectInternal_fault {s : Struct} (g : GraphOk s) (o : Oracle) (d : Dyn) (p : Pid) (n : SrcName)
    (hf : (connectInternal s o d p n).fault = none) : d.fault = none := by
  unfold connectInternal at hf
  have r1 := (reactions_rel s o g.childOp (fuelOf d)).1 d n
  generalize announce s o (fuelOf d) d n = d1 at r1 hf
  have r3 := (reactions_rel s o g.childOp (fuelOf (d1.setHandle p { d1.handle p with src := some n }))).2.1
    (d1.setHandle p { d1.handle p with src := some n }) p
  exact r1.fault_none (r3.fault_none hf)

/-- `TriggerOpen` of a closed document -/
theorem evOpen_good {s : Struct} (g : GraphOk s) (o : Oracle) (d : Dyn) (n : SrcName)
    (hadm : ∀ x, d.source n = some x → x.opened = false) : Good s noEx d (evOpen s o d n) := by
  rw [evOpen_eq]
  cases hx : d.source n with
  | none => exact Good.refl _ _ _
  | some x =>
    dsimp only
    have hcl := hadm x hx
    have hxs : (d.setSource (openSource x)).source n = some (openSource x) := by
      rw [Dyn.source_setSource_of (y := openSource x) hx rfl]; simp
    cases hfind : s.storage.find? (fun p => !(d.handle p).empty && (d.handle p).src.isNone && (d.handle p).desc == some n) with
    | none =>
      dsimp only
      have hnone : ∀ q ∈ s.storage, (d.handle q).src = none → (d.handle q).desc ≠ some n := by
        intro q hq h1 h2
        have := List.find?_eq_none.1 hfind q hq
        have he : (d.handle q).empty = false := Handle.not_empty_of_ed (by rw [Handle.ed_of_none h1]; exact h2)
        simp [he, h1, h2] at this
      refine ⟨fun hf => by split at hf <;> exact hf, fun h _ => ?_⟩
      have hi : DInv s (d.setSource (openSource x)) := by
        refine ⟨h.dnd, ?_, h.c2⟩
        apply h.h.setSourceGen hx (openSource x) rfl
        · intro _ _; rfl
        · intro q hq _ hq2
          obtain ⟨x', hx', a, _⟩ := h.h.conn q hq (by simp) n hq2
          rw [hx] at hx'; injection hx' with hx'; subst hx'
          rw [hcl] at a; cases a
        · intro q hq _ h1 h2
          exact absurd h2 (hnone q hq h1)
      have : ¬ d.dnd > 0 := by rw [h.dnd]; omega
      rw [if_neg this]
      exact ⟨hi, JRel.of_eq (fun _ => rfl) (fun _ => rfl)⟩
    | some p =>
      dsimp only
      have hps : p ∈ s.storage := List.mem_of_find?_eq_some hfind
      have hpp := List.find?_some hfind
      simp only [Bool.and_eq_true, Bool.not_eq_true', Option.isNone_iff_eq_none, beq_iff_eq] at hpp
      obtain ⟨⟨_, hpsrc⟩, hpdesc⟩ := hpp
      have hedp : (d.handle p).ed = some n := by rw [Handle.ed_of_none hpsrc]; exact hpdesc
      constructor
      · intro hf
        split at hf
        · exact hf
        · exact connectInternal_fault g o (d.setSource (openSource x)) p n hf
      · intro h hf
        have hdnd : ¬ d.dnd > 0 := by rw [h.dnd]; omega
        rw [if_neg hdnd] at hf ⊢
        have h1 : HInv s (some p) (d.setSource (openSource x)) := by
          apply (h.h.weaken (ex := some p)).setSourceGen hx (openSource x) rfl
          · intro _ _; rfl
          · intro q hq _ hq2
            obtain ⟨x', hx', a, _⟩ := h.h.conn q hq (by simp) n hq2
            rw [hx] at hx'; injection hx' with hx'; subst hx'
            rw [hcl] at a; cases a
          · intro q hq he h1 h2
            have hqp : q ≠ p := by simpa using he
            exact absurd (h.h.uniq q hq p hps n (by rw [Handle.ed_of_none h1]; exact h2) hedp) hqp
        obtain ⟨_, hpost⟩ := connectInternal_spec' g o (d.setSource (openSource x)) p n (openSource x) h.dnd h1
          (fun q hq _ m hm => h.c2 q hq m hm) hps hxs rfl
          (fun q hq hqp e => hqp (h.h.uniq q hq p hps n e hedp))
          (by show (d.handle p).src ≠ some n; rw [hpsrc]; simp)
        obtain ⟨i, r⟩ := hpost hf
        exact ⟨i, ((JRel.of_eq (X := noEx) (d := d) (d' := d.setSource (openSource x)) (fun _ => rfl) (fun _ => rfl)).trans r).mono
          (by intro q e; rcases e with e | e <;> exact e)⟩

/-- nobody stands for document `n`, which is open -/
def FreeDoc (s : Struct) (d : Dyn) (n : SrcName) : Prop :=
  (∀ q ∈ s.storage, (d.handle q).ed ≠ some n) ∧ ∃ x, d.source n = some x ∧ x.opened = true

theorem FreeDoc.of_rel0 {s : Struct} {d d' : Dyn} {n : SrcName} (h : FreeDoc s d n) (r : Rel0 d d') : FreeDoc s d' n := by
  obtain ⟨h1, x, hx, hxo⟩ := h
  obtain ⟨x', hx', _, o', _, _⟩ := r.docs n x hx
  exact ⟨fun q hq => by rw [r.ed]; exact h1 q hq, x', hx', o' hxo⟩

theorem FreeDoc.evClose {s : Struct} {d : Dyn} {n m : SrcName} (h : FreeDoc s d n) (hi : DInv s d) (hmn : m ≠ n) :
    FreeDoc s (evClose s d m) n := by
  obtain ⟨h1, x, hx, hxo⟩ := h
  refine ⟨fun q hq => by rw [evClose_ed hi]; exact h1 q hq, x, ?_, hxo⟩
  rw [evClose_source s d m hi.dnd, if_neg (Ne.symm hmn)]; exact hx

theorem connect_tail {s : Struct} (g : GraphOk s) (o : Oracle) (d d2 : Dyn) (p : Pid) (n : SrcName) (hp : p ∈ s.storage)
    (g2 : Good s noEx d d2) (hfree : DInv s d → d2.fault = none → FreeDoc s d2 n) :
    Good s noEx d (connectInternal s o d2 p n) := by
  constructor
  · intro hf
    exact g2.fault (connectInternal_fault g o d2 p n hf)
  · intro h hf
    have hf2 := connectInternal_fault g o d2 p n hf
    obtain ⟨i2, j2⟩ := g2.post h hf2
    obtain ⟨hfr, x2, hx2, hx2o⟩ := hfree h hf2
    obtain ⟨_, hpost⟩ := connectInternal_spec' g o d2 p n x2 i2.dnd (i2.h.weaken)
      (fun q hq _ m hm => i2.c2 q hq m hm) hp hx2 hx2o (fun q hq _ => hfr q hq)
      (fun e => hfr p hp (Handle.ed_of_src e))
    obtain ⟨i3, j3⟩ := hpost hf
    exact ⟨i3, (j2.trans j3).mono (by intro q e; rcases e with e | e <;> exact e)⟩

theorem connectPict2Src_good {s : Struct} (g : GraphOk s) (o : Oracle) (d : Dyn) (p : Pid) (n : SrcName) :
    Good s noEx d (connectPict2Src s o d p n).1 := by
  unfold connectPict2Src
  split
  · exact Good.refl _ _ _
  · rename_i hcont
    have hp : p ∈ s.storage := by simpa [Struct.contains] using hcont
    cases hx : d.source n with
    | none => exact Good.refl _ _ _
    | some x =>
      dsimp only
      split
      · exact updateSync_good g o _ d p
      · rename_i hne
        split
        · exact Good.refl _ _ _
        · rename_i h2p
          split
          · exact Good.refl _ _ _
          · rename_i hopen
            have hxo : x.opened = true := by simpa using hopen
            have hpn : (d.handle p).src ≠ some n := by simpa using hne
            have h2p' : src2pid s d n = none := by
              cases hh : src2pid s d n with
              | none => rfl
              | some _ => rw [hh] at h2p; simp at h2p
            have hfree0 : DInv s d → FreeDoc s d n := by
              intro h
              refine ⟨?_, x, hx, hxo⟩
              intro q hq e
              cases hqs : (d.handle q).src with
              | some m =>
                rw [Handle.ed_of_src hqs] at e
                injection e with e; subst e
                exact src2pid_none h2p' q hq hqs
              | none =>
                rw [Handle.ed_of_none hqs] at e
                have := (h.h.detached q hq (by simp) hqs n e x hx).1
                rw [hxo] at this; cases this
            have g1 := announce_good g o (fuelOf d) d n
            have r1 := (reactions_rel s o g.childOp (fuelOf d)).1 d n
            cases hsrc : (d.handle p).src with
            | none =>
              dsimp only
              exact connect_tail g o d _ p n hp g1 (fun h _ => (hfree0 h).of_rel0 r1.r0)
            | some old =>
              dsimp only
              have hon : old ≠ n := by rintro rfl; exact hpn hsrc
              generalize announce s o (fuelOf d) d n = d1 at g1 r1
              apply connect_tail g o d _ p n hp (g1.trans0 (mgrClose_good g o d1 old))
              intro h hf
              unfold mgrClose at hf ⊢
              have ga := announce_good g o (fuelOf d1) d1 old
              have ra := (reactions_rel s o g.childOp (fuelOf d1)).1 d1 old
              generalize announce s o (fuelOf d1) d1 old = da at ga ra hf
              have hfa : da.fault = none := (evClose_good s da old).fault hf
              have hf1 : d1.fault = none := ga.fault hfa
              exact (((hfree0 h).of_rel0 r1.r0).of_rel0 ra.r0).evClose (ga.post (g1.post h hf1).1 hfa).1 hon

/-! ## operands stay what they were read as -/

/-- pictogram `q` keeps its attached document, the document its content; the announced content can
only move to the content -/
def Keep (q : Pid) (d d' : Dyn) : Prop :=
  ∀ n, (d.handle q).src = some n → (d'.handle q).src = some n ∧
    ∀ x, d.source n = some x → ∃ x', d'.source n = some x' ∧ x'.content = x.content ∧
      (x'.announced = x.announced ∨ x'.announced = x.content)

theorem Keep.refl (q : Pid) (d : Dyn) : Keep q d d := fun _ h => ⟨h, fun x hx => ⟨x, hx, rfl, Or.inl rfl⟩⟩

theorem Keep.trans {q : Pid} {a b c : Dyn} (h1 : Keep q a b) (h2 : Keep q b c) : Keep q a c := by
  intro n hn
  obtain ⟨s1, d1⟩ := h1 n hn
  obtain ⟨s2, d2⟩ := h2 n s1
  refine ⟨s2, fun x hx => ?_⟩
  obtain ⟨x', hx', c1, a1⟩ := d1 x hx
  obtain ⟨x'', hx'', c2, a2⟩ := d2 x' hx'
  refine ⟨x'', hx'', c2.trans c1, ?_⟩
  rcases a2 with a2 | a2
  · rcases a1 with a1 | a1
    · exact Or.inl (a2.trans a1)
    · exact Or.inr (a2.trans a1)
  · exact Or.inr (a2.trans c1)

theorem Keep.of_rel0 {q : Pid} {d d' : Dyn} (r : Rel0 d d') : Keep q d d' := by
  intro n hn
  refine ⟨r.frame.src q n hn, fun x hx => ?_⟩
  obtain ⟨x', hx', c, _, _, a⟩ := r.docs n x hx
  exact ⟨x', hx', c, a⟩

theorem Keep.of_eq {q : Pid} {d d' : Dyn} (hh : d'.handle q = d.handle q) (hs : ∀ n, d'.source n = d.source n) : Keep q d d' := by
  intro n hn
  exact ⟨by rw [hh]; exact hn, fun x hx => ⟨x, by rw [hs]; exact hx, rfl, Or.inl rfl⟩⟩

theorem Keep.evClose {s : Struct} {d : Dyn} {q : Pid} {m : SrcName} (hd : d.dnd = 0) (_hq : q ∈ s.storage)
    (hne : (d.handle q).src ≠ some m) : Keep q d (evClose s d m) := by
  intro n hn
  have h2p : src2pid s d m ≠ some q := by
    intro e
    exact hne (src2pid_some e).2
  have hnm : n ≠ m := by rintro rfl; exact hne hn
  refine ⟨by rw [evClose_handle_ne s d m hd q h2p]; exact hn, fun x hx => ⟨x, ?_, rfl, Or.inl rfl⟩⟩
  rw [evClose_source s d m hd, if_neg hnm]; exact hx

/-- the operand `q` was read with content `c`: attached, the document holds `c`, the handle's hash is `c` -/
def SyncC (q : Pid) (c : Content) (d : Dyn) : Prop :=
  ∃ n, (d.handle q).src = some n ∧ (d.source n).map (·.content) = some c ∧ (d.handle q).coreHash = c

theorem SyncC.keep {s : Struct} {q : Pid} {c : Content} {d d' : Dyn} (h : SyncC q c d) (hq : q ∈ s.storage)
    (hi : HInv s none d) (k : Keep q d d') (hi' : HInv s none d') : SyncC q c d' := by
  obtain ⟨n, hn, hc, hh⟩ := h
  obtain ⟨hn', hd⟩ := k n hn
  obtain ⟨x, hx, _, hxh⟩ := hi.conn q hq (by simp) n hn
  obtain ⟨x', hx', hc', ha⟩ := hd x hx
  obtain ⟨y, hy, _, hyh⟩ := hi'.conn q hq (by simp) n hn'
  rw [hx'] at hy; injection hy with hy; subst hy
  have hxc : x.content = c := by rw [hx] at hc; simpa using hc
  refine ⟨n, hn', by rw [hx']; simp [hc', hxc], ?_⟩
  rw [hyh]
  rcases ha with ha | ha
  · rw [ha, ← hxh, hh]
  · rw [ha, hxc]

/-! ## `Discard` -/

theorem discard_eq (s : Struct) (o : Oracle) (d : Dyn) (p : Pid) :
    discard s o d p =
      if !s.contains p then d
      else if ((updateSync s o (fuelOf d) d p).handle p).empty then updateSync s o (fuelOf d) d p
      else match ((updateSync s o (fuelOf d) d p).handle p).desc.bind (updateSync s o (fuelOf d) d p).source with
        | some x => if x.opened then mgrClose s o ((updateSync s o (fuelOf d) d p).setHandle p {}) x.name
                    else (updateSync s o (fuelOf d) d p).setHandle p {}
        | none => (updateSync s o (fuelOf d) d p).setHandle p {} := by
  unfold discard
  split
  · rfl
  · dsimp only
    split
    · rfl
    · rfl

/-- clearing the handle of `p` (`DiscardSrc`) -/
theorem clear_spec {s : Struct} (d : Dyn) (p : Pid) (h : DInv s d) :
    DInv s (d.setHandle p {}) ∧ JRel s (exOnly p) d (d.setHandle p {}) := by
  refine ⟨⟨h.dnd, ?_, ?_⟩, ⟨fun _ e => e, fun _ => rfl, ?_⟩⟩
  · apply h.h.setHandleGen
    · intro _ _ e; exact e
    · intro _ _ n hn; cases hn
    · intro _ _ _ n hn; cases hn
    · intro _ n hn; cases hn
  · intro q hq n hn
    rw [Dyn.handle_setHandle] at hn ⊢
    split at hn
    · cases hn
    · rename_i e; simp only [if_neg e]; exact h.c2 q hq n hn
  · intro q hq
    have : q ≠ p := hq
    left
    rw [Dyn.handle_setHandle, if_neg this]
    exact ⟨rfl, id⟩

/-- `Discard(p)`: the invariant is kept, the children of `p` are exempt afterwards; either nothing was
there to discard or the handle of `p` is empty with hash 0; the other attached pictograms keep their
documents -/
theorem discard_spec {s : Struct} (g : GraphOk s) (o : Oracle) (d : Dyn) (p : Pid) :
    Good s (exOnly p) d (discard s o d p) ∧
    (DInv s d → (discard s o d p).fault = none →
      (JRel s noEx d (discard s o d p) ∨ (discard s o d p).handle p = {}) ∧
      ∀ q ∈ s.storage, q ≠ p → Keep q d (discard s o d p)) := by
  rw [discard_eq]
  split
  · exact ⟨Good.refl _ _ _, fun _ _ => ⟨Or.inl (JRel.refl _ _ _), fun q _ _ => Keep.refl q d⟩⟩
  · rename_i hcont
    have hpst : p ∈ s.storage := by simpa [Struct.contains] using hcont
    have g1 := updateSync_good g o (fuelOf d) d p
    have r1 := (reactions_rel s o g.childOp (fuelOf d)).2.2.2.1 d p
    generalize updateSync s o (fuelOf d) d p = d1 at g1 r1
    split
    · refine ⟨g1.mono (fun _ e => e.elim), fun h hf => ⟨Or.inl (g1.post h hf).2, fun q _ _ => Keep.of_rel0 r1.r0⟩⟩
    · rename_i hne
      -- the handle is cleared
      have gc : Good s (exOnly p) d1 (d1.setHandle p {}) := ⟨id, fun h _ => clear_spec d1 p h⟩
      have kc : ∀ q, q ≠ p → Keep q d1 (d1.setHandle p {}) := by
        intro q hq; exact Keep.of_eq (by simp [hq]) (fun _ => rfl)
      cases hb : (d1.handle p).desc.bind d1.source with
      | none =>
        dsimp only
        refine ⟨g1.trans0 gc, fun h hf => ⟨Or.inr (by simp), fun q _ hq => (Keep.of_rel0 r1.r0).trans (kc q hq)⟩⟩
      | some x =>
        dsimp only
        split
        · -- the document is closed through the manager
          obtain ⟨m, hdesc, hm⟩ := Option.bind_eq_some_iff.1 hb
          have hn := Dyn.source_name hm
          have gm := mgrClose_good g o (d1.setHandle p {}) x.name
          refine ⟨(g1.trans0 gc).trans0' gm, fun h hf => ?_⟩
          have hf2 : (d1.setHandle p {}).fault = none := gm.fault hf
          have hf1 : d1.fault = none := hf2
          obtain ⟨i1, _⟩ := g1.post h hf1
          obtain ⟨i2, _⟩ := clear_spec (s := s) d1 p i1
          unfold mgrClose at hf ⊢
          have ga := announce_good g o (fuelOf (d1.setHandle p {})) (d1.setHandle p {}) x.name
          have ra := (reactions_rel s o g.childOp (fuelOf (d1.setHandle p {}))).1 (d1.setHandle p {}) x.name
          generalize announce s o (fuelOf (d1.setHandle p {})) (d1.setHandle p {}) x.name = da at ga ra hf
          have hfa : da.fault = none := (evClose_good s da x.name).fault hf
          obtain ⟨ia, _⟩ := ga.post i2 hfa
          -- the handle of `p` stays empty
          have hpa : da.handle p = {} := by
            rcases ra.synced p with e | ⟨k, e1, _⟩
            · rw [e]; simp
            · have := ra.r0.ed p
              rw [Handle.ed_of_src e1] at this
              simp at this
          constructor
          · right
            rw [evClose_handle_ne s da x.name ia.dnd p, hpa]
            intro e
            have := (src2pid_some e).2
            rw [hpa] at this; cases this
          · intro q hq hqp
            -- `q` stands for another document than the one that is closed
            have hedp : (d1.handle p).ed = some m := by
              cases hps : (d1.handle p).src with
              | none => rw [Handle.ed_of_none hps]; exact hdesc
              | some k =>
                have := i1.c2 p hpst k hps
                rw [hdesc] at this; injection this with this; subst this
                exact Handle.ed_of_src hps
            have hqm : (da.handle q).src ≠ some x.name := by
              intro e
              have e1 : (da.handle q).ed = some m := by rw [Handle.ed_of_src e, hn]
              rw [ra.r0.ed q, Dyn.handle_setHandle, if_neg hqp] at e1
              exact hqp (i1.h.uniq q hq p hpst m e1 hedp)
            exact (((Keep.of_rel0 r1.r0).trans (kc q hqp)).trans (Keep.of_rel0 ra.r0)).trans (Keep.evClose ia.dnd hq hqm)
        · refine ⟨g1.trans0 gc, fun h hf => ⟨Or.inr (by simp), fun q _ hq => (Keep.of_rel0 r1.r0).trans (kc q hq)⟩⟩

end CCVerif.Oss
