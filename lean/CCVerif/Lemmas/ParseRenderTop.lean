import CCVerif.Lemmas.ParseRenderClaim
/-!
Helper development for `parse_renders_parens` (C06), part B: top level (`parseToks` on the token sequence of a rendering
`R3`: `expression`, `SemanticCheck`, `CreateSyntaxTree` - which removes the bracket nodes of required and redundant
pairs alike) and the bracket tables. `Lemmas/ParsePrint3Top.lean` re-done over `R3` with the new case `par`.
-/
namespace CCVerif.PR
open CCVerif.Syntax CCVerif.Generated CCVerif.Lexer CCVerif.Parser CCVerif.Printer CCVerif.PP

/-! ## top level -/

/-- token kinds that never occur in the token sequence of a fragment phrase and that `parseToks` / `expression`
look for -/
def fragTok2 (t : Tok) : Bool := !(t == .END || t == .INTERRUPT || t == .PUNC_DEFINE || t == .PUNC_STRUCT)

def allF (ts : Toks) : Bool := ts.all fun t => fragTok2 t.id

theorem allF_append (a b : Toks) : allF (a ++ b) = (allF a && allF b) := by simp [allF]
theorem allF_cons (t : LTok) (b : Toks) : allF (t :: b) = (fragTok2 t.id && allF b) := by simp [allF]
theorem allF_nil : allF [] = true := rfl
theorem allF_wrap (b : Bool) (ts : Toks) : allF (wrap b ts) = allF ts := by
  cases b
  · rfl
  · simp only [wrap, if_true, allF_cons, allF_append, allF_nil]
    have : fragTok2 (tk Tok.PUNC_PL).id = true := rfl
    have h2 : fragTok2 (tk Tok.PUNC_PR).id = true := rfl
    simp [this, h2]

theorem fragTok2_of (t : Tok) (d : TokData)
    (h : (isAtomId t || isTextFn t || isSetOp7 t || isPredOp t || isLogicOp t || t == .FORALL || t == .EXISTS) = true) :
    fragTok2 (tk t d).id = true := by
  show fragTok2 t = true
  cases t <;> first | rfl | (revert h; decide)

theorem toks_frag2 : ∀ e : R3, e.wf = true → allF e.toks = true
  | .atom id d, hw => by
    simp only [R3.wf] at hw
    simp [R3.toks, allF_cons, allF_nil, fragTok2_of id d (by simp [hw])]
  | .text f d a, hw => by
    simp only [R3.wf, Bool.and_eq_true] at hw
    have h1 : fragTok2 (tk Tok.PUNC_PL).id = true := rfl
    have h2 : fragTok2 (tk Tok.PUNC_PR).id = true := rfl
    simp [R3.toks, allF_cons, allF_append, allF_nil, fragTok2_of f d (by simp [hw.1.1]), toks_frag2 a hw.2, h1, h2]
  | .sbin op l r, hw => by
    simp only [R3.wf, Bool.and_eq_true] at hw
    simp [R3.toks, allF_cons, allF_append, allF_wrap, fragTok2_of op .none (by simp [hw.1.1.1.1]), toks_frag2 l hw.1.2,
      toks_frag2 r hw.2]
  | .prod2 a b, hw => by
    simp only [R3.wf, Bool.and_eq_true] at hw
    have h1 : fragTok2 (tk Tok.DECART).id = true := rfl
    simp [R3.toks, allF_cons, allF_append, allF_wrap, h1, toks_frag2 a hw.1.2, toks_frag2 b hw.2]
  | .prodN p k, hw => by
    simp only [R3.wf, Bool.and_eq_true] at hw
    have h1 : fragTok2 (tk Tok.DECART).id = true := rfl
    simp [R3.toks, allF_cons, allF_append, allF_wrap, h1, toks_frag2 p hw.1.2, toks_frag2 k hw.2]
  | .pred op l r, hw => by
    simp only [R3.wf, Bool.and_eq_true] at hw
    simp [R3.toks, allF_cons, allF_append, fragTok2_of op .none (by simp [hw.1.1.1.1]), toks_frag2 l hw.1.2,
      toks_frag2 r hw.2]
  | .neg x, hw => by
    simp only [R3.wf, Bool.and_eq_true] at hw
    have h1 : fragTok2 (tk Tok.NOT).id = true := rfl
    simp [R3.toks, allF_cons, allF_wrap, h1, toks_frag2 x hw.2]
  | .lbin op l r, hw => by
    simp only [R3.wf, Bool.and_eq_true] at hw
    simp [R3.toks, allF_cons, allF_append, allF_wrap, fragTok2_of op .none (by simp [hw.1.1.1.1]), toks_frag2 l hw.1.2,
      toks_frag2 r hw.2]
  | .pow a, hw => by
    simp only [R3.wf, Bool.and_eq_true] at hw
    have h0 : fragTok2 (tk Tok.BOOLEAN).id = true := rfl
    have h1 : fragTok2 (tk Tok.PUNC_PL).id = true := rfl
    have h2 : fragTok2 (tk Tok.PUNC_PR).id = true := rfl
    simp only [R3.toks]; split <;> simp [allF_cons, allF_append, allF_nil, h0, h1, h2, toks_frag2 a hw.2]
  | .one a, hw => by
    simp only [R3.wf, Bool.and_eq_true] at hw
    exact toks_frag2 a hw.2
  | .more a l, hw => by
    simp only [R3.wf, Bool.and_eq_true] at hw
    have h0 : fragTok2 (tk Tok.PUNC_COMMA).id = true := rfl
    simp [R3.toks, allF_cons, allF_append, h0, toks_frag2 a hw.1.2, toks_frag2 l hw.2]
  | .enum l, hw => by
    simp only [R3.wf, Bool.and_eq_true] at hw
    have h1 : fragTok2 (tk Tok.PUNC_CL).id = true := rfl
    have h2 : fragTok2 (tk Tok.PUNC_CR).id = true := rfl
    simp [R3.toks, allF_cons, allF_append, allF_nil, h1, h2, toks_frag2 l hw.2]
  | .tuple a l, hw => by
    simp only [R3.wf, Bool.and_eq_true] at hw
    have h0 : fragTok2 (tk Tok.PUNC_COMMA).id = true := rfl
    have h1 : fragTok2 (tk Tok.PUNC_PL).id = true := rfl
    have h2 : fragTok2 (tk Tok.PUNC_PR).id = true := rfl
    simp [R3.toks, allF_cons, allF_append, allF_nil, h0, h1, h2, toks_frag2 a hw.1.2, toks_frag2 l hw.2]
  | .fcall d l, hw => by
    simp only [R3.wf, Bool.and_eq_true] at hw
    have h0 : fragTok2 (tk Tok.ID_FUNCTION d).id = true := rfl
    have h1 : fragTok2 (tk Tok.PUNC_SL).id = true := rfl
    have h2 : fragTok2 (tk Tok.PUNC_SR).id = true := rfl
    simp [R3.toks, allF_cons, allF_append, allF_nil, h0, h1, h2, toks_frag2 l hw.2]
  | .pcall d l, hw => by
    simp only [R3.wf, Bool.and_eq_true] at hw
    have h0 : fragTok2 (tk Tok.ID_PREDICATE d).id = true := rfl
    have h1 : fragTok2 (tk Tok.PUNC_SL).id = true := rfl
    have h2 : fragTok2 (tk Tok.PUNC_SR).id = true := rfl
    simp [R3.toks, allF_cons, allF_append, allF_nil, h0, h1, h2, toks_frag2 l hw.2]
  | .filter d ps a, hw => by
    simp only [R3.wf, Bool.and_eq_true] at hw
    have h0 : fragTok2 (tk Tok.FILTER d).id = true := rfl
    have h1 : fragTok2 (tk Tok.PUNC_SL).id = true := rfl
    have h2 : fragTok2 (tk Tok.PUNC_SR).id = true := rfl
    have h3 : fragTok2 (tk Tok.PUNC_PL).id = true := rfl
    have h4 : fragTok2 (tk Tok.PUNC_PR).id = true := rfl
    simp [R3.toks, allF_cons, allF_append, allF_nil, h0, h1, h2, h3, h4, toks_frag2 ps hw.1.2, toks_frag2 a hw.2]
  | .quant q vs dm b, hw => by
    simp only [R3.wf, Bool.and_eq_true] at hw
    have h0 : fragTok2 (tk Tok.IN).id = true := rfl
    have hq : fragTok2 (tk q).id = true := fragTok2_of q .none (by
      have := hw.1.1.1.1.1.1.1; simp only [Bool.or_eq_true] at this ⊢; rcases this with h | h <;> simp [h])
    simp [R3.toks, allF_cons, allF_append, allF_wrap, h0, hq, toks_frag2 vs hw.1.1.2, toks_frag2 dm hw.1.2,
      toks_frag2 b hw.2]
  | .decl v dm b, hw => by
    simp only [R3.wf, Bool.and_eq_true] at hw
    have h0 : fragTok2 (tk Tok.IN).id = true := rfl
    have h1 : fragTok2 (tk Tok.DECLARATIVE).id = true := rfl
    have h2 : fragTok2 (tk Tok.PUNC_CL).id = true := rfl
    have h3 : fragTok2 (tk Tok.PUNC_CR).id = true := rfl
    have h4 : fragTok2 (tk Tok.PUNC_BAR).id = true := rfl
    simp [R3.toks, allF_cons, allF_append, allF_nil, h0, h1, h2, h3, h4, toks_frag2 v hw.1.1.2, toks_frag2 dm hw.1.2,
      toks_frag2 b hw.2]
  | .recS v d s, hw => by
    simp only [R3.wf, Bool.and_eq_true] at hw
    have h0 : fragTok2 (tk Tok.ASSIGN).id = true := rfl
    have h1 : fragTok2 (tk Tok.RECURSIVE).id = true := rfl
    have h2 : fragTok2 (tk Tok.PUNC_CL).id = true := rfl
    have h3 : fragTok2 (tk Tok.PUNC_CR).id = true := rfl
    have h4 : fragTok2 (tk Tok.PUNC_BAR).id = true := rfl
    simp [R3.toks, allF_cons, allF_append, allF_nil, h0, h1, h2, h3, h4, toks_frag2 v hw.1.1.2, toks_frag2 d hw.1.2,
      toks_frag2 s hw.2]
  | .recF v d c s, hw => by
    simp only [R3.wf, Bool.and_eq_true] at hw
    have h0 : fragTok2 (tk Tok.ASSIGN).id = true := rfl
    have h1 : fragTok2 (tk Tok.RECURSIVE).id = true := rfl
    have h2 : fragTok2 (tk Tok.PUNC_CL).id = true := rfl
    have h3 : fragTok2 (tk Tok.PUNC_CR).id = true := rfl
    have h4 : fragTok2 (tk Tok.PUNC_BAR).id = true := rfl
    simp [R3.toks, allF_cons, allF_append, allF_nil, h0, h1, h2, h3, h4, toks_frag2 v hw.1.1.1.2, toks_frag2 d hw.1.1.2,
      toks_frag2 c hw.1.2, toks_frag2 s hw.2]
  | .imp val bs, hw => by
    simp only [R3.wf, Bool.and_eq_true] at hw
    have h1 : fragTok2 (tk Tok.IMPERATIVE).id = true := rfl
    have h2 : fragTok2 (tk Tok.PUNC_CL).id = true := rfl
    have h3 : fragTok2 (tk Tok.PUNC_CR).id = true := rfl
    have h4 : fragTok2 (tk Tok.PUNC_BAR).id = true := rfl
    simp [R3.toks, allF_cons, allF_append, allF_nil, h1, h2, h3, h4, toks_frag2 val hw.1.2, toks_frag2 bs hw.2]
  | .bone b, hw => by
    simp only [R3.wf, Bool.and_eq_true] at hw
    exact toks_frag2 b hw.2
  | .boneK op v s, hw => by
    simp only [R3.wf, Bool.and_eq_true] at hw
    have h0 : fragTok2 (tk op).id = true := (blkOp_facts op hw.1.1.1.1.1).2.2.2.2
    simp [R3.toks, allF_cons, allF_append, h0, toks_frag2 v hw.1.2, toks_frag2 s hw.2]
  | .bmore b l, hw => by
    simp only [R3.wf, Bool.and_eq_true] at hw
    have h0 : fragTok2 (tk Tok.PUNC_SEMICOLON).id = true := rfl
    simp [R3.toks, allF_cons, allF_append, h0, toks_frag2 b hw.1.2, toks_frag2 l hw.2]
  | .bmoreK op v s l, hw => by
    simp only [R3.wf, Bool.and_eq_true] at hw
    have h0 : fragTok2 (tk op).id = true := (blkOp_facts op hw.1.1.1.1.1.1.1).2.2.2.2
    have h1 : fragTok2 (tk Tok.PUNC_SEMICOLON).id = true := rfl
    simp [R3.toks, allF_cons, allF_append, h0, h1, toks_frag2 v hw.1.1.2, toks_frag2 s hw.1.2, toks_frag2 l hw.2]
  | .par a, hw => by
    simp only [R3.wf, Bool.and_eq_true] at hw
    have h1 : fragTok2 (tk Tok.PUNC_PL).id = true := rfl
    have h2 : fragTok2 (tk Tok.PUNC_PR).id = true := rfl
    simp [R3.toks, allF_cons, allF_append, allF_nil, toks_frag2 a hw.2, h1, h2]

theorem sz_le_toks2 : ∀ e : R3, e.sz ≤ 16 * e.toks.length ∧ 1 ≤ e.toks.length
  | .atom .. => by simp [R3.sz, R3.toks]
  | .text _ _ a => by have := sz_le_toks2 a; simp [R3.sz, R3.toks]; omega
  | .sbin op l r => by
    have := sz_le_toks2 l; have := sz_le_toks2 r
    have := wrap_length (brSet op l.top .left) l.toks; have := wrap_length (brSet op r.top .right) r.toks
    simp only [R3.sz, R3.toks, List.length_append, List.length_cons]; omega
  | .prod2 a b => by
    have := sz_le_toks2 a; have := sz_le_toks2 b
    have := wrap_length (brProd true a.top) a.toks; have := wrap_length (brProd false b.top) b.toks
    simp only [R3.sz, R3.toks, List.length_append, List.length_cons]; omega
  | .prodN p k => by
    have := sz_le_toks2 p; have := sz_le_toks2 k
    have := wrap_length (brProd false k.top) k.toks
    simp only [R3.sz, R3.toks, List.length_append, List.length_cons]; omega
  | .pred _ l r => by
    have := sz_le_toks2 l; have := sz_le_toks2 r
    simp only [R3.sz, R3.toks, List.length_append, List.length_cons]; omega
  | .neg x => by
    have := sz_le_toks2 x; have := wrap_length (brNot x.top) x.toks
    simp only [R3.sz, R3.toks, List.length_cons]; omega
  | .lbin op l r => by
    have := sz_le_toks2 l; have := sz_le_toks2 r
    have := wrap_length (brLogic op l.top .left) l.toks; have := wrap_length (brLogic op r.top .right) r.toks
    simp only [R3.sz, R3.toks, List.length_append, List.length_cons]; omega
  | .pow a => by
    have := sz_le_toks2 a
    simp only [R3.sz, R3.toks]; split <;> simp only [List.length_append, List.length_cons, List.length_nil] <;> omega
  | .one a => by have := sz_le_toks2 a; simp only [R3.sz, R3.toks]; omega
  | .more a l => by
    have := sz_le_toks2 a; have := sz_le_toks2 l
    simp only [R3.sz, R3.toks, List.length_append, List.length_cons]; omega
  | .enum l => by
    have := sz_le_toks2 l
    simp only [R3.sz, R3.toks, List.length_append, List.length_cons, List.length_nil]; omega
  | .tuple a l => by
    have := sz_le_toks2 a; have := sz_le_toks2 l
    simp only [R3.sz, R3.toks, List.length_append, List.length_cons, List.length_nil]; omega
  | .fcall _ l => by
    have := sz_le_toks2 l
    simp only [R3.sz, R3.toks, List.length_append, List.length_cons, List.length_nil]; omega
  | .pcall _ l => by
    have := sz_le_toks2 l
    simp only [R3.sz, R3.toks, List.length_append, List.length_cons, List.length_nil]; omega
  | .filter _ ps a => by
    have := sz_le_toks2 ps; have := sz_le_toks2 a
    simp only [R3.sz, R3.toks, List.length_append, List.length_cons, List.length_nil]; omega
  | .quant q vs dm b => by
    have := sz_le_toks2 vs; have := sz_le_toks2 dm; have := sz_le_toks2 b
    have := wrap_length (brQ q b.top) b.toks
    simp only [R3.sz, R3.toks, List.length_append, List.length_cons]; omega
  | .decl v dm b => by
    have := sz_le_toks2 v; have := sz_le_toks2 dm; have := sz_le_toks2 b
    simp only [R3.sz, R3.toks, List.length_append, List.length_cons, List.length_nil]; omega
  | .recS v d s => by
    have := sz_le_toks2 v; have := sz_le_toks2 d; have := sz_le_toks2 s
    simp only [R3.sz, R3.toks, List.length_append, List.length_cons, List.length_nil]; omega
  | .recF v d c s => by
    have := sz_le_toks2 v; have := sz_le_toks2 d; have := sz_le_toks2 c; have := sz_le_toks2 s
    simp only [R3.sz, R3.toks, List.length_append, List.length_cons, List.length_nil]; omega
  | .imp v b => by
    have := sz_le_toks2 v; have := sz_le_toks2 b
    simp only [R3.sz, R3.toks, List.length_append, List.length_cons, List.length_nil]; omega
  | .bone b => by have := sz_le_toks2 b; simp only [R3.sz, R3.toks]; omega
  | .boneK _ v s => by
    have := sz_le_toks2 v; have := sz_le_toks2 s
    simp only [R3.sz, R3.toks, List.length_append, List.length_cons]; omega
  | .bmore b l => by
    have := sz_le_toks2 b; have := sz_le_toks2 l
    simp only [R3.sz, R3.toks, List.length_append, List.length_cons]; omega
  | .bmoreK _ v s l => by
    have := sz_le_toks2 v; have := sz_le_toks2 s; have := sz_le_toks2 l
    simp only [R3.sz, R3.toks, List.length_append, List.length_cons]; omega
  | .par a => by
    have := sz_le_toks2 a
    simp only [R3.sz, R3.toks, List.length_append, List.length_cons, List.length_nil]; omega

/-- the whole phrase at the top of `logic_or_setexpr` -/
theorem logE_top2 (e : R3) (hw : e.wf = true) (hok : e.ok = true) (hSL : e.isS = true ∨ e.isL = true)
    (hP : e.isL = true → e.isPar = false) (F : Nat)
    (hF : 2 * e.sz + 4 ≤ F) :
    logE F 0 e.toks = some (e.kind, e.raw, []) ∧ (e.kind.isLogic || e.kind.isSet) = true := by
  have hnil : e.toks = e.toks ++ [] := by simp
  have c := claim e hw hok
  rcases hSL with hS | hL
  · obtain ⟨g, hg⟩ : ∃ g, F = g + 1 + 1 := ⟨F - 2, by omega⟩
    subst hg
    have h1 := setDone2 (c.set hS) g 0 [] (by omega) (Nat.zero_le _) (fun t r e => by cases e)
    refine ⟨?_, by rw [kind_isSet2 hS]; simp⟩
    rw [hnil, logE_succ, predE_pass_nil g _ _ _ h1]
    exact logLoop_nil g 0 _ _
  · refine ⟨?_, by rw [(kindL_logicAll2 hL).2.2 (hP hL)]; rfl⟩
    rw [hnil]
    exact logDone2 (c.log hL) F 0 [] (by omega) (Nat.zero_le _) endOK2_nil (fun t r e => by cases e)

/-- token kinds of the nodes of a fragment tree: never `:=`, `:∈`, never a bracket node -/
def nodeTok2 (t : Tok) : Bool := !(t == .ASSIGN || t == .ITERATE || t == .PUNC_PL)

theorem nodeTok2_facts (t : Tok) (h : nodeTok2 t = true) :
    (t == .PUNC_PL) = false ∧ (t == .ASSIGN || t == .ITERATE) = false := by
  cases t <;> first | exact ⟨rfl, rfl⟩ | (revert h; decide)

theorem nodeTok2_of (t : Tok)
    (h : (isAtomId t || isTextFn t || isSetOp7 t || isPredOp t || isLogicOp t || t == .FORALL || t == .EXISTS) = true) :
    nodeTok2 t = true := by
  cases t <;> first | rfl | (revert h; decide)

theorem top_nodeTok2 : ∀ e : R3, e.wf = true → e.isPar = false → nodeTok2 e.top = true
  | .atom id d, hw, _ => by simp only [R3.wf] at hw; exact nodeTok2_of id (by simp [hw])
  | .text f d a, hw, _ => by simp only [R3.wf, Bool.and_eq_true] at hw; exact nodeTok2_of f (by simp [hw.1.1])
  | .sbin op l r, hw, _ => by simp only [R3.wf, Bool.and_eq_true] at hw; exact nodeTok2_of op (by simp [hw.1.1.1.1])
  | .pred op l r, hw, _ => by simp only [R3.wf, Bool.and_eq_true] at hw; exact nodeTok2_of op (by simp [hw.1.1.1.1])
  | .lbin op l r, hw, _ => by simp only [R3.wf, Bool.and_eq_true] at hw; exact nodeTok2_of op (by simp [hw.1.1.1.1])
  | .quant q vs dm b, hw, _ => by
    simp only [R3.wf, Bool.and_eq_true] at hw
    exact nodeTok2_of q (by
      have := hw.1.1.1.1.1.1.1; simp only [Bool.or_eq_true] at this ⊢; rcases this with h | h <;> simp [h])
  | .prod2 .., _, _ | .prodN .., _, _ | .neg _, _, _ | .pow _, _, _ | .one _, _, _ | .more .., _, _ | .enum _, _, _
  | .tuple .., _, _ | .fcall .., _, _ | .pcall .., _, _ | .filter .., _, _ | .decl .., _, _ | .recS .., _, _
  | .recF .., _, _ | .imp .., _, _ | .bone _, _, _ | .boneK .., _, _ | .bmore .., _, _ | .bmoreK .., _, _ => rfl
  | .par _, _, h => by simp [R3.isPar] at h

theorem semantic_node2 (id : Tok) (d : TokData) (kids : List Ast) (p : Option Tok) (h : nodeTok2 id = true)
    (hk : semanticCheckList (some id) kids = true) : semanticCheck p (.node id d 0 0 kids) = true := by
  rw [semanticCheck]; simp [(nodeTok2_facts id h).2, hk]

theorem semList_cons (q : Option Tok) (x : Ast) (xs : List Ast) (h1 : semanticCheck q x = true)
    (h2 : semanticCheckList q xs = true) : semanticCheckList q (x :: xs) = true := by
  rw [semanticCheckList, h1, h2]; rfl

theorem semList_nil (q : Option Tok) : semanticCheckList q [] = true := by rw [semanticCheckList]

theorem semList_one (q : Option Tok) (x : Ast) (h1 : semanticCheck q x = true) : semanticCheckList q [x] = true :=
  semList_cons q x [] h1 (semList_nil q)

theorem semantic_kids2 (id : Tok) (d : TokData) (kids : List Ast) (p : Option Tok)
    (h : semanticCheck p (.node id d 0 0 kids) = true) : semanticCheckList (some id) kids = true := by
  rw [semanticCheck] at h
  simp only [Bool.and_eq_true] at h
  exact h.2

/-- declaration trees pass `SemanticCheck` -/
theorem semantic_dast : ∀ e : R3, e.wf = true →
    (∀ p, semanticCheck p e.dast = true) ∧ (∀ q, semanticCheckList q e.dast.kids = true)
  | .atom id d, hw => by
    have hn := top_nodeTok2 _ hw rfl
    exact ⟨fun p => semantic_node2 id d [] p hn (semList_nil _), fun q => semList_nil q⟩
  | .tuple a l, hw => by
    simp only [R3.wf, Bool.and_eq_true] at hw
    have ha := semantic_dast a hw.1.2
    have hl := semantic_dast l hw.2
    have hk : ∀ q, semanticCheckList q (a.dast :: l.dast.kids) = true := fun q => semList_cons q _ _ (ha.1 q) (hl.2 q)
    exact ⟨fun p => semantic_node2 .NT_TUPLE_DECL .none _ p rfl (hk _), hk⟩
  | .one a, hw => by
    simp only [R3.wf, Bool.and_eq_true] at hw
    have ha := semantic_dast a hw.2
    have hk : ∀ q, semanticCheckList q [a.dast] = true := fun q => semList_one q _ (ha.1 q)
    exact ⟨fun p => semantic_node2 .PUNC_COMMA .none _ p rfl (hk _), hk⟩
  | .more a l, hw => by
    simp only [R3.wf, Bool.and_eq_true] at hw
    have ha := semantic_dast a hw.1.2
    have hl := semantic_dast l hw.2
    have hk : ∀ q, semanticCheckList q (a.dast :: l.dast.kids) = true := fun q => semList_cons q _ _ (ha.1 q) (hl.2 q)
    exact ⟨fun p => semantic_node2 .PUNC_COMMA .none _ p rfl (hk _), hk⟩
  | .text .., _ | .sbin .., _ | .prod2 .., _ | .prodN .., _ | .pred .., _ | .neg _, _ | .lbin .., _ | .pow _, _
  | .enum _, _ | .fcall .., _ | .pcall .., _ | .filter .., _ | .quant .., _ | .decl .., _ | .recS .., _ | .recF .., _
  | .imp .., _ | .bone _, _ | .boneK .., _ | .bmore .., _ | .bmoreK .., _ | .par _, _ =>
    ⟨fun p => semantic_node2 .PUNC_COMMA .none [] p rfl (semList_nil _), fun q => semList_nil q⟩

theorem semantic_declOf (vs : R3) (hw : vs.wf = true) (p : Option Tok) : semanticCheck p vs.declOf = true := by
  have h := semantic_dast vs hw
  cases vs with
  | one v =>
    simp only [R3.wf, Bool.and_eq_true] at hw
    exact (semantic_dast v hw.2).1 p
  | _ => exact semantic_node2 .NT_ENUM_DECL .none _ p rfl (h.2 _)

/-- an assignment block directly below `I{…}` passes `SemanticCheck` -/
theorem semantic_K (op : Tok) (kids : List Ast) (hk : semanticCheckList (some op) kids = true) :
    semanticCheck (some .NT_IMPERATIVE_EXPR) (.node op .none 0 0 kids) = true := by
  rw [semanticCheck]; simp [hk]; exact Or.inr rfl

theorem raw_B {l : R3} (h : l.isB = true) : l.raw = .node .NT_IMPERATIVE_EXPR .none 0 0 l.raw.kids := by
  cases l <;> simp [R3.isB] at h <;> rfl

theorem ast_B {l : R3} (h : l.isB = true) : l.ast = .node .NT_IMPERATIVE_EXPR .none 0 0 l.ast.kids := by
  cases l <;> simp [R3.isB] at h <;> rfl

theorem sem_B_kids {l : R3} (hB : l.isB = true) (h : semanticCheck none l.raw = true) :
    semanticCheckList (some .NT_IMPERATIVE_EXPR) l.raw.kids = true := by
  rw [raw_B hB] at h; exact semantic_kids2 _ _ _ _ h

/-- the raw tree of a fragment phrase passes `SemanticCheck` (`:=` / `:∈` only directly below `I{…}`); for a list:
every element -/
theorem semantic_raw2 : ∀ (e : R3), e.wf = true →
    (∀ p : Option Tok, semanticCheck p e.raw = true) ∧ (e.isA = true → ∀ q, semanticCheckList q e.raw.kids = true)
  | .atom id d, hw =>
    ⟨fun p => semantic_node2 id d [] p (top_nodeTok2 _ hw rfl) (semList_nil _), fun h => by simp [R3.isA] at h⟩
  | .text f d a, hw => by
    have hn := top_nodeTok2 _ hw rfl
    simp only [R3.wf, Bool.and_eq_true] at hw
    exact ⟨fun p => semantic_node2 f d [a.raw] p hn (semList_one _ _ ((semantic_raw2 a hw.2).1 _)),
      fun h => by simp [R3.isA] at h⟩
  | .sbin op l r, hw => by
    have hn := top_nodeTok2 _ hw rfl
    simp only [R3.wf, Bool.and_eq_true] at hw
    exact ⟨fun p => semantic_node2 op .none _ p hn (semList_cons _ _ _ (semantic_wrap _ _ (semantic_raw2 l hw.1.2).1 _)
      (semList_one _ _ (semantic_wrap _ _ (semantic_raw2 r hw.2).1 _))), fun h => by simp [R3.isA] at h⟩
  | .prod2 a b, hw => by
    simp only [R3.wf, Bool.and_eq_true] at hw
    exact ⟨fun p => semantic_node2 .DECART .none _ p rfl (semList_cons _ _ _ (semantic_wrap _ _ (semantic_raw2 a hw.1.2).1 _)
      (semList_one _ _ (semantic_wrap _ _ (semantic_raw2 b hw.2).1 _))), fun h => by simp [R3.isA] at h⟩
  | .prodN q k, hw => by
    simp only [R3.wf, Bool.and_eq_true] at hw
    refine ⟨fun p => semantic_node2 .DECART .none _ p rfl ?_, fun h => by simp [R3.isA] at h⟩
    have hq := (semantic_raw2 q hw.1.2).1 none
    rw [raw_prod2 hw.1.1.1] at hq
    rw [semanticCheckList_append, semantic_kids2 _ _ _ _ hq,
      semList_one _ _ (semantic_wrap _ _ (semantic_raw2 k hw.2).1 _)]; rfl
  | .pred op l r, hw => by
    have hn := top_nodeTok2 _ hw rfl
    simp only [R3.wf, Bool.and_eq_true] at hw
    exact ⟨fun p => semantic_node2 op .none _ p hn (semList_cons _ _ _ ((semantic_raw2 l hw.1.2).1 _)
      (semList_one _ _ ((semantic_raw2 r hw.2).1 _))), fun h => by simp [R3.isA] at h⟩
  | .neg x, hw => by
    simp only [R3.wf, Bool.and_eq_true] at hw
    exact ⟨fun p => semantic_node2 .NOT .none _ p rfl (semList_one _ _ (semantic_wrap _ _ (semantic_raw2 x hw.2).1 _)),
      fun h => by simp [R3.isA] at h⟩
  | .lbin op l r, hw => by
    have hn := top_nodeTok2 _ hw rfl
    simp only [R3.wf, Bool.and_eq_true] at hw
    exact ⟨fun p => semantic_node2 op .none _ p hn (semList_cons _ _ _ (semantic_wrap _ _ (semantic_raw2 l hw.1.2).1 _)
      (semList_one _ _ (semantic_wrap _ _ (semantic_raw2 r hw.2).1 _))), fun h => by simp [R3.isA] at h⟩
  | .pow a, hw => by
    simp only [R3.wf, Bool.and_eq_true] at hw
    exact ⟨fun p => semantic_node2 .BOOLEAN .none [a.raw] p rfl (semList_one _ _ ((semantic_raw2 a hw.2).1 _)),
      fun h => by simp [R3.isA] at h⟩
  | .one a, hw => by
    simp only [R3.wf, Bool.and_eq_true] at hw
    have hk : ∀ q, semanticCheckList q [a.raw] = true := fun q => semList_one q _ ((semantic_raw2 a hw.2).1 q)
    exact ⟨fun p => semantic_node2 .PUNC_COMMA .none _ p rfl (hk _), fun _ => hk⟩
  | .more a l, hw => by
    simp only [R3.wf, Bool.and_eq_true] at hw
    have hk : ∀ q, semanticCheckList q (a.raw :: l.raw.kids) = true := fun q =>
      semList_cons q _ _ ((semantic_raw2 a hw.1.2).1 q) ((semantic_raw2 l hw.2).2 hw.1.1.2 q)
    exact ⟨fun p => semantic_node2 .PUNC_COMMA .none _ p rfl (hk _), fun _ => hk⟩
  | .enum l, hw => by
    simp only [R3.wf, Bool.and_eq_true] at hw
    exact ⟨fun p => semantic_node2 .NT_ENUMERATION .none _ p rfl ((semantic_raw2 l hw.2).2 hw.1 _),
      fun h => by simp [R3.isA] at h⟩
  | .tuple a l, hw => by
    simp only [R3.wf, Bool.and_eq_true] at hw
    exact ⟨fun p => semantic_node2 .NT_TUPLE .none _ p rfl
      (semList_cons _ _ _ ((semantic_raw2 a hw.1.2).1 _) ((semantic_raw2 l hw.2).2 hw.1.1.2 _)),
      fun h => by simp [R3.isA] at h⟩
  | .fcall d l, hw => by
    simp only [R3.wf, Bool.and_eq_true] at hw
    exact ⟨fun p => semantic_node2 .NT_FUNC_CALL .none _ p rfl
      (semList_cons _ _ _ (semantic_node2 .ID_FUNCTION d [] _ rfl (semList_nil _)) ((semantic_raw2 l hw.2).2 hw.1 _)),
      fun h => by simp [R3.isA] at h⟩
  | .pcall d l, hw => by
    simp only [R3.wf, Bool.and_eq_true] at hw
    exact ⟨fun p => semantic_node2 .NT_FUNC_CALL .none _ p rfl
      (semList_cons _ _ _ (semantic_node2 .ID_PREDICATE d [] _ rfl (semList_nil _)) ((semantic_raw2 l hw.2).2 hw.1 _)),
      fun h => by simp [R3.isA] at h⟩
  | .filter d ps a, hw => by
    simp only [R3.wf, Bool.and_eq_true] at hw
    refine ⟨fun p => semantic_node2 .FILTER d _ p rfl ?_, fun h => by simp [R3.isA] at h⟩
    rw [semanticCheckList_append, (semantic_raw2 ps hw.1.2).2 hw.1.1.1 _, semList_one _ _ ((semantic_raw2 a hw.2).1 _)]; rfl
  | .quant q vs dm b, hw => by
    have hn := top_nodeTok2 _ hw rfl
    simp only [R3.wf, Bool.and_eq_true] at hw
    exact ⟨fun p => semantic_node2 q .none _ p hn (semList_cons _ _ _ (semantic_declOf vs hw.1.1.2 _)
      (semList_cons _ _ _ ((semantic_raw2 dm hw.1.2).1 _)
        (semList_one _ _ (semantic_wrap _ _ (semantic_raw2 b hw.2).1 _)))), fun h => by simp [R3.isA] at h⟩
  | .decl v dm b, hw => by
    simp only [R3.wf, Bool.and_eq_true] at hw
    exact ⟨fun p => semantic_node2 .NT_DECLARATIVE_EXPR .none _ p rfl (semList_cons _ _ _ ((semantic_dast v hw.1.1.2).1 _)
      (semList_cons _ _ _ ((semantic_raw2 dm hw.1.2).1 _) (semList_one _ _ ((semantic_raw2 b hw.2).1 _)))),
      fun h => by simp [R3.isA] at h⟩
  | .recS v d s, hw => by
    simp only [R3.wf, Bool.and_eq_true] at hw
    exact ⟨fun p => semantic_node2 .NT_RECURSIVE_SHORT .none _ p rfl (semList_cons _ _ _ ((semantic_dast v hw.1.1.2).1 _)
      (semList_cons _ _ _ ((semantic_raw2 d hw.1.2).1 _) (semList_one _ _ ((semantic_raw2 s hw.2).1 _)))),
      fun h => by simp [R3.isA] at h⟩
  | .recF v d c s, hw => by
    simp only [R3.wf, Bool.and_eq_true] at hw
    exact ⟨fun p => semantic_node2 .NT_RECURSIVE_FULL .none _ p rfl (semList_cons _ _ _ ((semantic_dast v hw.1.1.1.2).1 _)
      (semList_cons _ _ _ ((semantic_raw2 d hw.1.1.2).1 _) (semList_cons _ _ _ ((semantic_raw2 c hw.1.2).1 _)
        (semList_one _ _ ((semantic_raw2 s hw.2).1 _))))),
      fun h => by simp [R3.isA] at h⟩
  | .imp val bs, hw => by
    simp only [R3.wf, Bool.and_eq_true] at hw
    exact ⟨fun p => semantic_node2 .NT_IMPERATIVE_EXPR .none _ p rfl (semList_cons _ _ _ ((semantic_raw2 val hw.1.2).1 _)
      (sem_B_kids hw.1.1.2 ((semantic_raw2 bs hw.2).1 none))),
      fun h => by simp [R3.isA] at h⟩
  | .bone b, hw => by
    simp only [R3.wf, Bool.and_eq_true] at hw
    exact ⟨fun p => semantic_node2 .NT_IMPERATIVE_EXPR .none _ p rfl (semList_one _ _ ((semantic_raw2 b hw.2).1 _)),
      fun h => by simp [R3.isA] at h⟩
  | .boneK op v s, hw => by
    simp only [R3.wf, Bool.and_eq_true] at hw
    exact ⟨fun p => semantic_node2 .NT_IMPERATIVE_EXPR .none _ p rfl (semList_one _ _ (semantic_K op _
      (semList_cons _ _ _ ((semantic_dast v hw.1.2).1 _) (semList_one _ _ ((semantic_raw2 s hw.2).1 _))))),
      fun h => by simp [R3.isA] at h⟩
  | .bmore b l, hw => by
    simp only [R3.wf, Bool.and_eq_true] at hw
    exact ⟨fun p => semantic_node2 .NT_IMPERATIVE_EXPR .none _ p rfl (semList_cons _ _ _ ((semantic_raw2 b hw.1.2).1 _)
      (sem_B_kids hw.1.1.2 ((semantic_raw2 l hw.2).1 none))),
      fun h => by simp [R3.isA] at h⟩
  | .bmoreK op v s l, hw => by
    simp only [R3.wf, Bool.and_eq_true] at hw
    exact ⟨fun p => semantic_node2 .NT_IMPERATIVE_EXPR .none _ p rfl (semList_cons _ _ _ (semantic_K op _
      (semList_cons _ _ _ ((semantic_dast v hw.1.1.2).1 _) (semList_one _ _ ((semantic_raw2 s hw.1.2).1 _))))
      (sem_B_kids hw.1.1.1.2 ((semantic_raw2 l hw.2).1 none))),
      fun h => by simp [R3.isA] at h⟩
  | .par a, hw => by
    simp only [R3.wf, Bool.and_eq_true] at hw
    exact ⟨fun p => semantic_wrap true _ (semantic_raw2 a hw.2).1 p, fun h => by simp [R3.isA] at h⟩

theorem strip_node2 (id : Tok) (d : TokData) (kids kids' : List Ast) (h : nodeTok2 id = true)
    (hk : stripBracketsList kids = some kids') : stripBrackets (.node id d 0 0 kids) = some (.node id d 0 0 kids') := by
  rw [stripBrackets.eq_def]; simp [(nodeTok2_facts id h).1, hk]

theorem stripList_cons (x y : Ast) (xs ys : List Ast) (h1 : stripBrackets x = some y)
    (h2 : stripBracketsList xs = some ys) : stripBracketsList (x :: xs) = some (y :: ys) := by
  rw [stripBracketsList, h1, h2]

theorem stripList_nil : stripBracketsList [] = some [] := by rw [stripBracketsList]

theorem stripList_one (x y : Ast) (h1 : stripBrackets x = some y) : stripBracketsList [x] = some [y] :=
  stripList_cons x y [] [] h1 stripList_nil

theorem stripList_append : ∀ (xs ys : List Ast) (w z : List Ast), stripBracketsList xs = some ys →
    stripBracketsList w = some z → stripBracketsList (xs ++ w) = some (ys ++ z)
  | [], ys, w, z, h, hw => by
    rw [stripBracketsList] at h; cases h; simpa using hw
  | x :: xs, ys, w, z, h, hw => by
    rw [stripBracketsList] at h
    cases hx : stripBrackets x with
    | none => rw [hx] at h; cases h
    | some x' =>
      cases hxs : stripBracketsList xs with
      | none => rw [hx, hxs] at h; cases h
      | some xs' =>
        rw [hx, hxs] at h; cases h
        rw [List.cons_append, stripBracketsList, hx, stripList_append xs xs' w z hxs hw]; rfl

/-- declaration trees contain no bracket nodes -/
theorem strip_dast : ∀ e : R3, e.wf = true →
    stripBrackets e.dast = some e.dast ∧ stripBracketsList e.dast.kids = some e.dast.kids
  | .atom id d, hw => ⟨strip_node2 id d [] [] (top_nodeTok2 _ hw rfl) stripList_nil, stripList_nil⟩
  | .tuple a l, hw => by
    simp only [R3.wf, Bool.and_eq_true] at hw
    have hk : stripBracketsList (a.dast :: l.dast.kids) = some (a.dast :: l.dast.kids) :=
      stripList_cons _ _ _ _ (strip_dast a hw.1.2).1 (strip_dast l hw.2).2
    exact ⟨strip_node2 .NT_TUPLE_DECL .none _ _ rfl hk, hk⟩
  | .one a, hw => by
    simp only [R3.wf, Bool.and_eq_true] at hw
    have hk : stripBracketsList [a.dast] = some [a.dast] := stripList_one _ _ (strip_dast a hw.2).1
    exact ⟨strip_node2 .PUNC_COMMA .none _ _ rfl hk, hk⟩
  | .more a l, hw => by
    simp only [R3.wf, Bool.and_eq_true] at hw
    have hk : stripBracketsList (a.dast :: l.dast.kids) = some (a.dast :: l.dast.kids) :=
      stripList_cons _ _ _ _ (strip_dast a hw.1.2).1 (strip_dast l hw.2).2
    exact ⟨strip_node2 .PUNC_COMMA .none _ _ rfl hk, hk⟩
  | .text .., _ | .sbin .., _ | .prod2 .., _ | .prodN .., _ | .pred .., _ | .neg _, _ | .lbin .., _ | .pow _, _
  | .enum _, _ | .fcall .., _ | .pcall .., _ | .filter .., _ | .quant .., _ | .decl .., _ | .recS .., _ | .recF .., _
  | .imp .., _ | .bone _, _ | .boneK .., _ | .bmore .., _ | .bmoreK .., _ | .par _, _ =>
    ⟨strip_node2 .PUNC_COMMA .none [] [] rfl stripList_nil, stripList_nil⟩

theorem strip_declOf (vs : R3) (hw : vs.wf = true) : stripBrackets vs.declOf = some vs.declOf := by
  have h := strip_dast vs hw
  cases vs with
  | one v =>
    simp only [R3.wf, Bool.and_eq_true] at hw
    exact (strip_dast v hw.2).1
  | _ => exact strip_node2 .NT_ENUM_DECL .none _ _ rfl h.2

theorem strip_kids2 (id : Tok) (d : TokData) (kids kids' : List Ast) (hid : (id == .PUNC_PL) = false)
    (h : stripBrackets (.node id d 0 0 kids) = some (.node id d 0 0 kids')) :
    stripBracketsList kids = some kids' := by
  rw [stripBrackets.eq_def] at h
  simp only [hid, Bool.false_eq_true, if_false] at h
  cases hk : stripBracketsList kids with
  | none => rw [hk] at h; cases h
  | some ks => rw [hk] at h; simp at h; rw [h]

theorem strip_K (op : Tok) (hop : R3.isBlkOp op = true) (kids kids' : List Ast)
    (hk : stripBracketsList kids = some kids') : stripBrackets (.node op .none 0 0 kids) = some (.node op .none 0 0 kids') := by
  rw [stripBrackets.eq_def]; simp [(blkOp_facts op hop).2.2.2.1, hk]

/-- `CreateSyntaxTree` turns the raw tree into the tree; for a list: element by element -/
theorem strip_raw2 : ∀ e : R3, e.wf = true →
    stripBrackets e.raw = some e.ast ∧ (e.isA = true → stripBracketsList e.raw.kids = some e.ast.kids)
  | .atom id d, hw => ⟨strip_node2 id d [] [] (top_nodeTok2 _ hw rfl) stripList_nil, fun h => by simp [R3.isA] at h⟩
  | .text f d a, hw => by
    have hn := top_nodeTok2 _ hw rfl
    simp only [R3.wf, Bool.and_eq_true] at hw
    exact ⟨strip_node2 f d [a.raw] [a.ast] hn (stripList_one _ _ (strip_raw2 a hw.2).1), fun h => by simp [R3.isA] at h⟩
  | .sbin op l r, hw => by
    have hn := top_nodeTok2 _ hw rfl
    simp only [R3.wf, Bool.and_eq_true] at hw
    exact ⟨strip_node2 op .none _ [l.ast, r.ast] hn (stripList_cons _ _ _ _ (strip_wrap _ _ _ (strip_raw2 l hw.1.2).1)
      (stripList_one _ _ (strip_wrap _ _ _ (strip_raw2 r hw.2).1))), fun h => by simp [R3.isA] at h⟩
  | .prod2 a b, hw => by
    simp only [R3.wf, Bool.and_eq_true] at hw
    exact ⟨strip_node2 .DECART .none _ [a.ast, b.ast] rfl (stripList_cons _ _ _ _ (strip_wrap _ _ _ (strip_raw2 a hw.1.2).1)
      (stripList_one _ _ (strip_wrap _ _ _ (strip_raw2 b hw.2).1))), fun h => by simp [R3.isA] at h⟩
  | .prodN q k, hw => by
    simp only [R3.wf, Bool.and_eq_true] at hw
    refine ⟨strip_node2 .DECART .none _ (q.ast.kids ++ [k.ast]) rfl ?_, fun h => by simp [R3.isA] at h⟩
    have hq := (strip_raw2 q hw.1.2).1
    rw [raw_prod2 hw.1.1.1, ast_prod2 hw.1.1.1] at hq
    exact stripList_append _ _ _ _ (strip_kids2 _ _ _ _ rfl hq) (stripList_one _ _ (strip_wrap _ _ _ (strip_raw2 k hw.2).1))
  | .pred op l r, hw => by
    have hn := top_nodeTok2 _ hw rfl
    simp only [R3.wf, Bool.and_eq_true] at hw
    exact ⟨strip_node2 op .none _ [l.ast, r.ast] hn (stripList_cons _ _ _ _ (strip_raw2 l hw.1.2).1
      (stripList_one _ _ (strip_raw2 r hw.2).1)), fun h => by simp [R3.isA] at h⟩
  | .neg x, hw => by
    simp only [R3.wf, Bool.and_eq_true] at hw
    exact ⟨strip_node2 .NOT .none _ [x.ast] rfl (stripList_one _ _ (strip_wrap _ _ _ (strip_raw2 x hw.2).1)),
      fun h => by simp [R3.isA] at h⟩
  | .lbin op l r, hw => by
    have hn := top_nodeTok2 _ hw rfl
    simp only [R3.wf, Bool.and_eq_true] at hw
    exact ⟨strip_node2 op .none _ [l.ast, r.ast] hn (stripList_cons _ _ _ _ (strip_wrap _ _ _ (strip_raw2 l hw.1.2).1)
      (stripList_one _ _ (strip_wrap _ _ _ (strip_raw2 r hw.2).1))), fun h => by simp [R3.isA] at h⟩
  | .pow a, hw => by
    simp only [R3.wf, Bool.and_eq_true] at hw
    exact ⟨strip_node2 .BOOLEAN .none [a.raw] [a.ast] rfl (stripList_one _ _ (strip_raw2 a hw.2).1),
      fun h => by simp [R3.isA] at h⟩
  | .one a, hw => by
    simp only [R3.wf, Bool.and_eq_true] at hw
    have hk : stripBracketsList [a.raw] = some [a.ast] := stripList_one _ _ (strip_raw2 a hw.2).1
    exact ⟨strip_node2 .PUNC_COMMA .none _ _ rfl hk, fun _ => hk⟩
  | .more a l, hw => by
    simp only [R3.wf, Bool.and_eq_true] at hw
    have hk : stripBracketsList (a.raw :: l.raw.kids) = some (a.ast :: l.ast.kids) :=
      stripList_cons _ _ _ _ (strip_raw2 a hw.1.2).1 ((strip_raw2 l hw.2).2 hw.1.1.2)
    exact ⟨strip_node2 .PUNC_COMMA .none _ _ rfl hk, fun _ => hk⟩
  | .enum l, hw => by
    simp only [R3.wf, Bool.and_eq_true] at hw
    exact ⟨strip_node2 .NT_ENUMERATION .none _ _ rfl ((strip_raw2 l hw.2).2 hw.1), fun h => by simp [R3.isA] at h⟩
  | .tuple a l, hw => by
    simp only [R3.wf, Bool.and_eq_true] at hw
    exact ⟨strip_node2 .NT_TUPLE .none _ (a.ast :: l.ast.kids) rfl
      (stripList_cons _ _ _ _ (strip_raw2 a hw.1.2).1 ((strip_raw2 l hw.2).2 hw.1.1.2)), fun h => by simp [R3.isA] at h⟩
  | .fcall d l, hw => by
    simp only [R3.wf, Bool.and_eq_true] at hw
    exact ⟨strip_node2 .NT_FUNC_CALL .none _ (.node .ID_FUNCTION d 0 0 [] :: l.ast.kids) rfl
      (stripList_cons _ _ _ _ (strip_node2 .ID_FUNCTION d [] [] rfl stripList_nil) ((strip_raw2 l hw.2).2 hw.1)),
      fun h => by simp [R3.isA] at h⟩
  | .pcall d l, hw => by
    simp only [R3.wf, Bool.and_eq_true] at hw
    exact ⟨strip_node2 .NT_FUNC_CALL .none _ (.node .ID_PREDICATE d 0 0 [] :: l.ast.kids) rfl
      (stripList_cons _ _ _ _ (strip_node2 .ID_PREDICATE d [] [] rfl stripList_nil) ((strip_raw2 l hw.2).2 hw.1)),
      fun h => by simp [R3.isA] at h⟩
  | .filter d ps a, hw => by
    simp only [R3.wf, Bool.and_eq_true] at hw
    exact ⟨strip_node2 .FILTER d _ (ps.ast.kids ++ [a.ast]) rfl
      (stripList_append _ _ _ _ ((strip_raw2 ps hw.1.2).2 hw.1.1.1) (stripList_one _ _ (strip_raw2 a hw.2).1)),
      fun h => by simp [R3.isA] at h⟩
  | .quant q vs dm b, hw => by
    have hn := top_nodeTok2 _ hw rfl
    simp only [R3.wf, Bool.and_eq_true] at hw
    exact ⟨strip_node2 q .none _ [vs.declOf, dm.ast, b.ast] hn (stripList_cons _ _ _ _ (strip_declOf vs hw.1.1.2)
      (stripList_cons _ _ _ _ (strip_raw2 dm hw.1.2).1 (stripList_one _ _ (strip_wrap _ _ _ (strip_raw2 b hw.2).1)))),
      fun h => by simp [R3.isA] at h⟩
  | .decl v dm b, hw => by
    simp only [R3.wf, Bool.and_eq_true] at hw
    exact ⟨strip_node2 .NT_DECLARATIVE_EXPR .none _ [v.dast, dm.ast, b.ast] rfl
      (stripList_cons _ _ _ _ (strip_dast v hw.1.1.2).1
        (stripList_cons _ _ _ _ (strip_raw2 dm hw.1.2).1 (stripList_one _ _ (strip_raw2 b hw.2).1))),
      fun h => by simp [R3.isA] at h⟩
  | .recS v d s, hw => by
    simp only [R3.wf, Bool.and_eq_true] at hw
    exact ⟨strip_node2 .NT_RECURSIVE_SHORT .none _ [v.dast, d.ast, s.ast] rfl
      (stripList_cons _ _ _ _ (strip_dast v hw.1.1.2).1
        (stripList_cons _ _ _ _ (strip_raw2 d hw.1.2).1 (stripList_one _ _ (strip_raw2 s hw.2).1))),
      fun h => by simp [R3.isA] at h⟩
  | .recF v d c s, hw => by
    simp only [R3.wf, Bool.and_eq_true] at hw
    exact ⟨strip_node2 .NT_RECURSIVE_FULL .none _ [v.dast, d.ast, c.ast, s.ast] rfl
      (stripList_cons _ _ _ _ (strip_dast v hw.1.1.1.2).1
        (stripList_cons _ _ _ _ (strip_raw2 d hw.1.1.2).1 (stripList_cons _ _ _ _ (strip_raw2 c hw.1.2).1
          (stripList_one _ _ (strip_raw2 s hw.2).1)))),
      fun h => by simp [R3.isA] at h⟩
  | .imp val bs, hw => by
    simp only [R3.wf, Bool.and_eq_true] at hw
    have hb := (strip_raw2 bs hw.2).1
    rw [raw_B hw.1.1.2, ast_B hw.1.1.2] at hb
    exact ⟨strip_node2 .NT_IMPERATIVE_EXPR .none _ (val.ast :: bs.ast.kids) rfl
      (stripList_cons _ _ _ _ (strip_raw2 val hw.1.2).1 (strip_kids2 _ _ _ _ rfl hb)),
      fun h => by simp [R3.isA] at h⟩
  | .bone b, hw => by
    simp only [R3.wf, Bool.and_eq_true] at hw
    exact ⟨strip_node2 .NT_IMPERATIVE_EXPR .none _ [b.ast] rfl (stripList_one _ _ (strip_raw2 b hw.2).1),
      fun h => by simp [R3.isA] at h⟩
  | .boneK op v s, hw => by
    simp only [R3.wf, Bool.and_eq_true] at hw
    exact ⟨strip_node2 .NT_IMPERATIVE_EXPR .none _ [.node op .none 0 0 [v.dast, s.ast]] rfl
      (stripList_one _ _ (strip_K op hw.1.1.1.1.1 _ _
        (stripList_cons _ _ _ _ (strip_dast v hw.1.2).1 (stripList_one _ _ (strip_raw2 s hw.2).1)))),
      fun h => by simp [R3.isA] at h⟩
  | .bmore b l, hw => by
    simp only [R3.wf, Bool.and_eq_true] at hw
    have hl := (strip_raw2 l hw.2).1
    rw [raw_B hw.1.1.2, ast_B hw.1.1.2] at hl
    exact ⟨strip_node2 .NT_IMPERATIVE_EXPR .none _ (b.ast :: l.ast.kids) rfl
      (stripList_cons _ _ _ _ (strip_raw2 b hw.1.2).1 (strip_kids2 _ _ _ _ rfl hl)),
      fun h => by simp [R3.isA] at h⟩
  | .bmoreK op v s l, hw => by
    simp only [R3.wf, Bool.and_eq_true] at hw
    have hl := (strip_raw2 l hw.2).1
    rw [raw_B hw.1.1.1.2, ast_B hw.1.1.1.2] at hl
    exact ⟨strip_node2 .NT_IMPERATIVE_EXPR .none _ (.node op .none 0 0 [v.dast, s.ast] :: l.ast.kids) rfl
      (stripList_cons _ _ _ _ (strip_K op hw.1.1.1.1.1.1.1 _ _
        (stripList_cons _ _ _ _ (strip_dast v hw.1.1.2).1 (stripList_one _ _ (strip_raw2 s hw.1.2).1)))
        (strip_kids2 _ _ _ _ rfl hl)),
      fun h => by simp [R3.isA] at h⟩
  | .par a, hw => by
    simp only [R3.wf, Bool.and_eq_true] at hw
    exact ⟨strip_wrap true _ _ (strip_raw2 a hw.2).1, fun h => by simp [R3.isA] at h⟩

theorem expression_frag2 (f : Nat) (toks : Toks) (h : allF toks = true) :
    expression f toks = (match noDeclaration f toks with | some (e, []) => some e | _ => none) := by
  unfold expression
  cases toks with
  | nil => rfl
  | cons g r =>
    cases r with
    | nil => rfl
    | cons m rest =>
      have hm : (m.id == .PUNC_DEFINE || m.id == .PUNC_STRUCT) = false := by
        simp only [allF_cons, Bool.and_eq_true] at h
        have := h.2.1
        revert this; cases m.id <;> decide
      simp only [hm, Bool.and_false, Bool.false_eq_true, if_false]
      rfl

theorem noDeclaration_frag2 (f : Nat) (t : LTok) (toks : Toks) (h : startTok t.id = true) :
    noDeclaration f (t :: toks) = logicOrSet f (t :: toks) := by
  unfold noDeclaration
  simp only [(startTok_facts t.id h).2.1, Bool.false_eq_true, if_false]

/-- **the parser gives back the tree**: for every well-formed set phrase or formula of the fragment `R3` whose
bracket decisions satisfy the grammar's needs (`R3.ok`), parsing its printed token sequence returns it -/
theorem parseToks_toks2 (e : R3) (hw : e.wf = true) (hok : e.ok = true) (hSL : e.isS = true ∨ e.isL = true)
    (hP : e.isL = true → e.isPar = false) :
    parseToks (e.toks ++ [tk .END]) = some e.ast := by
  have hfrag := toks_frag2 e hw
  have hall : ∀ t ∈ e.toks, fragTok2 t.id = true := by
    simpa [allF, List.all_eq_true] using hfrag
  have hfacts : ∀ t : Tok, fragTok2 t = true → (t != .END && t != .INTERRUPT) = true ∧ (t == .INTERRUPT) = false := by
    intro t; cases t <;> decide
  have hbody : (e.toks ++ [tk .END]).takeWhile (fun t => t.id != .END && t.id != .INTERRUPT) = e.toks :=
    takeWhile_snoc _ _ _ (fun t ht => (hfacts t.id (hall t ht)).1) rfl
  have hany : (e.toks ++ [tk .END]).any (fun t => t.id == .INTERRUPT) = false := by
    rw [List.any_append]
    have : e.toks.any (fun t => t.id == .INTERRUPT) = false := by
      rw [List.any_eq_false]
      intro t ht
      simp [(hfacts t.id (hall t ht)).2]
    rw [this]; rfl
  have hsz := sz_le_toks2 e
  have hlog := logE_top2 e hw hok hSL hP (fuelFor e.toks.length) (by unfold fuelFor; omega)
  unfold parseToks
  simp only [hbody, hany, Bool.false_eq_true, if_false]
  rw [expression_frag2 _ _ hfrag]
  obtain ⟨t, ts, hts, hst⟩ := toks_head e hw
  have hnd : noDeclaration (fuelFor e.toks.length) e.toks = some (e.raw, []) := by
    rw [hts, noDeclaration_frag2 _ t ts hst, ← hts]
    unfold logicOrSet
    rw [hlog.1]
    simp only [hlog.2, if_true]
  rw [hnd]
  simp only [(semantic_raw2 e hw).1 none, if_true]
  exact (strip_raw2 e hw).1

/-! ## the printer's brackets suffice at every node of an `R3` tree -/

/-- roots of the new set phrases (all of them primaries of the grammar) -/
def primTopL : List Tok := [.PUNC_PL, .BOOLEAN, .NT_ENUMERATION, .NT_TUPLE, .NT_FUNC_CALL, .FILTER, .NT_DECLARATIVE_EXPR,
  .NT_RECURSIVE_SHORT, .NT_RECURSIVE_FULL, .NT_IMPERATIVE_EXPR]
/-- roots of the formulas that are `logic_unary` -/
def unaryTopL : List Tok := [.NOT, .FORALL, .EXISTS, .NT_FUNC_CALL, .PUNC_PL]
def quantL : List Tok := [.FORALL, .EXISTS]

/-- read off the generated `CompareOperations` tables (re-proved on every run), in addition to `bracket_tables`:
`ℬ`, enumerations, tuples, calls, filters and declarative constructions are never bracketed as operands of
`+ - * ∪ ∩ \ ∆ ×`; `¬ ∀ ∃` and predicate calls are never bracketed under a connective or under `¬`; a quantifier
brackets every connective in its body and none of `¬ ∀ ∃`, predicate call -/
theorem bracket_tables2 :
    (∀ p ∈ set7L, ∀ c ∈ primTopL, ∀ s ∈ sides, brSet p c s = false) ∧
    (∀ c ∈ primTopL, brProd true c = false ∧ brProd false c = false) ∧
    (∀ p ∈ logic4L, ∀ c ∈ unaryTopL, ∀ s ∈ sides, brLogic p c s = false) ∧
    (∀ c ∈ unaryTopL, brNot c = false) ∧
    (∀ q ∈ quantL, (∀ c ∈ logic4L, brQ q c = true) ∧ (∀ c ∈ unaryTopL, brQ q c = false)) := by
  decide +kernel

theorem mem_quantL (q : Tok) (h : (q == .FORALL || q == .EXISTS) = true) : q ∈ quantL := by
  cases q <;> first | (simp [quantL]; done) | (exact absurd h (by decide))

/-- the root of a set phrase that is no binary operation -/
theorem top_prim_mem {c : R3} (hS : c.isS = true) (hw : c.wf = true) (hb : c.binTop? = none) :
    c.top ∈ leafL ∨ c.top ∈ primTopL := by
  cases c with
  | atom id d => simp only [R3.wf] at hw; exact Or.inl (mem_leafL id (by simp [hw]))
  | text f d a => simp only [R3.wf, Bool.and_eq_true] at hw; exact Or.inl (mem_leafL f (by simp [hw.1.1]))
  | sbin => simp [R3.binTop?] at hb
  | prod2 => simp [R3.binTop?] at hb
  | prodN => simp [R3.binTop?] at hb
  | pow | enum | tuple | fcall | filter | decl | recS | recF | imp | par => exact Or.inr (by simp [R3.top, primTopL])
  | _ => simp [R3.isS] at hS

/-- the root of a formula that is neither a connective nor a predicate -/
theorem top_unary_mem {c : R3} (hL : c.isL = true) (hw : c.wf = true) :
    (∃ cop a b, c = .lbin cop a b ∧ cop ∈ logic4L) ∨ (∃ op a b, c = .pred op a b) ∨
    (c.top ∈ unaryTopL ∧ (∀ p s, okChildL2 p c s = !brLogic p c.top s) ∧ (∀ br, okBody br c = !br c.top)) := by
  cases c with
  | lbin cop a b =>
    simp only [R3.wf, Bool.and_eq_true] at hw
    exact Or.inl ⟨cop, a, b, rfl, mem_logic4L cop hw.1.1.1.1⟩
  | pred op a b => exact Or.inr (Or.inl ⟨op, a, b, rfl⟩)
  | neg x => exact Or.inr (Or.inr ⟨by simp [R3.top, unaryTopL], fun _ _ => rfl, fun _ => rfl⟩)
  | pcall d l => exact Or.inr (Or.inr ⟨by simp [R3.top, unaryTopL], fun _ _ => rfl, fun _ => rfl⟩)
  | quant q vs dm b =>
    simp only [R3.wf, Bool.and_eq_true] at hw
    have := mem_quantL q hw.1.1.1.1.1.1.1
    simp only [quantL, List.mem_cons, List.not_mem_nil, or_false] at this
    rcases this with rfl | rfl <;> exact Or.inr (Or.inr ⟨by simp [R3.top, unaryTopL], fun _ _ => rfl, fun _ => rfl⟩)
  | par a => exact Or.inr (Or.inr ⟨by simp [R3.top, unaryTopL], fun _ _ => rfl, fun _ => rfl⟩)
  | _ => simp [R3.isL] at hL

theorem okChildS2_of_wf (p : Tok) (c : R3) (s : Side) (hp : isSetOp7 p = true) (hS : c.isS = true) (hw : c.wf = true) :
    okChildS2 p c s = true := by
  have hd : Tok.DECART ∈ set8L := by simp [set8L]
  cases hb : c.binTop? with
  | some cop =>
    simp only [okChildS2, hb]
    have hcop : cop ∈ set8L := by
      cases c <;> simp [R3.binTop?] at hb
      · subst hb; simp only [R3.wf, Bool.and_eq_true] at hw; exact mem_set8L _ (mem_set7L _ hw.1.1.1.1)
      · subst hb; exact hd
      · subst hb; exact hd
    exact bracket_tables.1 p (mem_set7L p hp) cop hcop s (mem_sides s)
  | none =>
    simp only [okChildS2, hb]
    rcases top_prim_mem hS hw hb with h | h
    · rw [bracket_tables.2.1 p (mem_set7L p hp) _ h s (mem_sides s)]; rfl
    · rw [bracket_tables2.1 p (mem_set7L p hp) _ h s (mem_sides s)]; rfl

theorem okFactor2_of_wf (first : Bool) (c : R3) (hS : c.isS = true) (hw : c.wf = true) : okFactor2 first c = true := by
  cases hb : c.binTop? with
  | some cop =>
    simp only [okFactor2, hb]
    cases c <;> simp [R3.binTop?] at hb
    · subst hb
      simp only [R3.wf, Bool.and_eq_true] at hw
      have ht := bracket_tables.2.2.1 _ (mem_set7L _ hw.1.1.1.1)
      have hne := set7_ne_decart _ hw.1.1.1.1
      cases first
      · have := ht.2
        simp only [hne, Bool.true_and, Bool.false_eq_true, if_false]; exact this
      · have := ht.1
        simp only [hne, Bool.true_and, if_true]; exact this
    · subst hb; simp only [brProd_decart, Bool.true_or]
    · subst hb; simp only [brProd_decart, Bool.true_or]
  | none =>
    simp only [okFactor2, hb]
    rcases top_prim_mem hS hw hb with h | h
    · have := bracket_tables.2.2.2.1 _ h
      cases first <;> simp [this.1, this.2]
    · have := bracket_tables2.2.1 _ h
      cases first <;> simp [this.1, this.2]

theorem okChildL2_of_wf (p : Tok) (c : R3) (s : Side) (hp : isLogicOp p = true) (hL : c.isL = true) (hw : c.wf = true) :
    okChildL2 p c s = true := by
  rcases top_unary_mem hL hw with ⟨cop, a, b, rfl, hc⟩ | ⟨op, a, b, rfl⟩ | h
  · exact bracket_tables.2.2.2.2.1 p (mem_logic4L p hp) cop hc s (mem_sides s)
  · rfl
  · rw [h.2.1 p s, bracket_tables2.2.2.1 p (mem_logic4L p hp) _ h.1 s (mem_sides s)]; rfl

theorem okBody_of (br : Tok → Bool) (c : R3) (hL : c.isL = true) (hw : c.wf = true)
    (h1 : ∀ t ∈ logic4L, br t = true) (h2 : ∀ t ∈ unaryTopL, br t = false) : okBody br c = true := by
  rcases top_unary_mem hL hw with ⟨cop, a, b, rfl, hc⟩ | ⟨op, a, b, rfl⟩ | h
  · exact h1 cop hc
  · rfl
  · rw [h.2.2 br, h2 _ h.1]; rfl

theorem okNot2_of_wf (c : R3) (hL : c.isL = true) (hw : c.wf = true) : okNot2 c = true :=
  okBody_of brNot c hL hw bracket_tables.2.2.2.2.2.2.1 bracket_tables2.2.2.2.1

theorem okQ2_of_wf (q : Tok) (c : R3) (hq : (q == .FORALL || q == .EXISTS) = true) (hL : c.isL = true) (hw : c.wf = true) :
    okQ2 q c = true :=
  okBody_of (brQ q) c hL hw (bracket_tables2.2.2.2.2 q (mem_quantL q hq)).1 (bracket_tables2.2.2.2.2 q (mem_quantL q hq)).2

/-- **the bracket hypothesis holds for every tree of the fragment** (with the current tables) -/
theorem ok_of_wf2 : ∀ e : R3, e.wf = true → e.ok = true
  | .atom .., _ => rfl
  | .text f d a, hw => by
    simp only [R3.wf, Bool.and_eq_true] at hw
    simpa [R3.ok] using ok_of_wf2 a hw.2
  | .sbin op l r, hw => by
    simp only [R3.wf, Bool.and_eq_true] at hw
    obtain ⟨⟨⟨⟨hop, hlS⟩, hrS⟩, hlw⟩, hrw⟩ := hw
    simp [R3.ok, okChildS2_of_wf op l .left hop hlS hlw, okChildS2_of_wf op r .right hop hrS hrw,
      ok_of_wf2 l hlw, ok_of_wf2 r hrw]
  | .prod2 a b, hw => by
    simp only [R3.wf, Bool.and_eq_true] at hw
    obtain ⟨⟨⟨haS, hbS⟩, haw⟩, hbw⟩ := hw
    simp [R3.ok, okFactor2_of_wf true a haS haw, okFactor2_of_wf false b hbS hbw, ok_of_wf2 a haw, ok_of_wf2 b hbw]
  | .prodN p k, hw => by
    simp only [R3.wf, Bool.and_eq_true] at hw
    obtain ⟨⟨⟨_, hkS⟩, hpw⟩, hkw⟩ := hw
    simp [R3.ok, okFactor2_of_wf false k hkS hkw, ok_of_wf2 p hpw, ok_of_wf2 k hkw]
  | .pred op l r, hw => by
    simp only [R3.wf, Bool.and_eq_true] at hw
    simp [R3.ok, ok_of_wf2 l hw.1.2, ok_of_wf2 r hw.2]
  | .neg x, hw => by
    simp only [R3.wf, Bool.and_eq_true] at hw
    simp [R3.ok, okNot2_of_wf x hw.1 hw.2, ok_of_wf2 x hw.2]
  | .lbin op l r, hw => by
    simp only [R3.wf, Bool.and_eq_true] at hw
    obtain ⟨⟨⟨⟨hop, hlL⟩, hrL⟩, hlw⟩, hrw⟩ := hw
    simp [R3.ok, okChildL2_of_wf op l .left hop hlL hlw, okChildL2_of_wf op r .right hop hrL hrw,
      ok_of_wf2 l hlw, ok_of_wf2 r hrw]
  | .pow a, hw => by
    simp only [R3.wf, Bool.and_eq_true] at hw
    simpa [R3.ok] using ok_of_wf2 a hw.2
  | .one a, hw => by
    simp only [R3.wf, Bool.and_eq_true] at hw
    simpa [R3.ok] using ok_of_wf2 a hw.2
  | .more a l, hw => by
    simp only [R3.wf, Bool.and_eq_true] at hw
    simp [R3.ok, ok_of_wf2 a hw.1.2, ok_of_wf2 l hw.2]
  | .enum l, hw => by
    simp only [R3.wf, Bool.and_eq_true] at hw
    simpa [R3.ok] using ok_of_wf2 l hw.2
  | .tuple a l, hw => by
    simp only [R3.wf, Bool.and_eq_true] at hw
    simp [R3.ok, ok_of_wf2 a hw.1.2, ok_of_wf2 l hw.2]
  | .fcall d l, hw => by
    simp only [R3.wf, Bool.and_eq_true] at hw
    simpa [R3.ok] using ok_of_wf2 l hw.2
  | .pcall d l, hw => by
    simp only [R3.wf, Bool.and_eq_true] at hw
    simpa [R3.ok] using ok_of_wf2 l hw.2
  | .filter d ps a, hw => by
    simp only [R3.wf, Bool.and_eq_true] at hw
    simp [R3.ok, ok_of_wf2 ps hw.1.2, ok_of_wf2 a hw.2]
  | .quant q vs dm b, hw => by
    simp only [R3.wf, Bool.and_eq_true] at hw
    obtain ⟨⟨⟨⟨⟨⟨⟨hq, _⟩, _⟩, _⟩, hbL⟩, hvw⟩, hdw⟩, hbw⟩ := hw
    simp [R3.ok, okQ2_of_wf q b hq hbL hbw, ok_of_wf2 vs hvw, ok_of_wf2 dm hdw, ok_of_wf2 b hbw]
  | .decl v dm b, hw => by
    simp only [R3.wf, Bool.and_eq_true] at hw
    simp [R3.ok, ok_of_wf2 v hw.1.1.2, ok_of_wf2 dm hw.1.2, ok_of_wf2 b hw.2]
  | .recS v d s, hw => by
    simp only [R3.wf, Bool.and_eq_true] at hw
    simp [R3.ok, ok_of_wf2 v hw.1.1.2, ok_of_wf2 d hw.1.2, ok_of_wf2 s hw.2]
  | .recF v d c s, hw => by
    simp only [R3.wf, Bool.and_eq_true] at hw
    simp [R3.ok, ok_of_wf2 v hw.1.1.1.2, ok_of_wf2 d hw.1.1.2, ok_of_wf2 c hw.1.2, ok_of_wf2 s hw.2]
  | .imp val bs, hw => by
    simp only [R3.wf, Bool.and_eq_true] at hw
    simp [R3.ok, ok_of_wf2 val hw.1.2, ok_of_wf2 bs hw.2]
  | .bone b, hw => by
    simp only [R3.wf, Bool.and_eq_true] at hw
    simpa [R3.ok] using ok_of_wf2 b hw.2
  | .boneK op v s, hw => by
    simp only [R3.wf, Bool.and_eq_true] at hw
    simp [R3.ok, ok_of_wf2 v hw.1.2, ok_of_wf2 s hw.2]
  | .bmore b l, hw => by
    simp only [R3.wf, Bool.and_eq_true] at hw
    simp [R3.ok, ok_of_wf2 b hw.1.2, ok_of_wf2 l hw.2]
  | .bmoreK op v s l, hw => by
    simp only [R3.wf, Bool.and_eq_true] at hw
    simp [R3.ok, ok_of_wf2 v hw.1.1.2, ok_of_wf2 s hw.1.2, ok_of_wf2 l hw.2]
  | .par a, hw => by
    simp only [R3.wf, Bool.and_eq_true] at hw
    simp [R3.ok, ok_of_wf2 a hw.2]

/-- **the parser gives back the tree**, for every well-formed set phrase or formula of the fragment `R3` -/
theorem parseToks_toks_wf2 (e : R3) (hw : e.wf = true) (hSL : e.isS = true ∨ e.isL = true)
    (hP : e.isL = true → e.isPar = false) :
    parseToks (e.toks ++ [tk .END]) = some e.ast :=
  parseToks_toks2 e hw (ok_of_wf2 e hw) hSL hP


end CCVerif.PR
