import CCVerif.Lemmas.ParserWfTop
set_option linter.unusedVariables false
/-!
The parser model only builds trees of the executable grammar `Wf.wf` (prover-Wf) — part 4: the payloads of lexed
tokens (`LexerBase::ParseData`) and the result on texts.

Every token of `lex syn text` carries the payload of its kind — no data for operators, an `int32_t` for an integer
literal, a non-empty tuple of `int16_t` for `Pr/pr/Fi` — and for an identifier token its text. What `Wf.wfLeaf` asks of
an identifier leaf on top of that is that the text, lexed alone (MATH), is ONE token of the same kind
(`IdentsRelex`, decidable for a closed text: `identsRelexB`); this is the one hypothesis left.
-/
namespace CCVerif.ParserWf
open CCVerif.Syntax CCVerif.Generated CCVerif.Lexer CCVerif.Parser CCVerif.Wf

theorem int16_wrap (n : Int) : int16 (wrapInt 16 n) = true := by
  have e : (2 : Int) ^ 16 = 65536 := by decide
  unfold wrapInt int16
  simp only [e]
  split <;> simp only [Bool.and_eq_true, decide_eq_true_eq] <;> omega

theorem int32_wrap (n : Int) : int32 (wrapInt 32 n) = true := by
  have e : (2 : Int) ^ 32 = 4294967296 := by decide
  unfold wrapInt int32
  simp only [e]
  split <;> simp only [Bool.and_eq_true, decide_eq_true_eq] <;> omega

theorem index_fold (step : (List Int × Int) → Nat → (List Int × Int))
    (hstep : ∀ acc idx ch, acc.all int16 = true → int16 idx = true →
      (step (acc, idx) ch).1.all int16 = true ∧ int16 (step (acc, idx) ch).2 = true) :
    ∀ (s : List Nat) (acc : List Int) (idx : Int), acc.all int16 = true → int16 idx = true →
      (s.foldl step (acc, idx)).1.all int16 = true ∧ int16 (s.foldl step (acc, idx)).2 = true
  | [], acc, idx, h1, h2 => ⟨h1, h2⟩
  | c :: s, acc, idx, h1, h2 => by
    rw [List.foldl_cons]
    have := hstep acc idx c h1 h2
    exact index_fold step hstep s _ _ this.1 this.2

theorem indexData_fromIndexSequence (s : List Nat) : indexData (.tuple (fromIndexSequence s)) = true := by
  unfold fromIndexSequence
  simp only []
  have key := index_fold (fun (p : List Int × Int) ch =>
      if isDigit ch then (p.1, wrapInt 16 (wrapInt 16 (p.2 * 10) + (ch - 48 : Nat))) else (p.1 ++ [p.2], 0))
    (by
      intro acc idx ch h1 h2
      simp only []
      split
      · exact ⟨h1, int16_wrap _⟩
      · refine ⟨?_, (by show int16 (0 : Int) = true; decide)⟩
        simp only [List.all_append, List.all_cons, List.all_nil, Bool.and_true, Bool.and_eq_true]
        exact ⟨h1, h2⟩) s [] 0 rfl (by show int16 (0 : Int) = true; decide)
  generalize List.foldl _ ([], (0 : Int)) s = r at key ⊢
  obtain ⟨acc, idx⟩ := r
  simp only [indexData, Bool.and_eq_true, Bool.not_eq_true', List.all_append, List.all_cons, List.all_nil, Bool.and_true]
  exact ⟨by simp, key.1, key.2⟩

/-- every identifier token's text, lexed alone (MATH), is one token of the same kind -/
def IdentsRelex (ts : Toks) : Prop := ∀ t, t ∈ ts → ∀ s, t.data = .text s → lexesAs t.id s = true

/-- executable form of `IdentsRelex` (for closed examples) -/
def identsRelexB (ts : Toks) : Bool :=
  ts.all fun t => match t.data with | .text s => lexesAs t.id s | _ => true

theorem identsRelex_of_check {ts : Toks} (h : identsRelexB ts = true) : IdentsRelex ts := by
  intro t ht s hs
  unfold identsRelexB at h
  rw [List.all_eq_true] at h
  have := h t ht
  rw [hs] at this
  exact this

/-- a lexed token carries the payload of its kind -/
theorem toTok_tokW (r : RawTok) (h : ∀ s, r.toTok.data = .text s → lexesAs r.toTok.id s = true) :
    tokW r.toTok = true := by
  obtain ⟨id, lo, hi, text⟩ := r
  simp only [RawTok.toTok] at h ⊢
  unfold tokW
  simp only []
  cases id
  case LIT_INTEGER =>
    show int32 (toInt32 text) = true
    unfold toInt32
    exact int32_wrap _
  case BIGPR =>
    show indexData (.tuple (fromIndexSequence (text.drop 2))) = true
    exact indexData_fromIndexSequence _
  case SMALLPR =>
    show indexData (.tuple (fromIndexSequence (text.drop 2))) = true
    exact indexData_fromIndexSequence _
  case FILTER =>
    show indexData (.tuple (fromIndexSequence (text.drop 2))) = true
    exact indexData_fromIndexSequence _
  case ID_LOCAL => exact h _ rfl
  case ID_GLOBAL => exact h _ rfl
  case ID_FUNCTION => exact h _ rfl
  case ID_PREDICATE => exact h _ rfl
  case ID_RADICAL => exact h _ rfl
  all_goals rfl

theorem lex_allOK (syn : Syn) (text : List Nat) (ts : Toks) (h : lex syn text = some ts) (hr : IdentsRelex ts) :
    AllOK ts := by
  unfold lex at h
  cases hl : lexRaw syn text with
  | none => rw [hl] at h; cases h
  | some rs =>
    rw [hl] at h; simp at h; subst h
    intro t ht
    obtain ⟨r, hrm, rfl⟩ := List.mem_map.1 ht
    exact toTok_tokW r (hr _ ht)

/-- **every tree `parse` returns satisfies `Wf.wfAst`** — and `Wf.wf .ND` when its root is not a global declaration —
for every text of both syntaxes whose identifier tokens re-lex as themselves -/
theorem parse_wfAst (syn : Syn) (text : List Nat) (t : Ast) (h : parse syn text = some t)
    (hr : ∀ ts, lex syn text = some ts → IdentsRelex ts) :
    wfAst t = true ∧ (t.id ≠ .PUNC_DEFINE → t.id ≠ .PUNC_STRUCT → wf .ND t = true) := by
  unfold parse at h
  cases hl : lex syn text with
  | none => rw [hl] at h; cases h
  | some ts =>
    rw [hl] at h
    have hok := allOK_takeWhile (fun t => t.id != .END && t.id != .INTERRUPT) (lex_allOK syn text ts hl (hr ts hl))
    exact ⟨parseToks_wfAst ts t hok h, parseToks_wf_ND ts t hok h⟩

end CCVerif.ParserWf
