import CCVerif.Lemmas.Schema
import CCVerif.Lemmas.RSModel
/-!
Lemmas for C08, schema level (fragment model of C07): an injective renaming of the names of a
store (aliases and mentions) is an isomorphism of the analysis — same dependency edges, same
statuses, types with the names renamed (`iso_of_renaming`); `SetAliasFor(substitute = true)` and
`SubstitueAliases` are such renamings under the freshness proviso.
-/
namespace CCVerif.Schema
open CCVerif CCVerif.Graph CCVerif.RSModel

/-- a definition with its mentions renamed -/
def renDef (g : String → String) : Def → Def
  | .union ns => .union (ns.map g)
  | d => d

/-- every name that occurs in a store: the aliases and the mentioned names -/
def namesOf (s : List Cst) : List String := s.map (·.alias) ++ s.flatMap (·.defn.mentions)

theorem alias_mem_namesOf {s : List Cst} {c : Cst} (hc : c ∈ s) : c.alias ∈ namesOf s :=
  List.mem_append_left _ (List.mem_map.2 ⟨c, hc, rfl⟩)

theorem mention_mem_namesOf {s : List Cst} {c : Cst} (hc : c ∈ s) {m : String} (hm : m ∈ c.defn.mentions) :
    m ∈ namesOf s :=
  List.mem_append_right _ (List.mem_flatMap.2 ⟨c, hc, hm⟩)

theorem mentions_renDef (g : String → String) (d : Def) : (renDef g d).mentions = d.mentions.map g := by
  cases d <;> rfl

/-- `A` renames the constituents of `s` by `g` -/
def RenamesBy (g : String → String) (A : Cst → Cst) (s : List Cst) : Prop :=
  ∀ c ∈ s, (A c).uid = c.uid ∧ (A c).kind = c.kind ∧ (A c).alias = g c.alias ∧ (A c).defn = renDef g c.defn

/-- resolution commutes with a renaming that is injective on the aliases and the name looked up -/
theorem findAliasL_map (g : String → String) (A : Cst → Cst) (m : String) :
    ∀ (s : List Cst), (∀ c ∈ s, (A c).uid = c.uid ∧ (A c).alias = g c.alias) →
      (∀ c ∈ s, g c.alias = g m → c.alias = m) → findAliasL (s.map A) (g m) = findAliasL s m
  | [], _, _ => rfl
  | c :: s, hA, hinj => by
    have ih := findAliasL_map g A m s (fun x hx => hA x (List.mem_cons_of_mem _ hx))
      (fun x hx => hinj x (List.mem_cons_of_mem _ hx))
    unfold findAliasL at ih ⊢
    rw [List.map_cons, List.find?_cons, List.find?_cons]
    obtain ⟨a1, a2⟩ := hA c (by simp)
    by_cases hcm : c.alias = m
    · have e1 : ((A c).alias == g m) = true := by rw [a2, hcm]; simp
      have e2 : (c.alias == m) = true := by simp [hcm]
      rw [e1, e2]
      simp [a1]
    · have e1 : ((A c).alias == g m) = false := by
        rw [a2]
        simp only [beq_eq_false_iff_ne, ne_eq]
        exact fun h => hcm (hinj c (by simp) h)
      have e2 : (c.alias == m) = false := by simp [hcm]
      rw [e1, e2]
      exact ih

/-- FORWARD transfer of the typing derivations along a renaming that keeps the resolution of the
mentions -/
theorem Typed.rename {s : List Cst} (g : String → String) (A : Cst → Cst) (hA : RenamesBy g A s)
    (hres : ∀ c ∈ s, ∀ m ∈ c.defn.mentions, findAliasL (s.map A) (g m) = findAliasL s m)
    {u : Nat} {t : String} (h : Typed s u t) : Typed (s.map A) u (g t) := by
  induction h with
  | @base c hc hk hd =>
    obtain ⟨a1, a2, a3, a4⟩ := hA c hc
    have := Typed.base (s := s.map A) (c := A c) (List.mem_map.2 ⟨c, hc, rfl⟩) (a2.trans hk) (by rw [a4, hd]; rfl)
    rw [a1, a3] at this
    exact this
  | @union c n ns t hc hk hd hs hall ih =>
    obtain ⟨a1, a2, _, a4⟩ := hA c hc
    have hdef : (A c).defn = .union (g n :: ns.map g) := by rw [a4, hd]; rfl
    have := Typed.union (s := s.map A) (c := A c) (n := g n) (ns := ns.map g) (t := g t)
      (List.mem_map.2 ⟨c, hc, rfl⟩) (a2.trans hk) hdef
      (by
        intro m' hm'
        rw [← List.map_cons (f := g)] at hm'
        obtain ⟨m, hm, rfl⟩ := List.mem_map.1 hm'
        rw [hres c hc m (by rw [hd]; exact hm)]
        exact hs m hm)
      (by
        intro m' hm' w hw
        rw [← List.map_cons (f := g)] at hm'
        obtain ⟨m, hm, rfl⟩ := List.mem_map.1 hm'
        rw [hres c hc m (by rw [hd]; exact hm)] at hw
        exact ih m hm w hw)
    rw [a1] at this
    exact this

/-- a left inverse of `g` on a finite list of names -/
def invOn (names : List String) (g : String → String) (y : String) : String :=
  (names.find? (fun a => g a == y)).getD y

theorem invOn_spec {names : List String} {g : String → String}
    (hinj : ∀ a ∈ names, ∀ b ∈ names, g a = g b → a = b) {a : String} (ha : a ∈ names) :
    invOn names g (g a) = a := by
  unfold invOn
  cases hf : names.find? (fun b => g b == g a) with
  | none =>
    have := List.find?_eq_none.1 hf a ha
    simp at this
  | some b =>
    have hb := List.mem_of_find?_eq_some hf
    have he : g b = g a := by simpa using List.find?_some hf
    simp [hinj b hb a ha he]

theorem renDef_inv {g g' : String → String} {d : Def} (h : ∀ m ∈ d.mentions, g' (g m) = m) :
    renDef g' (renDef g d) = d := by
  cases d with
  | union ns =>
    simp only [renDef, List.map_map]
    congr 1
    have : ∀ (l : List String), (∀ m ∈ l, g' (g m) = m) → l.map (g' ∘ g) = l := by
      intro l hl
      induction l with
      | nil => rfl
      | cons x xs ih =>
        rw [List.map_cons, ih (fun m hm => hl m (List.mem_cons_of_mem _ hm))]
        simp [hl x (by simp)]
    exact this ns h
  | empty => rfl
  | bad => rfl

theorem flatMap_map' {α β γ : Type} (f : α → β) (k : β → List γ) : ∀ l : List α, (l.map f).flatMap k = l.flatMap (fun x => k (f x))
  | [] => rfl
  | x :: xs => by rw [List.map_cons, List.flatMap_cons, List.flatMap_cons, flatMap_map' f k xs]

/-- **renaming is an isomorphism of the analysis.** `st` and `st'` are well-formed states (C07
invariant), the store of `st'` is the store of `st` renamed by `g` (aliases and mentions), and `g`
is injective on the names that occur in `st`. Then both states have the same dependency edges
and the same report up to `g` in the types. -/
theorem iso_of_renaming {st st' : St} (h : WF st) (h' : WF st') (g : String → String) (A : Cst → Cst)
    (hstore : st'.store = st.store.map A) (hA : RenamesBy g A st.store)
    (hinj : ∀ a ∈ namesOf st.store, ∀ b ∈ namesOf st.store, g a = g b → a = b) :
    st'.depEdges = st.depEdges ∧
    st'.report = st.report.map (fun r => (r.1, r.2.1, r.2.2.map g)) := by
  -- resolution is kept
  have hres : ∀ c ∈ st.store, ∀ m ∈ c.defn.mentions, findAliasL (st.store.map A) (g m) = findAliasL st.store m := by
    intro c hc m hm
    refine findAliasL_map g A m st.store (fun x hx => ⟨(hA x hx).1, (hA x hx).2.2.1⟩) ?_
    intro x hx he
    exact hinj _ (alias_mem_namesOf hx) _ (mention_mem_namesOf hc hm) he
  -- the inverse renaming
  let g' := invOn (namesOf st.store) g
  let A' : Cst → Cst := fun x => { x with alias := g' x.alias, defn := renDef g' x.defn }
  have hback : (st.store.map A).map A' = st.store := by
    rw [List.map_map]
    have : ∀ c ∈ st.store, (A' ∘ A) c = c := by
      intro c hc
      obtain ⟨a1, a2, a3, a4⟩ := hA c hc
      show ({ A c with alias := g' (A c).alias, defn := renDef g' (A c).defn } : Cst) = c
      have e1 : g' (A c).alias = c.alias := by rw [a3]; exact invOn_spec hinj (alias_mem_namesOf hc)
      have e2 : renDef g' (A c).defn = c.defn := by
        rw [a4]; exact renDef_inv (fun m hm => invOn_spec hinj (mention_mem_namesOf hc hm))
      rw [e1, e2]
      cases hAc : A c with
      | mk u al k d =>
        rw [hAc] at a1 a2
        cases c with
        | mk u0 al0 k0 d0 => simp at a1 a2 ⊢; exact ⟨a1, a2⟩
    conv => rhs; rw [← List.map_id st.store]
    exact List.map_congr_left this
  have hA' : RenamesBy g' A' (st.store.map A) := fun x _ => ⟨rfl, rfl, rfl, rfl⟩
  have hres' : ∀ c' ∈ st.store.map A, ∀ m' ∈ c'.defn.mentions,
      findAliasL ((st.store.map A).map A') (g' m') = findAliasL (st.store.map A) m' := by
    intro c' hc' m' hm'
    obtain ⟨c, hc, rfl⟩ := List.mem_map.1 hc'
    rw [(hA c hc).2.2.2, mentions_renDef] at hm'
    obtain ⟨m, hm, rfl⟩ := List.mem_map.1 hm'
    have e : g' (g m) = m := invOn_spec hinj (mention_mem_namesOf hc hm)
    rw [hback, e, hres c hc m hm]
  -- types
  have hty : ∀ u, (st'.infoFor u).ty = ((st.infoFor u).ty).map g := by
    intro u
    cases e : (st.infoFor u).ty with
    | some t =>
      have := Typed.rename g A hA hres (h.sync.sound u t e)
      rw [← hstore] at this
      exact h'.sync.complete u _ trivial this
    | none =>
      cases e' : (st'.infoFor u).ty with
      | none => rfl
      | some t' =>
        have := h'.sync.sound u t' e'
        rw [hstore] at this
        have := Typed.rename g' A' hA' hres' this
        rw [hback] at this
        rw [h.sync.complete u _ trivial this] at e
        cases e
  refine ⟨?_, ?_⟩
  · rw [depEdges_eq_store h', depEdges_eq_store h, hstore, flatMap_map']
    apply flatMap_congr'
    intro c hc
    obtain ⟨a1, _, _, a4⟩ := hA c hc
    rw [a1]
    congr 1
    unfold inputsOfL
    rw [a4, mentions_renDef, List.filterMap_map]
    congr 1
    apply filterMap_congr'
    intro m hm
    exact hres c hc m hm
  · unfold St.report
    rw [hstore, List.map_map, List.map_map]
    apply List.map_congr_left
    intro c hc
    obtain ⟨a1, _, _, _⟩ := hA c hc
    have hu : c.uid ∈ uids st.store := mem_uids.2 ⟨c, hc, rfl⟩
    have hu' : c.uid ∈ uids st'.store := by
      rw [hstore]; exact mem_uids.2 ⟨A c, List.mem_map.2 ⟨c, hc, rfl⟩, a1⟩
    have s1 := h.sync.status c.uid hu
    have s2 := h'.sync.status c.uid hu'
    unfold StatusOk at s1 s2
    simp only [Function.comp, a1]
    rw [s2, s1, hty c.uid]
    cases (st.infoFor c.uid).ty <;> rfl

/-! ### the freshness proviso for a simultaneous map -/

theorem lookup_none_of_not_key {m : List (String × String)} {n : String} (h : ∀ p ∈ m, p.1 ≠ n) : lookup m n = none := by
  unfold lookup
  rw [List.find?_eq_none.2 (fun p hp => by simpa using h p hp)]
  rfl

theorem inj_of_nodup_map {α β : Type} (g : α → β) : ∀ {l : List α}, (l.map g).Nodup → ∀ a ∈ l, ∀ b ∈ l, g a = g b → a = b
  | [], _, _, ha, _, _, _ => by cases ha
  | x :: xs, hn, a, ha, b, hb, he => by
    simp only [List.map_cons, List.nodup_cons] at hn
    rcases List.mem_cons.1 ha with e1 | ha' <;> rcases List.mem_cons.1 hb with e2 | hb'
    · rw [e1, e2]
    · exact (hn.1 (List.mem_map.2 ⟨b, hb', by rw [← he, e1]⟩)).elim
    · exact (hn.1 (List.mem_map.2 ⟨a, ha', by rw [he, e2]⟩)).elim
    · exact inj_of_nodup_map g hn.2 a ha' b hb' he

/-- a map whose keys are aliases, which keeps the aliases pairwise distinct, and none of whose new
aliases was mentioned as an unresolved name, is injective on the names that occur -/
theorem inj_of_fresh {s : List Cst} (m : List (String × String))
    (hkeys : ∀ p ∈ m, p.1 ∈ s.map (·.alias))
    (hdist : ((s.map (·.alias)).map (fun n => (lookup m n).getD n)).Nodup)
    (hproviso : ∀ c ∈ s, ∀ n ∈ c.defn.mentions, n ∉ s.map (·.alias) → ∀ a ∈ s.map (·.alias), (lookup m a).getD a ≠ n) :
    ∀ a ∈ namesOf s, ∀ b ∈ namesOf s, (lookup m a).getD a = (lookup m b).getD b → a = b := by
  have hfix : ∀ n, n ∉ s.map (·.alias) → (lookup m n).getD n = n := by
    intro n hn
    rw [lookup_none_of_not_key (fun p hp e => hn (by rw [← e]; exact hkeys p hp))]
    rfl
  have hcase : ∀ a ∈ namesOf s, a ∈ s.map (·.alias) ∨ (a ∉ s.map (·.alias) ∧ ∃ c ∈ s, a ∈ c.defn.mentions) := by
    intro a ha
    by_cases h : a ∈ s.map (·.alias)
    · exact Or.inl h
    · rcases List.mem_append.1 ha with h' | h'
      · exact absurd h' h
      · exact Or.inr ⟨h, List.mem_flatMap.1 h'⟩
  intro a ha b hb he
  rcases hcase a ha with h1 | ⟨h1, c1, hc1, hm1⟩ <;> rcases hcase b hb with h2 | ⟨h2, c2, hc2, hm2⟩
  · exact inj_of_nodup_map _ hdist a h1 b h2 he
  · rw [hfix b h2] at he
    exact absurd he (hproviso c2 hc2 b hm2 h2 a h1)
  · rw [hfix a h1] at he
    exact absurd he.symm (hproviso c1 hc1 a hm1 h1 b h2)
  · rw [hfix a h1, hfix b h2] at he
    exact he

end CCVerif.Schema
