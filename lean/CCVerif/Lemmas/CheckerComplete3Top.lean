import CCVerif.Lemmas.CheckerComplete3
import CCVerif.Lemmas.CheckerCompleteRec
/-!
Completeness of the checker model (C03 `check_complete_partial2`): the fragment `CFrag2` = the fragment
`CFrag` of Lemmas/CheckerCompleteTop plus filters, calls of term-functions / predicates (with and
without template parameters) and R{} under the bound hypothesis `RecBounded`, the induction over the tree, whole inputs, and the embedding `CFrag → CFrag2`.
-/
namespace CCVerif.Checker
open CCVerif.Syntax CCVerif.Types CCVerif.Spec

mutual
/-- the fragment of the second completeness theorem: the grammar's shape (as `Core1` / `Wf`); the recursive
terms R{} carry the bound hypothesis `RecBounded` (the checker bounds the type deduction by
`typeDeductionDepth` rounds, the rules do not). Everything: globals, bound variables, radicals, literals (including `∅`), arithmetic, card,
comparisons, =/≠, ∈/∉, ⊂/⊆/⊄, connectives, quantifiers with a variable / tuple pattern / enumerated
declaration, D{}, I{}, ℬ, ×, tuples, enumerations, bool, debool, red, pr, Pr, ∪ ∩ \ ∆, filters Fi (both
forms), calls of term-functions and predicates (with and without template parameters; side conditions
exactly those of `Core1.sCall` / `Core1.lCall`: the context is `CtxOk`, a call in a set position names a
global whose declared type is not LOGIC, a call in a logic position one whose type is LOGIC). -/
inductive CFrag2 (Γ : Ctx) : Cat → Ast → Prop where
  | sGlobal {tok : Tok} {x : String} {lo hi : Int} {ks : List Ast} :
      tok = .ID_GLOBAL ∨ tok = .ID_FUNCTION ∨ tok = .ID_PREDICATE → CFrag2 Γ .S (.node tok (.text x) lo hi ks)
  | sLocal {x : String} {lo hi : Int} {ks : List Ast} : CFrag2 Γ .S (.node .ID_LOCAL (.text x) lo hi ks)
  | sRadical {x : String} {lo hi : Int} {ks : List Ast} :
      (CtxOk Γ → CleanId Γ x) → CFrag2 Γ .S (.node .ID_RADICAL (.text x) lo hi ks)
  | sInt {d : TokData} {lo hi : Int} {ks : List Ast} : CFrag2 Γ .S (.node .LIT_INTEGER d lo hi ks)
  | sIntset {d : TokData} {lo hi : Int} {ks : List Ast} : CFrag2 Γ .S (.node .LIT_INTSET d lo hi ks)
  | sEmpty {d : TokData} {lo hi : Int} {ks : List Ast} : CFrag2 Γ .S (.node .LIT_EMPTYSET d lo hi ks)
  | sArith {tok : Tok} {d : TokData} {lo hi : Int} {a b : Ast} :
      tok = .PLUS ∨ tok = .MINUS ∨ tok = .MULTIPLY → CFrag2 Γ .S a → CFrag2 Γ .S b → CFrag2 Γ .S (.node tok d lo hi [a, b])
  | sUnary {tok : Tok} {d : TokData} {lo hi : Int} {a : Ast} :
      tok = .CARD ∨ tok = .BOOLEAN ∨ tok = .DEBOOL ∨ tok = .REDUCE ∨ tok = .BOOL →
      CFrag2 Γ .S a → CFrag2 Γ .S (.node tok d lo hi [a])
  | sSetbin {tok : Tok} {d : TokData} {lo hi : Int} {a b : Ast} :
      tok = .UNION ∨ tok = .INTERSECTION ∨ tok = .SET_MINUS ∨ tok = .SYMMINUS →
      CFrag2 Γ .S a → CFrag2 Γ .S b → CFrag2 Γ .S (.node tok d lo hi [a, b])
  | sEnum {d : TokData} {lo hi : Int} {a : Ast} {ks : List Ast} :
      (∀ k, k ∈ a :: ks → CFrag2 Γ .S k) → CFrag2 Γ .S (.node .NT_ENUMERATION d lo hi (a :: ks))
  | sMany {tok : Tok} {d : TokData} {lo hi : Int} {a b : Ast} {ks : List Ast} :
      tok = .DECART ∨ tok = .NT_TUPLE →
      (∀ k, k ∈ a :: b :: ks → CFrag2 Γ .S k) → CFrag2 Γ .S (.node tok d lo hi (a :: b :: ks))
  | sProj {tok : Tok} {idx : List Int} {lo hi : Int} {a : Ast} :
      tok = .BIGPR ∨ tok = .SMALLPR → CFrag2 Γ .S a → CFrag2 Γ .S (.node tok (.tuple idx) lo hi [a])
  | sDeclarative {d : TokData} {lo hi : Int} {p dom body : Ast} :
      CFrag2 Γ .D p → CFrag2 Γ .S dom → CFrag2 Γ .L body → CFrag2 Γ .S (.node .NT_DECLARATIVE_EXPR d lo hi [p, dom, body])
  | lNot {d : TokData} {lo hi : Int} {a : Ast} : CFrag2 Γ .L a → CFrag2 Γ .L (.node .NOT d lo hi [a])
  | lBin {tok : Tok} {d : TokData} {lo hi : Int} {a b : Ast} :
      tok = .AND ∨ tok = .OR ∨ tok = .IMPLICATION ∨ tok = .EQUIVALENT →
      CFrag2 Γ .L a → CFrag2 Γ .L b → CFrag2 Γ .L (.node tok d lo hi [a, b])
  | lOrder {tok : Tok} {d : TokData} {lo hi : Int} {a b : Ast} :
      tok = .GREATER ∨ tok = .LESSER ∨ tok = .GREATER_OR_EQ ∨ tok = .LESSER_OR_EQ →
      CFrag2 Γ .S a → CFrag2 Γ .S b → CFrag2 Γ .L (.node tok d lo hi [a, b])
  | lEqual {tok : Tok} {d : TokData} {lo hi : Int} {a b : Ast} :
      tok = .EQUAL ∨ tok = .NOTEQUAL → CFrag2 Γ .S a → CFrag2 Γ .S b → CFrag2 Γ .L (.node tok d lo hi [a, b])
  | lElem {tok : Tok} {d : TokData} {lo hi : Int} {a b : Ast} :
      tok = .IN ∨ tok = .NOTIN → CFrag2 Γ .S a → CFrag2 Γ .S b → CFrag2 Γ .L (.node tok d lo hi [a, b])
  | lSubset {tok : Tok} {d : TokData} {lo hi : Int} {a b : Ast} :
      tok = .SUBSET ∨ tok = .SUBSET_OR_EQ ∨ tok = .NOTSUBSET →
      CFrag2 Γ .S a → CFrag2 Γ .S b → CFrag2 Γ .L (.node tok d lo hi [a, b])
  | lQuant {tok : Tok} {d : TokData} {lo hi : Int} {p dom body : Ast} :
      tok = .FORALL ∨ tok = .EXISTS → CFrag2 Γ .DE p → CFrag2 Γ .S dom → CFrag2 Γ .L body →
      CFrag2 Γ .L (.node tok d lo hi [p, dom, body])
  | dLocal {x : String} {lo hi : Int} {ks : List Ast} : CFrag2 Γ .D (.node .ID_LOCAL (.text x) lo hi ks)
  | dTuple {d : TokData} {lo hi : Int} {ks : List Ast} :
      (∀ k, k ∈ ks → CFrag2 Γ .D k) → CFrag2 Γ .D (.node .NT_TUPLE_DECL d lo hi ks)
  | deOfD {k : Ast} : CFrag2 Γ .D k → CFrag2 Γ .DE k
  | deEnum {d : TokData} {lo hi : Int} {ks : List Ast} :
      (∀ k, k ∈ ks → CFrag2 Γ .D k) → CFrag2 Γ .DE (.node .NT_ENUM_DECL d lo hi ks)
  | sImperative {d : TokData} {lo hi : Int} {value : Ast} {blocks : List Ast} :
      CFrag2 Γ .S value → (∀ b, b ∈ blocks → CFrag2B Γ b) →
      CFrag2 Γ .S (.node .NT_IMPERATIVE_EXPR d lo hi (value :: blocks))
  /-- `Fi i,j [P1, …](A)` / `Fi i,j [P](A)` -/
  | sFilter {idx : List Int} {lo hi : Int} {params : List Ast} {arg : Ast} :
      idx ≠ [] → params ≠ [] → (∀ k, k ∈ params → CFrag2 Γ .S k) → CFrag2 Γ .S arg →
      CFrag2 Γ .S (.node .FILTER (.tuple idx) lo hi (params ++ [arg]))
  /-- a call of a term-function (declared type not LOGIC), with or without template parameters -/
  | sCall {d : TokData} {lo hi lf hf : Int} {tf : Tok} {f : String} {kf as : List Ast} :
      CtxOk Γ → lookup Γ.types f ≠ some .logic → (∀ k, k ∈ as → CFrag2 Γ .S k) →
      CFrag2 Γ .S (.node .NT_FUNC_CALL d lo hi (.node tf (.text f) lf hf kf :: as))
  /-- a call of a predicate (declared type LOGIC) -/
  | lCall {d : TokData} {lo hi lf hf : Int} {tf : Tok} {f : String} {kf as : List Ast} :
      CtxOk Γ → lookup Γ.types f = some .logic → (∀ k, k ∈ as → CFrag2 Γ .S k) →
      CFrag2 Γ .L (.node .NT_FUNC_CALL d lo hi (.node tf (.text f) lf hf kf :: as))
  /-- `R{p := init | step}` under the bound hypothesis `RecBounded` (Lemmas/CheckerCompleteRec): the join chain
  of the rule stabilises within `typeDeductionDepth` rounds -/
  | sRecShort {d : TokData} {lo hi : Int} {p init step : Ast} :
      CFrag2 Γ .D p → CFrag2 Γ .S init → CFrag2 Γ .S step → RecBounded Γ p step →
      CFrag2 Γ .S (.node .NT_RECURSIVE_SHORT d lo hi [p, init, step])
  /-- `R{p := init | cond | step}`, same hypothesis -/
  | sRecFull {d : TokData} {lo hi : Int} {p init cond step : Ast} :
      CFrag2 Γ .D p → CFrag2 Γ .S init → CFrag2 Γ .L cond → CFrag2 Γ .S step → RecBounded Γ p step →
      CFrag2 Γ .S (.node .NT_RECURSIVE_FULL d lo hi [p, init, cond, step])
/-- blocks of an imperative term -/
inductive CFrag2B (Γ : Ctx) : Ast → Prop where
  | iterate {d : TokData} {lo hi : Int} {p dom : Ast} :
      CFrag2 Γ .D p → CFrag2 Γ .S dom → CFrag2B Γ (.node .ITERATE d lo hi [p, dom])
  | assign {d : TokData} {lo hi : Int} {p ex : Ast} :
      CFrag2 Γ .D p → CFrag2 Γ .S ex → CFrag2B Γ (.node .ASSIGN d lo hi [p, ex])
  | cond {b : Ast} : CFrag2 Γ .L b → CFrag2B Γ b
end

/-! ## the fragment is inside the fragment of the soundness theorem -/

theorem cfrag2_core1_n (Γ : Ctx) : ∀ n : Nat,
    (∀ c e, Ast.depth e ≤ n → CFrag2 Γ c e → Core1 Γ c e) ∧ (∀ b, Ast.depth b ≤ n → CFrag2B Γ b → Core1B Γ b)
  | 0 => ⟨fun _ e h _ => absurd (depth_pos e) (by omega), fun b h _ => absurd (depth_pos b) (by omega)⟩
  | n+1 => by
    obtain ⟨ih, ihB⟩ := cfrag2_core1_n Γ n
    have main : ∀ c e, Ast.depth e ≤ n + 1 → CFrag2 Γ c e → Core1 Γ c e := by
      intro c e hd hc
      cases hc with
      | sGlobal h => exact .sGlobal h
      | sLocal => exact .sLocal
      | sRadical h => exact .sRadical h
      | sInt => exact .sInt
      | sIntset => exact .sIntset
      | sEmpty => exact .sEmpty
      | sArith h ca cb => exact .sArith h (ih _ _ (dk hd (by simp)) ca) (ih _ _ (dk hd (by simp)) cb)
      | sUnary h ca => exact .sUnary h (ih _ _ (dk hd (by simp)) ca)
      | sSetbin h ca cb => exact .sSetbin h (ih _ _ (dk hd (by simp)) ca) (ih _ _ (dk hd (by simp)) cb)
      | sEnum hk => exact .sEnum (fun k hm => ih _ _ (dk hd hm) (hk k hm))
      | sMany h hk => exact .sMany h (fun k hm => ih _ _ (dk hd hm) (hk k hm))
      | sProj h ca => exact .sProj h (ih _ _ (dk hd (by simp)) ca)
      | sDeclarative cp cd cb =>
        exact .sDeclarative (ih _ _ (dk hd (by simp)) cp) (ih _ _ (dk hd (by simp)) cd) (ih _ _ (dk hd (by simp)) cb)
      | lNot ca => exact .lNot (ih _ _ (dk hd (by simp)) ca)
      | lBin h ca cb => exact .lBin h (ih _ _ (dk hd (by simp)) ca) (ih _ _ (dk hd (by simp)) cb)
      | lOrder h ca cb => exact .lOrder h (ih _ _ (dk hd (by simp)) ca) (ih _ _ (dk hd (by simp)) cb)
      | lEqual h ca cb => exact .lEqual h (ih _ _ (dk hd (by simp)) ca) (ih _ _ (dk hd (by simp)) cb)
      | lElem h ca cb => exact .lElem h (ih _ _ (dk hd (by simp)) ca) (ih _ _ (dk hd (by simp)) cb)
      | lSubset h ca cb => exact .lSubset h (ih _ _ (dk hd (by simp)) ca) (ih _ _ (dk hd (by simp)) cb)
      | lQuant h cp cd cb =>
        exact .lQuant h (ih _ _ (dk hd (by simp)) cp) (ih _ _ (dk hd (by simp)) cd) (ih _ _ (dk hd (by simp)) cb)
      | dLocal => exact .dLocal
      | dTuple hk => exact .dTuple (fun k hm => ih _ _ (dk hd hm) (hk k hm))
      | deOfD h =>
        cases h with
        | dLocal => exact .deOfD .dLocal
        | dTuple hk => exact .deOfD (.dTuple (fun k hm => ih _ _ (dk hd hm) (hk k hm)))
      | deEnum hk => exact .deEnum (fun k hm => ih _ _ (dk hd hm) (hk k hm))
      | sImperative cv cb =>
        exact .sImperative (ih _ _ (dk hd (by simp)) cv) (fun b hm => ihB _ (dk hd (by simp [hm])) (cb b hm))
      | sFilter hidx hpne hk ca =>
        exact .sFilter hidx hpne (fun k hm => ih _ _ (dk hd (by simp [hm])) (hk k hm)) (ih _ _ (dk hd (by simp)) ca)
      | sCall hctx hnl hk => exact .sCall hctx hnl (fun k hm => ih _ _ (dk hd (by simp [hm])) (hk k hm))
      | lCall hctx hl hk => exact .lCall hctx hl (fun k hm => ih _ _ (dk hd (by simp [hm])) (hk k hm))
      | sRecShort cp ci cs _ =>
        exact .sRecShort (ih _ _ (dk hd (by simp)) cp) (ih _ _ (dk hd (by simp)) ci) (ih _ _ (dk hd (by simp)) cs)
      | sRecFull cp ci cc cs _ =>
        exact .sRecFull (ih _ _ (dk hd (by simp)) cp) (ih _ _ (dk hd (by simp)) ci) (ih _ _ (dk hd (by simp)) cc)
          (ih _ _ (dk hd (by simp)) cs)
    refine ⟨main, ?_⟩
    intro b hd hc
    cases hc with
    | iterate cp cd => exact .iterate (ih _ _ (dk hd (by simp)) cp) (ih _ _ (dk hd (by simp)) cd)
    | assign cp cd => exact .assign (ih _ _ (dk hd (by simp)) cp) (ih _ _ (dk hd (by simp)) cd)
    | cond cl => exact .cond (main _ _ hd cl)

theorem cfrag2_core1 {Γ : Ctx} {c : Cat} {e : Ast} (h : CFrag2 Γ c e) : Core1 Γ c e :=
  (cfrag2_core1_n Γ (Ast.depth e)).1 c e (Nat.le_refl _) h

theorem cfrag2B_core1 {Γ : Ctx} {b : Ast} (h : CFrag2B Γ b) : Core1B Γ b :=
  (cfrag2_core1_n Γ (Ast.depth b)).2 b (Nat.le_refl _) h

/-! ## the induction -/

theorem cfrag2_decl (Γ : Ctx) : ∀ (n : Nat) (e : Ast), Ast.depth e ≤ n → CFrag2 Γ .D e → CD Γ n .D e
  | 0, e, h, _ => absurd (depth_pos e) (by omega)
  | n+1, e, hd, hc => by
    cases hc with
    | dLocal => exact dlocal_c
    | dTuple hk => exact dtuple_c (fun k hm => cfrag2_decl Γ n k (dk hd hm) (hk k hm))

theorem cfrag2_declE (Γ : Ctx) : ∀ (n : Nat) (e : Ast), Ast.depth e ≤ n → CFrag2 Γ .DE e → CD Γ n .DE e
  | 0, e, h, _ => absurd (depth_pos e) (by omega)
  | n+1, e, hd, hc => by
    cases hc with
    | deOfD h => exact (cfrag2_decl Γ (n+1) e hd h).toDE
    | deEnum hk => exact deenum_c (fun k hm => cfrag2_decl Γ n k (dk hd hm) (hk k hm))

theorem CFrag2.logic_id {Γ : Ctx} {e : Ast} (hc : CFrag2 Γ .L e) : e.id ≠ .ITERATE ∧ e.id ≠ .ASSIGN :=
  Core1.logic_id (cfrag2_core1 hc)

theorem cfrag2_complete (Γ : Ctx) : ∀ (n : Nat),
    (∀ e, Ast.depth e ≤ n → CFrag2 Γ .S e → CV Γ n .S e) ∧ (∀ e, Ast.depth e ≤ n → CFrag2 Γ .L e → CV Γ n .L e) ∧
    (∀ b, Ast.depth b ≤ n → CFrag2B Γ b → CB Γ n b)
  | 0 => ⟨fun e h _ => absurd (depth_pos e) (by omega), fun e h _ => absurd (depth_pos e) (by omega),
          fun e h _ => absurd (depth_pos e) (by omega)⟩
  | n+1 => by
    obtain ⟨ihS, ihL, ihB⟩ := cfrag2_complete Γ n
    have sS : ∀ {e}, CFrag2 Γ .S e → VOk Γ n .S e := fun h => (core1_sound Γ n).1 _ (cfrag2_core1 h)
    have sD : ∀ {e}, CFrag2 Γ .D e → DEOk Γ n e := fun h => (core1_decl Γ n _ (cfrag2_core1 h)).toDE
    have sDE : ∀ {e}, CFrag2 Γ .DE e → DEOk Γ n e := fun h => core1_declE Γ n _ (cfrag2_core1 h)
    have hL : ∀ e, Ast.depth e ≤ n + 1 → CFrag2 Γ .L e → CV Γ (n+1) .L e := by
      intro e hd hc
      refine CV.of0 ?_ ((core1_sound Γ (n+1)).2.1 e (cfrag2_core1 hc))
      cases hc with
      | lNot ca => exact not_c (ihL _ (dk hd (by simp)) ca)
      | lBin htok ca cb => exact logbin_c htok (ihL _ (dk hd (by simp)) ca) (ihL _ (dk hd (by simp)) cb)
      | lOrder htok ca cb => exact order_c htok (ihS _ (dk hd (by simp)) ca) (ihS _ (dk hd (by simp)) cb)
      | lEqual htok ca cb => exact equal_c htok (ihS _ (dk hd (by simp)) ca) (ihS _ (dk hd (by simp)) cb)
      | lElem htok ca cb => exact elem_c htok (ihS _ (dk hd (by simp)) ca) (ihS _ (dk hd (by simp)) cb)
      | lSubset htok ca cb => exact subset_c htok (ihS _ (dk hd (by simp)) ca) (ihS _ (dk hd (by simp)) cb)
      | lQuant htok cp cd cb =>
        exact quant_c htok (cfrag2_declE Γ n _ (dk hd (by simp)) cp) (sDE cp) (ihS _ (dk hd (by simp)) cd) (sS cd)
          (ihL _ (dk hd (by simp)) cb)
      | lCall hctx _ hk =>
        exact call_c hctx (fun k hm => ihS _ (dk hd (by simp [hm])) (hk k hm)) (fun k hm => sS (hk k hm))
    refine ⟨?_, hL, ?_⟩
    · intro e hd hc
      refine CV.of0 ?_ ((core1_sound Γ (n+1)).1 e (cfrag2_core1 hc))
      cases hc with
      | sGlobal htok => exact global_c htok
      | sLocal => exact local_c
      | sRadical hx => exact radical_c
      | sInt => exact int_c
      | sIntset => exact intset_c
      | sEmpty => exact emptyset_c
      | sArith htok ca cb => exact arith_c htok (ihS _ (dk hd (by simp)) ca) (ihS _ (dk hd (by simp)) cb)
      | sUnary htok ca =>
        have ia := ihS _ (dk hd (by simp)) ca
        rcases htok with rfl | rfl | rfl | rfl | rfl
        · exact card_c ia
        · exact boolean_c ia
        · exact debool_c ia
        · exact reduce_c ia
        · exact enumeration_c (Or.inr rfl) (fun k hm => by simp at hm; subst hm; exact ia)
      | sSetbin htok ca cb => exact setbin_c htok (ihS _ (dk hd (by simp)) ca) (ihS _ (dk hd (by simp)) cb)
      | sEnum hk => exact enumeration_c (Or.inl rfl) (fun k hm => ihS _ (dk hd hm) (hk k hm))
      | sMany htok hk =>
        rcases htok with rfl | rfl
        · exact decart_c (fun k hm => ihS _ (dk hd hm) (hk k hm))
        · exact tuple_c (fun k hm => ihS _ (dk hd hm) (hk k hm))
      | sProj htok ca =>
        rcases htok with rfl | rfl
        · exact bigpr_c (ihS _ (dk hd (by simp)) ca)
        · exact smallpr_c (ihS _ (dk hd (by simp)) ca)
      | sDeclarative cp cd cb =>
        exact declarative_c (cfrag2_decl Γ n _ (dk hd (by simp)) cp) (sD cp) (ihS _ (dk hd (by simp)) cd) (sS cd)
          (ihL _ (dk hd (by simp)) cb)
      | sImperative cv cb =>
        exact imperative_c (ihS _ (dk hd (by simp)) cv) (fun b hm => ihB _ (dk hd (by simp [hm])) (cb b hm))
      | sFilter _ _ hk ca =>
        exact filter_c (fun k hm => ihS _ (dk hd (by simp [hm])) (hk k hm)) (ihS _ (dk hd (by simp)) ca)
      | sCall hctx _ hk =>
        exact call_c hctx (fun k hm => ihS _ (dk hd (by simp [hm])) (hk k hm)) (fun k hm => sS (hk k hm))
      | sRecShort cp ci cs hb =>
        exact recShort_c (cfrag2_decl Γ n _ (dk hd (by simp)) cp) (sD cp) (ihS _ (dk hd (by simp)) ci) (sS ci)
          (ihS _ (dk hd (by simp)) cs) (sS cs) hb
      | sRecFull cp ci cc cs hb =>
        exact recFull_c (cfrag2_decl Γ n _ (dk hd (by simp)) cp) (sD cp) (ihS _ (dk hd (by simp)) ci) (sS ci)
          (ihL _ (dk hd (by simp)) cc) (ihS _ (dk hd (by simp)) cs) (sS cs) hb
    · intro b hd hc
      cases hc with
      | iterate cp cd =>
        exact iterate_c (cfrag2_decl Γ n _ (dk hd (by simp)) cp) (sD cp) (ihS _ (dk hd (by simp)) cd) (sS cd)
      | assign cp cd =>
        exact assign_c (cfrag2_decl Γ n _ (dk hd (by simp)) cp) (sD cp) (ihS _ (dk hd (by simp)) cd) (sS cd)
      | cond cl => exact cond_c (hL _ hd cl) (CFrag2.logic_id cl).1 (CFrag2.logic_id cl).2

/-! ## whole inputs -/

/-- an expression or a function definition; the index is the list of declared argument names -/
inductive CFrag2Args (Γ : Ctx) : List String → List Ast → Prop where
  | nil : CFrag2Args Γ [] []
  | cons {x : String} {xs : List String} {d : TokData} {lo hi ll hl : Int} {kl : List Ast} {dom : Ast} {ds : List Ast} :
      CFrag2 Γ .S dom → CFrag2Args Γ xs ds →
      CFrag2Args Γ (x :: xs) (.node .NT_ARG_DECL d lo hi [.node .ID_LOCAL (.text x) ll hl kl, dom] :: ds)

inductive CFrag2Def (Γ : Ctx) : List String → Ast → Prop where
  | expr {e : Ast} : CFrag2 Γ .S e ∨ CFrag2 Γ .L e → CFrag2Def Γ [] e
  | funcdef {xs : List String} {d da : TokData} {lo hi la ha : Int} {decls : List Ast} {body : Ast} :
      decls ≠ [] → CFrag2Args Γ xs decls → (CFrag2 Γ .S body ∨ CFrag2 Γ .L body) →
      CFrag2Def Γ xs (.node .NT_FUNC_DEFINITION d lo hi [.node .NT_ARGUMENTS da la ha decls, body])

theorem CFrag2Args.core1 {Γ : Ctx} {xs : List String} {ds : List Ast} (h : CFrag2Args Γ xs ds) :
    ∀ k, k ∈ ds → Core1Arg Γ k := by
  induction h with
  | nil => intro k hk; cases hk
  | cons hd _ ih =>
    intro k hk
    rcases List.mem_cons.mp hk with rfl | hk
    · exact .mk (cfrag2_core1 hd)
    · exact ih k hk

theorem CFrag2Args.argsC {Γ : Ctx} {m : Nat} {xs : List String} {ds : List Ast} (h : CFrag2Args Γ xs ds)
    (hcv : ∀ e, Ast.depth e ≤ m + 1 → CFrag2 Γ .S e → CV Γ (m+1) .S e) :
    (∀ k, k ∈ ds → Ast.depth k ≤ m + 2) → ArgsC Γ m xs ds := by
  induction h with
  | nil => intro _; exact .nil
  | cons hd _ ih =>
    intro hdep
    have h0 := hdep _ (List.mem_cons_self)
    refine .cons ⟨⟨_, _, _, _, _, _, _, rfl, hcv _ (dk h0 (by simp)) hd,
      (core1_sound Γ (m+1)).1 _ (cfrag2_core1 hd)⟩⟩ (ih (fun k hk => hdep k (by simp [hk])))

/-- a whole input: definition, `X1:==`, `D1:==def`, `S1::=dom` -/
inductive CFrag2Top (Γ : Ctx) : List String → Ast → Prop where
  | ofDef {xs : List String} {e : Ast} : CFrag2Def Γ xs e → CFrag2Top Γ xs e
  | define1 {d : TokData} {lo hi ln hn : Int} {tn : Tok} {x : String} {kn : List Ast} :
      CFrag2Top Γ [] (.node .PUNC_DEFINE d lo hi [.node tn (.text x) ln hn kn])
  | define2 {xs : List String} {d : TokData} {lo hi : Int} {nm ex : Ast} :
      CFrag2Def Γ xs ex → CFrag2Top Γ xs (.node .PUNC_DEFINE d lo hi [nm, ex])
  | struct {d : TokData} {lo hi : Int} {nm ex : Ast} :
      CFrag2 Γ .S ex → CFrag2Top Γ [] (.node .PUNC_STRUCT d lo hi [nm, ex])

theorem CFrag2Def.core1 {Γ : Ctx} {xs : List String} {e : Ast} (h : CFrag2Def Γ xs e) : Core1Def Γ e := by
  cases h with
  | expr h => exact .expr (h.imp cfrag2_core1 cfrag2_core1)
  | funcdef _ ha hb => exact .funcdef ha.core1 (hb.imp cfrag2_core1 cfrag2_core1)

theorem CFrag2Top.core1 {Γ : Ctx} {xs : List String} {e : Ast} (h : CFrag2Top Γ xs e) : Core1Top Γ e := by
  cases h with
  | ofDef h => exact .ofDef h.core1
  | define1 => exact .define1
  | define2 h => exact .define2 h.core1
  | struct h => exact .struct (cfrag2_core1 h)

theorem cfrag2_expr_top (Γ : Ctx) {e : Ast} (hc : CFrag2 Γ .S e ∨ CFrag2 Γ .L e) (n : Nat) (hd : Ast.depth e ≤ n) :
    CT Γ n [] e := by
  intro p τ args htop _ hp
  have hid : e.id ≠ .NT_FUNC_DEFINITION ∧ e.id ≠ .PUNC_DEFINE ∧ e.id ≠ .PUNC_STRUCT := by
    rcases hc with hc | hc
    · exact core1_id (cfrag2_core1 hc) (Or.inl rfl)
    · exact core1_id (cfrag2_core1 hc) (Or.inr rfl)
  have hop : isOperandPos p = false := by rcases hp with rfl | rfl <;> rfl
  have hmis : emptySetMisused p = false := by rcases hp with rfl | rfl <;> decide
  cases htop with
  | expr _ _ _ ht =>
    rcases hc with hc | hc
    · obtain ⟨s', r, hcur, m⟩ := (cfrag2_complete Γ n).1 e hd hc p {} {} τ ht goodSt_init relC_init
        (fun _ h => by rw [hop] at h; cases h) (fun h => by rw [hmis] at h; cases h)
      exact ⟨s', r, hcur, m.2.args⟩
    · obtain ⟨s', r, hcur, m⟩ := (cfrag2_complete Γ n).2.1 e hd hc p {} {} τ ht goodSt_init relC_init
        (fun h => by cases h) (fun h => by rw [hmis] at h; cases h)
      exact ⟨s', r, hcur, m.2.args⟩
  | funcdef _ _ => exact absurd rfl hid.1
  | defineEmpty => exact absurd rfl hid.2.1
  | define _ _ _ => exact absurd rfl hid.2.1
  | struct _ _ => exact absurd rfl hid.2.2

theorem cfrag2_def_top (Γ : Ctx) {xs : List String} {e : Ast} (hc : CFrag2Def Γ xs e) (n : Nat) (hd : Ast.depth e ≤ n) :
    CT Γ n xs e := by
  cases hc with
  | expr h => exact cfrag2_expr_top Γ h n hd
  | funcdef hne ha hb =>
    rename_i d da lo hi la ha' decls body
    intro p τ args htop hxs _
    have h4 : 4 ≤ n := by
      cases ha with
      | nil => exact absurd rfl hne
      | cons hdom _ =>
        have := depth_pos ‹Ast›
        simp only [Ast.depth, Ast.depth.depthList] at hd
        omega
    obtain ⟨m, rfl⟩ : ∃ m, n = m + 4 := ⟨n - 4, by omega⟩
    have hA : Ast.depth (.node .NT_ARGUMENTS da la ha' decls) ≤ m + 3 := dk hd (by simp)
    have hB : Ast.depth body ≤ m + 3 := dk hd (by simp)
    have hargs := ha.argsC (m := m) (cfrag2_complete Γ (m+1)).1 (fun k hk => dk hA hk)
    rcases hb with hb | hb
    · exact funcdef_c hargs ((cfrag2_complete Γ (m+3)).1 body hB hb) htop hxs
    · exact funcdef_c hargs ((cfrag2_complete Γ (m+3)).2.1 body hB hb) htop hxs

theorem cfrag2_top (Γ : Ctx) {xs : List String} {e : Ast} (hc : CFrag2Top Γ xs e) (n : Nat) (hd : Ast.depth e ≤ n) :
    ∀ (τ : ExprTy) (args : List (String × Ty)), HasTopType Γ e τ args → args.map Prod.fst = xs →
    ∃ s', visit Γ n none e {} = (.ok (), s') ∧ s'.cur = τ ∧ s'.args = args := by
  intro τ args htop hxs
  cases n with
  | zero => exact absurd (depth_pos e) (by omega)
  | succ n =>
  cases hc with
  | ofDef h => exact cfrag2_def_top Γ h (n+1) hd none τ args htop hxs (Or.inl rfl)
  | define1 =>
    rename_i d lo hi ln hn tn x kn
    cases htop with
    | defineEmpty => exact ⟨_, rfl, rfl, rfl⟩
    | expr _ h2 _ _ => exact absurd rfl h2
  | define2 h =>
    rename_i d lo hi nm ex
    have hdid := core1_def_id h.core1
    cases htop with
    | define _ _ h' =>
      obtain ⟨s1, r1, hcur, hargs⟩ := cfrag2_def_top Γ h n (dk hd (by simp)) (some .PUNC_DEFINE) τ args h' hxs (Or.inr rfl)
      change ∃ s', viGlobalDeclaration (visit Γ n) (.node .PUNC_DEFINE d lo hi [nm, ex]) {} = _ ∧ _
      show ∃ s', (M.bind (childType (visit Γ n) (.node .PUNC_DEFINE d lo hi [nm, ex]) 1) fun t => setCur t) {} = _ ∧ _
      refine bind_ex (childType_fwd kid1 r1) ⟨_, rfl, hcur, hargs⟩
    | expr _ h2 _ _ => exact absurd rfl h2
  | struct h =>
    rename_i d lo hi nm ex
    cases htop with
    | struct hshape ht =>
      rename_i t
      change ∃ s', viGlobalDeclaration (visit Γ n) (.node .PUNC_STRUCT d lo hi [nm, ex]) {} = _ ∧ _
      unfold viGlobalDeclaration
      have hid : ((Ast.node Tok.PUNC_STRUCT d lo hi [nm, ex]).id == Tok.PUNC_STRUCT) = true := rfl
      have hso : structOk (.node .PUNC_STRUCT d lo hi [nm, ex]) = true := by
        have : isStructureDomain (Ast.depth ex + 1) ex = true := by
          rw [isStructureDomain_eq, depth_eq_spec]; exact hshape
        simpa [structOk, Ast.kids, Ast.kid] using this
      simp only [hid, if_true, hso, Bool.not_true, Bool.false_eq_true, if_false]
      obtain ⟨s1, r1, m1⟩ := childType_cv kid1 ((cfrag2_complete Γ n).1 ex (dk hd (by simp)) h) ht goodSt_init relC_init
        (fun _ _ => ⟨_, rfl⟩) (nomis (t := .PUNC_STRUCT) (by decide))
      refine bind_ex r1 (bind_ex (expectTy_fwd _ _ _) ⟨_, rfl, rfl, ?_⟩)
      exact m1.2.args
    | expr _ _ h3 _ => exact absurd rfl h3

/-- completeness on the fragment: a typable whole input is accepted with exactly that type and the
declared arguments of the derivation (whose names are the ones written in the input) -/
theorem cfrag2_check_complete (Γ : Ctx) {xs : List String} {e : Ast} (hc : CFrag2Top Γ xs e)
    (τ : ExprTy) (args : List (String × Ty)) (htop : HasTopType Γ e τ args) (hxs : args.map Prod.fst = xs) :
    (check Γ e).out = .ok τ ∧ (check Γ e).args = args := by
  obtain ⟨s', r, hcur, hargs⟩ := cfrag2_top Γ hc (Ast.depth e + 1) (by omega) τ args htop hxs
  unfold check checkWithFuel
  rw [r]
  dsimp only
  exact ⟨by rw [hcur], hargs⟩

/-! ## the old fragment is inside the new one -/

theorem cfrag_cfrag2_n (Γ : Ctx) : ∀ n : Nat,
    (∀ c e, Ast.depth e ≤ n → CFrag Γ c e → CFrag2 Γ c e) ∧ (∀ b, Ast.depth b ≤ n → CFragB Γ b → CFrag2B Γ b)
  | 0 => ⟨fun _ e h _ => absurd (depth_pos e) (by omega), fun b h _ => absurd (depth_pos b) (by omega)⟩
  | n+1 => by
    obtain ⟨ih, ihB⟩ := cfrag_cfrag2_n Γ n
    have main : ∀ c e, Ast.depth e ≤ n + 1 → CFrag Γ c e → CFrag2 Γ c e := by
      intro c e hd hc
      cases hc with
      | sGlobal h => exact .sGlobal h
      | sLocal => exact .sLocal
      | sRadical h => exact .sRadical h
      | sInt => exact .sInt
      | sIntset => exact .sIntset
      | sEmpty => exact .sEmpty
      | sArith h ca cb => exact .sArith h (ih _ _ (dk hd (by simp)) ca) (ih _ _ (dk hd (by simp)) cb)
      | sUnary h ca => exact .sUnary h (ih _ _ (dk hd (by simp)) ca)
      | sSetbin h ca cb => exact .sSetbin h (ih _ _ (dk hd (by simp)) ca) (ih _ _ (dk hd (by simp)) cb)
      | sEnum hk => exact .sEnum (fun k hm => ih _ _ (dk hd hm) (hk k hm))
      | sMany h hk => exact .sMany h (fun k hm => ih _ _ (dk hd hm) (hk k hm))
      | sProj h ca => exact .sProj h (ih _ _ (dk hd (by simp)) ca)
      | sDeclarative cp cd cb =>
        exact .sDeclarative (ih _ _ (dk hd (by simp)) cp) (ih _ _ (dk hd (by simp)) cd) (ih _ _ (dk hd (by simp)) cb)
      | lNot ca => exact .lNot (ih _ _ (dk hd (by simp)) ca)
      | lBin h ca cb => exact .lBin h (ih _ _ (dk hd (by simp)) ca) (ih _ _ (dk hd (by simp)) cb)
      | lOrder h ca cb => exact .lOrder h (ih _ _ (dk hd (by simp)) ca) (ih _ _ (dk hd (by simp)) cb)
      | lEqual h ca cb => exact .lEqual h (ih _ _ (dk hd (by simp)) ca) (ih _ _ (dk hd (by simp)) cb)
      | lElem h ca cb => exact .lElem h (ih _ _ (dk hd (by simp)) ca) (ih _ _ (dk hd (by simp)) cb)
      | lSubset h ca cb => exact .lSubset h (ih _ _ (dk hd (by simp)) ca) (ih _ _ (dk hd (by simp)) cb)
      | lQuant h cp cd cb =>
        exact .lQuant h (ih _ _ (dk hd (by simp)) cp) (ih _ _ (dk hd (by simp)) cd) (ih _ _ (dk hd (by simp)) cb)
      | dLocal => exact .dLocal
      | dTuple hk => exact .dTuple (fun k hm => ih _ _ (dk hd hm) (hk k hm))
      | deOfD h =>
        cases h with
        | dLocal => exact .deOfD .dLocal
        | dTuple hk => exact .deOfD (.dTuple (fun k hm => ih _ _ (dk hd hm) (hk k hm)))
      | deEnum hk => exact .deEnum (fun k hm => ih _ _ (dk hd hm) (hk k hm))
      | sImperative cv cb =>
        exact .sImperative (ih _ _ (dk hd (by simp)) cv) (fun b hm => ihB _ (dk hd (by simp [hm])) (cb b hm))
    refine ⟨main, ?_⟩
    intro b hd hc
    cases hc with
    | iterate cp cd => exact .iterate (ih _ _ (dk hd (by simp)) cp) (ih _ _ (dk hd (by simp)) cd)
    | assign cp cd => exact .assign (ih _ _ (dk hd (by simp)) cp) (ih _ _ (dk hd (by simp)) cd)
    | cond cl => exact .cond (main _ _ hd cl)

theorem CFrag.to2 {Γ : Ctx} {c : Cat} {e : Ast} (h : CFrag Γ c e) : CFrag2 Γ c e :=
  (cfrag_cfrag2_n Γ (Ast.depth e)).1 c e (Nat.le_refl _) h

theorem CFragArgs.to2 {Γ : Ctx} {xs : List String} {ds : List Ast} (h : CFragArgs Γ xs ds) : CFrag2Args Γ xs ds := by
  induction h with
  | nil => exact .nil
  | cons hd _ ih => exact .cons hd.to2 ih

theorem CFragDef.to2 {Γ : Ctx} {xs : List String} {e : Ast} (h : CFragDef Γ xs e) : CFrag2Def Γ xs e := by
  cases h with
  | expr h => exact .expr (h.imp CFrag.to2 CFrag.to2)
  | funcdef hne ha hb => exact .funcdef hne ha.to2 (hb.imp CFrag.to2 CFrag.to2)

/-- every input of the fragment of `check_complete_partial1` is in the fragment of `check_complete_partial2` -/
theorem CFragTop.to2 {Γ : Ctx} {xs : List String} {e : Ast} (h : CFragTop Γ xs e) : CFrag2Top Γ xs e := by
  cases h with
  | ofDef h => exact .ofDef h.to2
  | define1 => exact .define1
  | define2 h => exact .define2 h.to2
  | struct h => exact .struct h.to2

end CCVerif.Checker
