import CCVerif.Lemmas.EvalBlocksPatSound
import CCVerif.Lemmas.EvalFilters
/-! Stage 11, reference side: pattern elimination with FILTERS (`PE2`) and its soundness (`PE2.sound`).

`PE2` has the rules of `PE` (`EvalBlocksPatSound.lean`) and two more: a filter `Fi_idx[P₁,…,Pₖ](S)` (tuple form, as many
parameters as indices) or `Fi_idx[P](S)` (one parameter for `k ≠ 1` indices) whose parameters and argument are related
is related.  The reference value of a filter node is a function of the values of the parameters and of the argument that
is monotone in definedness (NOT strict: an empty argument / an empty parameter decides the value whatever the other
parameters are) - `filterTVal_mono`. -/
namespace CCVerif.Eval
open CCVerif.Syntax CCVerif.Spec CCVerif.Norm
open Val Ty

/-! ## the value of a filter node as a function of the values of its children -/

/-- the value of `Fi_idx[…](S)` (tuple form) from the non-empty value `argv` of `S` and the values `L` of the parameters -/
def filterTVal (idx : List Int) (argv : List Val) (L : List (Option (List Val))) : Option SemVal :=
  if L.any (fun p => p == some []) then some (.val (.s [])) else
  match L.mapM id with
  | none => none
  | some pl =>
    ((argv.mapM fun x =>
      ((idx.zip pl).mapM fun (ip : Int × List Val) => (nth x ip.1).map (isMember · ip.2)).map
        fun flags => (x, flags.all id)).map keep).map SemVal.val

theorem denote_filterT' (env : SEnv) (fuel : Nat) (ρ : LEnv) (idx : List Int) (lo hi : Int) (ps : List Ast) (arg : Ast)
    (hlen : idx.length = ps.length) :
    denote env (fuel + 1) ρ (.node .FILTER (.tuple idx) lo hi (ps ++ [arg])) =
      match dSet (denote env fuel ρ arg) with
      | none => none
      | some argv =>
        if argv.isEmpty then some (.val (.s [])) else
          filterTVal idx argv (ps.map fun k => dSet (denote env fuel ρ k)) := by
  rw [denote_filterT _ _ _ _ _ _ _ _ hlen]; rfl

theorem forall₂_ole {β} (d : Option SemVal → Option β) (hd : d none = none) (D Ds : Ast → Option SemVal) :
    ∀ (ks kss : List Ast), ks.length = kss.length → (∀ q ∈ ks.zip kss, OLe (Ds q.2) (D q.1)) →
      List.Forall₂ OLe (kss.map fun k => d (Ds k)) (ks.map fun k => d (D k))
  | [], [], _, _ => List.Forall₂.nil
  | [], _ :: _, hl, _ => by simp at hl
  | _ :: _, [], hl, _ => by simp at hl
  | k :: ks, k' :: kss, hl, h =>
    List.Forall₂.cons (OLe.strict1 d hd (h (k, k') (by simp)))
      (forall₂_ole d hd D Ds ks kss (by simpa using hl) (fun q hq => h q (by simp [hq])))

theorem any_ole (a : List Val) : ∀ {L' L : List (Option (List Val))}, List.Forall₂ OLe L' L →
    L'.any (fun p => p == some a) = true → L.any (fun p => p == some a) = true
  | _, _, .nil, h => h
  | x :: _, y :: _, .cons hxy hr, h => by
    simp only [List.any_cons, Bool.or_eq_true] at h ⊢
    rcases h with h | h
    · left
      cases x with
      | none => exact absurd h (by simp)
      | some v => rw [hxy v rfl]; exact h
    · right; exact any_ole a hr h

theorem mapM_id_ole {α} : ∀ {L' L : List (Option α)}, List.Forall₂ OLe L' L → ∀ pl, L'.mapM id = some pl → L = L'
  | _, _, .nil, _, _ => rfl
  | x :: xs, y :: ys, .cons hxy hr, pl, h => by
    rw [List.mapM_cons] at h
    cases x with
    | none => simp at h
    | some v =>
      cases hm : xs.mapM id with
      | none => rw [hm] at h; simp at h
      | some r => rw [hxy v rfl, mapM_id_ole hr r hm]

/-- the value of a filter is monotone in the definedness of the parameters -/
theorem filterTVal_mono (idx : List Int) (argv : List Val) {L' L : List (Option (List Val))} (h : List.Forall₂ OLe L' L) :
    OLe (filterTVal idx argv L') (filterTVal idx argv L) := by
  intro v hv
  unfold filterTVal at hv ⊢
  by_cases ha : L'.any (fun p => p == some []) = true
  · rw [if_pos ha] at hv; rw [if_pos (any_ole [] h ha)]; exact hv
  · rw [if_neg ha] at hv
    cases hm : L'.mapM id with
    | none => rw [hm] at hv; cases hv
    | some pl =>
      have := mapM_id_ole h pl hm
      subst this
      rw [if_neg ha]; exact hv

inductive PE2 (S : SEnv) : TCtx → NCtx → Ast → Ast → Prop where
  | lit {Γ : TCtx} {Δ : NCtx} (n lo hi lo' hi' : Int) :
      PE2 S Γ Δ (.node .LIT_INTEGER (.int n) lo hi []) (.node .LIT_INTEGER (.int n) lo' hi' [])
  | empty {Γ : TCtx} {Δ : NCtx} (d : TokData) (lo hi lo' hi' : Int) :
      PE2 S Γ Δ (.node .LIT_EMPTYSET d lo hi []) (.node .LIT_EMPTYSET d lo' hi' [])
  | glob {Γ : TCtx} {Δ : NCtx} (g : String) (lo hi lo' hi' : Int) :
      PE2 S Γ Δ (.node .ID_GLOBAL (.text g) lo hi []) (.node .ID_GLOBAL (.text g) lo' hi' [])
  /-- a bound variable: itself, or the chain of projections of the variable of the component it is a leaf of -/
  | loc {Γ : TCtx} {Δ : NCtx} (x p : String) (path : List Int) (lo hi lo' hi' : Int) : lookup x Δ = some (p, path) →
      PE2 S Γ Δ (.node .ID_LOCAL (.text x) lo hi []) (wrapPr path lo' hi' (.node .ID_LOCAL (.text p) lo' hi' []))
  | un {Γ : TCtx} {Δ : NCtx} {t : Tok} {a as : Ast} (d : TokData) (lo hi lo' hi' : Int) : isUn t → PE2 S Γ Δ a as →
      PE2 S Γ Δ (.node t d lo hi [a]) (.node t d lo' hi' [as])
  | pr {Γ : TCtx} {Δ : NCtx} {t : Tok} {a as : Ast} (idx : List Int) (lo hi lo' hi' : Int) : t = .SMALLPR ∨ t = .BIGPR →
      PE2 S Γ Δ a as → PE2 S Γ Δ (.node t (.tuple idx) lo hi [a]) (.node t (.tuple idx) lo' hi' [as])
  | bin {Γ : TCtx} {Δ : NCtx} {t : Tok} {a b as bs : Ast} (d : TokData) (lo hi lo' hi' : Int) : isBin7 t →
      PE2 S Γ Δ a as → PE2 S Γ Δ b bs → PE2 S Γ Δ (.node t d lo hi [a, b]) (.node t d lo' hi' [as, bs])
  | mem {Γ : TCtx} {Δ : NCtx} {t : Tok} {a b as bs : Ast} (d : TokData) (lo hi lo' hi' : Int) : isMemTok t →
      b.id ≠ .BOOLEAN → bs.id ≠ .BOOLEAN →
      PE2 S Γ Δ a as → PE2 S Γ Δ b bs → PE2 S Γ Δ (.node t d lo hi [a, b]) (.node t d lo' hi' [as, bs])
  | memPow {Γ : TCtx} {Δ : NCtx} {t : Tok} {a b as bs : Ast} (d d' : TokData) (lo hi lo' hi' lo2 hi2 lo2' hi2' : Int) :
      isMemTok t → PE2 S Γ Δ a as → PE2 S Γ Δ b bs →
      PE2 S Γ Δ (.node t d lo hi [a, .node .BOOLEAN d' lo2 hi2 [b]]) (.node t d lo' hi' [as, .node .BOOLEAN d' lo2' hi2' [bs]])
  | nary {Γ : TCtx} {Δ : NCtx} {t : Tok} (d : TokData) (lo hi lo' hi' : Int) (ks kss : List Ast) : isNary t →
      ks.length = kss.length → (∀ q ∈ ks.zip kss, PE2 S Γ Δ q.1 q.2) →
      PE2 S Γ Δ (.node t d lo hi ks) (.node t d lo' hi' kss)
  /-- `Q p∈dom . body`, `p` a plain variable or a pattern, carried by `w` -/
  | quantD {Γ : TCtx} {Δ : NCtx} {t : Tok} {p dom body doms bodys : Ast} {τ : Ty} (d : TokData) (lo hi lo' hi' : Int) (w : EDecl) :
      isQuant t → DeclOK Δ p w.1 τ → DomTy S Γ doms τ →
      PE2 S Γ Δ dom doms → PE2 S ((w.1, τ) :: Γ) (leafDelta p w.1 ++ Δ) body bodys →
      PE2 S Γ Δ (.node t d lo hi [p, dom, body]) (.node t d lo' hi' [declNode w, doms, bodys])
  /-- `D{p∈dom | body}` -/
  | declD {Γ : TCtx} {Δ : NCtx} {p dom body doms bodys : Ast} {τ : Ty} (d : TokData) (lo hi lo' hi' : Int) (w : EDecl) :
      DeclOK Δ p w.1 τ → DomTy S Γ doms τ →
      PE2 S Γ Δ dom doms → PE2 S ((w.1, τ) :: Γ) (leafDelta p w.1 ++ Δ) body bodys →
      PE2 S Γ Δ (.node .NT_DECLARATIVE_EXPR d lo hi [p, dom, body]) (.node .NT_DECLARATIVE_EXPR d lo' hi' [declNode w, doms, bodys])
  /-- `Q p₁,…,pₙ∈dom . body`: an enumerated declaration whose members are plain variables or patterns -/
  | quantE {Γ : TCtx} {Δ : NCtx} {t : Tok} {dom body doms bodys : Ast} {τ : Ty} (d : TokData) (lo hi lo' hi' : Int)
      (ed ed' : NMeta) (dl : DeclList) : isQuant t → DeclsOK τ dl Δ → DomTy S Γ doms τ →
      PE2 S Γ Δ dom doms → PE2 S (declsGamma τ dl Γ) (declsDelta dl Δ) body bodys →
      PE2 S Γ Δ (.node t d lo hi [.node .NT_ENUM_DECL ed.d ed.lo ed.hi (dl.map (·.1)), dom, body])
        (.node t d lo' hi' [.node .NT_ENUM_DECL ed'.d ed'.lo ed'.hi (dl.map fun q => declNode q.2), doms, bodys])
  /-- `R{p := init | body}` -/
  | recShort {Γ : TCtx} {Δ : NCtx} {p init body inits bodys : Ast} {τ : Ty} (d : TokData) (lo hi lo' hi' : Int) (w : EDecl) :
      DeclOK Δ p w.1 τ → ValTy S Γ inits τ → ValTy S ((w.1, τ) :: Γ) bodys τ →
      PE2 S Γ Δ init inits → PE2 S ((w.1, τ) :: Γ) (leafDelta p w.1 ++ Δ) body bodys →
      PE2 S Γ Δ (.node .NT_RECURSIVE_SHORT d lo hi [p, init, body]) (.node .NT_RECURSIVE_SHORT d lo' hi' [declNode w, inits, bodys])
  /-- `R{p := init | cond | body}` -/
  | recFull {Γ : TCtx} {Δ : NCtx} {p init cond body inits conds bodys : Ast} {τ : Ty} (d : TokData) (lo hi lo' hi' : Int)
      (w : EDecl) : DeclOK Δ p w.1 τ → ValTy S Γ inits τ → ValTy S ((w.1, τ) :: Γ) bodys τ →
      PE2 S Γ Δ init inits → PE2 S ((w.1, τ) :: Γ) (leafDelta p w.1 ++ Δ) cond conds →
      PE2 S ((w.1, τ) :: Γ) (leafDelta p w.1 ++ Δ) body bodys →
      PE2 S Γ Δ (.node .NT_RECURSIVE_FULL d lo hi [p, init, cond, body])
        (.node .NT_RECURSIVE_FULL d lo' hi' [declNode w, inits, conds, bodys])
  /-- `I{value | blocks}`: every block (`p :∈ dom`, `p := e`, condition) and the value in the scope of the blocks before it -/
  | imp {Γ : TCtx} {Δ : NCtx} (d d' : TokData) (lo hi lo' hi' : Int) (value values : Ast) (bl : List BSpec) :
      impSide S bl Γ Δ → (∀ q ∈ impObl bl Γ Δ value values, PE2 S q.1 q.2.1 q.2.2.1 q.2.2.2) →
      PE2 S Γ Δ (.node .NT_IMPERATIVE_EXPR d lo hi (value :: bl.map BSpec.src))
        (.node .NT_IMPERATIVE_EXPR d' lo' hi' (values :: bl.map BSpec.flat))
  /-- `Fi_idx[P₁,…,Pₖ](S)`, as many parameters as indices -/
  | filterT {Γ : TCtx} {Δ : NCtx} (idx : List Int) (lo hi lo' hi' : Int) (ps pss : List Ast) (arg args : Ast) :
      idx.length = ps.length → ps.length = pss.length → (∀ q ∈ ps.zip pss, PE2 S Γ Δ q.1 q.2) → PE2 S Γ Δ arg args →
      PE2 S Γ Δ (.node .FILTER (.tuple idx) lo hi (ps ++ [arg])) (.node .FILTER (.tuple idx) lo' hi' (pss ++ [args]))
  /-- `Fi_idx[P](S)`, one parameter for `k ≠ 1` indices -/
  | filterC {Γ : TCtx} {Δ : NCtx} {par arg pars args : Ast} (idx : List Int) (lo hi lo' hi' : Int) :
      idx.length ≠ 1 → PE2 S Γ Δ par pars → PE2 S Γ Δ arg args →
      PE2 S Γ Δ (.node .FILTER (.tuple idx) lo hi [par, arg]) (.node .FILTER (.tuple idx) lo' hi' [pars, args])

/-- `PE2` extends `PE` -/
theorem PE.toPE2 {S : SEnv} {Γ : TCtx} {Δ : NCtx} {e es : Ast} (h : PE S Γ Δ e es) : PE2 S Γ Δ e es := by
  induction h with
  | lit n lo hi lo' hi' => exact .lit n lo hi lo' hi'
  | empty d lo hi lo' hi' => exact .empty d lo hi lo' hi'
  | glob g lo hi lo' hi' => exact .glob g lo hi lo' hi'
  | loc x p path lo hi lo' hi' hl => exact .loc x p path lo hi lo' hi' hl
  | un d lo hi lo' hi' ht _ ih => exact .un d lo hi lo' hi' ht ih
  | pr idx lo hi lo' hi' ht _ ih => exact .pr idx lo hi lo' hi' ht ih
  | bin d lo hi lo' hi' ht _ _ iha ihb => exact .bin d lo hi lo' hi' ht iha ihb
  | mem d lo hi lo' hi' ht hb hbs _ _ iha ihb => exact .mem d lo hi lo' hi' ht hb hbs iha ihb
  | memPow d d' lo hi lo' hi' lo2 hi2 lo2' hi2' ht _ _ iha ihb => exact .memPow d d' lo hi lo' hi' lo2 hi2 lo2' hi2' ht iha ihb
  | nary d lo hi lo' hi' ks kss ht hlen _ ih => exact .nary d lo hi lo' hi' ks kss ht hlen ih
  | quantD d lo hi lo' hi' w ht hd hty _ _ ihd ihb => exact .quantD d lo hi lo' hi' w ht hd hty ihd ihb
  | declD d lo hi lo' hi' w hd hty _ _ ihd ihb => exact .declD d lo hi lo' hi' w hd hty ihd ihb
  | quantE d lo hi lo' hi' ed ed' dl ht hok hty _ _ ihd ihb => exact .quantE d lo hi lo' hi' ed ed' dl ht hok hty ihd ihb
  | recShort d lo hi lo' hi' w hd htyi htyb _ _ ihi ihb => exact .recShort d lo hi lo' hi' w hd htyi htyb ihi ihb
  | recFull d lo hi lo' hi' w hd htyi htyb _ _ _ ihi ihc ihb => exact .recFull d lo hi lo' hi' w hd htyi htyb ihi ihc ihb
  | imp d d' lo hi lo' hi' value values bl hside _ ih => exact .imp d d' lo hi lo' hi' value values bl hside ih

private theorem wd_set {wd : SemVal} {xs : List Val} (hs : dSet (some wd) = some xs) : wd = .val (.s xs) := by
  have := dSet_some hs
  injection this

private theorem wd_val {wd : SemVal} {v : Val} (hs : dVal (some wd) = some v) : wd = .val v := by
  have := dVal_some hs
  injection this

/-- **soundness of pattern elimination**: a value of the expression over plain variables (at fuel `f`) is the value of
the expression with patterns at every fuel `≥ f` -/
theorem PE2.sound {S : SEnv} {Γ : TCtx} {Δ : NCtx} {e es : Ast} (h : PE2 S Γ Δ e es) :
    ∀ ρ ρs, URel Δ ρ ρs → EnvTy Γ ρs → Sim S 0 ρ e ρs es := by
  induction h with
  | lit n lo hi lo' hi' =>
    intro ρ ρs _ _
    exact Sim.node (fun f g _ v hv => by rw [denote_lit] at hv ⊢; exact hv)
  | empty d lo hi lo' hi' =>
    intro ρ ρs _ _
    exact Sim.node (fun f g _ v hv => by rw [denote_empty] at hv ⊢; exact hv)
  | glob g lo hi lo' hi' =>
    intro ρ ρs _ _
    exact Sim.node (fun f g _ v hv => by rw [denote_global] at hv ⊢; exact hv)
  | loc x p path lo hi lo' hi' hl =>
    intro ρ ρs hr _
    obtain ⟨v, w, h1, h2, h3⟩ := hr x p path hl
    intro f r hr' f' hf'
    have hinner : ∀ f r, denote S f ρs (.node .ID_LOCAL (.text p) lo' hi' []) = some r → ∃ v, some w = some v ∧ r = .val v := by
      intro f r hr
      cases f with
      | zero => rw [denote_zero] at hr; cases hr
      | succ f => rw [denote_local, h2] at hr; injection hr with hr; exact ⟨w, rfl, hr.symm⟩
    obtain ⟨u, hu, rfl⟩ := denote_wrapPr S ρs lo' hi' path _ (some w) hinner f r hr'
    simp only [Option.bind_some, h3] at hu
    injection hu with hu; subst hu
    cases f with
    | zero => rw [denote_zero] at hr'; cases hr'
    | succ f =>
      obtain ⟨g, rfl⟩ : ∃ g, f' = g + 1 := ⟨f' - 1, by omega⟩
      rw [denote_local, h1]
  | @un Γ Δ t a as d lo hi lo' hi' ht _ ih =>
    intro ρ ρs hr he
    refine Sim.node (fun f g hg => ?_)
    have key := (ih ρ ρs hr he).ole hg
    intro v hv
    rcases ht with rfl | rfl | rfl | rfl | rfl | rfl
    · rw [denote_card] at hv ⊢; strict1_case f ρs as key hv
    · rw [denote_bool] at hv ⊢; strict1_case f ρs as key hv
    · rw [denote_debool] at hv ⊢; strict1_case f ρs as key hv
    · rw [denote_reduce] at hv ⊢; strict1_case f ρs as key hv
    · rw [denote_not] at hv ⊢; strict1_case f ρs as key hv
    · rw [denote_boolean] at hv ⊢; strict1_case f ρs as key hv
  | @pr Γ Δ t a as idx lo hi lo' hi' ht _ ih =>
    intro ρ ρs hr he
    refine Sim.node (fun f g hg => ?_)
    have key := (ih ρ ρs hr he).ole hg
    intro v hv
    rcases ht with rfl | rfl
    · rw [denote_smallpr] at hv ⊢; strict1_case f ρs as key hv
    · rw [denote_bigpr] at hv ⊢; strict1_case f ρs as key hv
  | @bin Γ Δ t a b as bs d lo hi lo' hi' ht _ _ iha ihb =>
    intro ρ ρs hr he
    refine Sim.node (fun f g hg => ?_)
    have ka := (iha ρ ρs hr he).ole hg
    have kb := (ihb ρ ρs hr he).ole hg
    intro v hv
    rcases ht with ht | ht | ht | ht | ht | ht
    · rw [denote_arith ht] at hv ⊢
      exact OLe.strict2 (fun ra rb => (dInt ra).bind fun x => (dInt rb).map fun y => SemVal.val (.e (arithOp t x y)))
        (fun _ => rfl) (fun x => by simp [dInt]) ka kb v hv
    · rw [denote_intCmp ht] at hv ⊢
      exact OLe.strict2 (fun ra rb => (dInt ra).bind fun x => (dInt rb).map fun y => SemVal.bool (intCmpOp t x y))
        (fun _ => rfl) (fun x => by simp [dInt]) ka kb v hv
    · rw [denote_eq ht] at hv ⊢
      exact OLe.strict2 (fun ra rb => (dVal ra).bind fun x => (dVal rb).map fun y =>
          SemVal.bool (decide (x = y) != (t == .NOTEQUAL)))
        (fun _ => rfl) (fun x => by simp [dVal]) ka kb v hv
    · rw [denote_sub ht] at hv ⊢
      exact OLe.strict2 (fun ra rb => ((dSet ra).bind fun xs => (dSet rb).map fun ys => subSpec t xs ys).map SemVal.bool)
        (fun _ => rfl) (fun x => by simp [dSet, dVal]) ka kb v hv
    · rw [denote_setOp ht] at hv ⊢
      exact OLe.strict2 (fun ra rb => ((dSet ra).bind fun xs => (dSet rb).map fun ys => setOpSpec t xs ys).map SemVal.val)
        (fun _ => rfl) (fun x => by simp [dSet, dVal]) ka kb v hv
    · rw [denote_conn ht] at hv ⊢
      have hm := kConn_mono ht (dBool_mono ka) (dBool_mono kb)
      cases hk : kConn t (dBool (denote S f ρs as)) (dBool (denote S f ρs bs)) with
      | none => rw [hk] at hv; cases hv
      | some r => rw [hm r hk]; rw [hk] at hv; exact hv
  | @mem Γ Δ t a b as bs d lo hi lo' hi' ht hb hbs _ _ iha ihb =>
    intro ρ ρs hr he
    refine Sim.node (fun f g hg => ?_)
    have ka := (iha ρ ρs hr he).ole hg
    have kb := (ihb ρ ρs hr he).ole hg
    intro v hv
    rw [denote_mem ht _ _ _ _ _ _ _ _ hbs] at hv
    rw [denote_mem ht _ _ _ _ _ _ _ _ hb]
    exact OLe.strict2 (fun ra rb => (((dVal ra).bind fun x => (dSet rb).map fun ys => isMember x ys).map
        fun r => r != (t == .NOTIN)).map SemVal.bool)
      (fun _ => rfl) (fun x => by simp [dSet, dVal]) ka kb v hv
  | @memPow Γ Δ t a b as bs d d' lo hi lo' hi' lo2 hi2 lo2' hi2' ht _ _ iha ihb =>
    intro ρ ρs hr he
    refine Sim.node (fun f g hg => ?_)
    have ka := (iha ρ ρs hr he).ole hg
    have kb := (ihb ρ ρs hr he).ole hg
    intro v hv
    rw [denote_memPow ht] at hv ⊢
    exact OLe.strict2 (fun ra rb => (((dSet ra).bind fun xs => (dSet rb).map fun ys => isSubset xs ys).map
        fun r => r != (t == .NOTIN)).map SemVal.bool)
      (fun _ => rfl) (fun x => by simp [dSet, dVal]) ka kb v hv
  | @nary Γ Δ t d lo hi lo' hi' ks kss ht hlen _ ih =>
    intro ρ ρs hr he
    refine Sim.node (fun f g hg => ?_)
    have hq : ∀ q ∈ ks.zip kss, OLe (denote S f ρs q.2) (denote S g ρ q.1) := fun q hq => (ih q hq ρ ρs hr he).ole hg
    intro v hv
    rcases ht with rfl | rfl | rfl
    · rw [denote_enum] at hv ⊢
      have hm := mapM_mono dVal rfl (denote S g ρ) (denote S f ρs) ks kss hlen hq
      cases hk : kss.mapM (fun k => dVal (denote S f ρs k)) with
      | none => rw [hk] at hv; cases hv
      | some vs => rw [hm vs hk]; rw [hk] at hv; exact hv
    · rw [denote_tuple] at hv ⊢
      have hm := mapM_mono dVal rfl (denote S g ρ) (denote S f ρs) ks kss hlen hq
      cases hk : kss.mapM (fun k => dVal (denote S f ρs k)) with
      | none => rw [hk] at hv; cases hv
      | some vs => rw [hm vs hk]; rw [hk] at hv; exact hv
    · rw [denote_decart] at hv ⊢
      have hm := mapM_mono dSet rfl (denote S g ρ) (denote S f ρs) ks kss hlen hq
      cases hk : kss.mapM (fun k => dSet (denote S f ρs k)) with
      | none => rw [hk] at hv; cases hv
      | some vs => rw [hm vs hk]; rw [hk] at hv; exact hv
  | @quantD Γ Δ t p dom body doms bodys τ d lo hi lo' hi' w ht hd hty _ _ ihd ihb =>
    intro ρ ρs hr he
    refine Sim.node (fun f g hg => ?_)
    have kd := (ihd ρ ρs hr he).ole hg
    intro v hv
    simp only [declNode] at hv
    rw [denote_quant ht] at hv
    rw [denote_quantP ht _ _ _ _ _ _ _ _ _ (patOK_notEnum hd.ok)]
    cases hrd : denote S f ρs doms with
    | none => rw [hrd] at hv; simp [dSet, dVal] at hv
    | some wd =>
      rw [kd wd hrd]; rw [hrd] at hv
      cases hs : dSet (some wd) with
      | none => rw [hs] at hv; simp at hv
      | some xs =>
        rw [hs] at hv
        have hwd := wd_set hs
        subst hwd
        have hb : ∀ x ∈ xs, OLe (dBool (denote S f (.val w.1 x ρs) bodys))
            (bindK p ρ (fun ρ' => dBool (denote S g ρ' body)) x) := by
          intro x hx
          obtain ⟨ρ', b1, b2, b3⟩ := bind_relW hr he hd x (hty f ρs xs he hrd x hx)
          simp only [bindK, b1]
          exact dBool_mono ((ihb _ _ b2 b3).ole hg)
        have hall := kAll_mono xs _ _ hb
        have hany := kAny_mono xs _ _ hb
        simp only at hv ⊢
        by_cases hu : (t == Tok.FORALL) = true
        · simp only [hu, if_true] at hv ⊢
          cases hk : kAll (xs.map fun x => dBool (denote S f (.val w.1 x ρs) bodys)) with
          | none => rw [hk] at hv; cases hv
          | some r => rw [hall r hk]; rw [hk] at hv; exact hv
        · simp only [hu] at hv ⊢
          cases hk : kAny (xs.map fun x => dBool (denote S f (.val w.1 x ρs) bodys)) with
          | none => rw [hk] at hv; cases hv
          | some r => rw [hany r hk]; rw [hk] at hv; exact hv
  | @declD Γ Δ p dom body doms bodys τ d lo hi lo' hi' w hd hty _ _ ihd ihb =>
    intro ρ ρs hr he
    refine Sim.node (fun f g hg => ?_)
    have kd := (ihd ρ ρs hr he).ole hg
    intro v hv
    simp only [declNode] at hv
    rw [denote_decl] at hv
    rw [denote_declP]
    cases hrd : denote S f ρs doms with
    | none => rw [hrd] at hv; simp [dSet, dVal] at hv
    | some wd =>
      rw [kd wd hrd]; rw [hrd] at hv
      cases hs : dSet (some wd) with
      | none => rw [hs] at hv; simp at hv
      | some xs =>
        rw [hs] at hv
        have hwd := wd_set hs
        subst hwd
        have hb : ∀ x ∈ xs, OLe ((dBool (denote S f (.val w.1 x ρs) bodys)).map fun b => (x, b))
            (bindK p ρ (fun ρ' => (dBool (denote S g ρ' body)).map fun b => (x, b)) x) := by
          intro x hx
          obtain ⟨ρ', b1, b2, b3⟩ := bind_relW hr he hd x (hty f ρs xs he hrd x hx)
          simp only [bindK, b1]
          exact OLe.strict1 (fun r => (dBool r).map fun b => (x, b)) rfl ((ihb _ _ b2 b3).ole hg)
        have hm := mapM_val_mono xs _ _ hb
        simp only at hv ⊢
        cases hk : xs.mapM (fun x => (dBool (denote S f (.val w.1 x ρs) bodys)).map fun b => (x, b)) with
        | none => rw [hk] at hv; cases hv
        | some r => rw [hm r hk]; rw [hk] at hv; exact hv
  | @quantE Γ Δ t dom body doms bodys τ d lo hi lo' hi' ed ed' dl ht hok hty _ _ ihd ihb =>
    intro ρ ρs hr he
    refine Sim.node (fun f g hg => ?_)
    have kd := (ihd ρ ρs hr he).ole hg
    intro v hv
    rw [denote_quantEnum ht] at hv ⊢
    cases hrd : denote S f ρs doms with
    | none => rw [hrd] at hv; simp [dSet, dVal] at hv
    | some wd =>
      rw [kd wd hrd]; rw [hrd] at hv
      cases hs : dSet (some wd) with
      | none => rw [hs] at hv; simp at hv
      | some xs =>
        rw [hs] at hv
        have hwd := wd_set hs
        subst hwd
        have hq := quantSem_rel (t == .FORALL) xs τ (hty f ρs xs he hrd) (fun ρ' => dBool (denote S f ρ' bodys))
          (fun ρ' => dBool (denote S g ρ' body)) dl Γ Δ ρ ρs hr he hok
          (fun ρ' ρs' h1 h2 => dBool_mono ((ihb ρ' ρs' h1 h2).ole hg))
        simp only at hv ⊢
        cases hk : quantSem (t == .FORALL) xs (fun ρ' => dBool (denote S f ρ' bodys)) (dl.map fun q => declNode q.2) ρs with
        | none => rw [hk] at hv; cases hv
        | some r => rw [hq r hk]; rw [hk] at hv; exact hv
  | @recShort Γ Δ p init body inits bodys τ d lo hi lo' hi' w hd htyi htyb _ _ ihi ihb =>
    intro ρ ρs hr he
    refine Sim.node (fun f g hg => ?_)
    have ki := (ihi ρ ρs hr he).ole hg
    intro v hv
    simp only [declNode] at hv
    rw [denote_recShort] at hv
    rw [denote_recShortP]
    cases hri : denote S f ρs inits with
    | none => rw [hri] at hv; simp [dVal] at hv
    | some wi =>
      rw [ki wi hri]; rw [hri] at hv
      cases hvv : dVal (some wi) with
      | none => rw [hvv] at hv; simp at hv
      | some i =>
        rw [hvv] at hv
        have hwi := wd_val hvv
        subst hwi
        have hi : hasTy i τ = true := htyi f ρs i he hri
        have hm := recSem_mono τ (fun _ => some true) (fun _ => some true)
          (fun cur => dVal (denote S f (.val w.1 cur ρs) bodys))
          (fun cur => (bindPat p cur ρ).bind fun ρ' => dVal (denote S g ρ' body))
          (fun _ _ c hc => hc)
          (fun cur hcur => by
            obtain ⟨ρ', b1, b2, b3⟩ := bind_relW hr he hd cur hcur
            simp only [b1, Option.bind_some]
            exact OLe.strict1 dVal rfl ((ihb _ _ b2 b3).ole hg))
          (fun cur nxt hcur hn => htyb f (.val w.1 cur ρs) nxt (he.bind1 w.1 cur τ hcur) (dVal_some hn))
          REC_BOUND i hi
        simp only at hv ⊢
        cases hk : recSem (fun _ => some true) (fun cur => dVal (denote S f (.val w.1 cur ρs) bodys)) REC_BOUND i with
        | none => rw [hk] at hv; cases hv
        | some r => rw [hm r hk]; rw [hk] at hv; exact hv
  | @recFull Γ Δ p init cond body inits conds bodys τ d lo hi lo' hi' w hd htyi htyb _ _ _ ihi ihc ihb =>
    intro ρ ρs hr he
    refine Sim.node (fun f g hg => ?_)
    have ki := (ihi ρ ρs hr he).ole hg
    intro v hv
    simp only [declNode] at hv
    rw [denote_recFull] at hv
    rw [denote_recFullP]
    cases hri : denote S f ρs inits with
    | none => rw [hri] at hv; simp [dVal] at hv
    | some wi =>
      rw [ki wi hri]; rw [hri] at hv
      cases hvv : dVal (some wi) with
      | none => rw [hvv] at hv; simp at hv
      | some i =>
        rw [hvv] at hv
        have hwi := wd_val hvv
        subst hwi
        have hi : hasTy i τ = true := htyi f ρs i he hri
        have hm := recSem_mono τ (fun cur => dBool (denote S f (.val w.1 cur ρs) conds))
          (fun cur => (bindPat p cur ρ).bind fun ρ' => dBool (denote S g ρ' cond))
          (fun cur => dVal (denote S f (.val w.1 cur ρs) bodys))
          (fun cur => (bindPat p cur ρ).bind fun ρ' => dVal (denote S g ρ' body))
          (fun cur hcur => by
            obtain ⟨ρ', b1, b2, b3⟩ := bind_relW hr he hd cur hcur
            simp only [b1, Option.bind_some]
            exact dBool_mono ((ihc _ _ b2 b3).ole hg))
          (fun cur hcur => by
            obtain ⟨ρ', b1, b2, b3⟩ := bind_relW hr he hd cur hcur
            simp only [b1, Option.bind_some]
            exact OLe.strict1 dVal rfl ((ihb _ _ b2 b3).ole hg))
          (fun cur nxt hcur hn => htyb f (.val w.1 cur ρs) nxt (he.bind1 w.1 cur τ hcur) (dVal_some hn))
          REC_BOUND i hi
        simp only at hv ⊢
        cases hk : recSem (fun cur => dBool (denote S f (.val w.1 cur ρs) conds))
            (fun cur => dVal (denote S f (.val w.1 cur ρs) bodys)) REC_BOUND i with
        | none => rw [hk] at hv; cases hv
        | some r => rw [hm r hk]; rw [hk] at hv; exact hv
  | @imp Γ Δ d d' lo hi lo' hi' value values bl hside _ ih =>
    intro ρ ρs hr he
    refine Sim.node (fun f g hg => ?_)
    intro v hv
    rw [denote_impL] at hv ⊢
    have hm := impList_rel S value values (f := f) (g := g) (by omega) bl Γ Δ ρ ρs hr he hside
      (fun q hq ρ ρs h1 h2 => ih q hq ρ ρs h1 h2)
    cases hk : impList S f values (bl.map BSpec.flat) ρs with
    | none => rw [hk] at hv; cases hv
    | some l => rw [hm l hk]; rw [hk] at hv; exact hv
  | @filterT Γ Δ idx lo hi lo' hi' ps pss arg args hlen hlen2 _ _ ihp iha =>
    intro ρ ρs hr he
    refine Sim.node (fun f g hg => ?_)
    have ka := (iha ρ ρs hr he).ole hg
    have hq : ∀ q ∈ ps.zip pss, OLe (denote S f ρs q.2) (denote S g ρ q.1) := fun q hq => (ihp q hq ρ ρs hr he).ole hg
    have hL := forall₂_ole dSet rfl (denote S g ρ) (denote S f ρs) ps pss hlen2 hq
    intro v hv
    rw [denote_filterT' _ _ _ _ _ _ _ _ (hlen.trans hlen2)] at hv
    rw [denote_filterT' _ _ _ _ _ _ _ _ hlen]
    cases hra : denote S f ρs args with
    | none => rw [hra] at hv; simp [dSet, dVal] at hv
    | some wa =>
      rw [ka wa hra]; rw [hra] at hv
      cases hs : dSet (some wa) with
      | none => rw [hs] at hv; simp at hv
      | some argv =>
        rw [hs] at hv
        simp only at hv ⊢
        by_cases hem : argv.isEmpty = true
        · rw [if_pos hem] at hv ⊢; exact hv
        · rw [if_neg hem] at hv ⊢
          exact filterTVal_mono idx argv hL v hv
  | @filterC Γ Δ par arg pars args idx lo hi lo' hi' hlen _ _ ihp iha =>
    intro ρ ρs hr he
    refine Sim.node (fun f g hg => ?_)
    have ka := (iha ρ ρs hr he).ole hg
    have kp := (ihp ρ ρs hr he).ole hg
    intro v hv
    rw [denote_filterC _ _ _ _ _ _ _ _ hlen] at hv ⊢
    cases hra : denote S f ρs args with
    | none => rw [hra] at hv; simp [dSet, dVal] at hv
    | some wa =>
      rw [ka wa hra]; rw [hra] at hv
      cases hs : dSet (some wa) with
      | none => rw [hs] at hv; simp at hv
      | some argv =>
        rw [hs] at hv
        simp only at hv ⊢
        by_cases hem : argv.isEmpty = true
        · rw [if_pos hem] at hv ⊢; exact hv
        · rw [if_neg hem] at hv ⊢
          cases hrp : denote S f ρs pars with
          | none => rw [hrp] at hv; simp [dSet, dVal] at hv
          | some wp => rw [kp wp hrp]; rw [hrp] at hv; exact hv

end CCVerif.Eval
