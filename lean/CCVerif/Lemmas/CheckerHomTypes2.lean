import CCVerif.Lemmas.CheckerHomTypes
/-!
The template machinery of the checker's type algebra (`CompareTemplated`, `BindRadicals`,
`SubstituteBase`, `MangleRadicals`) under a non-injective identification of base names (`THom`) that is
injective on radicals, in the SUCCESS direction. Continuation of `CheckerHomTypes`.
-/
namespace CCVerif.Types
open CCVerif

/-- a substitution with keys and values renamed -/
def hS (t : THom) (s : Subst) : Subst := s.map fun p => (t.b p.1, hR t p.2)

/-- all keys of the substitution are radicals -/
def KeysRadical (s : Subst) : Prop := ∀ p ∈ s, isRadical p.1 = true

section
variable (t : THom)

theorem isEmpty_hS (s : Subst) : (hS t s).isEmpty = s.isEmpty := by
  cases s <;> rfl

theorem hS_append (s s' : Subst) : hS t (s ++ s') = hS t s ++ hS t s' := by
  unfold hS; rw [List.map_append]

theorem keysRadical_nil : KeysRadical [] := fun _ h => absurd h (by simp)

theorem keysRadical_cons {k : String} {v : Ty} {s : Subst} :
    KeysRadical ((k, v) :: s) ↔ isRadical k = true ∧ KeysRadical s := by
  unfold KeysRadical
  constructor
  · intro h
    exact ⟨h (k, v) (by simp), fun p hp => h p (by simp [hp])⟩
  · intro h p hp
    rcases List.mem_cons.mp hp with hp | hp
    · rw [hp]; exact h.1
    · exact h.2 p hp

theorem keysRadical_append {s s' : Subst} (h : KeysRadical s) (h' : KeysRadical s') : KeysRadical (s ++ s') := by
  intro p hp
  rcases List.mem_append.mp hp with hp | hp
  · exact h p hp
  · exact h' p hp

theorem keysRadical_set {k : String} (hk : isRadical k = true) (v : Ty) : ∀ {s : Subst},
    KeysRadical s → KeysRadical (Subst.set s k v)
  | [], _ => (keysRadical_cons).mpr ⟨hk, keysRadical_nil⟩
  | (k', v') :: rest, h => by
    have h' := keysRadical_cons.mp h
    show KeysRadical (if k' == k then _ else _)
    split
    · exact keysRadical_cons.mpr ⟨hk, h'.2⟩
    · exact keysRadical_cons.mpr ⟨h'.1, keysRadical_set hk v h'.2⟩

mutual
theorem bindRadicals_keys (anyT : Ty) : ∀ (a : Ty) (s : Subst), KeysRadical s → KeysRadical (bindRadicals s anyT a)
  | .base id, s, h => by
    simp only [bindRadicals]
    split
    · rename_i hc
      simp only [Bool.and_eq_true] at hc
      exact keysRadical_append h (keysRadical_cons.mpr ⟨hc.1, keysRadical_nil⟩)
    · exact h
  | .coll b, s, h => by simp only [bindRadicals]; exact bindRadicals_keys anyT b s h
  | .tuple cs, s, h => by simp only [bindRadicals]; exact bindRadicalsList_keys anyT cs s h
theorem bindRadicalsList_keys (anyT : Ty) : ∀ (cs : List Ty) (s : Subst),
    KeysRadical s → KeysRadical (bindRadicalsList s anyT cs)
  | [], _, h => h
  | c :: cs, s, h => by
    simp only [bindRadicalsList]
    exact bindRadicalsList_keys anyT cs _ (bindRadicals_keys anyT c s h)
end

mutual
theorem compareTemplated_keys_aux (te : TraitEnv) : ∀ (a v : Ty) (s s' : Subst), KeysRadical s →
    compareTemplated te s a v = (true, s') → KeysRadical s'
  | .base a, v, s, s', hs, h => by
    simp only [compareTemplated] at h
    split at h
    · cases h; exact hs
    · split at h
      · rename_i hr
        cases hl : lookup s a with
        | none =>
          rw [hl] at h
          cases h
          exact keysRadical_append hs (keysRadical_cons.mpr ⟨hr, keysRadical_nil⟩)
        | some old =>
          rw [hl] at h
          simp only at h
          cases hm : merge te old v with
          | none => rw [hm] at h; exact absurd h (by simp)
          | some m =>
            rw [hm] at h
            cases h
            exact keysRadical_set hr m hs
      · split at h
        · cases h; exact hs
        · cases v with
          | base b =>
            simp only [Prod.mk.injEq] at h
            rw [← h.2]; exact hs
          | tuple _ => exact absurd h (by simp)
          | coll _ => exact absurd h (by simp)
  | .coll a, v, s, s', hs, h => by
    simp only [compareTemplated] at h
    split at h
    · cases h; exact hs
    · split at h
      · cases h; exact bindRadicals_keys v _ s hs
      · cases v with
        | base _ => exact absurd h (by simp)
        | tuple _ => exact absurd h (by simp)
        | coll b => exact compareTemplated_keys_aux te a b s s' hs h
  | .tuple as, v, s, s', hs, h => by
    simp only [compareTemplated] at h
    split at h
    · cases h; exact hs
    · split at h
      · cases h; exact bindRadicals_keys v _ s hs
      · cases v with
        | base _ => exact absurd h (by simp)
        | coll _ => exact absurd h (by simp)
        | tuple bs =>
          simp only at h
          split at h
          · exact absurd h (by simp)
          · exact compareTemplatedList_keys_aux te as bs s s' hs h
theorem compareTemplatedList_keys_aux (te : TraitEnv) : ∀ (as bs : List Ty) (s s' : Subst), KeysRadical s →
    compareTemplatedList te s as bs = (true, s') → KeysRadical s'
  | [], _, s, s', hs, h => by
    simp only [compareTemplatedList] at h
    cases h; exact hs
  | _ :: _, [], s, s', hs, h => by
    simp only [compareTemplatedList] at h
    cases h; exact hs
  | a :: as, b :: bs, s, s', hs, h => by
    simp only [compareTemplatedList] at h
    cases hc : compareTemplated te s a b with
    | mk ok s1 =>
      rw [hc] at h
      cases ok with
      | false => exact absurd h (by simp)
      | true =>
        simp only at h
        exact compareTemplatedList_keys_aux te as bs s1 s' (compareTemplated_keys_aux te a b s s1 hs hc) h
end

theorem compareTemplated_keys {te : TraitEnv} {s : Subst} {a v : Ty} {s' : Subst} :
    KeysRadical s → compareTemplated te s a v = (true, s') → KeysRadical s' :=
  compareTemplated_keys_aux te a v s s'

mutual
theorem mangle_hR {fn fn' : String} (hfn : ∀ id, isRadical id = true → t.b (id ++ fn) = t.b id ++ fn') :
    ∀ a : Ty, hR t (mangle fn a) = mangle fn' (hR t a)
  | .base id => by
    simp only [renTy, mangle]
    rw [t.brad]
    split
    · rename_i h; simp only [renTy]; rw [hfn id h]
    · rfl
  | .coll b => by simp only [renTy, mangle]; exact congrArg Ty.coll (mangle_hR hfn b)
  | .tuple cs => by simp only [renTy, mangle]; exact congrArg Ty.tuple (mangleList_hR hfn cs)
theorem mangleList_hR {fn fn' : String} (hfn : ∀ id, isRadical id = true → t.b (id ++ fn) = t.b id ++ fn') :
    ∀ cs : List Ty, hRL t (mangleList fn cs) = mangleList fn' (hRL t cs)
  | [] => rfl
  | c :: cs => by
    simp only [renTyL, mangleList]
    exact congr (congrArg List.cons (mangle_hR hfn c)) (mangleList_hR hfn cs)
end

/-! ## with the identification injective on radicals -/

section inj
variable (hinj : ∀ x y, isRadical x = true → t.b x = t.b y → x = y)
include hinj
set_option linter.unusedSectionVars false

theorem beq_b_left {x y : String} (hx : isRadical x = true) : (t.b x == t.b y) = (x == y) := by
  by_cases h : x = y
  · subst h; rw [beq_self_eq_true, beq_self_eq_true]
  · have : t.b x ≠ t.b y := fun e => h (hinj x y hx e)
    have h1 : (x == y) = false := beq_eq_false_iff_ne.mpr h
    have h2 : (t.b x == t.b y) = false := beq_eq_false_iff_ne.mpr this
    rw [h1, h2]

theorem beq_b_right {x y : String} (hy : isRadical y = true) : (t.b x == t.b y) = (x == y) := by
  by_cases h : x = y
  · subst h; rw [beq_self_eq_true, beq_self_eq_true]
  · have : t.b x ≠ t.b y := fun e => h (hinj y x hy e.symm).symm
    have h1 : (x == y) = false := beq_eq_false_iff_ne.mpr h
    have h2 : (t.b x == t.b y) = false := beq_eq_false_iff_ne.mpr this
    rw [h1, h2]

theorem lookup_hS_radical (k : String) (hk : isRadical k = true) : ∀ s : Subst,
    lookup (hS t s) (t.b k) = (lookup s k).map (hR t)
  | [] => rfl
  | (k', v) :: rest => by
    show (if t.b k' == t.b k then some (hR t v) else lookup (hS t rest) (t.b k)) = _
    rw [beq_b_right t hinj hk, lookup_hS_radical k hk rest]
    show _ = Option.map (hR t) (if k' == k then some v else lookup rest k)
    split <;> rfl

theorem lookup_hS_keys (k : String) : ∀ (s : Subst), KeysRadical s →
    lookup (hS t s) (t.b k) = (lookup s k).map (hR t)
  | [], _ => rfl
  | (k', v) :: rest, hs => by
    have hs' := keysRadical_cons.mp hs
    show (if t.b k' == t.b k then some (hR t v) else lookup (hS t rest) (t.b k)) = _
    rw [beq_b_left t hinj hs'.1, lookup_hS_keys k rest hs'.2]
    show _ = Option.map (hR t) (if k' == k then some v else lookup rest k)
    split <;> rfl

theorem set_hS (k : String) (hk : isRadical k = true) (v : Ty) : ∀ s : Subst,
    Subst.set (hS t s) (t.b k) (hR t v) = hS t (Subst.set s k v)
  | [] => rfl
  | (k', v') :: rest => by
    show (if t.b k' == t.b k then _ else _) = hS t (if k' == k then _ else _)
    rw [beq_b_right t hinj hk]
    split
    · rfl
    · show _ :: Subst.set (hS t rest) _ _ = _
      rw [set_hS k hk v rest]
      rfl

mutual
theorem substBase_hR (s : Subst) (hs : KeysRadical s) : ∀ a : Ty,
    substBase (hS t s) (hR t a) = hR t (substBase s a)
  | .base id => by
    simp only [renTy, substBase]
    rw [lookup_hS_keys t hinj id s hs]
    cases lookup s id <;> rfl
  | .coll b => by simp only [renTy, substBase]; rw [substBase_hR s hs b]
  | .tuple cs => by simp only [renTy, substBase]; rw [substBaseList_hR s hs cs]
theorem substBaseList_hR (s : Subst) (hs : KeysRadical s) : ∀ cs : List Ty,
    substBaseList (hS t s) (hRL t cs) = hRL t (substBaseList s cs)
  | [] => rfl
  | c :: cs => by simp only [renTyL, substBaseList]; rw [substBase_hR s hs c, substBaseList_hR s hs cs]
end

mutual
theorem bindRadicals_hS (anyT : Ty) : ∀ (a : Ty) (s : Subst),
    bindRadicals (hS t s) (hR t anyT) (hR t a) = hS t (bindRadicals s anyT a)
  | .base id, s => by
    simp only [renTy, bindRadicals]
    rw [t.brad]
    cases hr : isRadical id with
    | false => rfl
    | true =>
      rw [lookup_hS_radical t hinj id hr s]
      have : ((lookup s id).map (hR t)).isNone = (lookup s id).isNone := by cases lookup s id <;> rfl
      rw [this]
      split
      · rw [hS_append]; rfl
      · rfl
  | .coll b, s => by simp only [renTy, bindRadicals]; exact bindRadicals_hS anyT b s
  | .tuple cs, s => by simp only [renTy, bindRadicals]; exact bindRadicalsList_hS anyT cs s
theorem bindRadicalsList_hS (anyT : Ty) : ∀ (cs : List Ty) (s : Subst),
    bindRadicalsList (hS t s) (hR t anyT) (hRL t cs) = hS t (bindRadicalsList s anyT cs)
  | [], _ => rfl
  | c :: cs, s => by
    simp only [renTyL, bindRadicalsList]
    rw [bindRadicals_hS anyT c s, bindRadicalsList_hS anyT cs _]
end

omit hinj in
theorem commonType_base_some {te : TraitEnv} {a b : String}
    (h : (commonType te (.base a) (.base b)).isSome = true) : a = Ty.intName ∨ b = Ty.intName := by
  unfold commonType at h
  rw [base_beq_Z, base_beq_Z] at h
  by_cases h1 : a = Ty.intName
  · exact Or.inl h1
  · by_cases h2 : b = Ty.intName
    · exact Or.inr h2
    · rw [if_neg (by simpa using h1), if_neg (by simpa using h2)] at h
      exact absurd h (by simp)

/-! ## `CompareTemplated`: M1 -/

mutual
theorem compareTemplated_inj (te : TraitEnv) : ∀ (s : Subst) (a v : Ty) (s' : Subst),
    compareTemplated te s a v = (true, s') → hR t a = hR t v → a = v
  | s, .base a, .base b, s', h, he => by
    simp only [renTy, Ty.base.injEq] at he
    by_cases hab : a = b
    · rw [hab]
    · exfalso
      by_cases hr : isRadical a = true
      · exact hab (hinj a b hr he)
      · simp only [compareTemplated] at h
        have hbeq : Ty.beq (.base a) (.base b) = false := by
          rw [Ty.beq]; simpa using hab
        rw [hbeq, if_neg (by simp), if_neg hr] at h
        split at h
        · rename_i hany
          have hb : b = Ty.anyName := by simpa [Ty.isAny] using hany
          exact hab ((t.eq_any_of_eq he.symm hb).trans hb.symm)
        · simp only [Prod.mk.injEq] at h
          rcases commonType_base_some h.1 with hz | hz
          · exact hab (hz.trans (t.eq_int_of_eq he hz).symm)
          · exact hab ((t.eq_int_of_eq he.symm hz).trans hz.symm)
  | _, .base _, .coll _, _, _, he => by simp [renTy] at he
  | _, .base _, .tuple _, _, _, he => by simp [renTy] at he
  | _, .coll _, .base _, _, _, he => by simp [renTy] at he
  | _, .tuple _, .base _, _, _, he => by simp [renTy] at he
  | _, .coll _, .tuple _, _, _, he => by simp [renTy] at he
  | _, .tuple _, .coll _, _, _, he => by simp [renTy] at he
  | s, .coll a, .coll b, s', h, he => by
    simp only [renTy, Ty.coll.injEq] at he
    cases hbeq : Ty.beq (.coll a) (.coll b) with
    | true => exact Ty.eq_of_beq _ _ hbeq
    | false =>
      simp only [compareTemplated] at h
      rw [hbeq, if_neg (by simp)] at h
      simp only [Ty.isAny, Bool.false_eq_true, if_false] at h
      rw [compareTemplated_inj te s a b s' h he]
  | s, .tuple as, .tuple bs, s', h, he => by
    simp only [renTy, Ty.tuple.injEq] at he
    cases hbeq : Ty.beq (.tuple as) (.tuple bs) with
    | true => exact Ty.eq_of_beq _ _ hbeq
    | false =>
      simp only [compareTemplated] at h
      rw [hbeq, if_neg (by simp)] at h
      simp only [Ty.isAny, Bool.false_eq_true, if_false] at h
      split at h
      · exact absurd h (by simp)
      · rw [compareTemplatedList_inj te s as bs s' h he]
theorem compareTemplatedList_inj (te : TraitEnv) : ∀ (s : Subst) (as bs : List Ty) (s' : Subst),
    compareTemplatedList te s as bs = (true, s') → hRL t as = hRL t bs → as = bs
  | _, [], [], _, _, _ => rfl
  | _, [], _ :: _, _, _, he => by simp [renTyL] at he
  | _, _ :: _, [], _, _, he => by simp [renTyL] at he
  | s, a :: as, b :: bs, s', h, he => by
    simp only [renTyL, List.cons.injEq] at he
    simp only [compareTemplatedList] at h
    cases hc : compareTemplated te s a b with
    | mk ok s1 =>
      rw [hc] at h
      cases ok with
      | false => exact absurd h (by simp)
      | true =>
        simp only at h
        rw [compareTemplated_inj te s a b s1 hc he.1, compareTemplatedList_inj te s1 as bs s' h he.2]
end

end inj

/-! ## `CompareTemplated`: success direction -/

section hom
variable {te te' : TraitEnv} (hte : TraitsHom t te te')
  (hinj : ∀ x y, isRadical x = true → t.b x = t.b y → x = y)
include hte hinj
set_option linter.unusedSectionVars false

/-- the image of a failed equality test of a successful comparison fails -/
theorem beq_hR_false_of_compare {s : Subst} {a v : Ty} {s' : Subst}
    (h : compareTemplated te s a v = (true, s')) (hb : Ty.beq a v = false) :
    Ty.beq (hR t a) (hR t v) = false := by
  cases hbb : Ty.beq (hR t a) (hR t v) with
  | false => rfl
  | true =>
    have := compareTemplated_inj t hinj te s a v s' h (Ty.eq_of_beq _ _ hbb)
    rw [this, Ty.beq_refl] at hb
    exact absurd hb (by simp)

mutual
theorem compareTemplated_hom : ∀ (s : Subst) (a v : Ty) (s' : Subst),
    compareTemplated te s a v = (true, s') →
    compareTemplated te' (hS t s) (hR t a) (hR t v) = (true, hS t s')
  | s, .base a, v, s', h => by
    cases hbeq : Ty.beq (.base a) v with
    | true =>
      have hv : v = .base a := (Ty.eq_of_beq _ _ hbeq).symm
      subst hv
      simp only [compareTemplated] at h
      rw [hbeq, if_pos rfl] at h
      cases h
      simp only [renTy, compareTemplated]
      rw [Ty.beq_refl, if_pos rfl]
    | false =>
      have hbeq' := beq_hR_false_of_compare t hte hinj h hbeq
      simp only [renTy] at hbeq'
      simp only [compareTemplated] at h
      rw [hbeq, if_neg (by simp)] at h
      simp only [renTy, compareTemplated]
      rw [hbeq', if_neg (by simp), t.brad]
      cases hr : isRadical a with
      | true =>
        rw [hr, if_pos rfl] at h
        rw [if_pos rfl, lookup_hS_radical t hinj a hr s]
        cases hl : lookup s a with
        | none =>
          rw [hl] at h
          cases h
          simp only [Option.map_none]
          rw [hS_append]; rfl
        | some old =>
          rw [hl] at h
          simp only at h
          simp only [Option.map_some]
          cases hm : merge te old v with
          | none => rw [hm] at h; exact absurd h (by simp)
          | some m =>
            rw [hm] at h
            cases h
            rw [merge_hom t hte old v m hm]
            simp only
            rw [set_hS t hinj a hr m s]
      | false =>
        rw [hr, if_neg (by simp)] at h
        rw [if_neg (by simp), isAny_hR]
        cases hany : v.isAny with
        | true =>
          rw [hany, if_pos rfl] at h
          cases h
          rw [if_pos rfl]
        | false =>
          rw [hany, if_neg (by simp)] at h
          rw [if_neg (by simp)]
          cases v with
          | base b =>
            have hc := commonType_hR t hte (.base a) (.base b)
            simp only [renTy] at hc
            simp only [Prod.mk.injEq] at h
            simp only [renTy]
            rw [hc, ← h.2]
            cases hh : commonType te (.base a) (.base b) with
            | none => rw [hh] at h; exact absurd h.1 (by simp)
            | some _ => rfl
          | tuple _ => exact absurd h (by simp)
          | coll _ => exact absurd h (by simp)
  | s, .coll a, v, s', h => by
    cases hbeq : Ty.beq (.coll a) v with
    | true =>
      have hv : v = .coll a := (Ty.eq_of_beq _ _ hbeq).symm
      subst hv
      simp only [compareTemplated] at h
      rw [hbeq, if_pos rfl] at h
      cases h
      simp only [renTy, compareTemplated]
      rw [Ty.beq_refl, if_pos rfl]
    | false =>
      have hbeq' := beq_hR_false_of_compare t hte hinj h hbeq
      simp only [renTy] at hbeq'
      simp only [compareTemplated] at h
      rw [hbeq, if_neg (by simp)] at h
      simp only [renTy, compareTemplated]
      rw [hbeq', if_neg (by simp), isAny_hR]
      cases hany : v.isAny with
      | true =>
        rw [hany, if_pos rfl] at h
        cases h
        rw [if_pos rfl]
        have := bindRadicals_hS t hinj v (.coll a) s
        simp only [renTy] at this
        rw [this]
      | false =>
        rw [hany, if_neg (by simp)] at h
        rw [if_neg (by simp)]
        cases v with
        | base _ => exact absurd h (by simp)
        | tuple _ => exact absurd h (by simp)
        | coll b =>
          simp only [renTy]
          exact compareTemplated_hom s a b s' h
  | s, .tuple as, v, s', h => by
    cases hbeq : Ty.beq (.tuple as) v with
    | true =>
      have hv : v = .tuple as := (Ty.eq_of_beq _ _ hbeq).symm
      subst hv
      simp only [compareTemplated] at h
      rw [hbeq, if_pos rfl] at h
      cases h
      simp only [renTy, compareTemplated]
      rw [Ty.beq_refl, if_pos rfl]
    | false =>
      have hbeq' := beq_hR_false_of_compare t hte hinj h hbeq
      simp only [renTy] at hbeq'
      simp only [compareTemplated] at h
      rw [hbeq, if_neg (by simp)] at h
      simp only [renTy, compareTemplated]
      rw [hbeq', if_neg (by simp), isAny_hR]
      cases hany : v.isAny with
      | true =>
        rw [hany, if_pos rfl] at h
        cases h
        rw [if_pos rfl]
        have := bindRadicals_hS t hinj v (.tuple as) s
        simp only [renTy] at this
        rw [this]
      | false =>
        rw [hany, if_neg (by simp)] at h
        rw [if_neg (by simp)]
        cases v with
        | base _ => exact absurd h (by simp)
        | coll _ => exact absurd h (by simp)
        | tuple bs =>
          simp only at h
          simp only [renTy]
          rw [length_hRL, length_hRL]
          split at h
          · exact absurd h (by simp)
          · rename_i hlen
            rw [if_neg hlen]
            exact compareTemplatedList_hom s as bs s' h
theorem compareTemplatedList_hom : ∀ (s : Subst) (as bs : List Ty) (s' : Subst),
    compareTemplatedList te s as bs = (true, s') →
    compareTemplatedList te' (hS t s) (hRL t as) (hRL t bs) = (true, hS t s')
  | s, [], _, s', h => by
    simp only [compareTemplatedList] at h
    cases h
    rfl
  | s, _ :: _, [], s', h => by
    simp only [compareTemplatedList] at h
    cases h
    rfl
  | s, a :: as, b :: bs, s', h => by
    simp only [compareTemplatedList] at h
    simp only [renTyL, compareTemplatedList]
    cases hc : compareTemplated te s a b with
    | mk ok s1 =>
      rw [hc] at h
      cases ok with
      | false => exact absurd h (by simp)
      | true =>
        simp only at h
        rw [compareTemplated_hom s a b s1 hc]
        simp only
        exact compareTemplatedList_hom s1 as bs s' h
end

end hom

end

/-! ## non-vacuity -/

/-- the identification of `X1` and `X2` is injective on radicals -/
theorem THom.example_inj : ∀ x y, isRadical x = true → THom.example.b x = THom.example.b y → x = y := by
  intro x y hx h
  have h' : (if x = "X2" then "X1" else x) = (if y = "X2" then "X1" else y) := h
  have hx2 : x ≠ "X2" := fun e => by rw [e] at hx; exact absurd hx (by decide)
  rw [if_neg hx2] at h'
  by_cases hy : y = "X2"
  · rw [if_pos hy] at h'
    rw [h'] at hx
    exact absurd hx (by decide)
  · rw [if_neg hy] at h'
    exact h'

example : compareTemplated [] [] (.tuple [.base "R1", .base "X2"]) (.tuple [.coll (.base "X2"), .base "X2"]) =
    (true, [("R1", .coll (.base "X2"))]) := by decide

end CCVerif.Types
