import CCVerif.Lemmas.ParserShapeTop
set_option linter.unusedVariables false
set_option linter.unusedSectionVars false
/-!
Helper lemmas of C04 (`ConvertTo` never faults) — the trees the parser model returns, as the PRINTER needs them.

`Checker.WfParsed` (C06 `parse_gives_WfParsed`) is the shape the CHECKER needs; it is too weak for the text generator
(`GeneratorImplAST`): it allows children below a leaf, any payload on `LIT_INTEGER`, any token as the head of a call
and any tree as the name of a global declaration (`PrinterTotal.print_stuck_on_WfParsed_counterexample`). This file
defines the arity / payload table the generator's asserts and `std::get`s rely on (`Printable`) and proves that the
recursive-descent parser only returns such trees, for EVERY token stream whose tokens carry the payload of their
kind (no hypothesis on a context). Same structure as `Lemmas/ParserShape*.lean`; one category only.
-/
namespace CCVerif.PrinterShape
open CCVerif.Syntax CCVerif.Generated CCVerif.Lexer CCVerif.Parser CCVerif.ParserShape

/-- number of children the generator's visitor of a node kind asserts / accesses (`DispatchVisit`,
`GeneratorImplAST::Vi…`) -/
def arityOK (id : Tok) (n : Nat) : Bool :=
  match id with
  | .ID_GLOBAL | .ID_FUNCTION | .ID_PREDICATE | .ID_LOCAL | .ID_RADICAL
  | .LIT_INTSET | .LIT_INTEGER | .LIT_EMPTYSET => n == 0
  | .CARD | .BOOL | .DEBOOL | .BIGPR | .SMALLPR | .REDUCE | .NOT | .BOOLEAN => n == 1
  | .NT_FUNC_DEFINITION | .NT_ARG_DECL
  | .PLUS | .MINUS | .MULTIPLY | .UNION | .INTERSECTION | .SET_MINUS | .SYMMINUS
  | .AND | .OR | .IMPLICATION | .EQUIVALENT
  | .EQUAL | .NOTEQUAL | .GREATER | .LESSER | .GREATER_OR_EQ | .LESSER_OR_EQ
  | .IN | .NOTIN | .SUBSET | .SUBSET_OR_EQ | .NOTSUBSET | .ITERATE | .ASSIGN => n == 2
  | .FORALL | .EXISTS | .NT_DECLARATIVE_EXPR | .NT_RECURSIVE_SHORT => n == 3
  | .NT_RECURSIVE_FULL => n == 4
  | .NT_FUNC_CALL | .NT_TUPLE_DECL | .NT_TUPLE | .FILTER | .NT_IMPERATIVE_EXPR | .DECART => decide (1 < n)
  | .NT_ENUM_DECL | .NT_ENUMERATION => true
  | .NT_ARGUMENTS => decide (0 < n)
  | _ => decide (0 < n)

/-- payload the generator reads from the token of a node kind (`Token::ToString`: `ToText`, `ToInt`, `ToTuple` and
`*begin()` of the index vector) -/
def dataOK (id : Tok) (d : TokData) : Bool :=
  match id with
  | .ID_LOCAL | .ID_GLOBAL | .ID_FUNCTION | .ID_PREDICATE | .ID_RADICAL =>
    (match d with | .text _ => true | _ => false)
  | .LIT_INTEGER => (match d with | .int _ => true | _ => false)
  | .BIGPR | .SMALLPR | .FILTER => (match d with | .tuple (_ :: _) => true | _ => false)
  | _ => true

/-- **the trees the text generator handles without an unchecked access**: every node has the number of children its
visitor asserts and the payload `Token::ToString` reads -/
inductive Printable : Ast → Prop where
  | mk {id : Tok} {d : TokData} {lo hi : Int} {kids : List Ast} :
      arityOK id kids.length = true → dataOK id d = true → (∀ k, k ∈ kids → Printable k) →
      Printable (.node id d lo hi kids)

theorem Printable.inv {id : Tok} {d : TokData} {lo hi : Int} {kids : List Ast} (h : Printable (.node id d lo hi kids)) :
    arityOK id kids.length = true ∧ dataOK id d = true ∧ ∀ k, k ∈ kids → Printable k := by
  cases h with
  | mk a b c => exact ⟨a, b, c⟩

/-- a token carries the payload of its kind -/
def TokP (t : LTok) : Prop := dataOK t.id t.data = true
def AllP (ts : Toks) : Prop := ∀ t, t ∈ ts → TokP t

@[simp] theorem allP_nil : AllP [] := by intro t h; cases h
theorem allP_cons (t : LTok) (ts : Toks) : AllP (t :: ts) ↔ TokP t ∧ AllP ts := by
  simp [AllP]
theorem allP_drop (n : Nat) {ts : Toks} (h : AllP ts) : AllP (ts.drop n) :=
  fun t ht => h t (List.mem_of_mem_drop ht)
theorem allP_takeWhile (p : LTok → Bool) {ts : Toks} (h : AllP ts) : AllP (ts.takeWhile p) :=
  fun t ht => h t ((List.takeWhile_prefix p).subset ht)

/-- the raw tree becomes a `Printable` tree when its bracket nodes are removed -/
def RawP (raw : Ast) : Prop := ∃ t, stripBrackets raw = some t ∧ Printable t
def AllRawP (l : List Ast) : Prop := ∀ k, k ∈ l → RawP k

@[simp] theorem allRawP_nil : AllRawP [] := by intro k h; cases h
theorem allRawP_cons (a : Ast) (l : List Ast) : AllRawP (a :: l) ↔ RawP a ∧ AllRawP l := by
  simp [AllRawP]
theorem allRawP_append (l₁ l₂ : List Ast) : AllRawP (l₁ ++ l₂) ↔ AllRawP l₁ ∧ AllRawP l₂ := by
  simp only [AllRawP, List.mem_append]
  exact ⟨fun h => ⟨fun k hk => h k (Or.inl hk), fun k hk => h k (Or.inr hk)⟩, fun h k hk => hk.elim (h.1 k) (h.2 k)⟩

theorem allRawP_strip : ∀ (l : List Ast), AllRawP l →
    ∃ l', stripBracketsList l = some l' ∧ (∀ k, k ∈ l' → Printable k) ∧ l'.length = l.length
  | [], _ => ⟨[], strip_list_nil, by simp, rfl⟩
  | a :: l, h => by
    rw [allRawP_cons] at h
    obtain ⟨a', ha, wa⟩ := h.1
    obtain ⟨l', hl, wl, hlen⟩ := allRawP_strip l h.2
    refine ⟨a' :: l', strip_list_cons ha hl, ?_, by simp [hlen]⟩
    intro k hk
    rcases List.mem_cons.1 hk with rfl | hk
    · exact wa
    · exact wl k hk

/-- building a node other than a bracket from raw children -/
theorem rawP_node {id : Tok} {d : TokData} {lo hi : Int} {kids : List Ast} (hid : id ≠ .PUNC_PL)
    (har : arityOK id kids.length = true) (hd : dataOK id d = true) (hk : AllRawP kids) :
    RawP (.node id d lo hi kids) := by
  obtain ⟨ks', hs, hw, hlen⟩ := allRawP_strip kids hk
  exact ⟨.node id d lo hi ks', by rw [strip_node d lo hi kids hid, hs]; rfl, .mk (by rw [hlen]; exact har) hd hw⟩

/-! ## the semantic actions -/

theorem raw_removeBrackets {e : Ast} (l r : LTok) (h : RawP e) : RawP (removeBrackets l e r) := by
  obtain ⟨t, ht, wt⟩ := h
  unfold removeBrackets setRange
  cases e with
  | node id d lo hi kids =>
    simp only [Ast.id, Ast.data, Ast.kids]
    by_cases hid : id = .PUNC_PL
    · subst hid
      refine ⟨t, ?_, wt⟩
      rw [strip_pl] at ht ⊢
      simp only []
      rw [strip_pl]
      exact ht
    · rw [strip_node d lo hi kids hid] at ht
      cases hk : stripBracketsList kids with
      | none => rw [hk] at ht; cases ht
      | some ks' =>
        rw [hk] at ht; simp only [Option.map_some, Option.some.injEq] at ht; subst ht
        obtain ⟨a, b, c⟩ := wt.inv
        refine ⟨.node id d l.lo r.hi ks', ?_, .mk a b c⟩
        rw [strip_pl]
        simp only []
        rw [strip_node d l.lo r.hi kids hid, hk]; rfl

theorem setOp_ar {id : Tok} (h : isSetOp id = true) : arityOK id 2 = true ∧ id ≠ .PUNC_PL := by
  cases id <;> simp_all [isSetOp, arityOK]
theorem predOp_ar {id : Tok} (h : isPredOp id = true) : arityOK id 2 = true ∧ id ≠ .PUNC_PL := by
  cases id <;> simp_all [isPredOp, arityOK]
theorem logicOp_ar {id : Tok} (h : isLogicOp id = true) : arityOK id 2 = true ∧ id ≠ .PUNC_PL := by
  cases id <;> simp_all [isLogicOp, arityOK]

theorem allRawP_two {a b : Ast} (ha : RawP a) (hb : RawP b) : AllRawP [a, b] := by
  intro k hk; simp at hk; rcases hk with rfl | rfl <;> assumption

/-- `BinaryOperation` with an operator token whose visitor wants two children -/
theorem raw_binary {a b : Ast} {op : LTok} (ht : TokP op) (har : arityOK op.id 2 = true ∧ op.id ≠ .PUNC_PL)
    (ha : RawP a) (hb : RawP b) : RawP (binaryOperation a op b) := by
  unfold binaryOperation
  exact rawP_node har.2 har.1 ht (allRawP_two ha hb)

theorem raw_binary_set {a b : Ast} {op : LTok} (ht : TokP op) (hop : isSetOp op.id = true)
    (ha : RawP a) (hb : RawP b) : RawP (binaryOperation a op b) := raw_binary ht (setOp_ar hop) ha hb
theorem raw_binary_pred {a b : Ast} {op : LTok} (ht : TokP op) (hop : isPredOp op.id = true)
    (ha : RawP a) (hb : RawP b) : RawP (binaryOperation a op b) := raw_binary ht (predOp_ar hop) ha hb
theorem raw_binary_logic {a b : Ast} {op : LTok} (ht : TokP op) (hop : isLogicOp op.id = true)
    (ha : RawP a) (hb : RawP b) : RawP (binaryOperation a op b) := raw_binary ht (logicOp_ar hop) ha hb
theorem raw_binary_iter {v b : Ast} {op : LTok} (ht : TokP op) (hop : op.id = .ITERATE ∨ op.id = .ASSIGN)
    (hv : RawP v) (hb : RawP b) : RawP (binaryOperation v op b) :=
  raw_binary ht (by rcases hop with h | h <;> rw [h] <;> exact ⟨rfl, by decide⟩) hv hb

/-- `Decartian` -/
theorem raw_decartian {a b : Ast} {op : LTok} (ht : TokP op) (hop : op.id = .DECART)
    (ha : RawP a) (hb : RawP b) : RawP (decartian a op b) := by
  unfold decartian
  split
  · rename_i hid
    obtain ⟨a', sa, wa⟩ := ha; obtain ⟨b', sb, wb⟩ := hb
    cases a with
    | node id d lo hi kids =>
      have hid' : id = .DECART := by
        simp only [Ast.id] at hid
        cases id <;> first | rfl | cases hid
      subst hid'
      simp only [Ast.id, Ast.data, Ast.lo, Ast.kids]
      rw [strip_node d lo hi kids (by decide)] at sa
      cases hk : stripBracketsList kids with
      | none => rw [hk] at sa; cases sa
      | some ks' =>
        rw [hk] at sa; simp only [Option.map_some, Option.some.injEq] at sa; subst sa
        obtain ⟨har, hd, hall⟩ := wa.inv
        refine ⟨.node .DECART d lo b.hi (ks' ++ [b']), ?_, .mk ?_ hd ?_⟩
        · rw [strip_node d lo b.hi _ (by decide), strip_list_append hk sb]; rfl
        · simp only [arityOK, decide_eq_true_eq, List.length_append, List.length_cons, List.length_nil] at har ⊢
          omega
        · intro k hk'
          rcases List.mem_append.1 hk' with h | h
          · exact hall k h
          · simp at h; subst h; exact wb
  · exact raw_binary ht (by rw [hop]; exact ⟨rfl, by decide⟩) ha hb

theorem leaf_ar {id : Tok}
    (hid : id = .LIT_INTEGER ∨ id = .LIT_EMPTYSET ∨ id = .LIT_INTSET ∨ id = .ID_GLOBAL ∨ id = .ID_LOCAL ∨
      id = .ID_RADICAL ∨ id = .ID_FUNCTION ∨ id = .ID_PREDICATE) : arityOK id 0 = true ∧ id ≠ .PUNC_PL := by
  rcases hid with h | h | h | h | h | h | h | h <;> rw [h] <;> exact ⟨rfl, by decide⟩

/-- leaves -/
theorem raw_leaf {t : LTok} (ht : TokP t)
    (hid : t.id = .LIT_INTEGER ∨ t.id = .LIT_EMPTYSET ∨ t.id = .LIT_INTSET ∨ t.id = .ID_GLOBAL ∨ t.id = .ID_LOCAL ∨
      t.id = .ID_RADICAL ∨ t.id = .ID_FUNCTION ∨ t.id = .ID_PREDICATE) : RawP (leaf t) := by
  unfold leaf
  exact rawP_node (leaf_ar hid).2 (leaf_ar hid).1 ht allRawP_nil

/-- `FunctionCall` -/
theorem raw_call {t : LTok} {args : List Ast} {lo hi : Int} (ht : TokP t)
    (hid : t.id = .ID_FUNCTION ∨ t.id = .ID_PREDICATE) (ha : AllRawP args) (hn : 1 ≤ args.length) :
    RawP (.node .NT_FUNC_CALL .none lo hi (leaf t :: args)) := by
  refine rawP_node (by decide) ?_ rfl ?_
  · simp only [arityOK, decide_eq_true_eq, List.length_cons]; omega
  · rw [allRawP_cons]
    exact ⟨raw_leaf ht (by rcases hid with h | h <;> simp [h]), ha⟩

/-- `TextOperator` -/
theorem raw_textOperator {t rp : LTok} {e : Ast} (ht : TokP t)
    (hid : t.id = .BOOL ∨ t.id = .DEBOOL ∨ t.id = .REDUCE ∨ t.id = .BIGPR ∨ t.id = .SMALLPR ∨ t.id = .CARD ∨ t.id = .BOOLEAN)
    (he : RawP e) : RawP (textOperator t e rp) := by
  unfold textOperator
  have : arityOK t.id 1 = true ∧ t.id ≠ .PUNC_PL := by
    rcases hid with h | h | h | h | h | h | h <;> rw [h] <;> exact ⟨rfl, by decide⟩
  exact rawP_node this.2 this.1 ht (by intro k hk; simp at hk; subst hk; exact he)

/-- `BOOLEAN boolean`, `NOT logic_no_binary` -/
theorem raw_unary {t : LTok} {e : Ast} (ht : TokP t) (hid : t.id = .BOOLEAN ∨ t.id = .NOT) (he : RawP e) :
    RawP (unaryOperation t e) := by
  unfold unaryOperation
  have : arityOK t.id 1 = true ∧ t.id ≠ .PUNC_PL := by
    rcases hid with h | h <;> rw [h] <;> exact ⟨rfl, by decide⟩
  exact rawP_node this.2 this.1 ht (by intro k hk; simp at hk; subst hk; exact he)

/-- `FilterCall` -/
theorem raw_filter {t : LTok} {params : List Ast} {e : Ast} {lo hi : Int} (ht : TokP t) (hid : t.id = .FILTER)
    (hp : AllRawP params) (hn : 1 ≤ params.length) (he : RawP e) :
    RawP (.node t.id t.data lo hi (params ++ [e])) := by
  refine rawP_node (by rw [hid]; decide) ?_ ht ?_
  · rw [hid]; simp only [arityOK, decide_eq_true_eq, List.length_append, List.length_cons, List.length_nil]; omega
  · rw [allRawP_append]; exact ⟨hp, by intro k hk; simp at hk; subst hk; exact he⟩

theorem allRawP_three {a b c : Ast} (ha : RawP a) (hb : RawP b) (hc : RawP c) : AllRawP [a, b, c] := by
  intro k hk; simp at hk; rcases hk with rfl | rfl | rfl <;> assumption

/-- `TermDeclaration` -/
theorem raw_declarative {v d p : Ast} {lo hi : Int} (hv : RawP v) (hd : RawP d) (hp : RawP p) :
    RawP (.node .NT_DECLARATIVE_EXPR .none lo hi [v, d, p]) :=
  rawP_node (by decide) rfl rfl (allRawP_three hv hd hp)

/-- `FullRecursion` -/
theorem raw_recursive_full {v d c s : Ast} {lo hi : Int} (hv : RawP v) (hd : RawP d) (hc : RawP c) (hs : RawP s) :
    RawP (.node .NT_RECURSIVE_FULL .none lo hi [v, d, c, s]) :=
  rawP_node (by decide) rfl rfl (by intro k hk; simp at hk; rcases hk with rfl | rfl | rfl | rfl <;> assumption)

/-- `ShortRecursion` -/
theorem raw_recursive_short {v d c : Ast} {lo hi : Int} (hv : RawP v) (hd : RawP d) (hc : RawP c) :
    RawP (.node .NT_RECURSIVE_SHORT .none lo hi [v, d, c]) :=
  rawP_node (by decide) rfl rfl (allRawP_three hv hd hc)

/-- `Imperative`: at least one block -/
theorem raw_imperative {v : Ast} {bs : List Ast} {lo hi : Int} (hv : RawP v) (hb : AllRawP bs) (hn : 1 ≤ bs.length) :
    RawP (.node .NT_IMPERATIVE_EXPR .none lo hi (v :: bs)) := by
  refine rawP_node (by decide) ?_ rfl ((allRawP_cons _ _).2 ⟨hv, hb⟩)
  simp only [arityOK, decide_eq_true_eq, List.length_cons]; omega

/-- `ReplaceBrackets(NT_ENUMERATION)` -/
theorem raw_enumeration {items : List Ast} {lo hi : Int} (hi' : AllRawP items) :
    RawP (.node .NT_ENUMERATION .none lo hi items) := rawP_node (by decide) rfl rfl hi'

/-- `ReplaceBrackets(NT_TUPLE)` -/
theorem raw_tuple {items : List Ast} {lo hi : Int} (hi' : AllRawP items) (hn : 2 ≤ items.length) :
    RawP (.node .NT_TUPLE .none lo hi items) := by
  refine rawP_node (by decide) ?_ rfl hi'
  simp only [arityOK, decide_eq_true_eq]; omega

/-- `Quantifier` -/
theorem raw_quant {t : LTok} {decl d p : Ast} {lo hi : Int} (ht : TokP t) (hid : t.id = .FORALL ∨ t.id = .EXISTS)
    (hv : RawP decl) (hd : RawP d) (hp : RawP p) : RawP (.node t.id t.data lo hi [decl, d, p]) := by
  have : arityOK t.id 3 = true ∧ t.id ≠ .PUNC_PL := by
    rcases hid with h | h <;> rw [h] <;> exact ⟨rfl, by decide⟩
  exact rawP_node this.2 this.1 ht (allRawP_three hv hd hp)

/-- `NT_ENUM_DECL` -/
theorem raw_enumDecl {vs : List Ast} {lo hi : Int} (h : AllRawP vs) : RawP (.node .NT_ENUM_DECL .none lo hi vs) :=
  rawP_node (by decide) rfl rfl h

/-- `declaration : LOCAL IN setexpr` -/
theorem raw_argDecl {l : LTok} {e : Ast} {lo hi : Int} (hl : TokP l) (hid : l.id = .ID_LOCAL) (he : RawP e) :
    RawP (.node .NT_ARG_DECL .none lo hi [leaf l, e]) :=
  rawP_node (by decide) rfl rfl (allRawP_two (raw_leaf hl (by simp [hid])) he)

/-! ## `TupleDeclaration` -/

mutual
theorem tupleDecl_printable : ∀ (a b a' : Ast), tupleDecl a = some b → stripBrackets a = some a' → Printable a' → Printable b
  | .node id d lo hi kids, b, a', h, hs, hw => by
    rw [tupleDecl] at h
    split at h
    · rename_i hid
      have hid' : id = .NT_TUPLE := by cases id <;> first | rfl | cases hid
      subst hid'
      split at h
      · rename_i ks hks
        cases h
        rw [strip_node _ _ _ _ (by decide)] at hs
        cases hk : stripBracketsList kids with
        | none => rw [hk] at hs; cases hs
        | some ks' =>
          rw [hk] at hs; simp only [Option.map_some, Option.some.injEq] at hs; subst hs
          obtain ⟨har, hd, hall⟩ := hw.inv
          obtain ⟨w1, w2⟩ := tupleDeclList_printable kids ks ks' hks hk hall
          exact .mk (by rw [w2]; exact har) rfl w1
      · cases h
    · split at h
      · rename_i hid
        have hid' : id = .ID_LOCAL := by cases id <;> first | rfl | cases hid
        subst hid'
        split at h
        · rename_i ks hks
          cases h
          rw [strip_node _ _ _ _ (by decide)] at hs
          cases hk : stripBracketsList kids with
          | none => rw [hk] at hs; cases hs
          | some ks' =>
            rw [hk] at hs; simp only [Option.map_some, Option.some.injEq] at hs; subst hs
            obtain ⟨har, hd, hall⟩ := hw.inv
            obtain ⟨w1, w2⟩ := tupleDeclList_printable kids ks ks' hks hk hall
            exact .mk (by rw [w2]; exact har) hd w1
        · cases h
      · cases h
theorem tupleDeclList_printable : ∀ (l m l' : List Ast), tupleDeclList l = some m → stripBracketsList l = some l' →
    (∀ k, k ∈ l' → Printable k) → (∀ k, k ∈ m → Printable k) ∧ m.length = l'.length
  | [], m, l', h, hs, _ => by
    rw [tupleDeclList] at h; cases h
    rw [strip_list_nil] at hs; cases hs
    exact ⟨by simp, rfl⟩
  | k :: ks, m, l', h, hs, hw => by
    rw [tupleDeclList] at h
    split at h
    · rename_i k' ks' h1 h2
      cases h
      rw [stripBracketsList] at hs
      cases e1 : stripBrackets k with
      | none => rw [e1] at hs; cases hs
      | some k'' =>
        cases e2 : stripBracketsList ks with
        | none => rw [e1, e2] at hs; cases hs
        | some ks'' =>
          rw [e1, e2] at hs; cases hs
          have wk := tupleDecl_printable k k' k'' h1 e1 (hw _ (by simp))
          obtain ⟨w1, w2⟩ := tupleDeclList_printable ks ks' ks'' h2 e2 (fun x hx => hw x (by simp [hx]))
          refine ⟨?_, by simp [w2]⟩
          intro x hx
          rcases List.mem_cons.1 hx with rfl | hx
          · exact wk
          · exact w1 x hx
    · cases h
end

/-- `TupleDeclaration` of a raw tuple -/
theorem raw_tupleDecl {e e' : Ast} (he : RawP e) (h : tupleDecl e = some e') : RawP e' := by
  obtain ⟨t, st, wt⟩ := he
  exact ⟨e', tupleDecl_noBrackets e e' h, tupleDecl_printable e e' t h st wt⟩

/-! ## the invariant of the twelve parser functions -/

def ResT : Option (K × Ast × Toks) → Prop
  | some (_, e, r) => RawP e ∧ AllP r
  | none => True
def ResV : Option (Ast × Toks) → Prop
  | some (e, r) => RawP e ∧ AllP r
  | none => True
/-- list loops: the new elements are raw printable trees, at least `min` of them -/
def ResL (min : Nat) (acc : List Ast) : Option (List Ast × Toks) → Prop
  | some (es, r) => (AllRawP acc → AllRawP es) ∧ acc.length + min ≤ es.length ∧ AllP r
  | none => True

theorem resT_some {k : K} {e : Ast} {r : Toks} : ResT (some (k, e, r)) ↔ RawP e ∧ AllP r := Iff.rfl
theorem resV_some {e : Ast} {r : Toks} : ResV (some (e, r)) ↔ RawP e ∧ AllP r := Iff.rfl
theorem resL_some {min : Nat} {acc es : List Ast} {r : Toks} :
    ResL min acc (some (es, r)) ↔ (AllRawP acc → AllRawP es) ∧ acc.length + min ≤ es.length ∧ AllP r := Iff.rfl
grind_pattern resT_some => ResT (some (k, e, r))
grind_pattern resV_some => ResV (some (e, r))
grind_pattern resL_some => ResL min acc (some (es, r))

theorem resT_intro {o : Option (K × Ast × Toks)} (h : ∀ k e r, o = some (k, e, r) → RawP e ∧ AllP r) : ResT o := by
  cases o with
  | none => trivial
  | some x => obtain ⟨k, e, r⟩ := x; exact h k e r rfl
theorem resV_intro {o : Option (Ast × Toks)} (h : ∀ e r, o = some (e, r) → RawP e ∧ AllP r) : ResV o := by
  cases o with
  | none => trivial
  | some x => obtain ⟨e, r⟩ := x; exact h e r rfl
theorem resL_intro {min : Nat} {acc : List Ast} {o : Option (List Ast × Toks)}
    (h : ∀ es r, o = some (es, r) → (AllRawP acc → AllRawP es) ∧ acc.length + min ≤ es.length ∧ AllP r) :
    ResL min acc o := by
  cases o with
  | none => trivial
  | some x => obtain ⟨es, r⟩ := x; exact h es r rfl

/-- what is proved of each parser function at one value of the fuel -/
structure ParserP (f : Nat) : Prop where
  enumE : ∀ toks, AllP toks → ResL 1 [] (enumE f toks)
  enumTail : ∀ acc toks, AllP toks → ResL (commaMin toks) acc (enumTail f acc toks)
  varE : ∀ toks, AllP toks → ResV (varE f toks)
  varPackTail : ∀ acc toks, AllP toks → ResL 0 acc (varPackTail f acc toks)
  argDecls : ∀ acc toks, AllP toks → ResL 0 acc (argDecls f acc toks)
  blocks : ∀ acc toks, AllP toks → ResL 1 acc (blocks f acc toks)
  primary : ∀ toks, AllP toks → ResT (primary f toks)
  setE : ∀ m toks, AllP toks → ResT (setE f m toks)
  setLoop : ∀ m k lhs toks, RawP lhs → AllP toks → ResT (setLoop f m k lhs toks)
  predE : ∀ toks, AllP toks → ResT (predE f toks)
  logE : ∀ m toks, AllP toks → ResT (logE f m toks)
  logLoop : ∀ m k lhs toks, RawP lhs → AllP toks → ResT (logLoop f m k lhs toks)

grind_pattern ParserP.enumE => ParserP f, AllP toks, Parser.enumE f toks
grind_pattern ParserP.enumTail => ParserP f, AllP toks, Parser.enumTail f acc toks
grind_pattern ParserP.varE => ParserP f, AllP toks, Parser.varE f toks
grind_pattern ParserP.varPackTail => ParserP f, AllP toks, Parser.varPackTail f acc toks
grind_pattern ParserP.argDecls => ParserP f, AllP toks, Parser.argDecls f acc toks
grind_pattern ParserP.blocks => ParserP f, AllP toks, Parser.blocks f acc toks
grind_pattern ParserP.primary => ParserP f, AllP toks, Parser.primary f toks
grind_pattern ParserP.setE => ParserP f, AllP toks, Parser.setE f m toks
grind_pattern ParserP.setLoop => ParserP f, Parser.setLoop f m k lhs toks
grind_pattern ParserP.predE => ParserP f, AllP toks, Parser.predE f toks
grind_pattern ParserP.logE => ParserP f, AllP toks, Parser.logE f m toks
grind_pattern ParserP.logLoop => ParserP f, Parser.logLoop f m k lhs toks

theorem parserP_zero : ParserP 0 := by
  constructor <;> intros <;> simp [enumE, enumTail, varE, varPackTail, argDecls, blocks, primary, setE, setLoop, predE, logE, logLoop, ResT, ResV, ResL]

grind_pattern allP_drop => AllP ts, List.drop n ts

macro "pshape_close" : tactic =>
  `(tactic| grind (gen := 20) (ematch := 20) [allP_cons, allP_nil, allRawP_cons, allRawP_nil, allRawP_append,
      raw_removeBrackets, raw_binary_set, raw_decartian, raw_binary_pred, raw_binary_logic, raw_binary_iter,
      raw_leaf, raw_textOperator, raw_unary, raw_filter, raw_call, raw_argDecl,
      raw_declarative, raw_recursive_full, raw_recursive_short, raw_imperative, raw_enumeration, raw_tuple,
      raw_quant, raw_enumDecl, raw_tupleDecl, leaf, peek, peek2, commaMin])

theorem step_setE (f : Nat) (ih : ParserP f) :
    ∀ m toks k e r, AllP toks → setE (f + 1) m toks = some (k, e, r) → RawP e ∧ AllP r := by
  intro m toks k e r ht h
  rw [setE.eq_def] at h; parser_cases h
  all_goals try (cases h; done)
  all_goals pshape_close

theorem step_setLoop (f : Nat) (ih : ParserP f) :
    ∀ m k lhs toks k' e r, RawP lhs → AllP toks → setLoop (f + 1) m k lhs toks = some (k', e, r) → RawP e ∧ AllP r := by
  intro m k lhs toks k' e r hl ht h
  rw [setLoop.eq_def] at h; parser_cases h
  all_goals try (cases h; done)
  all_goals try tok_eqs
  all_goals pshape_close

theorem step_logE (f : Nat) (ih : ParserP f) :
    ∀ m toks k e r, AllP toks → logE (f + 1) m toks = some (k, e, r) → RawP e ∧ AllP r := by
  intro m toks k e r ht h
  rw [logE.eq_def] at h; parser_cases h
  all_goals try (cases h; done)
  all_goals pshape_close

theorem step_logLoop (f : Nat) (ih : ParserP f) :
    ∀ m k lhs toks k' e r, RawP lhs → AllP toks → logLoop (f + 1) m k lhs toks = some (k', e, r) → RawP e ∧ AllP r := by
  intro m k lhs toks k' e r hl ht h
  rw [logLoop.eq_def] at h; parser_cases h
  all_goals try (cases h; done)
  all_goals try tok_eqs
  all_goals pshape_close

theorem step_predE (f : Nat) (ih : ParserP f) :
    ∀ toks k e r, AllP toks → predE (f + 1) toks = some (k, e, r) → RawP e ∧ AllP r := by
  intro toks k e r ht h
  rw [predE.eq_def] at h; parser_cases h
  all_goals try (cases h; done)
  all_goals try tok_eqs
  all_goals pshape_close

theorem step_varE (f : Nat) (ih : ParserP f) :
    ∀ toks v r, AllP toks → varE (f + 1) toks = some (v, r) → RawP v ∧ AllP r := by
  intro toks v r ht h
  rw [varE.eq_def] at h; parser_cases h
  all_goals try (cases h; done)
  all_goals try tok_eqs
  all_goals pshape_close

theorem step_enumE (f : Nat) (ih : ParserP f) :
    ∀ toks es r, AllP toks → enumE (f + 1) toks = some (es, r) →
    (AllRawP [] → AllRawP es) ∧ ([] : List Ast).length + 1 ≤ es.length ∧ AllP r := by
  intro toks es r ht h
  rw [enumE.eq_def] at h; parser_cases h
  all_goals try (cases h; done)
  all_goals try tok_eqs
  all_goals pshape_close

theorem step_enumTail (f : Nat) (ih : ParserP f) :
    ∀ acc toks es r, AllP toks → enumTail (f + 1) acc toks = some (es, r) →
    (AllRawP acc → AllRawP es) ∧ acc.length + commaMin toks ≤ es.length ∧ AllP r := by
  intro acc toks es r ht h
  rw [enumTail.eq_def] at h; parser_cases h
  all_goals try (cases h; done)
  all_goals try tok_eqs
  all_goals pshape_close

theorem step_varPackTail (f : Nat) (ih : ParserP f) :
    ∀ acc toks es r, AllP toks → varPackTail (f + 1) acc toks = some (es, r) →
    (AllRawP acc → AllRawP es) ∧ acc.length + 0 ≤ es.length ∧ AllP r := by
  intro acc toks es r ht h
  rw [varPackTail.eq_def] at h; parser_cases h
  all_goals try (cases h; done)
  all_goals try tok_eqs
  all_goals pshape_close

theorem step_blocks (f : Nat) (ih : ParserP f) :
    ∀ acc toks es r, AllP toks → blocks (f + 1) acc toks = some (es, r) →
    (AllRawP acc → AllRawP es) ∧ acc.length + 1 ≤ es.length ∧ AllP r := by
  intro acc toks es r ht h
  rw [blocks.eq_def] at h; parser_cases h
  all_goals try (cases h; done)
  all_goals try tok_eqs
  all_goals pshape_close

theorem step_argDecls (f : Nat) (ih : ParserP f) :
    ∀ acc toks es r, AllP toks → argDecls (f + 1) acc toks = some (es, r) →
    (AllRawP acc → AllRawP es) ∧ acc.length + 0 ≤ es.length ∧ AllP r := by
  intro acc toks es r ht h
  rw [argDecls.eq_def] at h; parser_cases h
  all_goals try (cases h; done)
  all_goals try tok_eqs
  all_goals pshape_close

theorem step_primary (f : Nat) (ih : ParserP f) :
    ∀ toks k e r, AllP toks → primary (f + 1) toks = some (k, e, r) → RawP e ∧ AllP r := by
  intro toks k e r ht h
  rw [primary.eq_def] at h; parser_cases h
  all_goals try (cases h; done)
  all_goals cases h
  all_goals try tok_eqs
  all_goals pshape_close

theorem parserP_succ (f : Nat) (ih : ParserP f) : ParserP (f + 1) where
  enumE := fun toks h => resL_intro fun es r he => step_enumE f ih toks es r h he
  enumTail := fun acc toks h => resL_intro fun es r he => step_enumTail f ih acc toks es r h he
  varE := fun toks h => resV_intro fun v r he => step_varE f ih toks v r h he
  varPackTail := fun acc toks h => resL_intro fun es r he => step_varPackTail f ih acc toks es r h he
  argDecls := fun acc toks h => resL_intro fun es r he => step_argDecls f ih acc toks es r h he
  blocks := fun acc toks h => resL_intro fun es r he => step_blocks f ih acc toks es r h he
  primary := fun toks h => resT_intro fun k e r he => step_primary f ih toks k e r h he
  setE := fun m toks h => resT_intro fun k e r he => step_setE f ih m toks k e r h he
  setLoop := fun m k lhs toks h1 h2 => resT_intro fun k' e r he => step_setLoop f ih m k lhs toks k' e r h1 h2 he
  predE := fun toks h => resT_intro fun k e r he => step_predE f ih toks k e r h he
  logE := fun m toks h => resT_intro fun k e r he => step_logE f ih m toks k e r h he
  logLoop := fun m k lhs toks h1 h2 => resT_intro fun k' e r he => step_logLoop f ih m k lhs toks k' e r h1 h2 he

/-- **the printer-shape invariant of the whole recursive-descent parser**, every fuel -/
theorem parserP : ∀ f : Nat, ParserP f
  | 0 => parserP_zero
  | f + 1 => parserP_succ f (parserP f)

end CCVerif.PrinterShape
