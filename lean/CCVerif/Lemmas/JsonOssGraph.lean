import CCVerif.Lemmas.JsonOss
import CCVerif.Lemmas.Oss
/-!
The graph half of the OSS document loader (C10) IS the graph facet of the C19 machine:
`toGraph (loadParent g c p) = ((toGraph g).loadParent c p).1` — the projection law between
`JsonOss.loadParent` (rows with pictogram identifiers) and `Oss.Graph.loadParent` (index bookkeeping) —
on every row table with distinct items in which every parent is an item (`RInv`), an invariant of
`LoadParent` from the empty facet.
-/
namespace CCVerif.JsonOss
open CCVerif.Json
open CCVerif.Oss (Pid Graph)

/-- distinct items, every parent mentioned in a row is an item -/
def RInv (g : Rows) : Prop := (keysOf g).Nodup ∧ Closed g

theorem rinv_nil : RInv [] := ⟨List.nodup_nil, fun r hr => by cases hr⟩

/-- the adjacency row at the index of `c` is the row of `c`, translated -/
theorem adj_getD (φ : Pid → Nat) : ∀ (g : Rows) (c : Pid),
    (g.map fun r => r.2.map φ).getD ((g.map (·.1)).idxOf c) [] = (rowOf g c).map φ
  | [], c => by simp [rowOf]
  | r :: g, c => by
    by_cases h : r.1 = c
    · simp [h, rowOf]
    · have hb : (r.1 == c) = false := by simpa using h
      have ih := adj_getD φ g c
      simp only [List.map_cons, List.idxOf_cons, hb, cond_false, List.getD_cons_succ]
      rw [ih]
      simp [rowOf, hb]

theorem toGraph_row (g : Rows) (c : Pid) :
    (toGraph g).row ((keysOf g).idxOf c) = (rowOf g c).map fun p => (keysOf g).idxOf p := by
  unfold Graph.row toGraph keysOf
  exact adj_getD _ g c

theorem idxOf_inj {l : List Pid} {a b : Pid} (ha : a ∈ l) (h : l.idxOf a = l.idxOf b) : a = b := by
  have h1 : l.idxOf a < l.length := List.idxOf_lt_length_iff.2 ha
  have h2 : l.idxOf b < l.length := h ▸ h1
  have e1 := List.getElem_idxOf h1
  have e2 := List.getElem_idxOf h2
  rw [← e1, ← e2]
  congr 1

theorem contains_map_idx {l row : List Pid} {p : Pid} (hrow : ∀ q ∈ row, q ∈ l) :
    (row.map fun q => l.idxOf q).contains (l.idxOf p) = row.contains p := by
  rw [Bool.eq_iff_iff]
  simp only [List.contains_iff_mem, List.mem_map]
  constructor
  · rintro ⟨q, hq, he⟩
    have := idxOf_inj (hrow q hq) he
    exact this ▸ hq
  · intro hp; exact ⟨p, hp, rfl⟩

theorem rowOf_closed {g : Rows} (hc : Closed g) (c : Pid) : ∀ q ∈ rowOf g c, q ∈ keysOf g := by
  intro q hq
  obtain ⟨r, hr, _, hq2⟩ := rowOf_mem hq
  exact hc r hr q hq2

theorem findItemIndex_toGraph (g : Rows) (p : Pid) :
    (toGraph g).findItemIndex p = if p ∈ keysOf g then some ((keysOf g).idxOf p) else none := by
  unfold Graph.findItemIndex
  show (if (keysOf g).idxOf p < (keysOf g).length then some ((keysOf g).idxOf p) else none) = _
  by_cases hp : p ∈ keysOf g
  · rw [if_pos hp, if_pos (List.idxOf_lt_length_iff.2 hp)]
  · rw [if_neg hp, if_neg (fun h => hp (List.idxOf_lt_length_iff.1 h))]

theorem idxOf_append_mem {l m : List Pid} {a : Pid} (h : a ∈ l) : (l ++ m).idxOf a = l.idxOf a := by
  rw [List.idxOf_append, if_pos h]

theorem idxOf_append_not {l : List Pid} {a : Pid} (h : a ∉ l) : (l ++ [a]).idxOf a = l.length := by
  rw [List.idxOf_append, if_neg h]; simp

/-- `Item2ID` -/
theorem toGraph_item2ID (g : Rows) (hc : Closed g) (p : Pid) :
    ((toGraph g).item2ID p).1 = toGraph (item2ID g p) ∧
    ((toGraph g).item2ID p).2 = (keysOf (item2ID g p)).idxOf p := by
  unfold Graph.item2ID
  rw [findItemIndex_toGraph]
  by_cases hp : p ∈ keysOf g
  · rw [if_pos hp, item2ID_of_key hp]; exact ⟨rfl, rfl⟩
  · rw [if_neg hp, item2ID_of_not_key hp]
    have hk : keysOf (g ++ [(p, [])]) = keysOf g ++ [p] := by simp [keysOf]
    refine ⟨?_, ?_⟩
    · show ({ items := keysOf g ++ [p], adj := (toGraph g).adj ++ [[]] } : Graph) = toGraph (g ++ [(p, [])])
      unfold toGraph
      congr 1
      · simp [keysOf]
      · simp only [List.map_append, List.map_cons, List.map_nil]
        congr 1
        apply List.map_congr_left
        intro r hr
        apply List.map_congr_left
        intro q hq
        have hq' : q ∈ g.map (·.1) := hc r hr q hq
        rw [idxOf_append_mem hq']
    · show (keysOf g).length = _
      rw [hk, idxOf_append_not hp]

theorem rinv_item2ID {g : Rows} (h : RInv g) (p : Pid) : RInv (item2ID g p) ∧
    (∀ k, k ∈ keysOf (item2ID g p) ↔ k ∈ keysOf g ∨ k = p) := by
  by_cases hp : p ∈ keysOf g
  · rw [item2ID_of_key hp]
    exact ⟨h, fun k => ⟨Or.inl, fun hh => hh.elim id (fun e => e ▸ hp)⟩⟩
  · rw [item2ID_of_not_key hp]
    have hk : keysOf (g ++ [(p, [])]) = keysOf g ++ [p] := by simp [keysOf]
    refine ⟨⟨?_, ?_⟩, fun k => by rw [hk]; simp⟩
    · rw [hk, List.nodup_append]
      exact ⟨h.1, by simp, fun x hx y hy => by simp at hy; subst hy; rintro rfl; exact hp hx⟩
    · intro r hr q hq
      rw [hk]
      rcases List.mem_append.1 hr with hr | hr
      · exact List.mem_append_left _ (h.2 r hr q hq)
      · simp at hr; subst hr; cases hq

/-- appending a parent to the row of `c` is `adj.set` at the index of `c` -/
theorem map_upd_set (φ : Pid → Nat) (c p : Pid) : ∀ (g : Rows), (keysOf g).Nodup → c ∈ keysOf g →
    (g.map fun r => if r.1 == c then (r.1, r.2 ++ [p]) else r).map (fun r => r.2.map φ) =
      (g.map fun r => r.2.map φ).set ((keysOf g).idxOf c) ((rowOf g c).map φ ++ [φ p])
  | [], _, hc => by cases hc
  | r :: g, hk, hc => by
    have hk' : (keysOf g).Nodup := by simp only [keysOf, List.map_cons, List.nodup_cons] at hk; exact hk.2
    have hr : r.1 ∉ keysOf g := by simp only [keysOf, List.map_cons, List.nodup_cons] at hk; exact hk.1
    by_cases h : r.1 = c
    · subst h
      have hid : ∀ (l : Rows), r.1 ∉ keysOf l → (l.map fun s => if s.1 == r.1 then (s.1, s.2 ++ [p]) else s) = l := by
        intro l hl
        induction l with
        | nil => rfl
        | cons s l ih =>
          simp only [keysOf, List.map_cons, List.mem_cons, not_or] at hl
          have hb : (s.1 == r.1) = false := by simpa using (Ne.symm hl.1)
          simp only [List.map_cons, hb, Bool.false_eq_true, if_false]
          rw [ih hl.2]
      have e : (r :: g).map (fun s => if s.1 == r.1 then (s.1, s.2 ++ [p]) else s) = (r.1, r.2 ++ [p]) :: g := by
        simp only [List.map_cons, beq_self_eq_true, if_true, hid g hr]
      rw [e]
      simp [keysOf, rowOf]
    · have hb : (r.1 == c) = false := by simpa using h
      have hc' : c ∈ keysOf g := by
        simp only [keysOf, List.map_cons, List.mem_cons] at hc
        rcases hc with hc | hc
        · exact absurd hc.symm h
        · exact hc
      have ih := map_upd_set φ c p g hk' hc'
      simp only [List.map_cons, hb, Bool.false_eq_true, if_false, keysOf, List.idxOf_cons, cond_false, List.set_cons_succ]
      simp only [keysOf] at ih
      rw [ih]
      simp [rowOf, hb]

theorem keysOf_upd (c p : Pid) (g : Rows) :
    keysOf (g.map fun r => if r.1 == c then (r.1, r.2 ++ [p]) else r) = keysOf g := by
  unfold keysOf
  rw [List.map_map]
  apply List.map_congr_left
  intro r _
  simp only [Function.comp]
  split <;> rfl

/-- **the projection law**: the document loader's connection step is the C19 model's `LoadParent` -/
theorem toGraph_loadParent {g : Rows} (h : RInv g) (c p : Pid) :
    toGraph (loadParent g c p) = ((toGraph g).loadParent c p).1 ∧ RInv (loadParent g c p) ∧
    (∀ k, k ∈ keysOf (loadParent g c p) → k ∈ keysOf g ∨ k = c ∨ k = p) := by
  unfold loadParent Graph.loadParent
  by_cases hcp : c = p
  · simp only [hcp, beq_self_eq_true, if_true]
    exact ⟨trivial, h, fun k hk => Or.inl hk⟩
  · have hb : (c == p) = false := by simpa using hcp
    simp only [hb, Bool.false_eq_true, if_false]
    obtain ⟨h1, hk1⟩ := rinv_item2ID h c
    obtain ⟨h2, hk2⟩ := rinv_item2ID h1 p
    obtain ⟨e1, i1⟩ := toGraph_item2ID g h.2 c
    obtain ⟨e2, i2⟩ := toGraph_item2ID (item2ID g c) h1.2 p
    have hcin1 : c ∈ keysOf (item2ID g c) := (hk1 c).2 (Or.inr rfl)
    have hcin : c ∈ keysOf (item2ID (item2ID g c) p) := (hk2 c).2 (Or.inl hcin1)
    have hpin : p ∈ keysOf (item2ID (item2ID g c) p) := (hk2 p).2 (Or.inr rfl)
    -- the index of `c` is not moved by the second `Item2ID`
    have hic : (keysOf (item2ID g c)).idxOf c = (keysOf (item2ID (item2ID g c) p)).idxOf c := by
      by_cases hp : p ∈ keysOf (item2ID g c)
      · rw [item2ID_of_key hp]
      · rw [item2ID_of_not_key hp]
        have hk : keysOf (item2ID g c ++ [(p, [])]) = keysOf (item2ID g c) ++ [p] := by simp [keysOf]
        rw [hk, idxOf_append_mem hcin1]
    rw [e1, e2, i1, i2, hic]
    generalize hG : item2ID (item2ID g c) p = G at *
    rw [toGraph_row G c, toGraph_row G p,
      contains_map_idx (rowOf_closed h2.2 c), contains_map_idx (rowOf_closed h2.2 p)]
    have hkeys : ∀ k, k ∈ keysOf G → k ∈ keysOf g ∨ k = c ∨ k = p := by
      intro k hk
      rcases (hk2 k).1 hk with hk | hk
      · rcases (hk1 k).1 hk with hk | hk
        · exact Or.inl hk
        · exact Or.inr (Or.inl hk)
      · exact Or.inr (Or.inr hk)
    by_cases hcond : ((rowOf G c).contains p || (rowOf G p).contains c) = true
    · simp only [hcond, if_true]
      exact ⟨trivial, h2, hkeys⟩
    · simp only [hcond, Bool.false_eq_true, if_false]
      refine ⟨?_, ⟨?_, ?_⟩, ?_⟩
      · show toGraph _ = ({ items := (toGraph G).items, adj := _ } : Graph)
        unfold toGraph
        congr 1
        · exact keysOf_upd c p G
        · have := keysOf_upd c p G
          unfold keysOf at this
          rw [this]
          exact map_upd_set _ c p G h2.1 hcin
      · rw [keysOf_upd]; exact h2.1
      · intro r hr q hq
        rw [keysOf_upd]
        obtain ⟨r0, hr0, rfl⟩ := List.mem_map.1 hr
        by_cases hrc : (r0.1 == c) = true
        · simp only [hrc, if_true] at hq
          rcases List.mem_append.1 hq with hq | hq
          · exact h2.2 r0 hr0 q hq
          · simp at hq; subst hq; exact hpin
        · simp only [hrc, Bool.false_eq_true, if_false] at hq
          exact h2.2 r0 hr0 q hq
      · intro k hk; rw [keysOf_upd] at hk; exact hkeys k hk

theorem toGraph_loadEdges : ∀ (es : List (Pid × Pid)) (g : Rows), RInv g →
    toGraph (loadEdges g es) = (toGraph g).loadParents es ∧ RInv (loadEdges g es)
  | [], g, h => ⟨rfl, h⟩
  | e :: es, g, h => by
    obtain ⟨e1, h1, _⟩ := toGraph_loadParent h e.1 e.2
    obtain ⟨e2, h2⟩ := toGraph_loadEdges es _ h1
    have hf : loadEdges g (e :: es) = loadEdges (loadParent g e.1 e.2) es := rfl
    have hg : (toGraph g).loadParents (e :: es) = ((toGraph g).loadParent e.1 e.2).1.loadParents es := rfl
    rw [hf, hg, ← e1]
    exact ⟨e2, h2⟩

/-- the connections of a whole document, loaded into the empty facet -/
theorem toGraph_loadEdges_nil (es : List (Pid × Pid)) :
    toGraph (loadEdges [] es) = ({} : Graph).loadParents es ∧ RInv (loadEdges [] es) :=
  toGraph_loadEdges es [] rinv_nil

/-- `ParentsOf` of the projected facet is the row -/
theorem parentsOf_toGraph {g : Rows} (h : RInv g) (p : Pid) : (toGraph g).parentsOf p = rowOf g p := by
  unfold Graph.parentsOf
  rw [findItemIndex_toGraph]
  by_cases hp : p ∈ keysOf g
  · simp only [if_pos hp]
    rw [toGraph_row]
    have hcl := rowOf_closed h.2 p
    generalize rowOf g p = row at hcl
    unfold Graph.index2PIDs
    induction row with
    | nil => rfl
    | cons q row ih =>
      have hq : q ∈ keysOf g := hcl q List.mem_cons_self
      have hlt : (keysOf g).idxOf q < (keysOf g).length := List.idxOf_lt_length_iff.2 hq
      have : (toGraph g).items[(keysOf g).idxOf q]? = some q := by
        show (keysOf g)[(keysOf g).idxOf q]? = some q
        rw [List.getElem?_eq_getElem hlt, List.getElem_idxOf hlt]
      simp only [List.map_cons, List.filterMap_cons, this]
      rw [ih (fun x hx => hcl x (List.mem_cons_of_mem _ hx))]
  · simp only [if_neg hp]
    exact (rowOf_not_key hp).symm

/-! ## the graph facet with its indices resolved, and documents with explicit arrays -/

/-- what the writer reads from the graph facet: the items in index order, each with `Index2PIDs` of its row -/
def rowsOf (g : Graph) : Rows := g.items.zip (g.adj.map g.index2PIDs)

theorem keysOf_rowsOf {g : Graph} (w : g.Wf) : keysOf (rowsOf g) = g.items := by
  unfold keysOf rowsOf
  exact List.map_fst_zip (by simp [w.len])

theorem index2PIDs_idx {g : Graph} (hn : g.items.Nodup) : ∀ (l : List Nat), (∀ j ∈ l, j < g.items.length) →
    (g.index2PIDs l).map (fun q => g.items.idxOf q) = l
  | [], _ => rfl
  | j :: l, h => by
    have hj : j < g.items.length := h j List.mem_cons_self
    have ih := index2PIDs_idx hn l (fun k hk => h k (List.mem_cons_of_mem _ hk))
    unfold Graph.index2PIDs at ih ⊢
    simp only [List.filterMap_cons, List.getElem?_eq_getElem hj, List.map_cons, ih]
    rw [List.Nodup.idxOf_getElem hn j hj]

theorem toGraph_rowsOf {g : Graph} (w : g.Wf) : toGraph (rowsOf g) = g := by
  have hk := keysOf_rowsOf w
  unfold keysOf at hk
  unfold toGraph
  rw [hk]
  cases g with
  | mk items adj =>
    congr 1
    have hsnd : (rowsOf ⟨items, adj⟩).map (·.2) = adj.map (Graph.index2PIDs ⟨items, adj⟩) := by
      unfold rowsOf
      exact List.map_snd_zip (by simp [w.len])
    have : (rowsOf ⟨items, adj⟩).map (fun r => r.2.map fun p => items.idxOf p) =
        ((rowsOf ⟨items, adj⟩).map (·.2)).map (fun l => l.map fun p => items.idxOf p) := by
      rw [List.map_map]; rfl
    rw [this, hsnd, List.map_map]
    conv => rhs; rw [← List.map_id adj]
    apply List.map_congr_left
    intro l hl
    exact index2PIDs_idx (g := ⟨items, adj⟩) w.nodup l (w.idx l hl)

theorem rinv_rowsOf {g : Graph} (w : g.Wf) : RInv (rowsOf g) := by
  refine ⟨by rw [keysOf_rowsOf w]; exact w.nodup, ?_⟩
  intro r hr q hq
  rw [keysOf_rowsOf w]
  have h2 : r.2 ∈ g.adj.map g.index2PIDs := (List.of_mem_zip hr).2
  obtain ⟨l, _, hl⟩ := List.mem_map.1 h2
  rw [← hl] at hq
  obtain ⟨j, _, hj⟩ := Graph.mem_index2PIDs.1 hq
  exact List.mem_of_getElem? hj

/-- the rows the writer reads are `ParentsOf` -/
theorem rowOf_rowsOf {g : Graph} (w : g.Wf) (p : Pid) : rowOf (rowsOf g) p = g.parentsOf p := by
  rw [← parentsOf_toGraph (rinv_rowsOf w) p, toGraph_rowsOf w]

/-- a document with explicit `items`, `layout` (never read) and `connections` -/
def ossDoc (title comment domain : String) (items : List Pict) (layout : Json) (es : List (Pid × Pid)) : Json :=
  .obj [("type", .str "oss"), ("title", .str title), ("comment", .str comment),
        ("sourceDomain", .str domain), ("items", .arr (items.map Pict.toJson)),
        ("layout", layout), ("connections", edgesToJson es)]

theorem ossToJson_eq (c : Oss) :
    ossToJson c = ossDoc c.title c.comment c.domain c.items (layoutToJson c.items) (edgeList c.rows) := rfl

theorem ossFromJson_doc (env : Env) (t cm d : String) (items : List Pict) (layout : Json) (es : List (Pid × Pid))
    (hu : (items.map (·.uid)).Nodup) (hc : (items.map (·.pos)).Nodup) (hp : ∀ p ∈ items, PictWf p) :
    ossFromJson env (ossDoc t cm d items layout es) =
      .ok { title := t, comment := cm, domain := d, items := items, rows := loadEdges [] es } := by
  have h1 : (items.map Pict.toJson).mapM Pict.fromJson = .ok items :=
    mapM_ok Pict.fromJson Pict.toJson items (fun p h => pict_rt p (hp p h))
  have h2 := loadPicts_distinct env items [] (by simpa using hu) (by simpa using hc)
  have h3 := edges_rt es
  simp only [List.nil_append] at h2
  simp [ossFromJson, ossDoc, edgesToJson, at', Json.get, getStr, getArr, bind, Except.bind, pure, Except.pure, h1, h2, h3]

/-- membership in the edge list, through the fibres -/
theorem mem_fibre {es : List (Pid × Pid)} {c p : Pid} : p ∈ (es.filter (·.1 == c)).map (·.2) ↔ (c, p) ∈ es := by
  simp only [List.mem_map, List.mem_filter, beq_iff_eq]
  constructor
  · rintro ⟨x, ⟨hx, h1⟩, h2⟩
    have : x = (c, p) := Prod.ext h1 h2
    exact this ▸ hx
  · intro h; exact ⟨(c, p), ⟨h, rfl⟩, rfl⟩

theorem mem_edgeList {g : Rows} (hk : (keysOf g).Nodup) {c p : Pid} : (c, p) ∈ edgeList g ↔ p ∈ rowOf g c := by
  rw [← edgeList_fibre g hk c, mem_fibre]

theorem edgeList_nodup {g : Rows} (hk : (keysOf g).Nodup) (hrow : ∀ c, (rowOf g c).Nodup) : (edgeList g).Nodup := by
  apply CCVerif.Oss.nodup_of_fibres
  intro c
  rw [edgeList_fibre g hk c]
  exact hrow c

end CCVerif.JsonOss
