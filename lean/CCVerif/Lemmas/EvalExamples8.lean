import CCVerif.Lemmas.EvalExamples6
import CCVerif.Lemmas.EvalFiltersNormRel
/-! Concrete member of the stage-8 fragment (filters), shared by `Properties/C01.lean` and `Properties/C02.lean`.
With `S = {1,2}×{1,2}`:

* `Fi1[{1}](S) = {(1,1),(1,2)}`                       - tuple form, one index;
* `Fi1,2[{(1,2)}](S) = {(1,2)}`                       - ONE parameter for two indices (`EvaluateFilterComplex`);
* `card(Fi1,2[{1}\{1}, {debool({1,2})}](S)) = 0`      - the first parameter is empty: the second one, whose evaluation
  would raise `invalidDebool`, is never evaluated (and the reference semantics does not need it either);
* `card(Fi1[{debool({1,2})}](S\S)) = 0`               - empty argument: no parameter is evaluated;
* `∀(a,b)∈Fi2[{2}](S) b=2`                            - a flat tuple pattern over a filter (normal form: `@ab`). -/
namespace CCVerif.Eval.Examples
open CCVerif.Syntax CCVerif.Spec CCVerif.Norm CCVerif.Eval
open Ty

def fi (idx : List Int) (ks : List Ast) : Ast := .node .FILTER (.tuple idx) 0 0 ks
def enum1 : Ast := nd .NT_ENUMERATION [lit 1]
def sq : Ast := nd .DECART [enum12, enum12]
def badParam : Ast := nd .NT_ENUMERATION [nd .DEBOOL [enum12]]

def f8a : Ast := nd .EQUAL [fi [1] [enum1, sq], nd .NT_ENUMERATION [nd .NT_TUPLE [lit 1, lit 1], nd .NT_TUPLE [lit 1, lit 2]]]
def f8b : Ast := nd .EQUAL [fi [1, 2] [nd .NT_ENUMERATION [nd .NT_TUPLE [lit 1, lit 2]], sq],
  nd .NT_ENUMERATION [nd .NT_TUPLE [lit 1, lit 2]]]
def f8c : Ast := nd .EQUAL [nd .CARD [fi [1, 2] [nd .SET_MINUS [enum1, enum1], badParam, sq]], lit 0]
def f8d : Ast := nd .EQUAL [nd .CARD [fi [1] [badParam, nd .SET_MINUS [sq, sq]]], lit 0]
def f8e : Ast := nd .FORALL [pat "a" "b", fi [2] [enum2, sq], nd .EQUAL [loc "b", lit 2]]
def f8en : Ast := nd .FORALL [loc "@ab", fi [2] [enum2, sq], nd .EQUAL [pr1 2 (loc "@ab"), lit 2]]

def e8 : Ast := nd .AND [f8a, nd .AND [f8b, nd .AND [f8c, nd .AND [f8d, f8e]]]]
/-- the normal form of `e8`: only the pattern of the last conjunct is rewritten -/
def e8n : Ast := nd .AND [f8a, nd .AND [f8b, nd .AND [f8c, nd .AND [f8d, f8en]]]]

/-- `Fi1[{1}](S)` on its own (set-valued) -/
def e8v : Ast := fi [1] [enum1, sq]

theorem enumZ_frag (rz : Rz) (Γ : TCtx) (ks : List Int) (hne : ks ≠ []) :
    FragF env0 [] 6 rz Γ (nd .NT_ENUMERATION (ks.map lit)) (nd .NT_ENUMERATION (ks.map lit)) (.ty (.coll Z)) := by
  refine FragF.enum _ _ _ _ _ (by simpa using hne) rfl ?_
  intro q hq
  obtain ⟨h1, h2⟩ := mem_zip_self hq
  obtain ⟨n, _, hn⟩ := List.mem_map.mp h2
  obtain ⟨q1, q2⟩ := q
  simp only at h1 hn; subst h1; subst hn
  exact .lit ..

theorem sq_frag (rz : Rz) (Γ : TCtx) : FragF env0 [] 6 rz Γ sq sq (.ty (.coll (.tuple [Z, Z]))) := by
  refine FragF.decart _ _ _ [enum12, enum12] [enum12, enum12] [Z, Z] (by simp) rfl rfl ?_
  intro q hq
  simp only [List.zip_cons_cons, List.zip_nil_right, List.mem_cons, List.not_mem_nil, or_false] at hq
  rcases hq with rfl | rfl <;> exact enumZ_frag rz Γ [1, 2] (by simp)

theorem pairsZ_frag (rz : Rz) (Γ : TCtx) (ps : List (Int × Int)) (hne : ps ≠ []) :
    FragF env0 [] 6 rz Γ (nd .NT_ENUMERATION (ps.map fun p => nd .NT_TUPLE [lit p.1, lit p.2]))
      (nd .NT_ENUMERATION (ps.map fun p => nd .NT_TUPLE [lit p.1, lit p.2])) (.ty (.coll (.tuple [Z, Z]))) := by
  refine FragF.enum _ _ _ _ _ (by simpa using hne) rfl ?_
  intro q hq
  obtain ⟨h1, h2⟩ := mem_zip_self hq
  obtain ⟨p, _, hp⟩ := List.mem_map.mp h2
  obtain ⟨q1, q2⟩ := q
  simp only at h1 hp; subst h1; subst hp
  exact (pair_frag rz Γ p.1 p.2).toF (Nat.le_refl _)

theorem badParam_frag (rz : Rz) (Γ : TCtx) : FragF env0 [] 6 rz Γ badParam badParam (.ty (.coll Z)) := by
  refine FragF.enum _ _ _ [nd .DEBOOL [enum12]] [nd .DEBOOL [enum12]] (by simp) rfl ?_
  intro q hq
  simp only [List.zip_cons_cons, List.zip_nil_right, List.mem_cons, List.not_mem_nil, or_false] at hq
  subst hq
  exact .debool _ _ _ (enumZ_frag rz Γ [1, 2] (by simp))

theorem e8v_frag (rz : Rz) (Γ : TCtx) : FragF env0 [] 6 rz Γ e8v e8v (.ty (.coll (.tuple [Z, Z]))) := by
  refine FragF.filterT [1] 0 0 [enum1] [enum1] [Z] [Z, Z] rfl rfl rfl ?_ (sq_frag rz Γ)
  intro q hq
  simp only [List.zip_cons_cons, List.zip_nil_right, List.mem_cons, List.not_mem_nil, or_false] at hq
  subst hq
  exact enumZ_frag rz Γ [1] (by simp)

theorem e8_frag : FragF env0 [] 6 [] [] e8 e8n .logic := by
  refine .conn _ _ _ (Or.inl rfl) ?_ (.conn _ _ _ (Or.inl rfl) ?_ (.conn _ _ _ (Or.inl rfl) ?_ (.conn _ _ _ (Or.inl rfl) ?_ ?_)))
  · exact .eq (τ := .coll (.tuple [Z, Z])) _ _ _ (Or.inl rfl) (e8v_frag ..) (pairsZ_frag _ _ [(1, 1), (1, 2)] (by simp))
  · refine .eq (τ := .coll (.tuple [Z, Z])) _ _ _ (Or.inl rfl) ?_ (pairsZ_frag _ _ [(1, 2)] (by simp))
    exact FragF.filterC (τ := .tuple [Z, Z]) [1, 2] 0 0 [Z, Z] (by decide) rfl (pairsZ_frag _ _ [(1, 2)] (by simp)) (sq_frag ..)
  · refine .eq (τ := Z) _ _ _ (Or.inl rfl) (.card (τ := .tuple [Z, Z]) _ _ _ ?_) (.lit ..)
    refine FragF.filterT [1, 2] 0 0 [nd .SET_MINUS [enum1, enum1], badParam] [nd .SET_MINUS [enum1, enum1], badParam] [Z, Z] [Z, Z]
      rfl rfl rfl ?_ (sq_frag ..)
    intro q hq
    simp only [List.zip_cons_cons, List.zip_nil_right, List.mem_cons, List.not_mem_nil, or_false] at hq
    rcases hq with rfl | rfl
    · exact .setOp _ _ _ (Or.inr (Or.inr (Or.inl rfl))) (enumZ_frag _ _ [1] (by simp)) (enumZ_frag _ _ [1] (by simp))
    · exact badParam_frag ..
  · refine .eq (τ := Z) _ _ _ (Or.inl rfl) (.card (τ := .tuple [Z, Z]) _ _ _ ?_) (.lit ..)
    refine FragF.filterT [1] 0 0 [badParam] [badParam] [Z] [Z, Z] rfl rfl rfl ?_
      (.setOp _ _ _ (Or.inr (Or.inr (Or.inl rfl))) (sq_frag ..) (sq_frag ..))
    intro q hq
    simp only [List.zip_cons_cons, List.zip_nil_right, List.mem_cons, List.not_mem_nil, or_false] at hq
    subst hq
    exact badParam_frag ..
  · refine FragF.quantTup (ts := [Z, Z]) _ _ _ _ _ _ [("a", 0, 0), ("b", 0, 0)] "@ab" (by decide) (Or.inl rfl) rfl (by decide)
      (by decide) (by intro q hq; simp at hq; rcases hq with rfl | rfl <;> exact ⟨rfl, rfl, by simp⟩) rfl rfl (by decide)
      (by simp) rfl ?_ ?_
    · refine FragF.filterT [2] 0 0 [enum2] [enum2] [Z] [Z, Z] rfl rfl rfl ?_ (sq_frag ..)
      intro q hq
      simp only [List.zip_cons_cons, List.zip_nil_right, List.mem_cons, List.not_mem_nil, or_false] at hq
      subst hq
      exact enumZ_frag _ _ [2] (by simp)
    · exact .eq (τ := Z) _ _ _ (Or.inl rfl) (.locPr _ "b" "@ab" 2 0 0 (by decide) rfl rfl) (.lit ..)

theorem e8_nocollide : NoCollide (patsOf e8) := by
  unfold NoCollide
  rw [show patsOf e8 = [["a", "b"]] from rfl]
  decide

theorem e8v_nocollide : NoCollide (patsOf e8v) := by
  unfold NoCollide
  rw [show patsOf e8v = [] from rfl]
  decide

end CCVerif.Eval.Examples
