import CCVerif.Lemmas.SynthCorrectCompose
/-!
C12, the SEMANTIC clause, COMPOSITION: where the acyclicity of the result comes from.

* `FullyCorrect.rank` — a fully correct store is ranked: every successfully analysed constituent has a
  finite derivation (`Val` is the LEAST solution), so there is `rk` with `rk v < rk u` whenever `u`
  mentions a name that resolves to `v`;
* `carriers_acyclic` — the result of an identification is acyclic if the source is ranked in such a
  way that whenever a kept constituent `c` mentions `a`, some KEPT constituent with the image of `a`
  has a smaller rank than `c` (for a kept `a`: `a` itself; for a removed key `a`: the condition on the
  table — the code's "the value is not reachable from the key");
* consequence used in Properties/C12.lean: the duplicate removal ALONE (no keys) never creates a cycle.
-/
namespace CCVerif.SchemaGen
open CCVerif CCVerif.Graph

variable {D I : Type} {A : Analysis D I}

theorem exists_least (P : Nat → Prop) (h : ∃ n, P n) : ∃ n, P n ∧ ∀ k, k < n → ¬ P k := by
  obtain ⟨n, hn⟩ := h
  induction n using Nat.strongRecOn with
  | _ n ih =>
    by_cases hex : ∃ k, k < n ∧ P k
    · obtain ⟨k, hk, hpk⟩ := hex
      exact ih k hk hpk
    · exact ⟨n, hn, fun k hk hp => hex ⟨k, hk, hp⟩⟩

/-- the least `n` with `P n`, `0` if there is none -/
noncomputable def leastOr0 (P : Nat → Prop) : Nat :=
  open Classical in if h : ∃ n, P n then Classical.choose (exists_least P h) else 0

theorem leastOr0_spec {P : Nat → Prop} (h : ∃ n, P n) : P (leastOr0 P) := by
  unfold leastOr0
  rw [dif_pos h]
  exact (Classical.choose_spec (exists_least P h)).1

theorem leastOr0_le {P : Nat → Prop} {n : Nat} (h : P n) : leastOr0 P ≤ n := by
  have hex : ∃ n, P n := ⟨n, h⟩
  unfold leastOr0
  rw [dif_pos hex]
  exact Nat.le_of_not_lt (fun hlt => (Classical.choose_spec (exists_least P hex)).2 n hlt h)

/-- the constituent `u` has a derivation of depth at most `n` -/
def DepthLe (A : Analysis D I) (s : List (Cst D)) : Nat → Nat → Prop
  | 0, _ => False
  | n + 1, u => ∀ c ∈ s, c.uid = u → ∀ m ∈ A.mentions c.defn, ∀ v, findAliasL s m = some v → DepthLe A s n v

theorem DepthLe.succ {s : List (Cst D)} : ∀ {n u : Nat}, DepthLe A s n u → DepthLe A s (n + 1) u
  | 0, _, h => by cases h
  | n + 1, _, h => fun c hc hu m hm v hv => DepthLe.succ (h c hc hu m hm v hv)

theorem DepthLe.mono {s : List (Cst D)} {n k u : Nat} (hle : n ≤ k) (h : DepthLe A s n u) : DepthLe A s k u := by
  induction hle with
  | refl => exact h
  | step _ ih => exact ih.succ

theorem bound_list (P : Nat → String → Prop) (mono : ∀ n k m, n ≤ k → P n m → P k m) :
    ∀ L : List String, (∀ m ∈ L, ∃ n, P n m) → ∃ N, ∀ m ∈ L, P N m
  | [], _ => ⟨0, fun _ h => by cases h⟩
  | a :: L, h => by
    obtain ⟨N, hN⟩ := bound_list P mono L (fun m hm => h m (List.mem_cons_of_mem _ hm))
    obtain ⟨n, hn⟩ := h a (List.mem_cons_self ..)
    refine ⟨max N n, fun m hm => ?_⟩
    rcases List.mem_cons.1 hm with rfl | hm
    · exact mono _ _ _ (Nat.le_max_right _ _) hn
    · exact mono _ _ _ (Nat.le_max_left _ _) (hN m hm)

theorem Val.depth {s : List (Cst D)} (hn : (uids s).Nodup) {u : Nat} {i : I} (h : Val A s u i) :
    ∃ n, DepthLe A s n u := by
  induction h with
  | @mk c jf hc hd hok ih =>
    obtain ⟨N, hN⟩ := bound_list (fun n m => ∀ v, findAliasL s m = some v → DepthLe A s n v)
      (fun n k m hle hp v hv => (hp v hv).mono hle) (A.mentions c.defn)
      (fun m hm => by
        cases hf : findAliasL s m with
        | none => exact ⟨0, fun v hv => by cases hv⟩
        | some v =>
          obtain ⟨n, hn'⟩ := ih m hm v hf
          exact ⟨n, fun v' hv' => by cases hv'; exact hn'⟩)
    refine ⟨N + 1, fun c' hc' hu m hm v hv => ?_⟩
    have := eq_of_uid_eq hn hc' hc hu
    subst this
    exact hN m hm v hv

/-- **a fully correct store is ranked** -/
theorem FullyCorrect.rank (hA : Lawful A) {s : List (Cst D)} (hn : (uids s).Nodup) (hfc : FullyCorrect A s) :
    ∃ rk : Nat → Nat, ∀ c ∈ s, ∀ m ∈ A.mentions c.defn, ∀ v, findAliasL s m = some v → rk v < rk c.uid := by
  have hex : ∀ u ∈ uids s, ∃ n, DepthLe A s n u := fun u hu =>
    ((entryOf_final hA hn hu).val hA (hfc _ hu)).depth hn
  refine ⟨fun u => leastOr0 (fun n => DepthLe A s n u), fun c hc m hm v hv => ?_⟩
  have hcu : c.uid ∈ uids s := mem_uids.2 ⟨c, hc, rfl⟩
  have hspec := leastOr0_spec (hex c.uid hcu)
  show leastOr0 (fun n => DepthLe A s n v) < leastOr0 (fun n => DepthLe A s n c.uid)
  cases hk : leastOr0 (fun n => DepthLe A s n c.uid) with
  | zero => rw [hk] at hspec; cases hspec
  | succ k =>
    rw [hk] at hspec
    exact Nat.lt_succ_of_le (leastOr0_le (P := fun n => DepthLe A s n v) (hspec c hc rfl m hm v hv))

/-- **the result of an identification is acyclic** when the source is ranked compatibly with it -/
theorem carriers_acyclic (H : Homomorphic A) {τ : Nat → Nat} {φ : String → String} {K : Nat → Prop}
    {s s' : List (Cst D)} (nodupU : (uids s').Nodup) (nodupA : (s'.map (·.alias)).Nodup)
    (img : ∀ c ∈ s, ∃ c' ∈ s', c'.uid = τ c.uid ∧ c'.alias = φ c.alias)
    (carry : ∀ c ∈ s, ¬ K c.uid → (⟨τ c.uid, φ c.alias, c.kind, H.homD φ c.defn⟩ : Cst D) ∈ s')
    (kept : ∀ c' ∈ s', ∃ c ∈ s, ¬ K c.uid ∧ c'.uid = τ c.uid)
    (resolved : ∀ c ∈ s, ∀ m ∈ A.mentions c.defn, findAliasL s m ≠ none)
    (rk0 : Nat → Nat)
    (hrk0 : ∀ c ∈ s, ¬ K c.uid → ∀ m ∈ A.mentions c.defn, ∀ a ∈ s, a.alias = m →
      ∃ a0 ∈ s, ¬ K a0.uid ∧ τ a0.uid = τ a.uid ∧ rk0 a0.uid < rk0 c.uid) :
    ∃ rk : Nat → Nat, ∀ c' ∈ s', ∀ m ∈ A.mentions c'.defn, ∀ v',
      findAliasL s' m = some v' → rk v' < rk c'.uid := by
  let P : Nat → Nat → Prop := fun u' n => ∃ c ∈ s, ¬ K c.uid ∧ τ c.uid = u' ∧ rk0 c.uid = n
  refine ⟨fun u' => leastOr0 (P u'), fun c' hc' m' hm' v' hv' => ?_⟩
  obtain ⟨c1, hc1, hk1, e1⟩ := kept c' hc'
  obtain ⟨c, hc, hkc, hτ, hrk⟩ := leastOr0_spec (P := P c'.uid) ⟨rk0 c1.uid, c1, hc1, hk1, e1.symm, rfl⟩
  have hcc : c' = ⟨τ c.uid, φ c.alias, c.kind, H.homD φ c.defn⟩ :=
    eq_of_uid_eq nodupU hc' (carry c hc hkc) hτ.symm
  have hm'' : m' ∈ (A.mentions c.defn).map φ := by
    rw [← H.mentions_hom]
    rw [hcc] at hm'
    exact hm'
  obtain ⟨m, hm, rfl⟩ := List.mem_map.1 hm''
  cases hf : findAliasL s m with
  | none => exact absurd hf (resolved c hc m hm)
  | some v =>
    obtain ⟨a, ha, hau, haa⟩ := findAliasL_mem hf
    obtain ⟨a', ha', hau', haa'⟩ := img a ha
    have hres : findAliasL s' (φ m) = some (τ a.uid) := by
      rw [← haa, ← haa', ← hau']; exact findAliasL_of_mem nodupA ha'
    rw [hres] at hv'
    cases hv'
    obtain ⟨a0, ha0, hk0, hτ0, hlt⟩ := hrk0 c hc hkc m hm a ha haa
    show leastOr0 (P (τ a.uid)) < leastOr0 (P c'.uid)
    rw [← hrk]
    exact Nat.lt_of_le_of_lt (leastOr0_le (P := P (τ a.uid)) ⟨a0, ha0, hk0, hτ0, rfl⟩) hlt

end CCVerif.SchemaGen

namespace CCVerif.SynthCorrect
open CCVerif CCVerif.Translation CCVerif.Dedup CCVerif.Merge CCVerif.Equate CCVerif.Synth
open CCVerif.SchemaGen (Analysis Lawful ContentOnly Homomorphic entryOf FullyCorrect findAliasL)

variable {D I : Type} {A : Analysis D I}

/-- **stage_acyclic**: the result of a stage on a fully correct schema is acyclic if the schema is
ranked so that whenever a constituent `c` that is no key mentions `a`, some constituent that is no key
and has the image of `a` (for a key `a`: e.g. its value) has a smaller rank than `c`. -/
theorem stage_acyclic (hA : Lawful A) (V : View D) (H : Homomorphic A) (hV : V.CompatibleHom H)
    {l r : Schema} {tr : Tr} {eqs : List Entry} {Q : String → String}
    (hw : (uids l).Nodup) (hfc : FullyCorrect A (V.store l)) (hQ : StageExact l r tr eqs Q)
    (rk0 : Nat → Nat)
    (hrk0 : ∀ c ∈ l, c.uid ∉ tkeys eqs → ∀ m ∈ A.mentions (V.read c.definition), ∀ a ∈ l, a.alias = m →
      ∃ a0 ∈ l, a0.uid ∉ tkeys eqs ∧ image tr a0.uid = image tr a.uid ∧ rk0 a0.uid < rk0 c.uid) :
    AcyclicSchema V A r := by
  have hn : (SchemaGen.uids (V.store l)).Nodup := by rw [uids_store]; exact hw
  obtain ⟨rk, hrk⟩ := SchemaGen.carriers_acyclic (A := A) H (τ := image tr) (φ := Q)
    (K := fun u => u ∈ tkeys eqs) (s := V.store l) (s' := V.store r)
    (by rw [uids_store]; exact hQ.nodupU) (by rw [aliases_store]; exact hQ.nodupA)
    (by
      intro c' hc'
      obtain ⟨c, hc, rfl⟩ := List.mem_map.1 hc'
      obtain ⟨s, hs, hsu⟩ := List.mem_map.1 (hQ.img c.uid (List.mem_map.2 ⟨c, hc, rfl⟩))
      exact ⟨V.cst s, List.mem_map.2 ⟨s, hs, rfl⟩, hsu, (hQ.aliasOf c hc s hs hsu).symm⟩)
    (by
      intro c' hc' hnk
      obtain ⟨c, hc, rfl⟩ := List.mem_map.1 hc'
      obtain ⟨s, hs, hu, hk, hd, _⟩ := hQ.content c hc hnk
      refine List.mem_map.2 ⟨s, hs, ?_⟩
      unfold View.cst
      simp only
      rw [hu, hk, hd, hV, ← hQ.aliasOf c hc s hs hu])
    (by
      intro s' hs'
      obtain ⟨s, hs, rfl⟩ := List.mem_map.1 hs'
      obtain ⟨c, hc, _, hnk, himg⟩ := hQ.kept s hs
      exact ⟨V.cst c, List.mem_map.2 ⟨c, hc, rfl⟩, hnk, himg.symm⟩)
    (SchemaGen.FullyCorrect.resolved hA H.missing hn hfc) rk0
    (by
      intro c' hc' hnk m hm a' ha' ham
      obtain ⟨c, hc, rfl⟩ := List.mem_map.1 hc'
      obtain ⟨a, ha, rfl⟩ := List.mem_map.1 ha'
      obtain ⟨a0, ha0, h1, h2, h3⟩ := hrk0 c hc hnk m hm a ha ham
      exact ⟨V.cst a0, List.mem_map.2 ⟨a0, ha0, rfl⟩, h1, h2, h3⟩)
  refine ⟨rk, fun c hc m hm c2 hc2 hal => ?_⟩
  have hres : findAliasL (V.store r) m = some c2.uid := by
    rw [← hal]
    exact SchemaGen.findAliasL_of_mem (s := V.store r) (by rw [aliases_store]; exact hQ.nodupA)
      (c := V.cst c2) (List.mem_map.2 ⟨c2, hc2, rfl⟩)
  exact hrk (V.cst c) (List.mem_map.2 ⟨c, hc, rfl⟩) m hm c2.uid hres

/-- **the duplicate removal alone never creates a cycle**: a stage without keys on a fully correct
schema has an acyclic result -/
theorem stage_acyclic_nokeys (hA : Lawful A) (V : View D) (H : Homomorphic A) (hV : V.CompatibleHom H)
    {l r : Schema} {tr : Tr} {Q : String → String} (hw : (uids l).Nodup) (hwa : (aliases l).Nodup)
    (hfc : FullyCorrect A (V.store l)) (hQ : StageExact l r tr [] Q) : AcyclicSchema V A r := by
  have hn : (SchemaGen.uids (V.store l)).Nodup := by rw [uids_store]; exact hw
  obtain ⟨rk0, hrk0⟩ := SchemaGen.FullyCorrect.rank hA hn hfc
  refine stage_acyclic hA V H hV hw hfc hQ rk0 ?_
  intro c hc _ m hm a ha ham
  refine ⟨a, ha, (fun h => by cases h), rfl, ?_⟩
  have hres : findAliasL (V.store l) m = some a.uid := by
    rw [← ham]
    exact SchemaGen.findAliasL_of_mem (s := V.store l) (by rw [aliases_store]; exact hwa)
      (c := V.cst a) (List.mem_map.2 ⟨a, ha, rfl⟩)
  exact hrk0 (V.cst c) (List.mem_map.2 ⟨c, hc, rfl⟩) m hm a.uid hres

end CCVerif.SynthCorrect

namespace CCVerif.SynthCorrect

theorem exists_bound (f : Nat → Nat) : ∀ L : List Nat, ∃ N, ∀ u ∈ L, f u < N
  | [] => ⟨0, fun _ h => by cases h⟩
  | a :: L => by
    obtain ⟨N, hN⟩ := exists_bound f L
    refine ⟨max N (f a + 1), fun u hu => ?_⟩
    rcases List.mem_cons.1 hu with rfl | hu
    · exact Nat.lt_of_lt_of_le (Nat.lt_succ_self _) (Nat.le_max_right _ _)
    · exact Nat.lt_of_lt_of_le (hN u hu) (Nat.le_max_left _ _)

end CCVerif.SynthCorrect
