import CCVerif.Lemmas.EvalCallsSound
/-! Stage 7 at the top level: `Interpreter::Evaluate` on an expression with calls.

* `normalize` is monotone in its fuel (`normalize_le`), so ONE successful run of the normaliser fixes its answer at
  every fuel (`normalizeTree_stable`);
* `evaluate_calls`: if the expression `e` β-reduces to `es` (`Beta`), `es` is in the typed fragment with normal form
  `n` (`FragR`), and the normaliser returns `n` for `e`, then evaluation of `e` answers the value the reference
  semantics gives to `e` itself (calls by thunks) at every fuel `≥ fuel + K`, or `outOfFuel`, or a documented error;
* a worked example. -/
namespace CCVerif.Eval
open CCVerif.Syntax CCVerif.Spec CCVerif.Norm
open Val Ty

/-! ## the normaliser is monotone in the fuel -/

def normKids (N : Ast → NState → Option (Ast × NState)) (ks : List Ast) (init : Option (List Ast × NState)) :
    Option (List Ast × NState) :=
  ks.foldl (fun acc k =>
    match acc with
    | none => none
    | some (done, b) =>
      match N k b with
      | none => none
      | some (k', b') => some (done ++ [k'], b')) init

def normStep (fs : Funcs) (N : Ast → NState → Option (Ast × NState)) (root : Ast) (st : NState) : Option (Ast × NState) :=
  match root.id with
  | .FORALL | .EXISTS =>
    match root.kids.head? with
    | some decl =>
      let r1 := if decl.id == .NT_ENUM_DECL then enumDecl root else root
      match r1.kids.head? with
      | some d1 =>
        if d1.id == .NT_TUPLE_DECL then
          some (if decl.id == .NT_ENUM_DECL then quantTupleEnum r1 st else quantTuple r1 st)
        else some (r1, st)
      | none => some (r1, st)
    | none => some (root, st)
  | .NT_RECURSIVE_FULL | .NT_RECURSIVE_SHORT => some (recursion root st)
  | .NT_DECLARATIVE_EXPR => some (declarative root st)
  | .NT_IMPERATIVE_EXPR => some (imperative root st)
  | .NT_FUNC_CALL =>
    match inlineCall fs root st with
    | none => some (root, st)
    | some (body, st') => N body st'
  | _ => some (root, st)

def normF (fs : Funcs) (N : Ast → NState → Option (Ast × NState)) (root : Ast) (st : NState) : Option (Ast × NState) :=
  match normStep fs N root st with
  | none => none
  | some (root1, st1) =>
    match normKids N root1.kids (some (([] : List Ast), st1)) with
    | none => none
    | some (ks, b) => some (setKids root1 ks, b)

theorem normalize_succ (fs : Funcs) (f : Nat) (root : Ast) (st : NState) :
    normalize fs (f + 1) root st = normF fs (normalize fs f) root st := by
  rw [normalize]
  rfl

theorem normKids_none (N : Ast → NState → Option (Ast × NState)) : ∀ ks, normKids N ks none = none
  | [] => rfl
  | k :: ks => by
    show normKids N ks none = none
    exact normKids_none N ks

theorem normKids_mono {N N' : Ast → NState → Option (Ast × NState)} (h : ∀ r s x, N r s = some x → N' r s = some x) :
    ∀ ks init x, normKids N ks init = some x → normKids N' ks init = some x
  | [], _, _, hx => hx
  | k :: ks, none, x, hx => by
    have : normKids N (k :: ks) none = none := normKids_none N _
    rw [this] at hx; cases hx
  | k :: ks, some (done, b), x, hx => by
    cases hk : N k b with
    | none =>
      have : normKids N (k :: ks) (some (done, b)) = normKids N ks none := by
        simp only [normKids, List.foldl_cons, hk]
      rw [this, normKids_none] at hx; cases hx
    | some y =>
      have e1 : normKids N (k :: ks) (some (done, b)) = normKids N ks (some (done ++ [y.1], y.2)) := by
        simp only [normKids, List.foldl_cons, hk]
      have e2 : normKids N' (k :: ks) (some (done, b)) = normKids N' ks (some (done ++ [y.1], y.2)) := by
        simp only [normKids, List.foldl_cons, h _ _ _ hk]
      rw [e2]
      rw [e1] at hx
      exact normKids_mono h ks _ x hx

theorem normStep_mono {fs : Funcs} {N N' : Ast → NState → Option (Ast × NState)}
    (h : ∀ r s x, N r s = some x → N' r s = some x) (root : Ast) (st : NState) (y : Ast × NState)
    (hy : normStep fs N root st = some y) : normStep fs N' root st = some y := by
  revert hy
  unfold normStep
  cases root.id <;> intro hy <;> try exact hy
  simp only at hy ⊢
  cases hi : inlineCall fs root st with
  | none => rw [hi] at hy; exact hy
  | some p => rw [hi] at hy; exact h _ _ _ hy

theorem normF_mono {fs : Funcs} {N N' : Ast → NState → Option (Ast × NState)}
    (h : ∀ r s x, N r s = some x → N' r s = some x) (root : Ast) (st : NState) (x : Ast × NState)
    (hx : normF fs N root st = some x) : normF fs N' root st = some x := by
  unfold normF at hx ⊢
  cases hs : normStep fs N root st with
  | none => rw [hs] at hx; cases hx
  | some y =>
    rw [normStep_mono h root st y hs]
    rw [hs] at hx
    simp only at hx ⊢
    cases hk : normKids N y.1.kids (some (([] : List Ast), y.2)) with
    | none => rw [hk] at hx; cases hx
    | some z => rw [normKids_mono h _ _ z hk]; rw [hk] at hx; exact hx

theorem normalize_mono (fs : Funcs) : ∀ (f : Nat) (root : Ast) (st : NState) (x : Ast × NState),
    normalize fs f root st = some x → normalize fs (f + 1) root st = some x
  | 0, _, _, _, hx => by simp [normalize] at hx
  | f + 1, root, st, x, hx => by
    rw [normalize_succ] at hx ⊢
    exact normF_mono (fun r s y hy => normalize_mono fs f r s y hy) root st x hx

theorem normalize_le (fs : Funcs) {f f' : Nat} (hf : f ≤ f') (root : Ast) (st : NState) (x : Ast × NState)
    (hx : normalize fs f root st = some x) : normalize fs f' root st = some x := by
  induction hf with
  | refl => exact hx
  | step _ ih => exact normalize_mono fs _ root st x ih

/-- one successful run of the normaliser fixes its answer: at every fuel it returns that tree or runs out of fuel -/
theorem normalizeTree_stable {fs : Funcs} {f0 : Nat} {e n : Ast} (h : normalizeTree fs f0 e = some n) (fuel : Nat) :
    normalizeTree fs fuel e = none ∨ normalizeTree fs fuel e = some n := by
  unfold normalizeTree at h ⊢
  cases h0 : normalize fs f0 e { userLocals := collectLocals e } with
  | none => rw [h0] at h; cases h
  | some x0 =>
    rw [h0] at h
    cases h1 : normalize fs fuel e { userLocals := collectLocals e } with
    | none => left; rfl
    | some x1 =>
      right
      rcases Nat.le_total fuel f0 with hle | hle
      · have := normalize_le fs hle _ _ _ h1
        rw [h0] at this; injection this with this; subst this
        exact h
      · have := normalize_le fs hle _ _ _ h0
        rw [h1] at this; injection this with this; subst this
        exact h

/-! ## evaluation of an expression with calls -/

/-- **evaluation of a closed expression with calls**: `e` β-reduces to the call-free `es` of the typed fragment,
whose normal form `n` is what the normaliser returns for `e`.  The answer of `Interpreter::Evaluate` is the value the
reference semantics assigns to `e` ITSELF at every fuel `≥ fuel + K` (well-formed at the type), or the model's
`outOfFuel`, or a documented error - never `stuck`, never `unknownError` -/
theorem evaluate_calls {env : Env} {G : TCtx} {lvl : Nat} (hG : GlobalsOK env G) {e es n : Ast} {τ : ExprTy} {K f0 : Nat}
    (h : FragR env G lvl [] [] es n τ) (hb : Beta env.funcs K [] e es) (hn0 : normalizeTree env.funcs f0 e = some n)
    (fuel : Nat) :
    TopGood env (fuel + K) e τ (evaluate fuel env e).1 ∨ (evaluate fuel env e).1 = .outOfFuel ∨
    ∃ eid pos, (evaluate fuel env e).1 = .err eid pos ∧ DocErr eid := by
  have hs := h.shape_closed
  have hbeta : ∀ v, (∀ f', fuel ≤ f' → denote (senvOf env) f' .nil es = some v) →
      ∀ f', fuel + K ≤ f' → denote (senvOf env) f' .nil e = some v := fun v hd f' hf' =>
    Beta.sound (S := senvOf env) hb .nil .nil (ERel.nil _ _ _) fuel v (hd fuel (Nat.le_refl _)) f' hf'
  unfold evaluate
  rcases normalizeTree_stable hn0 fuel with hn | hn
  · right; left; simp [hn]
  · simp only [hn]
    unfold evalNorm
    rcases collect_shape hs fuel {} (NCInv.empty env) with hc | ⟨pos, hc⟩ | ⟨vars, al, nc, hc, hi, _, hcov⟩
    · right; left; simp [hc]
    · right; right; exact ⟨_, pos, by simp [hc], Or.inr (Or.inr (Or.inl rfl))⟩
    · simp only [hc]
      have hinv : Inv env { ids := nc.ids } [] [] .nil { data := nc.data, iters := 0 } :=
        ⟨hi.range, hi.inj, hi.glob, by intro x σ hx; simp [lookup] at hx, by intro x r hx; simp [lookup] at hx⟩
      have hsim := sim hG { ids := nc.ids } h fuel none { data := nc.data, iters := 0 } .nil hinv hcov
      cases τ with
      | ty ty =>
        rcases hsim with ⟨v, st', hr, _, hw, hn', hd⟩ | ⟨fl, k, hr, hf⟩
        · left; exact ⟨v, by simp [hr], hw, hn', hbeta _ hd⟩
        · rcases hf with rfl | ⟨eid, pos, rfl, hdoc⟩
          · right; left; simp [hr]
          · right; right; exact ⟨eid, pos, by simp [hr], hdoc⟩
      | logic =>
        rcases hsim with ⟨b, st', hr, _, hd⟩ | ⟨fl, k, hr, hf⟩
        · left; exact ⟨b, by simp [hr], hbeta _ hd⟩
        · rcases hf with rfl | ⟨eid, pos, rfl, hdoc⟩
          · right; left; simp [hr]
          · right; right; exact ⟨eid, pos, by simp [hr], hdoc⟩

end CCVerif.Eval
