import CCVerif.Model.RefsSpec
import CCVerif.Lemmas.Strings
import CCVerif.Properties.C20
/-! Helper lemmas for C17: the byte-level scanner of `Model/Refs.lean` on well-formed UTF-8
(`encode cps`) computes the code-point level functions `startL` / `endL` / `candsL`, and these
agree with the one-pass specification `Spec.candsGo`. -/
namespace CCVerif.Refs
open CCVerif.Strings

/-! ### iterators over `encode cps` -/

/-- the iterator standing at code point `i` of `encode cps` (`UTF8End` for `i ≥ length`). -/
def iterAt (cps : List Nat) (i : Nat) : Iter :=
  if i < cps.length then ⟨some i, byteOffset cps i⟩ else ⟨none, (encode cps).length⟩

theorem mkIter_iterAt (cps : List Nat) (hv : ∀ c ∈ cps, validCp c) (i : Nat) :
    mkIter (encode cps) (i : Int) = iterAt cps i := by
  rw [mkIter_encode cps i hv]; rfl

theorem iterAt_end (cps : List Nat) (i : Nat) (h : cps.length ≤ i) :
    iterAt cps i = ⟨none, (encode cps).length⟩ := by
  unfold iterAt; rw [if_neg (by omega)]

theorem iterAt_lt (cps : List Nat) (i : Nat) (h : i < cps.length) :
    iterAt cps i = ⟨some i, byteOffset cps i⟩ := by
  unfold iterAt; rw [if_pos h]

theorem isEnd_iterAt (cps : List Nat) (i : Nat) : (iterAt cps i).isEnd = decide (cps.length ≤ i) := by
  unfold iterAt
  by_cases h : i < cps.length
  · rw [if_pos h]; simp [Iter.isEnd]; omega
  · rw [if_neg h]; simp [Iter.isEnd]; omega

theorem next_iterAt (cps : List Nat) (hv : ∀ c ∈ cps, validCp c) (i : Nat) (h : i < cps.length) :
    (iterAt cps i).next (encode cps) = iterAt cps (i + 1) := by
  rw [iterAt_lt cps i h, next_encode cps i h hv]; rfl

theorem iterPos_iterAt (cps : List Nat) (i : Nat) :
    iterPos (iterAt cps i) = if i < cps.length then (i : Int) else -1 := by
  unfold iterAt iterPos
  by_cases h : i < cps.length <;> simp [h]

/-- first byte of an encoded scalar value equals an ASCII value iff the scalar is that value. -/
theorem lead_ascii (c b : Nat) (hb : b < 128) : (encodeCp c).getD 0 0 = b ↔ c = b := by
  unfold encodeCp
  split
  · simp
  · split
    · simp; omega
    · split
      · simp; omega
      · simp; omega

theorem byteAt_iterAt (cps : List Nat) (i : Nat) (h : i < cps.length) :
    byteAt (encode cps) (iterAt cps i) = (encodeCp cps[i]).getD 0 0 := by
  rw [iterAt_lt cps i h]; unfold byteAt; exact getD_byteOffset cps i h

theorem byteAt_iterAt_eq (cps : List Nat) (i : Nat) (h : i < cps.length) (b : Nat) (hb : b < 128) :
    byteAt (encode cps) (iterAt cps i) = b ↔ cps[i] = b := by
  rw [byteAt_iterAt cps i h]; exact lead_ascii _ _ hb

/-! ### the scanner at code-point level -/

/-- `ReferenceStart` with the repaired loop on a list of code points: offset (from the head) of
the `{` it returns, `none` = `UTF8End`. -/
def startT : List Nat → Option Nat
  | [] => none
  | c :: rest => if c = cAt ∧ rest.head? = some cOpen then some 1 else (startT rest).map (· + 1)

/-- `ReferenceStart` as it is: the symbol after an `@` is consumed without being examined. -/
def startB : List Nat → Option Nat
  | [] => none
  | [_] => none
  | c :: d :: rest' =>
    if c = cAt then (if d = cOpen then some 1 else (startB rest').map (· + 2))
    else (startB (d :: rest')).map (· + 1)

/-- `fix` = `Variant.fixScan`. -/
def startL (fix : Bool) (l : List Nat) : Option Nat := if fix then startT l else startB l

theorem startL_nil (fix : Bool) : startL fix [] = none := by
  cases fix <;> simp [startL, startT, startB]

theorem startL_not_at (fix : Bool) (c : Nat) (rest : List Nat) (h : c ≠ cAt) :
    startL fix (c :: rest) = (startL fix rest).map (· + 1) := by
  cases fix
  · cases rest with
    | nil => simp [startL, startB]
    | cons d r => simp [startL, startB, h]
  · simp [startL, startT, h]

theorem startL_at_nil (fix : Bool) : startL fix [cAt] = none := by
  cases fix <;> simp [startL, startT, startB]

theorem startL_at_open (fix : Bool) (r : List Nat) : startL fix (cAt :: cOpen :: r) = some 1 := by
  cases fix <;> simp [startL, startT, startB]

theorem startL_at_other_fix (d : Nat) (r : List Nat) (h : d ≠ cOpen) :
    startL true (cAt :: d :: r) = (startL true (d :: r)).map (· + 1) := by
  simp [startL, startT, h]

theorem startL_at_other_bug (d : Nat) (r : List Nat) (h : d ≠ cOpen) :
    startL false (cAt :: d :: r) = (startL false r).map (· + 2) := by
  simp [startL, startB, h]

/-- `ReferenceEnd` on a list of code points: offset of the symbol where `bracketCount` gets 0. -/
def endL : List Nat → Int → Option Nat
  | [], _ => none
  | c :: rest, cnt =>
    let cnt' := if c = cOpen then cnt + 1 else if c = cClose then cnt - 1 else cnt
    if cnt' = 0 then some 0 else (endL rest cnt').map (· + 1)

theorem drop_eq_cons (cps : List Nat) (i : Nat) (h : i < cps.length) :
    cps.drop i = cps[i] :: cps.drop (i + 1) := by
  simp

theorem refStartGo_encode (v : Variant) (cps : List Nat) (hv : ∀ c ∈ cps, validCp c) :
    ∀ fuel i, i ≤ cps.length → cps.length - i < fuel →
      refStartGo v (encode cps) fuel (iterAt cps i) =
        iterAt cps (match startL v.fixScan (cps.drop i) with
          | some k => i + k
          | none => cps.length) := by
  intro fuel
  induction fuel with
  | zero => intro i _ h; omega
  | succ fuel ih =>
    intro i hi hf
    unfold refStartGo
    by_cases hin : i < cps.length
    · have hend : (iterAt cps i).isEnd = false := by rw [isEnd_iterAt]; simp; omega
      rw [hend, drop_eq_cons cps i hin]
      simp only [Bool.false_eq_true, if_false]
      rw [next_iterAt cps hv i hin]
      by_cases hc : cps[i] = cAt
      · have hb : byteAt (encode cps) (iterAt cps i) = cAt :=
          (byteAt_iterAt_eq cps i hin cAt (by decide)).2 hc
        rw [if_pos hb, hc]
        by_cases hin1 : i + 1 < cps.length
        · have hend1 : (iterAt cps (i+1)).isEnd = false := by rw [isEnd_iterAt]; simp; omega
          rw [hend1, drop_eq_cons cps (i+1) hin1]
          by_cases hd : cps[i+1] = cOpen
          · have hb1 : byteAt (encode cps) (iterAt cps (i+1)) = cOpen :=
              (byteAt_iterAt_eq cps (i+1) hin1 cOpen (by decide)).2 hd
            rw [hd, startL_at_open]
            simp [hb1]
          · have hb1 : ¬ byteAt (encode cps) (iterAt cps (i+1)) = cOpen := fun e =>
              hd ((byteAt_iterAt_eq cps (i+1) hin1 cOpen (by decide)).1 e)
            simp only [Bool.false_or, hb1, decide_false, Bool.false_eq_true, if_false]
            cases hfix : v.fixScan with
            | true =>
              simp only [if_true]
              rw [ih (i+1) (by omega) (by omega), drop_eq_cons cps (i+1) hin1, hfix,
                startL_at_other_fix _ _ hd]
              cases startL true (cps[i+1] :: cps.drop (i+1+1)) with
              | none => rfl
              | some k => simp only [Option.map_some]; congr 1; omega
            | false =>
              simp only [Bool.false_eq_true, if_false]
              rw [next_iterAt cps hv (i+1) hin1, ih (i+1+1) (by omega) (by omega), hfix,
                startL_at_other_bug _ _ hd]
              cases startL false (cps.drop (i+1+1)) with
              | none => rfl
              | some k => simp only [Option.map_some]; congr 1; omega
        · have hend1 : (iterAt cps (i+1)).isEnd = true := by rw [isEnd_iterAt]; simp; omega
          have hdrop : cps.drop (i+1) = [] := by simp; omega
          rw [hend1, hdrop, startL_at_nil]
          simp only [Bool.true_or, if_true]
          rw [iterAt_end cps (i+1) (by omega), iterAt_end cps cps.length (by omega)]
      · have hb : ¬ byteAt (encode cps) (iterAt cps i) = cAt := fun e =>
          hc ((byteAt_iterAt_eq cps i hin cAt (by decide)).1 e)
        rw [if_neg hb, ih (i+1) (by omega) (by omega), startL_not_at _ _ _ hc]
        cases startL v.fixScan (cps.drop (i+1)) with
        | none => rfl
        | some k => simp only [Option.map_some]; congr 1; omega
    · have hi' : i = cps.length := by omega
      subst hi'
      have hend : (iterAt cps cps.length).isEnd = true := by rw [isEnd_iterAt]; simp
      rw [hend]; simp [startL_nil]

theorem refEndGo_encode (cps : List Nat) (hv : ∀ c ∈ cps, validCp c) :
    ∀ fuel i cnt, i ≤ cps.length → cps.length - i < fuel →
      refEndGo (encode cps) fuel (iterAt cps i) cnt =
        iterAt cps (match endL (cps.drop i) cnt with
          | some k => i + k
          | none => cps.length) := by
  intro fuel
  induction fuel with
  | zero => intro i _ _ h; omega
  | succ fuel ih =>
    intro i cnt hi hf
    unfold refEndGo
    by_cases hin : i < cps.length
    · have hend : (iterAt cps i).isEnd = false := by rw [isEnd_iterAt]; simp; omega
      rw [hend, drop_eq_cons cps i hin]
      simp only [Bool.false_eq_true, if_false]
      have e1 : (byteAt (encode cps) (iterAt cps i) = cOpen) = (cps[i] = cOpen) :=
        propext (byteAt_iterAt_eq cps i hin cOpen (by decide))
      have e2 : (byteAt (encode cps) (iterAt cps i) = cClose) = (cps[i] = cClose) :=
        propext (byteAt_iterAt_eq cps i hin cClose (by decide))
      rw [next_iterAt cps hv i hin]
      simp only [e1, e2, endL]
      generalize (if cps[i] = cOpen then cnt + 1 else if cps[i] = cClose then cnt - 1 else cnt) = cnt'
      by_cases h0 : cnt' = 0
      · simp [h0]
      · rw [if_neg h0, if_neg h0, ih (i+1) cnt' (by omega) (by omega)]
        cases endL (cps.drop (i+1)) cnt' with
        | none => rfl
        | some k => simp only [Option.map_some]; congr 1; omega
    · have hi' : i = cps.length := by omega
      subst hi'
      have hend : (iterAt cps cps.length).isEnd = true := by rw [isEnd_iterAt]; simp
      rw [hend]; simp [endL]

/-! ### facts about `startL` / `endL` -/

theorem startT_some (l : List Nat) (k : Nat) (h : startT l = some k) :
    1 ≤ k ∧ k < l.length ∧ l[k - 1]? = some cAt ∧ l[k]? = some cOpen := by
  induction l generalizing k with
  | nil => simp [startT] at h
  | cons c rest ih =>
    unfold startT at h
    split at h
    · next hc =>
      injection h with h; subst h
      obtain ⟨h1, h2⟩ := hc
      cases rest with
      | nil => simp at h2
      | cons d r => simp at h2; simp [h1, h2]
    · cases hs : startT rest with
      | none => rw [hs] at h; simp at h
      | some k' =>
        rw [hs] at h; simp at h; subst h
        obtain ⟨a, b, c', d⟩ := ih k' hs
        refine ⟨by omega, by simp; omega, ?_, ?_⟩
        · have : k' + 1 - 1 = (k' - 1) + 1 := by omega
          rw [this]; simpa using c'
        · simpa using d

theorem startB_some : ∀ (l : List Nat) (k : Nat), startB l = some k →
    1 ≤ k ∧ k < l.length ∧ l[k - 1]? = some cAt ∧ l[k]? = some cOpen
  | [], k, h => by simp [startB] at h
  | [_], k, h => by simp [startB] at h
  | c :: d :: rest', k, h => by
    unfold startB at h
    split at h
    · next hc =>
      split at h
      · next hd => injection h with h; subst h; simp [hc, hd]
      · cases hs : startB rest' with
        | none => rw [hs] at h; simp at h
        | some k' =>
          rw [hs] at h; simp at h; subst h
          obtain ⟨a, b, c', d'⟩ := startB_some rest' k' hs
          refine ⟨by omega, by simp; omega, ?_, ?_⟩
          · have : k' + 2 - 1 = (k' - 1) + 1 + 1 := by omega
            rw [this]; simpa using c'
          · simpa using d'
    · cases hs : startB (d :: rest') with
      | none => rw [hs] at h; simp at h
      | some k' =>
        rw [hs] at h; simp at h; subst h
        obtain ⟨a, b, c', d'⟩ := startB_some (d :: rest') k' hs
        refine ⟨by omega, by simp at b ⊢; omega, ?_, ?_⟩
        · have : k' + 1 - 1 = (k' - 1) + 1 := by omega
          rw [this]; simpa using c'
        · simpa using d'

theorem startL_some (fix : Bool) (l : List Nat) (k : Nat) (h : startL fix l = some k) :
    1 ≤ k ∧ k < l.length ∧ l[k - 1]? = some cAt ∧ l[k]? = some cOpen := by
  cases fix
  · exact startB_some l k (by simpa [startL] using h)
  · exact startT_some l k (by simpa [startL] using h)

theorem endL_some (l : List Nat) (cnt : Int) (m : Nat) (h : endL l cnt = some m) : m < l.length := by
  induction l generalizing cnt m with
  | nil => simp [endL] at h
  | cons c rest ih =>
    unfold endL at h
    simp only at h
    generalize (if c = cOpen then cnt + 1 else if c = cClose then cnt - 1 else cnt) = cnt' at h
    by_cases h0 : cnt' = 0
    · rw [if_pos h0] at h; injection h with h; subst h; simp
    · rw [if_neg h0] at h
      cases hs : endL rest cnt' with
      | none => rw [hs] at h; simp at h
      | some m' =>
        rw [hs] at h; simp at h; subst h
        have := ih _ _ hs
        simp; omega

/-- `NextReference` on a list of code points: offsets of the `@` and of the position after `}`. -/
def nextL (fix : Bool) (l : List Nat) : Option (Nat × Nat) :=
  match startL fix l with
  | none => none
  | some k =>
    match endL (l.drop k) 0 with
    | none => none
    | some m => some (k - 1, k + m + 1)

theorem nextReference_encode (v : Variant) (cps : List Nat) (hv : ∀ c ∈ cps, validCp c)
    (i : Nat) (hi : i ≤ cps.length) :
    nextReference v (encode cps) (i : Int) =
      (nextL v.fixScan (cps.drop i)).map
        (fun ab => (⟨((i + ab.1 : Nat) : Int), ((i + ab.2 : Nat) : Int)⟩ : StrRange)) := by
  have hlen := encode_length_ge cps
  unfold nextReference refStart refEnd nextL
  rw [mkIter_iterAt cps hv i, refStartGo_encode v cps hv _ i hi (by omega)]
  cases hs : startL v.fixScan (cps.drop i) with
  | none => simp [iterAt_end cps cps.length (Nat.le_refl _)]
  | some k =>
    obtain ⟨hk1, hk2, _, _⟩ := startL_some _ _ _ hs
    have hk2' : i + k < cps.length := by simp at hk2; omega
    simp only [iterAt_lt cps (i + k) hk2']
    rw [← iterAt_lt cps (i + k) hk2', refEndGo_encode cps hv _ (i + k) 0 (by omega) (by omega)]
    have hdd : (cps.drop i).drop k = cps.drop (i + k) := by rw [List.drop_drop]
    rw [hdd]
    cases he : endL (cps.drop (i + k)) 0 with
    | none => simp [iterAt_end cps cps.length (Nat.le_refl _)]
    | some m =>
      have hm := endL_some _ _ _ he
      have hm' : i + k + m < cps.length := by simp at hm; omega
      simp only [iterAt_lt cps (i + k + m) hm', Option.map_some]
      congr 1
      congr 1 <;> omega

/-! ### the code's enumeration of candidates vs the one-pass specification -/

/-- the candidates as the loop of `ExtractAll` visits them (same fuel as `extractGo`). -/
def candsL (fix : Bool) : Nat → List Nat → Nat → List (Nat × Nat)
  | 0, _, _ => []
  | fuel+1, l, off =>
    match nextL fix l with
    | none => []
    | some ab => (off + ab.1, off + ab.2) :: candsL fix fuel (l.drop ab.2) (off + ab.2)

open Spec in
theorem candsGo_out_true (l : List Nat) (off : Nat) (h : l.head? ≠ some cOpen) :
    candsGo l off (.out true) = candsGo l off (.out false) := by
  cases l with
  | nil => rfl
  | cons c rest =>
    have : (c == cOpen) = false := by simpa using h
    simp [candsGo, this]

open Spec in
/-- outside a candidate the automaton runs to the `{` found by the repaired `ReferenceStart`. -/
theorem candsGo_start (l : List Nat) (off : Nat) :
    candsGo l off (.out false) =
      match startT l with
      | none => []
      | some k => candsGo (l.drop (k + 1)) (off + k + 1) (.inside (off + k - 1) 0) := by
  induction l generalizing off with
  | nil => simp [candsGo, startT]
  | cons c rest ih =>
    unfold startT
    by_cases hc : c = cAt ∧ rest.head? = some cOpen
    · rw [if_pos hc]
      obtain ⟨h1, h2⟩ := hc
      cases rest with
      | nil => simp at h2
      | cons d r =>
        simp at h2
        simp [candsGo, h1, h2]
    · rw [if_neg hc]
      have step : candsGo (c :: rest) off (.out false) = candsGo rest (off + 1) (.out false) := by
        by_cases h1 : c = cAt
        · have h2 : rest.head? ≠ some cOpen := fun e => hc ⟨h1, e⟩
          simp only [candsGo, Bool.false_and, Bool.false_eq_true, if_false, h1, beq_self_eq_true]
          exact candsGo_out_true rest (off + 1) h2
        · have : (c == cAt) = false := by simpa using h1
          simp [candsGo, this]
      rw [step, ih (off + 1)]
      cases startT rest with
      | none => rfl
      | some k =>
        simp only [Option.map_some, List.drop_succ_cons]
        have e1 : off + 1 + k + 1 = off + (k + 1) + 1 := by omega
        have e2 : off + 1 + k - 1 = off + (k + 1) - 1 := by omega
        rw [e1, e2]

open Spec in
/-- inside a candidate the automaton runs to the `}` found by `ReferenceEnd`. -/
theorem candsGo_end (l : List Nat) (off s d : Nat) :
    candsGo l off (.inside s d) =
      match endL l ((d : Int) + 1) with
      | none => []
      | some m => (s, off + m + 1) :: candsGo (l.drop (m + 1)) (off + m + 1) (.out false) := by
  induction l generalizing off d with
  | nil => simp [candsGo, endL]
  | cons c rest ih =>
    unfold endL
    simp only
    by_cases h1 : c = cOpen
    · have hne : ¬ ((d : Int) + 1 + 1 = 0) := by omega
      simp only [h1, if_true, hne, if_false, candsGo, beq_self_eq_true]
      have := ih (off + 1) (d + 1)
      rw [show (((d + 1 : Nat) : Int) + 1) = (d : Int) + 1 + 1 by omega] at this
      rw [this]
      cases endL rest ((d : Int) + 1 + 1) with
      | none => rfl
      | some m =>
        simp only [Option.map_some, List.drop_succ_cons]
        rw [show off + 1 + m + 1 = off + (m + 1) + 1 by omega]
    · by_cases h2 : c = cClose
      · have b1 : (c == cOpen) = false := by simpa using h1
        have hco : ¬ (cClose = cOpen) := by decide
        subst h2
        cases d with
        | zero =>
          simp [candsGo, b1, hco]
        | succ d' =>
          have hne : ¬ (((d' + 1 : Nat) : Int) + 1 - 1 = 0) := by omega
          simp only [hco, if_false, if_true, hne, candsGo, b1, Bool.false_eq_true, beq_self_eq_true]
          have := ih (off + 1) d'
          rw [show (((d' + 1 : Nat) : Int) + 1 - 1) = (d' : Int) + 1 by omega, this]
          cases endL rest ((d' : Int) + 1) with
          | none => rfl
          | some m =>
            simp only [Option.map_some, List.drop_succ_cons]
            rw [show off + 1 + m + 1 = off + (m + 1) + 1 by omega]
      · have b1 : (c == cOpen) = false := by simpa using h1
        have b2 : (c == cClose) = false := by simpa using h2
        have hne : ¬ ((d : Int) + 1 = 0) := by omega
        simp only [h1, h2, if_false, hne, candsGo, b1, b2, Bool.false_eq_true]
        rw [ih (off + 1) d]
        cases endL rest ((d : Int) + 1) with
        | none => rfl
        | some m =>
          simp only [Option.map_some, List.drop_succ_cons]
          rw [show off + 1 + m + 1 = off + (m + 1) + 1 by omega]

theorem endL_open (l : List Nat) : endL (cOpen :: l) 0 = (endL l 1).map (· + 1) := by
  simp [endL]

open Spec in
/-- with the repaired scanner the loop of `ExtractAll` visits exactly the specified candidates. -/
theorem candsL_spec : ∀ (fuel : Nat) (l : List Nat) (off : Nat), l.length < fuel →
    candsL true fuel l off = candsGo l off (.out false) := by
  intro fuel
  induction fuel with
  | zero => intro l off h; omega
  | succ fuel ih =>
    intro l off hl
    unfold candsL nextL
    rw [candsGo_start l off]
    simp only [startL, if_true]
    cases hs : startT l with
    | none => rfl
    | some k =>
      obtain ⟨hk1, hk2, _, hopen⟩ := startT_some l k hs
      have hdrop : l.drop k = cOpen :: l.drop (k + 1) := by
        rw [List.drop_eq_getElem_cons hk2]
        congr 1
        rw [List.getElem?_eq_getElem hk2] at hopen
        exact Option.some.inj hopen
      simp only [hdrop, endL_open]
      rw [candsGo_end]
      simp only [Int.natCast_zero, Int.zero_add]
      cases he : endL (l.drop (k + 1)) 1 with
      | none => rfl
      | some m =>
        simp only [Option.map_some]
        have hm := endL_some _ _ _ he
        have e1 : off + (k - 1) = off + k - 1 := by omega
        have e2 : off + (k + (m + 1) + 1) = off + k + 1 + m + 1 := by omega
        have e3 : (l.drop (k + 1)).drop (m + 1) = l.drop (k + (m + 1) + 1) := by
          rw [List.drop_drop]; congr 1; omega
        rw [e1, e2, e3]
        congr 1
        apply ih
        simp at hm ⊢; omega

/-! ### `ExtractAll` on well-formed text -/

theorem nextL_some (fix : Bool) (l : List Nat) (ab : Nat × Nat) (h : nextL fix l = some ab) :
    ab.1 + 2 ≤ ab.2 ∧ ab.2 ≤ l.length := by
  unfold nextL at h
  cases hs : startL fix l with
  | none => rw [hs] at h; simp at h
  | some k =>
    rw [hs] at h
    simp only at h
    obtain ⟨hk1, hk2, _, _⟩ := startL_some _ _ _ hs
    cases he : endL (l.drop k) 0 with
    | none => rw [he] at h; simp at h
    | some m =>
      rw [he] at h
      simp only [Option.some.injEq] at h
      have hm := endL_some _ _ _ he
      simp at hm
      subst h
      simp only
      omega

/-- parse every candidate in order, keep the references (what `ExtractAll` does with them). -/
def collect (v : Variant) (cps : List Nat) : List (Nat × Nat) → Outcome (List Ref)
  | [] => .ok []
  | se :: rest =>
    match parse v (encode (Spec.slice cps se.1 se.2)) with
    | .stuck f => .stuck f
    | .ok p =>
      match collect v cps rest with
      | .stuck f => .stuck f
      | .ok r =>
        match p with
        | some d => .ok (⟨d, ⟨(se.1 : Int), (se.2 : Int)⟩, []⟩ :: r)
        | none => .ok r

theorem extractGo_encode (v : Variant) (cps : List Nat) (hv : ∀ c ∈ cps, validCp c) :
    ∀ fuel i, i ≤ cps.length →
      extractGo v (encode cps) fuel (i : Int) = collect v cps (candsL v.fixScan fuel (cps.drop i) i) := by
  intro fuel
  induction fuel with
  | zero => intro i _; simp [extractGo, candsL, collect]
  | succ fuel ih =>
    intro i hi
    unfold extractGo candsL
    rw [nextReference_encode v cps hv i hi]
    cases hn : nextL v.fixScan (cps.drop i) with
    | none => simp [collect]
    | some ab =>
      obtain ⟨h1, h2⟩ := nextL_some _ _ _ hn
      simp at h2
      simp only [Option.map_some, collect]
      have hsub : substr (encode cps) ((i + ab.1 : Nat) : Int) ((i + ab.2 : Nat) : Int)
          = encode (Spec.slice cps (i + ab.1) (i + ab.2)) := by
        rw [substr_spec cps hv (i + ab.1) (i + ab.2) (by omega) (by omega)]; rfl
      rw [hsub]
      have hdd : (cps.drop i).drop ab.2 = cps.drop (i + ab.2) := by rw [List.drop_drop]
      rw [hdd, ih (i + ab.2) (by omega)]
      cases parse v (encode (Spec.slice cps (i + ab.1) (i + ab.2))) with
      | stuck f => rfl
      | ok p =>
        cases collect v cps (candsL v.fixScan fuel (cps.drop (i + ab.2)) (i + ab.2)) with
        | stuck f => rfl
        | ok r => cases p <;> rfl

theorem extractAll_encode (v : Variant) (cps : List Nat) (hv : ∀ c ∈ cps, validCp c) :
    extractAll v (encode cps) = collect v cps (candsL v.fixScan ((encode cps).length + 1) cps 0) := by
  unfold extractAll
  have := extractGo_encode v cps hv ((encode cps).length + 1) 0 (by omega)
  simpa using this

/-! ### Morphology: insertion into the ordered set = set semantics -/

theorem mem_morphInsert (g x : Nat) (m : Morph) : x ∈ morphInsert g m ↔ x = g ∨ x ∈ m := by
  induction m with
  | nil => simp [morphInsert]
  | cons y ys ih =>
    unfold morphInsert
    split
    · simp
    · split
      · next h => subst h; simp
      · simp [ih]; constructor
        · rintro (h | h | h) <;> simp [h]
        · rintro (h | h | h) <;> simp [h]

theorem pairwise_morphInsert (g : Nat) (m : Morph) (h : m.Pairwise (· < ·)) :
    (morphInsert g m).Pairwise (· < ·) := by
  induction m with
  | nil => simp [morphInsert]
  | cons y ys ih =>
    unfold morphInsert
    have hy := (List.pairwise_cons.1 h)
    split
    · next hlt =>
      refine List.pairwise_cons.2 ⟨?_, h⟩
      intro a ha
      rcases List.mem_cons.1 ha with rfl | ha
      · exact hlt
      · exact Nat.lt_trans hlt (hy.1 a ha)
    · next hge =>
      split
      · exact h
      · next hne =>
        refine List.pairwise_cons.2 ⟨?_, ih hy.2⟩
        intro a ha
        rcases (mem_morphInsert g a ys).1 ha with rfl | ha
        · omega
        · exact hy.1 a ha

theorem pairwise_lt_ext : ∀ (a b : List Nat), a.Pairwise (· < ·) → b.Pairwise (· < ·) →
    (∀ x, x ∈ a ↔ x ∈ b) → a = b
  | [], b, _, _, h => by
    cases b with
    | nil => rfl
    | cons y _ => exact absurd ((h y).2 (by simp)) (by simp)
  | x :: a', b, ha, hb, h => by
    cases b with
    | nil => exact absurd ((h x).1 (by simp)) (by simp)
    | cons y b' =>
      have ha' := List.pairwise_cons.1 ha
      have hb' := List.pairwise_cons.1 hb
      have hxy : x = y := by
        have h1 := (h x).1 (by simp)
        have h2 := (h y).2 (by simp)
        rcases List.mem_cons.1 h1 with e | h1
        · exact e
        · rcases List.mem_cons.1 h2 with e | h2
          · exact e.symm
          · have := hb'.1 x h1; have := ha'.1 y h2; omega
      subst hxy
      congr 1
      apply pairwise_lt_ext a' b' ha'.2 hb'.2
      intro z
      constructor
      · intro hz
        have := (h z).1 (by simp [hz])
        rcases List.mem_cons.1 this with e | this
        · have := ha'.1 z hz; omega
        · exact this
      · intro hz
        have := (h z).2 (by simp [hz])
        rcases List.mem_cons.1 this with e | this
        · have := hb'.1 z hz; omega
        · exact this

theorem tagLookup_mem (l : List (Bytes × Nat)) (t : Bytes) (g : Nat) (h : tagLookup l t = some g) :
    ∃ k, (k, g) ∈ l := by
  induction l with
  | nil => simp [tagLookup] at h
  | cons kv rest ih =>
    obtain ⟨k, v⟩ := kv
    unfold tagLookup at h
    split at h
    · injection h with h; subst h; exact ⟨k, by simp⟩
    · obtain ⟨k', hk⟩ := ih h; exact ⟨k', by simp [hk]⟩

theorem str2Grammem_lt (t : Bytes) : str2Grammem t < 36 := by
  unfold str2Grammem
  split
  · omega
  · cases h : tagLookup tagMap t with
    | none => simp
    | some g =>
      obtain ⟨k, hk⟩ := tagLookup_mem _ _ _ h
      have hall : tagMap.all (fun kv => decide (kv.2 < 36)) = true := by decide
      have := (List.all_eq_true.1 hall) _ hk
      simpa using this

theorem morphOfTags_foldl (tags : List Bytes) (m : Morph) (hm : m.Pairwise (· < ·)) :
    (tags.foldl morphStep m).Pairwise (· < ·) ∧
    ∀ x, x ∈ tags.foldl morphStep m ↔
      x ∈ m ∨ (x ≠ 0 ∧ ∃ t ∈ tags, str2Grammem (trim t) = x) := by
  induction tags generalizing m with
  | nil => simp [hm]
  | cons t rest ih =>
    simp only [List.foldl_cons]
    by_cases hg : str2Grammem (trim t) ≠ 0
    · have estep : morphStep m t = morphInsert (str2Grammem (trim t)) m := by
        unfold morphStep; rw [if_pos hg]
      rw [estep]
      have := ih (morphInsert (str2Grammem (trim t)) m) (pairwise_morphInsert _ _ hm)
      refine ⟨this.1, fun x => ?_⟩
      rw [this.2 x, mem_morphInsert]
      constructor
      · rintro ((h | h) | ⟨h0, t', ht', e⟩)
        · exact Or.inr ⟨by omega, t, by simp, h.symm⟩
        · exact Or.inl h
        · exact Or.inr ⟨h0, t', by simp [ht'], e⟩
      · rintro (h | ⟨h0, t', ht', e⟩)
        · exact Or.inl (Or.inr h)
        · rcases List.mem_cons.1 ht' with rfl | ht'
          · exact Or.inl (Or.inl e.symm)
          · exact Or.inr ⟨h0, t', ht', e⟩
    · have estep : morphStep m t = m := by
        unfold morphStep; rw [if_neg hg]
      rw [estep]
      have := ih m hm
      refine ⟨this.1, fun x => ?_⟩
      rw [this.2 x]
      constructor
      · rintro (h | ⟨h0, t', ht', e⟩)
        · exact Or.inl h
        · exact Or.inr ⟨h0, t', by simp [ht'], e⟩
      · rintro (h | ⟨h0, t', ht', e⟩)
        · exact Or.inl h
        · rcases List.mem_cons.1 ht' with rfl | ht'
          · exfalso; apply hg; rw [e]; exact h0
          · exact Or.inr ⟨h0, t', ht', e⟩

/-- the ordered-set construction of `Morphology(tags)` is the set of known grammemes named. -/
theorem morphOfTags_eq_formOf (tags : List Bytes) : morphOfTags tags = Spec.formOf tags := by
  obtain ⟨hp, hmem⟩ := morphOfTags_foldl tags [] (by simp)
  apply pairwise_lt_ext _ _ hp
  · unfold Spec.formOf
    exact List.Pairwise.filter _ List.pairwise_lt_range
  · intro x
    rw [hmem x]
    unfold Spec.formOf
    simp only [List.not_mem_nil, false_or, List.mem_filter, List.mem_range, Bool.and_eq_true,
      bne_iff_ne, ne_eq, List.any_eq_true, beq_iff_eq]
    constructor
    · rintro ⟨h0, t, ht, e⟩
      exact ⟨by rw [← e]; exact str2Grammem_lt _, h0, t, ht, e⟩
    · rintro ⟨_, h0, t, ht, e⟩
      exact ⟨h0, t, ht, e⟩

/-! ### `Reference::Parse` vs the reference grammar -/

/-- the fields of a candidate `@{…}`. -/
def fieldsOf (b : Bytes) : List Bytes := splitBy ((b.drop 2).dropLast) cBar

/-- spelling class on which the old `ExtractMorpho` (before `fixEmptyLast`) terminated the process: entity
spelling with 3–4 fields and an empty last field (`@{X1|nomn|}`). -/
def emptyLastField (b : Bytes) : Bool :=
  match fieldsOf b with
  | (c :: _) :: rest => isAlpha c && (rest.length == 2 || rest.length == 3) && rest.getLast? == some []
  | _ => false

/-- spelling class on which the old `Parse` (before `fixRange`) threw or silently changed the offset:
collaboration spelling whose offset does not fit `int16_t` (`@{70000|x}`, `@{99999999999|x}`). -/
def offsetOutOfRange (b : Bytes) : Bool :=
  match fieldsOf b with
  | [c :: n, _] =>
    !isAlpha c && isInteger (c :: n) &&
      !(decide (-32768 ≤ intVal (c :: n)) && decide (intVal (c :: n) ≤ 32767))
  | _ => false

theorem wrap16_id (n : Int) (h1 : -32768 ≤ n) (h2 : n ≤ 32767) : wrap16 n = n := by
  unfold wrap16; omega

theorem extractMorpho_many (v : Variant) (name a b' : Bytes) (r : List Bytes)
    (h : v.fixEmptyLast = false → (a :: b' :: r).getLast? ≠ some []) :
    extractMorpho v (name :: a :: b' :: r) = .ok (Spec.formOf (Spec.tagsOf (a :: b' :: r))) := by
  unfold extractMorpho Spec.tagsOf
  have hl : ¬ ((name :: a :: b' :: r).length = 2) := by simp
  rw [if_neg hl]
  simp only [List.drop_succ_cons, List.drop_zero]
  cases hlast : (a :: b' :: r).getLast? with
  | none => simp at hlast
  | some last =>
    cases last with
    | nil =>
      cases hfix : v.fixEmptyLast with
      | true => simp [morphOfTags_eq_formOf]
      | false => exact absurd hlast (h hfix)
    | cons c tl =>
      simp only [morphOfTags_eq_formOf]

theorem parse_spec (v : Variant) (b : Bytes)
    (h1 : v.fixEmptyLast = false → emptyLastField b = false)
    (h2 : v.fixRange = false → offsetOutOfRange b = false) :
    parse v b = .ok (Spec.refOf b) := by
  unfold parse splitReference Spec.refOf
  by_cases hlen : b.length ≤ 3
  · rw [if_pos hlen]
    have hinner : (b.drop 2).dropLast = [] := by
      apply List.eq_nil_of_length_eq_zero; simp; omega
    simp [hinner, deduceRefType, splitBy, splitGo]
  · rw [if_neg hlen]
    have hinner : (b.drop 2).take (b.length - 3) = (b.drop 2).dropLast := by
      rw [List.dropLast_eq_take, List.length_drop]; congr 1
    rw [hinner]
    unfold emptyLastField fieldsOf at h1
    unfold offsetOutOfRange fieldsOf at h2
    generalize splitBy ((b.drop 2).dropLast) cBar = toks at h1 h2 ⊢
    match toks with
    | [] => simp [deduceRefType]
    | [name] => simp [deduceRefType]
    | _ :: _ :: _ :: _ :: _ :: _ => simp [deduceRefType]
    | [] :: t :: rest =>
      have hd : deduceRefType ([] :: t :: rest) = .invalid := by
        unfold deduceRefType; split <;> rfl
      simp [hd]
    | [c :: n, t] =>
      by_cases ha : isAlpha c = true
      · have hd : deduceRefType [c :: n, t] = .entity := by simp [deduceRefType, ha]
        simp only [hd, extractMorpho, morphOfText, morphOfTags_eq_formOf, Spec.tagsOf]
        simp [ha]
        split <;> rfl
      · by_cases hi : isInteger (c :: n) = true
        · have hd : deduceRefType [c :: n, t] = .collaboration := by simp [deduceRefType, ha, hi]
          simp only [hd]
          cases hfix : v.fixRange with
          | true => simp [ha, hi]; split <;> rfl
          | false =>
            have := h2 hfix
            simp [ha, hi] at this
            have hs : stoi (c :: n) = .ok (intVal (c :: n)) := by
              unfold stoi; simp only; rw [if_neg (by omega)]
            simp [hs, ha, hi, this, wrap16_id _ this.1 this.2]
        · have hd : deduceRefType [c :: n, t] = .invalid := by simp [deduceRefType, ha, hi]
          simp [hd, ha, hi]
    | [c :: n, t, t2] =>
      by_cases ha : isAlpha c = true
      · have hd : deduceRefType [c :: n, t, t2] = .entity := by simp [deduceRefType, ha]
        have hm := extractMorpho_many v (c :: n) t t2 [] (fun hf => by
          have := h1 hf; simp [ha] at this; simpa using this)
        simp only [hd, hm]
        simp [ha]
        split <;> rfl
      · have hd : deduceRefType [c :: n, t, t2] = .invalid := by simp [deduceRefType, ha]
        simp [hd, ha]
    | [c :: n, t, t2, t3] =>
      by_cases ha : isAlpha c = true
      · have hd : deduceRefType [c :: n, t, t2, t3] = .entity := by simp [deduceRefType, ha]
        have hm := extractMorpho_many v (c :: n) t t2 [t3] (fun hf => by
          have := h1 hf; simp [ha] at this; simpa using this)
        simp only [hd, hm]
        simp [ha]
        split <;> rfl
      · have hd : deduceRefType [c :: n, t, t2, t3] = .invalid := by simp [deduceRefType, ha]
        simp [hd, ha]

/-! ### the old scanner (before `fixScan`) agrees with the repaired one on texts without `@@{` -/

/-- the text contains `@@{` (an `@` directly in front of a reference marker). -/
def hasAtAt : List Nat → Bool
  | a :: b :: c :: rest => (a == cAt && b == cAt && c == cOpen) || hasAtAt (b :: c :: rest)
  | _ => false

theorem hasAtAt_tail (a : Nat) (l : List Nat) (h : hasAtAt (a :: l) = false) : hasAtAt l = false := by
  match l with
  | [] => rfl
  | [_] => rfl
  | b :: c :: rest =>
    unfold hasAtAt at h
    simp only [Bool.or_eq_false_iff] at h
    exact h.2

theorem hasAtAt_drop (l : List Nat) (k : Nat) (h : hasAtAt l = false) : hasAtAt (l.drop k) = false := by
  induction k generalizing l with
  | zero => simpa using h
  | succ k ih =>
    cases l with
    | nil => simp [hasAtAt]
    | cons a r => simp only [List.drop_succ_cons]; exact ih r (hasAtAt_tail a r h)

theorem startT_not_at (c : Nat) (rest : List Nat) (h : c ≠ cAt) :
    startT (c :: rest) = (startT rest).map (· + 1) := by
  simp [startT, h]

theorem startB_eq_startT : ∀ (l : List Nat), hasAtAt l = false → startB l = startT l
  | [], _ => rfl
  | [c], _ => by simp [startB, startT]
  | c :: d :: rest', h => by
    have ht1 := hasAtAt_tail c _ h
    have ht2 := hasAtAt_tail d _ ht1
    by_cases hc : c = cAt
    · by_cases hd : d = cOpen
      · simp [startB, startT, hc, hd]
      · have ih := startB_eq_startT rest' ht2
        have e1 : startB (c :: d :: rest') = (startB rest').map (· + 2) := by simp [startB, hc, hd]
        have e2 : startT (c :: d :: rest') = (startT (d :: rest')).map (· + 1) := by simp [startT, hd]
        rw [e1, e2, ih]
        by_cases hd2 : d = cAt
        · cases rest' with
          | nil => simp [startT]
          | cons x r'' =>
            have hx : x ≠ cOpen := by
              intro hx
              unfold hasAtAt at h
              simp [hc, hd2, hx] at h
            have e3 : startT (d :: x :: r'') = (startT (x :: r'')).map (· + 1) := by simp [startT, hx]
            rw [e3]
            cases startT (x :: r'') <;> simp
        · rw [startT_not_at d rest' hd2]
          cases startT rest' <;> simp
    · have ih := startB_eq_startT (d :: rest') ht1
      have e1 : startB (c :: d :: rest') = (startB (d :: rest')).map (· + 1) := by simp [startB, hc]
      rw [e1, startT_not_at c _ hc, ih]

theorem candsL_bug_eq : ∀ (fuel : Nat) (l : List Nat) (off : Nat), hasAtAt l = false →
    candsL false fuel l off = candsL true fuel l off := by
  intro fuel
  induction fuel with
  | zero => intro l off _; rfl
  | succ fuel ih =>
    intro l off h
    unfold candsL nextL
    have : startL false l = startL true l := by simp [startL, startB_eq_startT l h]
    rw [this]
    cases startL true l with
    | none => rfl
    | some k =>
      simp only
      cases endL (l.drop k) 0 with
      | none => rfl
      | some m =>
        simp only
        rw [ih _ _ (hasAtAt_drop l _ h)]

/-! ### the specified candidates: ordered, disjoint, delimited by `@{` … `}` -/

/-- ranges start at or after `lo`, are non-empty, end within `n`, and each starts at or after the
end of the previous one. -/
def SortedFrom (n : Nat) : Nat → List (Nat × Nat) → Prop
  | _, [] => True
  | lo, se :: rest => lo ≤ se.1 ∧ se.1 < se.2 ∧ se.2 ≤ n ∧ SortedFrom n se.2 rest

theorem SortedFrom_mono (n lo lo' : Nat) (l : List (Nat × Nat)) (h : lo' ≤ lo) (hs : SortedFrom n lo l) :
    SortedFrom n lo' l := by
  cases l with
  | nil => trivial
  | cons se rest => exact ⟨Nat.le_trans h hs.1, hs.2⟩

theorem SortedFrom_sublist (n : Nat) : ∀ (l l' : List (Nat × Nat)) (lo : Nat), l'.Sublist l →
    SortedFrom n lo l → SortedFrom n lo l'
  | _, _, _, .slnil, h => h
  | _, _, lo, .cons a hsub, h => by
    have := SortedFrom_sublist n _ _ a.2 hsub h.2.2.2
    exact SortedFrom_mono n _ _ _ (by have := h.1; have := h.2.1; omega) this
  | _, _, lo, .cons_cons a hsub, h => ⟨h.1, h.2.1, h.2.2.1, SortedFrom_sublist n _ _ a.2 hsub h.2.2.2⟩

/-- the range `[se.1, se.2)` of `cps` starts with `@{` and ends with `}`. -/
def Delimited (cps : List Nat) (se : Nat × Nat) : Prop :=
  se.1 + 3 ≤ se.2 ∧ se.2 ≤ cps.length ∧
    cps[se.1]? = some cAt ∧ cps[se.1 + 1]? = some cOpen ∧ cps[se.2 - 1]? = some cClose

open Spec in
def scanLower (off : Nat) : Scan → Nat
  | .out true => off - 1
  | .out false => off
  | .inside s _ => s

open Spec in
def scanPre (cps : List Nat) (off : Nat) : Scan → Prop
  | .out true => 1 ≤ off ∧ cps[off - 1]? = some cAt
  | .out false => True
  | .inside s _ => s + 2 ≤ off ∧ cps[s]? = some cAt ∧ cps[s + 1]? = some cOpen

open Spec in
theorem candsGo_inv (cps : List Nat) : ∀ (l : List Nat) (off : Nat) (st : Scan),
    cps.drop off = l → scanPre cps off st →
      SortedFrom cps.length (scanLower off st) (candsGo l off st) ∧
      ∀ se ∈ candsGo l off st, Delimited cps se := by
  intro l
  induction l with
  | nil => intro off st _ _; simp [candsGo, SortedFrom]
  | cons c rest ih =>
    intro off st hdrop hpre
    have hoff : off < cps.length := by
      have := congrArg List.length hdrop; simp at this; omega
    have hc : cps[off]? = some c := by
      have : (cps.drop off)[0]? = some c := by rw [hdrop]; rfl
      simpa using this
    have hrest : cps.drop (off + 1) = rest := by
      have : (cps.drop off).drop 1 = rest := by rw [hdrop]; rfl
      rw [List.drop_drop] at this; exact this
    cases st with
    | out sawAt =>
      unfold candsGo
      by_cases hopen : (sawAt && c == cOpen) = true
      · rw [if_pos hopen]
        simp only [Bool.and_eq_true, beq_iff_eq] at hopen
        obtain ⟨hs, hco⟩ := hopen
        subst hs
        obtain ⟨h1, h2⟩ := hpre
        have hpre' : scanPre cps (off + 1) (.inside (off - 1) 0) := by
          refine ⟨by omega, h2, ?_⟩
          rw [show off - 1 + 1 = off by omega, hc, hco]
        have := ih (off + 1) (.inside (off - 1) 0) hrest hpre'
        exact this
      · rw [if_neg hopen]
        have hpre' : scanPre cps (off + 1) (.out (c == cAt)) := by
          cases hb : (c == cAt) with
          | false => trivial
          | true =>
            refine ⟨by omega, ?_⟩
            simp only [beq_iff_eq] at hb
            rw [show off + 1 - 1 = off by omega, hc, hb]
        have := ih (off + 1) (.out (c == cAt)) hrest hpre'
        refine ⟨SortedFrom_mono _ _ _ _ ?_ this.1, this.2⟩
        cases sawAt <;> cases (c == cAt) <;> simp [scanLower] <;> omega
    | inside s d =>
      obtain ⟨h1, h2, h3⟩ := hpre
      unfold candsGo
      by_cases ho : (c == cOpen) = true
      · rw [if_pos ho]
        exact ih (off + 1) (.inside s (d + 1)) hrest ⟨by omega, h2, h3⟩
      · rw [if_neg ho]
        by_cases hcl : (c == cClose) = true
        · rw [if_pos hcl]
          simp only [beq_iff_eq] at hcl
          cases d with
          | zero =>
            simp only
            have := ih (off + 1) (.out false) hrest trivial
            refine ⟨⟨Nat.le_refl _, by simp only; omega, by simp only; omega, this.1⟩, ?_⟩
            intro se hse
            rcases List.mem_cons.1 hse with rfl | hse
            · refine ⟨by simp only; omega, by simp only; omega, h2, h3, ?_⟩
              simp only
              rw [show off + 1 - 1 = off by omega, hc, hcl]
            · exact this.2 se hse
          | succ d' =>
            simp only
            exact ih (off + 1) (.inside s d') hrest ⟨by omega, h2, h3⟩
        · rw [if_neg hcl]
          exact ih (off + 1) (.inside s d) hrest ⟨by omega, h2, h3⟩

open Spec in
theorem cands_sorted (cps : List Nat) :
    SortedFrom cps.length 0 (cands cps) ∧ ∀ se ∈ cands cps, Delimited cps se :=
  candsGo_inv cps cps 0 (.out false) (by simp) trivial

/-! ### `GenerateResolved` on well-formed text -/

theorem take_prefix_encode (cps : List Nat) (a : Nat) :
    (encode cps).take (byteOffset cps a) = encode (cps.take a) := by
  unfold byteOffset
  conv => lhs; arg 2; rw [← List.take_append_drop a cps, encode_append]
  rw [List.take_left]

theorem drop_prefix_encode (cps : List Nat) (a : Nat) :
    (encode cps).drop (byteOffset cps a) = encode (cps.drop a) := by
  unfold byteOffset
  conv => lhs; arg 2; rw [← List.take_append_drop a cps, encode_append]
  rw [List.drop_left]

theorem byteOffset_mono (cps : List Nat) (a b : Nat) (h : a ≤ b) : byteOffset cps a ≤ byteOffset cps b := by
  unfold byteOffset
  have : cps.take b = cps.take a ++ (cps.drop a).take (b - a) := by
    have := List.take_add (l := cps) (i := a) (j := b - a)
    rw [show a + (b - a) = b by omega] at this
    exact this
  rw [this, encode_append, List.length_append]; omega

theorem byteOffset_le (cps : List Nat) (a : Nat) : byteOffset cps a ≤ (encode cps).length := by
  unfold byteOffset
  conv => rhs; rw [← List.take_append_drop a cps, encode_append, List.length_append]
  omega

theorem slice_bytes_encode (cps : List Nat) (a b : Nat) (hab : a ≤ b) :
    ((encode cps).drop (byteOffset cps a)).take (byteOffset cps b - byteOffset cps a)
      = encode (Spec.slice cps a b) := by
  rw [drop_prefix_encode]
  unfold Spec.slice
  have hsplit : cps.drop a = (cps.drop a).take (b - a) ++ (cps.drop a).drop (b - a) :=
    (List.take_append_drop _ _).symm
  have hlen : byteOffset cps b - byteOffset cps a = (encode ((cps.drop a).take (b - a))).length := by
    unfold byteOffset
    have : cps.take b = cps.take a ++ (cps.drop a).take (b - a) := by
      have := List.take_add (l := cps) (i := a) (j := b - a)
      rw [show a + (b - a) = b by omega] at this
      exact this
    rw [this, encode_append, List.length_append]; omega
  rw [hlen]
  conv => lhs; arg 2; rw [hsplit, encode_append]
  rw [List.take_left]

open Spec in
/-- a found reference as the manager holds it before `GenerateResolved`. -/
def foundRef (x : Found) : Ref := ⟨x.data, ⟨(x.s : Int), (x.e : Int)⟩, x.text⟩

open Spec in
def foundRange (x : Found) : Nat × Nat := (x.s, x.e)

open Spec in
def weaveBody (cps : List Nat) : Nat → List Found → Bytes
  | _, [] => []
  | cur, x :: rest => encode (slice cps cur x.s) ++ x.text ++ weaveBody cps x.e rest

open Spec in
def lastEnd : Nat → List Found → Nat
  | c, [] => c
  | _, x :: rest => lastEnd x.e rest

open Spec in
theorem weaveBody_tail (cps : List Nat) (items : List Found) (c : Nat) :
    weaveBody cps c items ++ encode (cps.drop (lastEnd c items)) = weave cps c items := by
  induction items generalizing c with
  | nil => simp [weaveBody, lastEnd, weave]
  | cons x rest ih => simp [weaveBody, lastEnd, weave, ih]

open Spec in
theorem genGo_encode (cps : List Nat) (hv : ∀ c ∈ cps, validCp c) :
    ∀ (items : List Found) (c : Nat) (dif : Int),
      SortedFrom cps.length c (items.map foundRange) →
      genGo (encode cps) (items.map foundRef) (iterAt cps c) dif =
        (weaveBody cps c items, wovenRefs dif items, iterAt cps (lastEnd c items)) := by
  intro items
  induction items with
  | nil => intro c dif _; rfl
  | cons x rest ih =>
    intro c dif hs
    obtain ⟨h1, h2, h3, h4⟩ := hs
    simp only [foundRange] at h1 h2 h3 h4
    simp only [List.map_cons, genGo, foundRef]
    rw [mkIter_iterAt cps hv x.s, mkIter_iterAt cps hv x.e, ih x.e _ h4]
    have hgap : (if iterPos (iterAt cps c) ≠ (x.s : Int) then
          substrBytes (encode cps) (iterAt cps c).bp (iterAt cps x.s).bp (iterAt cps c).bp else [])
        = encode (slice cps c x.s) := by
      have hc : c < cps.length := by omega
      rw [iterPos_iterAt, if_pos hc, iterAt_lt cps c hc, iterAt_lt cps x.s (by omega)]
      by_cases hcs : c = x.s
      · subst hcs; simp [slice, encode]
      · have hne : ((c : Int) ≠ (x.s : Int)) := by omega
        rw [if_pos hne]
        unfold substrBytes
        rw [if_pos (byteOffset_mono cps c x.s h1)]
        exact slice_bytes_encode cps c x.s h1
    rw [hgap]
    simp only [weaveBody, wovenRefs, lastEnd, StrRange.fromLength, StrRange.length]

open Spec in
/-- **GenerateResolved** on well-formed text with ordered, in-range references: the woven text and
the moved ranges. -/
theorem generateResolved_encode (cps : List Nat) (hv : ∀ c ∈ cps, validCp c) (items : List Found)
    (hs : SortedFrom cps.length 0 (items.map foundRange)) :
    generateResolved (encode cps) (items.map foundRef) = (weave cps 0 items, wovenRefs 0 items) := by
  unfold generateResolved
  have h0 : mkIter (encode cps) 0 = iterAt cps 0 := mkIter_iterAt cps hv 0
  rw [h0, genGo_encode cps hv items 0 0 hs]
  simp only
  rw [← weaveBody_tail cps items 0]
  congr 2
  by_cases hle : lastEnd 0 items < cps.length
  · rw [iterAt_lt cps _ hle]
    simp only [Iter.isEnd, Option.isNone_some, Bool.false_eq_true, if_false]
    unfold substrBytes
    rw [if_pos (byteOffset_le cps _), drop_prefix_encode, List.take_of_length_le]
    rw [← drop_prefix_encode]; simp
  · rw [iterAt_end cps _ (by omega)]
    simp only [Iter.isEnd, Option.isNone_none, if_true]
    rw [List.drop_eq_nil_of_le (by omega)]; rfl

/-! ### `ResolveAll` / `FindMaster` vs the specification of resolutions -/

theorem masterWalk_isSome : ∀ (ps : List (Nat × Ref)) (n : Nat), 1 ≤ n →
    (masterWalk ps n).isSome = decide (n ≤ ps.countP (fun p => p.2.data.isEntity)) := by
  intro ps
  induction ps with
  | nil => intro n hn; simp [masterWalk]; omega
  | cons p rest ih =>
    intro n hn
    obtain ⟨i, r⟩ := p
    unfold masterWalk
    by_cases he : r.data.isEntity = true
    · rw [if_pos he, List.countP_cons_of_pos (by simpa using he)]
      by_cases h1 : n - 1 = 0
      · rw [if_pos h1]; simp; omega
      · rw [if_neg h1, ih (n - 1) (by omega)]
        simp only [decide_eq_decide]; omega
    · rw [if_neg he, List.countP_cons_of_neg (by simpa using he), ih n hn]

theorem indexed_map_snd (l : List Ref) (i : Nat) : (indexed l i).map (fun p => p.2) = l := by
  induction l generalizing i with
  | nil => rfl
  | cons r rest ih => simp [indexed, ih]

theorem countP_indexed (l : List Ref) (i : Nat) :
    (indexed l i).countP (fun p => p.2.data.isEntity) = (l.map (fun r => r.data)).countP RefData.isEntity := by
  induction l generalizing i with
  | nil => rfl
  | cons r rest ih =>
    simp only [indexed, List.map_cons, List.countP_cons, ih]

theorem findMaster_isSome (refs : List Ref) (i : Nat) (off : Int) :
    (findMaster refs i off).isSome = Spec.masterExists (refs.map (fun r => r.data)) i off := by
  unfold findMaster Spec.masterExists
  by_cases h0 : off = 0
  · subst h0; simp
  · rw [if_neg h0]
    by_cases hp : off > 0
    · rw [if_pos hp, if_pos hp, masterWalk_isSome _ _ (by omega), countP_indexed,
        ← List.map_drop, List.countP_eq_length_filter]
    · have hn : off < 0 := by omega
      rw [if_neg hp, if_neg hp, if_pos hn, masterWalk_isSome _ _ (by omega), List.countP_reverse,
        countP_indexed, ← List.map_take, List.countP_eq_length_filter]

theorem resolveCollab_congr (nom : Bytes) (off : Int) (m1 m2 : Option Bytes) (h : m1.isSome = m2.isSome) :
    resolveCollab nom off m1 = resolveCollab nom off m2 := by
  unfold resolveCollab
  cases m1 <;> cases m2 <;> simp_all

/-- a candidate reference as `ExtractAll` returns it. -/
def rawRef (x : Nat × Nat × RefData) : Ref := ⟨x.2.2, ⟨(x.1 : Int), (x.2.1 : Int)⟩, []⟩

theorem resolveAll_eq (ctx : Ctx) (refs : List Ref) :
    resolveAll ctx refs = (indexed (refs.map (pass1 ctx)) 0).map (pass2 ctx (refs.map (pass1 ctx))) := rfl

theorem pass1_data (ctx : Ctx) (r : Ref) : (pass1 ctx r).data = r.data := by
  unfold pass1; cases hd : r.data <;> simp [hd]

open Spec in
theorem resolveAll_suffix (ctx : Ctx) (refs1 : List Ref) (datas : List RefData)
    (hd : refs1.map (fun r => r.data) = datas) :
    ∀ (xs : List (Nat × Nat × RefData)) (i : Nat),
      (indexed ((xs.map rawRef).map (pass1 ctx)) i).map (pass2 ctx refs1) =
        (attach xs (resolutionsFrom ctx datas i (xs.map (fun x => x.2.2)))).map foundRef := by
  intro xs
  induction xs with
  | nil => intro i; rfl
  | cons x rest ih =>
    intro i
    simp only [List.map_cons, indexed, resolutionsFrom, attach, ih (i + 1)]
    congr 1
    obtain ⟨s, e, d⟩ := x
    cases d with
    | entity n f => simp [rawRef, pass1, pass2, foundRef, resolutionOf]
    | collab nom off =>
      simp only [rawRef, pass1, pass2, foundRef, resolutionOf, resolveOne]
      congr 1
      apply resolveCollab_congr
      rw [Option.isSome_map, findMaster_isSome, hd]
      cases masterExists datas i off <;> rfl

open Spec in
/-- **ResolveAll** on the references `ExtractAll` found: every reference gets the resolution the
specification assigns to it (entity: context look-up; collaboration: by the existence of the
`|offset|`-th entity reference on the side given by the sign). -/
theorem resolveAll_spec (ctx : Ctx) (xs : List (Nat × Nat × RefData)) :
    resolveAll ctx (xs.map rawRef) =
      (attach xs (resolutions ctx (xs.map (fun x => x.2.2)))).map foundRef := by
  rw [resolveAll_eq]
  apply resolveAll_suffix ctx _ _ _ xs 0
  rw [List.map_map, List.map_map]
  apply List.map_congr_left
  intro x _
  simp [pass1_data, rawRef]

/-! ### the found references are ordered: `Resolve` on well-formed text -/

open Spec in
theorem attach_ranges_sublist : ∀ (xs : List (Nat × Nat × RefData)) (ts : List Bytes),
    ((attach xs ts).map foundRange).Sublist (xs.map (fun x => (x.1, x.2.1)))
  | [], ts => by cases ts <;> simp [attach]
  | x :: xs, [] => by simp [attach]
  | x :: xs, t :: ts => by
    simp only [attach, List.map_cons, foundRange]
    exact List.Sublist.cons_cons _ (attach_ranges_sublist xs ts)

open Spec in
theorem refsOf_ranges_sublist (cps : List Nat) :
    ((refsOf cps).map (fun x => (x.1, x.2.1))).Sublist (cands cps) := by
  unfold refsOf
  induction cands cps with
  | nil => simp
  | cons se rest ih =>
    simp only [List.filterMap_cons]
    cases refOf (encode (slice cps se.1 se.2)) with
    | none => exact List.Sublist.cons _ ih
    | some d => simp only [List.map_cons]; exact List.Sublist.cons_cons _ ih

open Spec in
theorem resolvedItems_sorted (ctx : Ctx) (cps : List Nat) :
    SortedFrom cps.length 0 ((resolvedItems ctx cps).map foundRange) := by
  apply SortedFrom_sublist _ _ _ _ (attach_ranges_sublist _ _)
  exact SortedFrom_sublist _ _ _ _ (refsOf_ranges_sublist cps) (cands_sorted cps).1

/-! ### the moved ranges delimit the replacements in the woven text -/

open Spec in
/-- the woven text at code-point level, for replacements given as code points. -/
def weaveCp (cps : List Nat) : Nat → List (Nat × Nat × List Nat) → List Nat
  | cur, [] => cps.drop cur
  | cur, x :: rest => slice cps cur x.1 ++ x.2.2 ++ weaveCp cps x.2.1 rest

open Spec in
/-- every replacement text is the encoding of the given non-empty list of scalar values. -/
def TextsAre : List Found → List (List Nat) → Prop
  | [], [] => True
  | x :: xs, r :: rs => x.text = encode r ∧ r ≠ [] ∧ (∀ c ∈ r, validCp c) ∧ TextsAre xs rs
  | _, _ => False

open Spec in
def cpItems : List Found → List (List Nat) → List (Nat × Nat × List Nat)
  | x :: xs, r :: rs => (x.s, x.e, r) :: cpItems xs rs
  | _, _ => []

open Spec in
theorem weave_eq_encode (cps : List Nat) : ∀ (items : List Found) (rs : List (List Nat)) (c : Nat),
    TextsAre items rs → weave cps c items = encode (weaveCp cps c (cpItems items rs))
  | [], [], c, _ => rfl
  | x :: xs, r :: rs, c, h => by
    simp only [weave, cpItems, weaveCp, encode_append, h.1, weave_eq_encode cps xs rs x.e h.2.2.2]
  | [], _ :: _, _, h => absurd h (by simp [TextsAre])
  | _ :: _, [], _, h => absurd h (by simp [TextsAre])

theorem slice_length (cps : List Nat) (a b : Nat) (hab : a ≤ b) (hb : b ≤ cps.length) :
    (Spec.slice cps a b).length = b - a := by
  unfold Spec.slice; simp; omega

theorem valid_slice (cps : List Nat) (hv : ∀ c ∈ cps, validCp c) (a b : Nat) :
    ∀ c ∈ Spec.slice cps a b, validCp c := by
  intro c hc
  unfold Spec.slice at hc
  exact hv c (List.mem_of_mem_drop (List.mem_of_mem_take hc))

theorem valid_weaveCp (cps : List Nat) (hv : ∀ c ∈ cps, validCp c) :
    ∀ (its : List (Nat × Nat × List Nat)) (c : Nat), (∀ x ∈ its, ∀ y ∈ x.2.2, validCp y) →
      ∀ y ∈ weaveCp cps c its, validCp y := by
  intro its
  induction its with
  | nil => intro c _ y hy; exact hv y (List.mem_of_mem_drop hy)
  | cons x rest ih =>
    intro c h y hy
    simp only [weaveCp, List.mem_append] at hy
    rcases hy with (hy | hy) | hy
    · exact valid_slice cps hv _ _ y hy
    · exact h x (by simp) y hy
    · exact ih x.2.1 (fun z hz => h z (by simp [hz])) y hy

open Spec in
theorem cpItems_valid : ∀ (items : List Found) (rs : List (List Nat)), TextsAre items rs →
    ∀ x ∈ cpItems items rs, ∀ y ∈ x.2.2, validCp y
  | [], [], _ => by simp [cpItems]
  | x :: xs, r :: rs, h => by
    intro z hz
    simp only [cpItems, List.mem_cons] at hz
    rcases hz with rfl | hz
    · exact h.2.2.1
    · exact cpItems_valid xs rs h.2.2.2 z hz
  | [], _ :: _, h => absurd h (by simp [TextsAre])
  | _ :: _, [], h => absurd h (by simp [TextsAre])

open Spec in
theorem wovenRefs_delimit (cps : List Nat) (hv : ∀ c ∈ cps, validCp c) :
    ∀ (items : List Found) (rs : List (List Nat)) (c : Nat) (sh : Int) (P : List Nat),
      TextsAre items rs → SortedFrom cps.length c (items.map foundRange) →
      (∀ y ∈ P, validCp y) → (P.length : Int) = (c : Int) + sh →
      ∀ ref ∈ wovenRefs sh items,
        substr (encode (P ++ weaveCp cps c (cpItems items rs))) ref.pos.start ref.pos.finish = ref.resolved
  | [], [], _, _, _, _, _, _, _ => by simp [wovenRefs]
  | [], _ :: _, _, _, _, h, _, _, _ => absurd h (by simp [TextsAre])
  | _ :: _, [], _, _, _, h, _, _, _ => absurd h (by simp [TextsAre])
  | x :: xs, r :: rs, c, sh, P, ht, hs, hP, hlen => by
    obtain ⟨htext, hne, hvr, ht'⟩ := ht
    obtain ⟨h1, h2, h3, h4⟩ := hs
    simp only [foundRange] at h1 h2 h3 h4
    have hsl := slice_length cps c x.s h1 (by omega)
    have hsz : sizeCp x.text = r.length := by rw [htext]; exact sizeCp_encode r hvr
    have hrpos : 0 < r.length := by cases r with | nil => exact absurd rfl hne | cons _ _ => simp
    intro ref href
    simp only [wovenRefs, List.mem_cons] at href
    rcases href with rfl | href
    · -- the head reference
      simp only [cpItems, weaveCp]
      have hall : ∀ y ∈ P ++ (slice cps c x.s ++ r ++ weaveCp cps x.e (cpItems xs rs)), validCp y := by
        intro y hy
        simp only [List.mem_append] at hy
        rcases hy with hy | (hy | hy) | hy
        · exact hP y hy
        · exact valid_slice cps hv _ _ y hy
        · exact hvr y hy
        · exact valid_weaveCp cps hv _ _ (cpItems_valid xs rs ht') y hy
      have ea : (x.s : Int) + sh = ((P.length + (x.s - c) : Nat) : Int) := by omega
      have eb : (x.s : Int) + sh + (sizeCp x.text : Int) = ((P.length + (x.s - c) + r.length : Nat) : Int) := by
        rw [hsz]; omega
      rw [eb, ea, substr_spec _ hall _ _ (by omega) (by simp [hsl]; omega)]
      have hd : (P ++ (slice cps c x.s ++ r ++ weaveCp cps x.e (cpItems xs rs))).drop (P.length + (x.s - c))
          = r ++ weaveCp cps x.e (cpItems xs rs) := by
        rw [show P ++ (slice cps c x.s ++ r ++ weaveCp cps x.e (cpItems xs rs))
              = (P ++ slice cps c x.s) ++ (r ++ weaveCp cps x.e (cpItems xs rs)) by simp]
        apply List.drop_left'
        simp [hsl]
      rw [hd, show P.length + (x.s - c) + r.length - (P.length + (x.s - c)) = r.length by omega,
        List.take_left', htext]
      rfl
    · -- the later references: extend the prefix
      simp only [cpItems, weaveCp]
      have := wovenRefs_delimit cps hv xs rs x.e
        (sh + ((sizeCp x.text : Int) - ((x.e : Int) - (x.s : Int)))) (P ++ slice cps c x.s ++ r) ht' h4
        (by
          intro y hy
          simp only [List.mem_append] at hy
          rcases hy with (hy | hy) | hy
          · exact hP y hy
          · exact valid_slice cps hv _ _ y hy
          · exact hvr y hy)
        (by simp only [List.length_append, hsl, hsz]; omega)
        ref href
      rw [← this]
      congr 2
      simp

/-! ### `OutputRefs` over the resolved text writes the references back -/

theorem intersect_within (N a b : Int) (h0 : 0 ≤ a) (hab : a ≤ b) (hb : b ≤ N) :
    StrRange.intersect ⟨0, N⟩ ⟨a, b⟩ = some ⟨a, b⟩ := by
  unfold StrRange.intersect StrRange.isBefore StrRange.isAfter
  have h1 : ¬ (N < a) := by omega
  have h2 : ¬ (0 > b) := by omega
  simp only [h1, h2, decide_false, Bool.or_self, Bool.false_eq_true, if_false]
  congr 2 <;> omega

open Spec in
/-- the found references re-spelled canonically instead of resolved -/
def canonItems (items : List Found) : List Found := items.map (fun x => { x with text := x.data.toString })

open Spec in
theorem outputGo_woven (cps : List Nat) (hv : ∀ c ∈ cps, validCp c) (W : List Nat) :
    ∀ (items : List Found) (rs : List (List Nat)) (c : Nat) (sh : Int) (P : List Nat) (res : Bytes),
      TextsAre items rs → SortedFrom cps.length c (items.map foundRange) →
      (∀ y ∈ W, validCp y) → (P.length : Int) = (c : Int) + sh →
      W = P ++ weaveCp cps c (cpItems items rs) →
      (let out := outputGo (encode W) ⟨0, (W.length : Int)⟩ (wovenRefs sh items) (P.length : Int) (W.length : Int) res
       if out.2.1 < out.2.2 then out.1 ++ substr (encode W) out.2.1 out.2.2 else out.1)
        = res ++ weave cps c (canonItems items)
  | [], [], c, sh, P, res, _, _, hW, hlen, hWeq => by
    simp only [wovenRefs, outputGo, canonItems, List.map_nil, weave]
    simp only [cpItems, weaveCp] at hWeq
    by_cases hlt : P.length < W.length
    · have : ((P.length : Int) < (W.length : Int)) := by omega
      rw [if_pos this, substr_spec W hW P.length W.length hlt (Nat.le_refl _)]
      congr 2
      rw [hWeq, List.drop_left, List.take_of_length_le]
      simp
    · have : ¬ ((P.length : Int) < (W.length : Int)) := by omega
      rw [if_neg this]
      have hl := congrArg List.length hWeq
      simp at hl
      have : cps.drop c = [] := by
        apply List.eq_nil_of_length_eq_zero; simp; omega
      simp [this, encode]
  | [], _ :: _, _, _, _, _, h, _, _, _, _ => absurd h (by simp [TextsAre])
  | _ :: _, [], _, _, _, _, h, _, _, _, _ => absurd h (by simp [TextsAre])
  | x :: xs, r :: rs, c, sh, P, res, ht, hs, hW, hlen, hWeq => by
    obtain ⟨htext, hne, hvr, ht'⟩ := ht
    obtain ⟨h1, h2, h3, h4⟩ := hs
    simp only [foundRange] at h1 h2 h3 h4
    have hsl := slice_length cps c x.s h1 (by omega)
    have hsz : sizeCp x.text = r.length := by rw [htext]; exact sizeCp_encode r hvr
    have hrpos : 0 < r.length := by cases r with | nil => exact absurd rfl hne | cons _ _ => simp
    simp only [cpItems, weaveCp] at hWeq
    have hWlen : W.length = P.length + (x.s - c) + r.length + (weaveCp cps x.e (cpItems xs rs)).length := by
      rw [hWeq]; simp [hsl]; omega
    have ea : (x.s : Int) + sh = ((P.length + (x.s - c) : Nat) : Int) := by omega
    have eb : (x.s : Int) + sh + (sizeCp x.text : Int) = ((P.length + (x.s - c) + r.length : Nat) : Int) := by
      rw [hsz]; omega
    simp only [wovenRefs, outputGo]
    rw [eb, ea, intersect_within _ _ _ (by omega) (by omega) (by omega)]
    have hne1 : StrRange.empty ⟨((P.length + (x.s - c) : Nat) : Int), ((P.length + (x.s - c) + r.length : Nat) : Int)⟩ = false := by
      simp [StrRange.empty]; omega
    have hne2 : ¬ (StrRange.length ⟨((P.length + (x.s - c) : Nat) : Int), ((P.length + (x.s - c) + r.length : Nat) : Int)⟩ * 2
        < StrRange.length ⟨((P.length + (x.s - c) : Nat) : Int), ((P.length + (x.s - c) + r.length : Nat) : Int)⟩) := by
      simp [StrRange.length]; omega
    simp only [hne1, Bool.false_eq_true, if_false, hne2]
    have hgap : (if (P.length : Int) < ((P.length + (x.s - c) : Nat) : Int)
          then res ++ substr (encode W) (P.length : Int) ((P.length + (x.s - c) : Nat) : Int) else res)
        = res ++ encode (slice cps c x.s) := by
      by_cases hcs : c = x.s
      · subst hcs; simp [slice, encode]
      · have hlt : (P.length : Int) < ((P.length + (x.s - c) : Nat) : Int) := by omega
        rw [if_pos hlt, substr_spec W hW P.length (P.length + (x.s - c)) (by omega) (by omega)]
        congr 2
        rw [hWeq, List.drop_left, show P.length + (x.s - c) - P.length = x.s - c by omega]
        rw [show slice cps c x.s ++ r ++ weaveCp cps x.e (cpItems xs rs)
              = slice cps c x.s ++ (r ++ weaveCp cps x.e (cpItems xs rs)) by simp]
        exact List.take_left' hsl
    rw [hgap]
    have ih := outputGo_woven cps hv W xs rs x.e
      (sh + ((sizeCp x.text : Int) - ((x.e : Int) - (x.s : Int)))) (P ++ slice cps c x.s ++ r)
      (res ++ encode (slice cps c x.s) ++ x.data.toString) ht' h4 hW
      (by simp only [List.length_append, hsl, hsz]; omega)
      (by rw [hWeq]; simp)
    have hPl : ((P ++ slice cps c x.s ++ r).length : Int) = ((P.length + (x.s - c) + r.length : Nat) : Int) := by
      simp only [List.length_append, hsl]
    rw [hPl] at ih
    simp only [canonItems, List.map_cons, weave, List.append_assoc] at ih ⊢
    exact ih

/-! ### alignment of a manager state with its text, preserved by `Insert` -/

/-- the references lie in the text `T` (code points) from `lo` on, ordered and disjoint, and each
recorded range delimits exactly the reference's resolved text. -/
def AlignedFrom (T : List Nat) : Nat → List Ref → Prop
  | _, [] => True
  | lo, r :: rest =>
    ∃ s e : Nat, r.pos = ⟨(s : Int), (e : Int)⟩ ∧ lo ≤ s ∧ s < e ∧ e ≤ T.length ∧
      r.resolved = encode (Spec.slice T s e) ∧ AlignedFrom T e rest

theorem AlignedFrom_mono (T : List Nat) (lo lo' : Nat) (l : List Ref) (h : lo' ≤ lo)
    (ha : AlignedFrom T lo l) : AlignedFrom T lo' l := by
  cases l with
  | nil => trivial
  | cons r rest =>
    obtain ⟨s, e, h1, h2, h3⟩ := ha
    exact ⟨s, e, h1, by omega, h3⟩

/-- every range of an aligned list starts at or after `lo`. -/
theorem AlignedFrom_lower (T : List Nat) : ∀ (l : List Ref) (lo : Nat), AlignedFrom T lo l →
    ∀ r ∈ l, (lo : Int) ≤ r.pos.start ∧ r.pos.start < r.pos.finish := by
  intro l
  induction l with
  | nil => intro lo _ r hr; simp at hr
  | cons x rest ih =>
    intro lo ha r hr
    obtain ⟨s, e, h1, h2, h3, h4, h5, h6⟩ := ha
    rcases List.mem_cons.1 hr with rfl | hr
    · rw [h1]; simp only; omega
    · have := ih e h6 r hr; omega

theorem slice_insert_before (T rr : List Nat) (w s e : Nat) (he : e ≤ w) (hw : w ≤ T.length) :
    Spec.slice (T.take w ++ rr ++ T.drop w) s e = Spec.slice T s e := by
  unfold Spec.slice
  by_cases hse : s ≤ e
  · have h1 : (T.take w ++ rr ++ T.drop w) = T.take w ++ (rr ++ T.drop w) := by simp
    have hlen : (T.take w).length = w := by simp; omega
    rw [h1, List.drop_append_of_le_length (by omega), List.take_append_of_le_length (by simp; omega)]
    conv => rhs; rw [← List.take_append_drop w T]
    rw [List.drop_append_of_le_length (by omega), List.take_append_of_le_length (by simp; omega)]
  · have : e - s = 0 := by omega
    simp [this]

theorem slice_insert_after (T rr : List Nat) (w s e : Nat) (hs : w ≤ s) (hw : w ≤ T.length) :
    Spec.slice (T.take w ++ rr ++ T.drop w) (s + rr.length) (e + rr.length) = Spec.slice T s e := by
  unfold Spec.slice
  have hlen : (T.take w ++ rr).length = w + rr.length := by simp; omega
  rw [show s + rr.length = (T.take w ++ rr).length + (s - w) by omega, List.drop_append,
    show e + rr.length - ((T.take w ++ rr).length + (s - w)) = e - s by omega, List.drop_drop]
  rw [List.drop_eq_nil_of_le (by omega), List.nil_append]
  congr 2; omega

theorem slice_insert_at (T rr : List Nat) (w : Nat) (hw : w ≤ T.length) :
    Spec.slice (T.take w ++ rr ++ T.drop w) w (w + rr.length) = rr := by
  unfold Spec.slice
  have hlen : (T.take w).length = w := by simp; omega
  rw [show T.take w ++ rr ++ T.drop w = T.take w ++ (rr ++ T.drop w) by simp]
  rw [List.drop_left' hlen, show w + rr.length - w = rr.length by omega, List.take_left' rfl]

/-- references wholly before the insertion point stay aligned (unchanged). -/
theorem aligned_insert_before (T rr : List Nat) (w : Nat) (hw : w ≤ T.length) :
    ∀ (l : List Ref) (lo : Nat), AlignedFrom T lo l → (∀ r ∈ l, r.pos.finish ≤ (w : Int)) →
      AlignedFrom (T.take w ++ rr ++ T.drop w) lo l := by
  intro l
  induction l with
  | nil => intro lo _ _; trivial
  | cons x rest ih =>
    intro lo ha hb
    obtain ⟨s, e, h1, h2, h3, h4, h5, h6⟩ := ha
    have hxe : e ≤ w := by have := hb x (by simp); rw [h1] at this; simp only at this; omega
    refine ⟨s, e, h1, h2, h3, by simp; omega, ?_, ih e h6 (fun r hr => hb r (by simp [hr]))⟩
    rw [h5, slice_insert_before T rr w s e hxe hw]

/-- references wholly after the insertion point stay aligned when shifted by the inserted length. -/
theorem aligned_insert_after (T rr : List Nat) (w : Nat) (hw : w ≤ T.length) :
    ∀ (l : List Ref) (lo : Nat), AlignedFrom T lo l → w ≤ lo →
      AlignedFrom (T.take w ++ rr ++ T.drop w) (lo + rr.length) (l.map (shiftRef (rr.length : Int))) := by
  intro l
  induction l with
  | nil => intro lo _ _; trivial
  | cons x rest ih =>
    intro lo ha hlo
    obtain ⟨s, e, h1, h2, h3, h4, h5, h6⟩ := ha
    simp only [List.map_cons]
    refine ⟨s + rr.length, e + rr.length, ?_, by omega, by omega, by simp; omega, ?_, ih e h6 (by omega)⟩
    · simp [shiftRef, StrRange.shift, h1]
    · simp only [shiftRef]
      rw [h5, slice_insert_after T rr w s e (by omega) hw]

theorem AlignedFrom_append (T : List Nat) : ∀ (l1 l2 : List Ref) (lo mid : Nat),
    AlignedFrom T lo l1 → (∀ r ∈ l1, r.pos.finish ≤ (mid : Int)) → lo ≤ mid → AlignedFrom T mid l2 →
      AlignedFrom T lo (l1 ++ l2) := by
  intro l1
  induction l1 with
  | nil => intro l2 lo mid _ _ hlm h2; exact AlignedFrom_mono T mid lo l2 hlm h2
  | cons x rest ih =>
    intro l2 lo mid ha hb hlm h2
    obtain ⟨s, e, h1, h3, h4, h5, h6, h7⟩ := ha
    have hxe : e ≤ mid := by have := hb x (by simp); rw [h1] at this; simp only at this; omega
    exact ⟨s, e, h1, h3, h4, h5, h6, ih l2 e mid h7 (fun r hr => hb r (by simp [hr])) hxe h2⟩

theorem AlignedFrom_split (T : List Nat) : ∀ (l : List Ref) (k lo : Nat), AlignedFrom T lo l →
    AlignedFrom T lo (l.take k) ∧
    ∃ mid, lo ≤ mid ∧ (∀ r ∈ l.take k, r.pos.finish ≤ (mid : Int)) ∧ AlignedFrom T mid (l.drop k) ∧
      (k = 0 → mid = lo) := by
  intro l
  induction l with
  | nil =>
    intro k lo _
    simp only [List.take_nil, List.drop_nil]
    exact ⟨trivial, lo, Nat.le_refl _, by simp, trivial, fun _ => rfl⟩
  | cons x rest ih =>
    intro k lo ha
    cases k with
    | zero =>
      simp only [List.take_zero, List.drop_zero]
      exact ⟨trivial, lo, Nat.le_refl _, by simp, ha, fun _ => rfl⟩
    | succ k =>
      obtain ⟨s, e, h1, h2, h3, h4, h5, h6⟩ := ha
      obtain ⟨i1, mid, i2, i3, i4, _⟩ := ih k e h6
      refine ⟨⟨s, e, h1, h2, h3, h4, h5, i1⟩, mid, by omega, ?_, i4, by simp⟩
      intro r hr
      simp only [List.take_succ_cons, List.mem_cons] at hr
      rcases hr with rfl | hr
      · rw [h1]; simp only; omega
      · exact i3 r hr

theorem findIdxGe_spec : ∀ (l : List Ref) (w : Int) (i : Nat),
    i ≤ findIdxGe l w i ∧ findIdxGe l w i ≤ i + l.length ∧
    (∀ r ∈ l.take (findIdxGe l w i - i), r.pos.start < w) ∧
    (∀ r, l[findIdxGe l w i - i]? = some r → r.pos.start ≥ w) := by
  intro l
  induction l with
  | nil => intro w i; simp [findIdxGe]
  | cons x rest ih =>
    intro w i
    unfold findIdxGe
    by_cases h : x.pos.start ≥ w
    · rw [if_pos h]; simp; exact h
    · rw [if_neg h]
      obtain ⟨a, b, c, d⟩ := ih w (i + 1)
      have e1 : findIdxGe rest w (i + 1) - i = (findIdxGe rest w (i + 1) - (i + 1)) + 1 := by omega
      refine ⟨by omega, by simp; omega, ?_, ?_⟩
      · rw [e1]
        intro r hr
        simp only [List.take_succ_cons, List.mem_cons] at hr
        rcases hr with rfl | hr
        · omega
        · exact c r hr
      · rw [e1]; simpa using d

theorem emptyRefCheck_ne_nil (t : Bytes) : emptyRefCheck t ≠ [] := by
  unfold emptyRefCheck
  cases t with
  | nil => simp [msgEmpty]
  | cons a r => simp

theorem resolveEntity_ne_nil (ctx : Ctx) (n : Bytes) (f : Morph) : resolveEntity ctx n f ≠ [] := by
  unfold resolveEntity
  split
  · exact emptyRefCheck_ne_nil _
  · split
    · simp [msgCannotFind]
    · simp only
      split <;> exact emptyRefCheck_ne_nil _

theorem resolveCollab_ne_nil (nom : Bytes) (off : Int) (m : Option Bytes) : resolveCollab nom off m ≠ [] := by
  unfold resolveCollab
  split
  · exact emptyRefCheck_ne_nil _
  · split
    · simp [msgInvalidOffset]
    · exact emptyRefCheck_ne_nil _

theorem resolveOne_ne_nil (ctx : Ctx) (refs : List Ref) (i : Nat) (r : Ref) : resolveOne ctx refs i r ≠ [] := by
  unfold resolveOne
  cases r.data with
  | entity n f => exact resolveEntity_ne_nil ctx n f
  | collab nom off => exact resolveCollab_ne_nil nom off _

theorem insertRef_shape (ctx : Ctx) (refs : List Ref) (d : RefData) (w : Int) (refs' : List Ref) (idx : Nat)
    (h : insertRef ctx refs d w = some (refs', idx)) :
    ∃ res : Bytes, res ≠ [] ∧ idx = findIdxGe refs w 0 ∧ blockedIdx refs idx w = false ∧
      (idx ≠ 0 → blockedIdx refs (idx - 1) w = false) ∧
      refs' = refs.take idx ++ (⟨d, StrRange.fromLength w (sizeCp res : Int), res⟩ : Ref) ::
        (refs.drop idx).map (shiftRef (sizeCp res : Int)) := by
  unfold insertRef at h
  simp only at h
  by_cases hb1 : blockedIdx refs (findIdxGe refs w 0) w = true
  · rw [if_pos hb1] at h; cases h
  · rw [if_neg hb1] at h
    by_cases hb2 : (decide (findIdxGe refs w 0 ≠ 0) && blockedIdx refs (findIdxGe refs w 0 - 1) w) = true
    · rw [if_pos hb2] at h; cases h
    · rw [if_neg hb2] at h
      simp only [Option.some.injEq, Prod.mk.injEq] at h
      obtain ⟨h1, h2⟩ := h
      subst h2
      refine ⟨_, resolveOne_ne_nil ctx _ _ _, rfl, by simpa using hb1, ?_, h1.symm⟩
      intro hk
      simp only [Bool.and_eq_true, decide_eq_true_eq, not_and] at hb2
      simpa using hb2 hk

/-- **Insert keeps the state aligned**: if the state is aligned with `T` and `Insert` accepts the
reference at `w ≤ |T|`, then the new state is aligned with `T` with the reference's resolved
text inserted at `w` (what the caller does with the returned reference). -/
theorem insertRef_aligned (ctx : Ctx) (T : List Nat) (refs : List Ref) (d : RefData) (w : Nat)
    (hw : w ≤ T.length) (ha : AlignedFrom T 0 refs) (refs' : List Ref) (idx : Nat)
    (hins : insertRef ctx refs d (w : Int) = some (refs', idx))
    (rr : List Nat) (hrv : ∀ c ∈ rr, validCp c)
    (hres : ∀ r, refs'[idx]? = some r → r.resolved = encode rr) :
    AlignedFrom (T.take w ++ rr ++ T.drop w) 0 refs' := by
  obtain ⟨res, hresne, hk, hb1, hb2, hshape⟩ := insertRef_shape ctx refs d (w : Int) refs' idx hins
  obtain ⟨_, hi2, hi3, hi4⟩ := findIdxGe_spec refs (w : Int) 0
  rw [← hk] at hi2 hi3 hi4
  simp only [Nat.sub_zero, Nat.zero_add] at hi2 hi3 hi4
  subst hshape
  have hlenk : (refs.take idx).length = idx := by rw [List.length_take]; omega
  have hnew : res = encode rr := by
    have := hres ⟨d, StrRange.fromLength (w : Int) (sizeCp res : Int), res⟩
      (by rw [List.getElem?_append_right (by omega), hlenk]; simp)
    exact this
  subst hnew
  rw [sizeCp_encode rr hrv]
  have hrpos : 0 < rr.length := by cases rr with | nil => exact absurd rfl hresne | cons _ _ => simp
  obtain ⟨al, mid, hm1, hm2, ar, hm0⟩ := AlignedFrom_split T refs idx 0 ha
  -- the reference at `idx` (if any) starts after `w`
  have hright : AlignedFrom T w (refs.drop idx) := by
    cases hd : refs.drop idx with
    | nil => trivial
    | cons x rest =>
      rw [hd] at ar
      obtain ⟨s, e, h1, h2, h3, h4, h5, h6⟩ := ar
      have hx : refs[idx]? = some x := by
        have : (refs.drop idx)[0]? = some x := by rw [hd]; rfl
        simpa using this
      have hge := hi4 x hx
      have hnb : blockedAt x (w : Int) = false := by
        unfold blockedIdx at hb1; rw [hx] at hb1; exact hb1
      unfold blockedAt StrRange.containsPos at hnb
      rw [h1] at hge hnb
      simp only [Bool.or_eq_false_iff, Bool.and_eq_false_iff, decide_eq_false_iff_not, beq_eq_false_iff_ne] at hnb
      simp only at hge
      exact ⟨s, e, h1, by omega, h3, h4, h5, h6⟩
  -- the references before `idx` end before `w`
  have hleft : ∀ r ∈ refs.take idx, r.pos.finish ≤ (w : Int) := by
    by_cases hk0 : idx = 0
    · subst hk0; intro r hr; simp at hr
    · have hb := hb2 hk0
      have hlt : idx - 1 < refs.length := by omega
      have hx : refs[idx - 1]? = some refs[idx - 1] := List.getElem?_eq_getElem hlt
      have hnb : blockedAt refs[idx - 1] (w : Int) = false := by
        unfold blockedIdx at hb; rw [hx] at hb; exact hb
      have hmem : refs[idx - 1] ∈ refs.take idx := by
        rw [List.mem_take_iff_getElem]
        exact ⟨idx - 1, by omega, rfl⟩
      have hst := hi3 _ hmem
      have hlast : ∀ r ∈ refs.take idx, r.pos.finish ≤ refs[idx - 1].pos.finish := by
        obtain ⟨_, mid', _, hp2, hp3, _⟩ := AlignedFrom_split T refs (idx - 1) 0 ha
        rw [List.drop_eq_getElem_cons hlt] at hp3
        obtain ⟨s, e, h1, h2, h3, _⟩ := hp3
        intro r hr
        rw [show idx = (idx - 1) + 1 by omega, List.take_succ_eq_append_getElem hlt, List.mem_append] at hr
        rcases hr with hr | hr
        · have := hp2 r hr; rw [h1]; simp only; omega
        · simp only [List.mem_singleton] at hr; subst hr; exact Int.le_refl _
      have hfin : refs[idx - 1].pos.finish < (w : Int) := by
        have hlo := (AlignedFrom_lower T _ 0 al _ hmem).2
        unfold blockedAt StrRange.containsPos at hnb
        simp only [Bool.or_eq_false_iff, Bool.and_eq_false_iff, decide_eq_false_iff_not, beq_eq_false_iff_ne] at hnb
        omega
      intro r hr
      have := hlast r hr
      omega
  apply AlignedFrom_append _ _ _ 0 w (aligned_insert_before T rr w hw _ 0 al hleft) hleft (Nat.zero_le _)
  refine ⟨w, w + rr.length, by simp [StrRange.fromLength], Nat.le_refl _, by omega, by simp; omega, ?_, ?_⟩
  · rw [slice_insert_at T rr w hw]
  · exact aligned_insert_after T rr w hw _ w hright (Nat.le_refl _)

/-! ### alignment preserved by `EraseIn` -/

/-- loop invariant of `EraseIn` after the references `pre` have been visited. -/
def EraseInv (N : Nat) (st : EraseSt) (pre : List Ref) : Prop :=
  ∃ a b : Nat, st.range = ⟨(a : Int), (b : Int)⟩ ∧ a ≤ b ∧ b ≤ N ∧
    match st.eraseStart with
    | none => ∀ r ∈ pre, r.pos.finish ≤ (a : Int)
    | some s0 => s0 < pre.length ∧ (∀ r ∈ pre.take s0, r.pos.finish ≤ (a : Int)) ∧
        (∀ r ∈ pre.drop s0, (a : Int) ≤ r.pos.start ∧ r.pos.start < r.pos.finish ∧ r.pos.finish ≤ (b : Int))

theorem eraseGo_inv (T : List Nat) (expand : Bool) :
    ∀ (l pre : List Ref) (st : EraseSt) (lo : Nat) (k : Nat) (st' : EraseSt),
      AlignedFrom T lo l → (∀ r ∈ pre, r.pos.finish ≤ (lo : Int)) → EraseInv T.length st pre →
      eraseGo expand l pre.length st = some (k, st') →
      pre.length ≤ k ∧ k ≤ pre.length + l.length ∧
      EraseInv T.length st' (pre ++ l.take (k - pre.length)) ∧
      (∀ r ∈ l.drop (k - pre.length), st'.range.finish ≤ r.pos.start) := by
  intro l
  induction l with
  | nil =>
    intro pre st lo k st' _ _ hinv hgo
    simp only [eraseGo, Option.some.injEq, Prod.mk.injEq] at hgo
    obtain ⟨rfl, rfl⟩ := hgo
    simp [hinv]
  | cons x rest ih =>
    intro pre st lo k st' hal hpre hinv hgo
    obtain ⟨s, e, hpos, hlo, hse, heT, _, hrest⟩ := hal
    obtain ⟨a, b, hrange, hab, hbN, hcase⟩ := hinv
    obtain ⟨rng, cf, es⟩ := st
    simp only at hrange hcase
    subst hrange
    have hrange : (⟨(a : Int), (b : Int)⟩ : StrRange) = ⟨(a : Int), (b : Int)⟩ := rfl
    -- facts used when the loop continues with `x` appended to the visited references
    have hpre' : ∀ r ∈ pre ++ [x], r.pos.finish ≤ (e : Int) := by
      intro r hr
      rcases List.mem_append.1 hr with hr | hr
      · have := hpre r hr; omega
      · simp only [List.mem_singleton] at hr; subst hr; rw [hpos]; exact Int.le_refl _
    have hlen' : (pre ++ [x]).length = pre.length + 1 := by simp
    -- an open erased block excludes "x ends at or before the range start"
    have hopen : ∀ s0, es = some s0 → (a : Int) < (e : Int) := by
      intro s0 hs0
      rw [hs0] at hcase
      obtain ⟨h1, _, h3⟩ := hcase
      cases hd : pre.drop s0 with
      | nil => have := congrArg List.length hd; simp at this; omega
      | cons y ys =>
        have hmem : y ∈ pre.drop s0 := by rw [hd]; simp
        have := h3 _ hmem
        have := hpre _ (List.mem_of_mem_drop hmem)
        omega
    unfold eraseGo at hgo
    simp only [hpos, StrRange.meets, StrRange.isBefore, StrRange.isAfter] at hgo
    by_cases hm : (e : Int) = (a : Int)
    · -- x meets the range: continue
      simp only [hm, decide_true, if_true] at hgo
      have hes : es = none := by
        cases h : es with
        | none => rfl
        | some s0 => have := hopen s0 h; omega
      have hinv' : EraseInv T.length ⟨⟨(a : Int), (b : Int)⟩, true, es⟩ (pre ++ [x]) := by
        refine ⟨a, b, hrange, hab, hbN, ?_⟩
        simp only [hes]
        rw [hes] at hcase
        intro r hr
        rcases List.mem_append.1 hr with hr | hr
        · exact hcase r hr
        · simp only [List.mem_singleton] at hr; subst hr; rw [hpos]; simp only; omega
      have := ih (pre ++ [x]) _ e k st' hrest hpre' hinv' (by rw [hlen']; exact hgo)
      rw [hlen'] at this
      obtain ⟨i1, i2, i3, i4⟩ := this
      refine ⟨by omega, by simp; omega, ?_, ?_⟩
      · rw [show k - pre.length = (k - (pre.length + 1)) + 1 by omega, List.take_succ_cons]
        simpa using i3
      · rw [show k - pre.length = (k - (pre.length + 1)) + 1 by omega, List.drop_succ_cons]
        exact i4
    · simp only [hm, decide_false, Bool.false_eq_true, if_false] at hgo
      by_cases hb : (e : Int) < (a : Int)
      · -- x is before the range: continue
        simp only [hb, decide_true, if_true] at hgo
        have hes : es = none := by
          cases h : es with
          | none => rfl
          | some s0 => have := hopen s0 h; omega
        have hinv' : EraseInv T.length ⟨⟨(a : Int), (b : Int)⟩, cf, es⟩ (pre ++ [x]) := by
          refine ⟨a, b, hrange, hab, hbN, ?_⟩
          simp only [hes]
          rw [hes] at hcase
          intro r hr
          rcases List.mem_append.1 hr with hr | hr
          · exact hcase r hr
          · simp only [List.mem_singleton] at hr; subst hr; rw [hpos]; simp only; omega
        have := ih (pre ++ [x]) _ e k st' hrest hpre' hinv' (by rw [hlen']; exact hgo)
        rw [hlen'] at this
        obtain ⟨i1, i2, i3, i4⟩ := this
        refine ⟨by omega, by simp; omega, ?_, ?_⟩
        · rw [show k - pre.length = (k - (pre.length + 1)) + 1 by omega, List.take_succ_cons]
          simpa using i3
        · rw [show k - pre.length = (k - (pre.length + 1)) + 1 by omega, List.drop_succ_cons]
          exact i4
      · simp only [hb, decide_false, Bool.false_eq_true, if_false] at hgo
        -- from here on: a < e
        have hstop : ∀ r ∈ x :: rest, (s : Int) ≤ r.pos.start := by
          intro r hr
          rcases List.mem_cons.1 hr with rfl | hr
          · rw [hpos]; exact Int.le_refl _
          · have := (AlignedFrom_lower T rest e hrest r hr).1; omega
        by_cases hmr : (b : Int) = (s : Int)
        · -- the range meets x: stop here (or fail)
          have hbs : b = s := by omega
          subst hbs
          simp only [decide_true, if_true] at hgo
          split at hgo
          · cases hgo
          · simp only [Option.some.injEq, Prod.mk.injEq] at hgo
            obtain ⟨rfl, rfl⟩ := hgo
            refine ⟨Nat.le_refl _, by simp, ?_, ?_⟩
            · simp only [Nat.sub_self, List.take_zero, List.append_nil]; exact ⟨a, b, hrange, hab, hbN, hcase⟩
            · simp only [Nat.sub_self, List.drop_zero]
              intro r hr; have := hstop r hr; omega
        · simp only [hmr, decide_false, Bool.false_eq_true, if_false] at hgo
          by_cases haf : (s : Int) > (b : Int)
          · -- x is after the range: stop here
            simp only [haf, decide_true, if_true, Option.some.injEq, Prod.mk.injEq] at hgo
            obtain ⟨rfl, rfl⟩ := hgo
            refine ⟨Nat.le_refl _, by simp, ?_, ?_⟩
            · simp only [Nat.sub_self, List.take_zero, List.append_nil]; exact ⟨a, b, hrange, hab, hbN, hcase⟩
            · simp only [Nat.sub_self, List.drop_zero]
              intro r hr; have := hstop r hr; omega
          · simp only [haf, decide_false, Bool.false_eq_true, if_false] at hgo
            -- x overlaps the range: a < e and s < b
            have hcont : ∀ st2, EraseInv T.length st2 (pre ++ [x]) →
                eraseGo expand rest (pre.length + 1) st2 = some (k, st') →
                pre.length ≤ k ∧ k ≤ pre.length + (x :: rest).length ∧
                EraseInv T.length st' (pre ++ (x :: rest).take (k - pre.length)) ∧
                (∀ r ∈ (x :: rest).drop (k - pre.length), st'.range.finish ≤ r.pos.start) := by
              intro st2 hinv2 hgo2
              have := ih (pre ++ [x]) st2 e k st' hrest hpre' hinv2 (by rw [hlen']; exact hgo2)
              rw [hlen'] at this
              obtain ⟨i1, i2, i3, i4⟩ := this
              refine ⟨by omega, by simp; omega, ?_, ?_⟩
              · rw [show k - pre.length = (k - (pre.length + 1)) + 1 by omega, List.take_succ_cons]
                simpa using i3
              · rw [show k - pre.length = (k - (pre.length + 1)) + 1 by omega, List.drop_succ_cons]
                exact i4
            have hxin : ∀ r ∈ [x], ∀ a' b' : Nat, a' ≤ s → e ≤ b' →
                (a' : Int) ≤ r.pos.start ∧ r.pos.start < r.pos.finish ∧ r.pos.finish ≤ (b' : Int) := by
              intro r hr a' b' h1 h2
              simp only [List.mem_singleton] at hr; subst hr; rw [hpos]; simp only; omega
            by_cases hexp : (StrRange.contains ⟨(s : Int), (e : Int)⟩ ⟨(a : Int), (b : Int)⟩ && expand) = true
            · -- the range is expanded to x
              simp only [hexp, if_true] at hgo
              have hself : StrRange.contains ⟨(s : Int), (e : Int)⟩ ⟨(s : Int), (e : Int)⟩ = true := by
                have : ¬ ((e : Int) = (s : Int)) := by omega
                simp [StrRange.contains, StrRange.empty, this]
              rw [if_pos hself] at hgo
              simp only [Bool.and_eq_true] at hexp
              have hcon := hexp.1
              have hesn : es = none := by
                cases h : es with
                | none => rfl
                | some s0 =>
                  exfalso
                  rw [h] at hcase
                  obtain ⟨h1, _, h3⟩ := hcase
                  cases hd : pre.drop s0 with
                  | nil => have := congrArg List.length hd; simp at this; omega
                  | cons y ys =>
                    have hmem : y ∈ pre.drop s0 := by rw [hd]; simp
                    have hy := h3 _ hmem
                    have hy2 := hpre _ (List.mem_of_mem_drop hmem)
                    unfold StrRange.contains StrRange.empty StrRange.containsPos at hcon
                    by_cases hemp : (b : Int) = (a : Int)
                    · omega
                    · simp only [hemp, decide_false, Bool.false_eq_true, if_false, Bool.and_eq_true,
                        decide_eq_true_eq] at hcon
                      omega
              subst hesn
              apply hcont _ _ hgo
              refine ⟨s, e, rfl, by omega, heT, ?_⟩
              simp only
              refine ⟨by simp, ?_, ?_⟩
              · intro r hr
                rw [List.take_left' rfl] at hr
                have := hpre r hr; omega
              · intro r hr
                rw [List.drop_left' rfl] at hr
                exact hxin r hr s e (Nat.le_refl _) (Nat.le_refl _)
            · -- the range stays; x must lie inside it
              simp only [hexp, Bool.false_eq_true, if_false] at hgo
              by_cases hin : StrRange.contains ⟨(a : Int), (b : Int)⟩ ⟨(s : Int), (e : Int)⟩ = true
              · rw [if_pos hin] at hgo
                have hne : ¬ ((e : Int) = (s : Int)) := by omega
                simp only [StrRange.contains, StrRange.empty, hne, decide_false, Bool.false_eq_true, if_false,
                  Bool.and_eq_true, decide_eq_true_eq] at hin
                apply hcont _ _ hgo
                refine ⟨a, b, rfl, hab, hbN, ?_⟩
                cases hes : es with
                | none =>
                  rw [hes] at hcase
                  simp only
                  refine ⟨by simp, ?_, ?_⟩
                  · intro r hr
                    rw [List.take_left' rfl] at hr
                    exact hcase r hr
                  · intro r hr
                    rw [List.drop_left' rfl] at hr
                    exact hxin r hr a b (by omega) (by omega)
                | some s0 =>
                  rw [hes] at hcase
                  obtain ⟨h1, h2, h3⟩ := hcase
                  simp only
                  refine ⟨by simp; omega, ?_, ?_⟩
                  · intro r hr
                    rw [List.take_append_of_le_length (by omega)] at hr
                    exact h2 r hr
                  · intro r hr
                    rw [List.drop_append_of_le_length (by omega)] at hr
                    rcases List.mem_append.1 hr with hr | hr
                    · exact h3 r hr
                    · exact hxin r hr a b (by omega) (by omega)
              · rw [if_neg hin] at hgo; cases hgo

theorem slice_prefix (T X : List Nat) (w s e : Nat) (he : e ≤ w) (hw : w ≤ T.length) :
    Spec.slice (T.take w ++ X) s e = Spec.slice T s e := by
  unfold Spec.slice
  by_cases hse : s ≤ e
  · have hlen : (T.take w).length = w := by simp; omega
    rw [List.drop_append_of_le_length (by omega), List.take_append_of_le_length (by simp; omega)]
    conv => rhs; rw [← List.take_append_drop w T]
    rw [List.drop_append_of_le_length (by omega), List.take_append_of_le_length (by simp; omega)]
  · have : e - s = 0 := by omega
    simp [this]

theorem slice_erase_after (T : List Nat) (a b s e : Nat) (hab : a ≤ b) (hb : b ≤ T.length) (hs : b ≤ s) :
    Spec.slice (T.take a ++ T.drop b) (s - (b - a)) (e - (b - a)) = Spec.slice T s e := by
  unfold Spec.slice
  have hlen : (T.take a).length = a := by simp; omega
  rw [show s - (b - a) = (T.take a).length + (s - b) by omega, List.drop_append,
    List.drop_eq_nil_of_le (by omega), List.nil_append, List.drop_drop]
  by_cases hse : s ≤ e
  · rw [show e - (b - a) - ((T.take a).length + (s - b)) = e - s by omega]
    congr 2; omega
  · have h1 : e - s = 0 := by omega
    have h2 : e - (b - a) - ((T.take a).length + (s - b)) = 0 := by omega
    rw [h1, h2]; simp

theorem aligned_erase_before (T X : List Nat) (w : Nat) (hw : w ≤ T.length) :
    ∀ (l : List Ref) (lo : Nat), AlignedFrom T lo l → (∀ r ∈ l, r.pos.finish ≤ (w : Int)) →
      AlignedFrom (T.take w ++ X) lo l := by
  intro l
  induction l with
  | nil => intro lo _ _; trivial
  | cons x rest ih =>
    intro lo ha hb
    obtain ⟨s, e, h1, h2, h3, h4, h5, h6⟩ := ha
    have hxe : e ≤ w := by have := hb x (by simp); rw [h1] at this; simp only at this; omega
    refine ⟨s, e, h1, h2, h3, by simp; omega, ?_, ih e h6 (fun r hr => hb r (by simp [hr]))⟩
    rw [h5, slice_prefix T X w s e hxe hw]

theorem aligned_erase_after (T : List Nat) (a b : Nat) (hab : a ≤ b) (hb : b ≤ T.length) :
    ∀ (l : List Ref) (lo : Nat), AlignedFrom T lo l → b ≤ lo →
      AlignedFrom (T.take a ++ T.drop b) (lo - (b - a))
        (l.map (shiftRef (-((b : Int) - (a : Int))))) := by
  intro l
  induction l with
  | nil => intro lo _ _; trivial
  | cons x rest ih =>
    intro lo ha hlo
    obtain ⟨s, e, h1, h2, h3, h4, h5, h6⟩ := ha
    simp only [List.map_cons]
    refine ⟨s - (b - a), e - (b - a), ?_, by omega, by omega, by simp; omega, ?_, ih e h6 (by omega)⟩
    · simp only [shiftRef, StrRange.shift, h1, StrRange.mk.injEq]; constructor <;> omega
    · simp only [shiftRef]
      rw [h5, slice_erase_after T a b s e hab hb (by omega)]

theorem AlignedFrom_raise (T : List Nat) (l : List Ref) (lo hi : Nat) (ha : AlignedFrom T lo l)
    (h : ∀ r ∈ l, (hi : Int) ≤ r.pos.start) : AlignedFrom T hi l := by
  cases l with
  | nil => trivial
  | cons x rest =>
    obtain ⟨s, e, h1, h2, h3⟩ := ha
    have := h x (by simp)
    rw [h1] at this
    exact ⟨s, e, h1, by simp only at this; omega, h3⟩

/-- **EraseIn keeps the state aligned**: if the state is aligned with `T` and `EraseIn` accepts the
range `[a, b)` (`a ≤ b ≤ |T|`), it returns a range `[a', b')` inside the text such that the new state
is aligned with `T` without the code points `[a', b')` (what the caller erases). -/
theorem eraseIn_aligned (T : List Nat) (refs : List Ref) (a b : Nat) (expand : Bool)
    (hab : a ≤ b) (hb : b ≤ T.length) (ha : AlignedFrom T 0 refs) (R : StrRange) (refs' : List Ref)
    (h : eraseIn refs ⟨(a : Int), (b : Int)⟩ expand = some (R, refs')) :
    ∃ a' b' : Nat, R = ⟨(a' : Int), (b' : Int)⟩ ∧ a' ≤ b' ∧ b' ≤ T.length ∧
      AlignedFrom (T.take a' ++ T.drop b') 0 refs' := by
  unfold eraseIn at h
  cases hgo : eraseGo expand refs 0 ⟨⟨(a : Int), (b : Int)⟩, false, none⟩ with
  | none => rw [hgo] at h; cases h
  | some kst =>
    obtain ⟨k, st'⟩ := kst
    rw [hgo] at h
    simp only [Option.some.injEq, Prod.mk.injEq] at h
    obtain ⟨hR, hrefs⟩ := h
    have hinv0 : EraseInv T.length ⟨⟨(a : Int), (b : Int)⟩, false, none⟩ [] :=
      ⟨a, b, rfl, hab, hb, by simp⟩
    obtain ⟨_, hk, hinv, hafter⟩ := eraseGo_inv T expand refs [] _ 0 k st' ha (by simp) hinv0
      (by simpa using hgo)
    simp only [List.length_nil, Nat.zero_add, Nat.sub_zero, List.nil_append] at hk hinv hafter
    obtain ⟨a', b', hrange, hab', hbN, hcase⟩ := hinv
    refine ⟨a', b', by rw [← hR, hrange], hab', hbN, ?_⟩
    have hlen : st'.range.length = (b' : Int) - (a' : Int) := by rw [hrange]; rfl
    rw [hlen] at hrefs
    obtain ⟨_, mid, _, _, hdrop, _⟩ := AlignedFrom_split T refs k 0 ha
    have hdrop' : AlignedFrom T b' (refs.drop k) :=
      AlignedFrom_raise T _ mid b' hdrop (by intro r hr; have := hafter r hr; rw [hrange] at this; exact this)
    have hshift := aligned_erase_after T a' b' hab' hbN _ b' hdrop' (Nat.le_refl _)
    rw [show b' - (b' - a') = a' by omega] at hshift
    have hlk : (refs.take k).length = k := by rw [List.length_take]; omega
    -- the kept prefix
    have key : ∀ j, j ≤ k → (∀ r ∈ refs.take j, r.pos.finish ≤ (a' : Int)) →
        AlignedFrom (T.take a' ++ T.drop b') 0
          (refs.take j ++ (refs.drop k).map (shiftRef (-((b' : Int) - (a' : Int))))) := by
      intro j hj hbefore
      obtain ⟨hpre, _⟩ := AlignedFrom_split T refs j 0 ha
      exact AlignedFrom_append _ _ _ 0 a'
        (aligned_erase_before T (T.drop b') a' (by omega) _ 0 hpre hbefore) hbefore (Nat.zero_le _) hshift
    cases hes : st'.eraseStart with
    | none =>
      rw [hes] at hcase hrefs
      simp only at hrefs
      rw [← hrefs]
      exact key k (Nat.le_refl _) hcase
    | some s0 =>
      rw [hes] at hcase hrefs
      obtain ⟨h1, h2, _⟩ := hcase
      rw [hlk] at h1
      simp only at hrefs
      rw [← hrefs, List.take_append_of_le_length (by omega), List.drop_left' hlk, List.take_take,
        Nat.min_eq_left (by omega)]
      rw [List.take_take, Nat.min_eq_left (by omega)] at h2
      exact key s0 (by omega) h2

/-! ### `TranslateRaw`: right-to-left replacement by byte offsets -/

theorem getD_at_prefix_tail (pre : Bytes) (c : Nat) (l : List Nat) (tail : Bytes) :
    (pre ++ encode (c :: l) ++ tail).getD pre.length 0 = (encodeCp c).getD 0 0 := by
  have hne := encodeCp_ne_nil c
  rw [encode_cons]
  cases hc : encodeCp c with
  | nil => exact absurd hc hne
  | cons x xs => simp [List.getD_eq_getElem?_getD]

/-- `advance` over a well-formed prefix does not look at what follows it. -/
theorem advance_prefix (l1 l2 : List Nat) (tail : Bytes) (k : Nat) (hv : ∀ c ∈ l2, validCp c)
    (hk : k ≤ l2.length) :
    advance (encode (l1 ++ l2) ++ tail) k (encode l1).length = (encode (l1 ++ l2.take k)).length := by
  induction k generalizing l1 l2 with
  | zero => simp [advance]
  | succ k ih =>
    cases l2 with
    | nil => simp at hk
    | cons c l2 =>
      have hlt : (encode l1).length < (encode (l1 ++ c :: l2) ++ tail).length := by
        rw [encode_append, encode_cons]; simp
        have := encodeCp_length_pos c; omega
      unfold advance
      rw [if_pos hlt]
      have hget : (encode (l1 ++ c :: l2) ++ tail).getD (encode l1).length 0 = (encodeCp c).getD 0 0 := by
        rw [encode_append]; exact getD_at_prefix_tail _ _ _ _
      rw [hget, charSize_head c (hv c (by simp))]
      have e1 : (encode l1).length + (encodeCp c).length = (encode (l1 ++ [c])).length := by
        rw [encode_append]; simp [encode]
      have e2 : l1 ++ c :: l2 = (l1 ++ [c]) ++ l2 := by simp
      rw [e1, e2, ih (l1 ++ [c]) l2 (fun x hx => hv x (by simp [hx])) (by simpa using hk)]
      simp

theorem mkIter_prefix_bp (l : List Nat) (tail : Bytes) (k : Nat) (hv : ∀ c ∈ l, validCp c)
    (hk : k ≤ l.length) :
    (mkIter (encode l ++ tail) (k : Int)).bp = byteOffset l k := by
  unfold mkIter
  have hn : ¬ ((k : Int) < 0) := by omega
  rw [if_neg hn]
  simp only [Int.toNat_natCast]
  have := advance_prefix [] l tail k hv hk
  simp only [List.nil_append, encode, List.length_nil] at this
  split <;> simp only [this] <;> rfl

theorem byteOffset_take (cps : List Nat) (e s : Nat) (h : s ≤ e) :
    byteOffset (cps.take e) s = byteOffset cps s := by
  unfold byteOffset; rw [List.take_take, Nat.min_eq_left h]

theorem take_slice (cps : List Nat) (c s : Nat) (h : c ≤ s) :
    encode (cps.take c) ++ encode (Spec.slice cps c s) = encode (cps.take s) := by
  rw [← encode_append]
  congr 1
  unfold Spec.slice
  have := List.take_add (l := cps) (i := c) (j := s - c)
  rw [show c + (s - c) = s by omega] at this
  exact this.symm

/-! ### where the name of an entity reference is spelled -/

theorem splitBy_head_prefix (l : Bytes) (d : Nat) (name r : Bytes) (rs : List Bytes)
    (h : splitBy l d = name :: r :: rs) : ∃ tl, l = name ++ d :: tl := by
  have := splitBy_join l d
  rw [h] at this
  exact ⟨List.intercalate [d] (r :: rs), by rw [← this]; simp [List.intercalate, List.intersperse]⟩

theorem refOf_entity_split (b n : Bytes) (f : Morph) (h : Spec.refOf b = some (.entity n f)) :
    n ≠ [] ∧ ∃ r rs, splitBy ((b.drop 2).dropLast) cBar = n :: r :: rs := by
  unfold Spec.refOf at h
  generalize splitBy ((b.drop 2).dropLast) cBar = toks at h ⊢
  match toks with
  | [] => simp at h
  | name :: rest =>
    simp only at h
    split at h
    · cases h
    · rename_i hlen
      match name with
      | [] => simp at h
      | c :: tl =>
        simp only at h
        split at h
        · split at h
          · cases h
          · injection h with h; injection h with h1 h2; subst h1
            match rest with
            | [] => simp at hlen
            | r :: rs => exact ⟨by simp, r, rs, rfl⟩
        · match rest with
          | [nominal] =>
            simp only at h
            split at h <;> cases h
          | [] => simp at h
          | _ :: _ :: _ => simp at h

/-- **refOf_entity_prefix**: the bytes `b` of an entity reference with name `n` are two bytes
(the `@{` of a candidate), then exactly the bytes of `n` (non-empty), then a `|`, then the rest. -/
theorem refOf_entity_prefix (b n : Bytes) (f : Morph) (h : Spec.refOf b = some (.entity n f)) :
    n ≠ [] ∧ ∃ tl, b = b.take 2 ++ n ++ cBar :: tl ∧ (b.take 2).length = 2 := by
  obtain ⟨hne, r, rs, hs⟩ := refOf_entity_split b n f h
  obtain ⟨tl, htl⟩ := splitBy_head_prefix _ _ _ _ _ hs
  refine ⟨hne, ?_⟩
  have hd : b.drop 2 ≠ [] := by
    intro e; rw [e] at htl; simp at htl
  have hsp : b.drop 2 = (b.drop 2).dropLast ++ [(b.drop 2).getLast hd] :=
    (List.dropLast_concat_getLast hd).symm
  refine ⟨tl ++ [(b.drop 2).getLast hd], ?_, ?_⟩
  · conv => lhs; rw [← List.take_append_drop 2 b, hsp, htl]
    simp
  · have : 0 < (b.drop 2).length := List.length_pos_iff.2 hd
    simp at this ⊢; omega

theorem refOf_entity_length (b n : Bytes) (f : Morph) (h : Spec.refOf b = some (.entity n f)) :
    2 + n.length < b.length := by
  obtain ⟨_, tl, h1, h2⟩ := refOf_entity_prefix b n f h
  have := congrArg List.length h1
  simp only [List.length_append, List.length_cons, h2] at this
  omega

/-- replacing `k` bytes two bytes after the start of the middle part `O` of `P ++ O ++ W`. -/
theorem replace_mid (P O W n' : Bytes) (k : Nat) (hk : 2 + k ≤ O.length) :
    (P ++ (O ++ W)).take (P.length + 2) ++ n' ++ (P ++ (O ++ W)).drop (P.length + 2 + k)
      = P ++ ((O.take 2 ++ n' ++ O.drop (2 + k)) ++ W) := by
  have h1 : (P ++ (O ++ W)).take (P.length + 2) = P ++ O.take 2 := by
    rw [List.take_append, List.take_of_length_le (by omega), List.take_append_of_le_length (by omega)]
    congr 2; omega
  have h2 : (P ++ (O ++ W)).drop (P.length + 2 + k) = O.drop (2 + k) ++ W := by
    rw [Nat.add_assoc, List.drop_append, List.drop_eq_nil_of_le (by omega), Nat.add_sub_cancel_left,
      List.drop_append_of_le_length hk, List.nil_append]
  rw [h1, h2]; simp [List.append_assoc]

/-- every entity item of the list spells its name inside its own range (true of the found
references: `refOf_entity_length`). -/
def NamesInside (cps : List Nat) (xs : List (Nat × Nat × RefData)) : Prop :=
  ∀ x ∈ xs, ∀ n f, x.2.2 = .entity n f → 2 + n.length ≤ (encode (Spec.slice cps x.1 x.2.1)).length

open Spec in
theorem translate_foldr (tr : Bytes → Option Bytes) (cps : List Nat) (hv : ∀ c ∈ cps, validCp c) :
    ∀ (xs : List (Nat × Nat × RefData)) (c : Nat),
      SortedFrom cps.length c (xs.map (fun x => (x.1, x.2.1))) → NamesInside cps xs →
      (xs.map rawRef).foldr (fun r acc => translateStep tr acc r) (encode cps) =
        encode (cps.take c) ++ weave cps c (xs.map (translatedItem tr cps)) := by
  intro xs
  induction xs with
  | nil =>
    intro c _ _
    simp only [List.map_nil, List.foldr_nil, weave]
    rw [← encode_append, List.take_append_drop]
  | cons x rest ih =>
    intro c hs hin
    obtain ⟨h1, h2, h3, h4⟩ := hs
    simp only at h1 h2 h3 h4
    simp only [List.map_cons, List.foldr_cons, weave]
    rw [ih x.2.1 h4 (fun y hy => hin y (by simp [hy]))]
    have hx := hin x (by simp)
    obtain ⟨s, e, d⟩ := x
    simp only at h1 h2 h3 h4 hx ⊢
    have hunch : encode (cps.take e) = encode (cps.take c) ++ (encode (slice cps c s) ++ encode (slice cps s e)) := by
      rw [← List.append_assoc, take_slice cps c s h1, take_slice cps s e (by omega)]
    have hve : ∀ y ∈ cps.take e, validCp y := fun y hy => hv y (List.mem_of_mem_take hy)
    have hle : (cps.take e).length = e := by rw [List.length_take]; omega
    cases d with
    | collab nom off =>
      simp only [translateStep, rawRef, translatedItem]
      rw [hunch]; simp [List.append_assoc]
    | entity n f =>
      simp only [translateStep, rawRef, translatedItem]
      cases htr : tr n with
      | none => simp only; rw [hunch]; simp [List.append_assoc]
      | some n' =>
        simp only
        by_cases hnn : n' = n
        · rw [if_pos hnn, if_pos hnn, hunch]; simp [List.append_assoc]
        · rw [if_neg hnn, if_neg hnn]
          rw [mkIter_prefix_bp (cps.take e) _ s hve (by omega)]
          have hbs : byteOffset (cps.take e) s = (encode (cps.take s)).length := by
            rw [byteOffset_take cps e s (by omega)]; rfl
          rw [hbs]
          -- the text so far: prefix up to `s`, the original reference, the already woven tail
          have hsplit : encode (cps.take e) ++ weave cps e (rest.map (translatedItem tr cps)) =
              encode (cps.take s) ++ (encode (slice cps s e) ++ weave cps e (rest.map (translatedItem tr cps))) := by
            rw [← take_slice cps s e (by omega), List.append_assoc]
          rw [hsplit]
          have hA := take_slice cps c s h1
          have hlen : 2 + n.length ≤ (encode (slice cps s e)).length := hx n f rfl
          rw [replace_mid _ _ _ n' n.length hlen, ← hA]
          simp only [List.append_assoc]

/-! ### resolutions are well-formed UTF-8 when the context's terms are -/

/-- well-formed UTF-8: the encoding of a list of scalar values. -/
def WfBytes (b : Bytes) : Prop := ∃ r : List Nat, (∀ c ∈ r, validCp c) ∧ b = encode r

theorem wf_nil : WfBytes [] := ⟨[], by simp, rfl⟩

theorem wf_append (a b : Bytes) (ha : WfBytes a) (hb : WfBytes b) : WfBytes (a ++ b) := by
  obtain ⟨ra, h1, rfl⟩ := ha
  obtain ⟨rb, h2, rfl⟩ := hb
  refine ⟨ra ++ rb, ?_, (encode_append ra rb).symm⟩
  intro c hc
  rcases List.mem_append.1 hc with hc | hc
  · exact h1 c hc
  · exact h2 c hc

theorem encode_ascii (l : List Nat) (h : ∀ c ∈ l, c < 128) : encode l = l := by
  induction l with
  | nil => rfl
  | cons c rest ih =>
    have hc : c < 128 := h c (by simp)
    simp only [encode, encodeCp, hc, if_true, List.singleton_append]
    rw [ih (fun x hx => h x (by simp [hx]))]

theorem wf_ascii (l : Bytes) (h : ∀ c ∈ l, c < 128) : WfBytes l :=
  ⟨l, fun c hc => by have := h c hc; unfold validCp; omega, (encode_ascii l h).symm⟩

theorem splitGo_push (d : Nat) (bs rest cur : Bytes) (h : d ∉ bs) :
    splitGo d (bs ++ rest) cur = splitGo d rest (bs.reverse ++ cur) := by
  induction bs generalizing cur with
  | nil => rfl
  | cons b bs ih =>
    have hb : ¬ (b = d) := fun e => h (by simp [e])
    simp only [List.cons_append, splitGo, hb, if_false]
    rw [ih (b :: cur) (fun hm => h (by simp [hm]))]
    simp

theorem not_mem_encodeCp (c d : Nat) (hd : d < 128) (hne : c ≠ d) : d ∉ encodeCp c := by
  unfold encodeCp
  split
  · simp; omega
  · split
    · simp; omega
    · split
      · simp; omega
      · simp; omega

/-- splitting well-formed text at an ASCII delimiter gives well-formed pieces. -/
theorem splitGo_wf (d : Nat) (hd : d < 128) : ∀ (l acc : List Nat),
    (∀ c ∈ l, validCp c) → (∀ c ∈ acc, validCp c) →
    ∀ p ∈ splitGo d (encode l) (encode acc).reverse, WfBytes p := by
  intro l
  induction l with
  | nil =>
    intro acc _ hacc p hp
    simp only [encode, splitGo, List.reverse_reverse, List.mem_singleton] at hp
    subst hp
    exact ⟨acc, hacc, rfl⟩
  | cons c rest ih =>
    intro acc hl hacc p hp
    have hrest : ∀ x ∈ rest, validCp x := fun x hx => hl x (by simp [hx])
    by_cases hcd : c = d
    · subst hcd
      have : encodeCp c = [c] := by simp [encodeCp, hd]
      simp only [encode_cons, this, List.singleton_append, splitGo, if_true, List.reverse_reverse,
        List.mem_cons] at hp
      rcases hp with rfl | hp
      · exact ⟨acc, hacc, rfl⟩
      · exact ih [] hrest (by simp) p (by simpa [encode] using hp)
    · rw [encode_cons, splitGo_push d _ _ _ (not_mem_encodeCp c d hd hcd)] at hp
      have e : (encodeCp c).reverse ++ (encode acc).reverse = (encode (acc ++ [c])).reverse := by
        rw [encode_append]; simp [encode]
      rw [e] at hp
      apply ih (acc ++ [c]) hrest _ p hp
      intro x hx
      rcases List.mem_append.1 hx with hx | hx
      · exact hacc x hx
      · simp only [List.mem_singleton] at hx; subst hx; exact hl x (by simp)

theorem splitBy_wf (d : Nat) (hd : d < 128) (l : List Nat) (hl : ∀ c ∈ l, validCp c) :
    ∀ p ∈ splitBy (encode l) d, WfBytes p := by
  have := splitGo_wf d hd l [] hl (by simp)
  simpa [splitBy, encode] using this

theorem natDigitsGo_ascii : ∀ (fuel n : Nat) (acc : Bytes), (∀ c ∈ acc, c < 128) →
    ∀ c ∈ natDigitsGo fuel n acc, c < 128 := by
  intro fuel
  induction fuel with
  | zero => intro n acc h; simpa [natDigitsGo] using h
  | succ fuel ih =>
    intro n acc h
    unfold natDigitsGo
    split
    · intro c hc
      rcases List.mem_cons.1 hc with rfl | hc
      · omega
      · exact h c hc
    · apply ih
      intro c hc
      rcases List.mem_cons.1 hc with rfl | hc
      · omega
      · exact h c hc

theorem intToDec_ascii (v : Int) : ∀ c ∈ intToDec v, c < 128 := by
  unfold intToDec natToDec
  split
  · intro c hc
    rcases List.mem_cons.1 hc with rfl | hc
    · decide
    · exact natDigitsGo_ascii _ _ [] (by simp) c hc
  · exact natDigitsGo_ascii _ _ [] (by simp)

/-- the terms of the context have well-formed texts. -/
def CtxWellFormed (ctx : Ctx) : Prop :=
  ∀ n t, ctx n = some t → WfBytes t.str ∧ ∀ fs ∈ t.manual, WfBytes fs.2

theorem manualLookup_mem : ∀ (m : List (Morph × Bytes)) (f : Morph) (s : Bytes),
    manualLookup m f = some s → ∃ fs ∈ m, fs.2 = s := by
  intro m
  induction m with
  | nil => intro f s h; simp [manualLookup] at h
  | cons kv rest ih =>
    intro f s h
    obtain ⟨k, v⟩ := kv
    unfold manualLookup at h
    split at h
    · injection h with h; exact ⟨(k, v), by simp, h⟩
    · obtain ⟨fs, h1, h2⟩ := ih f s h; exact ⟨fs, by simp [h1], h2⟩

theorem getForm_wf (t : Term) (f : Morph) (h1 : WfBytes t.str) (h2 : ∀ fs ∈ t.manual, WfBytes fs.2) :
    WfBytes (t.getForm f) := by
  unfold Term.getForm
  cases hm : manualLookup t.manual f with
  | some s =>
    obtain ⟨fs, hfs, e⟩ := manualLookup_mem _ _ _ hm
    simp only; rw [← e]; exact h2 fs hfs
  | none =>
    simp only
    split
    · cases hm2 : manualLookup t.manual [25, 30] with
      | some s =>
        obtain ⟨fs, hfs, e⟩ := manualLookup_mem _ _ _ hm2
        simp only; rw [← e]; exact h2 fs hfs
      | none => exact h1
    · exact h1

theorem emptyRefCheck_wf (b : Bytes) (h : WfBytes b) : WfBytes (emptyRefCheck b) := by
  unfold emptyRefCheck
  split
  · exact wf_ascii _ (by decide)
  · exact h

theorem resolveEntity_wf (ctx : Ctx) (hctx : CtxWellFormed ctx) (n : Bytes) (f : Morph) (hn : WfBytes n) :
    WfBytes (resolveEntity ctx n f) := by
  unfold resolveEntity
  split
  · exact emptyRefCheck_wf _ hn
  · cases hc : ctx n with
    | none =>
      simp only
      exact wf_append _ _ (wf_append _ _ (wf_ascii _ (by decide)) hn) (wf_ascii _ (by decide))
    | some t =>
      obtain ⟨h1, h2⟩ := hctx n t hc
      simp only
      split
      · exact emptyRefCheck_wf _ h1
      · exact emptyRefCheck_wf _ (getForm_wf t f h1 h2)

theorem resolveCollab_wf (nom : Bytes) (off : Int) (m : Option Bytes) (hn : WfBytes nom) :
    WfBytes (resolveCollab nom off m) := by
  unfold resolveCollab
  split
  · exact emptyRefCheck_wf _ hn
  · cases m with
    | none =>
      simp only
      exact wf_append _ _ (wf_append _ _ (wf_append _ _ (wf_append _ _ (wf_ascii _ (by decide)) hn)
        (wf_ascii _ (by decide))) (wf_ascii _ (intToDec_ascii off))) (wf_ascii _ (by decide))
    | some _ => exact emptyRefCheck_wf _ hn

/-- the byte string a reference carries from its spelling: entity name / collaboration nominal. -/
def RefData.nameBytes : RefData → Bytes
  | .entity n _ => n
  | .collab nom _ => nom

theorem refOf_fields (b : Bytes) (d : RefData) (h : Spec.refOf b = some d) :
    d.nameBytes ∈ fieldsOf b := by
  unfold Spec.refOf at h
  unfold fieldsOf
  generalize splitBy ((b.drop 2).dropLast) cBar = toks at h
  match toks with
  | [] => simp at h
  | name :: rest =>
    simp only at h
    split at h
    · cases h
    · match name with
      | [] => simp at h
      | c :: tl =>
        simp only at h
        split at h
        · split at h
          · cases h
          · injection h with h; subst h; simp [RefData.nameBytes]
        · match rest with
          | [nominal] =>
            simp only at h
            split at h
            · injection h with h; subst h; simp [RefData.nameBytes]
            · cases h
          | [] => simp at h
          | _ :: _ :: _ => simp at h

theorem getElem?_slice (cps : List Nat) (s e i : Nat) (hi : i < e - s) :
    (Spec.slice cps s e)[i]? = cps[s + i]? := by
  unfold Spec.slice
  rw [List.getElem?_take_of_lt hi, List.getElem?_drop]

theorem cand_inner (L : List Nat) (h3 : 3 ≤ L.length) (h0 : L[0]? = some cAt) (h1 : L[1]? = some cOpen)
    (hl : L[L.length - 1]? = some cClose) :
    ((encode L).drop 2).dropLast = encode ((L.drop 2).dropLast) := by
  match L with
  | a :: b :: M =>
    simp only [List.getElem?_cons_zero, Option.some.injEq] at h0
    simp only [List.getElem?_cons_succ, List.getElem?_cons_zero, Option.some.injEq] at h1
    subst h0; subst h1
    have hM : M ≠ [] := by intro e; subst e; simp at h3
    have hpos : 0 < M.length := List.length_pos_iff.2 hM
    have hlast : M.getLast hM = cClose := by
      rw [List.getLast_eq_getElem]
      simp only [List.length_cons] at hl
      rw [show M.length + 1 + 1 - 1 = (M.length - 1) + 1 + 1 by omega] at hl
      simp only [List.getElem?_cons_succ] at hl
      rw [List.getElem?_eq_getElem (by omega)] at hl
      exact Option.some.inj hl
    have hsplit : M = M.dropLast ++ [cClose] := by
      rw [← hlast]; exact (List.dropLast_concat_getLast hM).symm
    have e1 : encode (cAt :: cOpen :: M) = cAt :: cOpen :: encode M := by
      simp [encode, encodeCp, cAt, cOpen]
    have e2 : encode M = encode M.dropLast ++ [cClose] := by
      conv => lhs; rw [hsplit, encode_append]
      simp [encode, encodeCp, cClose]
    simp only [e1, List.drop_succ_cons, List.drop_zero]
    rw [e2, List.dropLast_concat]

theorem cand_fields_wf (cps : List Nat) (hv : ∀ c ∈ cps, validCp c) (se : Nat × Nat)
    (hd : Delimited cps se) : ∀ p ∈ fieldsOf (encode (Spec.slice cps se.1 se.2)), WfBytes p := by
  obtain ⟨h1, h2, h3, h4, h5⟩ := hd
  have hlen := slice_length cps se.1 se.2 (by omega) h2
  unfold fieldsOf
  rw [cand_inner (Spec.slice cps se.1 se.2) (by omega)
    (by rw [getElem?_slice cps _ _ 0 (by omega)]; simpa using h3)
    (by rw [getElem?_slice cps _ _ 1 (by omega)]; exact h4)
    (by rw [hlen, getElem?_slice cps _ _ _ (by omega), show se.1 + (se.2 - se.1 - 1) = se.2 - 1 by omega]; exact h5)]
  apply splitBy_wf cBar (by decide)
  intro c hc
  exact valid_slice cps hv _ _ c (List.mem_of_mem_drop (List.dropLast_subset _ hc))

open Spec in
theorem resolutionsFrom_mem (ctx : Ctx) (all : List RefData) : ∀ (ds : List RefData) (i : Nat),
    ∀ t ∈ resolutionsFrom ctx all i ds, ∃ j, ∃ d ∈ ds, t = resolutionOf ctx all j d := by
  intro ds
  induction ds with
  | nil => intro i t ht; simp [resolutionsFrom] at ht
  | cons d rest ih =>
    intro i t ht
    simp only [resolutionsFrom, List.mem_cons] at ht
    rcases ht with rfl | ht
    · exact ⟨i, d, by simp, rfl⟩
    · obtain ⟨j, d', hd', e⟩ := ih (i + 1) t ht
      exact ⟨j, d', by simp [hd'], e⟩

/-- a candidate's bytes start with `@{`. -/
theorem cand_take2 (cps : List Nat) (se : Nat × Nat) (hd : Delimited cps se) :
    (encode (Spec.slice cps se.1 se.2)).take 2 = [cAt, cOpen] := by
  obtain ⟨h1, h2, h3, h4, h5⟩ := hd
  have hlen := slice_length cps se.1 se.2 (by omega) h2
  have g0 : (Spec.slice cps se.1 se.2)[0]? = some cAt := by
    rw [getElem?_slice cps _ _ 0 (by omega)]; simpa using h3
  have g1 : (Spec.slice cps se.1 se.2)[1]? = some cOpen := by
    rw [getElem?_slice cps _ _ 1 (by omega)]; exact h4
  match hL : Spec.slice cps se.1 se.2 with
  | [] => rw [hL] at g0; simp at g0
  | [_] => rw [hL] at g1; simp at g1
  | a :: b :: M =>
    rw [hL] at g0 g1
    simp only [List.getElem?_cons_zero, Option.some.injEq] at g0
    simp only [List.getElem?_cons_succ, List.getElem?_cons_zero, Option.some.injEq] at g1
    subst g0; subst g1
    simp [encode, encodeCp, cAt, cOpen]

end CCVerif.Refs
