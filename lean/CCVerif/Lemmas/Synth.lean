import CCVerif.Model.Synth
import CCVerif.Lemmas.Equate
/-!
Lemmas about the model of `BinarySynthes` (C12): `ResetAliases` keeps the uids and makes the
aliases pairwise distinct; `TranslateEquations` keeps the keys of the table distinct and keeps
every equation, possibly turned round. Core Lean only.
-/
namespace CCVerif.Synth
open CCVerif.Translation CCVerif.Dedup CCVerif.Merge CCVerif.Equate

/-! ### `ResetAliases` -/

theorem uids_resetAliases {g : Names} {l r : Schema} (h : resetAliases g l = some r) : uids r = uids l := by
  unfold resetAliases at h
  split at h
  · cases h
  · cases h
    simp [uids, List.map_map, Function.comp_def, substAliases]

/-- invariant of the loop of `ResetAliases` over the prefix `ldone` -/
structure RInv (ldone : Schema) (st : RState) : Prop where
  nodup : st.taken.Nodup
  keys : ∀ x ∈ st.subs.map (·.1), x ∈ aliases ldone
  names : ldone.map (fun c => ctxFn st.subs c.alias) = st.taken

theorem rinv_step {g : Names} {ldone : Schema} {st st' : RState} {c : Cst}
    (hi : RInv ldone st) (hA : (aliases (ldone ++ [c])).Nodup) (h : resetStep g st c = some st') :
    RInv (ldone ++ [c]) st' := by
  have hcA : c.alias ∉ aliases ldone := by
    have := List.nodup_append.1 (by simpa [aliases] using hA : (aliases ldone ++ [c.alias]).Nodup)
    intro hm; exact this.2.2 c.alias hm c.alias (by simp) rfl
  have hckey : c.alias ∉ st.subs.map (·.1) := fun hm => hcA (hi.keys _ hm)
  unfold resetStep at h
  simp only at h
  split at h
  · cases h
  · rename_i hn
    have hn' : g.newName st.taken c.kind ∉ st.taken := by simpa using hn
    cases h
    refine ⟨?_, ?_, ?_⟩
    · show (st.taken ++ [_]).Nodup
      rw [List.nodup_append]
      refine ⟨hi.nodup, by simp, ?_⟩
      intro a ha b hb
      have : b = g.newName st.taken c.kind := by simpa using hb
      rw [this]; exact fun e => hn' (e ▸ ha)
    · intro x hx
      simp only at hx
      have : x ∈ st.subs.map (·.1) ∨ x = c.alias := by
        split at hx
        · rw [List.map_append, List.mem_append] at hx
          rcases hx with h1 | h1
          · exact Or.inl h1
          · exact Or.inr (by simpa using h1)
        · exact Or.inl hx
      rcases this with h1 | rfl
      · simp only [aliases, List.map_append, List.mem_append]; exact Or.inl (hi.keys _ h1)
      · simp [aliases]
    · show (ldone ++ [c]).map (fun d => ctxFn
          (if c.alias ≠ g.newName st.taken c.kind then st.subs ++ [(c.alias, g.newName st.taken c.kind)] else st.subs) d.alias)
        = st.taken ++ [g.newName st.taken c.kind]
      rw [List.map_append]
      have happ : ∀ (a a' b b' : List String), a = a' → b = b' → a ++ b = a' ++ b' := by
        intro a a' b b' h1 h2; rw [h1, h2]
      apply happ
      · rw [← hi.names]
        apply List.map_congr_left
        intro d hd
        split
        · exact ctxFn_append_ne _ _ _ _ (fun e => hcA (e ▸ List.mem_map.2 ⟨d, hd, rfl⟩))
        · rfl
      · simp only [List.map_cons, List.map_nil, List.cons.injEq, and_true]
        split
        · exact ctxFn_append_new _ _ _ hckey
        · rename_i heq
          have heq' : c.alias = g.newName st.taken c.kind := by simpa using heq
          rw [ctxFn_not_key _ _ hckey]; exact heq'

theorem rinv_fold {g : Names} :
    ∀ (l ldone : Schema) (st st' : RState), RInv ldone st → (aliases (ldone ++ l)).Nodup →
      l.foldlM (resetStep g) st = some st' → RInv (ldone ++ l) st' := by
  intro l
  induction l with
  | nil => intro ldone st st' hi _ h; simp only [List.foldlM_nil] at h; cases h; simpa using hi
  | cons c rest ih =>
    intro ldone st st' hi hA h
    rw [List.foldlM_cons] at h
    cases hs : resetStep g st c with
    | none => rw [hs] at h; cases h
    | some st1 =>
      rw [hs] at h
      have e : ldone ++ c :: rest = (ldone ++ [c]) ++ rest := by simp
      rw [e] at hA ⊢
      have hA1 : (aliases (ldone ++ [c])).Nodup := by
        have : (aliases (ldone ++ [c]) ++ aliases rest).Nodup := by simpa [aliases] using hA
        exact (List.nodup_append.1 this).1
      exact ih _ _ _ (rinv_step hi hA1 hs) hA h

theorem aliases_resetAliases_nodup {g : Names} {l r : Schema} (hA : (aliases l).Nodup)
    (h : resetAliases g l = some r) : (aliases r).Nodup := by
  unfold resetAliases at h
  split at h
  · cases h
  · rename_i st hst
    cases h
    have h0 : RInv [] ({} : RState) := { nodup := List.nodup_nil, keys := (by intro x hx; cases hx), names := rfl }
    have hi := rinv_fold l [] {} st h0 (by simpa using hA) hst
    have : aliases (l.map (substAliases (ctxFn st.subs))) = st.taken := by
      rw [← hi.names]; simp [aliases, List.map_map, Function.comp_def, substAliases]
    rw [this]; exact hi.nodup

/-! ### `SwapKeyVal`, `TranslateEquations` -/

/-- every equation of `eqs0` is in `t`, as it is or turned round -/
def Kept (eqs0 t : List Entry) : Prop :=
  ∀ e0 ∈ eqs0, ∃ e ∈ t, (e.key = e0.key ∧ e.value = e0.value) ∨ (e.key = e0.value ∧ e.value = e0.key)

theorem entry_eq_of_key {t : List Entry} (hn : (tkeys t).Nodup) {a b : Entry} (ha : a ∈ t) (hb : b ∈ t)
    (h : a.key = b.key) : a = b := by
  induction t with
  | nil => cases ha
  | cons x xs ih =>
    simp only [tkeys, List.map_cons, List.nodup_cons] at hn
    rcases List.mem_cons.1 ha with rfl | ha' <;> rcases List.mem_cons.1 hb with rfl | hb'
    · rfl
    · exact absurd (h ▸ List.mem_map.2 ⟨b, hb', rfl⟩) hn.1
    · exact absurd (h ▸ List.mem_map.2 ⟨a, ha', rfl⟩ : Entry.key _ ∈ _) hn.1
    · exact ih hn.2 ha' hb'

theorem swapKeyVal_keeps {eqs0 t : List Entry} (hn : (tkeys t).Nodup) (hk : Kept eqs0 t) (key : Nat) :
    (tkeys (swapKeyVal t key)).Nodup ∧ Kept eqs0 (swapKeyVal t key) := by
  unfold swapKeyVal
  cases hf : t.find? (fun x => x.key == key) with
  | none => exact ⟨hn, hk⟩
  | some e =>
    simp only
    have hem := List.mem_of_find?_eq_some hf
    have hek : e.key = key := by simpa using List.find?_some hf
    split
    · exact ⟨hn, hk⟩
    · rename_i hany
      have hnew : e.value ∉ tkeys t := by
        intro hm
        rcases List.mem_map.1 hm with ⟨x, hx, hxe⟩
        exact hany (List.any_eq_true.2 ⟨x, hx, by simp [hxe]⟩)
      constructor
      · show (tkeys (t.filter (fun x => x.key != key) ++ [_])).Nodup
        unfold tkeys
        rw [List.map_append, List.nodup_append]
        refine ⟨List.Nodup.sublist (List.filter_sublist.map _) hn, by simp, ?_⟩
        intro a ha b hb
        have hb' : b = e.value := by simpa using hb
        rw [hb']
        intro eab
        rcases List.mem_map.1 ha with ⟨x, hx, hxa⟩
        exact hnew (List.mem_map.2 ⟨x, (List.mem_filter.1 hx).1, hxa.trans eab⟩)
      · intro e0 he0
        rcases hk e0 he0 with ⟨e1, he1, hrel⟩
        by_cases h1 : e1.key = key
        · have : e1 = e := entry_eq_of_key hn he1 hem (h1.trans hek.symm)
          subst this
          refine ⟨_, List.mem_append_right _ (List.mem_singleton.2 rfl), ?_⟩
          rcases hrel with ⟨ha, hb⟩ | ⟨ha, hb⟩
          · exact Or.inr ⟨hb, by simp only; rw [← hek]; exact ha⟩
          · exact Or.inl ⟨hb, by simp only; rw [← hek]; exact ha⟩
        · exact ⟨e1, List.mem_append_left _ (List.mem_filter.2 ⟨he1, by simpa using h1⟩), hrel⟩

theorem foldl_swap_keeps {eqs0 : List Entry} (ks : List Nat) :
    ∀ t, (tkeys t).Nodup → Kept eqs0 t →
      (tkeys (ks.foldl swapKeyVal t)).Nodup ∧ Kept eqs0 (ks.foldl swapKeyVal t) := by
  induction ks with
  | nil => intro t hn hk; exact ⟨hn, hk⟩
  | cons k rest ih =>
    intro t hn hk
    simp only [List.foldl_cons]
    have := swapKeyVal_keeps hn hk k
    exact ih _ this.1 this.2

/-- the table handed to `Equate`: keys distinct, and for every equation `key = value` of the
synthesis an entry that equates `key` with the image of `value` under the merge, in one direction
or the other -/
theorem translateEquations_keeps (m : Schema) (trM : Tr) (eqs : List Entry) (hn : (tkeys eqs).Nodup) :
    (tkeys (translateEquations m trM eqs)).Nodup ∧
    ∀ e0 ∈ eqs, ∃ e ∈ translateEquations m trM eqs,
      (e.key = e0.key ∧ e.value = image trM e0.value) ∨ (e.key = image trM e0.value ∧ e.value = e0.key) := by
  unfold translateEquations
  simp only
  have hn1 : (tkeys (eqs.map fun e => { e with value := (lookup trM e.value).getD e.value })).Nodup := by
    simpa [tkeys, List.map_map, Function.comp_def] using hn
  have := foldl_swap_keeps (eqs0 := eqs.map fun e => { e with value := (lookup trM e.value).getD e.value })
    (((eqs.map fun e => { e with value := (lookup trM e.value).getD e.value }).filter (needsSwap m)).map (·.key))
    _ hn1 (fun e0 he0 => ⟨e0, he0, Or.inl ⟨rfl, rfl⟩⟩)
  refine ⟨this.1, ?_⟩
  intro e0 he0
  exact this.2 _ (List.mem_map.2 ⟨e0, he0, rfl⟩)

end CCVerif.Synth
