import CCVerif.Lemmas.ExtractGen
import CCVerif.Lemmas.RenameGenFrag
/-!
C13, copy step: the proviso `NoCapture` makes the renaming of `ResetAliases` injective on the names of
the selection (`renOf_injOn_names`); an injective map on a finite list of names extends to a bijection
of names (`exists_bij_of_injOn`: a product of transpositions), so for the fragment analysis — every
bijection is admissible — the preservation theorem needs no renaming as a hypothesis.
-/
namespace CCVerif.ExtractGen
open CCVerif CCVerif.SchemaGen
open CCVerif.Schema (Kind lookup)

variable {D I : Type} {A : Analysis D I} {g : Names}

/-- no definition of the selection mentions a name that resolved to NOTHING in the source and is one of the
aliases handed out to the result (recorded finding C13-unresolved-capture) -/
def NoCapture (A : Analysis D I) (g : Names) (src : St D I) (cs : List (Cst D)) : Prop :=
  ∀ c ∈ cs, ∀ n ∈ A.mentions c.defn, findAliasL src.store n = none →
    n ∉ cs.map (fun d => renOf (aliasTable g cs) d.alias)

theorem inj_of_nodup_map {α β : Type} {f : α → β} : ∀ {l : List α}, (l.map f).Nodup →
    ∀ x ∈ l, ∀ y ∈ l, f x = f y → x = y
  | [], _, x, hx, _, _, _ => by cases hx
  | a :: l, hn, x, hx, y, hy, e => by
    rw [List.map_cons, List.nodup_cons] at hn
    rcases List.mem_cons.1 hx with h1 | h1 <;> rcases List.mem_cons.1 hy with h2 | h2
    · rw [h1, h2]
    · exact absurd (List.mem_map.2 ⟨y, h2, by rw [← e, h1]⟩) hn.1
    · exact absurd (List.mem_map.2 ⟨x, h1, by rw [e, h2]⟩) hn.1
    · exact inj_of_nodup_map hn.2 x h1 y h2 e

/-- under closure and `NoCapture` the table of `ResetAliases` is injective on the names of the selection -/
theorem renOf_injOn_names {src : St D I} (hn : (uids src.store).Nodup) (hd : AliasesDistinct src)
    {cs : List (Cst D)} (hsub : ∀ c ∈ cs, c ∈ src.store) {r : ResetSt} (hinv : ResetInv g cs r)
    (htab : r.subs = aliasTable g cs) (hcl : Closed A src cs) (hnc : NoCapture A g src cs) :
    ∀ a ∈ namesOfG A cs, ∀ b ∈ namesOfG A cs,
      renOf (aliasTable g cs) a = renOf (aliasTable g cs) b → a = b := by
  unfold NoCapture at hnc
  rw [← htab] at hnc ⊢
  have hclass : ∀ n ∈ namesOfG A cs, n ∈ cs.map (·.alias) ∨
      (renOf r.subs n = n ∧ n ∉ cs.map (fun d => renOf r.subs d.alias)) := by
    intro n hn'
    rcases List.mem_append.1 hn' with h | h
    · exact Or.inl h
    · obtain ⟨c, hc, hm⟩ := List.mem_flatMap.1 h
      cases hf : findAliasL src.store n with
      | some v =>
        left
        obtain ⟨c', hc', hu, ha⟩ := findAliasL_mem hf
        obtain ⟨c'', hc'', hu''⟩ := mem_uids.1 (hcl c hc n hm v hf)
        have e := eq_of_uid_eq hn (hsub c'' hc'') hc' (hu''.trans hu.symm)
        exact List.mem_map.2 ⟨c'', hc'', by rw [e, ha]⟩
      | none =>
        right
        have hna : n ∉ cs.map (·.alias) := by
          intro hm'
          obtain ⟨d, hd', e⟩ := List.mem_map.1 hm'
          have := RSModelGen.findAliasL_of_distinct hd (hsub d hd')
          rw [e, hf] at this
          cases this
        refine ⟨?_, hnc c hc n hm hf⟩
        unfold renOf
        rw [lookup_none_of_keys (fun p hp e => hna (by rw [← e]; exact hinv.keys p hp))]
        rfl
  intro a ha b hb e
  rcases hclass a ha with h1 | ⟨h1, h1'⟩ <;> rcases hclass b hb with h2 | ⟨h2, h2'⟩
  · obtain ⟨c, hc, rfl⟩ := List.mem_map.1 h1
    obtain ⟨d, hd', rfl⟩ := List.mem_map.1 h2
    rw [inj_of_nodup_map hinv.nodup c hc d hd' e]
  · exfalso
    rw [h2] at e
    obtain ⟨c, hc, rfl⟩ := List.mem_map.1 h1
    exact h2' (List.mem_map.2 ⟨c, hc, e⟩)
  · exfalso
    rw [h1] at e
    obtain ⟨d, hd', rfl⟩ := List.mem_map.1 h2
    exact h1' (List.mem_map.2 ⟨d, hd', e.symm⟩)
  · rw [← h1, ← h2, e]

/-- a map that is injective on a finite list of names extends to a bijection of names -/
theorem exists_bij_of_injOn (ρ : String → String) : ∀ L : List String,
    (∀ a ∈ L, ∀ b ∈ L, ρ a = ρ b → a = b) → ∃ b : Bij, ∀ n ∈ L, b.f n = ρ n
  | [], _ => ⟨Bij.id, fun n hn => by cases hn⟩
  | n :: L, h => by
    obtain ⟨b', hb'⟩ := exists_bij_of_injOn ρ L
      (fun a ha b hb => h a (List.mem_cons_of_mem _ ha) b (List.mem_cons_of_mem _ hb))
    refine ⟨⟨fun x => swapName (b'.f n) (ρ n) (b'.f x), fun x => b'.g (swapName (b'.f n) (ρ n) x), ?_, ?_⟩, ?_⟩
    · intro x
      simp only [swapName_invol, b'.gf]
    · intro x
      simp only [b'.fg, swapName_invol]
    · intro m hm
      show swapName (b'.f n) (ρ n) (b'.f m) = ρ m
      by_cases e : m = n
      · subst e
        exact swapName_left _ _
      · have hmL : m ∈ L := by
          rcases List.mem_cons.1 hm with h1 | h1
          · exact absurd h1 e
          · exact h1
        rw [hb' m hmL]
        apply swapName_other
        · intro e2
          rw [← hb' m hmL] at e2
          exact e (b'.inj e2)
        · intro e2
          exact e (h m hm n (by simp) e2)

variable [DecidableEq D]

/-- **status / typification preserved, with the proviso explicit.** Under closure and `NoCapture`, if
the analysis admits the renaming of `ResetAliases` whenever it is injective on the names of the selection
(`hadm`; for the fragment every injective renaming is admitted), every result entry is the source entry
renamed. -/
theorem copyOut_info_noCapture (hA : Lawful A) (Q : Equivariance A) {src : St D I} (hwf : WF A src)
    (hok : SourceOk g src) {sel : List Nat} (hsel : sel.Nodup) {cs : List (Cst D)}
    (hcs : selectedCsts src sel = some cs) (hbf : BasesFirst cs) {res : Sch D I}
    (h : copyOut A g src sel = some res) (hcl : Closed A src cs)
    (hsk : ∀ s1, (∀ x, x ∈ s1 ↔ x ∈ cs) → SkelLocalOn A src.store s1) (hnc : NoCapture A g src cs)
    (hadm : (∀ a ∈ namesOfG A cs, ∀ b ∈ namesOfG A cs,
        renOf (aliasTable g cs) a = renOf (aliasTable g cs) b → a = b) →
      ∃ r : Q.Ren, (∀ c ∈ cs, Q.Good r c) ∧ ∀ n ∈ namesOfG A cs, Q.app r n = renOf (aliasTable g cs) n) :
    ∃ r : Q.Ren, (∀ c ∈ cs, Q.Good r c) ∧ (∀ n ∈ namesOfG A cs, Q.app r n = renOf (aliasTable g cs) n) ∧
      ∀ c ∈ cs, res.st.infoFor A c.uid = Q.renI r (src.infoFor A c.uid) := by
  obtain ⟨st1, r0, _, _, hinv, htab, _, _⟩ := copyOut_spec hA hok hsel hcs hbf h
  obtain ⟨_, hat⟩ := selectedCsts_spec sel cs hcs
  have hsub : ∀ c ∈ cs, c ∈ src.store := fun c hc => (mem_of_at (hat c hc)).1
  obtain ⟨r, hg, hagree⟩ := hadm (renOf_injOn_names hwf.base.nodup hok.distinct hsub hinv htab hcl hnc)
  exact ⟨r, hg, hagree, copyOut_info hA Q hwf hok hsel hcs hbf h hcl hsk r hg hagree⟩

/-- the fragment analysis ignores the skeleton -/
theorem frag_skelLocal (s s' : List (Cst Schema.Def)) : SkelLocalOn fragA s s' := fun _ _ _ _ => rfl

/-- the fragment instance: no renaming and no admissibility hypothesis; the result entry has the same
status and the typification with the aliases substituted by the table of `ResetAliases` -/
theorem copyOut_info_frag {src : St Schema.Def Schema.Info} (hwf : WF fragA src) (hok : SourceOk g src)
    {sel : List Nat} (hsel : sel.Nodup) {cs : List (Cst Schema.Def)} (hcs : selectedCsts src sel = some cs)
    (hbf : BasesFirst cs) {res : Sch Schema.Def Schema.Info} (h : copyOut fragA g src sel = some res)
    (hcl : Closed fragA src cs) (hnc : NoCapture fragA g src cs) :
    ∃ b : Bij, (∀ n ∈ namesOfG fragA cs, b.f n = renOf (aliasTable g cs) n) ∧
      ∀ c ∈ cs, res.st.infoFor fragA c.uid = renInfo b.f (src.infoFor fragA c.uid) := by
  obtain ⟨b, _, h1, h2⟩ := copyOut_info_noCapture fragA_lawful fragEquivariance hwf hok hsel hcs hbf h hcl
    (fun s1 _ => frag_skelLocal _ s1) hnc
    (fun hinj => by
      obtain ⟨b, hb⟩ := exists_bij_of_injOn (renOf (aliasTable g cs)) (namesOfG fragA cs) hinj
      exact ⟨b, fun _ _ => trivial, hb⟩)
  exact ⟨b, h1, h2⟩

end CCVerif.ExtractGen
