import CCVerif.Lemmas.RenameGen
/-!
C12, the SEMANTIC clause, generic level (no equations): the analysis of a merged store.

For ANY per-constituent analysis `A` of the generic machine `Model/SchemaGen.lean` that is
* lawful (`Lawful A`, the frame / strictness laws of C07),
* equivariant (`Q : Equivariance A`, the law of C08), and
* content-only (`ContentOnly A`, NEW and explicit: the analysis reads neither the uid of the
  constituent nor the store-without-definitions — `Lawful` and `Equivariance` leave both
  unrestricted, and a merge changes both; C11 already has the second half as `skel_indep`),

the from-scratch entry (`entryOf`: what `UpdateState` of the C07 machine computes on that content)
of a constituent in a store `s` that contains the store `s1` unchanged and a renamed, re-numbered
copy of the store `s2` is its entry in its own operand (renamed for a copy).

* `Emb` / `Val.emb` / `Final.emb` — a sub-store closed under resolved mentions, embedded with other
  uids into a larger store in which its mentions resolve alike, keeps its entries;
* `scratchOf`, `entryOf`, `FullyCorrect` — the analysis from scratch of a content;
* `MergeOf` — the shape of a merged store, with the proviso (`noCapture1/2`: no name that is
  mentioned and unresolved in an operand is an alias of the merged store);
* `merge_entries`, `merge_fully_correct`;
* `rename_entries`, `rename_fully_correct` — a store renamed by an admissible renaming
  (`ResetAliases`).
-/
namespace CCVerif.SchemaGen
open CCVerif CCVerif.Graph
open CCVerif.Schema (Kind)

variable {D I : Type} {A : Analysis D I}

/-- the analysis reads the constituent's alias, kind and definition and the context — not its uid and
not the store-without-definitions -/
structure ContentOnly (A : Analysis D I) : Prop where
  indep : ∀ (sk sk' : Skel) (ctx : String → Option I) (c : Cst D) (u' : Nat),
    A.analyse sk ctx c = A.analyse sk' ctx { c with uid := u' }

/-! ## embedding of a closed sub-store under a change of uids -/

/-- the constituents of `s` whose uid satisfies `P` occur in `s'` under the uid `t uid`, their
mentions resolve in `s'` as in `s` (up to `t`), `P` is closed under resolved mentions, and `t'`
undoes `t` on `P` -/
structure Emb (A : Analysis D I) (t t' : Nat → Nat) (P : Nat → Prop) (s s' : List (Cst D)) : Prop where
  mem : ∀ c ∈ s, P c.uid → ({ c with uid := t c.uid } : Cst D) ∈ s'
  res : ∀ c ∈ s, P c.uid → ∀ m ∈ A.mentions c.defn, findAliasL s' m = (findAliasL s m).map t
  closed : ∀ c ∈ s, P c.uid → ∀ m ∈ A.mentions c.defn, ∀ v, findAliasL s m = some v → P v
  linv : ∀ u, P u → t' (t u) = u

theorem Val.emb (hA : Lawful A) (hC : ContentOnly A) {t t' : Nat → Nat} {P : Nat → Prop}
    {s s' : List (Cst D)} (hE : Emb A t t' P s s') {u : Nat} {i : I} (h : Val A s u i) :
    P u → Val A s' (t u) i := by
  induction h with
  | @mk c jf hc hd hok ih =>
    intro hp
    have hctx : ∀ m ∈ A.mentions c.defn, ctxOf s' (fun v' => jf (t' v')) m = ctxOf s jf m := by
      intro m hm
      unfold ctxOf
      rw [hE.res c hc hp m hm]
      cases hf : findAliasL s m with
      | none => rfl
      | some v =>
        simp only [Option.map_some]
        rw [hE.linv v (hE.closed c hc hp m hm v hf)]
    have heq : A.analyse (skelOf s') (ctxOf s' (fun v' => jf (t' v'))) { c with uid := t c.uid } =
        A.analyse (skelOf s) (ctxOf s jf) c := by
      rw [hC.indep (skelOf s) (skelOf s') (ctxOf s jf) c (t c.uid)]
      exact hA.frame _ _ _ _ (fun m hm => Or.inl (hctx m hm))
    have := Val.mk (A := A) (s := s') (c := { c with uid := t c.uid }) (fun v' => jf (t' v'))
      (hE.mem c hc hp)
      (fun m hm v' hv' => by
        have hm' : m ∈ A.mentions c.defn := hm
        rw [hE.res c hc hp m hm'] at hv'
        cases hf : findAliasL s m with
        | none => rw [hf] at hv'; cases hv'
        | some v =>
          rw [hf] at hv'
          simp only [Option.map_some, Option.some.injEq] at hv'
          subst hv'
          have hpv := hE.closed c hc hp m hm' v hf
          show Val A s' (t v) (jf (t' (t v)))
          rw [hE.linv v hpv]
          exact ih m hm' v hf hpv)
      (by rw [heq]; exact hok)
    rw [heq] at this
    exact this

/-- a constituent of `s'` whose uid is the image of a `P`-uid of `s` is the copy -/
theorem Emb.preimage {t t' : Nat → Nat} {P : Nat → Prop} {s s' : List (Cst D)} (hE : Emb A t t' P s s')
    (hn' : (uids s').Nodup) {c' : Cst D} (hc' : c' ∈ s') {v : Nat} (hv : v ∈ uids s) (hp : P v)
    (e : c'.uid = t v) : ∃ c ∈ s, c.uid = v ∧ c' = { c with uid := t c.uid } := by
  obtain ⟨c, hc, rfl⟩ := mem_uids.1 hv
  exact ⟨c, hc, rfl, eq_of_uid_eq hn' hc' (hE.mem c hc hp) e⟩

/-- the embedding read backwards -/
theorem Emb.symm {t t' : Nat → Nat} {P : Nat → Prop} {s s' : List (Cst D)} (hE : Emb A t t' P s s')
    (hn' : (uids s').Nodup) :
    Emb A t' t (fun v' => ∃ v ∈ uids s, P v ∧ v' = t v) s' s where
  mem := by
    rintro c' hc' ⟨v, hv, hp, e⟩
    obtain ⟨c, hc, rfl, rfl⟩ := hE.preimage hn' hc' hv hp e
    show ({ c with uid := t' (t c.uid) } : Cst D) ∈ s
    rw [hE.linv _ hp]
    exact hc
  res := by
    rintro c' hc' ⟨v, hv, hp, e⟩ m hm
    obtain ⟨c, hc, rfl, rfl⟩ := hE.preimage hn' hc' hv hp e
    have hm' : m ∈ A.mentions c.defn := hm
    rw [hE.res c hc hp m hm']
    cases hf : findAliasL s m with
    | none => rfl
    | some w =>
      simp only [Option.map_some]
      rw [hE.linv w (hE.closed c hc hp m hm' w hf)]
  closed := by
    rintro c' hc' ⟨v, hv, hp, e⟩ m hm v' hv'
    obtain ⟨c, hc, rfl, rfl⟩ := hE.preimage hn' hc' hv hp e
    have hm' : m ∈ A.mentions c.defn := hm
    rw [hE.res c hc hp m hm'] at hv'
    cases hf : findAliasL s m with
    | none => rw [hf] at hv'; cases hv'
    | some w =>
      rw [hf] at hv'
      simp only [Option.map_some, Option.some.injEq] at hv'
      exact ⟨w, findAliasL_uids hf, hE.closed c hc hp m hm' w hf, hv'.symm⟩
  linv := by
    rintro v' ⟨v, _, hp, rfl⟩
    rw [hE.linv v hp]

/-- **the entries of an embedded closed sub-store are kept** -/
theorem Final.emb (hA : Lawful A) (hC : ContentOnly A) {t t' : Nat → Nat} {P : Nat → Prop}
    {s s' : List (Cst D)} (hE : Emb A t t' P s s') (hn' : (uids s').Nodup)
    {u : Nat} {i : I} (h : Final A s u i) (hp : P u) : Final A s' (t u) i := by
  obtain ⟨c, hc, hu, jf, hd, rfl⟩ := h
  subst hu
  have hctx : ∀ m ∈ A.mentions c.defn, ctxOf s' (fun v' => jf (t' v')) m = ctxOf s jf m := by
    intro m hm
    unfold ctxOf
    rw [hE.res c hc hp m hm]
    cases hf : findAliasL s m with
    | none => rfl
    | some v =>
      simp only [Option.map_some]
      rw [hE.linv v (hE.closed c hc hp m hm v hf)]
  refine ⟨{ c with uid := t c.uid }, hE.mem c hc hp, rfl, fun v' => jf (t' v'), ?_, ?_⟩
  · intro m hm v' hv'
    have hm' : m ∈ A.mentions c.defn := hm
    rw [hE.res c hc hp m hm'] at hv'
    cases hf : findAliasL s m with
    | none => rw [hf] at hv'; cases hv'
    | some v =>
      rw [hf] at hv'
      simp only [Option.map_some, Option.some.injEq] at hv'
      subst hv'
      have hpv := hE.closed c hc hp m hm' v hf
      show DepOk A s' (t v) (jf (t' (t v)))
      rw [hE.linv v hpv]
      rcases hd m hm' v hf with h1 | ⟨h1, h2⟩
      · exact Or.inl (h1.emb hA hC hE hpv)
      · refine Or.inr ⟨h1, fun j' hj' => h2 j' ?_⟩
        have := hj'.emb hA hC (hE.symm hn') ⟨v, findAliasL_uids hf, hpv, rfl⟩
        rw [hE.linv v hpv] at this
        exact this
  · rw [hC.indep (skelOf s) (skelOf s') (ctxOf s jf) c (t c.uid)]
    exact (hA.frame (skelOf s') _ _ ({ c with uid := t c.uid } : Cst D)
      (fun m hm => Or.inl (hctx m hm))).symm

/-! ## the analysis from scratch of a content -/

/-- `UpdateState` on the content `s` with nothing analysed yet -/
def scratchOf (A : Analysis D I) (s : List (Cst D)) : St D I :=
  ({ store := s, info := s.map (fun c => (c.uid, A.reset)), graph := [], invalid := true } : St D I).updateState A

/-- the entry `UpdateState` computes for `u` -/
def entryOf (A : Analysis D I) (s : List (Cst D)) (u : Nat) : I := (scratchOf A s).infoFor A u

/-- every constituent is analysed successfully -/
def FullyCorrect (A : Analysis D I) (s : List (Cst D)) : Prop := ∀ u ∈ uids s, A.ok (entryOf A s u) = true

instance (A : Analysis D I) (s : List (Cst D)) : Decidable (FullyCorrect A s) := by
  unfold FullyCorrect; infer_instance

theorem scratchOf_spec (hA : Lawful A) {s : List (Cst D)} (hn : (uids s).Nodup) :
    WF A (scratchOf A s) ∧ (scratchOf A s).store = s := by
  unfold scratchOf
  refine updateState_spec hA ⟨hn, fun u => ?_⟩ (Or.inl rfl)
  unfold St.hasInfo
  simp only [List.any_map, List.any_eq_true, Function.comp, beq_iff_eq]
  exact ⟨fun ⟨c, hc, e⟩ => mem_uids.2 ⟨c, hc, e⟩, fun h => mem_uids.1 h⟩

theorem entryOf_final (hA : Lawful A) {s : List (Cst D)} (hn : (uids s).Nodup) {u : Nat} (hu : u ∈ uids s) :
    Final A s u (entryOf A s u) := by
  obtain ⟨h1, h2⟩ := scratchOf_spec hA hn
  have := h1.sync u (by rw [h2]; exact hu)
  rw [h2] at this
  exact this

theorem entryOf_eq (hA : Lawful A) {s : List (Cst D)} (hn : (uids s).Nodup) {u : Nat} {i : I}
    (h : Final A s u i) : entryOf A s u = i := by
  obtain ⟨c, hc, hu, _⟩ := id h
  exact (entryOf_final hA hn (mem_uids.2 ⟨c, hc, hu⟩)).unique hA hn h

/-- the entries of any well-formed state of the C07 machine with that content are these -/
theorem entryOf_eq_infoFor (hA : Lawful A) {st : St D I} (h : WF A st) {u : Nat} (hu : u ∈ uids st.store) :
    entryOf A st.store u = st.infoFor A u :=
  entryOf_eq hA h.base.nodup (h.sync u hu)

/-! ## resolution in a store with distinct aliases -/

theorem findAliasL_of_mem {s : List (Cst D)} (hn : (s.map (·.alias)).Nodup) {c : Cst D} (hc : c ∈ s) :
    findAliasL s c.alias = some c.uid := by
  unfold findAliasL
  cases hf : s.find? (·.alias == c.alias) with
  | none =>
    have := List.find?_eq_none.1 hf c hc
    simp at this
  | some d =>
    have hd := List.mem_of_find?_eq_some hf
    have ha : d.alias = c.alias := by simpa using List.find?_some hf
    rw [eq_of_alias_eq hn hd hc ha]
    rfl

theorem findAliasL_none_iff {s : List (Cst D)} {a : String} :
    findAliasL s a = none ↔ ∀ c ∈ s, c.alias ≠ a := by
  unfold findAliasL
  rw [Option.map_eq_none_iff, List.find?_eq_none]
  simp

/-! ## the merged store -/

/-- `s` contains `s1` unchanged and, for every constituent of `s2`, the copy with uid `t uid`, alias
and definition renamed by `r`; uids and aliases of `s` are pairwise distinct; PROVISO: a name that an
operand mentions and does not resolve is no alias of `s` (for operand 2: the renamed name) -/
structure MergeOf (A : Analysis D I) (Q : Equivariance A) (r : Q.Ren) (t : Nat → Nat)
    (s1 s2 s : List (Cst D)) : Prop where
  nodupU : (uids s).Nodup
  nodupA : (s.map (·.alias)).Nodup
  left : ∀ c ∈ s1, c ∈ s
  right : ∀ c ∈ s2, (⟨t c.uid, Q.app r c.alias, c.kind, Q.renD r c.defn⟩ : Cst D) ∈ s
  good : ∀ c ∈ s2, Q.Good r c
  noCapture1 : ∀ c ∈ s1, ∀ m ∈ A.mentions c.defn, findAliasL s1 m = none → findAliasL s m = none
  noCapture2 : ∀ c ∈ s2, ∀ m ∈ A.mentions c.defn, findAliasL s2 m = none → findAliasL s (Q.app r m) = none

/-- a left inverse of `t` on a finite list of uids -/
def linvOn (t : Nat → Nat) (us : List Nat) (v' : Nat) : Nat := (us.find? (fun u => t u == v')).getD 0

theorem linvOn_spec {t : Nat → Nat} {us : List Nat} (hinj : ∀ u ∈ us, ∀ u' ∈ us, t u = t u' → u = u')
    {u : Nat} (hu : u ∈ us) : linvOn t us (t u) = u := by
  unfold linvOn
  cases hf : us.find? (fun x => t x == t u) with
  | none =>
    have := List.find?_eq_none.1 hf u hu
    simp at this
  | some x =>
    have hx := List.mem_of_find?_eq_some hf
    have e : t x = t u := by simpa using List.find?_some hf
    exact hinj x hx u hu e

theorem MergeOf.emb1 {Q : Equivariance A} {r : Q.Ren} {t : Nat → Nat} {s1 s2 s : List (Cst D)}
    (h : MergeOf A Q r t s1 s2 s) : Emb A id id (fun u => u ∈ uids s1) s1 s where
  mem := fun c hc _ => h.left c hc
  res := by
    intro c hc _ m hm
    cases hf : findAliasL s1 m with
    | none => rw [h.noCapture1 c hc m hm hf]; rfl
    | some v =>
      obtain ⟨c0, hc0, rfl, rfl⟩ := findAliasL_mem hf
      rw [findAliasL_of_mem h.nodupA (h.left c0 hc0)]
      rfl
  closed := fun _ _ _ _ _ v hv => findAliasL_uids hv
  linv := fun _ _ => rfl

theorem MergeOf.tinj {Q : Equivariance A} {r : Q.Ren} {t : Nat → Nat} {s1 s2 s : List (Cst D)}
    (h : MergeOf A Q r t s1 s2 s) (hn2 : (s2.map (·.alias)).Nodup) :
    ∀ u ∈ uids s2, ∀ u' ∈ uids s2, t u = t u' → u = u' := by
  intro u hu u' hu' e
  obtain ⟨c, hc, rfl⟩ := mem_uids.1 hu
  obtain ⟨c', hc', rfl⟩ := mem_uids.1 hu'
  have := eq_of_uid_eq h.nodupU (h.right c hc) (h.right c' hc') e
  have ha : Q.app r c.alias = Q.app r c'.alias := congrArg Cst.alias this
  rw [eq_of_alias_eq hn2 hc hc' (Q.app_injective r ha)]

theorem MergeOf.emb2 {Q : Equivariance A} {r : Q.Ren} {t : Nat → Nat} {s1 s2 s : List (Cst D)}
    (h : MergeOf A Q r t s1 s2 s) (hn2 : (s2.map (·.alias)).Nodup) :
    Emb A t (linvOn t (uids s2)) (fun u => u ∈ uids s2) (s2.map (Q.renC r)) s where
  mem := by
    intro c' hc' _
    obtain ⟨c, hc, rfl⟩ := List.mem_map.1 hc'
    exact h.right c hc
  res := by
    intro c' hc' _ m' hm'
    obtain ⟨c, hc, rfl⟩ := List.mem_map.1 hc'
    have hm'' : m' ∈ (A.mentions c.defn).map (Q.app r) := by
      rw [← Q.mentions_ren r c (h.good c hc)]; exact hm'
    obtain ⟨m, hm, rfl⟩ := List.mem_map.1 hm''
    rw [Q.findAliasL_ren]
    cases hf : findAliasL s2 m with
    | none => rw [h.noCapture2 c hc m hm hf]; rfl
    | some v =>
      obtain ⟨c0, hc0, rfl, rfl⟩ := findAliasL_mem hf
      exact findAliasL_of_mem h.nodupA (h.right c0 hc0)
  closed := by
    intro _ _ _ _ _ v hv
    have := findAliasL_uids hv
    rw [Q.uids_ren] at this
    exact this
  linv := fun _ hu => linvOn_spec (h.tinj hn2) hu

/-- **merge_entries (generic).** In the merged store the from-scratch entry of a constituent of
operand 1 is its entry in operand 1, and the entry of the copy of a constituent of operand 2 is its
entry in operand 2 renamed by the renaming of the merge. -/
theorem merge_entries (hA : Lawful A) (hC : ContentOnly A) {Q : Equivariance A} {r : Q.Ren} {t : Nat → Nat}
    {s1 s2 s : List (Cst D)} (h : MergeOf A Q r t s1 s2 s) (hn1 : (uids s1).Nodup)
    (hn2 : (uids s2).Nodup) (ha2 : (s2.map (·.alias)).Nodup) :
    (∀ c ∈ s1, entryOf A s c.uid = entryOf A s1 c.uid) ∧
    (∀ c ∈ s2, entryOf A s (t c.uid) = Q.renI r (entryOf A s2 c.uid)) := by
  refine ⟨fun c hc => ?_, fun c hc => ?_⟩
  · have hu := mem_uids.2 ⟨c, hc, rfl⟩
    exact entryOf_eq hA h.nodupU ((entryOf_final hA hn1 hu).emb hA hC h.emb1 h.nodupU hu)
  · have hu := mem_uids.2 ⟨c, hc, rfl⟩
    have h1 := (entryOf_final hA hn2 hu).ren Q r h.good
    exact entryOf_eq hA h.nodupU (h1.emb hA hC (h.emb2 ha2) h.nodupU hu)

/-- **merge_fully_correct (generic).** If every constituent of the merged store comes from an operand
and both operands are fully correct, the merged store is fully correct. -/
theorem merge_fully_correct (hA : Lawful A) (hC : ContentOnly A) {Q : Equivariance A} {r : Q.Ren}
    {t : Nat → Nat} {s1 s2 s : List (Cst D)} (h : MergeOf A Q r t s1 s2 s) (hn1 : (uids s1).Nodup)
    (hn2 : (uids s2).Nodup) (ha2 : (s2.map (·.alias)).Nodup)
    (hall : ∀ u ∈ uids s, u ∈ uids s1 ∨ ∃ c ∈ s2, u = t c.uid)
    (h1 : FullyCorrect A s1) (h2 : FullyCorrect A s2) : FullyCorrect A s := by
  obtain ⟨e1, e2⟩ := merge_entries hA hC h hn1 hn2 ha2
  intro u hu
  rcases hall u hu with hu1 | ⟨c, hc, rfl⟩
  · obtain ⟨c, hc, rfl⟩ := mem_uids.1 hu1
    rw [e1 c hc]
    exact h1 _ hu1
  · rw [e2 c hc, Q.ok_ren]
    exact h2 _ (mem_uids.2 ⟨c, hc, rfl⟩)

/-! ## a renamed store (`ResetAliases`) -/

/-- **rename_entries (generic).** The entries of a store renamed by an admissible renaming are the
old ones renamed. -/
theorem rename_entries (hA : Lawful A) (Q : Equivariance A) (r : Q.Ren) {s : List (Cst D)}
    (hn : (uids s).Nodup) (hg : ∀ c ∈ s, Q.Good r c) {u : Nat} (hu : u ∈ uids s) :
    entryOf A (s.map (Q.renC r)) u = Q.renI r (entryOf A s u) :=
  entryOf_eq hA (by rw [Q.uids_ren]; exact hn) ((entryOf_final hA hn hu).ren Q r hg)

theorem rename_fully_correct (hA : Lawful A) (Q : Equivariance A) (r : Q.Ren) {s : List (Cst D)}
    (hn : (uids s).Nodup) (hg : ∀ c ∈ s, Q.Good r c) (h : FullyCorrect A s) :
    FullyCorrect A (s.map (Q.renC r)) := by
  intro u hu
  rw [Q.uids_ren] at hu
  rw [rename_entries hA Q r hn hg hu, Q.ok_ren]
  exact h u hu

end CCVerif.SchemaGen
