import CCVerif.Lemmas.SchemaGen
import CCVerif.Lemmas.CheckerFrameUsed
import CCVerif.Lemmas.CheckerUsedShape
/-!
The C03 type checker as a LAWFUL instance of the generic schema machine of C07
(`Model/SchemaGen.lean`, laws in `Lemmas/SchemaGen.lean` §3).

* a definition is `Option Ast`: `none` = the empty definition text, `some body` = the parsed body
  (`SchemaAuditor::CheckConstituenta` rejects `isBaseSet != empty(definition)` before `CheckType`);
* `cstTree` — the tree of `Generator::GlobalDefinition(alias, definition)`: `X1:==` for a base set,
  `alias:==body` otherwise; `mentionsOf` — the global names at the visited positions of the body
  (`usedGlobals`; the declared name, child 0, is never visited);
* `CInfo` — what `ParseCst` / `SaveInfoTo` keep of the type check: status, type, declared arguments;
* `ctxToΓ` — the `TypeContext` a context function `alias ↦ entry` offers over a list of names;
* `checkerA`, `checkerA_lawful : Lawful (checkerA traitsOf)`;
* `checkerA_full_context` — building the context from ALL names of the schema instead of the
  mentions gives the same result (`check_frame_used`);
* a closed run of the machine with this instance.
Not modelled here: the kinds beyond base / term of `Schema.Kind` (the `cstCallableNoArgs`,
`cstExpectedLogical`, … post-checks of `CheckConstituenta` and `::=` of structured terms), the
value class and the stored tree of `SaveInfoTo`.
-/
namespace CCVerif.Syntax

/-! ## decidable equality of trees (`FindExpr` compares definitions) -/
mutual
def Ast.beqFull : Ast → Ast → Bool
  | .node t1 d1 l1 h1 k1, .node t2 d2 l2 h2 k2 =>
    decide (t1 = t2) && decide (d1 = d2) && decide (l1 = l2) && decide (h1 = h2) && Ast.beqFullList k1 k2
def Ast.beqFullList : List Ast → List Ast → Bool
  | [], [] => true
  | a :: as, b :: bs => Ast.beqFull a b && Ast.beqFullList as bs
  | _, _ => false
end

mutual
theorem Ast.eq_of_beqFull : ∀ (a b : Ast), Ast.beqFull a b = true → a = b
  | .node t1 d1 l1 h1 k1, .node t2 d2 l2 h2 k2, h => by
    simp only [Ast.beqFull, Bool.and_eq_true, decide_eq_true_eq] at h
    obtain ⟨⟨⟨⟨rfl, rfl⟩, rfl⟩, rfl⟩, hk⟩ := h
    rw [Ast.eq_of_beqFullList k1 k2 hk]
theorem Ast.eq_of_beqFullList : ∀ (as bs : List Ast), Ast.beqFullList as bs = true → as = bs
  | [], [], _ => rfl
  | a :: as, b :: bs, h => by
    simp only [Ast.beqFullList, Bool.and_eq_true] at h
    rw [Ast.eq_of_beqFull a b h.1, Ast.eq_of_beqFullList as bs h.2]
  | [], _ :: _, h => by simp [Ast.beqFullList] at h
  | _ :: _, [], h => by simp [Ast.beqFullList] at h
end

mutual
theorem Ast.beqFull_refl : ∀ (a : Ast), Ast.beqFull a a = true
  | .node t d l h ks => by
    simp only [Ast.beqFull, decide_true, Bool.true_and]
    exact Ast.beqFullList_refl ks
theorem Ast.beqFullList_refl : ∀ (as : List Ast), Ast.beqFullList as as = true
  | [] => rfl
  | a :: as => by
    simp only [Ast.beqFullList, Bool.and_eq_true]
    exact ⟨Ast.beqFull_refl a, Ast.beqFullList_refl as⟩
end

instance : DecidableEq Ast := fun a b =>
  if h : Ast.beqFull a b = true then isTrue (Ast.eq_of_beqFull a b h)
  else isFalse (fun e => h (e ▸ Ast.beqFull_refl a))

end CCVerif.Syntax

namespace CCVerif.SchemaGen
open CCVerif CCVerif.Syntax CCVerif.Types CCVerif.Checker
open CCVerif.Schema (Kind Status)

/-! ## definitions, trees, entries -/

/-- a definition: `none` = empty text, `some body` = the parsed body -/
abbrev CDef := Option Ast

/-- the declared name, child 0 of the definition tree -/
def headNode (alias : String) : Ast := .node .ID_GLOBAL (.text alias) 0 0 []

/-- the tree `Generator::GlobalDefinition(alias, definition)` parses to: `alias :== body` -/
def defTree (alias : String) (body : Ast) : Ast := .node .PUNC_DEFINE .none 0 0 [headNode alias, body]

/-- `X1:==`, the tree of a base set -/
def baseTree (alias : String) : Ast := .node .PUNC_DEFINE .none 0 0 [headNode alias]

/-- the tree handed to `CheckType`; `none` = rejected before (`isBaseSet != empty(definition)`) -/
def cstTree (c : Cst CDef) : Option Ast :=
  match c.kind, c.defn with
  | .base, none => some (baseTree c.alias)
  | .term, some body => some (defTree c.alias body)
  | _, _ => none

/-- the names the graph updater extracts: the globals at the visited positions of the body -/
def mentionsOf : CDef → List String
  | none => []
  | some body => usedGlobals body

theorem usedGlobals_defTree (alias : String) (body : Ast) : usedGlobals (defTree alias body) = usedGlobals body := by
  have h0 : visitedIdx (defTree alias body) 0 = false := rfl
  have h1 : visitedIdx (defTree alias body) 1 = true := rfl
  show usedGlobals (.node .PUNC_DEFINE .none 0 0 [headNode alias, body]) = _
  rw [usedGlobals]
  simp only [usedGlobalsList]
  rw [show (Ast.node Tok.PUNC_DEFINE TokData.none 0 0 [headNode alias, body]) = defTree alias body from rfl,
    h0, h1]
  simp [IsGlobalId]

/-- for a body of the grammar's shape (`Wf.wf .ND`: an expression or a function definition) the
mentions are ALL global names of the body -/
theorem mem_mentionsOf_iff_globalsOf {body : Ast} (h : Wf.wf .ND body = true) (n : String) :
    n ∈ mentionsOf (some body) ↔ n ∈ globalsOf body :=
  usedGlobals_iff_globalsOf h n

theorem usedGlobals_baseTree (alias : String) : usedGlobals (baseTree alias) = [] := rfl

theorem usedGlobals_cstTree {c : Cst CDef} {tr : Ast} (h : cstTree c = some tr) :
    usedGlobals tr = mentionsOf c.defn := by
  unfold cstTree at h
  split at h
  · rename_i hd; cases h; rw [hd]; exact usedGlobals_baseTree _
  · rename_i hd; cases h; rw [hd]; exact usedGlobals_defTree _ _
  · cases h

/-- what `SaveInfoTo` keeps of a successful `CheckConstituenta` (type + declared arguments) -/
structure CInfo where
  status : Status := .unknown
  ty : Option ExprTy := none
  args : List (String × Ty) := []
deriving Repr, DecidableEq

/-- `TypeFor(name)` through the context -/
def tyOfC (o : Option CInfo) : Option ExprTy := o.bind (·.ty)
/-- `FunctionArgsFor(name)` through the context -/
def argsOfC (o : Option CInfo) : Option (List (String × Ty)) :=
  o.bind fun i => if i.ty.isSome && !i.args.isEmpty then some i.args else none

/-- the `TypeContext` offered over the listed names -/
def ctxToΓ (traits : TraitEnv) (ctx : String → Option CInfo) (names : List String) : Ctx :=
  { types := names.filterMap fun n => (tyOfC (ctx n)).map fun t => (n, t),
    funcs := names.filterMap fun n => (argsOfC (ctx n)).map fun d => (n, d),
    traits := traits }

/-- `ParseCst`: status, and the type and arguments if `CheckType` succeeded -/
def resultOf (r : CheckRes) : CInfo :=
  match r.out with
  | .ok t => { status := .verified, ty := some t, args := r.args }
  | _ => { status := .incorrect }

def analyseC (traits : TraitEnv) (ctx : String → Option CInfo) (c : Cst CDef) : CInfo :=
  match cstTree c with
  | none => { status := .incorrect }
  | some tr => resultOf (check (ctxToΓ traits ctx (usedGlobals tr)) tr)

/-- the type checker as an analysis of the generic machine; `traitsOf` = `Schema::TraitsFor` as a
function of the store without the definitions -/
def checkerA (traitsOf : Skel → TraitEnv) : Analysis CDef CInfo where
  mentions := mentionsOf
  rename := fun _ d => d
  reset := {}
  ok := fun i => i.ty.isSome
  analyse := fun sk ctx c => analyseC (traitsOf sk) ctx c

/-! ## look-up in the generated context -/

theorem lookup_filterMap {α : Type} (g : String → Option α) (m : String) : ∀ names : List String,
    lookup (names.filterMap fun n => (g n).map fun x => (n, x)) m = if m ∈ names then g m else none
  | [] => rfl
  | n :: ns => by
    have ih := lookup_filterMap g m ns
    by_cases hnm : n = m
    · subst hnm
      cases hg : g n with
      | none =>
        simp only [List.filterMap_cons, hg, Option.map_none, ih, List.mem_cons, true_or, if_true]
        split <;> rfl
      | some x =>
        simp [hg, lookup]
    · have hb : (n == m) = false := by simpa using hnm
      have hmem : (m ∈ n :: ns) ↔ m ∈ ns := by
        simp only [List.mem_cons]
        constructor
        · rintro (h | h)
          · exact absurd h.symm hnm
          · exact h
        · exact Or.inr
      cases hg : g n with
      | none => simp only [List.filterMap_cons, hg, Option.map_none, ih, hmem]
      | some x =>
        simp only [List.filterMap_cons, hg, Option.map_some, lookup, hb, Bool.false_eq_true, if_false, ih, hmem]

theorem filterMap_congr' {α β : Type} {f g : α → Option β} : ∀ {l : List α},
    (∀ x ∈ l, f x = g x) → l.filterMap f = l.filterMap g
  | [], _ => rfl
  | x :: xs, h => by
    simp only [List.filterMap_cons, h x (List.mem_cons_self ..),
      filterMap_congr' (fun y hy => h y (List.mem_cons_of_mem _ hy))]

theorem lookup_ctxToΓ_types (traits : TraitEnv) (ctx : String → Option CInfo) (names : List String) (m : String) :
    lookup (ctxToΓ traits ctx names).types m = if m ∈ names then tyOfC (ctx m) else none :=
  lookup_filterMap (fun n => tyOfC (ctx n)) m names

theorem lookup_ctxToΓ_funcs (traits : TraitEnv) (ctx : String → Option CInfo) (names : List String) (m : String) :
    lookup (ctxToΓ traits ctx names).funcs m = if m ∈ names then argsOfC (ctx m) else none :=
  lookup_filterMap (fun n => argsOfC (ctx n)) m names

theorem ctxToΓ_congr {traits : TraitEnv} {ctx ctx' : String → Option CInfo} {names : List String}
    (h : ∀ n ∈ names, tyOfC (ctx n) = tyOfC (ctx' n) ∧ argsOfC (ctx n) = argsOfC (ctx' n)) :
    ctxToΓ traits ctx names = ctxToΓ traits ctx' names := by
  unfold ctxToΓ
  congr 1
  · exact filterMap_congr' fun n hn => by rw [(h n hn).1]
  · exact filterMap_congr' fun n hn => by rw [(h n hn).2]

/-- the context built over any list of names that covers the visited globals of the tree gives the
same check -/
theorem check_ctxToΓ_of_subset (traits : TraitEnv) (ctx : String → Option CInfo) (tr : Ast)
    {names names' : List String} (h : ∀ n ∈ usedGlobals tr, n ∈ names)
    (h' : ∀ n ∈ usedGlobals tr, n ∈ names') :
    check (ctxToΓ traits ctx names) tr = check (ctxToΓ traits ctx names') tr :=
  check_frame_used
    (fun n hn => by rw [lookup_ctxToΓ_types, lookup_ctxToΓ_types, if_pos (h n hn), if_pos (h' n hn)])
    (fun n hn => by rw [lookup_ctxToΓ_funcs, lookup_ctxToΓ_funcs, if_pos (h n hn), if_pos (h' n hn)])
    rfl rfl

/-! ## the laws -/

theorem not_ok_ty {traitsOf : Skel → TraitEnv} {i : CInfo} (h : (checkerA traitsOf).ok i = false) :
    i.ty = none := by
  have h' : i.ty.isSome = false := h
  cases hi : i.ty with
  | none => rfl
  | some t => rw [hi] at h'; cases h'

theorem proj_of_not_ok {traitsOf : Skel → TraitEnv} {i : CInfo} (h : (checkerA traitsOf).ok i = false) :
    tyOfC (some i) = none ∧ argsOfC (some i) = none := by
  have := not_ok_ty h
  simp [tyOfC, argsOfC, this]

theorem proj_of_sim {traitsOf : Skel → TraitEnv} {o o' : Option CInfo} (h : Sim (checkerA traitsOf) o o') :
    tyOfC o = tyOfC o' ∧ argsOfC o = argsOfC o' := by
  rcases h with rfl | ⟨i, j, rfl, rfl, hi, hj⟩
  · exact ⟨rfl, rfl⟩
  · rw [(proj_of_not_ok hi).1, (proj_of_not_ok hi).2, (proj_of_not_ok hj).1, (proj_of_not_ok hj).2]
    exact ⟨rfl, rfl⟩

theorem resultOf_ok {r : CheckRes} (h : (resultOf r).ty.isSome = true) : ∃ t, r.out = .ok t := by
  unfold resultOf at h
  split at h
  · rename_i t ht; exact ⟨t, ht⟩
  · cases h

/-- the type checker satisfies the frame laws of the generic machine -/
theorem checkerA_lawful (traitsOf : Skel → TraitEnv) : Lawful (checkerA traitsOf) where
  reset_not_ok := rfl
  frame := by
    intro sk ctx ctx' c h
    show analyseC (traitsOf sk) ctx c = analyseC (traitsOf sk) ctx' c
    unfold analyseC
    cases htr : cstTree c with
    | none => rfl
    | some tr =>
      have hm : usedGlobals tr = mentionsOf c.defn := usedGlobals_cstTree htr
      simp only
      rw [ctxToΓ_congr (fun n hn => proj_of_sim (h n (show n ∈ mentionsOf c.defn by rw [← hm]; exact hn)))]
  strict := by
    intro sk ctx c m i hm hc hi
    show (analyseC (traitsOf sk) ctx c).ty.isSome = false
    unfold analyseC
    cases htr : cstTree c with
    | none => rfl
    | some tr =>
      have hmm : m ∈ usedGlobals tr := by rw [usedGlobals_cstTree htr]; exact hm
      simp only
      cases hr : (resultOf (check (ctxToΓ (traitsOf sk) ctx (usedGlobals tr)) tr)).ty.isSome with
      | false => rfl
      | true =>
        exfalso
        obtain ⟨t, ht⟩ := resultOf_ok hr
        have := check_strict ht m hmm
        rw [lookup_ctxToΓ_types, if_pos hmm, hc, (proj_of_not_ok hi).1] at this
        cases this

/-- the context built from ALL names of the schema (what `Schema::TypeFor` offers) gives the same
entry as the one built from the mentions only -/
theorem checkerA_full_context (traits : TraitEnv) (ctx : String → Option CInfo) (c : Cst CDef) (tr : Ast)
    (htr : cstTree c = some tr) (allNames : List String) (h : ∀ n ∈ mentionsOf c.defn, n ∈ allNames) :
    check (ctxToΓ traits ctx allNames) tr = check (ctxToΓ traits ctx (usedGlobals tr)) tr :=
  check_ctxToΓ_of_subset traits ctx tr (fun n hn => h n (by rw [← usedGlobals_cstTree htr]; exact hn))
    (fun _ hn => hn)

theorem analyseC_full_context (traits : TraitEnv) (ctx : String → Option CInfo) (c : Cst CDef)
    (allNames : List String) (h : ∀ n ∈ mentionsOf c.defn, n ∈ allNames) :
    analyseC traits ctx c =
      match cstTree c with
      | none => { status := .incorrect }
      | some tr => resultOf (check (ctxToΓ traits ctx allNames) tr) := by
  unfold analyseC
  cases htr : cstTree c with
  | none => rfl
  | some tr => simp only; rw [checkerA_full_context traits ctx c tr htr allNames h]

/-! ## a closed run -/

def glob (s : String) : Ast := .node .ID_GLOBAL (.text s) 0 0 []
def setMinus (a b : Ast) : Ast := .node .SET_MINUS .none 0 0 [a, b]

/-- `X1` base set; `D1:==X1\X1`; `D2:==X1\D9` (`D9` denotes nothing); `D3:==D2\X1` (mentions the
failed `D2`); `X2` base set with a non-empty definition -/
def histChecker : List (Op CDef) :=
  [.insert ⟨1, "X1", .base, none⟩,
   .insert ⟨2, "D1", .term, some (setMinus (glob "X1") (glob "X1"))⟩,
   .insert ⟨3, "D2", .term, some (setMinus (glob "X1") (glob "D9"))⟩,
   .insert ⟨4, "D3", .term, some (setMinus (glob "D2") (glob "X1"))⟩,
   .insert ⟨5, "X2", .base, some (glob "X1")⟩]

example :
    (run (checkerA fun _ => []) histChecker).report (checkerA fun _ => []) =
      [(1, { status := .verified, ty := some (.ty (.coll (.base "X1"))) }),
       (2, { status := .verified, ty := some (.ty (.coll (.base "X1"))) }),
       (3, { status := .incorrect }),
       (4, { status := .incorrect }),
       (5, { status := .incorrect })] := by
  decide +kernel

/-- repairing `D2` (`setDef`) re-analyses `D2` and its dependant `D3` incrementally; the result is
that of an analysis from scratch -/
example :
    let A := checkerA fun _ => []
    let st := run A (histChecker ++ [.setDef 3 (some (setMinus (glob "X1") (glob "X1")))])
    st.report A =
      [(1, { status := .verified, ty := some (.ty (.coll (.base "X1"))) }),
       (2, { status := .verified, ty := some (.ty (.coll (.base "X1"))) }),
       (3, { status := .verified, ty := some (.ty (.coll (.base "X1"))) }),
       (4, { status := .verified, ty := some (.ty (.coll (.base "X1"))) }),
       (5, { status := .incorrect })] ∧
    st.report A = (st.scratch A).report A := by
  decide +kernel

end CCVerif.SchemaGen
