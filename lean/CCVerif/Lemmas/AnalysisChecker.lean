import CCVerif.Model.Checker
/-!
Helper lemmas of C04, part 2 — the type checker never accepts with a critical error in its log.

`Clean m` is a Hoare-style predicate over the checker monad (the companion of `Good` in
`Lemmas/CheckerErr.lean`, which covers the rejecting runs): running `m` from any state only appends
to the log, and when the run returns `ok` every appended entry is a warning. It holds for every
rule of `Model/Checker.lean` on EVERY tree (no shape hypothesis): the only non-failing writes to the
log are the two warnings `localDoubleDeclare` (AddLocalVariable) and `localNotUsed` (EndScope),
and a `fail` is never turned back into `ok`.

The same for the value auditor (`VClean`): it logs only together with `vFail`.
-/
namespace CCVerif.Checker
open CCVerif.Syntax CCVerif.Types

def isOk {α} : Res α → Prop
  | .ok _ => True
  | _ => False

structure Clean {α : Type} (m : M α) : Prop where
  run : ∀ s : St, ∃ new : List Err, (m s).2.errs = new ++ s.errs ∧
    (isOk (m s).1 → ∀ e, e ∈ new → isCritical e.1 = false)

theorem clean_pure {α} (a : α) : Clean (M.pure a) :=
  ⟨fun _ => ⟨[], rfl, by simp⟩⟩

theorem clean_stuck {α} (x : String) : Clean (stuckM x : M α) :=
  ⟨fun _ => ⟨[], rfl, by simp⟩⟩

theorem clean_failSilent {α} : Clean (failSilent : M α) :=
  ⟨fun _ => ⟨[], rfl, by simp⟩⟩

theorem clean_setCur (t : ExprTy) : Clean (setCur t) :=
  ⟨fun _ => ⟨[], rfl, by simp⟩⟩

theorem clean_getSt : Clean getSt :=
  ⟨fun _ => ⟨[], rfl, by simp⟩⟩

theorem clean_modify (f : St → St) (h : ∀ s, (f s).errs = s.errs) : Clean (modifySt f) :=
  ⟨fun s => ⟨[], by simp [modifySt, h], by simp⟩⟩

/-- `OnError(…); return false;` is not an accepting run -/
theorem clean_errFail {α} (eid : Nat) (pos : Int) : Clean (errFail eid pos : M α) :=
  ⟨fun _ => ⟨[(eid, pos)], rfl, by simp [errFail, isOk]⟩⟩

theorem clean_errFailTok {α} (a : Ast) (eid : Nat) (pos : Int) : Clean (errFailTok a eid pos : M α) := by
  unfold errFailTok
  split
  · exact clean_stuck _
  · exact clean_errFail _ _

theorem clean_bind {α β} {m : M α} {f : α → M β} (hm : Clean m) (hf : ∀ a, Clean (f a)) :
    Clean (M.bind m f) := by
  refine ⟨fun s => ?_⟩
  obtain ⟨new1, e1, r1⟩ := hm.run s
  unfold M.bind
  cases hms : m s with
  | mk r s1 =>
    rw [hms] at e1 r1
    cases r with
    | ok a =>
      obtain ⟨new2, e2, r2⟩ := (hf a).run s1
      refine ⟨new2 ++ new1, ?_, ?_⟩
      · simp only []; rw [e2]; simp at e1; rw [e1]; simp
      · intro hok e he
        rcases List.mem_append.mp he with h | h
        · exact r2 hok e h
        · exact r1 trivial e h
    | fail => exact ⟨new1, e1, by simp [isOk]⟩
    | stuck x => exact ⟨new1, e1, by simp [isOk]⟩

theorem clean_kidM (a : Ast) (i : Nat) : Clean (kidM a i) := by
  unfold kidM; split
  · exact clean_pure _
  · exact clean_stuck _

theorem clean_expectTy (site : String) (t : ExprTy) : Clean (expectTy site t) := by
  unfold expectTy; split
  · exact clean_pure _
  · exact clean_stuck _

theorem clean_textOf (a : Ast) : Clean (textOf a) := by
  unfold textOf; split
  · exact clean_pure _
  · exact clean_stuck _

theorem clean_tupleOfData (a : Ast) : Clean (tupleOfData a) := by
  unfold tupleOfData; split
  · exact clean_pure _
  · exact clean_stuck _

theorem clean_mkTuple (site : String) (cs : List Ty) : Clean (mkTuple site cs) := by
  unfold mkTuple; split
  · exact clean_stuck _
  · exact clean_pure _

/-- hypothesis on the recursive visitor -/
def CleanV (v : Visitor) : Prop := ∀ p k, Clean (v p k)

theorem clean_visitChild {v : Visitor} (hv : CleanV v) (a : Ast) (i : Nat) : Clean (visitChild v a i) := by
  unfold visitChild
  exact clean_bind (clean_kidM _ _) fun k => hv _ k

theorem clean_visitAll {v : Visitor} (hv : CleanV v) (p : Tok) : ∀ ks : List Ast, Clean (visitAll v p ks)
  | [] => clean_pure _
  | k :: ks => by
    unfold visitAll
    exact clean_bind (hv _ k) fun _ => clean_visitAll hv p ks

theorem clean_childType {v : Visitor} (hv : CleanV v) (a : Ast) (i : Nat) : Clean (childType v a i) := by
  unfold childType
  apply clean_bind (clean_kidM _ _)
  intro k
  refine ⟨fun s => ?_⟩
  obtain ⟨new, e1, e2⟩ := (hv (some a.id) k).run s
  refine ⟨new, ?_, ?_⟩
  · dsimp only; revert e1; generalize v (some a.id) k s = r; intro e1
    obtain ⟨r, s'⟩ := r; cases r <;> simpa using e1
  · dsimp only; revert e2; generalize v (some a.id) k s = r; intro e2
    obtain ⟨r, s'⟩ := r; cases r <;> simp_all [isOk] <;> assumption

theorem clean_childTypeDebool {v : Visitor} (hv : CleanV v) (a : Ast) (i : Nat) (eid : Nat) (tok : Bool) :
    Clean (childTypeDebool v a i eid tok) := by
  unfold childTypeDebool
  apply clean_bind (clean_childType hv a i)
  intro r
  split
  · exact clean_failSilent
  · split
    · exact clean_pure _
    · split
      · exact clean_pure _
      · apply clean_bind (clean_kidM _ _); intro k
        split
        · exact clean_errFailTok _ _ _
        · exact clean_errFail _ _

theorem clean_startScope : Clean startScope := clean_modify _ (fun _ => rfl)

theorem clean_clearLocals : Clean clearLocals := clean_modify _ (fun _ => rfl)

theorem endScopeGo_warning (nw : Bool) (pos : Int) : ∀ (ls : List LocalData) (e : Err),
    e ∈ (endScopeGo nw pos ls).2 → e.1 = EID.localNotUsed
  | [], e, h => by simp [endScopeGo] at h
  | v :: vs, e, h => by
    have ih := endScopeGo_warning nw pos vs e
    unfold endScopeGo at h
    simp only [] at h
    split at h
    · split at h
      · simp at h; rcases h with h | h
        · subst h; rfl
        · exact ih h
      · exact ih h
    · exact ih h

/-- `EndScope` only logs the warning `localNotUsed` -/
theorem clean_endScope (pos : Int) : Clean (endScope pos) := by
  refine ⟨fun s => ?_⟩
  refine ⟨(endScopeGo (decide (s.noWarn > 0)) pos s.locals).2.reverse, ?_, ?_⟩
  · simp [endScope, modifySt]
  · intro _ e he
    have := endScopeGo_warning _ pos s.locals e (by simpa using he)
    rw [this]; decide

/-- `AddLocalVariable`: shadowing fails; re-declaration is the warning `localDoubleDeclare` -/
theorem clean_addLocal (name : String) (t : Ty) (pos : Int) : Clean (addLocal name t pos) := by
  refine ⟨fun s => ?_⟩
  unfold addLocal
  split
  · split
    · exact ⟨[(EID.localShadowing, pos)], rfl, by simp [isOk]⟩
    · by_cases hn : s.noWarn > 0
      · exact ⟨[], by simp [hn], by simp⟩
      · refine ⟨[(EID.localDoubleDeclare, pos)], by simp [hn], ?_⟩
        intro _ e he; simp at he; subst he
        exact (by decide : isCritical EID.localDoubleDeclare = false)
  · exact ⟨[], rfl, by simp⟩

theorem clean_getLocal (name : String) (pos : Int) : Clean (getLocal name pos) := by
  refine ⟨fun s => ?_⟩
  unfold getLocal
  split
  · split
    · exact ⟨[], rfl, by simp⟩
    · exact ⟨[(EID.localUndeclared, pos)], rfl, by simp [isOk]⟩
  · split
    · exact ⟨[(EID.localOutOfScope, pos)], rfl, by simp [isOk]⟩
    · exact ⟨[], rfl, by simp⟩

theorem clean_visitChildDecl {v : Visitor} (hv : CleanV v) (a : Ast) (i : Nat) (t : Ty) :
    Clean (visitChildDecl v a i t) := by
  unfold visitChildDecl
  exact clean_bind (clean_setCur _) fun _ => clean_bind (clean_modify _ fun _ => rfl) fun _ =>
    clean_bind (clean_visitChild hv a i) fun _ => clean_bind (clean_modify _ fun _ => rfl) fun _ => clean_setCur _

/-! ## the rules -/

/-- one step of the syntax-directed proof search over a rule body -/
syntax "clean_step" ident : tactic
macro_rules
  | `(tactic| clean_step $hv) => `(tactic| first
    | exact clean_pure _ | exact clean_stuck _ | exact clean_failSilent | exact clean_setCur _ | exact clean_getSt
    | exact clean_expectTy _ _ | exact clean_kidM _ _ | exact clean_textOf _ | exact clean_tupleOfData _ | exact clean_mkTuple _ _
    | exact clean_childType $hv _ _ | exact clean_visitChild $hv _ _ | exact clean_visitChildDecl $hv _ _ _
    | exact clean_visitAll $hv _ _
    | exact clean_startScope | exact clean_clearLocals | exact clean_modify _ (fun _ => rfl)
    | exact clean_errFail _ _ | exact clean_errFailTok _ _ _
    | exact clean_childTypeDebool $hv _ _ _ _
    | exact clean_endScope _
    | exact clean_addLocal _ _ _
    | exact clean_getLocal _ _
    | apply clean_bind
    | intro _
    | split
    | (dsimp only; split))

syntax "clean_auto" ident : tactic
macro_rules
  | `(tactic| clean_auto $hv) => `(tactic| repeat (any_goals (clean_step $hv)))

section
variable {v : Visitor} (hv : CleanV v) (a : Ast)
include hv

theorem clean_viGlobalDeclaration : Clean (viGlobalDeclaration v a) := by
  unfold viGlobalDeclaration; clean_auto hv

theorem clean_viFunctionDefinition : Clean (viFunctionDefinition v a) := by
  unfold viFunctionDefinition; clean_auto hv

theorem clean_checkArgsGo (Γ : Ctx) (fn : String) : ∀ (n : Nat) (decl : List (String × Ty)) (child : Nat) (subs : Subst),
    Clean (checkArgsGo Γ v a fn n decl child subs)
  | 0, _, _, _ => clean_pure _
  | n+1, decl, child, subs => by
    unfold checkArgsGo
    apply clean_bind (clean_childType hv _ _)
    intro ct
    split
    · exact clean_failSilent
    · split
      · exact clean_stuck _
      · dsimp only
        split
        · clean_auto hv
        · exact clean_checkArgsGo Γ fn n _ _ _

theorem clean_checkFuncArguments (Γ : Ctx) (fn : String) : Clean (checkFuncArguments Γ v a fn) := by
  unfold checkFuncArguments
  split
  · clean_auto hv
  · dsimp only
    split
    · clean_auto hv
    · exact clean_checkArgsGo hv a Γ fn _ _ _ _

theorem clean_viFunctionCall (Γ : Ctx) : Clean (viFunctionCall Γ v a) := by
  unfold viFunctionCall
  apply clean_bind (clean_kidM _ _); intro k0
  apply clean_bind (clean_textOf _); intro fn
  split
  · exact clean_errFail _ _
  · apply clean_bind (clean_checkFuncArguments hv a Γ fn); intro subs
    split <;> exact clean_setCur _

theorem clean_tupleDeclGo (p : Tok) : ∀ (ks : List Ast) (cs : List Ty), Clean (tupleDeclGo v p ks cs)
  | [], _ => by unfold tupleDeclGo; exact clean_pure _
  | _ :: _, [] => by unfold tupleDeclGo; exact clean_stuck _
  | k :: ks, c :: cs => by
    unfold tupleDeclGo
    apply clean_bind (clean_setCur _); intro _
    apply clean_bind (hv _ k); intro _
    exact clean_tupleDeclGo p ks cs

theorem clean_viTupleDeclaration : Clean (viTupleDeclaration v a) := by
  unfold viTupleDeclaration
  apply clean_bind clean_getSt; intro s
  apply clean_bind (clean_expectTy _ _); intro t
  split
  · split
    · clean_auto hv
    · apply clean_bind (clean_tupleDeclGo hv _ _ _); intro _; exact clean_setCur _
  · clean_auto hv

theorem clean_viAllLogic : Clean (viAllLogic v a) := by
  unfold viAllLogic; clean_auto hv

theorem clean_viArgument : Clean (viArgument v a) := by
  unfold viArgument; clean_auto hv

theorem clean_viCard : Clean (viCard v a) := by
  unfold viCard; clean_auto hv

theorem clean_viArithmetic (Γ : Ctx) : Clean (viArithmetic Γ v a) := by
  unfold viArithmetic; clean_auto hv

theorem clean_viIntegerPredicate (Γ : Ctx) : Clean (viIntegerPredicate Γ v a) := by
  unfold viIntegerPredicate; clean_auto hv

theorem clean_viQuantifier : Clean (viQuantifier v a) := by
  unfold viQuantifier; clean_auto hv

theorem clean_viEquals (Γ : Ctx) : Clean (viEquals Γ v a) := by
  unfold viEquals; clean_auto hv

theorem clean_viSetexprPredicate (Γ : Ctx) : Clean (viSetexprPredicate Γ v a) := by
  unfold viSetexprPredicate; clean_auto hv

theorem clean_viDeclarative : Clean (viDeclarative v a) := by
  unfold viDeclarative; clean_auto hv

theorem clean_viImperative : Clean (viImperative v a) := by
  unfold viImperative visitFrom; clean_auto hv

theorem clean_viIterate : Clean (viIterate v a) := by
  unfold viIterate; clean_auto hv

theorem clean_viAssign : Clean (viAssign v a) := by
  unfold viAssign; clean_auto hv

theorem clean_recursionRounds (te : TraitEnv) (idx : Nat) :
    ∀ (n : Nat) (it : Ty), Clean (recursionRounds te v a idx n it)
  | 0, _ => clean_pure _
  | n+1, it => by
    unfold recursionRounds
    apply clean_bind clean_clearLocals; intro _
    apply clean_bind (clean_visitChildDecl hv _ _ _); intro _
    apply clean_bind (clean_childType hv _ _); intro r
    apply clean_bind (clean_expectTy _ _); intro nt
    split
    · exact clean_pure _
    · split
      · exact clean_pure _
      · exact clean_recursionRounds te idx n _

theorem clean_viRecursion (Γ : Ctx) : Clean (viRecursion Γ v a) := by
  unfold viRecursion
  apply clean_bind clean_startScope; intro _
  apply clean_bind (clean_childType hv _ _); intro initR
  apply clean_bind (clean_expectTy _ _); intro initT
  apply clean_bind (clean_visitChildDecl hv _ _ _); intro _
  apply clean_bind (clean_childType hv _ _); intro itR
  split
  · exact clean_stuck _
  · clean_auto hv
  · apply clean_bind (clean_expectTy _ _); intro it0
    split
    · clean_auto hv
    · apply clean_bind
      · exact clean_modify _ (fun _ => rfl)
      intro _
      apply clean_bind (clean_recursionRounds hv a _ _ _ _); intro it
      clean_auto hv

theorem clean_deboolAll (eid : Nat) : ∀ (n i : Nat), Clean (deboolAll v a eid n i)
  | 0, _ => clean_pure _
  | n+1, i => by
    unfold deboolAll
    apply clean_bind (clean_childTypeDebool hv _ _ _ _); intro t
    apply clean_bind (clean_deboolAll eid n (i + 1)); intro ts
    exact clean_pure _

theorem clean_viDecart : Clean (viDecart v a) := by
  unfold viDecart
  apply clean_bind (clean_deboolAll hv a _ _ _); intro fs
  clean_auto hv

theorem clean_viBoolean : Clean (viBoolean v a) := by
  unfold viBoolean; clean_auto hv

theorem clean_typesAll (site : String) : ∀ (n i : Nat), Clean (typesAll v a site n i)
  | 0, _ => clean_pure _
  | n+1, i => by
    unfold typesAll
    apply clean_bind (clean_childType hv _ _); intro r
    apply clean_bind (clean_expectTy _ _); intro t
    apply clean_bind (clean_typesAll site n (i + 1)); intro ts
    exact clean_pure _

theorem clean_viTuple : Clean (viTuple v a) := by
  unfold viTuple
  apply clean_bind (clean_typesAll hv a _ _ _); intro cs
  clean_auto hv

theorem clean_enumGo (Γ : Ctx) : ∀ (n child : Nat) (t : Ty), Clean (enumGo Γ v a n child t)
  | 0, _, _ => clean_pure _
  | n+1, child, t => by
    unfold enumGo
    apply clean_bind (clean_childType hv _ _); intro r
    apply clean_bind (clean_expectTy _ _); intro ct
    split
    · clean_auto hv
    · exact clean_enumGo Γ n _ _

theorem clean_viEnumeration (Γ : Ctx) : Clean (viEnumeration Γ v a) := by
  unfold viEnumeration
  apply clean_bind (clean_childType hv _ _); intro r
  apply clean_bind (clean_expectTy _ _); intro t0
  apply clean_bind (clean_enumGo hv a Γ _ _ _); intro t
  exact clean_setCur _

theorem clean_viDebool : Clean (viDebool v a) := by
  unfold viDebool; clean_auto hv

theorem clean_viSetexprBinary (Γ : Ctx) : Clean (viSetexprBinary Γ v a) := by
  unfold viSetexprBinary; clean_auto hv

theorem clean_viProjectSet : Clean (viProjectSet v a) := by
  unfold viProjectSet; clean_auto hv

theorem clean_viProjectTuple : Clean (viProjectTuple v a) := by
  unfold viProjectTuple; clean_auto hv

theorem clean_filterParamsGo (Γ : Ctx) : ∀ (n child : Nat) (bases : List Ty), Clean (filterParamsGo Γ v a n child bases)
  | 0, _, _ => clean_pure _
  | n+1, child, bases => by
    unfold filterParamsGo
    apply clean_bind (clean_childType hv _ _); intro r
    apply clean_bind (clean_expectTy _ _); intro pt
    split
    · exact clean_stuck _
    · split
      · split
        · exact clean_filterParamsGo Γ n _ _
        · clean_auto hv
      · clean_auto hv

theorem clean_visitParamsGo : ∀ (n child : Nat), Clean (visitParamsGo v a n child)
  | 0, _ => clean_pure _
  | n+1, child => by
    unfold visitParamsGo
    apply clean_bind (clean_childType hv _ _); intro _
    exact clean_visitParamsGo n _

theorem clean_viFilter (Γ : Ctx) : Clean (viFilter Γ v a) := by
  unfold viFilter
  apply clean_bind (clean_tupleOfData _); intro idx
  dsimp only
  split
  · exact clean_errFail _ _
  · apply clean_bind (clean_childType hv _ _); intro r
    apply clean_bind (clean_expectTy _ _); intro arg
    split
    · apply clean_bind (clean_visitParamsGo hv a _ _); intro _; exact clean_setCur _
    · split
      · split
        · clean_auto hv
        · split
          · apply clean_bind (clean_filterParamsGo hv a Γ _ _ _); intro _; exact clean_setCur _
          · clean_auto hv
      · clean_auto hv

theorem clean_viReduce : Clean (viReduce v a) := by
  unfold viReduce; clean_auto hv

omit hv in
theorem clean_viGlobal (Γ : Ctx) (parent : Option Tok) : Clean (viGlobal Γ parent a) := by
  unfold viGlobal; clean_auto hv

omit hv in
theorem clean_viRadical (Γ : Ctx) : Clean (viRadical Γ a) := by
  unfold viRadical; clean_auto hv

omit hv in
theorem clean_viLocal : Clean (viLocal a) := by
  unfold viLocal; clean_auto hv

omit hv in
theorem clean_viEmptySet (parent : Option Tok) : Clean (viEmptySet parent a) := by
  unfold viEmptySet; clean_auto hv

theorem clean_dispatch (Γ : Ctx) (parent : Option Tok) : Clean (dispatch Γ v parent a) := by
  unfold dispatch
  split
  all_goals first
    | exact clean_viGlobal a Γ parent | exact clean_viLocal a | exact clean_viRadical a Γ
    | exact clean_viFunctionDefinition hv a | exact clean_viFunctionCall hv a Γ
    | exact clean_setCur _ | exact clean_viEmptySet a parent | exact clean_viTupleDeclaration hv a
    | exact clean_viAllLogic hv a | exact clean_viArgument hv a | exact clean_viArithmetic hv a Γ
    | exact clean_viCard hv a | exact clean_viQuantifier hv a | exact clean_viEquals hv a Γ
    | exact clean_viIntegerPredicate hv a Γ | exact clean_viSetexprPredicate hv a Γ
    | exact clean_viIterate hv a | exact clean_viAssign hv a | exact clean_viDeclarative hv a
    | exact clean_viImperative hv a | exact clean_viDecart hv a | exact clean_viBoolean hv a
    | exact clean_viRecursion hv a Γ | exact clean_viTuple hv a | exact clean_viEnumeration hv a Γ
    | exact clean_viDebool hv a | exact clean_viSetexprBinary hv a Γ | exact clean_viProjectSet hv a
    | exact clean_viProjectTuple hv a | exact clean_viFilter hv a Γ | exact clean_viReduce hv a
    | exact clean_viGlobalDeclaration hv a

end

theorem clean_visit (Γ : Ctx) : ∀ n : Nat, CleanV (visit Γ n)
  | 0 => fun _ _ => clean_stuck _
  | n+1 => fun p k => clean_dispatch (clean_visit Γ n) k Γ p

/-! ## the value auditor logs exactly when it fails -/

def isFailR {α} : Res α → Prop
  | .fail => True
  | _ => False

/-- running `m` only appends to the log; an `ok` run appends nothing; a failing run of an auditor
with a reporter appends at least one critical error -/
structure VClean (report : Bool) {α : Type} (m : VM α) : Prop where
  run : ∀ s : VSt, ∃ new : List Err, (m s).2.errs = new ++ s.errs ∧
    (isOk (m s).1 → new = []) ∧
    (isFailR (m s).1 → report = true → ∃ e, e ∈ new ∧ isCritical e.1 = true)

variable {report : Bool}

theorem vclean_pure {α} (a : α) : VClean report (VM.pure a) :=
  ⟨fun _ => ⟨[], rfl, by simp, by simp [VM.pure, isFailR]⟩⟩

theorem vclean_stuck {α} (x : String) : VClean report (vStuck x : VM α) :=
  ⟨fun _ => ⟨[], rfl, by simp, by simp [vStuck, isFailR]⟩⟩

theorem vclean_set (c : VClass) : VClean report (vSet c) :=
  ⟨fun _ => ⟨[], rfl, by simp, by simp [vSet, isFailR]⟩⟩

theorem vclean_get : VClean report vGet :=
  ⟨fun _ => ⟨[], rfl, by simp, by simp [vGet, isFailR]⟩⟩

/-- `OnError(eid, pos); return false;` -/
theorem vclean_errFail {α} (eid : Nat) (pos : Int) (hc : isCritical eid = true) :
    VClean report (VM.bind (vErr report eid pos) fun _ => (vFail : VM α)) := by
  refine ⟨fun s => ?_⟩
  cases report with
  | false => exact ⟨[], by simp [VM.bind, vErr, vFail], by simp [VM.bind, vErr, vFail, isOk], by simp⟩
  | true =>
    exact ⟨[(eid, pos)], by simp [VM.bind, vErr, vFail], by simp [VM.bind, vErr, vFail, isOk],
      fun _ _ => ⟨(eid, pos), by simp, hc⟩⟩

theorem vclean_bind {α β} {m : VM α} {f : α → VM β} (hm : VClean report m) (hf : ∀ a, VClean report (f a)) :
    VClean report (VM.bind m f) := by
  refine ⟨fun s => ?_⟩
  obtain ⟨new1, e1, o1, f1⟩ := hm.run s
  unfold VM.bind
  cases hms : m s with
  | mk r s1 =>
    rw [hms] at e1 o1 f1
    cases r with
    | ok a =>
      obtain ⟨new2, e2, o2, f2⟩ := (hf a).run s1
      have h1 : new1 = [] := o1 trivial
      subst h1
      refine ⟨new2, ?_, o2, f2⟩
      simp only []; rw [e2]; simp at e1; rw [e1]
    | fail => exact ⟨new1, e1, by simp [isOk], f1⟩
    | stuck x => exact ⟨new1, e1, by simp [isOk], by simp [isFailR]⟩

theorem vclean_kid (a : Ast) (i : Nat) : VClean report (vKid a i) := by
  unfold vKid; split
  · exact vclean_pure _
  · exact vclean_stuck _

theorem vclean_text (a : Ast) : VClean report (vText a) := by
  unfold vText; split
  · exact vclean_pure _
  · exact vclean_stuck _

def VCleanV (report : Bool) (v : VVisitor) : Prop := ∀ k, VClean report (v k)

section
variable {v : VVisitor} (hv : VCleanV report v)
include hv

theorem vclean_visitChild (a : Ast) (i : Nat) : VClean report (vVisitChild v a i) := by
  unfold vVisitChild; exact vclean_bind (vclean_kid _ _) hv

theorem vclean_visitAll : ∀ ks : List Ast, VClean report (vVisitAll v ks)
  | [] => vclean_pure _
  | k :: ks => by unfold vVisitAll; exact vclean_bind (hv k) fun _ => vclean_visitAll ks

theorem vclean_assertValue (a : Ast) (i : Nat) : VClean report (vAssertValue report v a i) := by
  unfold vAssertValue
  apply vclean_bind (vclean_kid _ _); intro k
  apply vclean_bind (hv k); intro _
  apply vclean_bind vclean_get; intro c
  split
  · exact vclean_errFail _ _ (by decide)
  · exact vclean_pure _

theorem vclean_assertAll (a : Ast) : ∀ n i : Nat, VClean report (vAssertAll report v a n i)
  | 0, _ => vclean_pure _
  | n+1, i => by
    unfold vAssertAll
    exact vclean_bind (vclean_assertValue hv a i) fun _ => vclean_assertAll a n (i + 1)

theorem vclean_allSet (a : Ast) (c : VClass) : VClean report (vAllSet v a c) := by
  unfold vAllSet; exact vclean_bind (vclean_visitAll hv _) fun _ => vclean_set _

theorem vclean_args : ∀ ks : List Ast, VClean report (vArgs v ks)
  | [] => vclean_pure _
  | k :: ks => by
    unfold vArgs
    exact vclean_bind (hv k) fun _ => vclean_bind vclean_get fun _ =>
      vclean_bind (vclean_args ks) fun _ => vclean_pure _

theorem vclean_decartGo : ∀ (ks : List Ast) (t : VClass), VClean report (vDecartGo v ks t)
  | [], _ => vclean_set _
  | k :: ks, t => by
    unfold vDecartGo
    exact vclean_bind (hv k) fun _ => vclean_bind vclean_get fun _ => vclean_decartGo ks _

syntax "vclean_step" ident : tactic
macro_rules
  | `(tactic| vclean_step $hv) => `(tactic| first
    | exact vclean_pure _ | exact vclean_stuck _ | exact vclean_set _ | exact vclean_get
    | exact vclean_kid _ _ | exact vclean_text _
    | (refine vclean_errFail _ _ ?_; decide)
    | exact vclean_visitChild $hv _ _ | exact vclean_visitAll $hv _ | exact vclean_assertValue $hv _ _
    | exact vclean_assertAll $hv _ _ _ | exact vclean_allSet $hv _ _ | exact vclean_args $hv _
    | exact vclean_decartGo $hv _ _
    | apply vclean_bind
    | intro _
    | split
    | (dsimp only; split))

theorem vclean_dispatch (Γ : Ctx) (props : List String) (sub : List String → Ast → Res VClass) (a : Ast) :
    VClean report (vDispatch Γ report props sub v a) := by
  unfold vDispatch
  split
  all_goals (repeat (any_goals (vclean_step hv)))

end

theorem vclean_visit (Γ : Ctx) : ∀ (n : Nat) (report : Bool) (props : List String), VCleanV report (vVisit Γ n report props)
  | 0, _, _ => fun _ => vclean_stuck _
  | n+1, report, props => fun k => vclean_dispatch (vclean_visit Γ n report props) Γ props _ k

end CCVerif.Checker
