import CCVerif.Lemmas.CheckerHomGen
import CCVerif.Lemmas.SynthCorrectRank
/-!
C12, the SEMANTIC clause, COMPOSITION, RELATIVISED (`HomomorphicOn`, Lemmas/CheckerHomGen.lean): the
copies of Lemmas/SynthCorrectHomFrag.lean (`View.CompatibleHom`, `LikeWithLike`, `quotientOf_view`),
Lemmas/SynthCorrectCompose.lean (`ctxStar`, `hom_entry_eq`, `CarrierQuot`, `PairsLike`,
`carrierQuot_view`, `likeWithLike_of_pairs`, `stage_correct`, `noCapture_of_correct`) and
Lemmas/SynthCorrectRank.lean (`carriers_acyclic`, `stage_acyclic`, `stage_acyclic_nokeys`) for an
analysis that is stable under ADMISSIBLE substitutions (`H.Adm φ`) on GOOD definitions (`H.GoodD`)
only. Everything that does not mention `Homomorphic` (`StageExact`, `AcyclicSchema`,
`FullyCorrect.rank`, `exists_bound`, …) is reused as it is.
-/
namespace CCVerif.SchemaGen
open CCVerif CCVerif.Graph

variable {D I : Type} {A : Analysis D I}

/-- the canonical context after the substitution `φ` (`ctxStar`, relativised) -/
def ctxStarOn (A : Analysis D I) (H : HomomorphicOn A) (φ : String → String) (s : List (Cst D)) :
    String → Option I :=
  fun m' => (s.find? (fun c0 => φ c0.alias == m')).map (fun c0 => H.homI φ (entryOf A s c0.uid))

theorem hom_entry_eq_on (hA : Lawful A) (hC : ContentOnly A) (H : HomomorphicOn A) {φ : String → String}
    {s : List (Cst D)} (hadm : H.Adm φ) (hn : (uids s).Nodup) (hfc : FullyCorrect A s) {c : Cst D}
    (hc : c ∈ s) (hgood : H.GoodD c.defn)
    (hbelow : ∀ m ∈ A.mentions c.defn, ∀ a ∈ s, a.alias = m → ∀ b ∈ s, φ b.alias = φ m →
      H.homI φ (entryOf A s a.uid) = H.homI φ (entryOf A s b.uid)) :
    A.analyse [] (ctxStarOn A H φ s) ⟨0, φ c.alias, c.kind, H.homD φ c.defn⟩ =
      H.homI φ (entryOf A s c.uid) := by
  have hu : c.uid ∈ uids s := mem_uids.2 ⟨c, hc, rfl⟩
  have hval : Val A s c.uid (entryOf A s c.uid) := (entryOf_final hA hn hu).val hA (hfc _ hu)
  obtain ⟨c1, hc1, hcu, jf, hd, hok, he⟩ := hval.inv
  have := eq_of_uid_eq hn hc1 hc hcu
  subst this
  rw [he] at hok
  have hctx : ∀ m ∈ A.mentions c1.defn,
      ctxStarOn A H φ s (φ m) = (ctxOf s jf m).map (H.homI φ) := by
    intro m hm
    cases hf : findAliasL s m with
    | none =>
      have := H.missing (skelOf s) (ctxOf s jf) c1 m hm (by unfold ctxOf; rw [hf]; rfl)
      rw [this] at hok; cases hok
    | some v =>
      obtain ⟨d, hdm, hdu, hda⟩ := findAliasL_mem hf
      have hj : jf v = entryOf A s v := (entryOf_eq hA hn (hd _ hm _ hf).final).symm
      unfold ctxOf ctxStarOn
      rw [hf]
      simp only [Option.map_some]
      cases hfind : s.find? (fun c0 => φ c0.alias == φ m) with
      | none =>
        have := List.find?_eq_none.1 hfind d hdm
        rw [hda] at this
        simp at this
      | some c0 =>
        have hc0 := List.mem_of_find?_eq_some hfind
        have e0 : φ c0.alias = φ m := by simpa using List.find?_some hfind
        simp only [Option.map_some]
        rw [hj, ← hdu, hbelow m hm d hdm hda c0 hc0 e0]
  have h1 := H.analyse_hom φ (skelOf s) [] (ctxOf s jf) (ctxStarOn A H φ s) c1 hadm hgood hok hctx
  rw [he, ← h1]
  exact (hC.indep [] [] (ctxStarOn A H φ s) { c1 with alias := φ c1.alias, defn := H.homD φ c1.defn } 0).symm

/-- `CarrierQuot`, relativised: the substitution is admissible, the definitions of the source are good -/
structure CarrierQuotOn (A : Analysis D I) (H : HomomorphicOn A) (τ : Nat → Nat) (φ : String → String)
    (K : Nat → Prop) (s s' : List (Cst D)) : Prop where
  adm : H.Adm φ
  good : ∀ c ∈ s, H.GoodD c.defn
  nodupU : (uids s').Nodup
  nodupA : (s'.map (·.alias)).Nodup
  img : ∀ c ∈ s, ∃ c' ∈ s', c'.uid = τ c.uid ∧ c'.alias = φ c.alias
  carry : ∀ c ∈ s, ¬ K c.uid → (⟨τ c.uid, φ c.alias, c.kind, H.homD φ c.defn⟩ : Cst D) ∈ s'
  kept : ∀ c' ∈ s', ∃ c ∈ s, ¬ K c.uid ∧ c'.uid = τ c.uid
  pairs : ∀ k ∈ s, K k.uid → ∃ v ∈ s, ¬ K v.uid ∧ τ k.uid = τ v.uid ∧
    H.homI φ (entryOf A s k.uid) = H.homI φ (entryOf A s v.uid)
  acyclic : ∃ rk : Nat → Nat, ∀ c' ∈ s', ∀ m ∈ A.mentions c'.defn, ∀ v',
    findAliasL s' m = some v' → rk v' < rk c'.uid

theorem CarrierQuotOn.like_aux (hA : Lawful A) (hC : ContentOnly A) {H : HomomorphicOn A} {τ : Nat → Nat}
    {φ : String → String} {K : Nat → Prop} {s s' : List (Cst D)} (hn : (uids s).Nodup)
    (hfc : FullyCorrect A s) (hq : CarrierQuotOn A H τ φ K s s') (rk : Nat → Nat)
    (hrk : ∀ c' ∈ s', ∀ m ∈ A.mentions c'.defn, ∀ v', findAliasL s' m = some v' → rk v' < rk c'.uid) :
    ∀ (n : Nat), ∀ c ∈ s, ∀ d ∈ s, τ c.uid = τ d.uid → rk (τ c.uid) < n →
      H.homI φ (entryOf A s c.uid) = H.homI φ (entryOf A s d.uid) := by
  intro n
  induction n with
  | zero => intro _ _ _ _ _ h; cases h
  | succ n ih =>
    -- the case of two kept constituents
    have kept2 : ∀ c ∈ s, ∀ d ∈ s, ¬ K c.uid → ¬ K d.uid → τ c.uid = τ d.uid → rk (τ c.uid) < n + 1 →
        H.homI φ (entryOf A s c.uid) = H.homI φ (entryOf A s d.uid) := by
      intro c hc d hd hkc hkd e hlt
      have hcc := hq.carry c hc hkc
      have hdc := hq.carry d hd hkd
      have heq := eq_of_uid_eq hq.nodupU hcc hdc e
      have below : ∀ x ∈ s, (⟨τ x.uid, φ x.alias, x.kind, H.homD φ x.defn⟩ : Cst D) ∈ s' →
          rk (τ x.uid) < n + 1 →
          ∀ m ∈ A.mentions x.defn, ∀ a ∈ s, a.alias = m → ∀ b ∈ s, φ b.alias = φ m →
            H.homI φ (entryOf A s a.uid) = H.homI φ (entryOf A s b.uid) := by
        intro x hx hxc hxlt m hm a ha ham b hb hbm
        obtain ⟨a', ha', hau, haa⟩ := hq.img a ha
        obtain ⟨b', hb', hbu, hba⟩ := hq.img b hb
        have hab : a' = b' := eq_of_alias_eq hq.nodupA ha' hb' (by rw [haa, hba, ham, hbm])
        have hτ : τ a.uid = τ b.uid := by rw [← hau, ← hbu, hab]
        have hres : findAliasL s' (φ m) = some (τ a.uid) := by
          rw [← ham, ← haa, ← hau]; exact findAliasL_of_mem hq.nodupA ha'
        have h1 := hrk _ hxc (φ m)
          (by show φ m ∈ A.mentions (H.homD φ x.defn)
              rw [H.mentions_hom φ x.defn hq.adm (hq.good x hx)]; exact List.mem_map.2 ⟨_, hm, rfl⟩) _ hres
        exact ih a ha b hb hτ (Nat.lt_of_lt_of_le h1 (Nat.le_of_lt_succ hxlt))
      have e1 := hom_entry_eq_on hA hC H hq.adm hn hfc hc (hq.good c hc) (below c hc hcc hlt)
      have e2 := hom_entry_eq_on hA hC H hq.adm hn hfc hd (hq.good d hd) (below d hd hdc (e ▸ hlt))
      rw [← e1, ← e2]
      injection heq with _ h2 h3 h4
      rw [h2, h3, h4]
    -- a removed constituent is replaced by the kept one it is alike to
    have norm : ∀ c ∈ s, ∃ c0 ∈ s, ¬ K c0.uid ∧ τ c.uid = τ c0.uid ∧
        H.homI φ (entryOf A s c.uid) = H.homI φ (entryOf A s c0.uid) := by
      intro c hc
      by_cases hk : K c.uid
      · exact hq.pairs c hc hk
      · exact ⟨c, hc, hk, rfl, rfl⟩
    intro c hc d hd e hlt
    obtain ⟨c0, hc0, hkc, ec, lc⟩ := norm c hc
    obtain ⟨d0, hd0, hkd, ed, ld⟩ := norm d hd
    rw [lc, ld]
    exact kept2 c0 hc0 d0 hd0 hkc hkd (by rw [← ec, ← ed, e]) (by rw [← ec]; exact hlt)

/-- **like with like on the equated pairs suffices** (relativised) -/
theorem CarrierQuotOn.like (hA : Lawful A) (hC : ContentOnly A) {H : HomomorphicOn A} {τ : Nat → Nat}
    {φ : String → String} {K : Nat → Prop} {s s' : List (Cst D)} (hn : (uids s).Nodup)
    (hfc : FullyCorrect A s) (hq : CarrierQuotOn A H τ φ K s s') :
    ∀ c ∈ s, ∀ d ∈ s, τ c.uid = τ d.uid →
      H.homI φ (entryOf A s c.uid) = H.homI φ (entryOf A s d.uid) := by
  obtain ⟨rk, hrk⟩ := hq.acyclic
  intro c hc d hd e
  exact hq.like_aux hA hC hn hfc rk hrk (rk (τ c.uid) + 1) c hc d hd e (Nat.lt_succ_self _)

theorem CarrierQuotOn.toQuotientOfOn (hA : Lawful A) (hC : ContentOnly A) {H : HomomorphicOn A}
    {τ : Nat → Nat} {φ : String → String} {K : Nat → Prop} {s s' : List (Cst D)} (hn : (uids s).Nodup)
    (hfc : FullyCorrect A s) (hq : CarrierQuotOn A H τ φ K s s') : QuotientOfOn A H τ φ s s' where
  adm := hq.adm
  good := hq.good
  nodupU := hq.nodupU
  nodupA := hq.nodupA
  img := hq.img
  kept := by
    intro c' hc'
    obtain ⟨c, hc, hk, e⟩ := hq.kept c' hc'
    exact ⟨c, hc, eq_of_uid_eq hq.nodupU hc' (hq.carry c hc hk) e⟩
  like := hq.like hA hC hn hfc
  acyclic := hq.acyclic

/-- **the result of an identification is acyclic** when the source is ranked compatibly with it
(`carriers_acyclic`, relativised) -/
theorem carriers_acyclic_on (H : HomomorphicOn A) {τ : Nat → Nat} {φ : String → String} {K : Nat → Prop}
    {s s' : List (Cst D)} (hadm : H.Adm φ) (hgood : ∀ c ∈ s, H.GoodD c.defn)
    (nodupU : (uids s').Nodup) (nodupA : (s'.map (·.alias)).Nodup)
    (img : ∀ c ∈ s, ∃ c' ∈ s', c'.uid = τ c.uid ∧ c'.alias = φ c.alias)
    (carry : ∀ c ∈ s, ¬ K c.uid → (⟨τ c.uid, φ c.alias, c.kind, H.homD φ c.defn⟩ : Cst D) ∈ s')
    (kept : ∀ c' ∈ s', ∃ c ∈ s, ¬ K c.uid ∧ c'.uid = τ c.uid)
    (resolved : ∀ c ∈ s, ∀ m ∈ A.mentions c.defn, findAliasL s m ≠ none)
    (rk0 : Nat → Nat)
    (hrk0 : ∀ c ∈ s, ¬ K c.uid → ∀ m ∈ A.mentions c.defn, ∀ a ∈ s, a.alias = m →
      ∃ a0 ∈ s, ¬ K a0.uid ∧ τ a0.uid = τ a.uid ∧ rk0 a0.uid < rk0 c.uid) :
    ∃ rk : Nat → Nat, ∀ c' ∈ s', ∀ m ∈ A.mentions c'.defn, ∀ v',
      findAliasL s' m = some v' → rk v' < rk c'.uid := by
  let P : Nat → Nat → Prop := fun u' n => ∃ c ∈ s, ¬ K c.uid ∧ τ c.uid = u' ∧ rk0 c.uid = n
  refine ⟨fun u' => leastOr0 (P u'), fun c' hc' m' hm' v' hv' => ?_⟩
  obtain ⟨c1, hc1, hk1, e1⟩ := kept c' hc'
  obtain ⟨c, hc, hkc, hτ, hrk⟩ := leastOr0_spec (P := P c'.uid) ⟨rk0 c1.uid, c1, hc1, hk1, e1.symm, rfl⟩
  have hcc : c' = ⟨τ c.uid, φ c.alias, c.kind, H.homD φ c.defn⟩ :=
    eq_of_uid_eq nodupU hc' (carry c hc hkc) hτ.symm
  have hm'' : m' ∈ (A.mentions c.defn).map φ := by
    rw [← H.mentions_hom φ c.defn hadm (hgood c hc)]
    rw [hcc] at hm'
    exact hm'
  obtain ⟨m, hm, rfl⟩ := List.mem_map.1 hm''
  cases hf : findAliasL s m with
  | none => exact absurd hf (resolved c hc m hm)
  | some v =>
    obtain ⟨a, ha, hau, haa⟩ := findAliasL_mem hf
    obtain ⟨a', ha', hau', haa'⟩ := img a ha
    have hres : findAliasL s' (φ m) = some (τ a.uid) := by
      rw [← haa, ← haa', ← hau']; exact findAliasL_of_mem nodupA ha'
    rw [hres] at hv'
    cases hv'
    obtain ⟨a0, ha0, hk0, hτ0, hlt⟩ := hrk0 c hc hkc m hm a ha haa
    show leastOr0 (P (τ a.uid)) < leastOr0 (P c'.uid)
    rw [← hrk]
    exact Nat.lt_of_le_of_lt (leastOr0_le (P := P (τ a.uid)) ⟨a0, ha0, hk0, hτ0, rfl⟩) hlt

end CCVerif.SchemaGen

/-! ## token level -/
namespace CCVerif.SynthCorrect
open CCVerif CCVerif.Translation CCVerif.Dedup CCVerif.Merge CCVerif.Equate CCVerif.Synth
open CCVerif.SchemaGen (Analysis Lawful ContentOnly Homomorphic HomomorphicOn QuotientOfOn CarrierQuotOn
  entryOf FullyCorrect findAliasL)

variable {D I : Type} {A : Analysis D I}

/-- reading commutes with every ADMISSIBLE substitution of the mention tokens on GOOD definitions -/
def View.CompatibleHomOn (V : View D) (H : HomomorphicOn A) : Prop :=
  ∀ (φ : String → String) (d : List Tok), H.Adm φ → H.GoodD (V.read d) →
    V.read (d.map (renTok φ)) = H.homD φ (V.read d)

/-- a view compatible with an unconditional `Homomorphic` is compatible with its relativisation -/
theorem View.CompatibleHom.toOn {V : View D} {H : Homomorphic A} (hV : V.CompatibleHom H) :
    V.CompatibleHomOn H.toOn := fun φ d _ _ => hV φ d

/-- the definitions of the schema are good -/
def GoodSchema (V : View D) (H : HomomorphicOn A) (l : Schema) : Prop :=
  ∀ c ∈ l, H.GoodD (V.read c.definition)

/-- LIKE WITH LIKE (`LikeWithLike`, relativised) -/
def LikeWithLikeOn (V : View D) (A : Analysis D I) (H : HomomorphicOn A) (l : Schema) (tr : Tr)
    (Q : String → String) : Prop :=
  ∀ c ∈ l, ∀ d ∈ l, image tr c.uid = image tr d.uid →
    H.homI Q (entryOf A (V.store l) c.uid) = H.homI Q (entryOf A (V.store l) d.uid)

/-- LIKE WITH LIKE on the equated pairs only (`PairsLike`, relativised) -/
def PairsLikeOn (V : View D) (A : Analysis D I) (H : HomomorphicOn A) (l : Schema) (eqs : List Entry)
    (Q : String → String) : Prop :=
  ∀ e ∈ eqs, H.homI Q (entryOf A (V.store l) e.key) = H.homI Q (entryOf A (V.store l) e.value)

private theorem good_store (V : View D) (H : HomomorphicOn A) {l : Schema}
    (hgood : ∀ c ∈ l, H.GoodD (V.read c.definition)) : ∀ c ∈ V.store l, H.GoodD c.defn := by
  intro c' hc'
  obtain ⟨c, hc, rfl⟩ := List.mem_map.1 hc'
  exact hgood c hc

theorem quotientOfOn_view (V : View D) (H : HomomorphicOn A) (hV : V.CompatibleHomOn H)
    {l r : Schema} {tr : Tr} {eqs : List Entry} {Q : String → String} (hadm : H.Adm Q)
    (hgood : ∀ c ∈ l, H.GoodD (V.read c.definition)) (hQ : StageExact l r tr eqs Q)
    (hlike : LikeWithLikeOn V A H l tr Q) (hac : AcyclicSchema V A r) :
    QuotientOfOn A H (image tr) Q (V.store l) (V.store r) where
  adm := hadm
  good := good_store V H hgood
  nodupU := by rw [uids_store]; exact hQ.nodupU
  nodupA := by rw [aliases_store]; exact hQ.nodupA
  img := by
    intro c' hc'
    obtain ⟨c, hc, rfl⟩ := List.mem_map.1 hc'
    obtain ⟨s, hs, hsu⟩ := List.mem_map.1 (hQ.img c.uid (List.mem_map.2 ⟨c, hc, rfl⟩))
    exact ⟨V.cst s, List.mem_map.2 ⟨s, hs, rfl⟩, hsu, (hQ.aliasOf c hc s hs hsu).symm⟩
  kept := by
    intro s' hs'
    obtain ⟨s, hs, rfl⟩ := List.mem_map.1 hs'
    obtain ⟨c, hc, _, hnk, himg⟩ := hQ.kept s hs
    obtain ⟨s2, hs2, hu2, hk2, hd2, _⟩ := hQ.content c hc hnk
    have : s2 = s := eq_of_mem_nodup (·.uid) r s2 s hQ.nodupU hs2 hs (by rw [hu2, himg])
    subst this
    refine ⟨V.cst c, List.mem_map.2 ⟨c, hc, rfl⟩, ?_⟩
    unfold View.cst
    simp only
    rw [hu2, hk2, hd2, hV Q c.definition hadm (hgood c hc), ← hQ.aliasOf c hc s2 hs2 hu2]
  like := by
    intro c' hc' d' hd' e
    obtain ⟨c, hc, rfl⟩ := List.mem_map.1 hc'
    obtain ⟨d, hd, rfl⟩ := List.mem_map.1 hd'
    exact hlike c hc d hd e
  acyclic := by
    obtain ⟨rk, hrk⟩ := hac
    refine ⟨rk, ?_⟩
    intro c' hc' m hm v' hv'
    obtain ⟨c, hc, rfl⟩ := List.mem_map.1 hc'
    obtain ⟨c2', hc2', rfl, rfl⟩ := SchemaGen.findAliasL_mem hv'
    obtain ⟨c2, hc2, rfl⟩ := List.mem_map.1 hc2'
    exact hrk c hc _ hm c2 hc2 rfl

theorem carrierQuotOn_view (V : View D) (H : HomomorphicOn A) (hV : V.CompatibleHomOn H)
    {l r : Schema} {tr : Tr} {eqs : List Entry} {Q : String → String} (hadm : H.Adm Q)
    (hgood : ∀ c ∈ l, H.GoodD (V.read c.definition)) (hQ : StageExact l r tr eqs Q)
    (hvals : ∀ e ∈ eqs, e.value ∈ uids l ∧ e.value ∉ tkeys eqs)
    (hpl : PairsLikeOn V A H l eqs Q) (hac : AcyclicSchema V A r) :
    CarrierQuotOn A H (image tr) Q (fun u => u ∈ tkeys eqs) (V.store l) (V.store r) where
  adm := hadm
  good := good_store V H hgood
  nodupU := by rw [uids_store]; exact hQ.nodupU
  nodupA := by rw [aliases_store]; exact hQ.nodupA
  img := by
    intro c' hc'
    obtain ⟨c, hc, rfl⟩ := List.mem_map.1 hc'
    obtain ⟨s, hs, hsu⟩ := List.mem_map.1 (hQ.img c.uid (List.mem_map.2 ⟨c, hc, rfl⟩))
    exact ⟨V.cst s, List.mem_map.2 ⟨s, hs, rfl⟩, hsu, (hQ.aliasOf c hc s hs hsu).symm⟩
  carry := by
    intro c' hc' hnk
    obtain ⟨c, hc, rfl⟩ := List.mem_map.1 hc'
    obtain ⟨s, hs, hu, hk, hd, _⟩ := hQ.content c hc hnk
    refine List.mem_map.2 ⟨s, hs, ?_⟩
    unfold View.cst
    simp only
    rw [hu, hk, hd, hV Q c.definition hadm (hgood c hc), ← hQ.aliasOf c hc s hs hu]
  kept := by
    intro s' hs'
    obtain ⟨s, hs, rfl⟩ := List.mem_map.1 hs'
    obtain ⟨c, hc, _, hnk, himg⟩ := hQ.kept s hs
    exact ⟨V.cst c, List.mem_map.2 ⟨c, hc, rfl⟩, hnk, himg.symm⟩
  pairs := by
    intro k' hk' hkk
    obtain ⟨k, hk, rfl⟩ := List.mem_map.1 hk'
    obtain ⟨e, he, hek⟩ := List.mem_map.1 (show k.uid ∈ tkeys eqs from hkk)
    obtain ⟨v, hv, hvu⟩ := List.mem_map.1 (hvals e he).1
    refine ⟨V.cst v, List.mem_map.2 ⟨v, hv, rfl⟩, ?_, ?_, ?_⟩
    · show v.uid ∉ tkeys eqs
      rw [hvu]; exact (hvals e he).2
    · show image tr k.uid = image tr v.uid
      rw [← hek, hvu]; exact hQ.pairs e he
    · have := hpl e he
      rw [hek, ← hvu] at this
      exact this
  acyclic := by
    obtain ⟨rk, hrk⟩ := hac
    refine ⟨rk, ?_⟩
    intro c' hc' m hm v' hv'
    obtain ⟨c, hc, rfl⟩ := List.mem_map.1 hc'
    obtain ⟨c2', hc2', rfl, rfl⟩ := SchemaGen.findAliasL_mem hv'
    obtain ⟨c2, hc2, rfl⟩ := List.mem_map.1 hc2'
    exact hrk c hc _ hm c2 hc2 rfl

/-- **like with like on the equated pairs suffices** (token level, relativised) -/
theorem likeWithLikeOn_of_pairs (hA : Lawful A) (hC : ContentOnly A) (V : View D) (H : HomomorphicOn A)
    (hV : V.CompatibleHomOn H) {l r : Schema} {tr : Tr} {eqs : List Entry} {Q : String → String}
    (hadm : H.Adm Q) (hgood : ∀ c ∈ l, H.GoodD (V.read c.definition))
    (hw : (uids l).Nodup) (hfc : FullyCorrect A (V.store l)) (hQ : StageExact l r tr eqs Q)
    (hvals : ∀ e ∈ eqs, e.value ∈ uids l ∧ e.value ∉ tkeys eqs)
    (hpl : PairsLikeOn V A H l eqs Q) (hac : AcyclicSchema V A r) : LikeWithLikeOn V A H l tr Q := by
  have hq := carrierQuotOn_view V H hV hadm hgood hQ hvals hpl hac
  have hn : (SchemaGen.uids (V.store l)).Nodup := by rw [uids_store]; exact hw
  intro c hc d hd e
  exact hq.like hA hC hn hfc (V.cst c) (List.mem_map.2 ⟨c, hc, rfl⟩) (V.cst d) (List.mem_map.2 ⟨d, hd, rfl⟩) e

/-- **stage_correct_on**: `stage_correct` for an analysis that is stable under ADMISSIBLE substitutions
on GOOD definitions: a stage (`StageExact`) with an admissible renaming on a fully correct schema of
good definitions whose equated pairs are alike and whose result is acyclic: the image of every
constituent has its old entry with the renaming of the stage substituted, and the result is fully
correct. -/
theorem stage_correct_on (hA : Lawful A) (hC : ContentOnly A) (V : View D) (H : HomomorphicOn A)
    (hV : V.CompatibleHomOn H) {l r : Schema} {tr : Tr} {eqs : List Entry} {Q : String → String}
    (hadm : H.Adm Q) (hgood : ∀ c ∈ l, H.GoodD (V.read c.definition))
    (hw : (uids l).Nodup) (hfc : FullyCorrect A (V.store l)) (hQ : StageExact l r tr eqs Q)
    (hvals : ∀ e ∈ eqs, e.value ∈ uids l ∧ e.value ∉ tkeys eqs)
    (hpl : PairsLikeOn V A H l eqs Q) (hac : AcyclicSchema V A r) :
    (∀ c ∈ l, entryOf A (V.store r) (image tr c.uid) = H.homI Q (entryOf A (V.store l) c.uid)) ∧
    FullyCorrect A (V.store r) := by
  have hq := (carrierQuotOn_view V H hV hadm hgood hQ hvals hpl hac).toQuotientOfOn hA hC
    (by rw [uids_store]; exact hw) hfc
  have hn : (SchemaGen.uids (V.store l)).Nodup := by rw [uids_store]; exact hw
  exact ⟨fun c hc => SchemaGen.quotient_entries_on hA hC hn hfc hq (V.cst c) (List.mem_map.2 ⟨c, hc, rfl⟩),
    SchemaGen.quotient_fully_correct_on hA hC hn hfc hq⟩

/-- a fully correct schema has no dangling names (`noCapture_of_correct`; only `H.missing` is used) -/
theorem noCapture_of_correct_on (hA : Lawful A) (H : HomomorphicOn A) (V : View D) {a b : Schema}
    (mr : Schema) (ha : (uids a).Nodup) (hb : (uids b).Nodup)
    (h1 : FullyCorrect A (V.store a)) (h2 : FullyCorrect A (V.store b)) : NoCapture V A a b mr := by
  have key : ∀ (l : Schema), (uids l).Nodup → FullyCorrect A (V.store l) → ∀ n, ¬ Dangling V A l n := by
    rintro l hl hfc n ⟨hn, c, hc, hmn⟩
    exact SchemaGen.FullyCorrect.resolved hA H.missing (by rw [uids_store]; exact hl) hfc (V.cst c)
      (List.mem_map.2 ⟨c, hc, rfl⟩) n hmn ((findAliasL_store_none V).2 hn)
  rintro n (hd | hd)
  · exact absurd hd (key a ha h1 n)
  · exact absurd hd (key b hb h2 n)

/-- **stage_acyclic_on** (`stage_acyclic`, relativised) -/
theorem stage_acyclic_on (hA : Lawful A) (V : View D) (H : HomomorphicOn A) (hV : V.CompatibleHomOn H)
    {l r : Schema} {tr : Tr} {eqs : List Entry} {Q : String → String}
    (hadm : H.Adm Q) (hgood : ∀ c ∈ l, H.GoodD (V.read c.definition))
    (hw : (uids l).Nodup) (hfc : FullyCorrect A (V.store l)) (hQ : StageExact l r tr eqs Q)
    (rk0 : Nat → Nat)
    (hrk0 : ∀ c ∈ l, c.uid ∉ tkeys eqs → ∀ m ∈ A.mentions (V.read c.definition), ∀ a ∈ l, a.alias = m →
      ∃ a0 ∈ l, a0.uid ∉ tkeys eqs ∧ image tr a0.uid = image tr a.uid ∧ rk0 a0.uid < rk0 c.uid) :
    AcyclicSchema V A r := by
  have hn : (SchemaGen.uids (V.store l)).Nodup := by rw [uids_store]; exact hw
  obtain ⟨rk, hrk⟩ := SchemaGen.carriers_acyclic_on (A := A) H (τ := image tr) (φ := Q)
    (K := fun u => u ∈ tkeys eqs) (s := V.store l) (s' := V.store r) hadm (good_store V H hgood)
    (by rw [uids_store]; exact hQ.nodupU) (by rw [aliases_store]; exact hQ.nodupA)
    (by
      intro c' hc'
      obtain ⟨c, hc, rfl⟩ := List.mem_map.1 hc'
      obtain ⟨s, hs, hsu⟩ := List.mem_map.1 (hQ.img c.uid (List.mem_map.2 ⟨c, hc, rfl⟩))
      exact ⟨V.cst s, List.mem_map.2 ⟨s, hs, rfl⟩, hsu, (hQ.aliasOf c hc s hs hsu).symm⟩)
    (by
      intro c' hc' hnk
      obtain ⟨c, hc, rfl⟩ := List.mem_map.1 hc'
      obtain ⟨s, hs, hu, hk, hd, _⟩ := hQ.content c hc hnk
      refine List.mem_map.2 ⟨s, hs, ?_⟩
      unfold View.cst
      simp only
      rw [hu, hk, hd, hV Q c.definition hadm (hgood c hc), ← hQ.aliasOf c hc s hs hu])
    (by
      intro s' hs'
      obtain ⟨s, hs, rfl⟩ := List.mem_map.1 hs'
      obtain ⟨c, hc, _, hnk, himg⟩ := hQ.kept s hs
      exact ⟨V.cst c, List.mem_map.2 ⟨c, hc, rfl⟩, hnk, himg.symm⟩)
    (SchemaGen.FullyCorrect.resolved hA H.missing hn hfc) rk0
    (by
      intro c' hc' hnk m hm a' ha' ham
      obtain ⟨c, hc, rfl⟩ := List.mem_map.1 hc'
      obtain ⟨a, ha, rfl⟩ := List.mem_map.1 ha'
      obtain ⟨a0, ha0, h1, h2, h3⟩ := hrk0 c hc hnk m hm a ha ham
      exact ⟨V.cst a0, List.mem_map.2 ⟨a0, ha0, rfl⟩, h1, h2, h3⟩)
  refine ⟨rk, fun c hc m hm c2 hc2 hal => ?_⟩
  have hres : findAliasL (V.store r) m = some c2.uid := by
    rw [← hal]
    exact SchemaGen.findAliasL_of_mem (s := V.store r) (by rw [aliases_store]; exact hQ.nodupA)
      (c := V.cst c2) (List.mem_map.2 ⟨c2, hc2, rfl⟩)
  exact hrk (V.cst c) (List.mem_map.2 ⟨c, hc, rfl⟩) m hm c2.uid hres

/-- **the duplicate removal alone never creates a cycle** (`stage_acyclic_nokeys`, relativised) -/
theorem stage_acyclic_nokeys_on (hA : Lawful A) (V : View D) (H : HomomorphicOn A)
    (hV : V.CompatibleHomOn H) {l r : Schema} {tr : Tr} {Q : String → String}
    (hadm : H.Adm Q) (hgood : ∀ c ∈ l, H.GoodD (V.read c.definition))
    (hw : (uids l).Nodup) (hwa : (aliases l).Nodup)
    (hfc : FullyCorrect A (V.store l)) (hQ : StageExact l r tr [] Q) : AcyclicSchema V A r := by
  have hn : (SchemaGen.uids (V.store l)).Nodup := by rw [uids_store]; exact hw
  obtain ⟨rk0, hrk0⟩ := SchemaGen.FullyCorrect.rank hA hn hfc
  refine stage_acyclic_on hA V H hV hadm hgood hw hfc hQ rk0 ?_
  intro c hc _ m hm a ha ham
  refine ⟨a, ha, (fun h => by cases h), rfl, ?_⟩
  have hres : findAliasL (V.store l) m = some a.uid := by
    rw [← ham]
    exact SchemaGen.findAliasL_of_mem (s := V.store l) (by rw [aliases_store]; exact hwa)
      (c := V.cst a) (List.mem_map.2 ⟨a, ha, rfl⟩)
  exact hrk0 (V.cst c) (List.mem_map.2 ⟨c, hc, rfl⟩) m hm a.uid hres

end CCVerif.SynthCorrect
